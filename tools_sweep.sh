#!/bin/bash
# developer helper: ./tools_sweep.sh "<ids>" "<seeds>" [tier]  -> one summary line per run
cd "$(dirname "$0")"
tier=${3:-quick}
for s in $2; do for id in $1; do
  t0=$(date +%s)
  out=$(VERIF_SEED=$s timeout 3600 ./check $id --tier $tier 2>&1 | grep -v '^  ' | tail -4 | tr '\n' ' ' | cut -c1-400)
  echo "seed=$s $id rc=$? $(( $(date +%s)-t0 ))s :: $out"
done; done
