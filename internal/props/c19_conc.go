package props

// C19 (B): concurrent transactions sharing ONE serial writer or ONE concurrent writer (race build).

import (
	"fmt"
	"io"
	"math/rand/v2"
	"os"
	"path/filepath"
	"regexp"
	"sort"
	"strings"
	"sync"

	coraza "github.com/corazawaf/coraza/v3"
	"github.com/corazawaf/coraza/v3/types"

	"verif/internal/fw"
	"verif/internal/sl"
)

type c19ConcParams struct {
	Table      string `json:"table"`  // always "concurrent" (lets Replay tell the case kinds apart)
	Writer     string `json:"writer"` // serial | concurrent
	Format     string `json:"format"`
	Engine     string `json:"engine"` // On | RelevantOnly
	Goroutines int    `json:"goroutines"`
	PerG       int    `json:"per_goroutine"`
	Rounds     int    `json:"rounds"`
	GOMAXPROCS int    `json:"gomaxprocs"`
	Salt       uint64 `json:"salt,omitempty"` // replay: PRNG salt of the failing round
	// CloseMid: every goroutine creates its last transaction, then the WAF is closed (experimental.WAFCloser) while
	// half of them finish concurrently with Close and the other half strictly after it. Odd rounds always do this.
	CloseMid bool `json:"close_mid,omitempty"`
}

func c19ConcPlan(tier fw.Tier, seed int64) []c19ConcParams {
	var out []c19ConcParams
	gs := []int{16, 32, 64, 24}
	procs := []int{4, 4, 4, 2}
	n, rounds, perG := 4, 2, 24
	if tier == fw.Thorough {
		n, rounds, perG = 16, 12, 40
		procs = []int{4, 8, 2, 16}
	}
	for i := 0; i < n; i++ {
		k := i + int(seed)
		p := c19ConcParams{Table: "concurrent", Writer: []string{"serial", "concurrent"}[i%2], Format: c19Formats[(i/2+k/4)%4],
			Engine: []string{"On", "RelevantOnly"}[(i/2+k)%2], Goroutines: gs[(i+int(seed))%len(gs)], PerG: perG, Rounds: rounds, GOMAXPROCS: procs[i%len(procs)]}
		if i < 4 {
			// the first four always cover both writers with a line format and the multi-line format
			p.Format = []string{"JSON", "JSON", "Native", "Native"}[i]
			if seed%2 == 0 {
				p.Format = []string{"Native", "OCSF", "JsonLegacy", "Native"}[i]
			}
		}
		out = append(out, p)
	}
	return out
}

type c19ConcTx struct {
	ID      string
	IP      string
	URI     string
	Status  int
	Expect  int // records expected
	Fired   []int
	Panic   *fw.PanicInfo
	AtClose string // "" | "during" (finished while WAF.Close ran) | "after" (created before, finished after WAF.Close)
	caseRef *c19Case
}

var c19ReConcID = regexp.MustCompile(`c19c(?:-\d+)+`)

func c19ConcCase(p *c19ConcParams, r *rand.Rand) *c19Case {
	c := &c19Case{Table: "concurrent", RuleEngine: "On", AuditEngine: p.Engine, Relevant: c19Patterns[0], DefFlags: "nolog", Parts: "ABCEFHKZ", Format: p.Format, Sink: p.Writer}
	c.Rules = []c19Rule{
		{ID: 11, Phase: 1, Flags: "log"},
		{ID: 12, Phase: 2, Flags: "nolog,auditlog", Target: "ARGS:h"},
		{ID: 13, Phase: 3, Flags: "log,noauditlog", Plain: true},
		{ID: 14, Phase: 4, Flags: "nolog"},
		{ID: 30, Phase: 2, Flags: "log,auditlog", Never: true},
	}
	return c
}

func c19HostileRand(r *rand.Rand) string {
	switch x := r.IntN(10); {
	case x < 7:
		return c19Hostile[r.IntN(len(c19Hostile))]
	default:
		b := make([]byte, r.IntN(64))
		for i := range b {
			b[i] = byte(r.IntN(256))
		}
		return string(b)
	}
}

func c19RunConc(w *fw.W, p *c19ConcParams) {
	if p == nil {
		return
	}
	w.Max("concurrent_goroutines", int64(p.Goroutines))
	for round := 0; round < p.Rounds; round++ {
		salt := w.Rng.Uint64()
		if p.Salt != 0 {
			salt = p.Salt
		}
		c19ConcRound(w, p, round, salt)
	}
}

func c19ConcRound(w *fw.W, p *c19ConcParams, round int, salt uint64) {
	base := filepath.Join(w.Scratch, fmt.Sprintf("conc%d", round))
	os.MkdirAll(base, 0o755)
	defer os.RemoveAll(base)
	tmpl := c19ConcCase(p, nil)
	var text string
	serialFile := filepath.Join(base, "audit.log")
	indexFile, storeDir := filepath.Join(base, "index.log"), filepath.Join(base, "store")
	if p.Writer == "serial" {
		text = tmpl.render("Serial", serialFile, "")
	} else {
		text = tmpl.render("Concurrent", indexFile, storeDir)
	}
	var cbMu sync.Mutex
	callbacks := map[string]map[int]int{}
	waf, err := coraza.NewWAF(coraza.NewWAFConfig().WithDirectives(text).WithErrorCallback(func(mr types.MatchedRule) {
		cbMu.Lock()
		m := callbacks[mr.TransactionID()]
		if m == nil {
			m = map[int]int{}
			callbacks[mr.TransactionID()] = m
		}
		m[mr.Rule().ID()]++
		cbMu.Unlock()
	}))
	if err != nil {
		w.Count("build_errors", 1)
		w.Cover("build_error_samples", err.Error())
		return
	}
	defer sl.CloseWAF(waf)
	closeMid := p.CloseMid || round%2 == 1
	rp := *p
	rp.Salt, rp.Rounds, rp.CloseMid = salt, 1, closeMid
	vcase := map[string]any{"table": "concurrent", "conc": rp, "config": text}

	txs := make([][]*c19ConcTx, p.Goroutines)
	var wg, inflight sync.WaitGroup
	start := make(chan struct{})
	allCreated, closed := make(chan struct{}), make(chan struct{})
	var closeErr error
	if closeMid {
		inflight.Add(p.Goroutines)
		go func() {
			inflight.Wait() // every goroutine holds one created, unfinished transaction
			close(allCreated)
			if cl, ok := waf.(io.Closer); ok {
				closeErr = cl.Close()
			}
			close(closed)
		}()
	}
	for g := 0; g < p.Goroutines; g++ {
		wg.Add(1)
		go func(g int) {
			defer wg.Done()
			r := rand.New(rand.NewPCG(salt, uint64(g)+1))
			<-start
			for i := 0; i < p.PerG; i++ {
				c := *tmpl
				c.HdrVal, c.ArgVal = c19Bytes(c19HostileRand(r)), c19Bytes(c19HostileRand(r))
				c.ReqBody, c.RespHdr, c.RespBody = c19Bytes(c19HostileRand(r)), c19Bytes(c19HostileRand(r)), c19Bytes(c19HostileRand(r))
				c.RespStatus = []int{200, 503, 404, 500}[r.IntN(4)]
				t := &c19ConcTx{ID: fmt.Sprintf("c19c-%d-%d-%d-%d", w.Batch.Index, round, g, i), IP: fmt.Sprintf("10.%d.%d.%d", 100+g, i/200, 1+i%200), Status: c.RespStatus, caseRef: &c}
				t.URI = "/c19c/" + t.ID
				t.Expect = c.expect(nil).Records
				var mid func()
				reached := false
				if closeMid && i == p.PerG-1 {
					t.AtClose = []string{"after", "during"}[g%2]
					mid = func() {
						reached = true
						inflight.Done()
						if g%2 == 0 {
							<-closed // NewTransaction -> WAF.Close -> finish
						} else {
							<-allCreated // finish while WAF.Close is running
						}
					}
				}
				t.Panic = fw.Guard(func() {
					t.Fired, _, _ = c19RunTx(waf, &c, t.ID, t.URI, t.IP, mid)
				})
				if mid != nil && !reached {
					inflight.Done()
				}
				txs[g] = append(txs[g], t)
			}
		}(g)
	}
	close(start)
	wg.Wait()
	if closeMid {
		<-closed
		w.Count("waf_closed_with_transactions_in_flight", 1)
		if closeErr != nil {
			w.Cover("waf_close_errors", closeErr.Error())
		}
	}

	// ---- producer side: finished ids with audit expected
	byID := map[string]*c19ConcTx{}
	wantIDs := map[string]int{}
	nExp := 0
	for _, l := range txs {
		for _, t := range l {
			byID[t.ID] = t
			w.Eval(1)
			w.Count("concurrent_transactions", 1)
			if t.AtClose != "" {
				w.Count("close_inflight_transactions", 1)
				w.Count("close_inflight_"+t.AtClose, 1)
			}
			if t.Panic != nil {
				w.Violation("panic:concurrent:"+strings.ToLower(p.Format)+":"+t.Panic.Frame, "recover", vcase, nil, t, t.Panic.Value+"\n"+t.Panic.Stack)
				continue
			}
			if t.Expect > 0 {
				wantIDs[t.ID] = t.Expect
				nExp++
			}
			// callbacks: rules 11 and 13 have logging enabled
			cb := callbacks[t.ID]
			for _, id := range []int{11, 12, 13, 14, 30} {
				want := 0
				if id == 11 || id == 13 {
					want = 1
				}
				w.Count("callbacks", cb[id])
				w.Count("callbacks_expected", want)
				if cb[id] != want {
					w.Violation("concurrent:callback", "error-callback", vcase, want, map[string]any{"tx": t.ID, "rule": id, "callbacks": cb[id], "fired": t.Fired}, fmt.Sprintf("rule %d of %s: %d callback(s), expected %d", id, t.ID, cb[id], want))
				}
			}
		}
	}
	w.Count("records_expected", nExp)

	// ---- consumer side: parse what the writer left behind
	gotIDs := map[string]int{}
	fl := strings.ToLower(p.Format)
	judgeRecord := func(raw []byte, where string) string {
		pr, bad := c19ParseRecord(p.Format, raw)
		if bad != "" {
			w.Violation("concurrent:malformed:"+fl, "file-parser", vcase, nil, map[string]any{"where": where, "record": c19Bytes(c19Clip(raw))}, bad)
			return ""
		}
		w.Count("concurrent_records", 1)
		w.Count("records_seen", 1)
		w.Count("records_parsed", 1)
		gotIDs[pr.TxID]++
		if t := byID[pr.TxID]; t != nil {
			// rules 11 (log) and 12 (nolog,auditlog) are audit-enabled and fire in every transaction
			if fmt.Sprint(pr.Listed) != "[11 12]" || pr.Anon != 0 {
				w.Violation("concurrent:rules", "file-parser", vcase, []int{11, 12}, map[string]any{"tx": t.ID, "parsed": pr}, "record lists other rules than the fired audit-enabled ones")
			} else {
				w.Count("records_with_rules_judged", 1)
			}
			// no foreign transaction id anywhere inside the record
			for _, id := range c19ReConcID.FindAllString(string(raw), -1) {
				if id != t.ID {
					w.Violation("concurrent:interleaved:"+fl, "file-parser", vcase, t.ID, map[string]any{"foreign": id, "record": c19Bytes(c19Clip(raw))}, "a record contains the id of another transaction")
					break
				}
			}
		}
		return pr.TxID
	}
	if p.Writer == "serial" {
		data, _ := os.ReadFile(serialFile)
		recs, bad := c19SplitSerial(p.Format, data)
		w.Count("concurrent_files_parsed", 1)
		if bad != "" {
			w.Violation("concurrent:interleaved:"+fl, "file-parser", vcase, nil, map[string]any{"file": "serial"}, bad)
		}
		for i, r := range recs {
			judgeRecord(r, fmt.Sprintf("record %d of the serial file", i))
		}
	} else {
		var files []string
		filepath.Walk(storeDir, func(pth string, info os.FileInfo, err error) error {
			if err == nil && !info.IsDir() {
				files = append(files, pth)
			}
			return nil
		})
		sort.Strings(files)
		for _, f := range files {
			data, err := os.ReadFile(f)
			if err != nil {
				continue
			}
			w.Count("concurrent_files_parsed", 1)
			id := judgeRecord(data, f)
			if id != "" && !strings.HasSuffix(f, "-"+id) {
				w.Violation("concurrent:wrong-file", "file-parser", vcase, nil, map[string]any{"file": f, "record_id": id}, "record stored under the name of another transaction")
			}
		}
		c19JudgeIndex(w, vcase, indexFile, byID, wantIDs)
		w.Count("concurrent_files_parsed", 1)
	}
	// ---- exactly once, none lost
	for id, n := range wantIDs {
		switch g := gotIDs[id]; {
		case g == 0:
			cls, det := "concurrent:lost-record", "finished transaction with audit expected has no record"
			if t := byID[id]; t != nil && t.AtClose != "" {
				cls += ":inflight-at-waf-close"
				det += " (transaction created before WAF.Close, finished " + t.AtClose + " it)"
			}
			w.Violation(cls, "exactly-once", vcase, n, map[string]any{"tx": id, "records": g, "writer": p.Writer}, det)
		case g > n:
			w.Violation("concurrent:duplicate-record", "exactly-once", vcase, n, map[string]any{"tx": id, "records": g, "writer": p.Writer}, "more than one record for a transaction")
		}
	}
	for id, g := range gotIDs {
		if wantIDs[id] == 0 {
			cls := "concurrent:unexpected-record"
			if byID[id] == nil {
				cls = "concurrent:unknown-id-record"
			}
			w.Violation(cls, "exactly-once", vcase, 0, map[string]any{"tx": id, "records": g}, "record for a transaction that expected none (or an id nobody finished)")
		}
	}
	if len(gotIDs) > 0 {
		w.Nontrivial(fw.Hash(fmt.Sprintf("%v|%d|%d", *p, round, salt)))
		if round == 0 && w.WantSample() {
			w.Sample(map[string]any{"concurrent": rp, "finished": len(byID), "records_expected": nExp, "records_found": len(gotIDs)})
		}
	}
}

func c19Clip(b []byte) []byte {
	if len(b) > 1500 {
		return b[:1500]
	}
	return b
}

// c19JudgeIndex: the index of the concurrent writer. An entry ends with "<id> - <path>"; whatever
// precedes it since the previous entry (on the same line or on earlier lines) must belong to the same
// transaction: its client address, its URI, and no piece of another transaction.
func c19JudgeIndex(w *fw.W, vcase any, indexFile string, byID map[string]*c19ConcTx, wantIDs map[string]int) {
	data, _ := os.ReadFile(indexFile)
	seen := map[string]int{}
	var group []string
	bad := 0
	for _, ln := range strings.Split(string(data), "\n") {
		group = append(group, ln)
		j := strings.LastIndex(ln, " - /")
		if j < 0 {
			continue
		}
		ids := c19ReConcID.FindAllString(ln[:j], -1)
		if len(ids) == 0 {
			continue
		}
		id := ids[len(ids)-1]
		if !strings.HasSuffix(ln[:j], id) {
			continue
		}
		text := strings.Join(group, "\n")
		group = nil
		seen[id]++
		t := byID[id]
		if t == nil {
			continue
		}
		w.Count("concurrent_index_entries", 1)
		problem := ""
		for _, other := range c19ReConcID.FindAllString(text, -1) {
			if other != id {
				problem = "piece of transaction " + other + " inside the entry of " + id
				break
			}
		}
		if problem == "" && strings.Count(text, " - - [") != 1 {
			problem = fmt.Sprintf("%d entry headers inside one entry", strings.Count(text, " - - ["))
		}
		if problem == "" && !strings.Contains(text, t.IP+" ") {
			problem = "entry of " + id + " lacks its client address " + t.IP
		}
		if problem != "" && bad < 3 {
			bad++
			w.Violation("concurrent:interleaved-index", "index-parser", vcase, nil, map[string]any{"entry": c19Bytes(text)}, problem)
		}
	}
	if strings.TrimSpace(strings.Join(group, "")) != "" {
		w.Violation("concurrent:interleaved-index", "index-parser", vcase, nil, map[string]any{"tail": c19Bytes(strings.Join(group, "\n"))}, "text after the last index entry")
	}
	for id, n := range wantIDs {
		if seen[id] != n {
			cls := "concurrent:index-lost-entry"
			if t := byID[id]; t != nil && t.AtClose != "" && seen[id] < n {
				cls += ":inflight-at-waf-close"
			}
			if seen[id] > n {
				cls = "concurrent:index-duplicate-entry"
			}
			w.Violation(cls, "index-parser", vcase, n, map[string]any{"tx": id, "entries": seen[id]}, "index entries for a finished transaction")
		}
	}
}

func c19Finish(d *fw.D) {
	// exactly-once is decided per round inside the workers (each round owns its files); the driver only
	// reports the size of the enumerated tables so that table_cells can be compared with it.
	d.Count("table_cells_planned", c19Product(c19DecisionDims())+c19Product(c19ContentDims())+c19Product(c19PartsDims())+c19Product(c19LateDims())+c19Product(c19MultiDims())+c19Product(c19NoPatDims()))
}
