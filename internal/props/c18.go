package props

// C18: HTTP middleware blocks completely and otherwise passes traffic through intact.
//
// Differential between a scripted handler served bare and the same handler wrapped by
// txhttp.WrapHandler, both behind a real httptest.Server (real net/http framing, Flush, ReadFrom,
// 1xx), plus a small blocking model that decides "interrupted" from rules the request / the handler
// script steer (never from the transaction's own verdict).
//
// Files: c18.go (types, rendering, registration), c18_gen.go (generators), c18_run.go (servers,
// handler interpreter, client), c18_judge.go (model and oracles).

import (
	"encoding/json"
	"fmt"
	"strings"

	"verif/internal/fw"
)

// ---- configuration -------------------------------------------------------------------------

const (
	c18ReqMarker  = "zq2mark"
	c18RespMarker = "zq4mark"
	c18ReqSteer   = "X-Blk"     // request header steering rules (value holds tokens p1..p4)
	c18RespSteer  = "X-Out-Blk" // response header steering phase 3/4 rules
)

// c18Rule is one disruptive rule, steerable from the request or from the handler's response.
type c18Rule struct {
	Phase  int    `json:"phase"`
	Steer  string `json:"steer"`  // reqhdr | reqbody | resphdr | respbody
	Action string `json:"action"` // deny | redirect | drop
	Status int    `json:"status,omitempty"`
	URL    string `json:"url,omitempty"`
}

type c18Cfg struct {
	Pop         string    `json:"pop"` // deny (main) | redirect | drop
	ReqAccess   bool      `json:"req_access"`
	ReqLimit    int       `json:"req_limit"`
	ReqMemLimit int       `json:"req_mem_limit"`
	ReqReject   bool      `json:"req_reject"`
	RespAccess  bool      `json:"resp_access"`
	RespLimit   int       `json:"resp_limit"`
	RespReject  bool      `json:"resp_reject"`
	Mime        []string  `json:"mime"`
	Rules       []c18Rule `json:"rules"`
	// CtlResp: a SecAction, first rule of phase CtlRespPhase (1..3), switches response-body inspection for the
	// transaction: "access=On" | "access=Off" (ctl:responseBodyAccess) | "force" (ctl:forceResponseBodyVariable=On).
	// CtlEngineDO: the first rule of phase 1 switches the transaction to DetectionOnly (ctl:ruleEngine): nothing is
	// blocked any more, whatever the rules and limits say, and the traffic passes intact
	CtlEngineDO  bool   `json:"ctl_engine_detection_only,omitempty"`
	CtlResp      string `json:"ctl_resp,omitempty"`
	CtlRespPhase int    `json:"ctl_resp_phase,omitempty"`
}

// c18Buffered: is the response body of this exchange held back and inspected? (only asked once phases 1-3 have
// passed without blocking, so a configured ctl has taken effect)
func c18Buffered(c *c18Cfg, contentType string) bool {
	access, force := c.RespAccess, false
	switch c.CtlResp {
	case "access=On":
		access = true
	case "access=Off":
		access = false
	case "force":
		force = true
	}
	return access && (force || c18MimeIn(contentType, c.Mime))
}

func onOff(b bool) string {
	if b {
		return "On"
	}
	return "Off"
}

func limitAction(reject bool) string {
	if reject {
		return "Reject"
	}
	return "ProcessPartial"
}

// Render produces the directive text of a configuration.
func (c *c18Cfg) Render() string {
	var sb strings.Builder
	sb.WriteString("SecRuleEngine On\n")
	fmt.Fprintf(&sb, "SecRequestBodyAccess %s\n", onOff(c.ReqAccess))
	fmt.Fprintf(&sb, "SecRequestBodyLimit %d\n", c.ReqLimit)
	fmt.Fprintf(&sb, "SecRequestBodyInMemoryLimit %d\n", c.ReqMemLimit)
	fmt.Fprintf(&sb, "SecRequestBodyLimitAction %s\n", limitAction(c.ReqReject))
	fmt.Fprintf(&sb, "SecResponseBodyAccess %s\n", onOff(c.RespAccess))
	fmt.Fprintf(&sb, "SecResponseBodyMimeType %s\n", strings.Join(c.Mime, " "))
	fmt.Fprintf(&sb, "SecResponseBodyLimit %d\n", c.RespLimit)
	fmt.Fprintf(&sb, "SecResponseBodyLimitAction %s\n", limitAction(c.RespReject))
	sb.WriteString(`SecRule REQUEST_HEADERS:Content-Type "@beginsWith application/json" "id:9,phase:1,pass,nolog,ctl:requestBodyProcessor=JSON"` + "\n")
	if c.CtlEngineDO {
		sb.WriteString("SecAction \"id:6,phase:1,pass,nolog,ctl:ruleEngine=DetectionOnly\"\n")
	}
	switch c.CtlResp {
	case "access=On", "access=Off":
		fmt.Fprintf(&sb, "SecAction \"id:7,phase:%d,pass,nolog,ctl:responseBodyAccess=%s\"\n", c.CtlRespPhase, strings.TrimPrefix(c.CtlResp, "access="))
	case "force":
		fmt.Fprintf(&sb, "SecAction \"id:7,phase:%d,pass,nolog,ctl:forceResponseBodyVariable=On\"\n", c.CtlRespPhase)
	}
	for _, r := range c.Rules {
		var target, op string
		switch r.Steer {
		case "reqhdr":
			target, op = "REQUEST_HEADERS:"+c18ReqSteer, fmt.Sprintf("@contains p%d", r.Phase)
		case "reqbody":
			target, op = "REQUEST_BODY|ARGS_POST", "@contains "+c18ReqMarker
		case "resphdr":
			target, op = "RESPONSE_HEADERS:"+c18RespSteer, fmt.Sprintf("@contains p%d", r.Phase)
		case "respbody":
			target, op = "RESPONSE_BODY", "@contains "+c18RespMarker
		}
		act := r.Action
		if r.Action == "redirect" {
			act = "redirect:" + r.URL
		}
		if r.Status != 0 {
			act += fmt.Sprintf(",status:%d", r.Status)
		}
		fmt.Fprintf(&sb, "SecRule %s \"%s\" \"id:%d,phase:%d,nolog,%s\"\n", target, op, 100+r.Phase, r.Phase, act)
	}
	return sb.String()
}

func (c *c18Cfg) rule(phase int) *c18Rule {
	for i := range c.Rules {
		if c.Rules[i].Phase == phase {
			return &c.Rules[i]
		}
	}
	return nil
}

// ---- request and handler script ------------------------------------------------------------

type c18Req struct {
	Method  string `json:"method"`
	Path    string `json:"path"`
	Blk     string `json:"blk,omitempty"` // value of the X-Blk request header
	CT      string `json:"ct,omitempty"`
	Body    []byte `json:"body,omitempty"` // base64 in JSON
	Chunked bool   `json:"chunked,omitempty"`
}

// c18Op is one step of a handler script.
//
//	hdr/addhdr/delhdr K V   w.Header().Set/Add/Del
//	status Code             w.WriteHeader(Code)
//	write Data              w.Write(Data)
//	flush                   w.(http.Flusher).Flush()
//	readfrom Data Step      w.(io.ReaderFrom).ReadFrom(reader over Data); Step 0: *bytes.Reader,
//	                        Step k>0: a plain io.Reader yielding at most k bytes per Read
//	readbody N              N<0: io.ReadAll(r.Body); N>=0: io.ReadFull of N bytes (short at EOF)
type c18Op struct {
	Op   string `json:"op"`
	K    string `json:"k,omitempty"`
	V    string `json:"v,omitempty"`
	Code int    `json:"code,omitempty"`
	Data []byte `json:"data,omitempty"`
	N    int    `json:"n,omitempty"`
	Step int    `json:"step,omitempty"`
}

type c18Script struct {
	Ops []c18Op `json:"ops"`
}

type c18Case struct {
	Cfg    *c18Cfg    `json:"cfg"`
	Text   string     `json:"config"`
	Req    *c18Req    `json:"request"`
	Script *c18Script `json:"script"`
}

// ---- registration ----------------------------------------------------------------------------

type c18Params struct {
	Configs int `json:"configs"`
	PerCfg  int `json:"per_cfg"`
}

func init() {
	fw.Register(&fw.Prop{
		ID: "C18", Level: "exploration",
		Rule: "triples (configuration, request, handler script): configurations vary body access, MIME list, small request/response limits (with in-memory limit), Reject/ProcessPartial and up to four disruptive rules (one per phase 1-4) steerable from a request header, the request body, a response header or the response body, and in 30 % of them a ctl (first rule of phase 1, 2 or 3) that switches response-body inspection for the transaction (ctl:responseBodyAccess=On/Off, ctl:forceResponseBodyVariable=On); requests vary method, content type, Content-Length vs chunked and body sizes below/at/above both request limits; scripts are sequences of header edits, WriteHeader (1xx, 2xx, 204, 304, 4xx, 5xx or none), Write chunks, Flush, ReadFrom and request-body reads (full/partial/none). Each triple is served by a bare handler and by the same handler behind coraza's WrapHandler on real httptest servers; pass-through is judged differentially (status, end-to-end headers, body, 1xx list, bytes the handler read), blocking by a model steered by the generated rule. A triple is non-trivial when it passes through with at least one body byte in either direction, or when it is blocked and the bare response is observably different from the expected block response; distinct by hash of (configuration, request, script).",
		Assumptions: []string{
			"the bare net/http server is the oracle for pass-through; framing/hop headers (Content-Length, Transfer-Encoding, Date, Connection) are masked, and Content-Type is masked when the handler did not set one (net/http sniffing depends on write chunking)",
			"whether a steered rule matches is computed from the generated rule and the generated request/script (bytes inside the processed prefix of a body), not read from the transaction",
			"bodies exactly at a limit under Reject may be rejected or accepted (C10 decides the boundary); both outcomes are accepted here and counted as at_limit_either",
			"request bodies are read by the handler only before it starts responding (net/http itself discards unread request bytes when the response header is written, bare and wrapped alike, at times that depend on buffering)",
			"redirect and drop actions are a separate labelled population (never mixed into deny configurations); limit-Reject outcomes (413 / 500) are a separately modelled population",
			"phase-4 expectations that depend on what RESPONSE_BODY holds for a body-less status (204/304/HEAD) or on partially processed JSON are skipped and counted as ambiguous_skipped",
		},
		Required: []string{"passthrough_compared", "blocked_phase1", "blocked_phase2", "blocked_phase3", "blocked_phase4", "blocked_reqlimit", "blocked_resplimit", "flushes", "readfrom", "handler_read_bytes", "spill_to_disk_cases", "informational_scripts"},
		Plan: func(tier fw.Tier, seed int64) []fw.Batch {
			n, p := 16, c18Params{Configs: 100, PerCfg: 24}
			if tier == fw.Thorough {
				n, p = 64, c18Params{Configs: 500, PerCfg: 32}
			}
			raw, _ := json.Marshal(p)
			var bs []fw.Batch
			for i := 0; i < n; i++ {
				bs = append(bs, fw.Batch{Index: i, Flavour: "plain", Params: raw, TimeoutS: 3600})
			}
			return bs
		},
		Run: func(w *fw.W, b fw.Batch) {
			var p c18Params
			if json.Unmarshal(b.Params, &p) != nil || p.Configs == 0 {
				p = c18Params{Configs: 100, PerCfg: 20}
			}
			env, err := c18NewEnv()
			if err != nil {
				w.Count("env_errors", 1)
				return
			}
			defer env.Close()
			for i := 0; i < p.Configs; i++ {
				cfg := c18GenCfg(w.Rng)
				text := cfg.Render()
				if err := env.SetConfig(text); err != nil {
					w.Count("build_errors", 1)
					w.Cover("build_error_samples", err.Error())
					continue
				}
				for j := 0; j < p.PerCfg; j++ {
					req, script := c18GenTriple(w.Rng, cfg)
					c := &c18Case{Cfg: cfg, Text: text, Req: req, Script: script}
					c18Judge(w, env, c)
					if j == 0 && w.WantSample() {
						w.Sample(c)
					}
				}
			}
		},
		Replay: func(w *fw.W, raw json.RawMessage) {
			var c c18Case
			if json.Unmarshal(raw, &c) != nil || c.Cfg == nil || c.Req == nil || c.Script == nil {
				return
			}
			c.Text = c.Cfg.Render()
			env, err := c18NewEnv()
			if err != nil {
				return
			}
			defer env.Close()
			if err := env.SetConfig(c.Text); err != nil {
				return
			}
			for i := 0; i < 3; i++ {
				c18Judge(w, env, &c)
			}
		},
	})
}
