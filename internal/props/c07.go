package props

import (
	"encoding/json"
	"os"
	"runtime/pprof"
	"sort"
	"strings"

	"verif/internal/fw"
)

// C07: the library never panics (or hangs), whatever configuration text or traffic it is given.
//
// Population: (4, c07_fi.go) structured configurations combining stateful features pairwise / in triples,
// (1) a systematic sweep that uses every registered directive, action, operator,
// transformation and variable name in every documented spelling / argument shape, (2) random
// compositions of the same material, (3) byte-level mutants of both; every accepted configuration
// receives generated requests/responses through enumerated call sequences. Oracle: recover()
// around NewWAF and around every Transaction call, the child process catches fatals, CPU time per
// call is measured on the executing thread.

type c07Params struct {
	Part  int `json:"part"`
	Parts int `json:"parts"`
	// Kind: "" population batch; "known" replays the known-finding witnesses (c07_known.go);
	// "witness" is the child process of such a batch executing one witness.
	Kind    string `json:"kind,omitempty"`
	Witness string `json:"witness,omitempty"`
}

type c07Sizes struct {
	batches     int
	sweepReqs   int // transactions per accepted sweep configuration
	random      int // random configurations per batch
	randomReqs  int
	mutPerCfg   int // single mutants per (sweep or random) configuration
	mutReqs     int
	truncEvery  int // every n-th configuration gets one line truncated at every offset
	seqRandomPc int // percentage of random call sequences
}

func c07SizesFor(t fw.Tier) c07Sizes {
	if t == fw.Thorough {
		return c07Sizes{batches: 64, sweepReqs: 40, random: 2500, randomReqs: 24, mutPerCfg: 4, mutReqs: 6, truncEvery: 6, seqRandomPc: 30}
	}
	return c07Sizes{batches: 16, sweepReqs: 20, random: 150, randomReqs: 20, mutPerCfg: 2, mutReqs: 4, truncEvery: 25, seqRandomPc: 25}
}

type c07Runner struct {
	w      *fw.W
	x      *c07X
	voc    c07Vocab
	sz     c07Sizes
	seqIdx int
	cov    [c07NReg]map[string]bool // names in accepted configurations
	disp   map[string]bool          // always-rejected directives that were dispatched
	noShp  map[string]bool
}

func (rn *c07Runner) nextSeq() string {
	if rn.w.Rng.IntN(100) < rn.sz.seqRandomPc {
		return c07RandSeq(rn.w.Rng)
	}
	rn.seqIdx++
	return c07Sequences[rn.seqIdx%len(c07Sequences)]
}

func (rn *c07Runner) logLevel() int {
	switch x := rn.w.Rng.IntN(8); {
	case x < 4:
		return 3
	case x < 6:
		return 9
	}
	return rn.w.Rng.IntN(10)
}

// runText compiles one configuration text and, if accepted, pushes nReq transactions through it.
func (rn *c07Runner) runText(text string, files map[string]string, origin string, nReq int) bool {
	w := rn.w
	cs := &c07Case{Config: c07B(text), LogLevel: rn.logLevel(), Origin: origin}
	if len(files) > 0 {
		cs.Files = map[string]c07B{}
		for k, v := range files {
			cs.Files[k] = c07B(v)
		}
	}
	waf, ok := rn.x.Build(cs)
	if !ok {
		return false
	}
	ch := fw.Hash(text)
	// Candidate known finding (notes/findings/C07.md, "audit log amplification"): with audit log parts H and K a
	// rule matching N values costs ProcessLogging super-linear time (N = 1000 from a 2 KiB body: > 40 CPU-s).
	// Configurations that touch the audit engine therefore get bodies nested at most 48 levels, which keeps N small.
	deep := 3000
	if lt := strings.ToLower(text); strings.Contains(lt, "audit") {
		deep = 48
		w.Count("configs_with_audit_directives", 1)
	}
	for i := 0; i < nReq; i++ {
		tc := *cs
		tc.Req = c07Request(w.Rng, deep)
		tc.Seq = rn.nextSeq()
		good := rn.x.RunTx(waf, &tc)
		if c07IsEnumerated[tc.Seq] {
			w.Cover("sequences_used", tc.Seq)
		} else {
			w.Count("random_sequences_used", 1)
		}
		w.Count("body_kind/"+tc.Req.BodyKind, 1)
		w.Count("resp_body_kind/"+tc.Req.RespKind, 1)
		w.Nontrivial(ch ^ fw.Hash(tc.Seq) ^ fw.Hash(string(tc.Req.URI)+"\x00"+string(tc.Req.Body)+"\x00"+string(tc.Req.RespBody)))
		if w.WantSample() && i == 0 && strings.HasPrefix(origin, "random") {
			w.Sample(&tc)
		}
		if !good {
			break
		}
	}
	rn.x.CloseWAF(waf, cs)
	return true
}

func (rn *c07Runner) runCfg(c *c07Cfg, nReq int) bool {
	text := c.text()
	for k := range c.noShp {
		rn.noShp[k] = true
	}
	for name := range c.used[c07Dir] {
		if c07AlwaysRejected[name] {
			rn.disp[name] = true
		}
	}
	ok := rn.runText(text, c.files, c.origin, nReq)
	if ok {
		for reg := range c.used {
			for name, used := range c.used[reg] {
				if used {
					rn.cov[reg][name] = true
				}
			}
		}
		rn.w.Count("accepted_by_origin/"+originKind(c.origin), 1)
	} else {
		rn.w.Count("rejected_by_origin/"+originKind(c.origin), 1)
	}
	return ok
}

var c07IsEnumerated = func() map[string]bool {
	m := map[string]bool{}
	for _, s := range c07Sequences {
		m[s] = true
	}
	return m
}()

func originKind(o string) string {
	if i := strings.IndexByte(o, ':'); i >= 0 {
		return o[:i]
	}
	return o
}

func (rn *c07Runner) mutants(c *c07Cfg, idx int) {
	w := rn.w
	text := c.text()
	for i := 0; i < rn.sz.mutPerCfg; i++ {
		kind := c07MutKinds[w.Rng.IntN(len(c07MutKinds))]
		m := c07Mutate(w.Rng, text, kind)
		if m == text {
			continue
		}
		w.Count("mutants", 1)
		w.Count("mutants/"+kind, 1)
		if rn.runText(m, c.files, "mutant:"+kind+":"+c.origin, rn.sz.mutReqs) {
			w.Count("mutants_accepted", 1)
		}
	}
	if rn.sz.truncEvery > 0 && idx%rn.sz.truncEvery == 0 {
		lines := strings.Split(text, "\n")
		// prefer a rule line: they carry the hand-written scanners
		var cands []int
		for i, l := range lines {
			if strings.HasPrefix(l, "SecRule") || strings.HasPrefix(l, "SecAction") {
				cands = append(cands, i)
			}
		}
		if len(cands) == 0 {
			for i := range lines {
				cands = append(cands, i)
			}
		}
		li := cands[w.Rng.IntN(len(cands))]
		for off := 0; off < len(lines[li]) && off < 400; off++ {
			m := c07TruncateLine(text, li, off)
			w.Count("mutants", 1)
			w.Count("mutants/truncate-line", 1)
			if rn.runText(m, c.files, "mutant:truncate-line:"+c.origin, 1) {
				w.Count("mutants_accepted", 1)
			}
		}
	}
}

// randomCfg composes a configuration from random settings, rules and management directives.
func (rn *c07Runner) randomCfg() *c07Cfg {
	r := rn.w.Rng
	c := c07NewCfg(r, &rn.voc, "random")
	oddP := []float64{0, 0, 0.05, 0.3}[r.IntN(4)]
	if r.IntN(5) != 0 {
		c.prelude()
	}
	for i := r.IntN(4); i > 0; i-- {
		c.randSetting(oddP)
	}
	if r.IntN(3) == 0 {
		c.defaultAction(r.Float64() < oddP)
	}
	var ids []int
	if r.IntN(2) == 0 {
		ids = c.ruleSet()
	}
	for i := 1 + r.IntN(8); i > 0; i-- {
		c.randRule(oddP)
		if r.IntN(6) == 0 {
			c.manage(r.IntN(7), append(ids, c.nextID-1), r.Float64() < oddP)
		}
		if r.IntN(10) == 0 {
			c.dir("SecMarker", c.pick([]string{"M1", "END", "nonexistent"}))
		}
	}
	if r.IntN(4) == 0 {
		c.randSetting(oddP)
	}
	return c
}

func c07Profile() func() {
	if pf := os.Getenv("C07_CPUPROFILE"); pf != "" { // development aid
		if f, err := os.Create(pf); err == nil {
			pprof.StartCPUProfile(f)
			return pprof.StopCPUProfile
		}
	}
	return func() {}
}

func c07Run(w *fw.W, b fw.Batch) {
	defer c07Profile()()
	var p c07Params
	json.Unmarshal(b.Params, &p)
	switch p.Kind {
	case "known":
		c07RunKnown(w, "")
		return
	case "witness":
		c07RunWitnessChild(w, p.Witness)
		return
	}
	if p.Parts <= 0 {
		p.Parts = 1
	}
	rn := &c07Runner{w: w, x: c07NewX(w), voc: c07LoadVocab(), sz: c07SizesFor(w.Tier), disp: map[string]bool{}, noShp: map[string]bool{}}
	for i := range rn.cov {
		rn.cov[i] = map[string]bool{}
	}
	rn.seqIdx = w.Rng.IntN(len(c07Sequences))
	tStart := c07ThreadCPU()
	sweep := c07Sweep(&rn.voc, w.Rng)
	w.Max("sweep_size", int64(len(sweep)))
	w.Count("panics", 0)
	w.Count("cpu_bound_exceeded", 0)
	w.Count("configs_panicked", 0)
	n := 0
	if os.Getenv("C07_FI_ONLY") == "1" { // development aid: only the feature-interaction population
		sweep, rn.sz.random = nil, 0
	}
	for i, c := range sweep {
		if i%p.Parts != p.Part {
			continue
		}
		n++
		rn.runCfg(c, rn.sz.sweepReqs)
		rn.mutants(c, i/p.Parts+p.Part)
		rn.x.flushCounters()
	}
	w.Count("sweep_configs", n)
	for i := 0; i < rn.sz.random; i++ {
		c := rn.randomCfg()
		rn.runCfg(c, rn.sz.randomReqs)
		rn.mutants(c, i)
		rn.x.flushCounters()
	}
	w.Count("random_configs", rn.sz.random)
	// feature-interaction population (c07_fi.go)
	tMain := c07ThreadCPU()
	if os.Getenv("C07_FI_ONLY") != "no" { // development aid: "no" leaves it out (cost measurements)
		c07RunFI(rn, p.Part, p.Parts)
	}
	// evidence only: CPU time of the executing thread spent in the two populations
	w.Count("thread_cpu_ms/sweep_random_mutants", int((tMain - tStart).Milliseconds()))
	w.Count("thread_cpu_ms/feature_interaction", int((c07ThreadCPU() - tMain).Milliseconds()))
	// report coverage
	rec := map[string][]string{}
	for reg := range rn.cov {
		for name := range rn.cov[reg] {
			rec[c07RegName[reg]] = append(rec[c07RegName[reg]], name)
			w.Cover("names_covered_"+c07RegName[reg], name)
		}
	}
	for name := range rn.disp {
		rec["dispatched"] = append(rec["dispatched"], name)
	}
	for k := range rn.noShp {
		rec["noshape"] = append(rec["noshape"], k)
		w.Cover("names_without_shape", k)
	}
	w.Record("covered", rec)
}

func c07Finish(d *fw.D) {
	c07fiFinish(d)
	voc := c07LoadVocab()
	cov := map[string]map[string]bool{}
	for _, rec := range d.Records {
		if rec.Key != "covered" {
			continue
		}
		var m map[string][]string
		if json.Unmarshal(rec.Value, &m) != nil {
			continue
		}
		for reg, names := range m {
			if cov[reg] == nil {
				cov[reg] = map[string]bool{}
			}
			for _, n := range names {
				cov[reg][n] = true
			}
		}
	}
	var missing []string
	for reg := range voc {
		rn := c07RegName[reg]
		for _, name := range voc[reg] {
			ok := cov[rn][name]
			if !ok && reg == c07Dir && c07AlwaysRejected[name] && cov["dispatched"][name] {
				ok = true
			}
			if ok {
				d.Count("names_covered_n/"+rn, 1)
			} else {
				missing = append(missing, rn+"/"+name)
			}
		}
		d.Count("names_registered_n/"+rn, len(voc[reg]))
	}
	sort.Strings(missing)
	d.Count("names_missing", 0)
	for _, m := range missing {
		d.Count("names_missing", 1)
		d.Count("names_missing_list/"+m, 1)
	}
	if len(missing) == 0 {
		d.Count("names_complete", 1)
	}
	d.Count("names_without_shape", len(cov["noshape"]))
}

func c07Replay(w *fw.W, raw json.RawMessage) {
	var wc c07WitnessCase
	if json.Unmarshal(raw, &wc) == nil && wc.Witness != "" {
		c07RunKnown(w, wc.Witness)
		return
	}
	var c c07Case
	if json.Unmarshal(raw, &c) != nil {
		return
	}
	defer c07Profile()()
	x := c07NewX(w)
	if c.Pred != nil {
		// history replay: compile the predecessor first and leave its cache entries in place
		pc := c
		pc.Config, pc.Pred, pc.Req = *c.Pred, nil, nil
		x.Build(&pc)
		x.keepCache = true
	}
	waf, ok := x.Build(&c)
	if !ok {
		return
	}
	if c.Req != nil {
		for i := 0; i < 3; i++ {
			if !x.RunTx(waf, &c) {
				break
			}
		}
	}
	x.CloseWAF(waf, &c)
	x.flushCounters()
}

func init() {
	fw.Register(&fw.Prop{
		ID: "C07", Level: "exploration",
		Rule: "population = (1) a systematic sweep using every registered directive, action, operator, transformation and variable name (vocabulary read from the library's registries at run time) in every documented spelling and argument shape (valid and odd), incl. setvar deletion / no value, counts and regex keys on every collection, %{VAR} and %{VAR.key} macros for every variable in msg, logdata, setvar, setenv and operator arguments, every ctl option, SecRuleRemoveBy*/SecRuleUpdate* over rule sets with msg-less rules, markers and chains, SecDefaultAction, data files and Include through an fs.FS root; (2) random compositions of the same material; (3) byte-level mutants (delete/duplicate/replace/insert one byte or delimiter, swap two tokens, join lines, one line truncated at every offset). Every accepted configuration receives generated requests/responses (bodies: urlencoded, multipart, JSON, XML, raw, mismatched; response bodies with response body access on) through enumerated call sequences (standard, each call skipped, each call repeated, body writes before/after their phase, phases out of order, random walks), Close always last. (4) Feature-interaction population (c07_fi.go): valid structured configurations assembled from a catalogue of stateful features: settings values in 13 dimensions (SecRuleEngine On/DetectionOnly/Off; SecAuditEngine On/Off/RelevantOnly; SecAuditLogRelevantStatus restrictive/any; audit parts default/all/minimal; formats JSON/JsonLegacy/Native/OCSF; writers verifmem (in memory), Serial on /dev/null, Concurrent in the scratch directory; request and response body access On/Off; request and response body limits with both limit actions; in-memory limit; SecDefaultAction per phase interrupting/allow/pass; body-processor selection rules) and rule features (deny, drop, redirect, block, allow / allow:phase / allow:request, pass; ctl:ruleEngine and ctl:auditEngine with each value, ctl:auditLogParts, ctl:requestBodyAccess / responseBodyAccess with each value, ctl:requestBodyProcessor / responseBodyProcessor, ctl:forceRequestBodyVariable / forceResponseBodyVariable, ctl:requestBodyLimit / responseBodyLimit, ctl:ruleRemoveById/ByTag/ByMsg, ctl:ruleRemoveTargetById/ByTag/ByMsg; skip; skipAfter with markers placed later (or missing); setvar / expirevar / initcol / setenv with macros; capture; multiMatch with transformations; logdata with macros; auditlog; noauditlog). A configuration takes at most one value per dimension and 5-10 rule features; each rule feature sits in a random phase 1-5 (switches that matter at logging time preferably late, body switches preferably early), as SecRule, SecAction or chain starter (non-disruptive actions also on the chain link), now and then two features on one rule; each rule is steerable from the request (argument f<k>, header X-F<k>, body token in urlencoded / JSON / XML / multipart / raw bodies, response header, response body token; chain links by c<k> / X-C<k>). The first configurations are a greedy covering design in which EVERY PAIR of compatible catalogue features is configured together (the same list in every batch, derived from the seed; each batch executes its share), the others are random combinations (triples). Every configuration receives transactions whose steering switches on all, a random half, or 2-3 of its rules, through the standard sequence (half of them) or truncated / reordered ones: headers only, body without headers, logging twice / first / never, Close twice, response phases without request phases, the whole cycle again after logging, further calls after an interruption, reader entry points, sequences of the main list, random walks. The evidence reports how many pairs and triples of features were configured together and how many FIRED together in one transaction (a rule feature fired when the head rule of its slot is in tx.MatchedRules(); a settings feature when the call it governs was executed: a phase call / ProcessLogging / a non-empty body write / any match for SecDefaultAction); fi_pairs_all_configured, fi_features_all_fired and fi_configs_all_accepted are required. Monitors: recover() around NewWAF and every Transaction call, process-fatal errors via the child process, CPU time per call on the executing thread against a 20 s bound. A case is non-trivial when its configuration was accepted and a transaction was executed on it; distinct by hash of (configuration text, call sequence, URI, bodies).",
		Assumptions: []string{
			"absence of panics is established for the generated population only; the evidence lists the names covered per registry and names_missing must be empty",
			"'never hangs' is judged as: no single API call on an input <= 64 KiB consumes more than 20 CPU-seconds; a wall-clock watchdog firing is inconclusive",
			"the process-wide pattern cache is emptied before every NewWAF and every operator argument is unique per rule, so that one configuration cannot make another one panic (that interference is property C13); a NewWAF panic that disappears on an empty cache would be reported under the class prefix history:",
			"a directive counts as covered when an accepted configuration used it, except secremoterules, whose handler returns 'not implemented' for every argument and counts when dispatched",
			"rule sets whose own semantics grow a variable exponentially (setvar:tx.a=%{tx.a}%{tx.a} run once per matched value) are not generated: the unbounded work is what that configuration asks for, not a defect of the interpreter (seen once during development: 2^n bytes after n matches)",
			"kept out of the population (candidate known finding, notes/findings/C07.md): audit logging with parts H and K of a rule that matched hundreds of values costs ProcessLogging super-linear CPU (class cpu:ProcessLogging); configurations mentioning the audit engine get JSON/XML bodies nested at most 48 levels so that one rule matches few values",
			"kept out of the population (candidate known finding, notes/findings/C07.md): the JSON body processor builds one key per nesting level by copying the parent key (quadratic in the depth); response bodies have no depth limit (the repository's own test pins that), so a 32 KiB response of '[' costs > 15 CPU-s in ProcessResponseBody (class cpu:ProcessResponseBody). Generated bodies are cut at 2048 unclosed brackets and SecRequestBodyJsonDepthLimit is swept up to 2000",
			"the two listed known findings (known_findings.json: auditlog-hk-amplification, json-depth-quadratic) are replayed in one extra batch per run, each witness in a child process that stops observing once the monitored call has used 20 CPU-s on its thread; only these witnesses can produce the classes cpu:ProcessLogging:auditlog-hk-witness and cpu:ProcessResponseBody:json-depth-witness, every other input that exceeds the bound is reported as cpu:<call> or cpu:<call>:still-running",
			"feature-interaction population: pairs that exclude each other never fire together and are listed in the evidence (fi_pairs_never_fired_together_list: SecRuleEngine Off with any rule feature); a configuration of this population that the library rejects makes the run inconclusive (fi_configs_all_accepted), its reason is in fi_rejected_reason/*",
			"@inspectFile is given a non-existent program path and @rbl an .invalid zone: no external program or network is needed",
		},
		Required: []string{"names_complete", "configs_accepted", "configs_rejected", "mutants_accepted", "transactions", "transactions_with_matched_rules", "transactions_interrupted",
			"fi_configs_all_accepted", "fi_pairs_all_configured", "fi_features_all_fired", "fi_pairs_fired_together", "fi_triples_fired_together", "fi_transactions_interrupted", "fi_audit_records_verifmem"},
		Plan: func(tier fw.Tier, seed int64) []fw.Batch {
			sz := c07SizesFor(tier)
			var bs []fw.Batch
			for i := 0; i < sz.batches; i++ {
				p, _ := json.Marshal(c07Params{Part: i, Parts: sz.batches})
				bs = append(bs, fw.Batch{Index: i, Flavour: "plain", Params: p, GOMAXPROCS: 1, TimeoutS: 3600})
			}
			// one more batch, in both tiers: the witnesses of the listed known findings (two child processes)
			kp, _ := json.Marshal(c07Params{Kind: "known"})
			bs = append(bs, fw.Batch{Index: sz.batches, Flavour: "plain", Params: kp, GOMAXPROCS: 2, TimeoutS: 3600})
			return bs
		},
		Run:    c07Run,
		Replay: c07Replay,
		Finish: c07Finish,
	})
}
