package props

// C03, the "bound:<knob>" populations: every knob that bounds what the request-body path accepts
// is probed below, exactly at, one above and far above its bound, with the element that exceeds
// the bound at every position of the input (only / first / middle / last element, directly under
// the root or under wrapper containers) and followed by well-formed siblings of every kind.
// The oracle is the one of the main population (c03Compare): an encoded item that is not
// represented in the collections must be excused by an error variable or an interruption.
//
// Knobs (how the library reports, on the unchanged tree):
//   json-depth            SecRequestBodyJsonDepthLimit (and its default, 1024)   REQBODY_ERROR + REQBODY_PROCESSOR_ERROR
//   body-limit            SecRequestBodyLimit / ctl:requestBodyLimit x Reject|ProcessPartial, the body handed over
//                         in one piece or in pieces, through WriteRequestBody or ReadRequestBodyFrom
//                                                                                 INBOUND_DATA_ERROR (+ interruption 413 with Reject)
//   arguments-limit-body  SecArgumentsLimit against the number of body arguments  (not applied to body arguments: nothing dropped)
//   nofiles-limit         SecRequestBodyNoFilesLimit                              (parsed, not enforced: nothing dropped)
//   upload-file-limit     SecUploadFileLimit                                      (parsed, not enforced: nothing dropped)
//   in-memory-limit       SecRequestBodyInMemoryLimit (spill to a file)           (no bound on what is accepted)
//   multipart-part-headers  mime/multipart's 10000 header lines per part          MULTIPART_STRICT_ERROR + REQBODY_ERROR
//   xml-depth             no bound exists (encoding/xml token reader): deep nests must be entirely visible
//
// The case list is fixed by (seed, batch): the factor combination of case i of a batch is taken
// from a mixed-radix enumeration (so every cell of the cross product is visited), the PRNG only
// fills in names, values, white space and sizes.

import (
	"sort"
	"strconv"
	"strings"

	"verif/internal/sl"
)

var c03CarrierProc = map[string]string{"urlencoded": "URLENCODED", "multipart": "MULTIPART", "json": "JSON", "xml": "XML", "raw": "RAW"}

// radix decomposes *i over n alternatives.
func c03Radix(i *int, n int) int {
	v := *i % n
	*i /= n
	return v
}

func c03BoundBase(pop, carrier, procBy, ctype string, body []byte) *c03Case {
	c := &c03Case{Pop: pop, URI: "/b", PathRaw: "/b", BaseRaw: "b", Carrier: carrier, HasBody: true, Body: c03B(body)}
	c.Settings = c03Settings{BodyAccess: true, ProcBy: procBy, ArgRel: "default", BodyRel: "default"}
	c.Headers = []sl.KV{{K: "Content-Type", V: ctype}}
	return c
}

// ---- JSON nesting depth ----------------------------------------------------------------------

type c03JB struct {
	n    *c03JNode
	used map[string]bool
}

func c03NewJB(kind string) *c03JB { return &c03JB{n: &c03JNode{kind: kind}, used: map[string]bool{}} }

func (g *c03Gen) jsonKey(used map[string]bool, short bool) string {
	if !short {
		for try := 0; try < 6; try++ {
			if k := g.name(); c03JSONKey(k) && !used[k] {
				used[k] = true
				return k
			}
		}
	}
	for i := 0; ; i++ {
		k := string(rune('a'+g.r.IntN(26))) + strconv.Itoa(i)
		if i == 0 {
			k = k[:1]
		}
		if !used[k] {
			used[k] = true
			return k
		}
	}
}

func (b *c03JB) add(g *c03Gen, kid *c03JNode, short bool) {
	if b.n.kind == "obj" {
		b.n.keys = append(b.n.keys, g.jsonKey(b.used, short))
	}
	b.n.kids = append(b.n.kids, kid)
}

func (g *c03Gen) jsonText() string {
	for {
		if v := g.value(); c03JSONText(v) {
			return v
		}
		g.avoid("json:value")
	}
}

func (g *c03Gen) jsonKindOf(kinds string, i int) string {
	switch kinds {
	case "obj", "arr":
		return kinds
	case "alt":
		return []string{"obj", "arr"}[i%2]
	case "alt2":
		return []string{"arr", "obj"}[i%2]
	}
	return g.pick([]string{"obj", "arr"})
}

// jsonSibling builds one well-formed member of the given kind that nests at most room further
// containers (room <= 0: containers degenerate to a scalar).
func (g *c03Gen) jsonSibling(kind string, room int) []*c03JNode {
	leaf := func() *c03JNode { return g.jsonLeaf(g.jsonText()) }
	cont := func(k string, room int) *c03JNode {
		if room <= 0 {
			return leaf()
		}
		b := c03NewJB(k)
		for i, n := 0, 1+g.r.IntN(3); i < n; i++ {
			b.add(g, leaf(), false)
		}
		if room >= 2 && g.chance(0.3) {
			in := c03NewJB(g.pick([]string{"obj", "arr"}))
			in.add(g, leaf(), false)
			b.add(g, in.n, false)
		}
		return b.n
	}
	switch kind {
	case "none":
		return nil
	case "scalar":
		return []*c03JNode{leaf()}
	case "obj", "arr":
		return []*c03JNode{cont(kind, room)}
	case "empty":
		if room <= 0 {
			return []*c03JNode{leaf()}
		}
		return []*c03JNode{{kind: g.pick([]string{"obj", "arr"})}}
	}
	// mixed: one of each, in random order
	out := []*c03JNode{leaf(), cont("obj", room), cont("arr", room)}
	g.r.Shuffle(len(out), func(i, j int) { out[i], out[j] = out[j], out[i] })
	return out
}

func c03JSONDepth(n *c03JNode) int {
	if n.kind != "obj" && n.kind != "arr" {
		return 0
	}
	// iterative on the single deep path would be overkill: trees here are at most ~1100 deep
	d := 0
	for _, k := range n.kids {
		if x := c03JSONDepth(k); x > d {
			d = x
		}
	}
	return d + 1
}

var (
	c03JDLimits  = []int{1, 2, 3, 4, 6, 9, 17}
	c03JDRels    = []string{"below", "at", "above1", "far"}
	c03JDPos     = []string{"only", "first", "middle", "last"}
	c03JDFollow  = []string{"scalar", "obj", "arr", "empty", "mixed"}
	c03JDKinds   = []string{"obj", "arr", "alt", "alt2", "mix"}
	c03JDFollowN = []string{"none", "scalar", "obj", "arr", "empty", "mixed"}
)

// c03JSONDepthCase builds a document whose deepest nest reaches the depth asked for by rel
// (depth = number of containers around a value, the root included; a document of depth <= limit
// is within the bound). limit 0 = the default (1024), no directive.
func c03JSONDepthCase(g *c03Gen, limit int, rel, pos, follow, kinds string, level int) *c03Case {
	eff := limit
	if eff == 0 {
		eff = 1024
	}
	var depth int
	switch rel {
	case "below":
		depth = eff - 1 - g.r.IntN(2)
	case "at":
		depth = eff
	case "above1":
		depth = eff + 1
	default:
		depth = eff + 2 + g.r.IntN(7)
		if eff <= 4 && g.chance(0.3) {
			depth = 3*eff + 5
		}
	}
	if depth < 1 {
		depth = 1
	}
	if level > depth-2 {
		level = depth - 2
	}
	if level < 0 {
		level = 0
	}
	short := depth > 40
	// containers nested in a sibling must not change the relation: the deepest nest is the probe
	sibCap := depth
	if depth > eff {
		sibCap = eff // the followers are within the bound; only the nest is not
		if g.chance(0.1) {
			sibCap = depth // ... except sometimes: a second subtree beyond the bound
		}
	}
	kindAt := func(i int) string {
		if short && i > 8 && i < depth-24 {
			// the bulk of a very deep nest is objects with one-letter keys: an array adds a length entry whose
			// name is the whole path, and a thousand of those cost seconds in the comparison
			return "obj"
		}
		return g.jsonKindOf(kinds, i)
	}
	root := c03NewJB(kindAt(0))
	parent, p := root, 1 // p = depth of parent
	var afters []func()
	for l := 0; l < level; l++ {
		// a wrapper: one member of its parent, at a random position among random siblings
		wr := c03NewJB(kindAt(l + 1))
		for _, s := range g.jsonSibling(g.pick(c03JDFollowN), sibCap-p) {
			parent.add(g, s, short)
		}
		parent.add(g, wr.n, short)
		after, of := g.jsonSibling(g.pick(c03JDFollowN), sibCap-p), parent
		afters = append(afters, func() {
			for _, s := range after {
				of.add(g, s, short)
			}
		})
		parent, p = wr, p+1
	}
	if depth == p {
		// no room for a nest (limit 1 at / limit 2 below): a flat container
		for i, n := 0, 1+g.r.IntN(4); i < n; i++ {
			parent.add(g, g.jsonLeaf(g.jsonText()), short)
		}
		pos, follow = "flat", ""
	} else {
		// the nest: depth-p containers, the innermost holds the deepest values
		head := c03NewJB(kindAt(p))
		cur := head
		leafP := 0.5
		if short {
			leafP = 0.03
		}
		for d := p + 2; d <= depth; d++ {
			if g.chance(leafP) {
				cur.add(g, g.jsonLeaf(g.jsonText()), short)
			}
			nx := c03NewJB(kindAt(d - 1))
			cur.add(g, nx.n, short)
			if depth <= 40 && g.chance(0.25) {
				for _, s := range g.jsonSibling(g.pick(c03JDFollowN), sibCap-(d-1)) {
					cur.add(g, s, short)
				}
			}
			cur = nx
		}
		if !g.chance(0.08) {
			for i, n := 0, 1+g.r.IntN(2); i < n; i++ {
				cur.add(g, g.jsonLeaf(g.jsonText()), short)
			}
		}
		before := func() {
			for i, n := 0, 1+g.r.IntN(2); i < n; i++ {
				for _, s := range g.jsonSibling(g.pick(c03JDFollowN[1:]), sibCap-p) {
					parent.add(g, s, short)
				}
			}
		}
		if sibCap-p <= 0 && follow != "scalar" {
			follow = "scalar" // no room for a container next to the nest: the follower degenerates (label kept honest)
		}
		switch pos {
		case "only":
			parent.add(g, head.n, short)
			follow = "none"
		case "first":
			parent.add(g, head.n, short)
			for _, s := range g.jsonSibling(follow, sibCap-p) {
				parent.add(g, s, short)
			}
		case "middle":
			before()
			parent.add(g, head.n, short)
			for _, s := range g.jsonSibling(follow, sibCap-p) {
				parent.add(g, s, short)
			}
		default:
			before()
			parent.add(g, head.n, short)
			follow = "none"
		}
	}
	for _, f := range afters {
		f() // the members that follow each wrapper
	}
	return c03JSONBoundCase(g, root.n, limit, pos, follow, kinds, level)
}

func c03JSONBoundCase(g *c03Gen, root *c03JNode, limit int, pos, follow, kinds string, level int) *c03Case {
	var sb strings.Builder
	ends := map[*c03JNode]int{}
	deep := c03JSONDepth(root)
	if deep > 40 {
		// compact rendering keeps the far-above documents small
		sb.WriteString(c03JSONCompact(root, ends))
	} else {
		sb.WriteString(g.jws())
		g.jsonEmit(&sb, root, ends)
		sb.WriteString(g.jws())
	}
	c := c03BoundBase("bound:json-depth", "json", g.pick([]string{"ctl", "recommended-rule"}),
		g.pick([]string{"application/json", "application/json; charset=utf-8"}), []byte(sb.String()))
	c03JSONFlatten(root, "json", ends, &c.ExpPost, &c.PostExtra)
	for i := range c.ExpPost {
		c.ExpPost[i].End = 0 // not a truncation case
	}
	eff := limit
	if eff == 0 {
		eff = 1024
	}
	rel := "far"
	switch {
	case deep < eff:
		rel = "below"
	case deep == eff:
		rel = "at"
	case deep == eff+1:
		rel = "above1"
	}
	c.Settings.JSONDepth = limit
	c.Bound = &c03Bound{Knob: "json-depth", Rel: rel, Pos: pos, Follow: follow, Level: level, Kinds: kinds, Limit: eff, Size: deep}
	c.Config = c03Config(c.Settings, "JSON")
	return c
}

func c03JSONCompact(n *c03JNode, ends map[*c03JNode]int) string {
	var sb strings.Builder
	var emit func(n *c03JNode)
	emit = func(n *c03JNode) {
		switch n.kind {
		case "str":
			sb.WriteString(c03JSONQuote(n.s))
			ends[n] = sb.Len()
		case "raw":
			sb.WriteString(n.s)
			ends[n] = sb.Len() + 1
		case "obj":
			sb.WriteByte('{')
			for i, k := range n.keys {
				if i > 0 {
					sb.WriteByte(',')
				}
				sb.WriteString(c03JSONQuote(k) + ":")
				emit(n.kids[i])
			}
			sb.WriteByte('}')
		case "arr":
			sb.WriteByte('[')
			for i, k := range n.kids {
				if i > 0 {
					sb.WriteByte(',')
				}
				emit(k)
			}
			sb.WriteByte(']')
		}
	}
	emit(n)
	return sb.String()
}

// c03JSONQuote is a plain JSON string encoder (escapes only what must be escaped).
func c03JSONQuote(s string) string {
	var sb strings.Builder
	sb.WriteByte('"')
	for _, r := range s {
		switch {
		case r == '"' || r == '\\':
			sb.WriteByte('\\')
			sb.WriteRune(r)
		case r < 0x20:
			sb.WriteString("\\u00" + string("0123456789abcdef"[r>>4]) + string("0123456789abcdef"[r&15]))
		default:
			sb.WriteRune(r)
		}
	}
	sb.WriteByte('"')
	return sb.String()
}

// ---- cases drawn from the main generator, with one bound varied --------------------------------

// caseOf draws main-population cases until one has the wanted carrier, body access and at least
// min expected body items; its own limits are reset.
func (g *c03Gen) caseOf(carrier string, min int, files int) *c03Case {
	for {
		c := c03Random(g)
		if c == nil || c.Pop != "main" || c.Carrier != carrier || !c.Settings.BodyAccess {
			continue
		}
		if len(c.ExpPost)+len(c.ExpText)+len(c.ExpAttr)+len(c.ExpFiles) < min || len(c.ExpFiles) < files {
			continue
		}
		s := &c.Settings
		s.ArgLimit, s.ArgRel, s.BodyLimit, s.BodyRel, s.LimitAction = 0, "default", 0, "default", ""
		return c
	}
}

// c03ItemEnds lists the offsets at which an encoded body item is complete.
func c03ItemEnds(c *c03Case) []int {
	m := map[int]bool{}
	for _, l := range [][]c03Exp{c.ExpPost, c.ExpFiles, c.ExpText, c.ExpAttr} {
		for _, e := range l {
			if e.End > 0 && e.End <= len(c.Body) {
				m[e.End] = true
			}
		}
	}
	if c.Carrier == "urlencoded" {
		for i := 0; i < len(c.Body); i++ {
			if c.Body[i] == '&' {
				m[i] = true
			}
		}
		m[len(c.Body)] = true
	}
	var out []int
	for e := range m {
		out = append(out, e)
	}
	sort.Ints(out)
	return out
}

var (
	c03BLCarriers = []string{"urlencoded", "multipart", "json", "xml"}
	c03BLPos      = []string{"in-first", "end-first", "in-middle", "end-middle", "in-last", "n-1", "n", "n+1", "n+far"}
	c03BLActions  = []string{"Reject", "ProcessPartial"}
	c03BLBy       = []string{"", "ctl"}
	c03BLFeeds    = []string{"write", "readfrom-lenger", "readfrom-stream"}
	c03BLChunks   = []string{"one", "split-at-limit", "split-before-limit", "split-after-limit", "random", "per-item"}
)

func c03Between(g *c03Gen, lo, hi int) int { // a value in (lo, hi), or lo+1 when the interval is empty
	if hi-lo <= 1 {
		return lo + 1
	}
	return lo + 1 + g.r.IntN(hi-lo-1)
}

func c03BodyLimitCase(g *c03Gen, carrier, pos, action, by, feed, chunks string) *c03Case {
	c := g.caseOf(carrier, 3, 0)
	n := len(c.Body)
	ends := c03ItemEnds(c)
	if len(ends) == 0 || ends[len(ends)-1] != n {
		ends = append(ends, n)
	}
	k := len(ends)
	mid := k / 2
	if mid == 0 {
		mid = k - 1
	}
	prev := func(i int) int {
		if i == 0 {
			return 0
		}
		return ends[i-1]
	}
	var lim int
	switch pos {
	case "in-first":
		lim = c03Between(g, 0, ends[0])
	case "end-first":
		lim = ends[0]
	case "in-middle":
		lim = c03Between(g, prev(mid), ends[mid])
	case "end-middle":
		lim = ends[mid]
	case "in-last":
		lim = c03Between(g, prev(k-1), n)
	case "n-1":
		lim = n - 1
	case "n":
		lim = n
	case "n+1":
		lim = n + 1
	default:
		lim = n + 2 + g.r.IntN(4096)
	}
	if lim < 1 {
		lim = 1
	}
	s := &c.Settings
	s.BodyLimit, s.LimitAction, s.LimitBy = lim, action, by
	// rel: the body size relative to the limit; BodyRel keeps the main population's wording (the limit relative to the size)
	rel := "far"
	switch {
	case lim < n-1:
		s.BodyRel = "below"
	case lim == n-1:
		rel, s.BodyRel = "above1", "below"
	case lim == n:
		rel, s.BodyRel = "at", "at"
	default:
		rel, s.BodyRel = "below", "above"
	}
	c.Feed = feed
	switch chunks {
	case "split-at-limit":
		c.Chunks = []int{lim}
	case "split-before-limit":
		c.Chunks = []int{lim - 1}
	case "split-after-limit":
		c.Chunks = []int{lim + 1}
	case "random":
		for i, m := 0, 1+g.r.IntN(3); i < m && n > 1; i++ {
			c.Chunks = append(c.Chunks, 1+g.r.IntN(n-1))
		}
	case "per-item":
		c.Chunks = append(c.Chunks, ends...)
	}
	sort.Ints(c.Chunks)
	var ch []int
	for _, e := range c.Chunks {
		if e > 0 && e < n && (len(ch) == 0 || ch[len(ch)-1] != e) {
			ch = append(ch, e)
		}
	}
	c.Chunks = ch
	c.Pop = "bound:body-limit"
	c.Bound = &c03Bound{Knob: "body-limit", Rel: rel, Pos: pos, Follow: chunks, Limit: lim, Size: n}
	c.Config = c03Config(*s, c03CarrierProc[carrier])
	return c
}

var (
	c03MiscKnobs = []string{"arguments-limit-body", "nofiles-limit", "upload-file-limit", "in-memory-limit"}
	c03MiscRels  = []string{"below", "at", "above1", "far"}
)

// c03MiscCase probes a count/size knob against a body from the main generator. rel is the
// relation of the measured quantity to the knob's value.
func c03MiscCase(g *c03Gen, knob, rel string, i int) *c03Case {
	carrier := []string{"urlencoded", "multipart", "json"}[i%3]
	files := 0
	if knob == "upload-file-limit" {
		carrier, files = "multipart", 1
		if rel == "above1" || rel == "far" {
			files = 2
		}
		if rel == "far" {
			files = 3
		}
	}
	if knob == "in-memory-limit" {
		carrier = []string{"urlencoded", "multipart", "json", "xml"}[i%4]
	}
	c := g.caseOf(carrier, 2, files)
	var size int
	switch knob {
	case "arguments-limit-body":
		size = c03DistinctFolded(c03KVs(c.ExpPost, 0))
		// no query: the limit is probed by the body arguments alone
		c.URI, c.Query, c.QueryRaw = c.PathRaw, nil, ""
	case "nofiles-limit":
		size = len(c.Body)
		for _, f := range c.Files {
			size -= len(f.Content)
		}
	case "upload-file-limit":
		size = len(c.ExpFiles)
	case "in-memory-limit":
		size = len(c.Body)
	}
	var v int
	switch rel {
	case "below":
		v = size + 1 + g.r.IntN(5)
	case "at":
		v = size
	case "above1":
		v = size - 1
	default:
		if size < 3 {
			return nil
		}
		v = 1 + g.r.IntN(size-2)
	}
	if v < 1 {
		return nil // the quantity is too small for this relation
	}
	s := &c.Settings
	switch knob {
	case "arguments-limit-body":
		s.ArgLimit = v
	case "nofiles-limit":
		s.NoFilesLimit = v
	case "upload-file-limit":
		s.UploadFiles = v
	case "in-memory-limit":
		s.InMemoryLimit = v
	}
	c.Pop = "bound:" + knob
	c.Bound = &c03Bound{Knob: knob, Rel: rel, Limit: v, Size: size}
	c.Config = c03Config(*s, c03CarrierProc[carrier])
	c.DoubleEnc = c03CountDouble(c.Query, c.Items, c.Cookies)
	return c
}

// c03PartHeadersCase: one part of three carries lines header lines (mime/multipart accepts 10000).
func c03PartHeadersCase(g *c03Gen, pos string, lines int, file bool) *c03Case {
	parts := []c03Part{{field: "first", content: g.pick(c03Values[1:9])}, {field: "mid", content: g.pick(c03Values[1:9])}, {field: "last", content: g.pick(c03Values[1:9])}}
	at := map[string]int{"first": 0, "middle": 1, "last": 2}[pos]
	parts[at].lines = lines
	if file {
		parts[at].file, parts[at].name = true, "heavy.bin"
	}
	b, ct, _ := c03MultipartBody("boundHeadersBoundary"+strconv.Itoa(g.r.IntN(1000)), parts)
	c := c03BoundBase("bound:multipart-part-headers", "multipart", "content-type", ct, b)
	sumFiles, sumAll := 0, 0
	for _, p := range parts {
		sumAll += len(p.content)
		if p.file {
			sumFiles += len(p.content)
			c.Files = append(c.Files, c03File{Field: c03B(p.field), Name: c03B(p.name), Content: c03B(p.content)})
			c.ExpFiles = append(c.ExpFiles, c03Exp{KV: sl.KV{K: p.field, V: p.name}})
			c.ExpSizes = append(c.ExpSizes, c03Exp{KV: sl.KV{K: p.name, V: strconv.Itoa(len(p.content))}})
		} else {
			c.ExpPost = append(c.ExpPost, c03Exp{KV: sl.KV{K: p.field, V: p.content}})
		}
	}
	c.Combined = []string{strconv.Itoa(sumFiles), strconv.Itoa(sumAll)}
	rel := "far"
	switch {
	case lines < 10000:
		rel = "below"
	case lines == 10000:
		rel = "at"
	case lines == 10001:
		rel = "above1"
	}
	follow := map[string]string{"first": "fields", "middle": "field", "last": "none"}[pos]
	c.Bound = &c03Bound{Knob: "multipart-part-headers", Rel: rel, Pos: pos, Follow: follow, Limit: 10000, Size: lines}
	c.Config = c03Config(c.Settings, "MULTIPART")
	return c
}

// c03XMLDepthCase: a nest of depth elements with a text at the top, in the innermost element and
// after the nest. No bound exists, so every text is owed.
func c03XMLDepthCase(g *c03Gen, depth int, pos string) *c03Case {
	val := func() string {
		for {
			if v := g.value(); v != "" && c03XMLValue(v) {
				return v
			}
		}
	}
	var sb strings.Builder
	c := c03BoundBase("bound:xml-depth", "xml", g.pick([]string{"ctl", "recommended-rule"}), g.pick([]string{"text/xml", "application/xml"}), nil)
	text := func(v string) {
		sb.WriteString("<e>" + g.xmlEscape(v, false) + "</e>")
		c.ExpText = append(c.ExpText, c03Exp{KV: sl.KV{K: "/*", V: v}})
	}
	sb.WriteString("<root>")
	if pos != "first" {
		text(val())
	}
	for i := 0; i < depth; i++ {
		sb.WriteString("<n>")
	}
	text(val())
	for i := 0; i < depth; i++ {
		sb.WriteString("</n>")
		if i == depth/2 && g.chance(0.5) {
			text(val())
		}
	}
	if pos != "last" {
		text(val())
		if g.chance(0.5) {
			v := val()
			sb.WriteString(`<f a0="` + g.xmlEscape(v, true) + `"/>`)
			c.ExpAttr = append(c.ExpAttr, c03Exp{KV: sl.KV{K: "//@*", V: v}})
		}
	}
	sb.WriteString("</root>")
	c.Body = c03B(sb.String())
	c.Bound = &c03Bound{Knob: "xml-depth", Rel: "unbounded", Pos: pos, Size: depth + 2}
	c.Config = c03Config(c.Settings, "XML")
	return c
}

// c03BoundCases is the fixed list of bound probes of one batch.
func c03BoundCases(g *c03Gen, batch int, thorough bool) []*c03Case {
	nJSON, nBody, nMisc := 200, 96, 32
	if thorough {
		nJSON, nBody, nMisc = 1800, 1000, 320
	}
	var out []*c03Case
	add := func(c *c03Case) {
		if c != nil {
			out = append(out, c)
		}
	}
	// JSON depth: (limit, rel, pos, follow, kinds, level); the batches start at different offsets
	// of the enumeration so that a run visits 16 (64) disjoint slices of it.
	cells := len(c03JDRels) * len(c03JDPos) * len(c03JDFollow) * len(c03JDKinds) * 3 * len(c03JDLimits)
	for j := 0; j < nJSON; j++ {
		i := (batch*nJSON + j) * 7919 % cells // 7919 is prime to the number of cells: a permutation
		rel := c03JDRels[c03Radix(&i, len(c03JDRels))]
		pos := c03JDPos[c03Radix(&i, len(c03JDPos))]
		follow := c03JDFollow[c03Radix(&i, len(c03JDFollow))]
		kinds := c03JDKinds[c03Radix(&i, len(c03JDKinds))]
		level := c03Radix(&i, 3)
		limit := c03JDLimits[c03Radix(&i, len(c03JDLimits))]
		add(c03JSONDepthCase(g, limit, rel, pos, follow, kinds, level))
	}
	// the default limit (no directive): one document per batch
	{
		i := batch
		rel := []string{"above1", "at", "far", "above1"}[c03Radix(&i, 4)]
		pos := []string{"first", "middle", "last"}[c03Radix(&i, 3)]
		add(c03JSONDepthCase(g, 0, rel, pos, c03JDFollow[1+batch%4], c03JDKinds[batch%len(c03JDKinds)], batch%2))
	}
	// body limit
	cells = len(c03BLCarriers) * len(c03BLPos) * len(c03BLActions) * len(c03BLBy) * len(c03BLFeeds) * len(c03BLChunks)
	for j := 0; j < nBody; j++ {
		i := (batch*nBody + j) * 7919 % cells
		pos := c03BLPos[c03Radix(&i, len(c03BLPos))]
		action := c03BLActions[c03Radix(&i, len(c03BLActions))]
		feed := c03BLFeeds[c03Radix(&i, len(c03BLFeeds))]
		chunks := c03BLChunks[c03Radix(&i, len(c03BLChunks))]
		carrier := c03BLCarriers[c03Radix(&i, len(c03BLCarriers))]
		by := c03BLBy[c03Radix(&i, len(c03BLBy))]
		add(c03BodyLimitCase(g, carrier, pos, action, by, feed, chunks))
	}
	// count / size knobs
	for j := 0; j < nMisc; j++ {
		i := batch*nMisc + j
		knob := c03MiscKnobs[c03Radix(&i, len(c03MiscKnobs))]
		rel := c03MiscRels[c03Radix(&i, len(c03MiscRels))]
		add(c03MiscCase(g, knob, rel, i))
	}
	// multipart header lines per part: one probe per batch
	{
		i := batch
		pos := []string{"first", "middle", "last"}[c03Radix(&i, 3)]
		lines := []int{10000, 10001}[c03Radix(&i, 2)]
		add(c03PartHeadersCase(g, pos, lines, c03Radix(&i, 2) == 1))
	}
	// XML nesting
	for j := 0; j < 2; j++ {
		i := batch*2 + j
		pos := []string{"first", "middle", "last"}[c03Radix(&i, 3)]
		add(c03XMLDepthCase(g, []int{20, 300, 2500}[c03Radix(&i, 3)], pos))
	}
	return out
}
