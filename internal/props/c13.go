package props

import (
	"encoding/json"
	"fmt"
	"math/rand/v2"
	"runtime"
	"sort"
	"strings"
	"sync/atomic"

	"github.com/corazawaf/coraza/v3/experimental/verifapi"

	"verif/internal/fw"
)

// C13: a WAF follows its own configuration only; pattern caching is invisible.
//
// Batches:
//   mode "alone" (plain, nomemo): ONE configuration, built first thing in a fresh worker process,
//        probed, closed; the outcomes are recorded for the driver-side comparison.
//   mode "seq"   (plain, nomemo): the same deterministic histories in both flavours; each probe is
//        judged in the worker against the in-process "alone" reference (computed before any history
//        runs) and the per-history outcome hashes are recorded for the plain-vs-nomemo comparison.
//   mode "conc"  (race): goroutines building / probing / closing colliding configurations.

type c13Params struct {
	Mode   string `json:"mode"`
	Cfg    int    `json:"cfg,omitempty"`
	Group  int    `json:"group,omitempty"`
	Groups int    `json:"groups,omitempty"`
}

type c13Sizes struct {
	seqGroups    int
	randomPerGrp int
	maxLen       int
	slots        int
	concBatches  int
	concRounds   int
}

func c13SizesFor(tier fw.Tier) c13Sizes {
	if tier == fw.Thorough {
		return c13Sizes{seqGroups: 12, randomPerGrp: 60000, maxLen: 10, slots: 4, concBatches: 8, concRounds: 8000}
	}
	return c13Sizes{seqGroups: 4, randomPerGrp: 1500, maxLen: 6, slots: 3, concBatches: 3, concRounds: 250}
}

const c13Chunk = 1024

// c13PairHistory builds the systematic history of an ordered pair of configurations.
// variant 0 ("pair-live"):   build i, build j, probe j, probe i, close i, probe j
// variant 1 ("pair-closed"): build i, probe i, close i, build j, probe j
func c13PairHistory(variant, i, j int) *c13History {
	if variant == 0 {
		return &c13History{Kind: "pair-live", Steps: []c13Step{{Op: "b", Slot: 0, Cfg: i}, {Op: "b", Slot: 1, Cfg: j}, {Op: "p", Slot: 1}, {Op: "p", Slot: 0}, {Op: "c", Slot: 0}, {Op: "p", Slot: 1}}}
	}
	return &c13History{Kind: "pair-closed", Steps: []c13Step{{Op: "b", Slot: 0, Cfg: i}, {Op: "p", Slot: 0}, {Op: "c", Slot: 0}, {Op: "b", Slot: 1, Cfg: j}, {Op: "p", Slot: 1}}}
}

func c13RandomHistory(rng *rand.Rand, pool []*c13Cfg, byFamily map[string][]int, maxLen, nslots int) *c13History {
	focus := pool[rng.IntN(len(pool))]
	cand := byFamily[focus.Family]
	L := 3 + rng.IntN(maxLen-2)
	h := &c13History{Kind: "random"}
	live := make([]bool, nslots)
	probed := false
	for len(h.Steps) < L {
		var free, used []int
		for s, l := range live {
			if l {
				used = append(used, s)
			} else {
				free = append(free, s)
			}
		}
		r := rng.IntN(100)
		last := len(h.Steps) == L-1
		switch {
		case len(used) == 0 || (r < 40 && len(free) > 0 && !last):
			c := cand[rng.IntN(len(cand))]
			if rng.IntN(100) < 15 {
				c = rng.IntN(len(pool))
			}
			s := free[rng.IntN(len(free))]
			h.Steps = append(h.Steps, c13Step{Op: "b", Slot: s, Cfg: c})
			live[s] = true
		case r < 78 || (last && !probed):
			h.Steps = append(h.Steps, c13Step{Op: "p", Slot: used[rng.IntN(len(used))]})
			probed = true
		default:
			s := used[rng.IntN(len(used))]
			h.Steps = append(h.Steps, c13Step{Op: "c", Slot: s})
			live[s] = false
		}
	}
	return h
}

// c13GroupHistories enumerates the histories of one group: its share of the systematic pair
// histories (all ordered pairs of the pool, both variants) followed by seeded random histories.
// Deterministic in (tier, seed, group): the plain and the nomemo batch of a group run the same list,
// and the driver can regenerate any history from its index.
func c13GroupHistories(tier fw.Tier, seed int64, group int, pool []*c13Cfg, yield func(h *c13History) bool) {
	sz := c13SizesFor(tier)
	n := 0
	emit := func(h *c13History) bool {
		h.Group, h.N = group, n
		n++
		return yield(h)
	}
	k := 0
	for variant := 0; variant < 2; variant++ {
		for i := range pool {
			for j := range pool {
				if !c13SystematicPair(pool[i], pool[j]) {
					continue
				}
				if k%sz.seqGroups == group {
					if !emit(c13PairHistory(variant, i, j)) {
						return
					}
				}
				k++
			}
		}
	}
	byFamily := map[string][]int{}
	for _, c := range pool {
		byFamily[c.Family] = append(byFamily[c.Family], c.Idx)
	}
	rng := fw.NewRng(seed, "C13/seq", uint64(group))
	for i := 0; i < sz.randomPerGrp; i++ {
		if !emit(c13RandomHistory(rng, pool, byFamily, sz.maxLen, sz.slots)) {
			return
		}
	}
}

func c13Fold(hs []uint64) uint64 {
	var x uint64 = 1469598103934665603
	for _, h := range hs {
		x = (x ^ h) * 1099511628211
	}
	return x
}

type c13AloneRec struct {
	Name   string   `json:"name"`
	Role   string   `json:"role"`
	Built  bool     `json:"built"`
	Hashes []uint64 `json:"hashes"`
	Outs   []c13Out `json:"outs,omitempty"`
}

func c13RunAlone(w *fw.W, p *c13Params, pool []*c13Cfg) {
	if p.Cfg < 0 || p.Cfg >= len(pool) {
		return
	}
	c := pool[p.Cfg]
	env := c13NewEnv(w, []*c13Cfg{c})
	w.Trace(c13SingleCase(c))
	env.computeAlone()
	a := env.alone[c.Idx]
	w.Eval(len(a.Outs))
	w.Count("alone_fresh_processes", 1)
	w.Record(fmt.Sprintf("alone/%d", c.Idx), &c13AloneRec{Name: c.Name, Role: c.Role, Built: a.Built, Hashes: a.Hashes, Outs: a.Outs})
}

func c13RecordInBatch(w *fw.W, env *c13Env) {
	m := map[int][]uint64{}
	for i, a := range env.alone {
		if a.Built {
			m[i] = a.Hashes
		}
	}
	w.Record("inbatch", m)
}

func c13RunSeq(w *fw.W, p *c13Params, pool []*c13Cfg) {
	env := c13NewEnv(w, pool)
	env.computeAlone()
	c13RecordInBatch(w, env)
	w.Max("configs", int64(len(pool)))
	if p.Group == 0 && w.Flavour == "plain" {
		c13RxStructural(w)
		c13TwinEvidence(w, env, pool)
	}
	var chunk []uint64
	chunkNo := 0
	flush := func() {
		if len(chunk) > 0 {
			w.Record(fmt.Sprintf("hh/%d/%d", p.Group, chunkNo), chunk)
			chunk = nil
			chunkNo++
		}
	}
	c13GroupHistories(w.Tier, w.Seed, p.Group, pool, func(h *c13History) bool {
		if w.Tracing() {
			w.Trace(&c13Case{History: h, Configs: c13ConfigsOf(h, env.cfgs), Step: -1, Text: h.String()})
		}
		hs := env.runHistory(h)
		chunk = append(chunk, c13Fold(hs))
		if len(chunk) == c13Chunk {
			flush()
		}
		if w.WantSample() && h.Kind == "random" {
			w.Sample(map[string]any{"history": h.String(), "configs": c13NamesOf(h, env.cfgs)})
		}
		return true
	})
	flush()
}

// c13TwinEvidence reports (evidence only) which twin configurations - same key-looking text, one other
// behaviour-deciding parameter different - the probe batteries tell apart when each is built alone.
func c13TwinEvidence(w *fw.W, env *c13Env, pool []*c13Cfg) {
	for _, a := range pool {
		for _, b := range pool {
			if a.Idx >= b.Idx || !c13Twins(a, b) {
				continue
			}
			ra, rb := env.alone[a.Idx], env.alone[b.Idx]
			if ra == nil || rb == nil || !ra.Built || !rb.Built {
				w.Cover("twins_not_built", a.Name+" ~ "+b.Name)
				continue
			}
			kind := c13ResourceKind(a.Role, b.Role)
			if fw.Hash(ra.Hashes) != fw.Hash(rb.Hashes) {
				w.Count("twin_pairs_discriminated", 1)
				w.Cover("twin_kinds_discriminated", kind)
			} else {
				w.Count("twin_pairs_indistinct", 1)
				w.Cover("twins_indistinct", a.Name+" ~ "+b.Name)
			}
		}
	}
}

func c13ConfigsOf(h *c13History, cfgs map[int]*c13Cfg) map[int]*c13Cfg {
	out := map[int]*c13Cfg{}
	for _, s := range h.Steps {
		if s.Op == "b" {
			out[s.Cfg] = cfgs[s.Cfg]
		}
	}
	return out
}

func c13NamesOf(h *c13History, cfgs map[int]*c13Cfg) map[string]string {
	out := map[string]string{}
	for _, s := range h.Steps {
		if s.Op == "b" {
			out[fmt.Sprintf("#%d", s.Cfg)] = cfgs[s.Cfg].Name
		}
	}
	return out
}

// c13InstallYield perturbs the schedule at the cache's yield points (race flavour).
func c13InstallYield(seed int64) {
	var ctr atomic.Uint64
	verifapi.SetYield(func(site string) {
		x := ctr.Add(0x9e3779b97f4a7c15) ^ uint64(seed)
		x ^= x >> 31
		x *= 0xbf58476d1ce4e5b9
		x ^= x >> 29
		if x%3 == 0 {
			runtime.Gosched()
		}
	})
}

func c13ConcRoundFor(rng *rand.Rand, group, round int, pool []*c13Cfg, byFamily map[string][]int) *c13ConcRound {
	focus := pool[rng.IntN(len(pool))]
	cand := byFamily[focus.Family]
	n := 2 + rng.IntN(4)
	r := &c13ConcRound{Group: group, Round: round, Goroutines: 3 + rng.IntN(5), Iterations: 2 + rng.IntN(3)}
	for i := 0; i < n; i++ {
		c := cand[rng.IntN(len(cand))]
		if rng.IntN(100) < 10 {
			c = rng.IntN(len(pool))
		}
		r.Cfgs = append(r.Cfgs, c)
	}
	return r
}

func c13RunConc(w *fw.W, p *c13Params, pool []*c13Cfg) {
	env := c13NewEnv(w, pool)
	env.computeAlone()
	c13RecordInBatch(w, env)
	w.Max("configs", int64(len(pool)))
	c13InstallYield(w.Seed)
	defer verifapi.SetYield(nil)
	byFamily := map[string][]int{}
	for _, c := range pool {
		byFamily[c.Family] = append(byFamily[c.Family], c.Idx)
	}
	sz := c13SizesFor(w.Tier)
	rng := fw.NewRng(w.Seed, "C13/concplan", uint64(p.Group))
	for round := 0; round < sz.concRounds; round++ {
		r := c13ConcRoundFor(rng, p.Group, round, pool, byFamily)
		if w.Tracing() {
			cfgs := map[int]*c13Cfg{}
			for _, i := range r.Cfgs {
				cfgs[i] = env.cfgs[i]
			}
			w.Trace(&c13Case{Concurrent: r, Configs: cfgs, Step: -1})
		}
		env.runConcurrent(r, w.Seed)
		if w.WantSample() && round == 0 {
			w.Sample(map[string]any{"concurrent_round": r})
		}
	}
}

func c13Replay(w *fw.W, raw json.RawMessage) {
	var cs c13Case
	if json.Unmarshal(raw, &cs) != nil {
		return
	}
	if cs.RxPattern != "" {
		c13RxStructural(w)
		return
	}
	var cfgs []*c13Cfg
	for idx, c := range cs.Configs {
		if c != nil {
			c.Idx = idx
			cfgs = append(cfgs, c)
		}
	}
	sort.Slice(cfgs, func(i, j int) bool { return cfgs[i].Idx < cfgs[j].Idx })
	env := c13NewEnv(w, cfgs)
	env.computeAlone()
	if cs.Concurrent != nil {
		c13InstallYield(w.Seed)
		defer verifapi.SetYield(nil)
		for rep := 0; rep < 200; rep++ {
			r := *cs.Concurrent
			r.Round = cs.Concurrent.Round + rep*1000
			env.runConcurrent(&r, w.Seed)
		}
		return
	}
	if cs.History == nil {
		return
	}
	env.expect = cs.Expect
	env.runHistory(cs.History)
}

func c13Finish(d *fw.D) {
	pool := c13Pool()
	alone := map[string]map[int]*c13AloneRec{}
	inbatch := map[string][]map[int][]uint64{}
	hh := map[string]map[string][]uint64{}
	for _, r := range d.Records {
		switch {
		case strings.HasPrefix(r.Key, "alone/"):
			var idx int
			fmt.Sscanf(r.Key, "alone/%d", &idx)
			var a c13AloneRec
			if json.Unmarshal(r.Value, &a) != nil {
				continue
			}
			if alone[r.Flavour] == nil {
				alone[r.Flavour] = map[int]*c13AloneRec{}
			}
			alone[r.Flavour][idx] = &a
		case r.Key == "inbatch":
			var m map[int][]uint64
			if json.Unmarshal(r.Value, &m) == nil {
				inbatch[r.Flavour] = append(inbatch[r.Flavour], m)
			}
		case strings.HasPrefix(r.Key, "hh/"):
			var v []uint64
			if json.Unmarshal(r.Value, &v) != nil {
				continue
			}
			if hh[r.Key] == nil {
				hh[r.Key] = map[string][]uint64{}
			}
			hh[r.Key][r.Flavour] = v
		}
	}
	eq := func(a, b []uint64) bool {
		if len(a) != len(b) {
			return false
		}
		for i := range a {
			if a[i] != b[i] {
				return false
			}
		}
		return true
	}
	aloneDiffers := map[int]bool{} // configurations that already differ between the flavours when built alone
	// (1) alone, plain flavour vs alone, nomemo flavour
	for _, c := range pool {
		ap, an := alone["plain"][c.Idx], alone["nomemo"][c.Idx]
		if ap == nil || an == nil {
			continue
		}
		if !ap.Built || !an.Built {
			if ap.Built != an.Built {
				d.Violation("plain-vs-nomemo:alone-build:"+c13RoleBase(c.Role), "differential:plain-vs-nomemo", c13SingleCase(c), an.Built, ap.Built,
					"the configuration, built alone in a fresh process, builds in one flavour only")
			}
			d.Count("alone_build_failures_fresh", 1)
			continue
		}
		d.Count("alone_cross_flavour_compared", 1)
		if !eq(ap.Hashes, an.Hashes) {
			aloneDiffers[c.Idx] = true
			cs := c13SingleCase(c)
			cs.Expect = map[int][]c13Out{c.Idx: an.Outs}
			bat := c13Battery(c.Family)
			for i := range ap.Hashes {
				if i < len(an.Hashes) && ap.Hashes[i] != an.Hashes[i] {
					cs.Probe = &bat[i]
					d.Violation("plain-vs-nomemo:alone:"+c13RoleBase(c.Role), "differential:plain-vs-nomemo", cs, an.Outs[i], ap.Outs[i],
						fmt.Sprintf("%s built alone in a fresh process: probe %d differs between the build with the pattern cache and the build without it", c.Name, i))
					break
				}
			}
		}
	}
	// (2) in-batch reference vs fresh-process reference (same cache semantics)
	for fl, list := range inbatch {
		ref := alone["plain"]
		if fl == "nomemo" {
			ref = alone["nomemo"]
		}
		for _, m := range list {
			for idx, hs := range m {
				a := ref[idx]
				if a == nil || !a.Built || idx >= len(pool) {
					continue
				}
				d.Count("inbatch_vs_fresh_compared", 1)
				if !eq(hs, a.Hashes) {
					c := pool[idx]
					d.Violation("alone-after-others-differs:"+c13RoleBase(c.Role), "differential:inbatch-vs-fresh", c13SingleCase(c), a.Hashes, hs,
						fmt.Sprintf("%s built with no other WAF open, but after other WAFs had been built and closed in the process (%s flavour), behaves differently from the same configuration in a fresh process", c.Name, fl))
				}
			}
		}
	}
	// (3) the same histories, plain vs nomemo
	var keys []string
	for k := range hh {
		keys = append(keys, k)
	}
	sort.Strings(keys)
	reported := 0
	for _, k := range keys {
		vp, vn := hh[k]["plain"], hh[k]["nomemo"]
		if vp == nil || vn == nil {
			continue
		}
		var group, chunk int
		fmt.Sscanf(k, "hh/%d/%d", &group, &chunk)
		for i := range vp {
			if i >= len(vn) {
				break
			}
			d.Count("histories_cross_flavour_compared", 1)
			if vp[i] != vn[i] && reported < 20 {
				reported++
				want := chunk*c13Chunk + i
				var found *c13History
				c13GroupHistories(d.Tier, d.Seed, group, pool, func(h *c13History) bool {
					if h.N == want {
						found = h
						return false
					}
					return true
				})
				cls := "plain-vs-nomemo:history"
				var cs *c13Case
				if found != nil {
					cfgs := map[int]*c13Cfg{}
					var roles []string
					for _, s := range found.Steps {
						if s.Op == "b" {
							cfgs[s.Cfg] = pool[s.Cfg]
						}
					}
					via := ""
					for _, c := range cfgs {
						roles = append(roles, c13RoleBase(c.Role))
						if aloneDiffers[c.Idx] {
							via = c13RoleBase(c.Role)
						}
					}
					sort.Strings(roles)
					if via != "" {
						// one of the configurations already differs between the flavours on its own: same root cause
						cls += ":via-alone:" + via
					} else if len(roles) <= 2 {
						cls += ":" + strings.Join(roles, "-vs-")
					} else {
						cls += ":mixed"
					}
					cs = &c13Case{History: found, Configs: cfgs, Step: -1, Text: found.String()}
				}
				d.Violation(cls, "differential:plain-vs-nomemo", cs, vn[i], vp[i],
					fmt.Sprintf("history %d of group %d: folded step outcomes differ between the build with the pattern cache and the build without it", want, group))
			}
		}
	}
	// evidence: pairs of same-family configurations of the same value type whose probes tell them apart
	ap := alone["plain"]
	for _, a := range pool {
		for _, b := range pool {
			if a.Idx >= b.Idx || a.Family != b.Family || ap[a.Idx] == nil || ap[b.Idx] == nil {
				continue
			}
			if !eq(ap[a.Idx].Hashes, ap[b.Idx].Hashes) {
				d.Count("discriminating_pairs", 1)
			} else {
				d.Count("indistinct_pairs", 1)
			}
		}
	}
}

func init() {
	fw.Register(&fw.Prop{
		ID: "C13", Level: "exploration",
		Rule: "pool of small configurations that present the same text in different roles (@pm list, regex key, regex exclusion, ctl regex key, @restpath template, @validateNid expression, SecAuditLogRelevantStatus, data-set name with different contents, @pmFromFile/@ipMatchFromFile file name under different fs.FS roots, @rx with SecRxPreFilter On/Off, binary @rx) and, second round, families of TWIN configurations that agree on the text that looks like a cache key and differ in one other parameter that decides behaviour: @validateNid cl/us on one expression (two WAFs and two rules of one WAF), near-equal texts (non-ASCII letter case, ASCII letter case, one invalid byte) as @pm list / data-set content / phrase-file content / regex key / ctl key / @restpath / @rx, a @restpath template vs the literal reading of the same text, @validateSchema and @pmFromFile of one file name under different roots, @pmFromFile of one name resolved against different configuration directories of one root, @ipMatchFromDataset of one name with different contents; histories = every ordered pair of first-round configurations and every ordered pair inside a family for second-round ones, in two systematic shapes, plus seeded random sequences of build/probe/close over 3-4 slots (length <= 6 quick, <= 10 thorough), run sequentially in the plain and nomemo flavours and as concurrent rounds in the race flavour; every probe battery is compared with the same configuration built alone (in-process reference and fresh-process reference) and across flavours. A history is non-trivial when a construction found a cache entry it asks for already present (registered by another WAF); distinct by hash of the step list.",
		Assumptions: []string{
			"cache keys are a deterministic function of the configuration within one process (used only to decide non-triviality and to name the colliding role in the violation class, never for the verdict)",
			"the snapshot invariants checked are those of the documented contract of WAF.Close: entries shared with other WAF instances remain until all owners release them, and nothing remains registered to a closed WAF",
			"the structure:rx-operator monitor reads unexported fields of the @rx operator by reflection; if the layout changes it is skipped and counted (rx_structure_unavailable_or_indistinct), it never decides alone that the property holds",
			"WAFs are private to one goroutine in the concurrent variant; concurrent transactions on one WAF belong to C06",
		},
		Required: []string{"histories", "probes_compared", "snapshot_checks", "histories_with_shared_entry", "alone_cross_flavour_compared", "histories_cross_flavour_compared", "discriminating_pairs", "twin_pairs_discriminated", "concurrent_rounds"},
		Plan: func(tier fw.Tier, seed int64) []fw.Batch {
			sz := c13SizesFor(tier)
			pool := c13Pool()
			var bs []fw.Batch
			add := func(fl string, p c13Params, procs int) {
				raw, _ := json.Marshal(p)
				bs = append(bs, fw.Batch{Index: len(bs), Flavour: fl, Params: raw, GOMAXPROCS: procs, TimeoutS: 14400})
			}
			// long batches first so that the short ones fill the gaps
			for g := 0; g < sz.seqGroups; g++ {
				add("plain", c13Params{Mode: "seq", Group: g, Groups: sz.seqGroups}, 0)
			}
			for g := 0; g < sz.concBatches; g++ {
				add("race", c13Params{Mode: "conc", Group: g}, 4)
			}
			for g := 0; g < sz.seqGroups; g++ {
				add("nomemo", c13Params{Mode: "seq", Group: g, Groups: sz.seqGroups}, 0)
			}
			for _, c := range pool {
				add("plain", c13Params{Mode: "alone", Cfg: c.Idx}, 0)
				add("nomemo", c13Params{Mode: "alone", Cfg: c.Idx}, 0)
			}
			return bs
		},
		Run: func(w *fw.W, b fw.Batch) {
			var p c13Params
			if json.Unmarshal(b.Params, &p) != nil {
				return
			}
			pool := c13Pool()
			switch p.Mode {
			case "alone":
				c13RunAlone(w, &p, pool)
			case "seq":
				c13RunSeq(w, &p, pool)
			case "conc":
				c13RunConc(w, &p, pool)
			}
		},
		Replay: c13Replay,
		Finish: c13Finish,
	})
}
