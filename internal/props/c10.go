package props

// C10: body buffering is byte-faithful and limits are enforced exactly.
//
// Three populations, all judged against the small model in c10Model / c10JudgeBuffer:
//   small  - exhaustive small scope: every (limit L, in-memory limit M<=L, size n<=L+3, composition
//            of n into chunks, assignment of an entry point to every chunk, limit action, side);
//   buffer - direct BodyBuffer round trips through verifapi.NewBodyBuffer (every L, M, n, composition);
//   large  - sampled large scope: limits up to 1 MiB, random bytes, cuts placed at/around M and L.
//
// The oracle speaks only about what the statement pins down: stored bytes (body reader), bytes in
// REQUEST_BODY/RESPONSE_BODY, bytes handed to a recording body processor, where the Reject
// interruption appears and its status, that ProcessPartial never interrupts and runs the body
// phase once, and the *_DATA_ERROR variables. The byte count returned by a write call is never judged.

import (
	"bytes"
	"crypto/sha1"
	"encoding/hex"
	"encoding/json"
	"fmt"
	"io"
	"math/bits"
	"math/rand/v2"
	"os"
	"path/filepath"
	"sort"
	"strings"
	"testing/iotest"
	"time"

	coraza "github.com/corazawaf/coraza/v3"
	"github.com/corazawaf/coraza/v3/experimental/verifapi"
	"github.com/corazawaf/coraza/v3/types"

	"verif/internal/fw"
	"verif/internal/obs"
	"verif/internal/sl"
)

// Entry points per chunk.
const (
	c10KWrite   = 'W' // Write*Body(slice)
	c10KBytesR  = 'L' // Read*BodyFrom(*bytes.Reader)   - has Len()
	c10KStringR = 'S' // Read*BodyFrom(*strings.Reader) - has Len()
	c10KPartB   = 'P' // Read*BodyFrom(*bytes.Reader part of which the caller has consumed already: Len() < Size())
	c10KPartS   = 'Q' // Read*BodyFrom(*strings.Reader, likewise)
	c10KNoLen   = 'N' // Read*BodyFrom(reader hiding Len())
	c10KOneByte = 'O' // ... hiding Len(), one byte per Read
	c10KDataEOF = 'E' // ... hiding Len(), last data returned together with io.EOF
)

type c10Cfg struct {
	Side   string `json:"side"`      // req | res
	L      int    `json:"limit"`     // Sec{Request,Response}BodyLimit
	M      int    `json:"mem_limit"` // SecRequestBodyInMemoryLimit (request side; 0 = not configured, defaults to the limit)
	Action string `json:"action"`    // Reject | ProcessPartial
	Mode   string `json:"mode"`      // verifbody | raw | urlencoded (request) ; verifbody | variable (response)
	Via    string `json:"via"`       // directives | config (coraza.WAFConfig methods where they exist) | ctl (a larger directive limit lowered to L by ctl:requestBodyLimit / ctl:responseBodyLimit for the transaction)
}

type c10Chunk struct {
	N int    `json:"n"`
	K string `json:"k"`
}

// c10Case is the replayable description of one execution.
type c10Case struct {
	Kind      string     `json:"kind"` // tx | buffer
	Cfg       c10Cfg     `json:"cfg"`
	BodyKind  string     `json:"body_kind"` // table | random | hex
	BodySeed  uint64     `json:"body_seed,omitempty"`
	BodyHex   string     `json:"body_hex,omitempty"`
	BodyLen   int        `json:"body_len"`
	Chunks    []c10Chunk `json:"chunks"`
	ReadSizes []int      `json:"read_sizes,omitempty"` // buffer kind: buffer sizes of the interleaved readers
}

// 16 distinct bytes (delimiters, NUL, invalid UTF-8, a UTF-8 lead byte): position i of a small body is c10Table[i].
var c10Table = []byte{'a', '=', '1', '&', 'b', 0x00, 0xff, '%', 'Z', '+', '\n', '"', 0xc3, 'k', '~', '7'}

func c10Body(kind string, seed uint64, hx string, n int) []byte {
	switch kind {
	case "hex":
		b, _ := hex.DecodeString(hx)
		return b
	case "random":
		r := rand.New(rand.NewPCG(seed, seed^0x5851f42d4c957f2d))
		b := make([]byte, n)
		for i := 0; i+8 <= n; i += 8 {
			v := r.Uint64()
			for j := 0; j < 8; j++ {
				b[i+j] = byte(v >> (8 * j))
			}
		}
		for i := n &^ 7; i < n; i++ {
			b[i] = byte(r.Uint32())
		}
		return b
	default: // table
		b := make([]byte, n)
		for i := range b {
			b[i] = c10Table[i%len(c10Table)] + byte(i/len(c10Table))
		}
		return b
	}
}

func (c *c10Case) body() []byte { return c10Body(c.BodyKind, c.BodySeed, c.BodyHex, c.BodyLen) }

// ---------------------------------------------------------------- model

type c10Exp struct {
	Reached   bool `json:"limit_reached"`
	ReachedAt int  `json:"reached_at_call"` // index of the first call whose cumulative size is >= L (-1: never)
	Before    int  `json:"bytes_before_that_call"`
	Exact     bool `json:"stored_exact"` // stored bytes are pinned exactly (ProcessPartial, or limit not reached)
	StoredLen int  `json:"stored_len"`   // Exact: len of the stored prefix; otherwise upper bound
	MinLen    int  `json:"stored_min_len"`
	Status    int  `json:"status"` // expected interruption status when refused
}

// c10Model is the whole oracle for the transaction level: the cumulative size decides.
func c10Model(cfg *c10Cfg, sizes []int) c10Exp {
	e := c10Exp{ReachedAt: -1}
	cum, n := 0, 0
	for i, s := range sizes {
		n += s
		if e.Reached {
			continue
		}
		if cum+s >= cfg.L {
			e.Reached, e.ReachedAt, e.Before = true, i, cum
		}
		cum += s
	}
	switch {
	case !e.Reached:
		e.Exact, e.StoredLen, e.MinLen = true, n, n
	case cfg.Action == "ProcessPartial":
		e.Exact, e.StoredLen, e.MinLen = true, cfg.L, cfg.L
	default: // Reject: accepted calls stay, nothing beyond the limit
		e.StoredLen, e.MinLen = cfg.L, e.Before
		e.Status = 413
		if cfg.Side == "res" {
			e.Status = 500
		}
	}
	return e
}

// ---------------------------------------------------------------- WAF construction

func (c c10Cfg) text() string {
	var sb strings.Builder
	sb.WriteString("SecRuleEngine On\n")
	dir := c.Via != "config"
	if c.Side == "req" {
		if c.Via == "ctl" {
			fmt.Fprintf(&sb, "SecRequestBodyAccess On\nSecRequestBodyLimit %d\n", 4*c.L+16)
			if c.M > 0 {
				fmt.Fprintf(&sb, "SecRequestBodyInMemoryLimit %d\n", c.M)
			}
			fmt.Fprintf(&sb, "SecAction \"id:6,phase:1,pass,nolog,ctl:requestBodyLimit=%d\"\n", c.L)
		} else if dir {
			fmt.Fprintf(&sb, "SecRequestBodyAccess On\nSecRequestBodyLimit %d\n", c.L)
			if c.M > 0 {
				fmt.Fprintf(&sb, "SecRequestBodyInMemoryLimit %d\n", c.M)
			}
		}
		fmt.Fprintf(&sb, "SecRequestBodyLimitAction %s\n", c.Action)
		switch c.Mode {
		case "verifbody":
			sb.WriteString("SecAction \"id:1,phase:1,pass,nolog,ctl:requestBodyProcessor=VERIFBODY\"\n")
		case "raw":
			sb.WriteString("SecAction \"id:1,phase:1,pass,nolog,ctl:requestBodyProcessor=RAW\"\n")
		}
		sb.WriteString("SecRule REQUEST_BODY \"@verifrec v2 true\" \"id:2,phase:2,pass,nolog\"\n")
		sb.WriteString("SecRule INBOUND_DATA_ERROR \"@verifrec e2 true\" \"id:3,phase:2,pass,nolog\"\n")
		sb.WriteString("SecRule REQUEST_BODY \"@verifrec v5 true\" \"id:4,phase:5,pass,nolog\"\n")
		sb.WriteString("SecRule INBOUND_DATA_ERROR \"@verifrec e5 true\" \"id:5,phase:5,pass,nolog\"\n")
	} else {
		if c.Via == "ctl" {
			fmt.Fprintf(&sb, "SecResponseBodyAccess On\nSecResponseBodyLimit %d\nSecResponseBodyMimeType text/plain\n", 4*c.L+16)
			fmt.Fprintf(&sb, "SecAction \"id:6,phase:3,pass,nolog,ctl:responseBodyLimit=%d\"\n", c.L)
		} else if dir {
			fmt.Fprintf(&sb, "SecResponseBodyAccess On\nSecResponseBodyLimit %d\nSecResponseBodyMimeType text/plain\n", c.L)
		}
		fmt.Fprintf(&sb, "SecResponseBodyLimitAction %s\n", c.Action)
		if c.Mode == "verifbody" {
			sb.WriteString("SecAction \"id:1,phase:3,pass,nolog,ctl:responseBodyProcessor=VERIFBODY\"\n")
		}
		sb.WriteString("SecRule RESPONSE_BODY \"@verifrec v2 true\" \"id:2,phase:4,pass,nolog\"\n")
		sb.WriteString("SecRule OUTBOUND_DATA_ERROR \"@verifrec e2 true\" \"id:3,phase:4,pass,nolog\"\n")
		sb.WriteString("SecRule RESPONSE_BODY \"@verifrec v5 true\" \"id:4,phase:5,pass,nolog\"\n")
		sb.WriteString("SecRule OUTBOUND_DATA_ERROR \"@verifrec e5 true\" \"id:5,phase:5,pass,nolog\"\n")
	}
	return sb.String()
}

func (c c10Cfg) build() (coraza.WAF, error) {
	cfg := coraza.NewWAFConfig().WithDirectives(c.text())
	if c.Via == "config" {
		if c.Side == "req" {
			cfg = cfg.WithRequestBodyAccess().WithRequestBodyLimit(c.L)
			if c.M > 0 {
				cfg = cfg.WithRequestBodyInMemoryLimit(c.M)
			}
		} else {
			cfg = cfg.WithResponseBodyAccess().WithResponseBodyLimit(c.L).WithResponseBodyMimeTypes([]string{"text/plain"})
		}
	}
	return coraza.NewWAF(cfg)
}

// c10WAFs caches WAFs per configuration inside one batch.
type c10WAFs struct {
	m map[c10Cfg]coraza.WAF
}

func (s *c10WAFs) get(c c10Cfg) (coraza.WAF, error) {
	if w, ok := s.m[c]; ok {
		return w, nil
	}
	w, err := c.build()
	if err != nil {
		return nil, err
	}
	if s.m == nil {
		s.m = map[c10Cfg]coraza.WAF{}
	}
	s.m[c] = w
	return w, nil
}

func (s *c10WAFs) closeAll() {
	for k, w := range s.m {
		sl.CloseWAF(w)
		delete(s.m, k)
	}
}

// ---------------------------------------------------------------- execution (transaction level)

type c10Call struct {
	Status int  `json:"status"` // 0: no interruption returned
	N      int  `json:"n"`
	Err    bool `json:"err,omitempty"`
}

type c10Obs struct {
	Calls      []c10Call
	Proc       c10Call // the explicit Process{Request,Response}Body call
	Final      int     // status of tx.Interruption() at the end (0: none)
	Stored     []byte
	ReadErr    string
	ProcInputs [][]byte
	Var2, Var5 []string // body variable as seen by a rule in the body phase / logging phase
	Err2, Err5 []string // *_DATA_ERROR likewise
	BodyPhase  int      // PhaseBegin events of the body phase
	Spills     int      // spill files created during the case
	Panic      string
	CloseErr   bool
	Peeks      int    // partial reads through the body reader between two writes
	PeekBad    string // a partial read that did not return a prefix of the body
}

func c10Short(b []byte) string {
	if len(b) <= 96 {
		return fmt.Sprintf("len=%d hex=%s", len(b), hex.EncodeToString(b))
	}
	s := sha1.Sum(b)
	return fmt.Sprintf("len=%d sha1=%s head=%s tail=%s", len(b), hex.EncodeToString(s[:6]), hex.EncodeToString(b[:24]), hex.EncodeToString(b[len(b)-24:]))
}

func (o *c10Obs) view() map[string]any {
	var pin, v2, v5 []string
	for _, b := range o.ProcInputs {
		pin = append(pin, c10Short(b))
	}
	for _, s := range o.Var2 {
		v2 = append(v2, c10Short([]byte(s)))
	}
	for _, s := range o.Var5 {
		v5 = append(v5, c10Short([]byte(s)))
	}
	return map[string]any{"calls": o.Calls, "process_body_call": o.Proc, "final_interruption_status": o.Final,
		"stored": c10Short(o.Stored), "read_error": o.ReadErr, "processor_inputs": pin, "body_var_body_phase": v2,
		"body_var_logging_phase": v5, "data_error_body_phase": o.Err2, "data_error_logging_phase": o.Err5,
		"body_phase_begin_events": o.BodyPhase, "spill_files": o.Spills, "panic": o.Panic}
}

type c10HideLen struct{ io.Reader }

func c10Status(it *types.Interruption) int {
	if it == nil {
		return 0
	}
	if it.Status == 0 {
		return -1
	}
	return it.Status
}

var c10TxSeq int64

func c10Spills() int { return verifapi.FaultCounts()["bodybuffer.createtemp"] }

// c10ExecTx drives one transaction. Under Reject the writes stop at the first interruption (what a
// connector does); under ProcessPartial every chunk is offered.
func c10ExecTx(waf coraza.WAF, cfg *c10Cfg, body []byte, sizes []int, kinds []byte) *c10Obs {
	o := &c10Obs{}
	c10TxSeq++
	id := fmt.Sprintf("c10-%d", c10TxSeq)
	rec := obs.Attach(id)
	defer obs.Detach(id)
	spills0 := c10Spills()
	tx := waf.NewTransactionWithID(id)
	stop := sl.WatchTx(tx)
	req := cfg.Side == "req"
	var scratch []byte
	pi := fw.Guard(func() {
		tx.ProcessConnection("10.0.0.1", 1234, "10.0.0.2", 80)
		tx.ProcessURI("/c10", "POST", "HTTP/1.1")
		tx.AddRequestHeader("Host", "c10.test")
		if req && cfg.Mode == "urlencoded" {
			tx.AddRequestHeader("Content-Type", "application/x-www-form-urlencoded")
		} else {
			tx.AddRequestHeader("Content-Type", "application/octet-stream")
		}
		tx.ProcessRequestHeaders()
		if !req {
			tx.ProcessRequestBody()
			tx.AddResponseHeader("Content-Type", "text/plain")
			tx.ProcessResponseHeaders(200, "HTTP/1.1")
		}
		off := 0
		for i, n := range sizes {
			chunk := body[off : off+n]
			off += n
			var it *types.Interruption
			var wn int
			var err error
			var rd io.Reader
			switch kinds[i] {
			case c10KWrite:
				// the caller's buffer is reused after the call, as HTTP servers do
				scratch = append(scratch[:0], chunk...)
				if req {
					it, wn, err = tx.WriteRequestBody(scratch)
				} else {
					it, wn, err = tx.WriteResponseBody(scratch)
				}
				for j := range scratch {
					scratch[j] = 0xAA
				}
			case c10KBytesR:
				rd = bytes.NewReader(chunk)
			case c10KStringR:
				rd = strings.NewReader(string(chunk))
			case c10KPartB, c10KPartS:
				// a connector that peeked at the first bytes hands over a reader whose original size is larger than
				// what is left in it: only what is left counts
				skip := 1 + len(chunk) + i%5
				pre := bytes.Repeat([]byte{0x7e}, skip)
				if kinds[i] == c10KPartB {
					br := bytes.NewReader(append(pre, chunk...))
					br.Seek(int64(skip), io.SeekStart)
					rd = br
				} else {
					sr := strings.NewReader(string(pre) + string(chunk))
					sr.Seek(int64(skip), io.SeekStart)
					rd = sr
				}
			case c10KOneByte:
				rd = c10HideLen{iotest.OneByteReader(bytes.NewReader(chunk))}
			case c10KDataEOF:
				rd = c10HideLen{iotest.DataErrReader(bytes.NewReader(chunk))}
			default:
				rd = c10HideLen{bytes.NewReader(chunk)}
			}
			if rd != nil {
				if req {
					it, wn, err = tx.ReadRequestBodyFrom(rd)
				} else {
					it, wn, err = tx.ReadResponseBodyFrom(rd)
				}
			}
			o.Calls = append(o.Calls, c10Call{Status: c10Status(it), N: wn, Err: err != nil})
			if it != nil && cfg.Action == "Reject" {
				break
			}
			// a connector may look at what is buffered so far between two writes (a partial read through the body
			// reader): it must see a prefix of the body and must not disturb what the following writes store
			if i+1 < len(sizes) && (i+len(sizes))%2 == 0 {
				var prd io.Reader
				var perr error
				if req {
					prd, perr = tx.RequestBodyReader()
				} else {
					prd, perr = tx.ResponseBodyReader()
				}
				if perr == nil {
					peek := make([]byte, 1+(i+n)%3)
					k, _ := prd.Read(peek)
					o.Peeks++
					if !bytes.HasPrefix(body, peek[:k]) {
						o.PeekBad = fmt.Sprintf("after call %d a partial read returned %q, not a prefix of the body", i, peek[:k])
					}
				}
			}
		}
		var it *types.Interruption
		var err error
		var rd io.Reader
		var rerr error
		if req {
			it, err = tx.ProcessRequestBody()
			rd, rerr = tx.RequestBodyReader()
		} else {
			it, err = tx.ProcessResponseBody()
			rd, rerr = tx.ResponseBodyReader()
		}
		o.Proc = c10Call{Status: c10Status(it), Err: err != nil}
		if rerr != nil {
			o.ReadErr = "reader: " + rerr.Error()
		} else {
			b, e := io.ReadAll(rd)
			o.Stored = b
			if e != nil {
				o.ReadErr = "read: " + e.Error()
			}
		}
		if req {
			tx.AddResponseHeader("Content-Type", "text/plain")
			tx.ProcessResponseHeaders(200, "HTTP/1.1")
			tx.ProcessResponseBody()
		}
		tx.ProcessLogging()
		o.Final = c10Status(tx.Interruption())
	})
	if pi != nil {
		o.Panic = pi.Value + " @ " + pi.Frame
	}
	pb, _ := stop()
	if req {
		o.BodyPhase = pb[2]
		o.ProcInputs = obs.TakeBodies("req", id)
		obs.TakeBodies("res", id)
	} else {
		o.BodyPhase = pb[4]
		o.ProcInputs = obs.TakeBodies("res", id)
		obs.TakeBodies("req", id)
	}
	o.Var2, o.Var5, o.Err2, o.Err5 = rec.Seen["v2"], rec.Seen["v5"], rec.Seen["e2"], rec.Seen["e5"]
	if pc := fw.Guard(func() {
		if err := tx.Close(); err != nil {
			o.CloseErr = true
		}
	}); pc != nil && o.Panic == "" {
		o.Panic = "close: " + pc.Value + " @ " + pc.Frame
	}
	o.Spills = c10Spills() - spills0
	return o
}

// c10JudgeTx compares an observation with the model; returns ("","") when everything pinned holds.
func c10JudgeTx(cfg *c10Cfg, body []byte, sizes []int, e *c10Exp, o *c10Obs) (class, detail string) {
	pre := cfg.Side + ":" + cfg.Action + ":"
	if o.Panic != "" {
		return pre + "panic", o.Panic
	}
	where := "memory"
	if o.Spills > 0 {
		where = "spilled"
	}
	if o.PeekBad != "" {
		return pre + "partial-read-not-a-prefix:" + where, o.PeekBad
	}
	cum := 0
	for i, c := range o.Calls {
		cum += sizes[i]
		if c.Err {
			return pre + "unexpected-error", fmt.Sprintf("call %d (cumulative size %d, limit %d) returned an error", i, cum, cfg.L)
		}
		if cfg.Action == "ProcessPartial" {
			if c.Status != 0 {
				return pre + "interruption-under-processpartial", fmt.Sprintf("call %d returned an interruption (status %d)", i, c.Status)
			}
			continue
		}
		switch {
		case c.Status != 0 && i != e.ReachedAt:
			return pre + "refused-below-limit", fmt.Sprintf("call %d returned an interruption at cumulative size %d < limit %d", i, cum, cfg.L)
		case c.Status == 0 && i == e.ReachedAt:
			rel := "beyond-limit"
			if cum == cfg.L {
				rel = "exactly-at-limit"
			}
			return pre + "not-refused:" + rel, fmt.Sprintf("call %d brought the cumulative size to %d (limit %d) without an interruption", i, cum, cfg.L)
		case c.Status != 0 && c.Status != e.Status:
			return pre + "refusal-status", fmt.Sprintf("call %d: interruption status %d, want %d", i, c.Status, e.Status)
		}
	}
	refused := e.Reached && cfg.Action == "Reject"
	if refused && o.Final != e.Status {
		return pre + "final-interruption", fmt.Sprintf("tx.Interruption() status %d after a refused body, want %d", o.Final, e.Status)
	}
	if !refused && (o.Final != 0 || o.Proc.Status != 0 || o.Proc.Err) {
		return pre + "spurious-interruption", fmt.Sprintf("body not refused, yet final interruption status %d / Process*Body returned status %d err=%v", o.Final, o.Proc.Status, o.Proc.Err)
	}
	// stored bytes
	if o.ReadErr != "" {
		return pre + "reader-error:" + where, o.ReadErr
	}
	if len(o.Stored) > cfg.L {
		return pre + "stored-beyond-limit:" + where, fmt.Sprintf("%d bytes stored, limit %d", len(o.Stored), cfg.L)
	}
	if e.Exact {
		if !bytes.Equal(o.Stored, body[:e.StoredLen]) {
			return pre + "stored-bytes:" + where, fmt.Sprintf("body reader returned %s, want the first %d supplied bytes %s", c10Short(o.Stored), e.StoredLen, c10Short(body[:e.StoredLen]))
		}
	} else if len(o.Stored) < e.MinLen || !bytes.HasPrefix(body, o.Stored) {
		return pre + "stored-bytes-after-refusal:" + where, fmt.Sprintf("body reader returned %s; want a prefix of the supplied bytes holding at least the %d accepted bytes", c10Short(o.Stored), e.MinLen)
	}
	// what body processors were given
	for _, in := range o.ProcInputs {
		if len(in) > cfg.L || !bytes.HasPrefix(body, in) {
			return pre + "processor-input", fmt.Sprintf("body processor was given %s, not a prefix (<= limit) of the supplied bytes", c10Short(in))
		}
	}
	if e.Exact && cfg.Mode == "verifbody" {
		switch {
		case len(o.ProcInputs) > 1:
			return pre + "processor-calls", fmt.Sprintf("body processor ran %d times", len(o.ProcInputs))
		case len(o.ProcInputs) == 1 && !bytes.Equal(o.ProcInputs[0], body[:e.StoredLen]):
			return pre + "processor-input", fmt.Sprintf("body processor was given %s, want %s", c10Short(o.ProcInputs[0]), c10Short(body[:e.StoredLen]))
		case len(o.ProcInputs) == 0 && e.StoredLen > 0:
			return pre + "processor-calls", "body processor never ran on a non-empty accepted body"
		}
	}
	// body variable
	for _, v := range append(append([]string{}, o.Var2...), o.Var5...) {
		if len(v) > cfg.L || !strings.HasPrefix(string(body), v) {
			return pre + "body-variable", fmt.Sprintf("body variable held %s, not a prefix (<= limit) of the supplied bytes", c10Short([]byte(v)))
		}
	}
	if e.Exact {
		if len(o.Var2) != 1 || len(o.Var5) != 1 {
			return pre + "body-phase-count", fmt.Sprintf("probe rule of the body phase ran %d times, of the logging phase %d times; want 1 and 1", len(o.Var2), len(o.Var5))
		}
		if o.BodyPhase != 1 {
			return pre + "body-phase-count", fmt.Sprintf("body phase began %d times (hook events), want 1", o.BodyPhase)
		}
		if cfg.Mode != "verifbody" {
			want := string(body[:e.StoredLen])
			if o.Var2[0] != want || o.Var5[0] != want {
				return pre + "body-variable", fmt.Sprintf("body variable: body phase %s, logging phase %s, want %s", c10Short([]byte(o.Var2[0])), c10Short([]byte(o.Var5[0])), c10Short([]byte(want)))
			}
		}
	} else if o.BodyPhase > 1 || len(o.Var2) > 1 {
		return pre + "body-phase-count", fmt.Sprintf("body phase began %d times on a refused body", o.BodyPhase)
	}
	// *_DATA_ERROR
	errs := append([]string{}, o.Err5...)
	if e.Exact {
		errs = append(errs, o.Err2...)
	}
	if len(o.Err5) != 1 {
		return pre + "data-error-variable", fmt.Sprintf("logging-phase probe of the data-error variable ran %d times", len(o.Err5))
	}
	for _, v := range errs {
		if (v == "1") != e.Reached {
			return pre + "data-error-variable", fmt.Sprintf("data-error variable %q with limit reached = %v", v, e.Reached)
		}
	}
	return "", ""
}

// ---------------------------------------------------------------- direct BodyBuffer round trips

type c10BufObs struct {
	Writes     []c10Call
	Size       int64
	Contents   [][]byte // what each reader returned
	ReadErr    string
	Spills     int
	Panic      string
	AfterReset struct {
		ResetErr bool
		Size     int64
		Leftover int
		Reuse    []byte
		ReuseErr bool
	}
	WriteTo    []byte
	WriteToErr bool
}

func (o *c10BufObs) view() map[string]any {
	var cs []string
	for _, b := range o.Contents {
		cs = append(cs, c10Short(b))
	}
	return map[string]any{"writes": o.Writes, "size": o.Size, "readers": cs, "read_error": o.ReadErr, "spill_files": o.Spills,
		"panic": o.Panic, "reset_error": o.AfterReset.ResetErr, "size_after_reset": o.AfterReset.Size,
		"bytes_after_reset": o.AfterReset.Leftover, "reuse": c10Short(o.AfterReset.Reuse)}
}

// c10ExecBuffer writes the chunks into a fresh BodyBuffer (stopping at the first refused write),
// reads it back through several independent, interleaved readers, resets it and uses it once more.
func c10ExecBuffer(tmp string, L, M int, body []byte, sizes []int, readSizes []int) *c10BufObs {
	o := &c10BufObs{}
	spills0 := c10Spills()
	pi := fw.Guard(func() {
		bb := verifapi.NewBodyBuffer(types.BodyBufferOptions{TmpPath: tmp, MemoryLimit: int64(M), Limit: int64(L)})
		off := 0
		var scratch []byte
		for _, n := range sizes {
			scratch = append(scratch[:0], body[off:off+n]...)
			off += n
			wn, err := bb.Write(scratch)
			for j := range scratch {
				scratch[j] = 0xAA
			}
			o.Writes = append(o.Writes, c10Call{N: wn, Err: err != nil})
			if err != nil {
				break
			}
		}
		o.Size = bb.Size()
		// interleaved independent readers with different buffer sizes
		if len(readSizes) == 0 {
			readSizes = []int{1 << 15}
		}
		rds := make([]io.Reader, len(readSizes))
		bufs := make([][]byte, len(readSizes))
		done := make([]bool, len(readSizes))
		o.Contents = make([][]byte, len(readSizes)+1)
		for i, rs := range readSizes {
			r, err := bb.Reader()
			if err != nil {
				o.ReadErr = "reader: " + err.Error()
				return
			}
			rds[i], bufs[i] = r, make([]byte, rs)
		}
		for left, guard := len(rds), 0; left > 0 && guard < 1<<24; guard++ {
			for i, r := range rds {
				if done[i] {
					continue
				}
				n, err := r.Read(bufs[i])
				o.Contents[i] = append(o.Contents[i], bufs[i][:n]...)
				if err != nil {
					if err != io.EOF {
						o.ReadErr = "read: " + err.Error()
					}
					done[i] = true
					left--
				} else if n == 0 {
					guard += 1 << 10
				}
			}
		}
		if r, err := bb.Reader(); err == nil {
			b, e := io.ReadAll(r)
			o.Contents[len(readSizes)] = b
			if e != nil {
				o.ReadErr = "readall: " + e.Error()
			}
		}
		var wt bytes.Buffer
		_, werr := bb.WriteTo(&wt)
		o.WriteTo, o.WriteToErr = wt.Bytes(), werr != nil
		o.Spills = c10Spills() - spills0
		// reset and reuse (transactions are pooled together with their buffers)
		o.AfterReset.ResetErr = bb.Reset() != nil
		o.AfterReset.Size = bb.Size()
		if r, err := bb.Reader(); err == nil {
			b, _ := io.ReadAll(r)
			o.AfterReset.Leftover = len(b)
		}
		k := len(body)
		if k > L {
			k = L
		}
		if k > 0 {
			_, err := bb.Write(append([]byte{}, body[:k]...))
			o.AfterReset.ReuseErr = err != nil
		}
		if r, err := bb.Reader(); err == nil {
			o.AfterReset.Reuse, _ = io.ReadAll(r)
		}
		bb.Reset()
	})
	if pi != nil {
		o.Panic = pi.Value + " @ " + pi.Frame
	}
	return o
}

func c10JudgeBuffer(L, M int, body []byte, sizes []int, o *c10BufObs) (class, detail string) {
	if o.Panic != "" {
		return "buffer:panic", o.Panic
	}
	where := "memory"
	if o.Spills > 0 {
		where = "spilled"
	}
	cum, refused := 0, false
	for i, c := range o.Writes {
		if cum+sizes[i] <= L {
			if c.Err {
				return "buffer:write-refused-within-limit:" + where, fmt.Sprintf("write %d (%d bytes after %d, limit %d) failed", i, sizes[i], cum, L)
			}
			cum += sizes[i]
			continue
		}
		refused = true
		break
	}
	if o.ReadErr != "" {
		return "buffer:reader-error:" + where, o.ReadErr
	}
	for i, got := range o.Contents {
		if len(got) > L {
			return "buffer:stored-beyond-limit:" + where, fmt.Sprintf("reader %d returned %d bytes, limit %d", i, len(got), L)
		}
		if refused {
			if len(got) < cum || !bytes.HasPrefix(body, got) {
				return "buffer:stored-bytes-after-refusal:" + where, fmt.Sprintf("reader %d returned %s; want a prefix of the supplied bytes holding the %d accepted bytes", i, c10Short(got), cum)
			}
		} else if !bytes.Equal(got, body[:cum]) {
			return "buffer:stored-bytes:" + where, fmt.Sprintf("reader %d returned %s, want %s", i, c10Short(got), c10Short(body[:cum]))
		}
	}
	if o.Size != int64(len(o.Contents[0])) {
		return "buffer:size:" + where, fmt.Sprintf("Size() = %d with %d bytes readable", o.Size, len(o.Contents[0]))
	}
	if o.AfterReset.Size != 0 || o.AfterReset.Leftover != 0 {
		return "buffer:reset-leftover:" + where, fmt.Sprintf("after Reset: Size() = %d, %d bytes readable", o.AfterReset.Size, o.AfterReset.Leftover)
	}
	k := len(body)
	if k > L {
		k = L
	}
	if o.AfterReset.ReuseErr || !bytes.Equal(o.AfterReset.Reuse, body[:k]) {
		return "buffer:reuse-after-reset:" + where, fmt.Sprintf("second use returned %s (write error %v), want %s", c10Short(o.AfterReset.Reuse), o.AfterReset.ReuseErr, c10Short(body[:k]))
	}
	return "", ""
}

// ---------------------------------------------------------------- running and accounting

type c10Runner struct {
	w    *fw.W
	wafs c10WAFs
	fast string // spill directory of the small scope (tmpfs when available)
	disk string // spill directory of the large scope and the bare-buffer round trips (worker scratch)
	cur  string
}

// Millions of spill files are created and removed by the small scope; sixteen workers doing that on
// one journalled file system spend their time waiting for it. The small scope therefore spills into a
// private tmpfs directory when /dev/shm is usable; the large scope and the bare-buffer round trips
// keep spilling into the worker's scratch directory on disk.
func newC10Runner(w *fw.W) *c10Runner {
	r := &c10Runner{w: w, disk: w.Scratch, fast: w.Scratch}
	if r.disk == "" {
		r.disk = os.TempDir()
		r.fast = r.disk
	}
	if old, _ := filepath.Glob("/dev/shm/verif-c10-*"); len(old) > 0 {
		for _, d := range old { // left behind by a killed worker
			if st, err := os.Stat(d); err == nil && time.Since(st.ModTime()) > 6*time.Hour {
				os.RemoveAll(d)
			}
		}
	}
	if d, err := os.MkdirTemp("/dev/shm", "verif-c10-"); err == nil {
		r.fast = d
		w.Cover("spill_directories", "small scope: tmpfs (/dev/shm)")
	} else {
		w.Cover("spill_directories", "small scope: worker scratch")
	}
	w.Cover("spill_directories", "large scope and bare buffer: worker scratch")
	verifapi.ResetFaults(true) // count mode: bodybuffer.createtemp hits = spill files created
	return r
}

func (r *c10Runner) close() {
	r.wafs.closeAll()
	if r.fast != r.disk {
		os.RemoveAll(r.fast)
	}
	os.Setenv("TMPDIR", r.disk)
}

// useTmp makes dir the spill directory of the WAFs built from now on (WAF.TmpDir = os.TempDir()).
func (r *c10Runner) useTmp(dir string) {
	if r.cur != dir {
		r.wafs.closeAll()
		os.Setenv("TMPDIR", dir)
		r.cur = dir
	}
}

func c10Hash(cfg *c10Cfg, kind string, bodyKey uint64, sizes []int, kinds []byte) uint64 {
	h := fw.Hash(kind+"|"+cfg.Side+"|"+cfg.Action+"|"+cfg.Mode+"|"+cfg.Via) ^ (uint64(cfg.L)*0x9e3779b97f4a7c15 + uint64(cfg.M)*0xc2b2ae3d27d4eb4f + bodyKey)
	for i, s := range sizes {
		h = (h ^ uint64(s)<<8 ^ uint64(kinds[i])) * 0x100000001b3
	}
	return h
}

func c10MkCase(kind string, cfg *c10Cfg, bodyKind string, seed uint64, body []byte, sizes []int, kinds []byte, readSizes []int) *c10Case {
	c := &c10Case{Kind: kind, Cfg: *cfg, BodyKind: bodyKind, BodySeed: seed, BodyLen: len(body), ReadSizes: readSizes}
	if bodyKind == "hex" {
		c.BodyHex = hex.EncodeToString(body)
	}
	for i, s := range sizes {
		k := "W"
		if kinds != nil {
			k = string(kinds[i])
		}
		c.Chunks = append(c.Chunks, c10Chunk{N: s, K: k})
	}
	return c
}

// runTx executes, judges and accounts one transaction-level case. scope is "small" or "large".
func (r *c10Runner) runTx(scope string, cfg *c10Cfg, bodyKind string, seed uint64, body []byte, sizes []int, kinds []byte) {
	w := r.w
	waf, err := r.wafs.get(*cfg)
	if err != nil {
		w.Violation("config-rejected", "model", c10MkCase("tx", cfg, bodyKind, seed, body, sizes, kinds, nil), nil, nil, "NewWAF refused a valid limit configuration: "+err.Error())
		return
	}
	if w.Tracing() {
		w.Trace(c10MkCase("tx", cfg, bodyKind, seed, body, sizes, kinds, nil))
	}
	e := c10Model(cfg, sizes)
	o := c10ExecTx(waf, cfg, body, sizes, kinds)
	w.Eval(1)
	w.Count(scope+"_scope_executions", 1)
	if class, detail := c10JudgeTx(cfg, body, sizes, &e, o); class != "" {
		w.Violation(class, "model:"+scope+"-scope", c10MkCase("tx", cfg, bodyKind, seed, body, sizes, kinds, nil), e, o.view(), detail)
		return
	}
	// coverage
	nt := false
	if o.Spills > 0 {
		w.Count("spills_observed", 1)
		nt = true
	}
	if e.Reached {
		nt = true
		if cfg.Action == "Reject" {
			w.Count("rejects_observed", 1)
			w.Count("rejects_"+cfg.Side, 1)
		} else {
			w.Count("partial_runs_observed", 1)
			w.Count("partial_runs_"+cfg.Side, 1)
			if e.ReachedAt < len(sizes)-1 {
				w.Count("partial_later_chunks_ignored", 1)
			}
		}
	}
	if len(o.ProcInputs) > 0 {
		w.Count("processor_inputs_checked", len(o.ProcInputs))
	}
	if e.Exact && cfg.Mode != "verifbody" {
		w.Count("body_variable_checked", 1)
	}
	if o.CloseErr {
		w.Count("close_errors_not_judged", 1)
	}
	var mix [256]bool
	nk := 0
	for _, k := range kinds[:len(sizes)] {
		if !mix[k] {
			mix[k] = true
			nk++
		}
	}
	if nk > 1 {
		w.Count("mixed_entry_point_cases", 1)
	}
	ks := make([]byte, 0, 6)
	for _, k := range []byte("WLSNOE") {
		if mix[k] {
			ks = append(ks, k)
		}
	}
	w.Cover("entry_point_mixes", string(ks))
	c10Relations(w, cfg, sizes)
	if nt {
		w.Nontrivial(c10Hash(cfg, "tx", seed^uint64(len(body)), sizes, kinds))
		if w.WantSample() && (scope == "large" || len(sizes) > 2) {
			w.Sample(map[string]any{"case": c10MkCase("tx", cfg, bodyKind, seed, body, sizes, kinds, nil), "model": e, "observed": o.view()})
		}
	}
}

// c10Relations records which threshold relations a case exercised.
func c10Relations(w *fw.W, cfg *c10Cfg, sizes []int) {
	n, cum := 0, 0
	for _, s := range sizes {
		n += s
	}
	rel := func(name string, t int) {
		switch {
		case n < t:
			w.Count("size_below_"+name, 1)
		case n == t:
			w.Count("size_at_"+name, 1)
		default:
			w.Count("size_above_"+name, 1)
		}
	}
	rel("limit", cfg.L)
	m := cfg.M
	if cfg.Side == "req" && m > 0 && m < cfg.L {
		rel("memlimit", m)
	} else {
		m = 0
	}
	for _, s := range sizes {
		a, b := cum, cum+s
		cum = b
		if s == 0 {
			w.Count("empty_chunks", 1)
			continue
		}
		if a < cfg.L && b > cfg.L {
			w.Count("chunk_straddles_limit", 1)
		}
		if b == cfg.L {
			w.Count("chunk_ends_at_limit", 1)
		}
		if m > 0 && a < m && b > m {
			w.Count("chunk_straddles_memlimit", 1)
		}
		if m > 0 && b == m {
			w.Count("chunk_ends_at_memlimit", 1)
		}
	}
}

func (r *c10Runner) runBuffer(L, M int, bodyKind string, seed uint64, body []byte, sizes []int, readSizes []int) {
	w := r.w
	cfg := &c10Cfg{Side: "buffer", L: L, M: M}
	if w.Tracing() {
		w.Trace(c10MkCase("buffer", cfg, bodyKind, seed, body, sizes, nil, readSizes))
	}
	o := c10ExecBuffer(r.disk, L, M, body, sizes, readSizes)
	w.Eval(1)
	w.Count("bodybuffer_roundtrips", 1)
	if class, detail := c10JudgeBuffer(L, M, body, sizes, o); class != "" {
		w.Violation(class, "model:bodybuffer", c10MkCase("buffer", cfg, bodyKind, seed, body, sizes, nil, readSizes), map[string]any{"limit": L, "mem_limit": M}, o.view(), detail)
		return
	}
	if o.Spills > 0 {
		w.Count("bodybuffer_spills", 1)
		// BodyBuffer.WriteTo is not one of the observation points of the statement (nothing in the
		// library calls it); its behaviour on a spilled buffer is recorded, not judged.
		if o.WriteToErr || !bytes.Equal(o.WriteTo, o.Contents[0]) {
			w.Count("writeto_on_spilled_buffer_incomplete_not_judged", 1)
		}
	}
	n := 0
	for _, s := range sizes {
		n += s
	}
	if n > L {
		w.Count("bodybuffer_refused_writes", 1)
	}
	if o.Spills > 0 || n > L {
		kinds := make([]byte, len(sizes))
		w.Nontrivial(c10Hash(cfg, "buffer", seed^uint64(len(body)), sizes, kinds) ^ fw.Hash(fmt.Sprint(readSizes)))
	}
}

// ---------------------------------------------------------------- small scope enumeration

var c10ReqModes = []string{"verifbody", "raw", "urlencoded"}
var c10ResModes = []string{"verifbody", "variable"}

// c10Unit is one shard of work handed to a worker.
type c10Unit struct {
	Kind   string `json:"kind"` // small | buffer | large
	Side   string `json:"side,omitempty"`
	Action string `json:"action,omitempty"`
	L      int    `json:"l,omitempty"`
	M      int    `json:"m,omitempty"`
	N      int    `json:"n,omitempty"`
	Shard  int    `json:"shard,omitempty"`
	Shards int    `json:"shards,omitempty"`
	Count  int    `json:"count,omitempty"` // large: number of sampled cases
	Salt   uint64 `json:"salt,omitempty"`
}

func c10Pow(b, e int) int {
	r := 1
	for ; e > 0; e-- {
		r *= b
	}
	return r
}

// cost in executions
func (u c10Unit) cost() int {
	switch u.Kind {
	case "small":
		if u.N == 0 {
			return 4
		}
		return 3 * c10Pow(4, u.N-1) / u.Shards
	case "buffer":
		return c10Pow(2, u.L+3) * u.L * 2
	default:
		return u.Count * 40 // large cases are far more expensive than small ones
	}
}

func c10Via(L, M int) string {
	switch (L + 2*M) % 3 {
	case 1:
		return "config"
	case 2:
		return "ctl"
	}
	return "directives"
}

// runSmall enumerates every composition of N (restricted to this shard) and every assignment of
// {W, reader with Len, reader without Len} to its chunks.
func (r *c10Runner) runSmall(u c10Unit) {
	r.useTmp(r.fast)
	modes := c10ReqModes
	if u.Side == "res" {
		modes = c10ResModes
	}
	body := c10Body("table", 0, "", u.N)
	r.w.Max("small_scope_L_max", int64(u.L))
	r.w.Max("small_scope_n_max", int64(u.N))
	mk := func(i int) c10Cfg {
		return c10Cfg{Side: u.Side, L: u.L, M: u.M, Action: u.Action, Mode: modes[i%len(modes)], Via: c10Via(u.L, u.M)}
	}
	if u.N == 0 {
		cfg := mk(0)
		r.runTx("small", &cfg, "table", 0, body, nil, nil)
		for i, k := range []byte{c10KWrite, c10KBytesR, c10KNoLen} {
			cfg := mk(i + 1)
			r.runTx("small", &cfg, "table", 0, body, []int{0}, []byte{k})
		}
		return
	}
	sizes := make([]int, 0, u.N)
	kinds := make([]byte, u.N)
	for mask := 0; mask < 1<<(u.N-1); mask++ {
		if u.Shards > 1 && mask%u.Shards != u.Shard {
			continue
		}
		// bit i set = cut after byte i
		sizes = sizes[:0]
		run := 1
		for i := 0; i < u.N-1; i++ {
			if mask>>i&1 == 1 {
				sizes = append(sizes, run)
				run = 1
			} else {
				run++
			}
		}
		sizes = append(sizes, run)
		k := len(sizes)
		for a, tot := 0, c10Pow(3, k); a < tot; a++ {
			for i, d := 0, a; i < k; i, d = i+1, d/3 {
				switch d % 3 {
				case 0:
					kinds[i] = c10KWrite
				case 1:
					// the readers that know their length rotate through four forms
					kinds[i] = []byte{c10KBytesR, c10KStringR, c10KPartB, c10KPartS}[(i+a/3)%4]
				default:
					kinds[i] = c10KNoLen
				}
			}
			cfg := mk(mask + a + bits.OnesCount(uint(mask)))
			r.runTx("small", &cfg, "table", 0, body, sizes, kinds[:k])
		}
	}
}

func (r *c10Runner) runBufferUnit(u c10Unit) {
	L := u.L
	r.w.Max("bodybuffer_L_max", int64(L))
	for M := 1; M <= L; M++ {
		for n := 0; n <= L+2; n++ {
			body := c10Body("table", 0, "", n)
			if n == 0 {
				r.runBuffer(L, M, "table", 0, body, nil, []int{1, 4})
				continue
			}
			for mask := 0; mask < 1<<(n-1); mask++ {
				var sizes []int
				run := 1
				for i := 0; i < n-1; i++ {
					if mask>>i&1 == 1 {
						sizes = append(sizes, run)
						run = 1
					} else {
						run++
					}
				}
				sizes = append(sizes, run)
				rs := [][]int{{1, 2}, {3, n + 1}, {n, 1, 5}}[mask%3]
				r.runBuffer(L, M, "table", 0, body, sizes, rs)
			}
		}
	}
}

// ---------------------------------------------------------------- large scope sampling

func c10PickLimit(r *rand.Rand) int {
	switch p := r.IntN(100); {
	case p < 35:
		return 8 + r.IntN(249)
	case p < 70:
		return 256 + r.IntN(16<<10-256)
	case p < 93:
		return 16<<10 + r.IntN(112<<10)
	default:
		return 128<<10 + r.IntN(896<<10+1)
	}
}

func (r *c10Runner) runLarge(u c10Unit) {
	r.useTmp(r.disk)
	rng := r.w.Rng
	for i := 0; i < u.Count; i++ {
		cfg := c10Cfg{Side: "req", Action: "Reject", Via: "directives"}
		if rng.IntN(4) == 0 {
			cfg.Side = "res"
		}
		if rng.IntN(2) == 0 {
			cfg.Action = "ProcessPartial"
		}
		switch rng.IntN(4) {
		case 0:
			cfg.Via = "config"
		case 1:
			cfg.Via = "ctl"
		}
		L := c10PickLimit(rng)
		if i == 0 && u.Salt%4 == 0 {
			L = 1 << 20
		}
		cfg.L = L
		M := 0
		if cfg.Side == "req" {
			cfg.Mode = c10ReqModes[rng.IntN(len(c10ReqModes))]
			switch rng.IntN(8) {
			case 0: // directive omitted: in-memory limit defaults to the limit
			case 1:
				cfg.M = L
			case 2:
				cfg.M = L - 1
			case 3:
				cfg.M = 1
			case 4:
				cfg.M = L / 2
			default:
				cfg.M = 1 + rng.IntN(L)
			}
			if cfg.M < 0 {
				cfg.M = 0
			}
			if cfg.M > 0 && cfg.M < L {
				M = cfg.M
			}
		} else {
			cfg.Mode = c10ResModes[rng.IntN(len(c10ResModes))]
		}
		// size around a threshold
		var n int
		switch rng.IntN(12) {
		case 0:
			n = L - 1
		case 1:
			n = L
		case 2:
			n = L + 1
		case 3:
			n = M - 1
		case 4:
			n = M
		case 5:
			n = M + 1
		case 6:
			n = L + 1 + rng.IntN(L/2+2)
		case 7:
			n = 2*L + rng.IntN(3)
		case 8:
			n = rng.IntN(4)
		default:
			n = rng.IntN(L + L/4 + 3)
		}
		if n < 0 {
			n = 0
		}
		// cuts: random ones plus cuts at / next to the thresholds
		cuts := map[int]bool{}
		for k := rng.IntN(6); k > 0 && n > 1; k-- {
			cuts[1+rng.IntN(n-1)] = true
		}
		for _, t := range []int{M, L} {
			if t <= 0 {
				continue
			}
			for _, d := range []int{-1, 0, 1} {
				if c := t + d; c > 0 && c < n && rng.IntN(3) == 0 {
					cuts[c] = true
				}
			}
		}
		var cs []int
		for c := range cuts {
			cs = append(cs, c)
		}
		sort.Ints(cs)
		var sizes []int
		prev := 0
		for _, c := range cs {
			sizes = append(sizes, c-prev)
			prev = c
		}
		if n > prev || len(sizes) == 0 {
			sizes = append(sizes, n-prev)
		}
		// occasional empty chunks
		if rng.IntN(8) == 0 {
			at := rng.IntN(len(sizes) + 1)
			sizes = append(sizes[:at], append([]int{0}, sizes[at:]...)...)
		}
		kinds := make([]byte, len(sizes))
		for j, s := range sizes {
			ks := []byte{c10KWrite, c10KWrite, c10KBytesR, c10KStringR, c10KPartB, c10KPartS, c10KNoLen, c10KNoLen, c10KDataEOF}
			if s <= 2048 {
				ks = append(ks, c10KOneByte)
			}
			kinds[j] = ks[rng.IntN(len(ks))]
		}
		seed := rng.Uint64()
		body := c10Body("random", seed, "", n)
		r.w.Max("large_scope_limit_max", int64(L))
		r.w.Max("large_scope_body_max", int64(n))
		r.runTx("large", &cfg, "random", seed, body, sizes, kinds)
		r.w.Count("large_scope_cases", 1)
		// every few cases: the same body through a bare BodyBuffer
		if i%4 == 0 {
			bm := M
			if bm == 0 {
				bm = L
			}
			rs := []int{1 + rng.IntN(4096), 1 + rng.IntN(n+1)}
			r.runBuffer(L, bm, "random", seed, body, sizes, rs)
		}
		// a large-limit WAF is used once
		r.wafs.closeAll()
	}
}

// ---------------------------------------------------------------- plan

type c10Params struct {
	Units []c10Unit `json:"units"`
}

func c10Plan(tier fw.Tier) []fw.Batch {
	var units []c10Unit
	lmaxFull, nmax, nb, large := 6, 8, 16, 1200
	var extraL []int
	if tier == fw.Thorough {
		lmaxFull, nmax, nb, large = 7, 10, 64, 50000
		extraL = []int{8}
	}
	add := func(side, action string, L, M int) {
		for n := 0; n <= L+3 && n <= nmax; n++ {
			shards := 1
			if n >= 8 {
				shards = c10Pow(4, n-7)
			}
			for s := 0; s < shards; s++ {
				units = append(units, c10Unit{Kind: "small", Side: side, Action: action, L: L, M: M, N: n, Shard: s, Shards: shards})
			}
		}
	}
	for _, action := range []string{"Reject", "ProcessPartial"} {
		for L := 1; L <= lmaxFull; L++ {
			for M := 1; M <= L; M++ {
				add("req", action, L, M)
			}
			add("res", action, L, 0)
		}
		// beyond the fully enumerated limits: the in-memory limits next to the edges
		for _, L := range extraL {
			for _, M := range []int{1, L / 2, L - 1, L} {
				add("req", action, L, M)
			}
			add("res", action, L, 0)
		}
	}
	bl := 8
	if tier == fw.Thorough {
		bl = 11
	}
	for L := 1; L <= bl; L++ {
		units = append(units, c10Unit{Kind: "buffer", L: L})
	}
	per := 50
	for i := 0; i*per < large; i++ {
		units = append(units, c10Unit{Kind: "large", Count: per, Salt: uint64(i)})
	}
	// longest-processing-time-first distribution over nb batches
	sort.SliceStable(units, func(i, j int) bool { return units[i].cost() > units[j].cost() })
	loads := make([]int, nb)
	parts := make([][]c10Unit, nb)
	for _, u := range units {
		best := 0
		for b := 1; b < nb; b++ {
			if loads[b] < loads[best] {
				best = b
			}
		}
		loads[best] += u.cost()
		parts[best] = append(parts[best], u)
	}
	var bs []fw.Batch
	for i, p := range parts {
		raw, _ := json.Marshal(c10Params{Units: p})
		bs = append(bs, fw.Batch{Index: i, Flavour: "plain", Params: raw, GOMAXPROCS: 1, TimeoutS: 3600})
	}
	return bs
}

func c10Run(w *fw.W, b fw.Batch) {
	var p c10Params
	if err := json.Unmarshal(b.Params, &p); err != nil {
		return
	}
	r := newC10Runner(w)
	defer r.close()
	for _, u := range p.Units {
		switch u.Kind {
		case "small":
			r.runSmall(u)
			if len(r.wafs.m) > 64 {
				r.wafs.closeAll()
			}
		case "buffer":
			r.runBufferUnit(u)
		case "large":
			r.runLarge(u)
		}
	}
}

func c10Replay(w *fw.W, raw json.RawMessage) {
	var c c10Case
	if json.Unmarshal(raw, &c) != nil {
		return
	}
	r := newC10Runner(w)
	defer r.close()
	r.useTmp(r.disk)
	body := c.body()
	sizes := make([]int, len(c.Chunks))
	kinds := make([]byte, len(c.Chunks))
	tot := 0
	for i, ch := range c.Chunks {
		sizes[i] = ch.N
		kinds[i] = c10KWrite
		if ch.K != "" {
			kinds[i] = ch.K[0]
		}
		tot += ch.N
	}
	if tot > len(body) {
		return
	}
	for i := 0; i < 3; i++ {
		if c.Kind == "buffer" {
			r.runBuffer(c.Cfg.L, c.Cfg.M, c.BodyKind, c.BodySeed, body, sizes, c.ReadSizes)
		} else {
			r.runTx("replay", &c.Cfg, c.BodyKind, c.BodySeed, body, sizes, kinds)
		}
	}
}

func init() {
	fw.Register(&fw.Prop{
		ID: "C10", Level: "exploration",
		Rule: "small scope (exhaustive): every limit L (quick 1-6, thorough 1-7 plus L=8 with in-memory limit in {1,4,7,8}), every in-memory limit M in 1..L (request side), every body size n in 0..min(L+3, quick 8 / thorough 10), every composition of n into chunks, every assignment of {Write*Body, Read*BodyFrom(reader with Len - rotating over *bytes.Reader, *strings.Reader and the same two partly consumed by the caller beforehand, i.e. Len() < Size()), Read*BodyFrom(reader hiding Len)} to the chunks, both limit actions, request and response side; the observation mode (recording body processor / RAW / URLENCODED / RESPONSE_BODY) rotates over the cases. Direct BodyBuffer round trips (verifapi.NewBodyBuffer): every L, M<=L, n<=L+2 and composition, read back through interleaved independent readers, Reset, reuse. Large scope (sampled): limits 8 B - 1 MiB, random bytes (all 256 values), sizes and cuts placed at and next to M and L, eight entry-point kinds, limits set by directives, by coraza.WAFConfig, or by a larger directive lowered to L for the transaction with ctl:requestBodyLimit / ctl:responseBodyLimit (the three rotate in the small scope as well). A case is non-trivial when a spill file was created, the body was refused, or partial processing was triggered (bare buffer: spill or refused write); distinct by structural hash of (configuration, body, chunk sizes, entry points).",
		Assumptions: []string{
			"oracle = cumulative-size model: ProcessPartial or limit not reached -> stored bytes, processor input and body variable are exactly the first min(n, L) supplied bytes and the body phase runs once; Reject -> interruption (413 request / 500 response) at the first call whose cumulative size is >= L and at no other call, stored bytes are a prefix of the supplied bytes of length between the accepted bytes and L",
			"under Reject the driver stops writing at the first interruption (connector behaviour); the byte count returned by write calls is never judged; how much of the refusing call is stored (nothing for slices and sized readers, up to the limit for unsized readers) is not pinned and not judged beyond 'prefix, <= limit'",
			"INBOUND_DATA_ERROR / OUTBOUND_DATA_ERROR are judged as '1 iff the cumulative size reached the limit'",
			"the response body has no separate in-memory limit (waf.go buffers it in memory up to the limit), so spills are a request-side and bare-buffer observation",
			"BodyBuffer.WriteTo is not an observation point of the statement (the library never calls it); its result on a spilled buffer is counted, not judged",
			"the small-scope part is exhaustive within the stated bounds; the large-scope part is a seeded sample",
		},
		Required:   []string{"small_scope_executions", "large_scope_cases", "bodybuffer_roundtrips", "spills_observed", "rejects_observed", "partial_runs_observed", "bodybuffer_spills", "processor_inputs_checked", "body_variable_checked", "chunk_straddles_limit", "chunk_ends_at_limit", "chunk_straddles_memlimit", "mixed_entry_point_cases"},
		Exhaustive: true,
		Plan:       func(tier fw.Tier, seed int64) []fw.Batch { return c10Plan(tier) },
		Run:        c10Run,
		Replay:     c10Replay,
	})
}
