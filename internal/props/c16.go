package props

// C16 "Directive text means the same however it is written; nothing is silently altered".
//
// Oracle: round trip text <-> structure through verifapi.DumpRules (plus the public rule observer and
// behavioural probes). See c16_desc.go (descriptions, expected compiled form) and c16_render.go
// (equivalent renderings, file splitting, near misses).

import (
	"encoding/json"
	"fmt"
	"math/rand/v2"
	"strings"

	coraza "github.com/corazawaf/coraza/v3"
	"github.com/corazawaf/coraza/v3/experimental/verifapi"

	"verif/internal/fw"
	"verif/internal/sl"
)

// the configuration reader's line buffer used to be 64 KiB; a physical line at least this long is "long"
const c16LongLine = 65000

type c16Case struct {
	Kind   string     `json:"kind"` // roundtrip | rendering | behaviour | near-miss | invalid | long-line | trailing-continuation
	Desc   *c16Desc   `json:"desc,omitempty"`
	Style  *c16Style  `json:"style,omitempty"`
	Config *c16Config `json:"config,omitempty"` // the rendering as compiled (informational when Desc+Style are present)
	Text   string     `json:"text,omitempty"`
	Shape  string     `json:"shape,omitempty"`
	Expect []string   `json:"expect,omitempty"` // long-line: ids / markers that must be present
	Req    *sl.Req    `json:"req,omitempty"`
}

type c16Judge struct {
	w   *fw.W
	seq int
}

func (j *c16Judge) build(c *c16Config) (waf coraza.WAF, metas []c16Meta, err error, pi *fw.PanicInfo) {
	pi = fw.Guard(func() { waf, metas, err = c16Build(c, j.w.Scratch, &j.seq) })
	return
}

func c16Trunc(c *c16Config) *c16Config {
	// keep witnesses readable: very long texts are cut in the middle (Desc+Style regenerate them exactly)
	cut := func(s string) string {
		if len(s) > 6000 {
			return s[:3000] + fmt.Sprintf("…[%d bytes]…", len(s)-6000) + s[len(s)-3000:]
		}
		return s
	}
	o := &c16Config{Entry: c.Entry, Real: c.Real}
	for _, p := range c.Parts {
		o.Parts = append(o.Parts, cut(p))
	}
	if c.Files != nil {
		o.Files = map[string]string{}
		for n, f := range c.Files {
			o.Files[n] = cut(f)
		}
	}
	return o
}

func c16Small(d *c16Desc) bool {
	b, _ := json.Marshal(d)
	return len(b) < 200000
}

// judgeDesc: canonical rendering against the description, then every style against the canonical one.
// It returns the canonical dump string ("" when the canonical text did not compile).
func (j *c16Judge) judgeDesc(d *c16Desc, styles []c16Style) (ok bool) {
	w := j.w
	canonCfg := c16Render(d, c16Style{})
	canonLong := canonCfg.maxLine() >= c16LongLine
	mk := func(kind string, st *c16Style, cfg *c16Config) *c16Case {
		c := &c16Case{Kind: kind, Desc: d, Style: st, Config: c16Trunc(cfg)}
		return c
	}
	w.Trace(mk("roundtrip", nil, canonCfg))
	waf, metas, err, pi := j.build(canonCfg)
	w.Count("descriptions", 1)
	if pi != nil {
		w.Violation("panic-on-config:"+pi.Frame, "NewWAF", mk("roundtrip", nil, canonCfg), "an error or a WAF", pi, pi.Value)
		return false
	}
	if err != nil {
		if canonLong {
			w.Count("long_line_rejected", 1)
			w.Eval(1)
			return false
		}
		w.Count("descriptions_rejected", 1)
		w.Violation("roundtrip:valid-description-rejected", "NewWAF-error", mk("roundtrip", nil, canonCfg), "compiles", err.Error(), err.Error())
		return false
	}
	defer sl.CloseWAF(waf)
	rules := verifapi.DumpRules(waf)
	w.Eval(1)
	w.Count("descriptions_compiled", 1)
	if canonLong {
		w.Count("long_lines_compared", 1)
		w.Max("longest_line", int64(canonCfg.maxLine()))
	}
	good := true
	if diffs := c16CompareDesc(d, rules); len(diffs) > 0 {
		class := diffs[0].Class
		if canonLong && class == "roundtrip:rule-count" && len(rules) < len(d.compiled()) {
			class = "long-line-drops-directives"
		}
		if strings.HasPrefix(class, "roundtrip:target") && c16HasSlashKey(d) {
			class = "roundtrip:string-key-with-slash"
		}
		w.Violation(class, "dump-vs-description", mk("roundtrip", nil, canonCfg), "compiled form equal to the description", diffs, diffs[0].Detail)
		good = false
	}
	if md := c16MetaDiff(d, metas); md != "" && good {
		w.Violation("roundtrip:observer-metadata", "rule-observer", mk("roundtrip", nil, canonCfg), "metadata equal to the description", metas, md)
		good = false
	}
	canonDS := c16DumpString(rules)
	canonMeta := fmt.Sprintf("%q", metas)
	canonText := strings.Join(canonCfg.Parts, "\x00")
	differentText := false
	for i := range styles {
		st := styles[i]
		cfg := c16Render(d, st)
		long := cfg.maxLine() >= c16LongLine
		w.Trace(mk("rendering", &st, cfg))
		waf2, metas2, err2, pi2 := j.build(cfg)
		w.Count("renderings", 1)
		if st.Split != "" {
			w.Count("include_splits", 1)
			w.Cover("split_kinds", fmt.Sprintf("%s/%d", st.Split, len(cfg.Files)))
		}
		for _, f := range st.features() {
			w.Count("feature:"+f, 1)
		}
		if pi2 != nil {
			w.Violation("panic-on-config:"+pi2.Frame, "NewWAF", mk("rendering", &st, cfg), "an error or a WAF", pi2, pi2.Value)
			good = false
			continue
		}
		if err2 != nil {
			if long {
				w.Count("long_line_rejected", 1)
				w.Eval(1)
				continue
			}
			if strings.HasPrefix(err2.Error(), "harness:") {
				w.Count("harness_errors", 1)
				continue
			}
			w.Violation("rendering-diff:"+j.attribute(d, st, canonDS)+":rejected", "NewWAF-error", mk("rendering", &st, cfg), "compiles like the canonical rendering", err2.Error(), err2.Error())
			good = false
			continue
		}
		rules2 := verifapi.DumpRules(waf2)
		ds2 := c16DumpString(rules2)
		sl.CloseWAF(waf2)
		w.Eval(1)
		w.Count("renderings_compared", 1)
		if long {
			w.Count("long_lines_compared", 1)
			w.Max("longest_line", int64(cfg.maxLine()))
		}
		if ds2 != canonDS {
			class := "rendering-diff:" + j.attribute(d, st, canonDS)
			if (long || canonLong) && len(rules2) != len(rules) {
				class = "long-line-drops-directives"
			}
			w.Violation(class, "dump-vs-canonical-dump", mk("rendering", &st, cfg), "same compiled rules as the canonical rendering", fmt.Sprintf("%d rules (canonical %d)", len(rules2), len(rules)), c16FirstDiff(canonDS, ds2))
			good = false
			continue
		}
		if m2 := fmt.Sprintf("%q", metas2); m2 != canonMeta {
			w.Violation("rendering-diff:"+j.attribute(d, st, canonDS)+":observer-metadata", "rule-observer", mk("rendering", &st, cfg), canonMeta, m2, "rule observer saw different metadata")
			good = false
			continue
		}
		if strings.Join(cfg.Parts, "\x00") != canonText || len(cfg.Files) > 0 {
			differentText = true
		}
	}
	if good && differentText && c16Small(d) {
		w.Nontrivial(fw.Hash(d))
	} else if good && differentText {
		w.Nontrivial(fw.Hash(canonText))
	}
	return good
}

// attribute re-renders with each feature of a style alone and names the first that still differs.
func (j *c16Judge) attribute(d *c16Desc, st c16Style, canonDS string) string {
	fs := st.features()
	if len(fs) == 1 {
		return fs[0]
	}
	for _, f := range fs {
		cfg := c16Render(d, st.only(f))
		waf, _, err, pi := j.build(cfg)
		if pi != nil || err != nil {
			return f
		}
		ds := c16DumpString(verifapi.DumpRules(waf))
		sl.CloseWAF(waf)
		if ds != canonDS {
			return f
		}
	}
	return "mixed"
}

func c16HasSlashKey(d *c16Desc) bool {
	for _, it := range d.Items {
		for rule := it.Rule; rule != nil; rule = rule.Chain {
			for _, t := range rule.Targets {
				if t.Kind == 1 && !c16PathVars[t.Var] && strings.Contains(string(t.Key), "/") {
					return true
				}
			}
		}
	}
	return false
}

func c16MetaDiff(d *c16Desc, metas []c16Meta) string {
	items := d.compiled()
	if len(metas) != len(items) {
		return fmt.Sprintf("observer saw %d rules, description has %d", len(metas), len(items))
	}
	for i, it := range items {
		m := metas[i]
		if it.Marker != "" {
			if m.Mark != it.Marker {
				return fmt.Sprintf("item %d: marker %q observed as %q", i, it.Marker, m.Mark)
			}
			continue
		}
		var tags []string
		id := 0
		for _, a := range it.Rule.Actions {
			switch strings.ToLower(a.Name) {
			case "tag":
				tags = append(tags, string(a.Val))
			case "id":
				fmt.Sscan(string(a.Val), &id)
			}
		}
		if m.ID != id {
			return fmt.Sprintf("item %d: id %d observed as %d", i, id, m.ID)
		}
		if fmt.Sprintf("%q", tags) != fmt.Sprintf("%q", m.Tags) {
			return fmt.Sprintf("item %d (id %d): tags %q observed as %q", i, id, tags, m.Tags)
		}
	}
	return ""
}

// ---------------------------------------------------------------------------------------------
// Behavioural probes.

func c16ProbeRequest(rule *c16Rule, val string) *sl.Req {
	req := &sl.Req{Method: "GET", Path: "/p", Status: 200}
	hasAll := false
	for _, t := range rule.Targets {
		switch {
		case t.Var == "REQUEST_HEADERS":
			req.Headers = append(req.Headers, sl.KV{K: string(t.Key), V: val})
		case t.Kind == 1:
			req.Get = append(req.Get, sl.KV{K: string(t.Key), V: val})
		default:
			hasAll = true
		}
	}
	if hasAll || len(req.Get) == 0 {
		req.Get = append(req.Get, sl.KV{K: "pk", V: val})
	}
	return req
}

func (j *c16Judge) probe(rule *c16Rule, st c16Style) {
	w := j.w
	d := &c16Desc{Items: []c16Item{{Rule: rule}}}
	cfg := c16Render(d, st)
	waf, _, err, pi := j.build(cfg)
	if err != nil || pi != nil {
		return // reported by judgeDesc
	}
	defer sl.CloseWAF(waf)
	var id, phase, status int
	phase = 2
	var msg, logdata string
	deny := false
	setv := map[string][]string{}
	for _, a := range rule.Actions {
		v := string(a.Val)
		switch strings.ToLower(a.Name) {
		case "id":
			fmt.Sscan(v, &id)
		case "phase":
			switch v {
			case "request":
				phase = 2
			case "response":
				phase = 4
			case "logging":
				phase = 5
			default:
				fmt.Sscan(v, &phase)
			}
		case "msg":
			msg = v
		case "logdata":
			logdata = v
		case "deny":
			deny = true
		case "status":
			fmt.Sscan(v, &status)
		case "setvar":
			kv := v[strings.IndexByte(v, '.')+1:]
			k, val, _ := strings.Cut(kv, "=")
			setv[strings.ToLower(k)] = append(setv[strings.ToLower(k)], val)
		}
	}
	for _, sat := range []bool{true, false} {
		val := string(rule.Probe.Sat)
		if !sat {
			val = string(rule.Probe.Unsat)
		}
		req := c16ProbeRequest(rule, val)
		c := &c16Case{Kind: "behaviour", Desc: d, Style: &st, Config: c16Trunc(cfg), Req: req}
		w.Trace(c)
		got := sl.Exec(waf, req)
		w.Eval(1)
		if got.Panic != "" {
			w.Count("probe_panics", 1) // request-time panics are C07's subject
			continue
		}
		want := sat != rule.OpNeg
		var fired *sl.Fired
		for i := range got.Fired {
			if got.Fired[i].ID == id {
				fired = &got.Fired[i]
			}
		}
		switch {
		case want && fired == nil:
			w.Violation("behaviour:not-fired", "probe-request", c, "rule fires", got, fmt.Sprintf("rule %d did not fire on a request built to satisfy its description (value %q)", id, val))
			continue
		case !want && fired != nil:
			w.Violation("behaviour:fired-on-negation", "probe-request", c, "rule does not fire", got, fmt.Sprintf("rule %d fired on the negation request (value %q)", id, val))
			continue
		}
		if !want {
			w.Count("probes_not_fired", 1)
			continue
		}
		w.Count("probes_fired", 1)
		if msg != "" && !strings.Contains(msg, "%{") && fired.Msg != msg {
			w.Violation(c16ValueClass("behaviour:msg", fired.Msg, msg), "probe-request", c, msg, fired.Msg, "message of the fired rule differs from the described msg")
		}
		// the data of a matched rule is only reported together with a message
		if logdata != "" && msg != "" && !strings.Contains(msg+logdata, "%{") && fired.Data != logdata {
			w.Violation(c16ValueClass("behaviour:logdata", fired.Data, logdata), "probe-request", c, logdata, fired.Data, "data of the fired rule differs from the described logdata")
		}
		for k, vs := range setv {
			if len(vs) != 1 || strings.Contains(k, "%{") || strings.Contains(vs[0], "%{") || vs[0] == "" || vs[0][0] == '+' || vs[0][0] == '-' {
				continue
			}
			if gotv, ok := got.TX[k]; !ok || gotv != vs[0] {
				w.Violation(c16ValueClass("behaviour:setvar", gotv, vs[0]), "probe-request", c, vs[0], gotv, fmt.Sprintf("TX.%s after the rule fired", k))
			} else {
				w.Count("probe_setvars_checked", 1)
			}
		}
		if deny && phase <= 4 {
			ws := status
			if ws == 0 {
				ws = 403
			}
			if got.Intr == nil || got.Intr.Status != ws || got.Intr.RuleID != id {
				w.Violation("behaviour:interruption", "probe-request", c, fmt.Sprintf("deny with status %d by rule %d", ws, id), got.Intr, "described deny/status not enforced")
			}
		}
	}
}

// ---------------------------------------------------------------------------------------------
// Near misses, certainly-invalid shapes, long lines.

func (j *c16Judge) compileText(text string) (rules []*verifapi.Rule, err error, pi *fw.PanicInfo) {
	waf, _, err, pi := j.build(&c16Config{Parts: []string{text}})
	if err != nil || pi != nil {
		return nil, err, pi
	}
	rules = verifapi.DumpRules(waf)
	sl.CloseWAF(waf)
	return rules, nil, nil
}

func (j *c16Judge) nearMiss(rule *c16Rule, nm c16NearMiss) {
	w := j.w
	c := &c16Case{Kind: "near-miss", Desc: &c16Desc{Items: []c16Item{{Rule: rule}}}, Text: nm.Text, Shape: nm.Kind + ":" + nm.Edit}
	w.Trace(c)
	rules, err, pi := j.compileText(nm.Text)
	w.Count("near_misses", 1)
	switch {
	case pi != nil:
		w.Violation("panic-on-config:"+pi.Frame, "NewWAF", c, "an error or a WAF", pi, pi.Value)
	case err != nil:
		w.Count("near_miss_error", 1)
		w.Eval(1)
	default:
		if len(c16CompareDesc(c.Desc, rules)) == 0 {
			w.Count("near_miss_equal", 1)
			w.Eval(1)
		} else {
			// accepted and compiled into something else: counted, not judged (DESIGN.md §5 C16)
			w.Count("near_miss_accepted_different", 1)
			w.Cover("near_miss_accepted_different_kinds", c.Shape)
		}
	}
}

func (j *c16Judge) invalid(rule *c16Rule, ic c16InvalidCase) {
	w := j.w
	c := &c16Case{Kind: "invalid", Text: ic.Text, Shape: ic.Shape}
	w.Trace(c)
	rules, err, pi := j.compileText(ic.Text)
	w.Eval(1)
	switch {
	case pi != nil:
		w.Violation("panic-on-config:"+pi.Frame, "NewWAF", c, "an error", pi, pi.Value)
	case err != nil:
		w.Count("invalid_rejected", 1)
		w.Cover("invalid_shapes", ic.Shape)
	default:
		w.Violation("invalid-accepted:"+ic.Shape, "NewWAF-error", c, "an error", c16DumpString(rules), "a text that cannot represent any rule was compiled")
	}
}

// longLine: a directive that follows a very long physical line must be loaded, or loading must fail.
func (j *c16Judge) longLine(c *c16Case) {
	w := j.w
	w.Trace(&c16Case{Kind: c.Kind, Shape: c.Shape, Expect: c.Expect})
	rules, err, pi := j.compileText(c.Text)
	w.Eval(1)
	w.Count("long_line_probes", 1)
	small := &c16Case{Kind: c.Kind, Shape: c.Shape, Expect: c.Expect, Text: c.Text}
	switch {
	case pi != nil:
		small.Text = ""
		w.Violation("panic-on-config:"+pi.Frame, "NewWAF", small, "an error or a WAF", pi, pi.Value)
	case err != nil:
		w.Count("long_line_rejected", 1)
	default:
		have := map[string]bool{}
		for _, r := range rules {
			have[fmt.Sprintf("id:%d", r.ID)] = true
			have["marker:"+r.SecMark] = true
		}
		var missing []string
		for _, e := range c.Expect {
			if !have[e] {
				missing = append(missing, e)
			}
		}
		if len(missing) > 0 {
			w.Violation("long-line-drops-directives", "dump-after-long-line", small, c.Expect, fmt.Sprintf("%d rules loaded, missing %v", len(rules), missing),
				fmt.Sprintf("NewWAF returned no error, but the directives after a %s line of %d bytes are absent", c.Shape, (&c16Config{Parts: []string{c.Text}}).maxLine()))
		} else {
			w.Count("long_lines_compared", 1)
			w.Max("longest_line", int64((&c16Config{Parts: []string{c.Text}}).maxLine()))
		}
	}
}

// trailingContinuation: a directive whose last physical line ends in a continuation backslash when
// the text ends must be loaded, or loading must fail; it must not vanish.
func (j *c16Judge) trailingContinuation(c *c16Case) {
	w := j.w
	w.Trace(c)
	rules, err, pi := j.compileText(c.Text)
	w.Eval(1)
	w.Count("trailing_continuation_probes", 1)
	switch {
	case pi != nil:
		w.Violation("panic-on-config:"+pi.Frame, "NewWAF", c, "an error or a WAF", pi, pi.Value)
	case err != nil:
		w.Count("trailing_continuation_rejected", 1)
	default:
		have := map[string]bool{}
		for _, r := range rules {
			have[fmt.Sprintf("id:%d", r.ID)] = true
			have["marker:"+r.SecMark] = true
		}
		for _, e := range c.Expect {
			if !have[e] {
				w.Violation("trailing-continuation-drops-directive", "dump-after-continuation", c, c.Expect, c16DumpString(rules),
					"NewWAF returned no error, but the directive whose last line ends in a backslash at the end of the text is absent: "+e)
				return
			}
		}
		w.Count("trailing_continuation_loaded", 1)
	}
}

func c16TrailingCases(r *rand.Rand) []*c16Case {
	var out []*c16Case
	for _, last := range []string{"SecAction \"id:2,phase:1\"", "SecMarker END_X", "SecRule ARGS \"@rx x\" \"id:2,phase:2\""} {
		for _, tail := range []string{" \\", " \\\n", " \\\n\n", " \\\n# comment\n", " \\\r\n"} {
			exp := []string{"id:1", "id:2"}
			if strings.HasPrefix(last, "SecMarker") {
				exp = []string{"id:1", "marker:END_X"}
			}
			out = append(out, &c16Case{Kind: "trailing-continuation", Shape: fmt.Sprintf("%q", tail), Text: "SecAction \"id:1,phase:1\"\n" + last + tail, Expect: exp})
		}
	}
	return out
}

func c16LongLineCase(r *rand.Rand, shape string, n int) *c16Case {
	var long string
	exp := []string{"id:1", "id:3", "marker:AFTER_LONG"}
	switch shape {
	case "comment":
		long = "# " + c16Filler(r, n)
	case "secaction-msg":
		long = "SecAction \"id:2,phase:1,nolog,msg:'" + c16Filler(r, n) + "'\""
		exp = append(exp, "id:2")
	case "secrule-argument":
		long = "SecRule ARGS \"@contains " + strings.ReplaceAll(c16Filler(r, n), `\'`, "'") + "\" \"id:2,phase:1\""
		exp = append(exp, "id:2")
	case "secrule-targets":
		var ts []string
		for sz := 0; sz < n; sz += 12 {
			ts = append(ts, fmt.Sprintf("ARGS:key%05d", len(ts)))
		}
		long = "SecRule " + strings.Join(ts, "|") + " \"@rx x\" \"id:2,phase:1\""
		exp = append(exp, "id:2")
	}
	text := "SecAction \"id:1,phase:1\"\n" + long + "\nSecMarker AFTER_LONG\nSecAction \"id:3,phase:2\"\n"
	return &c16Case{Kind: "long-line", Shape: shape, Text: text, Expect: exp}
}

// ---------------------------------------------------------------------------------------------

type c16Params struct {
	Mode string `json:"mode"` // normal | long
}

func c16Cover(w *fw.W, d *c16Desc) {
	inherit := map[int]bool{}
	for _, it := range d.Items {
		if it.Default != nil {
			w.Count("default_action_items", 1)
			inherit[c16PhaseOf(it.Default)] = true
			continue
		}
		if it.Marker != "" {
			w.Count("markers", 1)
			continue
		}
		if inherit[c16PhaseOf(it.Rule.Actions)] {
			w.Count("rules_with_inherited_defaults", 1)
			own := false
			for _, a := range it.Rule.Actions {
				if c16IsDisruptive(a.Name) {
					own = true
					if strings.EqualFold(a.Name, "block") {
						w.Count("rules_block_resolved_by_default", 1)
					}
				}
			}
			if !own {
				w.Count("rules_disruptive_action_inherited", 1)
			}
		}
		depth := 0
		for rule := it.Rule; rule != nil; rule = rule.Chain {
			depth++
			if rule.NoOp {
				w.Count("secactions", 1)
			} else {
				w.Cover("operators", rule.OpName)
				if rule.OpNeg {
					w.Count("negated_operators", 1)
				}
			}
			for _, t := range rule.Targets {
				w.Cover("variables", t.Var)
				switch {
				case t.Excl && t.Kind == 2:
					w.Count("sel:exclusion-regex", 1)
				case t.Excl:
					w.Count("sel:exclusion-string", 1)
				case t.Count:
					w.Count("sel:count", 1)
				case t.Kind == 2:
					w.Count("sel:regex", 1)
				case t.Kind == 1:
					w.Count("sel:string", 1)
				default:
					w.Count("sel:all", 1)
				}
			}
			for _, a := range rule.Actions {
				w.Cover("actions", strings.ToLower(a.Name))
				if strings.EqualFold(a.Name, "t") {
					w.Cover("transformations", string(a.Val))
				}
				if strings.ContainsAny(string(a.Val), ",:'") {
					w.Count("action_values_with_delimiters", 1)
				}
				if v := string(a.Val); v != strings.TrimSpace(v) {
					w.Count("action_values_with_outer_blanks", 1)
				}
			}
		}
		if depth > 1 {
			w.Count("chains", 1)
		}
	}
}

func c16Run(w *fw.W, b fw.Batch) {
	var p c16Params
	json.Unmarshal(b.Params, &p)
	v := c16Vocabulary()
	for _, n := range v.opsSkipped {
		w.Cover("operators_not_generated", n)
	}
	for _, n := range v.actsSkipped {
		w.Cover("actions_not_generated", n)
	}
	w.Max("variables_usable", int64(len(v.vars)))
	w.Max("variables_selectable", int64(len(v.selectable)))
	j := &c16Judge{w: w}
	r := w.Rng
	thorough := w.Tier == fw.Thorough
	if p.Mode == "long" {
		sizes := []int{1 << 10, 4 << 10, 16 << 10, 60 << 10, 65400, 65536, 66000, 70 << 10, 128 << 10, 256 << 10}
		nd := 10
		if thorough {
			nd = 40
		}
		for i := 0; i < nd; i++ {
			size := sizes[(i+b.Index)%len(sizes)]
			kind := []string{"msg", "arg", "targets"}[r.IntN(3)]
			d := c16GenDesc(r, v, 2+r.IntN(3), c16GenOpt{long: size, longKind: kind})
			c16Cover(w, d)
			w.Cover("long_line_kinds", fmt.Sprintf("%s/%dKiB", kind, size>>10))
			// the same long rule written on one physical line, on continued lines, and split over files
			styles := []c16Style{{Cont: 1, Seed: r.Uint64()}, {Cont: 2, Seed: r.Uint64()}, {Split: c16Pick(r, c16Splits), Files: 2 + r.IntN(3), Seed: r.Uint64()},
				{Indent: true, Comments: true, Seed: r.Uint64()}, c16RandomStyle(r), c16RandomStyle(r)}
			j.judgeDesc(d, styles)
			if w.WantSample() && i == 0 {
				w.Sample(map[string]any{"kind": "long-line description", "long_kind": kind, "bytes": size, "rendering": c16Trunc(c16Render(d, styles[0]))})
			}
		}
		for _, c := range c16TrailingCases(r) {
			j.trailingContinuation(c)
		}
		for _, shape := range []string{"comment", "secaction-msg", "secrule-argument", "secrule-targets"} {
			for _, n := range []int{60000, 65535, 65536, 65537, 70000, 200000} {
				j.longLine(c16LongLineCase(r, shape, n+r.IntN(3)))
			}
		}
		return
	}
	nd, nsingle, nmixed := 160, 4, 4
	if thorough {
		nd, nsingle, nmixed = 500, 8, 8
	}
	for i := 0; i < nd; i++ {
		d := c16GenDesc(r, v, 1+r.IntN(4), c16GenOpt{})
		c16Cover(w, d)
		singles := c16SingleStyles(r)
		r.Shuffle(len(singles), func(a, b int) { singles[a], singles[b] = singles[b], singles[a] })
		styles := append([]c16Style{}, singles[:nsingle]...)
		for k := 0; k < nmixed; k++ {
			styles = append(styles, c16RandomStyle(r))
		}
		ok := j.judgeDesc(d, styles)
		if w.WantSample() && ok && i%40 == 7 {
			w.Sample(map[string]any{"description": d, "style": styles[len(styles)-1], "rendering": c16Trunc(c16Render(d, styles[len(styles)-1]))})
		}
		for _, it := range d.Items {
			if it.Rule == nil {
				continue
			}
			if it.Rule.Probe != nil {
				j.probe(it.Rule, c16Style{})
				j.probe(it.Rule, c16RandomStyle(r))
			}
			if it.Rule.Chain == nil && !it.Rule.NoOp && c16Chance(r, 0.5) && !c16HasSlashKey(&c16Desc{Items: []c16Item{it}}) {
				for _, nm := range c16NearMisses(it.Rule, r, 10) {
					j.nearMiss(it.Rule, nm)
				}
				for _, ic := range c16InvalidShapes(it.Rule, r) {
					j.invalid(it.Rule, ic)
				}
			}
		}
	}
}

func c16Replay(w *fw.W, raw json.RawMessage) {
	var c c16Case
	if json.Unmarshal(raw, &c) != nil {
		return
	}
	c16Vocabulary()
	j := &c16Judge{w: w}
	switch c.Kind {
	case "roundtrip":
		j.judgeDesc(c.Desc, nil)
	case "rendering":
		if c.Style != nil {
			j.judgeDesc(c.Desc, []c16Style{*c.Style})
		}
	case "behaviour":
		if c.Desc != nil && len(c.Desc.Items) == 1 && c.Style != nil {
			j.probe(c.Desc.Items[0].Rule, *c.Style)
		}
	case "near-miss":
		parts := strings.SplitN(c.Shape, ":", 2)
		if c.Desc != nil && len(c.Desc.Items) == 1 && len(parts) == 2 {
			j.nearMiss(c.Desc.Items[0].Rule, c16NearMiss{Kind: parts[0], Edit: parts[1], Text: c.Text})
		}
	case "invalid":
		j.invalid(nil, c16InvalidCase{Shape: c.Shape, Text: c.Text})
	case "long-line":
		j.longLine(&c)
	case "trailing-continuation":
		j.trailingContinuation(&c)
	}
}

func init() {
	fw.Register(&fw.Prop{
		ID: "C16", Level: "exploration",
		Rule: "structured rule descriptions (targets with string keys, regex keys, exclusions and counts over every usable variable name; every operator with a generated argument its constructor accepts; action lists over the registered action names with quoted values containing commas, colons and escaped quotes; quoted values with blanks at either end inside the quotes; chains, markers, SecAction; SecDefaultAction items followed by rules of that phase that inherit its disruptive action, status and log flags) are rendered canonically and under 8 (quick) / 16 (thorough) equivalent styles (directive/action name case, optional quoting, continuations at token boundaries, indentation, comments, CRLF, spacing (between arguments, after commas, around action values), 1-4 files via Include over fs.FS / real files / several strings, settings directives moved into included files) and compiled; verifapi.DumpRules of every rendering must equal the canonical one, and the canonical one must equal the description field by field; rule-observer metadata likewise. Long batches put 1 KiB - 256 KiB on one physical line. Single rules are probed with a request built to satisfy the description and its negation; near-miss texts (one delimiter deleted or duplicated) must error or compile to the description only for a fixed list of certainly-invalid shapes, everything else is counted. A description is non-trivial when the canonical text compiled, equalled the description, and at least one rendering with different text compiled to the same dump; distinct by hash of the description.",
		Assumptions: []string{
			"not generated (no agreed rendering, DESIGN.md §5 C16 Care): values ending in a backslash, operator arguments containing backslash-quote, unbalanced single quotes, double quotes inside action values, leading/trailing blanks in values, line breaks inside values, blanks inside target keys, exclusions placed before their target, tabs between directive arguments",
			"an action value is the text between the quotes with its \\' sequences kept; string and regex keys are compared modulo ASCII/Unicode lower-casing (case folding of keys is C01's subject)",
			"operators that name files or data sets (pmFromFile, ipMatchFromFile, validateSchema, inspectFile, *FromDataset) are not generated; they are listed under operators_not_generated",
			"near misses outside the fixed certainly-invalid list that compile to something else are counted (near_miss_accepted_different), not judged",
			"a physical line of 64 KiB or more may be rejected with an error; it must not be accepted with later directives missing; likewise a directive whose last line ends in a backslash at the end of the text is loaded or refused, never dropped",
		},
		Required: []string{"descriptions_compiled", "renderings_compared", "include_splits", "long_lines_compared", "near_miss_error", "invalid_rejected", "probes_fired", "probes_not_fired", "chains",
			"default_action_items", "rules_with_inherited_defaults", "rules_block_resolved_by_default", "rules_disruptive_action_inherited", "action_values_with_outer_blanks", "feature:value-spacing", "feature:include-settings"},
		Plan: func(tier fw.Tier, seed int64) []fw.Batch {
			normal, long := 12, 4
			if tier == fw.Thorough {
				normal, long = 48, 8
			}
			var bs []fw.Batch
			for i := 0; i < normal+long; i++ {
				mode := "normal"
				if i >= normal {
					mode = "long"
				}
				pj, _ := json.Marshal(c16Params{Mode: mode})
				bs = append(bs, fw.Batch{Index: i, Flavour: "plain", Params: pj, TimeoutS: 3600})
			}
			return bs
		},
		Run:    c16Run,
		Replay: c16Replay,
	})
}
