package props

import (
	"context"
	"encoding/json"
	"fmt"
	"os"
	"os/exec"
	"path/filepath"
	"runtime"
	"strconv"
	"strings"
	"sync"
	"syscall"
	"time"

	coraza "github.com/corazawaf/coraza/v3"

	"verif/internal/fw"
)

// Known findings of C07 (known_findings.json, status "known"). Both are CPU amplifications whose
// repair is a maintainer decision (notes/findings/C07.md #7, #8); their input regions are kept out
// of the generated population. One dedicated batch per run replays the two minimised witnesses so
// that the run says whether each defect is still there:
//
//   - each witness runs in a child process of the worker (the same binary, batch kind "witness");
//   - the child measures the CPU time its executing thread spends inside the one monitored call and
//     stops observing the moment it exceeds the 20 s bound: it writes a marker and exits, so that no
//     process stays stuck in the call and memory stops growing there;
//   - the parent reports a marker as a violation of a class that only this witness can produce.
//     Any other input that exceeds the bound keeps the population classes cpu:<call> or
//     cpu:<call>:still-running and is therefore never hidden behind a known finding;
//   - a witness that returns within the bound (somebody repaired the defect) reports nothing.
type c07Witness struct {
	ID     string
	Class  string
	Call   string
	Config string
	N      int    // size parameter (values in the JSON array / nesting depth)
	Shape  string // how the body is built from N
}

var c07Witnesses = []c07Witness{
	{
		ID: "auditlog-hk-amplification", Class: "cpu:ProcessLogging:auditlog-hk-witness", Call: "ProcessLogging",
		// 2000 values from a 4 KiB body. Thread CPU of ProcessLogging measured on main f575f3e (machine
		// under load): N=500 2.6 s, 800 6.0 s, 1600 23 s (0.9 GB peak), 2000 48 s (1.1 GB peak if left to
		// finish). 2000 leaves a factor > 2 over the bound; stopped at 20 s the child has used < 1 GB.
		N: 2000, Shape: "request body '[' + '1,' x (N-1) + '1]' (application/json)",
		Config: "SecRuleEngine On\nSecRequestBodyAccess On\nSecAuditEngine On\nSecAuditLogParts ABCFHKZ\nSecAuditLogFormat JSON\nSecAuditLogType Serial\nSecAuditLog /dev/null\n" +
			"SecRule REQUEST_HEADERS:Content-Type \"^application/json\" \"id:2,phase:1,pass,nolog,ctl:requestBodyProcessor=JSON\"\n" +
			"SecRule ARGS \"@rx .\" \"id:1,phase:2,pass,log,msg:'hello'\"\n",
	},
	{
		ID: "json-depth-quadratic", Class: "cpu:ProcessResponseBody:json-depth-witness", Call: "ProcessResponseBody",
		// 48 KiB of '['. Thread CPU of ProcessResponseBody measured on main f575f3e (machine under load):
		// depth 16384 7.1 s (0.3 GB), 32768 25 s (1.2 GB); quadratic, so 49152 is ~57 s if left to finish.
		// CPU and memory grow together here (one copied key per level): whatever the size, about 1 GB
		// (1-2 GB on a faster core) has been allocated when 20 CPU-s have been spent and the child stops.
		N: 49152, Shape: "response body '[' x N (application/json), one WriteResponseBody",
		Config: "SecRuleEngine On\nSecResponseBodyAccess On\nSecResponseBodyMimeType application/json\nSecResponseBodyLimit 1048576\n" +
			"SecRule RESPONSE_HEADERS:Content-Type \"^application/json\" \"id:1,phase:3,pass,nolog,ctl:responseBodyProcessor=JSON\"\n",
	},
}

func c07WitnessByID(id string) *c07Witness {
	for i := range c07Witnesses {
		if c07Witnesses[i].ID == id {
			return &c07Witnesses[i]
		}
	}
	return nil
}

type c07WitnessCase struct {
	Witness string `json:"witness"`
	Config  string `json:"config"`
	N       int    `json:"n"`
	Shape   string `json:"shape"`
	Call    string `json:"call"`
}

type c07WitnessResult struct {
	Exceeded  bool    `json:"exceeded"`
	Returned  bool    `json:"returned"`
	CPUs      float64 `json:"cpu_s"`
	PeakRSSMB int64   `json:"peak_rss_mb"` // VmHWM of the child when it stopped (evidence only)
}

func c07PeakRSSMB() int64 {
	data, err := os.ReadFile("/proc/self/status")
	if err != nil {
		return 0
	}
	for _, l := range strings.Split(string(data), "\n") {
		if strings.HasPrefix(l, "VmHWM:") {
			f := strings.Fields(l)
			if len(f) >= 2 {
				kb, _ := strconv.ParseInt(f[1], 10, 64)
				return kb / 1024
			}
		}
	}
	return 0
}

// c07RunWitnessChild executes one witness (child side). The monitored call is the only thing the
// locked thread does between the two CPU readings.
func c07RunWitnessChild(w *fw.W, id string) {
	wt := c07WitnessByID(id)
	if wt == nil {
		return
	}
	runtime.LockOSThread()
	tid := syscall.Gettid()
	resPath := filepath.Join(w.Scratch, "witness-result.json")
	write := func(r c07WitnessResult) {
		r.PeakRSSMB = c07PeakRSSMB()
		b, _ := json.Marshal(r)
		os.WriteFile(resPath, b, 0o644)
	}
	waf, err := coraza.NewWAF(coraza.NewWAFConfig().WithDebugLogger(c07Logger(3)).WithDirectives(wt.Config))
	if err != nil {
		return
	}
	tx := waf.NewTransaction()
	defer tx.Close()
	var call func()
	switch wt.ID {
	case "auditlog-hk-amplification":
		tx.ProcessConnection("10.0.0.1", 1234, "10.0.0.2", 80)
		tx.ProcessURI("/", "POST", "HTTP/1.1")
		tx.AddRequestHeader("Content-Type", "application/json")
		tx.ProcessRequestHeaders()
		tx.WriteRequestBody([]byte("[" + strings.Repeat("1,", wt.N-1) + "1]"))
		tx.ProcessRequestBody()
		call = func() { tx.ProcessLogging() }
	case "json-depth-quadratic":
		tx.ProcessConnection("10.0.0.1", 1234, "10.0.0.2", 80)
		tx.ProcessURI("/", "GET", "HTTP/1.1")
		tx.ProcessRequestHeaders()
		tx.ProcessRequestBody()
		tx.AddResponseHeader("Content-Type", "application/json")
		tx.ProcessResponseHeaders(200, "HTTP/1.1")
		tx.WriteResponseBody([]byte(strings.Repeat("[", wt.N)))
		call = func() { tx.ProcessResponseBody() }
	default:
		return
	}
	base := c07TaskCPU(tid)
	done := make(chan struct{})
	go func() {
		// Stop observing as soon as the bound is exceeded (decision on thread CPU time; the sleep is the
		// polling cadence only).
		for {
			select {
			case <-done:
				return
			case <-time.After(200 * time.Millisecond):
			}
			if used := c07TaskCPU(tid) - base; used > c07CPUBound {
				write(c07WitnessResult{Exceeded: true, CPUs: used.Seconds()})
				os.Exit(0)
			}
		}
	}()
	t0 := c07ThreadCPU()
	pi := fw.Guard(call)
	dt := c07ThreadCPU() - t0
	close(done)
	_ = pi
	write(c07WitnessResult{Exceeded: dt > c07CPUBound, Returned: true, CPUs: dt.Seconds()})
}

// c07RunKnown replays the listed witnesses (parent side), in parallel, each in its own child process.
func c07RunKnown(w *fw.W, only string) {
	exe, err := os.Executable()
	if err != nil {
		w.Count("known_witness_not_run", len(c07Witnesses))
		return
	}
	var wg sync.WaitGroup
	for i := range c07Witnesses {
		wt := &c07Witnesses[i]
		if only != "" && wt.ID != only {
			continue
		}
		wg.Add(1)
		go func(i int, wt *c07Witness) {
			defer wg.Done()
			dir := filepath.Join(w.Scratch, "witness-"+wt.ID)
			os.MkdirAll(dir, 0o755)
			params, _ := json.Marshal(c07Params{Kind: "witness", Witness: wt.ID})
			bj, _ := json.Marshal(fw.Batch{Index: 9000 + i, Flavour: w.Flavour, Params: params})
			// generous wall-clock safety net only; the child bounds itself on CPU time
			ctx, cancel := context.WithTimeout(context.Background(), 30*time.Minute)
			defer cancel()
			cmd := exec.CommandContext(ctx, exe, "work", "--id", "C07", "--tier", string(w.Tier), "--seed", strconv.FormatInt(w.Seed, 10),
				"--flavour", w.Flavour, "--out", filepath.Join(dir, "out.jsonl"), "--scratch", dir, "--batch", string(bj))
			cmd.Dir = dir
			cmd.Env = append(os.Environ(), "TMPDIR="+dir)
			out, _ := cmd.CombinedOutput()
			w.Eval(1)
			w.Count("known_witnesses_run", 1)
			cs := c07WitnessCase{Witness: wt.ID, Config: wt.Config, N: wt.N, Shape: wt.Shape, Call: wt.Call}
			var res c07WitnessResult
			data, err := os.ReadFile(filepath.Join(dir, "witness-result.json"))
			if err != nil || json.Unmarshal(data, &res) != nil {
				// neither verdict: not a violation, not "repaired" either
				w.Count("known_witness_no_result/"+wt.ID, 1)
				w.Cover("known_witness_no_result_output", wt.ID+": "+c07Tail(string(out), 300))
				return
			}
			w.Max("known_witness_cpu_ms/"+wt.ID, int64(res.CPUs*1000))
			w.Max("known_witness_peak_rss_mb/"+wt.ID, res.PeakRSSMB)
			if !res.Exceeded {
				w.Count("known_witness_within_bound/"+wt.ID, 1)
				return
			}
			w.Count("known_witness_exceeded/"+wt.ID, 1)
			detail := "known-finding witness: the call had consumed more than the CPU bound on its thread and observation was stopped there (child process ended)"
			if res.Returned {
				detail = "known-finding witness: the call returned after consuming more than the CPU bound"
			}
			w.Violation(wt.Class, "cpu-time:known-witness", cs, map[string]any{"cpu_bound_s": c07CPUBound.Seconds()},
				map[string]any{"call": wt.Call, "cpu_s_when_stopped": res.CPUs, "returned": res.Returned, "peak_rss_mb": res.PeakRSSMB}, detail)
		}(i, wt)
	}
	wg.Wait()
}

func c07Tail(s string, n int) string {
	if len(s) > n {
		return s[len(s)-n:]
	}
	return s
}

var _ = fmt.Sprint
