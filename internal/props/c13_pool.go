package props

import (
	"encoding/hex"
	"fmt"
	"sort"
	"strings"
	"unicode/utf8"

	"verif/internal/sl"
)

// The C13 pool: small configurations that present the SAME text in DIFFERENT roles, so that a
// process-wide cache keyed by that text alone would hand one configuration the object compiled
// for another one.

// c13Cfg is one configuration of the pool.
type c13Cfg struct {
	Idx    int    `json:"idx"`
	Name   string `json:"name"` // family/role
	Family string `json:"family"`
	Role   string `json:"role"`
	Text   string `json:"text"`
	// TextHex is set (and Text is then only a readable rendering) when the directives contain bytes
	// that are not valid UTF-8, so that a recorded case stays byte-exact.
	TextHex string            `json:"text_hex,omitempty"`
	Files   map[string]string `json:"files,omitempty"` // content of the fs.FS root handed to WithRootFS
	// Kin marks the configurations of the second-round families: their systematic pair histories are
	// enumerated inside their own family only (the texts of different families never look alike).
	Kin bool `json:"kin,omitempty"`
}

// directives returns the byte-exact configuration text.
func (c *c13Cfg) directives() string {
	if c.TextHex != "" {
		if b, err := hex.DecodeString(c.TextHex); err == nil {
			return string(b)
		}
	}
	return c.Text
}

// c13Probe is one probe request.
type c13Probe struct {
	Path    string  `json:"path"`
	Headers []sl.KV `json:"headers,omitempty"`
	Args    []sl.KV `json:"args,omitempty"`
	Status  int     `json:"status"`
}

type c13Family struct {
	Name string
	// T is the shared text. M is a value the text matches when read as a regular expression,
	// MKey an argument NAME it matches (lower case), RxPat the @rx pattern of the rx-on/rx-off roles.
	T, M, MKey, RxPat string
	// T2 is a text that a careless key normalisation would identify with T (other letter case, Unicode
	// case folding, different invalid bytes) although the compiled objects behave differently: roles with
	// the suffix "-alt" use T2 where the plain role uses T.
	T2    string
	Roles []string
	// Kin families (second round) are paired systematically inside the family only.
	Kin bool
}

const (
	c13WordsA = "wone\nwtwo\n"
	c13WordsB = "wthree\nwfour\n"
	c13NetA   = "10.1.0.0/16\n"
	c13NetB   = "10.2.0.0/16\n"
)

var c13Families = []c13Family{
	{Name: "word", T: "alpha", M: "xalphax", MKey: "alpha1", RxPat: "alpha",
		Roles: []string{"pm", "regexkey", "regexexcl", "ctl", "restpath", "validatenid", "relstatus", "dataset-a", "dataset-b", "dataset-redef",
			"file-a", "file-b", "ipfile-a", "ipfile-b", "rx-on", "rx-off"}},
	{Name: "words", T: "alpha beta", M: "alpha beta", MKey: "alpha",
		Roles: []string{"pm", "restpath", "validatenid", "relstatus", "file-a", "file-b"}},
	{Name: "anchored", T: `^alpha$`, M: "alpha", MKey: "alpha", RxPat: `^alpha$`,
		Roles: []string{"pm", "regexkey", "regexexcl", "restpath", "validatenid", "relstatus", "dataset-a", "dataset-b", "file-a", "file-b", "rx-on", "rx-off"}},
	// the text IS the key the @rx operator derives for its own pattern (prefilter on / off)
	{Name: "rxkey-on", T: `rx:true:(?sm)(?i)select[a-c]\z`, M: "sELECTb", MKey: "rx:true:selectb", RxPat: `(?i)select[a-c]\z`,
		Roles: []string{"pm", "regexkey", "restpath", "validatenid", "relstatus", "dataset-a", "dataset-b", "rx-on", "rx-off"}},
	{Name: "rxkey-off", T: `rx:false:(?sm)(?i)select[a-c]\z`, M: "sELECTb", MKey: "rx:false:selectb", RxPat: `(?i)select[a-c]\z`,
		Roles: []string{"pm", "regexkey", "validatenid", "dataset-a"}},
	// a pattern with a byte escape is compiled by the binary regex engine under @rx
	{Name: "binary", T: `al\xffha`, M: "al\xffha", MKey: "al\xffha", RxPat: `al\xffha`,
		Roles: []string{"binrx", "pm", "regexkey", "restpath", "validatenid", "relstatus", "dataset-a", "dataset-b"}},
	// the same with the default mode flags @rx prepends before it compiles (and caches) the pattern
	{Name: "binary-flags", T: `(?sm)al\xffha`, M: "al\xffha", MKey: "al\xffha", RxPat: `al\xffha`,
		Roles: []string{"binrx", "pm", "regexkey", "restpath", "validatenid", "relstatus", "dataset-a", "dataset-b"}},
	{Name: "status", T: `40[34]`, M: "403", MKey: "x404",
		Roles: []string{"relstatus", "pm", "regexkey", "regexexcl", "ctl", "restpath", "validatenid", "dataset-a", "dataset-b", "file-a", "file-b", "ipfile-a"}},
	// two more @rx patterns under both SecRxPreFilter settings
	// a regex key written with upper-case letters, used on a collection whose keys keep their case semantics
	// (ARGS) and on case-insensitive ones (headers, TX): the compiled selector differs per role
	{Name: "mixedcase", T: `^Alpha-`, M: "Alpha-1", MKey: "alpha-1",
		Roles: []string{"regexkey", "regexexcl", "hdrkey", "hdrexcl", "ctl", "pm"}},
	{Name: "prefilter", T: `(?i)\A\sab`, M: " aB", MKey: "ab", RxPat: `(?i)\A\sab`, Roles: []string{"rx-on", "rx-off", "validatenid"}},
}

// Second round: families whose members agree on the text that looks like a cache key and differ in
// another parameter that decides behaviour (country code of @validateNid, letter case that only one of
// the two normalisations folds, invalid bytes, template vs literal reading of the same text, schema /
// word-list file of one name under different roots or directories, data set of one name with other
// contents). A cache that keys one of these objects by the text alone hands out the twin's object.
const (
	c13SchemaA = `{"type":"object","properties":{"a":{"type":"integer"}},"required":["a"]}`
	c13SchemaB = `{"type":"object","properties":{"a":{"type":"string"}},"required":["a"]}`
)

var c13KinFamilies = []c13Family{
	// one candidate expression, two check-digit algorithms
	{Name: "nid", Kin: true, T: `[0-9.-]{9,12}`,
		Roles: []string{"validatenid", "validatenid-us", "validatenid-both", "regexkey", "pm"}},
	// equal under Unicode lower-casing, different under the ASCII folding the matchers really apply
	{Name: "unicode", Kin: true, T: "CAF\u00c9", T2: "caf\u00e9", RxPat: "CAF\u00c9",
		Roles: []string{"pm", "pm-alt", "cdataset", "cdataset-alt", "cfile", "cfile-alt", "regexkey", "regexkey-alt", "argrestpath", "argrestpath-alt", "rx-on", "rx-on-alt"}},
	{Name: "unicode-words", Kin: true, T: "CAF\u00c9 bistro", T2: "caf\u00e9 bistro",
		Roles: []string{"pm", "pm-alt", "pm-both", "cdataset", "cdataset-alt", "cfile", "cfile-alt"}},
	// equal under ASCII lower-casing: the same phrase list for @pm (a legitimately shared entry), different
	// regular expressions for everything that compiles the text as a pattern
	{Name: "asciicase", Kin: true, T: `Alpha[0-9]`, T2: `alpha[0-9]`, RxPat: `Alpha[0-9]`,
		Roles: []string{"regexkey", "regexkey-alt", "ctl", "ctl-alt", "restpath", "restpath-alt", "rx-on", "rx-on-alt", "pm", "pm-alt",
			"cdataset", "cdataset-alt", "cfile", "cfile-alt"}},
	// phrase lists that differ in one invalid byte (both become U+FFFD under strings.ToLower / ToValidUTF8)
	{Name: "rawbytes", Kin: true, T: "al\xffha", T2: "al\xfeha",
		Roles: []string{"pm", "pm-alt", "pm-both", "cdataset", "cdataset-alt"}},
	// the same for byte patterns (compiled by the binary engine under @rx)
	{Name: "binarycase", Kin: true, T: `Al\xffha`, T2: `al\xffha`, RxPat: `Al\xffha`,
		Roles: []string{"binrx", "binrx-alt"}},
	// phrase lists that differ in the number of blanks between two words: the second blank makes an empty
	// phrase, which matches every value (a key built from the fields of the text identifies the two)
	{Name: "spacing", Kin: true, T: "alpha  beta", T2: "alpha beta",
		Roles: []string{"pm", "pm-alt", "pm-both"}},
	// phrase lists (one phrase per line; "|" stands for the line break) that are the same text once their items are
	// joined with blanks and differ in where one item ends and the next begins
	{Name: "boundaries", Kin: true, T: "alpha beta|gamma", T2: "alpha|beta gamma",
		Roles: []string{"cdataset", "cdataset-alt", "cfile", "cfile-alt"}},
	// @restpath rewrites its argument into a pattern before compiling it; the other roles compile the text as it is
	{Name: "template", Kin: true, T: `x{id}y`,
		Roles: []string{"restpath", "regexkey", "regexexcl", "ctl"}},
	// a schema file and a word-list file of the same name under different roots
	{Name: "schema", Kin: true, T: "alpha.json",
		Roles: []string{"schema-a", "schema-b", "file-a", "file-b", "pm", "schemaid-a", "schemaid-b"}},
}

// c13ExtraRoles are second-round roles of first-round families (appended after everything else so that
// the indices of the first-round configurations stay what they were).
var c13ExtraRoles = []struct {
	Family string
	Roles  []string
}{
	// the same file name resolved against the directory of the including configuration file (one root),
	// a data set of network addresses under one name with different contents
	{Family: "word", Roles: []string{"filedir-a", "filedir-b", "ipdataset-a", "ipdataset-b"}},
}

// c13RoleBase strips the content variant (-a/-b) or text variant (-alt) from a role name.
func c13RoleBase(role string) string {
	for _, suf := range []string{"-a", "-b", "-alt"} {
		if strings.HasSuffix(role, suf) {
			return strings.TrimSuffix(role, suf)
		}
	}
	return role
}

// c13ResourceKind names the kind of shared resource two roles compete for: used as the violation class suffix.
func c13ResourceKind(a, b string) string {
	ba, bb := c13RoleBase(a), c13RoleBase(b)
	if ba == bb && strings.HasSuffix(a, "-alt") != strings.HasSuffix(b, "-alt") {
		return ba + "-near-equal-text"
	}
	if strings.HasPrefix(ba, "validatenid") && strings.HasPrefix(bb, "validatenid") && ba != bb {
		return "validatenid-country-code"
	}
	if ba == bb {
		switch ba {
		case "filedir":
			return "file-name-different-dir"
		case "ipdataset":
			return "ipdataset-name"
		case "schema":
			return "schema-name-different-root"
		case "schemaid":
			return "schema-same-id-different-content"
		}
		switch ba {
		case "dataset", "dataset-redef":
			return "dataset-name"
		case "file":
			return "file-name-different-root"
		case "ipfile":
			return "ipfile-name-different-root"
		case "rx-on", "rx-off":
			return "rx-pattern"
		}
		return "same-role-" + ba
	}
	if (ba == "rx-on" && bb == "rx-off") || (ba == "rx-off" && bb == "rx-on") {
		return "rx-prefilter-flag"
	}
	if (ba == "dataset" && bb == "dataset-redef") || (bb == "dataset" && ba == "dataset-redef") {
		return "dataset-name"
	}
	p := []string{ba, bb}
	sort.Strings(p)
	return p[0] + "-vs-" + p[1]
}

// c13Lines: the content of a phrase list, one phrase per line. A text with "|" lists its phrases explicitly (they
// may contain blanks); otherwise every word is a phrase.
func c13Lines(t string) string {
	if strings.Contains(t, "|") {
		return strings.ReplaceAll(t, "|", "\n")
	}
	return strings.ReplaceAll(t, " ", "\n")
}

func c13RoleText(f *c13Family, role string) (string, map[string]string) {
	T, rxPat := f.T, f.RxPat
	if strings.HasSuffix(role, "-alt") {
		role = strings.TrimSuffix(role, "-alt")
		T, rxPat = f.T2, f.T2
	}
	var sb strings.Builder
	sb.WriteString("SecRuleEngine On\n")
	var files map[string]string
	switch role {
	case "pm-both":
		// one configuration with both near-equal lists
		fmt.Fprintf(&sb, "SecRule ARGS:p \"@pm %s\" \"id:1,phase:1,pass,capture\"\n", f.T)
		fmt.Fprintf(&sb, "SecRule ARGS:p \"@pm %s\" \"id:2,phase:1,pass,capture\"\n", f.T2)
	case "argrestpath":
		// @restpath on an argument value (REQUEST_URI is percent-encoded again by the engine, so that a
		// non-ASCII template can never match there)
		fmt.Fprintf(&sb, "SecRule ARGS:p \"@restpath %s\" \"id:1,phase:1,pass\"\n", T)
	case "validatenid-us":
		fmt.Fprintf(&sb, "SecRule ARGS:p \"@validateNid us %s\" \"id:1,phase:1,pass,capture\"\n", T)
	case "validatenid-both":
		// one configuration that applies both algorithms to the same expression
		fmt.Fprintf(&sb, "SecRule ARGS:p \"@validateNid cl %s\" \"id:1,phase:1,pass,capture\"\n", T)
		fmt.Fprintf(&sb, "SecRule ARGS:p \"@validateNid us %s\" \"id:2,phase:1,pass,capture\"\n", T)
	case "cdataset":
		// the text is the CONTENT of a data set (one phrase per line) under a fixed name
		fmt.Fprintf(&sb, "SecDataset words `\n%s\n`\n", c13Lines(T))
		sb.WriteString("SecRule ARGS:p \"@pmFromDataset words\" \"id:1,phase:1,pass,capture\"\n")
	case "cfile":
		// the text is the CONTENT of a phrase file under a fixed name
		files = map[string]string{"words.data": c13Lines(T) + "\n"}
		sb.WriteString("SecRule ARGS:p \"@pmFromFile words.data\" \"id:1,phase:1,pass,capture\"\n")
	case "filedir-a", "filedir-b":
		// ONE root for both variants; the relative file name is resolved against the directory of the
		// configuration file that contains the rule
		dir := "d1"
		if role == "filedir-b" {
			dir = "d2"
		}
		rule := fmt.Sprintf("SecRule ARGS:p \"@pmFromFile %s\" \"id:1,phase:1,pass,capture\"\n", T)
		files = map[string]string{"d1/" + T: c13WordsA, "d2/" + T: c13WordsB, "d1/rules.conf": rule, "d2/rules.conf": rule}
		fmt.Fprintf(&sb, "Include %s/rules.conf\n", dir)
	case "ipdataset-a", "ipdataset-b":
		nets := c13NetA
		if role == "ipdataset-b" {
			nets = c13NetB
		}
		fmt.Fprintf(&sb, "SecDataset %s `\n%s`\n", T, nets)
		fmt.Fprintf(&sb, "SecRule ARGS:p \"@ipMatchFromDataset %s\" \"id:1,phase:1,pass\"\n", T)
	case "schema-a", "schema-b", "schemaid-a", "schemaid-b":
		schema := c13SchemaA
		if strings.HasSuffix(role, "-b") {
			schema = c13SchemaB
		}
		if strings.HasPrefix(role, "schemaid") {
			// two schema documents that declare the same $id (two versions of one API schema, as deployed side by side)
			schema = `{"$id":"https://schemas.example/alpha.json",` + schema[1:]
		}
		files = map[string]string{T: schema}
		fmt.Fprintf(&sb, "SecRule ARGS:p \"@validateSchema %s\" \"id:1,phase:1,pass\"\n", T)
	case "pm":
		fmt.Fprintf(&sb, "SecRule ARGS:p \"@pm %s\" \"id:1,phase:1,pass,capture\"\n", T)
	case "regexkey":
		fmt.Fprintf(&sb, "SecRule ARGS:/%s/ \"@streq v\" \"id:1,phase:1,pass\"\n", T)
	case "regexexcl":
		fmt.Fprintf(&sb, "SecRule ARGS|!ARGS:/%s/ \"@streq v\" \"id:1,phase:1,pass\"\n", T)
	case "hdrkey":
		fmt.Fprintf(&sb, "SecRule REQUEST_HEADERS:/%s/ \"@streq v\" \"id:1,phase:1,pass\"\n", T)
	case "hdrexcl":
		fmt.Fprintf(&sb, "SecRule REQUEST_HEADERS|!REQUEST_HEADERS:/%s/ \"@streq v\" \"id:1,phase:1,pass\"\n", T)
	case "ctl":
		fmt.Fprintf(&sb, "SecAction \"id:1,phase:1,pass,ctl:ruleRemoveTargetById=2;ARGS:/%s/\"\n", T)
		sb.WriteString("SecRule ARGS \"@streq v\" \"id:2,phase:2,pass\"\n")
	case "restpath":
		fmt.Fprintf(&sb, "SecRule REQUEST_URI \"@restpath %s\" \"id:1,phase:1,pass\"\n", T)
	case "validatenid":
		fmt.Fprintf(&sb, "SecRule ARGS:p \"@validateNid cl %s\" \"id:1,phase:1,pass,capture\"\n", T)
	case "relstatus":
		sb.WriteString("SecAuditEngine RelevantOnly\nSecAuditLogType c13mem\n")
		fmt.Fprintf(&sb, "SecAuditLogRelevantStatus \"%s\"\n", T)
		sb.WriteString("SecRule ARGS:p \"@streq v\" \"id:1,phase:1,pass,noauditlog\"\n")
	case "dataset-a", "dataset-b":
		words := c13WordsA
		if role == "dataset-b" {
			words = c13WordsB
		}
		fmt.Fprintf(&sb, "SecDataset %s `\n%s`\n", T, words)
		fmt.Fprintf(&sb, "SecRule ARGS:p \"@pmFromDataset %s\" \"id:1,phase:1,pass,capture\"\n", T)
	case "dataset-redef":
		// one configuration that redefines the data set between two rules
		fmt.Fprintf(&sb, "SecDataset %s `\n%s`\n", T, c13WordsA)
		fmt.Fprintf(&sb, "SecRule ARGS:p \"@pmFromDataset %s\" \"id:1,phase:1,pass,capture\"\n", T)
		fmt.Fprintf(&sb, "SecDataset %s `\n%s`\n", T, c13WordsB)
		fmt.Fprintf(&sb, "SecRule ARGS:p \"@pmFromDataset %s\" \"id:2,phase:1,pass,capture\"\n", T)
	case "file-a", "file-b":
		words := c13WordsA
		if role == "file-b" {
			words = c13WordsB
		}
		files = map[string]string{T: words}
		fmt.Fprintf(&sb, "SecRule ARGS:p \"@pmFromFile %s\" \"id:1,phase:1,pass,capture\"\n", T)
	case "ipfile-a", "ipfile-b":
		nets := c13NetA
		if role == "ipfile-b" {
			nets = c13NetB
		}
		files = map[string]string{T: nets}
		fmt.Fprintf(&sb, "SecRule ARGS:p \"@ipMatchFromFile %s\" \"id:1,phase:1,pass\"\n", T)
	case "rx-on", "rx-off":
		flag := "On"
		if role == "rx-off" {
			flag = "Off"
		}
		fmt.Fprintf(&sb, "SecRxPreFilter %s\n", flag)
		fmt.Fprintf(&sb, "SecRule ARGS:p \"@rx %s\" \"id:1,phase:1,pass,capture\"\n", rxPat)
	case "binrx":
		fmt.Fprintf(&sb, "SecRule ARGS:p \"@rx %s\" \"id:1,phase:1,pass,capture\"\n", rxPat)
	default:
		panic("c13: unknown role " + role)
	}
	return sb.String(), files
}

// c13Pool builds the configuration pool (deterministic; the index of a configuration is stable
// for a given version of this file, and violation cases embed the configurations they use).
func c13Pool() []*c13Cfg {
	var out []*c13Cfg
	add := func(f *c13Family, role string, kin bool) {
		text, files := c13RoleText(f, role)
		c := &c13Cfg{Idx: len(out), Name: f.Name + "/" + role, Family: f.Name, Role: role, Text: text, Files: files, Kin: kin}
		if !utf8.ValidString(text) {
			c.TextHex = hex.EncodeToString([]byte(text))
			c.Text = strings.ToValidUTF8(text, "\uFFFD")
		}
		out = append(out, c)
	}
	for fi := range c13Families {
		for _, role := range c13Families[fi].Roles {
			add(&c13Families[fi], role, false)
		}
	}
	for fi := range c13KinFamilies {
		for _, role := range c13KinFamilies[fi].Roles {
			add(&c13KinFamilies[fi], role, true)
		}
	}
	for _, x := range c13ExtraRoles {
		for _, role := range x.Roles {
			add(c13FamilyByName(x.Family), role, true)
		}
	}
	return out
}

// c13SystematicPair says whether the ordered pair (a, b) has its two systematic histories: every pair of
// first-round configurations, and every pair inside one family as soon as a second-round one takes part.
func c13SystematicPair(a, b *c13Cfg) bool {
	return (!a.Kin && !b.Kin) || a.Family == b.Family
}

func c13FamilyByName(name string) *c13Family {
	for i := range c13Families {
		if c13Families[i].Name == name {
			return &c13Families[i]
		}
	}
	for i := range c13KinFamilies {
		if c13KinFamilies[i].Name == name {
			return &c13KinFamilies[i]
		}
	}
	return nil
}

// c13Twins says whether two configurations of one family agree on the text that looks like the cache
// key and differ in exactly one other parameter that is meant to change behaviour (country code, letter
// case / bytes of a near-equal text, content behind one name). Evidence only: the probes of a battery
// are expected to tell twins apart (twin_pairs_discriminated); where they cannot the pair is listed.
func c13Twins(a, b *c13Cfg) bool {
	if a.Family != b.Family || a.Idx == b.Idx {
		return false
	}
	if c13RoleBase(a.Role) == c13RoleBase(b.Role) && a.Role != b.Role {
		return true
	}
	return strings.HasPrefix(a.Role, "validatenid") && strings.HasPrefix(b.Role, "validatenid")
}

// c13Battery is the list of probe requests of a family: every configuration of the family is probed
// with the same requests, chosen so that each role's outcome reveals which compiled object it uses
// (a phrase that is in one word list but not in the other, an address in one network only, a status
// the text matches, an argument name the text matches, …).
func c13Battery(family string) []c13Probe {
	f := c13FamilyByName(family)
	kv := func(k, v string) []sl.KV { return []sl.KV{{K: k, V: v}} }
	pv := func(vals ...string) []c13Probe {
		var out []c13Probe
		for _, v := range vals {
			out = append(out, c13Probe{Path: "/", Args: kv("p", v), Status: 200})
		}
		return out
	}
	names := func(ns ...string) []c13Probe { // an argument of that NAME next to an unrelated one, and alone
		var out []c13Probe
		for _, n := range ns {
			out = append(out, c13Probe{Path: "/", Args: []sl.KV{{K: n, V: "v"}, {K: "other", V: "v"}}, Status: 200})
			out = append(out, c13Probe{Path: "/", Args: kv(n, "v"), Status: 200})
		}
		return out
	}
	paths := func(ps ...string) []c13Probe {
		var out []c13Probe
		for _, p := range ps {
			out = append(out, c13Probe{Path: p, Args: kv("q", "v"), Status: 200})
		}
		return out
	}
	switch family {
	case "nid":
		// a valid RUT that is no valid SSN, a valid SSN that is no valid RUT, one valid as both, one valid as neither
		return append(pv("11.111.111-1", "078-05-1120", "12.345.678-5", "123-45-6789", "x 11.111.111-1 y 078-05-1120 z", f.T),
			names("1234567890", "12345")...)
	case "unicode", "unicode-words":
		ps := pv("un caf\u00e9 noir", "UN CAF\u00c9 NOIR", "un caf\u00c9 noir", "un cafe noir", "le bistro", f.T, f.T2)
		ps = append(ps, names("CAF\u00c9", "caf\u00e9")...)
		return append(ps, paths("/CAF\u00c9", "/caf\u00e9")...)
	case "asciicase":
		ps := pv("Alpha1", "alpha1", "ALPHA1", "x alpha[0-9] y", "x ALPHA[0-9] y")
		ps = append(ps, names("Alpha1", "alpha1")...)
		return append(ps, paths("/Alpha1", "/alpha1")...)
	case "binarycase":
		return pv("Al\xffha", "al\xffha", "AL\xffHA", "alha")
	case "boundaries":
		return pv("x alpha y", "x alpha beta y", "x beta gamma y", "x gamma y", "x beta y", "alpha beta gamma")
	case "spacing":
		return pv("x alpha y", "x beta y", "zzz", "", "alpha  beta")
	case "rawbytes":
		return pv(f.T, f.T2, "x "+f.T+" y "+f.T2, "al\ufffdha", "alha")
	case "template":
		ps := names("x{id}y", "x123y", "xy")
		ps = append(ps, paths("/x123y", "/x%7Bid%7Dy", "/x{id}y", "/xy")...)
		return append(ps, pv("v")...)
	case "schema":
		return pv(`{"a":1}`, `{"a":"x"}`, `{"b":1}`, "not json", "x wone y", "x wthree y", f.T)
	}
	ps := []c13Probe{
		{Path: "/", Args: kv("p", f.T), Status: 200},
		{Path: "/", Args: kv("p", "x wone y"), Status: 200},
		{Path: "/", Args: kv("p", "x wthree y"), Status: 200},
		{Path: "/", Args: kv("p", "10.1.2.3"), Status: 200},
		{Path: "/", Args: kv("p", "10.2.2.3"), Status: 200},
		{Path: "/", Args: kv("p", f.M), Status: 200},
		{Path: "/", Args: kv("p", "11.111.111-1"), Status: 200},
		{Path: "/", Args: []sl.KV{{K: f.MKey, V: "v"}, {K: "other", V: "v"}}, Status: 200},
		{Path: "/", Args: kv(f.MKey, "v"), Status: 200},
		{Path: "/" + c13PathEsc(f.M), Args: kv("p", "v"), Status: 403},
		{Path: "/api/" + c13PathEsc(f.T), Args: kv("q", "v"), Status: 404},
		{Path: "/", Args: kv("p", "v"), Status: 500},
	}
	if family == "mixedcase" {
		// names as sent in lower case, in the selector's case, and in upper case
		for _, n := range []string{"alpha-1", "Alpha-1", "ALPHA-1"} {
			ps = append(ps, c13Probe{Path: "/", Headers: kv(n, "v"), Args: kv(n, "v"), Status: 200})
		}
	}
	return ps
}

// c13PathEsc percent-encodes what cannot stand in a request path (and keeps probe JSON byte-exact).
func c13PathEsc(s string) string {
	var sb strings.Builder
	for i := 0; i < len(s); i++ {
		c := s[i]
		if c <= ' ' || c >= 0x7f || c == '%' || c == '?' || c == '#' {
			fmt.Fprintf(&sb, "%%%02X", c)
		} else {
			sb.WriteByte(c)
		}
	}
	return sb.String()
}
