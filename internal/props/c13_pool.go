package props

import (
	"fmt"
	"sort"
	"strings"

	"verif/internal/sl"
)

// The C13 pool: small configurations that present the SAME text in DIFFERENT roles, so that a
// process-wide cache keyed by that text alone would hand one configuration the object compiled
// for another one.

// c13Cfg is one configuration of the pool.
type c13Cfg struct {
	Idx    int               `json:"idx"`
	Name   string            `json:"name"` // family/role
	Family string            `json:"family"`
	Role   string            `json:"role"`
	Text   string            `json:"text"`
	Files  map[string]string `json:"files,omitempty"` // content of the fs.FS root handed to WithRootFS
}

// c13Probe is one probe request.
type c13Probe struct {
	Path    string  `json:"path"`
	Headers []sl.KV `json:"headers,omitempty"`
	Args    []sl.KV `json:"args,omitempty"`
	Status int     `json:"status"`
}

type c13Family struct {
	Name string
	// T is the shared text. M is a value the text matches when read as a regular expression,
	// MKey an argument NAME it matches (lower case), RxPat the @rx pattern of the rx-on/rx-off roles.
	T, M, MKey, RxPat string
	Roles             []string
}

const (
	c13WordsA = "wone\nwtwo\n"
	c13WordsB = "wthree\nwfour\n"
	c13NetA   = "10.1.0.0/16\n"
	c13NetB   = "10.2.0.0/16\n"
)

var c13Families = []c13Family{
	{Name: "word", T: "alpha", M: "xalphax", MKey: "alpha1", RxPat: "alpha",
		Roles: []string{"pm", "regexkey", "regexexcl", "ctl", "restpath", "validatenid", "relstatus", "dataset-a", "dataset-b", "dataset-redef",
			"file-a", "file-b", "ipfile-a", "ipfile-b", "rx-on", "rx-off"}},
	{Name: "words", T: "alpha beta", M: "alpha beta", MKey: "alpha",
		Roles: []string{"pm", "restpath", "validatenid", "relstatus", "file-a", "file-b"}},
	{Name: "anchored", T: `^alpha$`, M: "alpha", MKey: "alpha", RxPat: `^alpha$`,
		Roles: []string{"pm", "regexkey", "regexexcl", "restpath", "validatenid", "relstatus", "dataset-a", "dataset-b", "file-a", "file-b", "rx-on", "rx-off"}},
	// the text IS the key the @rx operator derives for its own pattern (prefilter on / off)
	{Name: "rxkey-on", T: `rx:true:(?sm)(?i)select[a-c]\z`, M: "sELECTb", MKey: "rx:true:selectb", RxPat: `(?i)select[a-c]\z`,
		Roles: []string{"pm", "regexkey", "restpath", "validatenid", "relstatus", "dataset-a", "dataset-b", "rx-on", "rx-off"}},
	{Name: "rxkey-off", T: `rx:false:(?sm)(?i)select[a-c]\z`, M: "sELECTb", MKey: "rx:false:selectb", RxPat: `(?i)select[a-c]\z`,
		Roles: []string{"pm", "regexkey", "validatenid", "dataset-a"}},
	// a pattern with a byte escape is compiled by the binary regex engine under @rx
	{Name: "binary", T: `al\xffha`, M: "al\xffha", MKey: "al\xffha", RxPat: `al\xffha`,
		Roles: []string{"binrx", "pm", "regexkey", "restpath", "validatenid", "relstatus", "dataset-a", "dataset-b"}},
	// the same with the default mode flags @rx prepends before it compiles (and caches) the pattern
	{Name: "binary-flags", T: `(?sm)al\xffha`, M: "al\xffha", MKey: "al\xffha", RxPat: `al\xffha`,
		Roles: []string{"binrx", "pm", "regexkey", "restpath", "validatenid", "relstatus", "dataset-a", "dataset-b"}},
	{Name: "status", T: `40[34]`, M: "403", MKey: "x404",
		Roles: []string{"relstatus", "pm", "regexkey", "regexexcl", "ctl", "restpath", "validatenid", "dataset-a", "dataset-b", "file-a", "file-b", "ipfile-a"}},
	// two more @rx patterns under both SecRxPreFilter settings
	// a regex key written with upper-case letters, used on a collection whose keys keep their case semantics
	// (ARGS) and on case-insensitive ones (headers, TX): the compiled selector differs per role
	{Name: "mixedcase", T: `^Alpha-`, M: "Alpha-1", MKey: "alpha-1",
		Roles: []string{"regexkey", "regexexcl", "hdrkey", "hdrexcl", "ctl", "pm"}},
	{Name: "prefilter", T: `(?i)\A\sab`, M: " aB", MKey: "ab", RxPat: `(?i)\A\sab`, Roles: []string{"rx-on", "rx-off", "validatenid"}},
}

// c13RoleBase strips the content variant (-a/-b) from a role name.
func c13RoleBase(role string) string {
	for _, suf := range []string{"-a", "-b"} {
		if strings.HasSuffix(role, suf) {
			return strings.TrimSuffix(role, suf)
		}
	}
	return role
}

// c13ResourceKind names the kind of shared resource two roles compete for: used as the violation class suffix.
func c13ResourceKind(a, b string) string {
	ba, bb := c13RoleBase(a), c13RoleBase(b)
	if ba == bb {
		switch ba {
		case "dataset", "dataset-redef":
			return "dataset-name"
		case "file":
			return "file-name-different-root"
		case "ipfile":
			return "ipfile-name-different-root"
		case "rx-on", "rx-off":
			return "rx-pattern"
		}
		return "same-role-" + ba
	}
	if (ba == "rx-on" && bb == "rx-off") || (ba == "rx-off" && bb == "rx-on") {
		return "rx-prefilter-flag"
	}
	if (ba == "dataset" && bb == "dataset-redef") || (bb == "dataset" && ba == "dataset-redef") {
		return "dataset-name"
	}
	p := []string{ba, bb}
	sort.Strings(p)
	return p[0] + "-vs-" + p[1]
}

func c13RoleText(f *c13Family, role string) (string, map[string]string) {
	T := f.T
	var sb strings.Builder
	sb.WriteString("SecRuleEngine On\n")
	var files map[string]string
	switch role {
	case "pm":
		fmt.Fprintf(&sb, "SecRule ARGS:p \"@pm %s\" \"id:1,phase:1,pass,capture\"\n", T)
	case "regexkey":
		fmt.Fprintf(&sb, "SecRule ARGS:/%s/ \"@streq v\" \"id:1,phase:1,pass\"\n", T)
	case "regexexcl":
		fmt.Fprintf(&sb, "SecRule ARGS|!ARGS:/%s/ \"@streq v\" \"id:1,phase:1,pass\"\n", T)
	case "hdrkey":
		fmt.Fprintf(&sb, "SecRule REQUEST_HEADERS:/%s/ \"@streq v\" \"id:1,phase:1,pass\"\n", T)
	case "hdrexcl":
		fmt.Fprintf(&sb, "SecRule REQUEST_HEADERS|!REQUEST_HEADERS:/%s/ \"@streq v\" \"id:1,phase:1,pass\"\n", T)
	case "ctl":
		fmt.Fprintf(&sb, "SecAction \"id:1,phase:1,pass,ctl:ruleRemoveTargetById=2;ARGS:/%s/\"\n", T)
		sb.WriteString("SecRule ARGS \"@streq v\" \"id:2,phase:2,pass\"\n")
	case "restpath":
		fmt.Fprintf(&sb, "SecRule REQUEST_URI \"@restpath %s\" \"id:1,phase:1,pass\"\n", T)
	case "validatenid":
		fmt.Fprintf(&sb, "SecRule ARGS:p \"@validateNid cl %s\" \"id:1,phase:1,pass,capture\"\n", T)
	case "relstatus":
		sb.WriteString("SecAuditEngine RelevantOnly\nSecAuditLogType c13mem\n")
		fmt.Fprintf(&sb, "SecAuditLogRelevantStatus \"%s\"\n", T)
		sb.WriteString("SecRule ARGS:p \"@streq v\" \"id:1,phase:1,pass,noauditlog\"\n")
	case "dataset-a", "dataset-b":
		words := c13WordsA
		if role == "dataset-b" {
			words = c13WordsB
		}
		fmt.Fprintf(&sb, "SecDataset %s `\n%s`\n", T, words)
		fmt.Fprintf(&sb, "SecRule ARGS:p \"@pmFromDataset %s\" \"id:1,phase:1,pass,capture\"\n", T)
	case "dataset-redef":
		// one configuration that redefines the data set between two rules
		fmt.Fprintf(&sb, "SecDataset %s `\n%s`\n", T, c13WordsA)
		fmt.Fprintf(&sb, "SecRule ARGS:p \"@pmFromDataset %s\" \"id:1,phase:1,pass,capture\"\n", T)
		fmt.Fprintf(&sb, "SecDataset %s `\n%s`\n", T, c13WordsB)
		fmt.Fprintf(&sb, "SecRule ARGS:p \"@pmFromDataset %s\" \"id:2,phase:1,pass,capture\"\n", T)
	case "file-a", "file-b":
		words := c13WordsA
		if role == "file-b" {
			words = c13WordsB
		}
		files = map[string]string{T: words}
		fmt.Fprintf(&sb, "SecRule ARGS:p \"@pmFromFile %s\" \"id:1,phase:1,pass,capture\"\n", T)
	case "ipfile-a", "ipfile-b":
		nets := c13NetA
		if role == "ipfile-b" {
			nets = c13NetB
		}
		files = map[string]string{T: nets}
		fmt.Fprintf(&sb, "SecRule ARGS:p \"@ipMatchFromFile %s\" \"id:1,phase:1,pass\"\n", T)
	case "rx-on", "rx-off":
		flag := "On"
		if role == "rx-off" {
			flag = "Off"
		}
		fmt.Fprintf(&sb, "SecRxPreFilter %s\n", flag)
		fmt.Fprintf(&sb, "SecRule ARGS:p \"@rx %s\" \"id:1,phase:1,pass,capture\"\n", f.RxPat)
	case "binrx":
		fmt.Fprintf(&sb, "SecRule ARGS:p \"@rx %s\" \"id:1,phase:1,pass,capture\"\n", f.RxPat)
	default:
		panic("c13: unknown role " + role)
	}
	return sb.String(), files
}

// c13Pool builds the configuration pool (deterministic; the index of a configuration is stable
// for a given version of this file, and violation cases embed the configurations they use).
func c13Pool() []*c13Cfg {
	var out []*c13Cfg
	for fi := range c13Families {
		f := &c13Families[fi]
		for _, role := range f.Roles {
			text, files := c13RoleText(f, role)
			out = append(out, &c13Cfg{Idx: len(out), Name: f.Name + "/" + role, Family: f.Name, Role: role, Text: text, Files: files})
		}
	}
	return out
}

func c13FamilyByName(name string) *c13Family {
	for i := range c13Families {
		if c13Families[i].Name == name {
			return &c13Families[i]
		}
	}
	return nil
}

// c13Battery is the list of probe requests of a family: every configuration of the family is probed
// with the same requests, chosen so that each role's outcome reveals which compiled object it uses
// (a phrase that is in one word list but not in the other, an address in one network only, a status
// the text matches, an argument name the text matches, …).
func c13Battery(family string) []c13Probe {
	f := c13FamilyByName(family)
	kv := func(k, v string) []sl.KV { return []sl.KV{{K: k, V: v}} }
	ps := []c13Probe{
		{Path: "/", Args: kv("p", f.T), Status: 200},
		{Path: "/", Args: kv("p", "x wone y"), Status: 200},
		{Path: "/", Args: kv("p", "x wthree y"), Status: 200},
		{Path: "/", Args: kv("p", "10.1.2.3"), Status: 200},
		{Path: "/", Args: kv("p", "10.2.2.3"), Status: 200},
		{Path: "/", Args: kv("p", f.M), Status: 200},
		{Path: "/", Args: kv("p", "11.111.111-1"), Status: 200},
		{Path: "/", Args: []sl.KV{{K: f.MKey, V: "v"}, {K: "other", V: "v"}}, Status: 200},
		{Path: "/", Args: kv(f.MKey, "v"), Status: 200},
		{Path: "/" + c13PathEsc(f.M), Args: kv("p", "v"), Status: 403},
		{Path: "/api/" + c13PathEsc(f.T), Args: kv("q", "v"), Status: 404},
		{Path: "/", Args: kv("p", "v"), Status: 500},
	}
	if family == "mixedcase" {
		// names as sent in lower case, in the selector's case, and in upper case
		for _, n := range []string{"alpha-1", "Alpha-1", "ALPHA-1"} {
			ps = append(ps, c13Probe{Path: "/", Headers: kv(n, "v"), Args: kv(n, "v"), Status: 200})
		}
	}
	return ps
}

// c13PathEsc percent-encodes what cannot stand in a request path (and keeps probe JSON byte-exact).
func c13PathEsc(s string) string {
	var sb strings.Builder
	for i := 0; i < len(s); i++ {
		c := s[i]
		if c <= ' ' || c >= 0x7f || c == '%' || c == '?' || c == '#' {
			fmt.Fprintf(&sb, "%%%02X", c)
		} else {
			sb.WriteByte(c)
		}
	}
	return sb.String()
}
