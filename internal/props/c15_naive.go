package props

// C15: direct, deliberately naive definitions of the documented operator predicates. Nothing in
// this file looks at how coraza implements an operator; the inputs are the *structured*
// description the generator produced (phrase list, CIDR entries, byte ranges, expanded argument,
// pattern), never the argument text coraza parsed.

import (
	"encoding/hex"
	"encoding/json"
	"math/big"
	"net/netip"
	"regexp"
	"unicode/utf8"
)

// c15S is a byte string that survives JSON byte-exactly (hex object when not valid UTF-8).
type c15S string

func (s c15S) MarshalJSON() ([]byte, error) {
	if utf8.ValidString(string(s)) {
		return json.Marshal(string(s))
	}
	return json.Marshal(map[string]string{"hex": hex.EncodeToString([]byte(s))})
}

func (s *c15S) UnmarshalJSON(b []byte) error {
	if len(b) > 0 && b[0] == '"' {
		var x string
		if err := json.Unmarshal(b, &x); err != nil {
			return err
		}
		*s = c15S(x)
		return nil
	}
	var m map[string]string
	if err := json.Unmarshal(b, &m); err != nil {
		return err
	}
	raw, err := hex.DecodeString(m["hex"])
	if err != nil {
		return err
	}
	*s = c15S(raw)
	return nil
}

// c15Spec is the structured description of one operator instance.
type c15Spec struct {
	Op       string   `json:"op"`
	Arg      c15S     `json:"arg"`                // exactly what the constructor receives as Arguments
	Expanded *c15S    `json:"expanded,omitempty"` // string/numeric operators: the argument after macro expansion
	TXX      *c15S    `json:"tx_x,omitempty"`     // value of TX.x when the argument uses %{TX.x}
	Phrases  []c15S   `json:"phrases,omitempty"`  // @pm family: the listed phrases
	Entries  []string `json:"entries,omitempty"`  // @ipMatch family: the listed addresses / CIDR blocks
	Ranges   [][2]int `json:"ranges,omitempty"`   // @validateByteRange: inclusive ranges
	Pattern  string   `json:"pattern,omitempty"`  // @rx
	Binary   []c15Tok `json:"binary,omitempty"`   // @rx byte-escape sub-population: token list
	File     *c15S    `json:"file,omitempty"`     // *FromFile: file content
	Dataset  []c15S   `json:"dataset,omitempty"`  // *FromDataset: entries
	Capture  bool     `json:"capture,omitempty"`
	// @rx: the instance is built with RxPreFilterEnabled (end-to-end: SecRxPreFilter On); the documented predicate is the same
	Prefilter bool `json:"rx_prefilter,omitempty"`
	// @rx anchored / case-insensitive literal sub-population: the literal the pattern was built around (evidence counters only)
	Literal *c15S `json:"rx_literal,omitempty"`
	// *FromFile: how File was written around the listed entries (evidence and violation classes only): pad=none|some|all,eol=lf|crlf|mixed,final=one|none|many
	FileStyle string `json:"file_style,omitempty"`
	// *FromDataset, end-to-end only: the body of the SecDataset block (padded, commented, duplicated lines around Dataset)
	DatasetText *c15S  `json:"dataset_text,omitempty"`
	NoJudge     string `json:"no_judge,omitempty"` // non-empty: the predicate is not pinned for this argument (reason)
}

// c15Tok is one token of the byte-escape @rx sub-language: a literal byte or "any byte".
type c15Tok struct {
	Any bool `json:"any,omitempty"`
	B   int  `json:"b,omitempty"`
}

func c15FoldASCII(s string) string {
	b := []byte(s)
	for i, c := range b {
		if c >= 'A' && c <= 'Z' {
			b[i] = c + 32
		}
	}
	return string(b)
}

// c15Contains is the schoolbook substring test.
func c15Contains(h, n string) bool {
	for i := 0; i+len(n) <= len(h); i++ {
		if h[i:i+len(n)] == n {
			return true
		}
	}
	return false
}

func c15HasPrefix(h, p string) bool { return len(h) >= len(p) && h[:len(p)] == p }
func c15HasSuffix(h, p string) bool { return len(h) >= len(p) && h[len(h)-len(p):] == p }

// c15CanonInt parses a decimal integer written with digits only (optional '-'; leading zeros and "-0" are
// fine: a digit string has one decimal value). Anything else - a '+', blanks, a base prefix, separators, a
// fraction, an exponent, non-ASCII digits - has no pinned numeric reading and is not judged.
func c15CanonInt(s string) (*big.Int, bool) {
	if s == "" {
		return nil, false
	}
	d := s
	if d[0] == '-' {
		d = d[1:]
	}
	if d == "" {
		return nil, false
	}
	for i := 0; i < len(d); i++ {
		if d[i] < '0' || d[i] > '9' {
			return nil, false
		}
	}
	v, ok := new(big.Int).SetString(s, 10)
	return v, ok
}

var (
	c15MinInt64 = big.NewInt(-1 << 63)
	c15MaxInt64 = new(big.Int).SetUint64(1<<63 - 1)
)

func c15InInt64(v *big.Int) bool { return v.Cmp(c15MinInt64) >= 0 && v.Cmp(c15MaxInt64) <= 0 }

func c15URLEncodingInvalid(s string) bool {
	isHex := func(c byte) bool {
		return (c >= '0' && c <= '9') || (c >= 'a' && c <= 'f') || (c >= 'A' && c <= 'F')
	}
	for i := 0; i < len(s); i++ {
		if s[i] != '%' {
			continue
		}
		if i+2 >= len(s) || !isHex(s[i+1]) || !isHex(s[i+2]) {
			return true
		}
	}
	return false
}

// c15UTF8Valid is a hand-written RFC 3629 validator (no overlongs, no surrogates, <= U+10FFFF).
func c15UTF8Valid(s string) bool {
	i := 0
	cont := func(k int) bool { return k < len(s) && s[k] >= 0x80 && s[k] <= 0xBF }
	for i < len(s) {
		c := s[i]
		switch {
		case c < 0x80:
			i++
		case c >= 0xC2 && c <= 0xDF:
			if !cont(i + 1) {
				return false
			}
			i += 2
		case c >= 0xE0 && c <= 0xEF:
			if !cont(i+1) || !cont(i+2) {
				return false
			}
			if c == 0xE0 && s[i+1] < 0xA0 {
				return false
			}
			if c == 0xED && s[i+1] > 0x9F {
				return false
			}
			i += 3
		case c >= 0xF0 && c <= 0xF4:
			if !cont(i+1) || !cont(i+2) || !cont(i+3) {
				return false
			}
			if c == 0xF0 && s[i+1] < 0x90 {
				return false
			}
			if c == 0xF4 && s[i+1] > 0x8F {
				return false
			}
			i += 4
		default:
			return false
		}
	}
	return true
}

// c15Prefixes parses the listed entries into prefixes (bare address = full-length prefix).
func c15Prefixes(entries []string) ([]netip.Prefix, bool) {
	var out []netip.Prefix
	for _, e := range entries {
		hasSlash := false
		for i := 0; i < len(e); i++ {
			if e[i] == '/' {
				hasSlash = true
			}
		}
		if hasSlash {
			p, err := netip.ParsePrefix(e)
			if err != nil || p.Addr().Is4In6() {
				return nil, false
			}
			out = append(out, p.Masked())
			continue
		}
		a, err := netip.ParseAddr(e)
		if err != nil || a.Zone() != "" || a.Is4In6() {
			return nil, false
		}
		out = append(out, netip.PrefixFrom(a, a.BitLen()))
	}
	return out, true
}

// c15BitsMember compares the first n bits by hand (independent of net.IPNet and netip.Prefix.Contains).
func c15BitsMember(p netip.Prefix, a netip.Addr) bool {
	if p.Addr().Is4() != a.Is4() {
		return false
	}
	pb, ab := p.Addr().AsSlice(), a.AsSlice()
	for i := 0; i < p.Bits(); i++ {
		if (pb[i/8]>>(7-uint(i%8)))&1 != (ab[i/8]>>(7-uint(i%8)))&1 {
			return false
		}
	}
	return true
}

// c15BinaryMatch: the byte-escape @rx sub-language (literal bytes and '.', dot matches any byte
// including newline), unanchored.
func c15BinaryMatch(toks []c15Tok, in string) bool {
	for i := 0; i+len(toks) <= len(in); i++ {
		ok := true
		for j, t := range toks {
			if !t.Any && int(in[i+j]) != t.B {
				ok = false
				break
			}
		}
		if ok {
			return true
		}
	}
	return false
}

var c15RxCache = map[string]*regexp.Regexp{}

// c15RxFlags is the prefix this build documents as its default (rx.go: "(?sm)" unless the
// coraza.rule.no_regex_multiline tag is set; the plain flavour does not set it).
const c15RxFlags = rxBuildWrap

func c15Regexp(pattern string) *regexp.Regexp {
	if re, ok := c15RxCache[pattern]; ok {
		return re
	}
	re, err := regexp.Compile(c15RxFlags + pattern)
	if err != nil {
		re = nil
	}
	if len(c15RxCache) > 4096 {
		c15RxCache = map[string]*regexp.Regexp{}
	}
	c15RxCache[pattern] = re
	return re
}

// c15Want returns the documented predicate for (spec, input); judged=false when it is not pinned.
func c15Want(s *c15Spec, in string) (want, judged bool, why string) {
	if s.NoJudge != "" {
		return false, false, s.NoJudge
	}
	exp := ""
	if s.Expanded != nil {
		exp = string(*s.Expanded)
	}
	switch s.Op {
	case "streq":
		return in == exp, true, ""
	case "contains", "strmatch":
		return c15Contains(in, exp), true, ""
	case "beginsWith":
		return c15HasPrefix(in, exp), true, ""
	case "endsWith":
		return c15HasSuffix(in, exp), true, ""
	case "within":
		return c15Contains(exp, in), true, ""
	case "eq", "ge", "gt", "le", "lt":
		a, ok1 := c15CanonInt(in)
		b, ok2 := c15CanonInt(exp)
		if !ok1 || !ok2 {
			return false, false, "numeric operator on text that is not a digits-only decimal integer"
		}
		if !c15InInt64(a) || !c15InInt64(b) {
			return false, false, "numeric operator on an integer outside 64 bits"
		}
		c := a.Cmp(b)
		switch s.Op {
		case "eq":
			return c == 0, true, ""
		case "ge":
			return c >= 0, true, ""
		case "gt":
			return c > 0, true, ""
		case "le":
			return c <= 0, true, ""
		default:
			return c < 0, true, ""
		}
	case "pm", "pmFromFile", "pmf", "pmFromDataset":
		fin := c15FoldASCII(in)
		for _, p := range s.Phrases {
			if c15Contains(fin, c15FoldASCII(string(p))) {
				return true, true, ""
			}
		}
		return false, true, ""
	case "ipMatch", "ipMatchFromFile", "ipMatchF", "ipMatchFromDataset":
		ps, ok := c15Prefixes(s.Entries)
		if !ok {
			return false, false, "CIDR list entry without a pinned reading"
		}
		a, err := netip.ParseAddr(in)
		if err != nil {
			return false, true, ""
		}
		if a.Zone() != "" || a.Is4In6() {
			return false, false, "zoned or IPv4-mapped input address"
		}
		for _, p := range ps {
			m := c15BitsMember(p, a)
			if m != p.Contains(a) {
				return false, false, "oracle self-disagreement (bits vs netip)"
			}
			if m {
				return true, true, ""
			}
		}
		return false, true, ""
	case "validateByteRange":
		var allowed [256]bool
		for _, r := range s.Ranges {
			for b := r[0]; b <= r[1]; b++ {
				allowed[b] = true
			}
		}
		for i := 0; i < len(in); i++ {
			if !allowed[in[i]] {
				return true, true, ""
			}
		}
		return false, true, ""
	case "validateUrlEncoding":
		return c15URLEncodingInvalid(in), true, ""
	case "validateUtf8Encoding":
		v := c15UTF8Valid(in)
		if v != utf8.ValidString(in) {
			return false, false, "oracle self-disagreement (hand-written validator vs utf8.Valid)"
		}
		return !v, true, ""
	case "rx":
		if s.Binary != nil {
			return c15BinaryMatch(s.Binary, in), true, ""
		}
		re := c15Regexp(s.Pattern)
		if re == nil {
			return false, false, "pattern rejected by Go regexp"
		}
		return re.MatchString(in), true, ""
	}
	return false, false, "operator without a naive definition"
}
