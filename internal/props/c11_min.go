package props

// C11: witness minimisation (delta debugging over the input bytes and over the pattern's AST) and
// root-cause oriented classification of a divergence.

import (
	"regexp/syntax"
	"sort"
	"strings"
)

// c11Wrap is what newRX prepends to the argument in the default build ((?s) with the
// coraza.rule.no_regex_multiline tag; the analysis below only uses it for features, never for
// the verdict).
const c11Wrap = rxBuildWrap

func c11Parse(pattern string) (*syntax.Regexp, error) {
	return syntax.Parse(c11Wrap+pattern, syntax.Perl)
}

func c11Clone(re *syntax.Regexp) *syntax.Regexp {
	c := *re
	c.Rune = append([]rune(nil), re.Rune...)
	c.Sub = make([]*syntax.Regexp, len(re.Sub))
	for i, s := range re.Sub {
		c.Sub[i] = c11Clone(s)
	}
	c.Sub0 = [1]*syntax.Regexp{}
	c.Rune0 = [2]rune{}
	return &c
}

// c11Nodes lists the nodes of a tree in preorder together with their parent links.
type c11NodeRef struct {
	n      *syntax.Regexp
	parent *syntax.Regexp
	idx    int
}

func c11Nodes(root *syntax.Regexp) []c11NodeRef {
	var out []c11NodeRef
	var walk func(n, p *syntax.Regexp, i int)
	walk = func(n, p *syntax.Regexp, i int) {
		out = append(out, c11NodeRef{n, p, i})
		for j, s := range n.Sub {
			walk(s, n, j)
		}
	}
	walk(root, nil, 0)
	return out
}

// c11Reduce walks candidate smaller patterns derived from the AST of pattern, nodes nearest to the
// root first (big cuts first), and returns the first one accepted by try ("" when none is).
// Candidates are produced lazily: every try costs two regexp compilations in the caller.
func c11Reduce(pattern string, try func(cand string) bool, exhausted func() bool) string {
	root, err := c11Parse(pattern)
	if err != nil {
		return ""
	}
	nodes := c11Nodes(root)
	n := len(nodes)
	// breadth-first order: depth of each node
	depth := make(map[*syntax.Regexp]int, n)
	order := make([]int, n)
	for i, ref := range nodes {
		if ref.parent != nil {
			depth[ref.n] = depth[ref.parent] + 1
		}
		order[i] = i
	}
	sort.SliceStable(order, func(a, b int) bool { return depth[nodes[order[a]].n] < depth[nodes[order[b]].n] })
	seen := map[string]bool{pattern: true}
	empty := func() *syntax.Regexp { return &syntax.Regexp{Op: syntax.OpEmptyMatch} }
	for _, i := range order {
		base := nodes[i]
		nsub := len(base.n.Sub)
		variants := 1 + nsub // replace node by empty; hoist each child
		switch base.n.Op {
		case syntax.OpConcat, syntax.OpAlternate:
			variants += nsub // drop each child
		case syntax.OpLiteral:
			variants += len(base.n.Rune) + 1 // drop each rune; clear fold flag
		case syntax.OpCharClass:
			variants++ // simplify to [a-c]
		}
		for v := 0; v < variants; v++ {
			if exhausted() {
				return ""
			}
			t := c11Clone(root)
			ref := c11Nodes(t)[i]
			node := ref.n
			replace := func(with *syntax.Regexp) {
				if ref.parent == nil {
					t = with
				} else {
					ref.parent.Sub[ref.idx] = with
				}
			}
			switch {
			case v == 0:
				if ref.parent == nil {
					continue
				}
				replace(empty())
			case v <= nsub:
				replace(node.Sub[v-1])
			default:
				k := v - 1 - nsub
				switch node.Op {
				case syntax.OpConcat, syntax.OpAlternate:
					if nsub <= 1 {
						continue
					}
					node.Sub = append(node.Sub[:k:k], node.Sub[k+1:]...)
				case syntax.OpLiteral:
					if k < len(node.Rune) {
						if len(node.Rune) <= 1 {
							continue
						}
						node.Rune = append(node.Rune[:k:k], node.Rune[k+1:]...)
					} else {
						if node.Flags&syntax.FoldCase == 0 {
							continue
						}
						node.Flags &^= syntax.FoldCase
					}
				case syntax.OpCharClass:
					node.Rune = []rune{'a', 'c'}
				}
			}
			cand := t.String()
			if seen[cand] || len(cand) >= len(pattern) {
				continue
			}
			seen[cand] = true
			if try(cand) {
				return cand
			}
		}
	}
	return ""
}

// c11Minimise shrinks (pattern, input) while still(pattern, input) holds. budget bounds the number
// of still() calls.
func c11Minimise(pattern, input string, budget int, still func(p, in string) bool) (string, string) {
	calls := 0
	try := func(p, in string) bool {
		if calls >= budget {
			return false
		}
		calls++
		return still(p, in)
	}
	// The AST round trip loses what only the original text has (the ^literal$ fast path is
	// recognised on the un-wrapped argument): keep the original text when the divergence does not
	// survive it, and shrink the input only.
	patternOK := false
	if re, err := c11Parse(pattern); err == nil {
		if s := re.String(); try(s, input) {
			patternOK = true
			if len(s) <= len(pattern) {
				pattern = s
			}
		}
	}
	for progress := true; progress && calls < budget; {
		progress = false
		if patternOK {
			for calls < budget {
				cand := c11Reduce(pattern, func(c string) bool { return try(c, input) }, func() bool { return calls >= budget })
				if cand == "" {
					break
				}
				pattern = cand
				progress = true
			}
		}
		// input: remove chunks, halving the chunk size
		for sz := (len(input) + 1) / 2; sz >= 1; sz /= 2 {
			for i := 0; i+sz <= len(input); {
				cand := input[:i] + input[i+sz:]
				if try(pattern, cand) {
					input = cand
					progress = true
				} else {
					i += sz
				}
			}
		}
		// input: canonicalise bytes
		for i := 0; i < len(input); i++ {
			for _, c := range []byte{'a', ' '} {
				if input[i] == c || (input[i] >= 'a' && input[i] <= 'z') {
					continue
				}
				cand := input[:i] + string(c) + input[i+1:]
				if try(pattern, cand) {
					input = cand
					progress = true
					break
				}
			}
		}
	}
	return pattern, input
}

// c11Features names the prefilter-relevant features of a (preferably minimised) pattern, computed
// on the simplified AST of the wrapped pattern, which is what the prefilter analyses.
func c11Features(pattern string) []string {
	re, err := c11Parse(pattern)
	if err != nil {
		return []string{"unparsable"}
	}
	re = re.Simplify()
	f := map[string]bool{}
	if c11EdgeOp(re, true) == syntax.OpBeginText {
		f["begin-text"] = true
	}
	if c11EdgeOp(re, false) == syntax.OpEndText {
		f["end-text"] = true
	}
	fold, nofold := false, false
	var walk func(n *syntax.Regexp)
	walk = func(n *syntax.Regexp) {
		switch n.Op {
		case syntax.OpLiteral:
			letters := false
			for _, r := range n.Rune {
				if r >= 0x80 {
					f["nonascii"] = true
				}
				if r == 0xFFFD {
					f["runeerror"] = true
				}
				if (r|0x20) >= 'a' && (r|0x20) <= 'z' || r >= 0x80 {
					letters = true
				}
			}
			if n.Flags&syntax.FoldCase != 0 {
				fold = true
			} else if letters {
				nofold = true
			}
		case syntax.OpCharClass:
			if n.Flags&syntax.FoldCase != 0 {
				fold = true
			}
		case syntax.OpAlternate:
			f["alt"] = true
		case syntax.OpQuest, syntax.OpStar:
			f["optional"] = true
		case syntax.OpBeginLine, syntax.OpEndLine:
			f["line-anchor"] = true
		case syntax.OpCapture:
			f["capture"] = true
		case syntax.OpConcat:
			if len(n.Sub) == 2 && n.Sub[0].Op == syntax.OpLiteral {
				s := n.Sub[1]
				for s.Op == syntax.OpCapture {
					s = s.Sub[0]
				}
				if s.Op == syntax.OpAlternate {
					f["trie"] = true
				}
			}
		}
		for _, s := range n.Sub {
			walk(s)
		}
	}
	walk(re)
	switch {
	case fold && nofold:
		f["mixed-ci"] = true
	case fold:
		f["ci"] = true
	}
	if f["trie"] {
		delete(f, "alt")
	}
	out := make([]string, 0, len(f))
	for k := range f {
		out = append(out, k)
	}
	sort.Strings(out)
	if len(out) == 0 {
		out = []string{"plain"}
	}
	return out
}

// c11EdgeOp returns the op found at the left (or right) edge of re the way the prefilter's anchor
// helpers look for it: through captures and the first (last) element of concatenations.
func c11EdgeOp(re *syntax.Regexp, left bool) syntax.Op {
	for {
		switch re.Op {
		case syntax.OpCapture:
			re = re.Sub[0]
		case syntax.OpConcat:
			if len(re.Sub) == 0 {
				return re.Op
			}
			if left {
				re = re.Sub[0]
			} else {
				re = re.Sub[len(re.Sub)-1]
			}
		default:
			return re.Op
		}
	}
}

var c11StageNames = map[int]string{0: "regex", 1: "minlen", 2: "literal", 3: "exact"}

func c11Class(kind string, stage int, pattern string) string {
	feats := c11Features(pattern)
	if stage == 3 {
		// the fast path is a plain (folded) string comparison of a ^literal$ pattern: of the
		// pattern's features only case folding and wrapping groups can matter
		keep := feats[:0]
		for _, f := range feats {
			if f == "ci" || f == "capture" || f == "nonascii" {
				keep = append(keep, f)
			}
		}
		if feats = keep; len(feats) == 0 {
			feats = []string{"plain"}
		}
	}
	return kind + ":" + c11StageNames[stage] + ":" + strings.Join(feats, "+")
}
