package props

import (
	"encoding/json"
	"fmt"
	"sort"
	"strings"

	"verif/internal/fw"
	"verif/internal/gen"
	"verif/internal/sl"
)

type c04Case struct {
	Program *sl.Program `json:"program,omitempty"`
	Text    string      `json:"text"`
	Req     *sl.Req     `json:"req"`
	Reps    int         `json:"reps"`
	// Disturbers are unrelated requests run on the long-lived WAF between repetitions (outcome ignored).
	Disturbers []*sl.Req `json:"disturbers,omitempty"`
	// NoModel: the reference is the first run on a fresh WAF instead of the model (rule sets with ctl actions).
	NoModel bool `json:"no_model,omitempty"`
}

// orderSignature captures the order in which one run delivered its match data (the adversary's move).
func c04OrderSignature(g *sl.ExecResult) string {
	var sb strings.Builder
	for _, f := range g.Fired {
		fmt.Fprintf(&sb, "%d:", f.ID)
		for _, t := range f.Matches {
			sb.WriteString(t.Key + "=" + t.Val + ",")
		}
		sb.WriteByte(';')
	}
	return sb.String()
}

func c04Judge(w *fw.W, c *c04Case) bool {
	long, err := sl.BuildText(c.Text)
	if err != nil {
		w.Count("build_errors", 1)
		w.Cover("build_error_samples", err.Error())
		return false
	}
	defer sl.CloseWAF(long)
	var exp *sl.Result
	modelBlind := false
	if c.NoModel {
		f, err := sl.BuildText(c.Text)
		if err != nil {
			return false
		}
		first := sl.Exec(f, c.Req)
		sl.CloseWAF(f)
		r := first.Result
		exp = &r
		w.Count("pairs_judged_against_fresh_waf_reference", 1)
	} else {
		exp = sl.Run(c.Program, c.Req)
		if exp.Ambiguous != "" {
			if exp.OrderDependent() {
				// the outcome legitimately depends on the visiting order of a multi-valued collection: not judged
				w.Count("ambiguous_skipped", 1)
				w.Cover("ambiguous_reasons", exp.Ambiguous)
				w.Count("ambiguous: "+exp.Ambiguous, 1)
				unjudgedRun(w, long, c, c.Req)
				return true
			}
			if !c04OrderInsensitive(c.Program) {
				// the model's own blind spot may hide an order dependence (e.g. a regex key it reads differently selects
				// one value for the model and two for the engine, and a later link tests MATCHED_VAR): judge only
				// rule sets that cannot express an order dependence at all
				w.Count("ambiguous_skipped", 1)
				w.Cover("ambiguous_reasons", exp.Ambiguous+" (rule set uses order-sensitive constructs)")
				w.Count("ambiguous: "+exp.Ambiguous+" (rule set uses order-sensitive constructs)", 1)
				unjudgedRun(w, long, c, c.Req)
				return true
			}
			// the model cannot predict the outcome (unpinned construct), but whatever the outcome is, it has to be
			// the same in every repetition: the first run on a fresh WAF becomes the reference. Counters and
			// captures the model could not follow are left out of the comparison.
			f, err := sl.BuildText(c.Text)
			if err != nil {
				return false
			}
			first := sl.Exec(f, c.Req)
			sl.CloseWAF(f)
			r := first.Result
			exp = &r
			modelBlind = true
			w.Count("pairs_model_blind_judged_by_self_differential", 1)
		}
	}
	opts := sl.CompareOpts{TX: !modelBlind}
	orders := map[string]int{}
	outcomes := map[string]int{}
	var firstBad *sl.ExecResult
	firstDiff := ""
	for i := 0; i < c.Reps; i++ {
		waf := long
		fresh := i%2 == 1
		if fresh {
			f, err := sl.BuildText(c.Text)
			if err != nil {
				w.Violation("fresh-waf-build-fails", "repetition", c, nil, nil, err.Error())
				return true
			}
			waf = f
		}
		if !fresh && len(c.Disturbers) > 0 {
			// unrelated traffic on the long-lived WAF before the repetition
			sl.Exec(waf, c.Disturbers[i%len(c.Disturbers)])
			w.Count("disturber_transactions", 1)
		}
		w.Trace(c)
		got := sl.Exec(waf, c.Req)
		if fresh {
			sl.CloseWAF(waf)
		}
		w.Eval(1)
		orders[c04OrderSignature(got)]++
		d := sl.Compare(exp, got, opts)
		outcomes[d]++
		if d != "" && firstBad == nil {
			firstBad, firstDiff = got, d
		}
	}
	w.Count("pairs", 1)
	w.Max("max_iteration_orders_seen_for_one_pair", int64(len(orders)))
	if len(orders) >= 2 {
		w.Count("pairs_with_varying_iteration_order", 1)
		w.Nontrivial(fw.Hash(c.Text) ^ fw.Hash(c.Req))
	}
	if firstBad != nil {
		good := outcomes[""]
		kinds := []string{}
		for d, n := range outcomes {
			if d != "" {
				kinds = append(kinds, fmt.Sprintf("%dx %s", n, d))
			}
		}
		sort.Strings(kinds)
		class := "outcome-varies-between-repetitions:" + sl.DiffKind(firstDiff)
		if c.NoModel {
			class = "outcome-differs-from-fresh-waf:" + sl.DiffKind(firstDiff)
		} else if modelBlind {
			class = "outcome-varies-between-repetitions:model-blind:" + sl.DiffKind(firstDiff)
		} else if good == 0 {
			class = "outcome-differs-from-model-in-every-repetition:" + sl.DiffKind(firstDiff)
		}
		w.Violation(class, "repetition-differential+reference-model", c, exp, firstBad,
			fmt.Sprintf("%d of %d repetitions agree with the reference outcome; divergent: %s", good, c.Reps, strings.Join(kinds, " | ")))
	}
	return true
}

// c04OrderInsensitive reports whether a rule set is syntactically unable to observe the order in which the values of
// a collection are visited: no MATCHED_VAR / MATCHED_VAR_NAME anywhere (targets or macros), no captures, no macro
// in an assignment.
func c04OrderInsensitive(p *sl.Program) bool {
	if p == nil {
		return false
	}
	bad := func(s string) bool {
		u := strings.ToUpper(s)
		return strings.Contains(u, "MATCHED_VAR") || strings.Contains(u, "%{TX.0") || strings.Contains(u, "%{TX.1") || strings.Contains(u, "%{TX.2")
	}
	for _, it := range p.Items {
		for lvl := it.Rule; lvl != nil; lvl = lvl.Chain {
			if lvl.Capture {
				return false
			}
			for _, t := range lvl.Targets {
				if bad(t.Var) {
					return false
				}
			}
			if lvl.Op != nil && bad(lvl.Op.Arg) {
				return false
			}
			if bad(lvl.Msg) || bad(lvl.LogData) {
				return false
			}
			for _, sv := range lvl.Setvars {
				if bad(sv.Key) || bad(sv.Val) || (sv.Kind == "=" && strings.Contains(sv.Val, "%{")) {
					return false
				}
			}
		}
	}
	return true
}

// c04SteerReq steers a random subset of the C05 configuration's rules (single-valued arguments only, so the
// outcome is independent of map order).
func c04SteerReq(r gen.R) *sl.Req {
	req := &sl.Req{Method: "GET", Path: "/c04", Status: 200, RespHeaders: []sl.KV{{K: "Content-Type", V: "text/plain"}}}
	for _, s := range c05Steers {
		if gen.Chance(r, 0.15) {
			v := "1"
			if s == "cap" {
				v = "abc"
			}
			req.Get = append(req.Get, sl.KV{K: s, V: v})
		}
	}
	if gen.Chance(r, 0.5) {
		req.RespHeaders = append(req.RespHeaders, sl.KV{K: "X-R", V: "1"})
	}
	return req
}

func init() {
	fw.Register(&fw.Prop{
		ID: "C04", Level: "exploration",
		Rule:        "rule sets from three generators (matching core, lists sharing transformation prefixes, counters/thresholds) x requests with names repeated within and across collections (2-8 keys per collection) are each executed N times, alternating a long-lived WAF (with unrelated disturber transactions in between) and a freshly built one; a fourth population uses a fully steerable configuration rich in ctl/skip/allow state with the first fresh-WAF run as reference; every repetition's order-independent outcome (interruption, ordered fired ids, per-rule match-data multisets, counters) must equal the reference outcome, i.e. all repetitions agree. The runtime's per-iteration map order is the adversary and is measured: the order in which match data arrived is recorded per repetition. Non-trivial: the pair showed at least two different arrival orders; distinct by (rule-set text, request).",
		Assumptions: []string{"observables that legitimately depend on which value of a multi-valued collection is visited first/last (captures, %{MATCHED_VAR} assignments after several matches, messages) are identified by the reference model and not compared; cases whose control flow depends on them are skipped and counted"},
		Required:    []string{"case_variant_pairs", "pairs_with_varying_iteration_order", "pairs", "disturber_transactions", "pairs_judged_against_fresh_waf_reference"},
		Plan: func(tier fw.Tier, seed int64) []fw.Batch {
			n := 16
			if tier == fw.Thorough {
				n = 64
			}
			var bs []fw.Batch
			for i := 0; i < n; i++ {
				bs = append(bs, fw.Batch{Index: i, Flavour: "plain", TimeoutS: 1800})
			}
			return bs
		},
		Run: func(w *fw.W, b fw.Batch) {
			progs, reqs, reps := 45, 4, 32
			if w.Tier == fw.Thorough {
				progs, reqs, reps = 300, 6, 128
			}
			for i := 0; i < progs; i++ {
				if i%4 == 3 {
					// fully steerable configuration rich in ctl / skip / allow state (shared with C05); reference = fresh WAF
					for j := 0; j < reqs; j++ {
						c := &c04Case{Text: c05Config, NoModel: true, Reps: reps, Req: c04SteerReq(w.Rng)}
						for k := 0; k < 3; k++ {
							c.Disturbers = append(c.Disturbers, c04SteerReq(w.Rng))
						}
						c04Judge(w, c)
					}
					continue
				}
				var p *sl.Program
				var mk func() *sl.Req
				if i%5 == 4 {
					p, mk = gen.CaseVariantProgram(w.Rng), func() *sl.Req { return gen.CaseVariantRequest(w.Rng) }
					text := p.Render()
					for j := 0; j < reqs; j++ {
						c := &c04Case{Program: p, Text: text, Req: mk(), Reps: reps, Disturbers: []*sl.Req{mk()}}
						if !c04Judge(w, c) {
							break
						}
					}
					w.Count("case_variant_pairs", reqs)
					continue
				}
				switch i % 3 {
				case 0:
					p, mk = gen.MatchProgram(w.Rng), func() *sl.Req { return gen.Request(w.Rng) }
				case 1:
					p, mk = gen.ShareProgram(w.Rng), func() *sl.Req { return gen.ShareRequest(w.Rng) }
				default:
					p, mk = gen.ActionProgram(w.Rng), func() *sl.Req { return gen.ActionRequest(w.Rng) }
				}
				text := p.Render()
				for j := 0; j < reqs; j++ {
					c := &c04Case{Program: p, Text: text, Req: mk(), Reps: reps, Disturbers: []*sl.Req{mk(), mk()}}
					if !c04Judge(w, c) {
						break
					}
					if w.WantSample() && j == 0 {
						w.Sample(map[string]any{"rules": text, "request": c.Req, "repetitions": reps})
					}
				}
			}
		},
		Replay: func(w *fw.W, raw json.RawMessage) {
			var c c04Case
			if json.Unmarshal(raw, &c) != nil {
				return
			}
			if c.Reps < 256 {
				c.Reps = 256
			}
			c04Judge(w, &c)
		},
	})
}
