package props

import (
	"encoding/json"
	"fmt"

	"verif/internal/fw"
	"verif/internal/gen"
	"verif/internal/sl"
)

func c09Cover(w *fw.W, c *flowCase) func(*sl.Result) {
	return func(exp *sl.Result) {
		multi := false
		for _, f := range exp.Fired {
			n := len(f.Matches)
			if n > 8 {
				n = 8
			}
			w.Count(fmt.Sprintf("matches_per_fired_rule:%d", n), 1)
			if len(f.Matches) > 1 {
				multi = true
			}
		}
		for _, it := range c.Program.Items {
			if it.Rule == nil {
				continue
			}
			for lvl := it.Rule; lvl != nil; lvl = lvl.Chain {
				for _, sv := range lvl.Setvars {
					w.Count("setvar_form:"+sv.Kind, 1)
				}
				if lvl.Severity >= 0 {
					w.Cover("severities_seen", fmt.Sprint(lvl.Severity))
				}
			}
		}
		if exp.HS != 255 {
			w.Count("highest_severity_set", 1)
		}
		if len(exp.TX) > 1 {
			w.Count("cases_with_counters", 1)
		}
		if exp.Intr != nil {
			w.Count("threshold_or_chain_interruptions", 1)
		}
		if multi {
			w.Count("cases_with_multi_match_rule", 1)
			w.Nontrivial(fw.Hash(c.Text) ^ fw.Hash(c.Req))
		}
	}
}

func c09Classify(d string, exp *sl.Result, got *sl.ExecResult) string {
	return "actions-mismatch:" + sl.DiffKind(d)
}

func init() {
	opts := sl.CompareOpts{Evaluated: true, TX: true, Messages: true, Captures: true}
	fw.Register(&fw.Prop{
		ID: "C09", Level: "exploration",
		Rule: "rule sets whose rules match 0..k values of one request (repeated and case-variant argument names, regex keys, several targets, multiMatch, chains) and carry setvar increments/decrements/assignments/deletions/flags with macros in keys and values, capture + %{TX.n}, severities, msg/logdata macros, plus threshold rules comparing the counters (some blocking); final TX, HIGHEST_SEVERITY, fired rules, interruption and single-match messages are compared with the reference interpreter. Non-trivial: some fired rule had at least two matches (per-match multiplicity matters); distinct by hash of (rule-set text, request).",
		Assumptions: []string{"reference action semantics in internal/sl/model.go: non-disruptive actions once per match at the time of the match, starter's disruptive/flow actions once per completed chain, +N/-N integer arithmetic with absent = 0, keys lower-cased",
			"values that depend on the visiting order of a multi-valued collection (last MATCHED_VAR, captures after several matches) are tracked by the model and not compared"},
		Required: []string{"cases_with_multi_match_rule", "highest_severity_set", "threshold_or_chain_interruptions", "setvar_form:+", "setvar_form:-", "setvar_form:=", "setvar_form:!", "setvar_form:flag"},
		Plan: func(tier fw.Tier, seed int64) []fw.Batch {
			n := 16
			if tier == fw.Thorough {
				n = 64
			}
			var bs []fw.Batch
			for i := 0; i < n; i++ {
				bs = append(bs, fw.Batch{Index: i, Flavour: "plain", TimeoutS: 1500})
			}
			return bs
		},
		Run: func(w *fw.W, b fw.Batch) {
			progs, reqs := 900, 24
			if w.Tier == fw.Thorough {
				progs, reqs = 3000, 48
			}
			for i := 0; i < progs; i++ {
				p := gen.ActionProgram(w.Rng)
				text := p.Render()
				for j := 0; j < reqs; j++ {
					c := &flowCase{Program: p, Text: text, Req: gen.ActionRequest(w.Rng)}
					if !flowJudge(w, "C09", c, opts, c09Classify, c09Cover(w, c)) {
						break
					}
					if w.WantSample() && j == 0 {
						w.Sample(map[string]any{"rules": text, "request": c.Req})
					}
				}
			}
		},
		Replay: func(w *fw.W, raw json.RawMessage) {
			var c flowCase
			if json.Unmarshal(raw, &c) != nil {
				return
			}
			if c.Text == "" && c.Program != nil {
				c.Text = c.Program.Render()
			}
			flowJudge(w, "C09", &c, opts, c09Classify, c09Cover(w, &c))
		},
	})
}
