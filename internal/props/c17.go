package props

import (
	"encoding/json"
	"fmt"
	"sort"
	"strconv"
	"strings"

	"verif/internal/fw"
	"verif/internal/gen"
	"verif/internal/sl"
)

// A C17 case: configuration A (base rules + exclusion/update directives, or ctl carrier rules) and the
// explicitly rewritten configuration B, compared over one request.
type c17Case struct {
	TextA string   `json:"text_a"`
	TextB string   `json:"text_b"`
	Req   *sl.Req  `json:"req"`
	Kinds []string `json:"kinds"`
	// RejectA: configuration A names, by a single id, a rule an earlier directive removed ("rule not found" expected)
	RejectA bool `json:"reject_a,omitempty"`
	// Follow-up isolation probe: same WAF A, second request, compared with BaseText on a fresh WAF.
	BaseText string  `json:"base_text,omitempty"`
	Req2     *sl.Req `json:"req2,omitempty"`
}

type c17Mod struct {
	Kind string // removeById removeByTag removeByMsg updTargetById updTargetByTag updActionById
	IDs  []int  // explicit member ids (for B)
	Text string // directive text (for A)
	Tag  string
	Msg  string
	// target / action payload
	Sel     *sl.Sel
	Disr    string
	Status  int
	Setvar  *sl.Setvar
	AsCtl   bool // expressed as a ctl action on a carrier rule
	CtlSpec string
}

var c17Tags = []string{"t1", "t2", "attack-sqli", "OWASP_CRS/X"}
var c17Msgs = []string{"m one", "m-two", "Third msg"}

func c17Base(r gen.R) (*sl.Program, []string) {
	p := &sl.Program{Engine: "On"}
	var steers []string
	n := 4 + r.IntN(9)
	id := 100
	for i := 0; i < n; i++ {
		id += 1 + r.IntN(3)
		a, b := fmt.Sprintf("a%d", id), fmt.Sprintf("b%d", id)
		steers = append(steers, a, b, fmt.Sprintf("x%d", id))
		rule := &sl.Rule{ID: id, Phase: 1 + r.IntN(4), Severity: -1,
			Targets: []sl.Sel{{Var: "ARGS_GET", Kind: 1, Key: a}, {Var: "ARGS_POST", Kind: 1, Key: b}},
			Op:      &sl.Op{Name: "streq", Arg: "1"},
			Setvars: []sl.Setvar{{Key: fmt.Sprintf("n%d", id), Kind: "+", Val: "1"}}}
		if gen.Chance(r, 0.3) {
			rule.Targets = []sl.Sel{{Var: "ARGS", Kind: 2, Key: fmt.Sprintf("^[ab]%d$", id)}}
		}
		if gen.Chance(r, 0.25) {
			rule.Targets = []sl.Sel{{Var: "ARGS_GET"}}
			rule.Op = &sl.Op{Name: "streq", Arg: fmt.Sprintf("v%d", id)}
		}
		if gen.Chance(r, 0.12) {
			// a counting target: fires when the argument is absent (or present once); removing exactly that
			// target must leave "count 0", not an unevaluated rule
			rule.Targets = []sl.Sel{{Var: "ARGS_GET", Kind: 1, Key: a, Count: true}}
			rule.Op = &sl.Op{Name: "eq", Arg: gen.Pick(r, []string{"0", "0", "1"})}
		}
		nt := r.IntN(3)
		for k := 0; k < nt; k++ {
			t := gen.Pick(r, c17Tags)
			dup := false
			for _, e := range rule.Tags {
				dup = dup || e == t
			}
			if !dup {
				rule.Tags = append(rule.Tags, t)
			}
		}
		if gen.Chance(r, 0.6) {
			rule.Msg = gen.Pick(r, c17Msgs)
		}
		if gen.Chance(r, 0.15) {
			rule.Disruptive, rule.Status = "deny", gen.Pick(r, []int{403, 406})
		}
		if gen.Chance(r, 0.15) {
			// a removed rule inside a skip window must not use up a slot of the window
			rule.Skip = 1 + r.IntN(3)
		}
		if gen.Chance(r, 0.25) {
			l := fmt.Sprintf("l%d", id)
			steers = append(steers, l)
			rule.Chain = &sl.Rule{Phase: rule.Phase, Severity: -1, Targets: []sl.Sel{{Var: "ARGS_GET", Kind: 1, Key: l}}, Op: &sl.Op{Name: "streq", Arg: "1"},
				Setvars: []sl.Setvar{{Key: fmt.Sprintf("c%d", id), Kind: "+", Val: "1"}}}
			if gen.Chance(r, 0.4) {
				// a third chain member: run-time target removals reach every member of the chain
				l3 := fmt.Sprintf("m%d", id)
				steers = append(steers, l3)
				rule.Chain.Chain = &sl.Rule{Phase: rule.Phase, Severity: -1, Targets: []sl.Sel{{Var: "ARGS_GET", Kind: 1, Key: l3}, {Var: "ARGS_GET", Kind: 1, Key: a}}, Op: &sl.Op{Name: "streq", Arg: "1"},
					Setvars: []sl.Setvar{{Key: fmt.Sprintf("d%d", id), Kind: "+", Val: "1"}}}
				if gen.Chance(r, 0.5) {
					// only the third member reads the collection a run-time removal will name: the starter reads body
					// arguments, the second member a request header
					h := fmt.Sprintf("h%d", id)
					steers = append(steers, h)
					rule.Targets = []sl.Sel{{Var: "ARGS_POST", Kind: 1, Key: b}}
					rule.Op = &sl.Op{Name: "streq", Arg: "1"}
					rule.Chain.Targets = []sl.Sel{{Var: "REQUEST_HEADERS", Kind: 1, Key: h}}
				}
			}
		}
		p.Items = append(p.Items, sl.Item{Rule: rule})
	}
	return p, steers
}

func c17Rules(p *sl.Program) []*sl.Rule {
	var out []*sl.Rule
	for _, it := range p.Items {
		if it.Rule != nil {
			out = append(out, it.Rule)
		}
	}
	return out
}

func hasTag(r *sl.Rule, t string) bool {
	for _, x := range r.Tags {
		if x == t {
			return true
		}
	}
	return false
}

// c17PickIDs draws ids, several ids and ranges; returns the directive argument and the member ids.
func c17PickIDs(r gen.R, rules []*sl.Rule, allowList bool) (string, []int) {
	ids := make([]int, len(rules))
	for i, ru := range rules {
		ids[i] = ru.ID
	}
	sort.Ints(ids)
	member := map[int]int{}
	var parts []string
	n := 1
	if allowList {
		n = 1 + r.IntN(3)
	}
	for k := 0; k < n; k++ {
		if gen.Chance(r, 0.5) {
			id := gen.Pick(r, ids)
			parts = append(parts, fmt.Sprint(id))
			member[id]++
		} else {
			i, j := r.IntN(len(ids)), r.IntN(len(ids))
			if i > j {
				i, j = j, i
			}
			lo, hi := ids[i]-r.IntN(2), ids[j]+r.IntN(2)
			if lo < 1 {
				lo = 1
			}
			if lo == hi {
				hi++
			}
			parts = append(parts, fmt.Sprintf("%d-%d", lo, hi))
			for _, id := range ids {
				if id >= lo && id <= hi {
					member[id]++
				}
			}
		}
	}
	// an id named by several parts of one directive is enumerated (and therefore updated) once per part
	var out []int
	for id, n := range member {
		for k := 0; k < n; k++ {
			out = append(out, id)
		}
	}
	sort.Ints(out)
	return strings.Join(parts, " "), out
}

func c17TargetSel(r gen.R, ru *sl.Rule) *sl.Sel {
	// positive: a new selectable target; negative: exclude one of the rule's own keys (string or regex)
	if gen.Chance(r, 0.5) {
		return &sl.Sel{Var: gen.Pick(r, []string{"ARGS_GET", "REQUEST_HEADERS"}), Kind: 1, Key: fmt.Sprintf("x%d", ru.ID)}
	}
	if gen.Chance(r, 0.5) {
		return &sl.Sel{Var: "ARGS_GET", Kind: 1, Key: fmt.Sprintf("a%d", ru.ID), Excl: true}
	}
	return &sl.Sel{Var: gen.Pick(r, []string{"ARGS_GET", "ARGS"}), Kind: 2, Key: fmt.Sprintf(gen.Pick(r, []string{"^a%d", "^a%d", "^\\D%d$", "^a%d\\b"}), ru.ID), Excl: true}
}

func c17GenMods(r gen.R, p *sl.Program) []c17Mod {
	rules := c17Rules(p)
	var mods []c17Mod
	n := 1 + r.IntN(3)
	for k := 0; k < n; k++ {
		switch r.IntN(6) {
		case 0:
			arg, ids := c17PickIDs(r, rules, true)
			mods = append(mods, c17Mod{Kind: "removeById", IDs: ids, Text: "SecRuleRemoveById " + arg})
		case 1:
			t := gen.Pick(r, c17Tags)
			mods = append(mods, c17Mod{Kind: "removeByTag", Tag: t, Text: "SecRuleRemoveByTag " + t})
		case 2:
			m := gen.Pick(r, c17Msgs)
			mods = append(mods, c17Mod{Kind: "removeByMsg", Msg: m, Text: "SecRuleRemoveByMsg " + m})
		case 3:
			arg, ids := c17PickIDs(r, rules, true)
			if len(ids) == 0 {
				continue
			}
			base := rules[0]
			for _, ru := range rules {
				if ru.ID == ids[0] {
					base = ru
				}
			}
			sel := c17TargetSel(r, base)
			mods = append(mods, c17Mod{Kind: "updTargetById", IDs: ids, Sel: sel, Text: fmt.Sprintf("SecRuleUpdateTargetById %s \"%s\"", arg, sel.Render())})
		case 4:
			t := gen.Pick(r, c17Tags)
			sel := c17TargetSel(r, gen.Pick(r, rules))
			mods = append(mods, c17Mod{Kind: "updTargetByTag", Tag: t, Sel: sel, Text: fmt.Sprintf("SecRuleUpdateTargetByTag %s \"%s\"", t, sel.Render())})
		default:
			arg, ids := c17PickIDs(r, rules, true)
			if len(ids) == 0 {
				continue
			}
			m := c17Mod{Kind: "updActionById", IDs: ids}
			var acts []string
			if gen.Chance(r, 0.6) {
				m.Disr = gen.Pick(r, []string{"deny", "pass"})
				acts = append(acts, m.Disr)
				if m.Disr == "deny" && gen.Chance(r, 0.6) {
					m.Status = gen.Pick(r, []int{418, 429})
					acts = append(acts, fmt.Sprintf("status:%d", m.Status))
				}
			}
			if len(acts) == 0 || gen.Chance(r, 0.5) {
				m.Setvar = &sl.Setvar{Key: "upd", Kind: "+", Val: "1"}
				acts = append(acts, "setvar:tx.upd=+1")
			}
			m.Text = fmt.Sprintf("SecRuleUpdateActionById %s \"%s\"", arg, strings.Join(acts, ","))
			mods = append(mods, m)
		}
	}
	return mods
}

func cloneRule(r *sl.Rule) *sl.Rule {
	if r == nil {
		return nil
	}
	c := *r
	c.Targets = append([]sl.Sel{}, r.Targets...)
	c.Setvars = append([]sl.Setvar{}, r.Setvars...)
	c.Tags = append([]string{}, r.Tags...)
	c.Ctl = append([]string{}, r.Ctl...)
	c.Chain = cloneRule(r.Chain)
	return &c
}

func inIDs(ids []int, id int) bool {
	for _, x := range ids {
		if x == id {
			return true
		}
	}
	return false
}

// c17Apply rewrites a rule according to one modification; returns nil when the rule is removed.
func c17Apply(ru *sl.Rule, m c17Mod) *sl.Rule {
	hit := false
	times := 1
	switch m.Kind {
	case "removeById", "updTargetById", "updActionById":
		hit = inIDs(m.IDs, ru.ID)
		times = 0
		for _, x := range m.IDs {
			if x == ru.ID {
				times++
			}
		}
	case "removeByTag", "updTargetByTag":
		hit = hasTag(ru, m.Tag)
	case "removeByMsg":
		hit = ru.Msg != "" && ru.Msg == m.Msg
	}
	if !hit {
		return ru
	}
	switch m.Kind {
	case "removeById", "removeByTag", "removeByMsg":
		return nil
	case "updTargetById", "updTargetByTag":
		for k := 0; k < times; k++ {
			ru.Targets = append(ru.Targets, *m.Sel)
		}
	case "updActionById":
		if m.Disr != "" {
			ru.Disruptive = m.Disr
			if m.Disr != "deny" {
				// status keeps its value but is irrelevant for pass
			}
		}
		if m.Status != 0 {
			ru.Status = m.Status
		}
		if m.Setvar != nil {
			for k := 0; k < times; k++ {
				ru.Setvars = append(ru.Setvars, *m.Setvar)
			}
		}
	}
	return ru
}

// an exclusion only applies to targets of the same variable that are already listed: an exclusion on a
// variable the rule does not use is a no-op in both forms, so B can carry it verbatim.

func c17Build(r gen.R) (*c17Case, bool) {
	base, steers := c17Base(r)
	c := &c17Case{}
	baseText := base.Render()
	if gen.Chance(r, 0.55) {
		// configuration-time directives
		mods := c17GenMods(r, base)
		if len(mods) == 0 {
			return nil, false
		}
		a := *base
		a.Items = append([]sl.Item{}, base.Items...)
		b := &sl.Program{Engine: "On"}
		for _, m := range mods {
			a.Items = append(a.Items, sl.Item{Raw: m.Text})
			c.Kinds = append(c.Kinds, m.Kind)
		}
		for _, it := range base.Items {
			ru := cloneRule(it.Rule)
			for _, m := range mods {
				if ru == nil {
					break
				}
				ru = c17Apply(ru, m)
			}
			if ru != nil {
				b.Items = append(b.Items, sl.Item{Rule: ru})
			}
		}
		// a single id named by an update directive after an earlier directive removed that rule: "not found"
		gone := map[int]bool{}
		for _, m := range mods {
			if strings.HasPrefix(m.Kind, "upd") && strings.HasSuffix(m.Kind, "ById") && len(m.IDs) == 1 && gone[m.IDs[0]] && c17SingleID(m.Text) {
				c.RejectA = true
			}
			for _, it := range base.Items {
				if !gone[it.Rule.ID] && c17Apply(cloneRule(it.Rule), m) == nil {
					gone[it.Rule.ID] = true
				}
			}
		}
		// replacement rules: an id freed by a removal directive is used again by a rule defined afterwards
		if len(gone) > 0 && gen.Chance(r, 0.4) {
			var ids []int
			for id := range gone {
				ids = append(ids, id)
			}
			sort.Ints(ids)
			id := gen.Pick(r, ids)
			name := fmt.Sprintf("r%d", id)
			steers = append(steers, name)
			rep := &sl.Rule{ID: id, Phase: 1 + r.IntN(4), Severity: -1, Targets: []sl.Sel{{Var: "ARGS_GET", Kind: 1, Key: name}},
				Op: &sl.Op{Name: "streq", Arg: "1"}, Setvars: []sl.Setvar{{Key: fmt.Sprintf("rep%d", id), Kind: "+", Val: "1"}}}
			a.Items = append(a.Items, sl.Item{Rule: rep})
			b.Items = append(b.Items, sl.Item{Rule: rep})
			c.Kinds = append(c.Kinds, "id-reused-after-removal")
		}
		c.TextA, c.TextB = a.Render(), b.Render()
		c.Req = c17Request(r, steers, base)
		return c, true
	}
	// run-time ctl counterparts on 1-3 steerable carrier rules placed at random positions and phases
	// In some cases one rule gets one of its tags from a SecRuleUpdateActionById directive at the end of configuration
	// A instead of carrying it itself (B and the follow-up reference carry it in the rule): a run-time removal by
	// tag has to see tags wherever they came from.
	lateID, lateTag := 0, ""
	if gen.Chance(r, 0.3) {
		ru := gen.Pick(r, c17Rules(base))
		t := gen.Pick(r, c17Tags)
		if !hasTag(ru, t) {
			ru.Tags = append(ru.Tags, t)
			lateID, lateTag = ru.ID, t
			c.Kinds = append(c.Kinds, "ctl:tag-from-update-action")
		}
	}
	rules := c17Rules(base)
	nc := 1
	if gen.Chance(r, 0.45) {
		nc = 2 + r.IntN(2)
	}
	var cars []*c17Car
	for k := 0; k < nc; k++ {
		var m c17Mod
		var ctl string
		switch r.IntN(7) {
		case 0, 6:
			arg, ids := c17PickIDs(r, rules, false)
			m = c17Mod{Kind: "removeById", IDs: ids}
			ctl = "ruleRemoveById=" + arg
		case 1:
			t := gen.Pick(r, c17Tags)
			m = c17Mod{Kind: "removeByTag", Tag: t}
			ctl = "ruleRemoveByTag=" + t
		case 2:
			msg := gen.Pick(r, c17Msgs)
			m = c17Mod{Kind: "removeByMsg", Msg: msg}
			ctl = "ruleRemoveByMsg=" + msg
		case 3:
			arg, ids := c17PickIDs(r, rules, false)
			if len(ids) == 0 {
				return nil, false
			}
			sel := c17CtlTarget(r, ids[0])
			m = c17Mod{Kind: "updTargetById", IDs: ids, Sel: sel}
			ctl = fmt.Sprintf("ruleRemoveTargetById=%s;%s", arg, strings.TrimPrefix(sel.Render(), "!"))
		case 4:
			t := gen.Pick(r, c17Tags)
			sel := c17CtlTarget(r, gen.Pick(r, rules).ID)
			m = c17Mod{Kind: "updTargetByTag", Tag: t, Sel: sel}
			ctl = fmt.Sprintf("ruleRemoveTargetByTag=%s;%s", t, strings.TrimPrefix(sel.Render(), "!"))
		default:
			msg := gen.Pick(r, c17Msgs)
			sel := c17CtlTarget(r, gen.Pick(r, rules).ID)
			m = c17Mod{Kind: "updTargetByMsg", Msg: msg, Sel: sel}
			ctl = fmt.Sprintf("ruleRemoveTargetByMsg=%s;%s", msg, strings.TrimPrefix(sel.Render(), "!"))
		}
		c.Kinds = append(c.Kinds, "ctl:"+m.Kind)
		name := fmt.Sprintf("ctl%d", k)
		car := &sl.Rule{ID: 9000 + k, Phase: 1 + r.IntN(4), Severity: -1, Disruptive: "pass", Targets: []sl.Sel{{Var: "ARGS_GET", Kind: 1, Key: name}},
			Op: &sl.Op{Name: "streq", Arg: "1"}, Ctl: []string{ctl}}
		plain := cloneRule(car)
		plain.Ctl = nil
		cars = append(cars, &c17Car{rule: car, plain: plain, mod: m, pos: r.IntN(len(base.Items) + 1), name: name})
	}
	if nc > 1 {
		c.Kinds = append(c.Kinds, "ctl:several")
	}
	c.Req = c17Request(r, steers, base)
	for _, car := range cars {
		if gen.Chance(r, 0.8) {
			c.Req.Get = append(c.Req.Get, sl.KV{K: car.name, V: "1"})
		}
	}
	// order of the items of configuration A: base items with the carriers inserted
	type slot struct {
		base *sl.Rule
		car  *c17Car
	}
	var order []slot
	for i := 0; i <= len(base.Items); i++ {
		for _, car := range cars {
			if car.pos == i {
				order = append(order, slot{car: car})
			}
		}
		if i < len(base.Items) {
			order = append(order, slot{base: base.Items[i].Rule})
		}
	}
	idxOf := map[*c17Car]int{}
	for i, sl_ := range order {
		if sl_.car != nil {
			idxOf[sl_.car] = i
		}
	}
	// build B for a given set of carriers whose ctl took effect
	buildB := func(fired map[*c17Car]bool) *sl.Program {
		b := &sl.Program{Engine: "On"}
		for i, sl_ := range order {
			if sl_.car != nil {
				b.Items = append(b.Items, sl.Item{Rule: sl_.car.plain})
				continue
			}
			ru := cloneRule(sl_.base)
			// apply the ctls in the order in which they are executed (phase, then position)
			for _, car := range carsInEvalOrder(cars, idxOf) {
				if ru == nil || !fired[car] {
					continue
				}
				after := ru.Phase > car.rule.Phase || (ru.Phase == car.rule.Phase && i > idxOf[car])
				if !after {
					continue
				}
				if car.mod.Kind == "updTargetByMsg" {
					if ru.Msg != "" && ru.Msg == car.mod.Msg {
						ru.Targets = append(ru.Targets, *car.mod.Sel)
						c17ExcludeInChain(ru, car.mod.Sel, 1)
					}
				} else {
					times := 0
					switch car.mod.Kind {
					case "updTargetById":
						for _, x := range car.mod.IDs {
							if x == ru.ID {
								times++
							}
						}
					case "updTargetByTag":
						if hasTag(ru, car.mod.Tag) {
							times = 1
						}
					}
					ru = c17Apply(ru, car.mod)
					if ru != nil && times > 0 {
						// a run-time target removal is stored under the id of the chain starter and looked up by every
						// member of the chain
						c17ExcludeInChain(ru, car.mod.Sel, times)
					}
				}
			}
			if ru != nil {
				b.Items = append(b.Items, sl.Item{Rule: ru})
			}
		}
		return b
	}
	// a ctl takes effect only if its carrier rule fires, which depends on the rules evaluated before it (skip windows,
	// earlier removals): decide carrier by carrier, in evaluation order, with the reference model
	fired := map[*c17Car]bool{}
	for _, car := range carsInEvalOrder(cars, idxOf) {
		res := sl.Run(buildB(fired), c.Req)
		if res.Ambiguous != "" {
			return nil, false
		}
		for _, f := range res.Fired {
			if f.ID == car.rule.ID {
				fired[car] = true
			}
		}
	}
	a := &sl.Program{Engine: "On"}
	q := &sl.Program{Engine: "On"}
	for _, sl_ := range order {
		if sl_.car != nil {
			a.Items = append(a.Items, sl.Item{Rule: sl_.car.rule})
			q.Items = append(q.Items, sl.Item{Rule: sl_.car.plain})
		} else {
			ra := sl_.base
			if lateTag != "" && ra.ID == lateID {
				ra = cloneRule(ra)
				ra.Tags = ra.Tags[:len(ra.Tags)-1]
			}
			a.Items = append(a.Items, sl.Item{Rule: ra})
			q.Items = append(q.Items, sl.Item{Rule: sl_.base})
		}
	}
	if lateTag != "" {
		a.Items = append(a.Items, sl.Item{Raw: fmt.Sprintf("SecRuleUpdateActionById %d \"tag:%s\"", lateID, lateTag)})
	}
	c.TextA, c.TextB = a.Render(), buildB(fired).Render()
	// isolation follow-up: the next transaction on WAF A (without any ctl firing) behaves like the base rules
	c.BaseText = q.Render()
	_ = baseText
	c.Req2 = c17Request(r, steers, base)
	return c, true
}

type c17Car struct {
	rule  *sl.Rule
	plain *sl.Rule
	mod   c17Mod
	pos   int // inserted before base.Items[pos]
	name  string
}

// carsInEvalOrder sorts the carriers by the moment their rule is evaluated (phase, then position).
func carsInEvalOrder(cars []*c17Car, idxOf map[*c17Car]int) []*c17Car {
	out := append([]*c17Car{}, cars...)
	sort.SliceStable(out, func(i, j int) bool {
		if out[i].rule.Phase != out[j].rule.Phase {
			return out[i].rule.Phase < out[j].rule.Phase
		}
		return idxOf[out[i]] < idxOf[out[j]]
	})
	return out
}

// c17ExcludeInChain adds the exclusion to the chain members below the starter (cloneRule copies the chain).
func c17ExcludeInChain(ru *sl.Rule, sel *sl.Sel, times int) {
	for l := ru.Chain; l != nil; l = l.Chain {
		for k := 0; k < times; k++ {
			l.Targets = append(l.Targets, *sel)
		}
	}
}

// c17CtlTarget: a ctl:ruleRemoveTarget* target (always an exclusion of a string or regex key).
func c17CtlTarget(r gen.R, id int) *sl.Sel {
	if gen.Chance(r, 0.25) {
		// the key only a chain member (second or third) reads
		return &sl.Sel{Var: "ARGS_GET", Kind: 1, Key: fmt.Sprintf("%s%d", gen.Pick(r, []string{"l", "m"}), id), Excl: true}
	}
	if gen.Chance(r, 0.6) {
		return &sl.Sel{Var: "ARGS_GET", Kind: 1, Key: fmt.Sprintf("a%d", id), Excl: true}
	}
	// regular-expression keys, some with escape classes (upper-case ones included: the text of a pattern is not
	// something to fold)
	pat := gen.Pick(r, []string{"^[ab]%d$", "^[ab]%d$", "^\\D%d$", "^[ab]\\d*%d$", "^\\S%d\\b", "^a%d\\B|^b\\d*%d$"})
	return &sl.Sel{Var: gen.Pick(r, []string{"ARGS_GET", "ARGS"}), Kind: 2, Key: strings.ReplaceAll(pat, "%d", strconv.Itoa(id)), Excl: true}
}

// c17SingleID: the directive names exactly one id (no list, no range).
func c17SingleID(text string) bool {
	f := strings.Fields(text)
	if len(f) < 2 {
		return false
	}
	_, err := strconv.Atoi(f[1])
	return err == nil && (len(f) == 2 || strings.HasPrefix(f[2], "\""))
}

func c17Request(r gen.R, steers []string, base *sl.Program) *sl.Req {
	req := &sl.Req{Method: "POST", Path: "/x", Status: 200}
	for _, s := range gen.Subset(r, steers, gen.Pick(r, []float64{0.5, 0.8, 0.3})) {
		switch s[0] {
		case 'b':
			req.Post = append(req.Post, sl.KV{K: s, V: "1"})
		case 'h':
			req.Headers = append(req.Headers, sl.KV{K: s, V: "1"})
		case 'x':
			if gen.Chance(r, 0.5) {
				req.Get = append(req.Get, sl.KV{K: s, V: "1"})
			} else {
				req.Headers = append(req.Headers, sl.KV{K: s, V: "1"})
			}
		default:
			req.Get = append(req.Get, sl.KV{K: s, V: "1"})
		}
	}
	for _, ru := range c17Rules(base) {
		if ru.Op != nil && strings.HasPrefix(ru.Op.Arg, "v") && gen.Chance(r, 0.5) {
			req.Get = append(req.Get, sl.KV{K: gen.Pick(r, []string{"any", "other"}), V: ru.Op.Arg})
		}
	}
	return req
}

func c17Canon(e *sl.ExecResult) *sl.Result {
	r := e.Result
	return &r
}

func c17Judge(w *fw.W, c *c17Case) {
	w.Trace(c)
	var wafA, wafB interface{}
	_ = wafA
	_ = wafB
	a, errA := sl.BuildText(c.TextA)
	var pA *fw.PanicInfo
	if errA != nil {
		// a configuration whose directive form is rejected: the rewritten form must be judged only when A builds
		w.Count("config_a_rejected", 1)
		first := strings.SplitN(errA.Error(), "\n", 2)[0]
		w.Cover("config_a_errors", first)
		if !c.RejectA || !strings.Contains(first, "not found") {
			// nothing in A is invalid: every directive names rules by list, range, tag or message, or a single id that exists
			if b, errB := sl.BuildText(c.TextB); errB == nil {
				sl.CloseWAF(b)
				w.Violation("directive-form-rejected:"+c17KindClass(c.Kinds), "construction differential A (directives) vs B (rewritten rules)", c, "both configurations build", first, "configuration A is rejected although the rewritten rule set builds")
			}
		}
		return
	}
	defer sl.CloseWAF(a)
	b, errB := sl.BuildText(c.TextB)
	if errB != nil {
		w.Count("build_errors", 1)
		w.Cover("build_error_samples", errB.Error())
		return
	}
	defer sl.CloseWAF(b)
	_ = pA
	ga := sl.Exec(a, c.Req)
	gb := sl.Exec(b, c.Req)
	w.Eval(1)
	kind := strings.Join(c.Kinds, "+")
	if d := sl.Compare(c17Canon(gb), ga, sl.CompareOpts{TX: true}); d != "" {
		w.Violation("directive-vs-rewritten:"+c17KindClass(c.Kinds)+":"+sl.DiffKind(d), "differential A (directives) vs B (rewritten rules)", c, gb, ga, d)
		return
	}
	for _, k := range c.Kinds {
		w.Count("kind:"+k, 1)
	}
	if len(ga.Fired) > 0 && c.TextA != c.TextB {
		w.Nontrivial(fw.Hash(c.TextA) ^ fw.Hash(c.Req))
	}
	if c.Req2 != nil {
		base, err := sl.BuildText(c.BaseText)
		if err == nil {
			defer sl.CloseWAF(base)
			g2 := sl.Exec(a, c.Req2)
			gbase := sl.Exec(base, c.Req2)
			w.Count("isolation_followups", 1)
			if d := sl.Compare(c17Canon(gbase), g2, sl.CompareOpts{TX: true}); d != "" {
				w.Violation("ctl-leaks-into-next-transaction:"+kind+":"+sl.DiffKind(d), "follow-up transaction differential", c, gbase, g2, d)
			}
		}
	}
}

func c17KindClass(kinds []string) string {
	m := map[string]bool{}
	for _, k := range kinds {
		m[k] = true
	}
	var ks []string
	for k := range m {
		ks = append(ks, k)
	}
	sort.Strings(ks)
	return strings.Join(ks, "+")
}

func init() {
	fw.Register(&fw.Prop{
		ID: "C17", Level: "exploration",
		Rule:        "base rule sets of 4-12 rules (ids, tags, messages incl. rules without msg, chains, some blocking) combined with 1-3 SecRuleRemoveById/ByTag/ByMsg, SecRuleUpdateTargetById/ByTag (positive targets; string and regex exclusions) and SecRuleUpdateActionById directives over single ids, several ids and ranges - or with one to three run-time ctl:ruleRemoveById/ByTag/ByMsg / ctl:ruleRemoveTargetById/ByTag/ByMsg (string keys and regex keys with escape classes) on steerable carrier rules at random positions and phases, in three cases out of ten with one rule getting one of its tags from a SecRuleUpdateActionById directive rather than carrying it - are run next to the configuration the generator rewrote explicitly (rules deleted, targets/actions written in place; for ctl only for rules evaluated after the carrier); fired rules, match data, interruption and counters must agree. A follow-up transaction on the same WAF must behave like the base rules. Non-trivial: the two configuration texts differ and some rule fired; distinct by (configuration A, request).",
		Assumptions: []string{"both sides run through the real engine; the rewritten form only uses constructs covered by C01/C08/C09", "configurations whose directive form is rejected by NewWAF are counted, not judged"},
		Required:    []string{"kind:ctl:several", "kind:removeById", "kind:removeByTag", "kind:removeByMsg", "kind:updTargetById", "kind:updTargetByTag", "kind:updActionById", "kind:ctl:removeById", "kind:ctl:updTargetById", "kind:ctl:tag-from-update-action", "isolation_followups"},
		Plan: func(tier fw.Tier, seed int64) []fw.Batch {
			n := 16
			if tier == fw.Thorough {
				n = 64
			}
			var bs []fw.Batch
			for i := 0; i < n; i++ {
				bs = append(bs, fw.Batch{Index: i, Flavour: "plain", TimeoutS: 1500})
			}
			return bs
		},
		Run: func(w *fw.W, b fw.Batch) {
			n := 2500
			if w.Tier == fw.Thorough {
				n = 40000
			}
			for i := 0; i < n; i++ {
				c, ok := c17Build(w.Rng)
				if !ok {
					continue
				}
				if pi := fw.Guard(func() { c17Judge(w, c) }); pi != nil {
					w.Violation("panic:"+pi.Frame+":"+c17KindClass(c.Kinds), "recover", c, nil, pi, pi.Value)
				}
				if w.WantSample() {
					w.Sample(map[string]any{"config_a": c.TextA, "config_b": c.TextB, "request": c.Req})
				}
			}
		},
		Replay: func(w *fw.W, raw json.RawMessage) {
			var c c17Case
			if json.Unmarshal(raw, &c) != nil {
				return
			}
			if pi := fw.Guard(func() { c17Judge(w, &c) }); pi != nil {
				w.Violation("panic:"+pi.Frame+":"+c17KindClass(c.Kinds), "recover", &c, nil, pi, pi.Value)
			}
		},
	})
}
