package props

// C11 pattern generator: a recursive generator over the regexp/syntax (RE2, Perl flavour) grammar,
// biased towards the shapes the @rx prefilter analyses: multi-byte literals in mandatory and
// optional positions, alternations with shared prefixes/suffixes (which the parser factors into
// tries), text/line anchors next to and away from literals, scoped case folding.

import (
	"math/rand/v2"
	"regexp"
	"strings"
)

// Words share prefixes and suffixes on purpose (select/set/sleep/substr, union/update/user,
// ab/abc/abd, bar/kbar/foobar), mix case, and include letters with non-ASCII fold partners (k, s).
var c11Words = []string{
	"select", "sleep", "set", "substr", "sel", "union", "update", "user", "ab", "abc", "abd", "bar", "kbar", "foobar", "foo",
	"sk", "ks", "kiss", "mask", "script", "<script", "on", "or", "and", "eval(", "/etc/", "passwd", "..", "=1", "xss",
	"Sel", "KEY", "maSk", "SELECT", "a.b", "x-y", "a b", "1=1", "%27", "from", "elect", "leep",
}

var c11NonASCIIWords = []string{"é", "éa", "aé", "ßs", "straße", "ſet", "Kelvin", "İx", "σς", "Σa", "日本", "ǅ", "kK", "ſs"}

var c11Chars = []string{"a", "b", "c", "k", "s", "K", "S", "x", "e", "/", "=", " ", "-", "_", "1", "é", "K", "ſ"}

var c11Classes = []string{`[a-c]`, `\d`, `\w`, `\s`, `[^a]`, `.`, `[[:alpha:]]`, `[k-s]`, `[A-Z]`, `\W`, `\S`, `[\x00-\x1f]`, `[^\n]`, `\pL`, `[ks]`, `[a-cx-z]`, `[^a-z]`, `[é-ü]`, `[\x{212A}k]`, `\D`}

// (\x{FFFD}, \x{e9} and \xNN >= 0x80 make newRX choose the binaryregexp matcher, which has no
// prefilter; the raw U+FFFD character keeps the pattern on the regexp path, where it matches one
// invalid input byte.)
var c11Special = []string{"\uFFFD", "\uFFFD", "a\uFFFD", "\uFFFDb", `\x{FFFD}`, `\n`, `\t`, `\.`, `\(`, `\x41`, `\x{e9}`, `\Qa.b\E`, `\xff`, `\xc3\x28`, `\x00`, `\\`, `\x{212A}`, `\x{17F}`}

var c11Quant = []string{"?", "*", "+", "{2}", "{0,2}", "{1,3}", "{2,}", "{0,1}", "{1}", "??", "*?", "+?", "{1,2}?"}

var c11FlagGroups = []string{"(?i:", "(?i:", "(?i:", "(?-i:", "(?m:", "(?-m:", "(?s:", "(?-s:", "(?U:", "(?i-s:", "(?im:"}

var c11Begin = []string{`^`, `^`, `\A`, `\A`, `(?-m:^)`, `(?m:^)`, `\b`, `\B`}
var c11End = []string{`$`, `$`, `\z`, `\z`, `(?-m:$)`, `(?m:$)`, `\b`, `\B`}

type c11Gen struct {
	r *rand.Rand
}

func (g *c11Gen) pick(xs []string) string { return xs[g.r.IntN(len(xs))] }

func (g *c11Gen) word() string {
	if g.r.IntN(8) == 0 {
		return g.pick(c11NonASCIIWords)
	}
	return regexp.QuoteMeta(g.pick(c11Words))
}

func (g *c11Gen) atom() string {
	switch x := g.r.IntN(100); {
	case x < 50:
		return g.word()
	case x < 62:
		return regexp.QuoteMeta(g.pick(c11Chars))
	case x < 85:
		return g.pick(c11Classes)
	case x < 93:
		return g.pick(c11Special)
	default:
		// two words glued: longer literals
		return g.word() + g.word()
	}
}

// group wraps s so that a postfix operator applies to all of it.
func group(s string) string { return "(?:" + s + ")" }

func (g *c11Gen) alternation(d int) string {
	n := 2 + g.r.IntN(3)
	parts := make([]string, 0, n+1)
	switch g.r.IntN(6) {
	case 0: // plain words: the parser factors common prefixes (select|set|sleep -> s(?:e(?:lect|t)|leep))
		for i := 0; i < n; i++ {
			parts = append(parts, g.word())
		}
	case 1: // explicit shared prefix, arbitrary tails
		p := g.word()
		for i := 0; i < n; i++ {
			parts = append(parts, p+g.expr(d-1))
		}
	case 2: // explicit shared suffix
		s := g.word()
		for i := 0; i < n; i++ {
			parts = append(parts, g.expr(d-1)+s)
		}
	case 3: // one-byte prefix + tails that do not begin with a literal (trie reconstruction shape)
		p := regexp.QuoteMeta(g.pick(c11Chars[:9]))
		for i := 0; i < n; i++ {
			if g.r.IntN(2) == 0 {
				parts = append(parts, p+g.word())
			} else {
				parts = append(parts, p+g.expr(d-1))
			}
		}
	default:
		for i := 0; i < n; i++ {
			parts = append(parts, g.expr(d-1))
		}
	}
	if g.r.IntN(10) == 0 {
		parts = append(parts, "") // empty branch
	}
	return group(strings.Join(parts, "|"))
}

func (g *c11Gen) expr(d int) string {
	if d <= 0 || g.r.IntN(4) == 0 {
		return g.atom()
	}
	switch x := g.r.IntN(100); {
	case x < 30: // concatenation
		n := 2 + g.r.IntN(3)
		var sb strings.Builder
		for i := 0; i < n; i++ {
			sb.WriteString(g.expr(d - 1))
		}
		return sb.String()
	case x < 50:
		return g.alternation(d)
	case x < 58: // capture groups (plain and named)
		if g.r.IntN(5) == 0 {
			return "(?P<n" + string(rune('a'+g.r.IntN(26))) + string(rune('a'+g.r.IntN(26))) + ">" + g.expr(d-1) + ")"
		}
		return "(" + g.expr(d-1) + ")"
	case x < 74: // repetition / optional
		return group(g.expr(d-1)) + g.pick(c11Quant)
	case x < 84: // scoped flags
		return g.pick(c11FlagGroups) + g.expr(d-1) + ")"
	case x < 92: // anchors around a sub-expression
		return g.pick(append([]string{""}, c11Begin...)) + g.expr(d-1) + g.pick(append([]string{""}, c11End...))
	case x < 96: // nested optional prefixes: (?:(?:A)?B)?C
		return group(group(g.expr(d-1))+"?"+g.expr(d-1)) + "?" + g.expr(d-1)
	default: // quantified atom without group
		a := g.atom()
		if len(a) > 1 && !strings.HasPrefix(a, `\`) && !strings.HasPrefix(a, "[") {
			a = group(a)
		}
		return a + g.pick(c11Quant)
	}
}

// Pattern returns one @rx argument. It may fail to compile (nested repetition limits, duplicate
// group names …); the caller skips and counts those.
func (g *c11Gen) Pattern() string {
	r := g.r
	switch x := r.IntN(100); {
	case x < 5: // the ^literal$ family (exact-match fast path), with and without captures / (?i)
		w := g.word()
		fl := ""
		if r.IntN(2) == 0 {
			fl = "(?i)"
		}
		switch r.IntN(6) {
		case 0:
			return fl + `\A` + w + `\z`
		case 1:
			return fl + `(^` + w + `$)`
		case 2:
			return fl + `^(` + w + `)$`
		case 3:
			return `^` + fl + w + `$`
		default:
			return fl + `^` + w + `$`
		}
	case x < 20: // text-anchored shapes: anchor, something, literal …, literal, something, anchor
		var sb strings.Builder
		if r.IntN(3) == 0 {
			sb.WriteString("(?i)")
		}
		if r.IntN(4) != 0 {
			sb.WriteString(g.pick([]string{`\A`, `\A`, `(?-m:^)`, `^`}))
		}
		n := 1 + r.IntN(4)
		for i := 0; i < n; i++ {
			sb.WriteString(g.expr(1 + r.IntN(2)))
		}
		if r.IntN(4) != 0 {
			sb.WriteString(g.pick([]string{`\z`, `\z`, `(?-m:$)`, `$`}))
		}
		return sb.String()
	}
	d := 1 + r.IntN(4)
	body := g.expr(d)
	if r.IntN(3) == 0 { // top-level concatenation of several expressions
		body += g.expr(d - 1)
		if r.IntN(2) == 0 {
			body += g.expr(d - 1)
		}
	}
	var sb strings.Builder
	if x := r.IntN(100); x < 30 {
		sb.WriteString("(?i)")
	} else if x < 34 {
		sb.WriteString(g.pick([]string{"(?-m)", "(?-s)", "(?U)", "(?i-m)", "(?m)", "(?s)"}))
	}
	if r.IntN(100) < 25 {
		sb.WriteString(g.pick(c11Begin))
	}
	sb.WriteString(body)
	if r.IntN(100) < 25 {
		sb.WriteString(g.pick(c11End))
	}
	return sb.String()
}
