package props

import (
	"fmt"
	"github.com/corazawaf/coraza/v3/experimental"
	"io"
	"net/http"
	"net/http/httptest"
	"os"
	"os/signal"
	"path/filepath"
	"runtime/debug"
	"sort"
	"strconv"
	"strings"
	"sync"
	"syscall"

	coraza "github.com/corazawaf/coraza/v3"
	"github.com/corazawaf/coraza/v3/collection"
	"github.com/corazawaf/coraza/v3/debuglog"
	"github.com/corazawaf/coraza/v3/experimental/verifapi"
	corazahttp "github.com/corazawaf/coraza/v3/http"
	"github.com/corazawaf/coraza/v3/types"
	"github.com/corazawaf/coraza/v3/types/variables"

	"verif/internal/fw"
	"verif/internal/obs"
	"verif/internal/sl"
)

// ---- debug logger recording entries at Error level --------------------------------------------

type c20LogEntry struct {
	Msg      string `json:"msg"`
	Injected bool   `json:"injected,omitempty"`
}

var (
	c20LogMu  sync.Mutex
	c20LogBuf []c20LogEntry
)

const c20InjectedMark = "verifhook: injected fault"

func c20Logger() debuglog.Logger {
	return debuglog.DefaultWithPrinterFactory(func(io.Writer) debuglog.Printer {
		return func(lvl debuglog.Level, message, fields string) {
			if lvl != debuglog.LevelError {
				return
			}
			c20LogMu.Lock()
			c20LogBuf = append(c20LogBuf, c20LogEntry{Msg: message, Injected: strings.Contains(fields, c20InjectedMark)})
			c20LogMu.Unlock()
		}
	})
}

func c20TakeLog() []c20LogEntry {
	c20LogMu.Lock()
	defer c20LogMu.Unlock()
	out := c20LogBuf
	c20LogBuf = nil
	return out
}

// ---- a case and its observed run --------------------------------------------------------------

type c20Case struct {
	Scenario *c20Scenario `json:"scenario"`
	Mode     string       `json:"mode"` // base | fault | abandon | real
	Site     string       `json:"site,omitempty"`
	Occ      int          `json:"occ,omitempty"`
	OnErr    string       `json:"on_err,omitempty"` // continue | close | log-close : what the connector does after a returned error
	Stop     int          `json:"stop,omitempty"`   // abandon: number of calls made before Close
}

type c20CallRes struct {
	Op       string   `json:"op"`
	Intr     *sl.Intr `json:"intr,omitempty"`
	Err      bool     `json:"err,omitempty"`
	Injected bool     `json:"injected,omitempty"`
	ErrText  string   `json:"err_text,omitempty"`
	N        int      `json:"n,omitempty"`
	Read     string   `json:"read,omitempty"` // bytes obtained through a body reader
}

type c20Run struct {
	Calls      []c20CallRes      `json:"calls"`
	CloseErr   string            `json:"close_err,omitempty"`
	Panic      *fw.PanicInfo     `json:"panic,omitempty"`
	PanicAt    string            `json:"panic_at,omitempty"`
	Vars       map[string]string `json:"error_vars,omitempty"`
	Logs       []c20LogEntry     `json:"error_logs,omitempty"`
	Matched    []int             `json:"matched,omitempty"`
	Intr       *sl.Intr          `json:"interruption,omitempty"`
	Created    []string          `json:"files_created,omitempty"` // seen before Close
	Left       []string          `json:"files_left,omitempty"`
	KeepApply  bool              `json:"keep_applies"`
	FdNew      []string          `json:"fd_new,omitempty"`
	FdBefore   int               `json:"fd_before"`
	FdAfter    int               `json:"fd_after"`
	Fired      []string          `json:"faults_fired,omitempty"`
	Counts     map[string]int    `json:"fault_counts,omitempty"`
	AuditBytes int64             `json:"audit_bytes"`
	Reused     bool              `json:"recycled_object_reused"`
	Probe      *c20ProbeOut      `json:"-"`
	ProbeRef   *c20ProbeOut      `json:"-"`
	BuildErr   string            `json:"build_error,omitempty"`
	traces     map[string]int
}

var c20ErrorVars = []string{"REQBODY_ERROR", "REQBODY_PROCESSOR_ERROR", "MULTIPART_STRICT_ERROR", "INBOUND_DATA_ERROR", "OUTBOUND_DATA_ERROR",
	"RESBODY_ERROR", "RESBODY_PROCESSOR_ERROR", "URLENCODED_ERROR"}

func c20ReadErrorVars(tx types.Transaction, into map[string]string) {
	st := verifapi.TxState(tx)
	if st == nil {
		return
	}
	st.Variables().All(func(v variables.RuleVariable, col collection.Collection) bool {
		if col == nil || !c20IsErrorVar[v.Name()] {
			return true
		}
		for _, m := range col.FindAll() {
			if s := m.Value(); s != "" && s != "0" {
				into[v.Name()] = s
			}
		}
		return true
	})
}

var c20IsErrorVar = func() map[string]bool {
	m := map[string]bool{}
	for _, n := range c20ErrorVars {
		m[n] = true
	}
	return m
}()

// traces reduces a run to the multiset of places where a failure left a mark.
func (r *c20Run) Traces() map[string]int {
	if r.traces != nil {
		return r.traces
	}
	t := map[string]int{}
	for i, c := range r.Calls {
		if c.Op == "http" {
			t[fmt.Sprintf("status:%d", c.N)]++
		}
		if c.Err {
			k := fmt.Sprintf("err:%d:%s", i, c.Op)
			if c.Injected {
				k += ":injected"
			}
			t[k]++
		}
	}
	if r.CloseErr != "" {
		k := "err:close"
		if strings.Contains(r.CloseErr, c20InjectedMark) {
			k += ":injected"
		}
		t[k]++
	}
	for n := range r.Vars {
		t["var:"+n]++
	}
	for _, l := range r.Logs {
		k := "log:" + l.Msg
		if l.Injected {
			k += ":injected"
		}
		t[k]++
	}
	if r.Intr != nil {
		t[fmt.Sprintf("intr:%d:%d", r.Intr.RuleID, r.Intr.Status)]++
	}
	r.traces = t
	return t
}

// newTraces lists the trace keys that occur more often in r than in base.
func c20NewTraces(r, base *c20Run) []string {
	var out []string
	bt := base.Traces()
	for k, n := range r.Traces() {
		if n > bt[k] {
			out = append(out, k)
		}
	}
	sort.Strings(out)
	return out
}

// ---- monitors' raw observations ---------------------------------------------------------------

// c20Fds returns the open descriptors of this process as a multiset of link targets
// (only descriptors that refer to paths; sockets, pipes and anonymous inodes belong to the runtime).
func c20Fds() (map[string]int, int) {
	out := map[string]int{}
	n := 0
	ents, err := os.ReadDir("/proc/self/fd")
	if err != nil {
		return out, -1
	}
	for _, e := range ents {
		t, err := os.Readlink("/proc/self/fd/" + e.Name())
		// /proc and /sys pseudo-files are opened transiently by the Go runtime and libc on other threads
		// (e.g. /sys/devices/system/cpu/online), never by the library
		if err != nil || !strings.HasPrefix(t, "/") || strings.HasPrefix(t, "/proc/") || strings.HasPrefix(t, "/sys/") {
			continue
		}
		out[t]++
		n++
	}
	return out, n
}

func c20List(dirs ...string) []string {
	var out []string
	for _, d := range dirs {
		if st, err := os.Stat(d); err != nil || !st.IsDir() {
			continue // removed, or replaced by a regular file, by a real-fault condition
		}
		filepath.Walk(d, func(p string, info os.FileInfo, err error) error {
			if err == nil && !info.IsDir() {
				out = append(out, p)
			}
			return nil
		})
	}
	sort.Strings(out)
	return out
}

func c20DirSize(d string) int64 {
	var n int64
	filepath.Walk(d, func(p string, info os.FileInfo, err error) error {
		if err == nil && !info.IsDir() {
			n += info.Size()
		}
		return nil
	})
	return n
}

// ---- building the WAF -------------------------------------------------------------------------

func c20NewWAF(conf *c20Conf, d c20Dirs) (coraza.WAF, error) {
	for _, p := range []string{d.Tmp, d.Upl, d.Aud} {
		if err := os.MkdirAll(p, 0o755); err != nil {
			return nil, err
		}
	}
	if conf.Real == "audit-dir-below-file" {
		os.WriteFile(filepath.Join(d.Aud, "plainfile"), []byte("x"), 0o644)
	}
	os.Setenv("TMPDIR", d.Tmp) // WAF.TmpDir is os.TempDir() at construction time; uploads without SecUploadDir use it at call time
	waf, err := coraza.NewWAF(coraza.NewWAFConfig().WithDebugLogger(c20Logger()).WithDirectives(conf.directives(d)))
	if err != nil {
		return nil, err
	}
	switch conf.Real {
	case "tmpdir-removed":
		os.RemoveAll(d.Tmp)
	case "tmpdir-is-file":
		os.RemoveAll(d.Tmp)
		os.WriteFile(d.Tmp, []byte("x"), 0o644)
	case "uploaddir-removed":
		os.RemoveAll(d.Upl)
	case "uploaddir-is-file":
		os.RemoveAll(d.Upl)
		os.WriteFile(d.Upl, []byte("x"), 0o644)
	}
	return waf, nil
}

var c20Once sync.Once

func c20SetFsize(conf *c20Conf) (restore func()) {
	if !strings.HasPrefix(conf.Real, "fsize:") {
		return func() {}
	}
	lim, _ := strconv.Atoi(strings.TrimPrefix(conf.Real, "fsize:"))
	c20Once.Do(func() { signal.Ignore(syscall.SIGXFSZ) })
	var old syscall.Rlimit
	if syscall.Getrlimit(syscall.RLIMIT_FSIZE, &old) != nil {
		return func() {}
	}
	syscall.Setrlimit(syscall.RLIMIT_FSIZE, &syscall.Rlimit{Cur: uint64(lim), Max: old.Max})
	return func() { syscall.Setrlimit(syscall.RLIMIT_FSIZE, &old) }
}

type c20NoLenReader struct{ r io.Reader }

func (n c20NoLenReader) Read(p []byte) (int, error) { return n.r.Read(p) }

func c20ErrRes(cr *c20CallRes, err error) {
	if err != nil {
		cr.Err = true
		cr.ErrText = err.Error()
		cr.Injected = strings.Contains(cr.ErrText, c20InjectedMark)
	}
}

// c20DoCall performs one Transaction API call.
func c20DoCall(tx types.Transaction, c c20Call, d c20Dirs) c20CallRes {
	cr := c20CallRes{Op: c.Op}
	switch c.Op {
	case "conn":
		tx.ProcessConnection("10.0.0.1", 40000, "10.0.0.2", 80)
	case "uri":
		tx.ProcessURI(c.A, c.B, "HTTP/1.1")
	case "hdr":
		tx.AddRequestHeader(c.A, c.B)
	case "p1":
		cr.Intr = c20Intr(tx.ProcessRequestHeaders())
	case "wreq":
		it, n, err := tx.WriteRequestBody([]byte(c.Data))
		cr.Intr, cr.N = c20Intr(it), n
		c20ErrRes(&cr, err)
	case "rreq":
		it, n, err := tx.ReadRequestBodyFrom(strings.NewReader(c.Data))
		cr.Intr, cr.N = c20Intr(it), n
		c20ErrRes(&cr, err)
	case "rreqn":
		it, n, err := tx.ReadRequestBodyFrom(c20NoLenReader{strings.NewReader(c.Data)})
		cr.Intr, cr.N = c20Intr(it), n
		c20ErrRes(&cr, err)
	case "readreq":
		rd, err := tx.RequestBodyReader()
		if err == nil {
			var b []byte
			b, err = io.ReadAll(rd)
			cr.Read, cr.N = string(b), len(b)
		}
		c20ErrRes(&cr, err)
	case "p2":
		it, err := tx.ProcessRequestBody()
		cr.Intr = c20Intr(it)
		c20ErrRes(&cr, err)
	case "rhdr":
		tx.AddResponseHeader(c.A, c.B)
	case "p3":
		cr.Intr = c20Intr(tx.ProcessResponseHeaders(c.N, "HTTP/1.1"))
	case "wres":
		it, n, err := tx.WriteResponseBody([]byte(c.Data))
		cr.Intr, cr.N = c20Intr(it), n
		c20ErrRes(&cr, err)
	case "rres":
		it, n, err := tx.ReadResponseBodyFrom(strings.NewReader(c.Data))
		cr.Intr, cr.N = c20Intr(it), n
		c20ErrRes(&cr, err)
	case "readres":
		rd, err := tx.ResponseBodyReader()
		if err == nil {
			var b []byte
			b, err = io.ReadAll(rd)
			cr.Read, cr.N = string(b), len(b)
		}
		c20ErrRes(&cr, err)
	case "p4":
		it, err := tx.ProcessResponseBody()
		cr.Intr = c20Intr(it)
		c20ErrRes(&cr, err)
	case "p5":
		tx.ProcessLogging()
	case "rmupload":
		// real fault: the upload temp files disappear before Close tries to remove them
		if st := verifapi.TxState(tx); st != nil {
			for _, f := range st.Variables().FilesTmpNames().Get("") {
				if os.Remove(f) == nil {
					cr.N++
				}
			}
		}
	case "rmupload1":
		// real fault on one file only: Close must report it and still remove the other upload temp files
		if st := verifapi.TxState(tx); st != nil {
			if fs := st.Variables().FilesTmpNames().Get(""); len(fs) > 1 {
				if os.Remove(fs[0]) == nil {
					cr.N++
				}
			}
		}
	case "rmspill":
		for _, f := range c20List(d.Tmp) {
			if strings.HasPrefix(filepath.Base(f), "body") && os.Remove(f) == nil {
				cr.N++
			}
		}
	}
	return cr
}

// c20DoHTTP sends one request through the HTTP middleware (which owns the transaction, runs
// ProcessLogging and Close itself) to a handler that reads the whole request body and answers.
// Err reports a body read error seen by the handler, N the status code the client got.
func c20DoHTTP(waf coraza.WAF, c c20Call) c20CallRes {
	cr := c20CallRes{Op: c.Op}
	h := corazahttp.WrapHandler(waf, http.HandlerFunc(func(w http.ResponseWriter, r *http.Request) {
		b, err := io.ReadAll(r.Body)
		cr.Read = string(b)
		c20ErrRes(&cr, err)
		w.Header().Set("Content-Type", "text/plain")
		w.WriteHeader(200)
		io.WriteString(w, "a leak from the backend")
	}))
	req := httptest.NewRequest("POST", "http://c20.example/c20/http?id=7", io.NopCloser(strings.NewReader(c.Data)))
	req.Header.Set("Content-Type", c.A)
	if c.B != "" {
		req.Header.Set("X-Deny", c.B)
	}
	rec := httptest.NewRecorder()
	h.ServeHTTP(rec, req)
	cr.N = rec.Code
	return cr
}

func c20Intr(i *types.Interruption) *sl.Intr {
	if i == nil {
		return nil
	}
	return &sl.Intr{RuleID: i.RuleID, Action: i.Action, Status: i.Status, Data: i.Data}
}

// ---- follow-up probe --------------------------------------------------------------------------

type c20ProbeOut struct {
	Calls   []c20CallRes        `json:"calls"`
	Matched []int               `json:"matched"`
	Intr    *sl.Intr            `json:"intr,omitempty"`
	Dump    map[string][]string `json:"dump"`
	NFiles  int                 `json:"n_tmp_files"`
	Close   bool                `json:"close_err"`
	Panic   string              `json:"panic,omitempty"`
}

var c20ProbeCalls = func() []c20Call {
	s := c20Build("probe", "probe", c20Conf{}, c20Opts{CT: c20MultipartCT, Body: c20Multipart([]int{90, 10}, true, 40), Chunk: 120, ReadBack: true,
		ResBody: "probe leak " + c20Fill(80, 11), ResChunk: 50, ReadRes: true})
	return s.Calls
}()

func c20Probe(tx types.Transaction, d c20Dirs) *c20ProbeOut {
	out := &c20ProbeOut{}
	pi := fw.Guard(func() {
		for _, c := range c20ProbeCalls {
			cr := c20DoCall(tx, c, d)
			cr.ErrText = "" // error texts carry paths; only the fact is compared
			out.Calls = append(out.Calls, cr)
		}
		for _, mr := range tx.MatchedRules() {
			out.Matched = append(out.Matched, mr.Rule().ID())
		}
		out.Intr = c20Intr(tx.Interruption())
		if st := verifapi.TxState(tx); st != nil {
			out.Dump = obs.DumpAll(st)
			for k := range out.Dump {
				if strings.HasSuffix(k, "_ERROR_MSG") {
					delete(out.Dump, k) // error texts (they carry paths) are not compared
				}
			}
			out.NFiles = len(st.Variables().FilesTmpNames().Get(""))
		}
	})
	if pi != nil {
		out.Panic = pi.Value + " @ " + pi.Frame
	}
	if p2 := fw.Guard(func() { out.Close = tx.Close() != nil }); p2 != nil && out.Panic == "" {
		out.Panic = "close: " + p2.Value + " @ " + p2.Frame
	}
	return out
}

// ---- executing one case -----------------------------------------------------------------------

var c20Seq int

type c20Env struct {
	Scratch  string
	probeRef map[string]*c20ProbeOut
	// Sentinel, when set (strace child), brackets the transaction with two recognisable system
	// calls; the harness then makes no system call of its own between them.
	Sentinel func(name string)
	LastDirs c20Dirs
}

func (e *c20Env) nextDirs() c20Dirs {
	c20Seq++
	return c20MkDirs(filepath.Join(e.Scratch, fmt.Sprintf("r%07d", c20Seq)))
}

// c20Exec runs one case from scratch: fresh directories, fresh WAF, one transaction under the
// monitors, then the follow-up probe on the same WAF and on a fresh one.
func c20Exec(e *c20Env, c *c20Case) *c20Run {
	if c.Scenario.Kind == "bodybuffer" {
		return c20ExecBuffer(e, c)
	}
	s := c.Scenario
	r := &c20Run{Vars: map[string]string{}}
	d := e.nextDirs()
	defer os.RemoveAll(d.Base)
	defer os.Setenv("TMPDIR", e.Scratch)
	waf, err := c20NewWAF(&s.Conf, d)
	if err != nil {
		r.BuildErr = err.Error()
		return r
	}
	defer sl.CloseWAF(waf)
	c20TakeLog()

	gc := debug.SetGCPercent(-1) // a finalizer closing a leaked file would hide the leak
	fd0, n0 := c20Fds()
	r.FdBefore = n0
	verifapi.ResetFaults(true)
	if c.Mode == "fault" {
		verifapi.ArmFault(c.Site, c.Occ)
	}
	restoreFsize := c20SetFsize(&s.Conf)
	e.LastDirs = d
	if e.Sentinel != nil {
		e.Sentinel("begin")
	}
	var tx types.Transaction
	if s.Kind != "http" {
		// every other scenario creates its transaction the way the experimental API documents it (an ID, no Context)
		if wo, ok := waf.(experimental.WAFWithOptions); ok && len(s.Name)%2 == 0 {
			tx = wo.NewTransactionWithOptions(experimental.Options{ID: "c20tx"})
		} else {
			tx = waf.NewTransactionWithID("c20tx")
		}
	}
	ncalls := len(s.Calls)
	if c.Mode == "abandon" && c.Stop < ncalls {
		ncalls = c.Stop
	}
	for i := 0; i < ncalls && r.Panic == nil; i++ {
		call := s.Calls[i]
		var cr c20CallRes
		if pi := fw.Guard(func() {
			if call.Op == "http" {
				cr = c20DoHTTP(waf, call)
			} else {
				cr = c20DoCall(tx, call, d)
			}
		}); pi != nil {
			r.Panic, r.PanicAt = pi, call.Op
			cr = c20CallRes{Op: call.Op}
		}
		r.Calls = append(r.Calls, cr)
		if tx != nil {
			fw.Guard(func() { c20ReadErrorVars(tx, r.Vars) })
		}
		if cr.Err && c.OnErr != "" && c.OnErr != "continue" {
			if c.OnErr == "log-close" && tx != nil {
				if pi := fw.Guard(func() { tx.ProcessLogging() }); pi != nil && r.Panic == nil {
					r.Panic, r.PanicAt = pi, "p5"
				}
				r.Calls = append(r.Calls, c20CallRes{Op: "p5"})
			}
			break
		}
	}
	fw.Guard(func() {
		if tx == nil {
			return
		}
		c20ReadErrorVars(tx, r.Vars)
		for _, mr := range tx.MatchedRules() {
			id := mr.Rule().ID()
			r.Matched = append(r.Matched, id)
			if c20LoggedIDs[id] && !(id == 200 && s.Conf.AttackNolog) {
				r.KeepApply = true
			}
		}
		r.Intr = c20Intr(tx.Interruption())
	})
	r.KeepApply = s.Conf.Keep == "On" || (s.Conf.Keep == "RelevantOnly" && r.KeepApply)
	if e.Sentinel == nil {
		r.Created = c20List(d.Tmp, d.Upl)
	}
	if pi := fw.Guard(func() {
		if tx == nil {
			return // the middleware closes its own transaction
		}
		if err := tx.Close(); err != nil {
			r.CloseErr = err.Error()
		}
	}); pi != nil && r.Panic == nil {
		r.Panic, r.PanicAt = pi, "close"
	}
	if e.Sentinel != nil {
		e.Sentinel("end")
	}
	restoreFsize()
	r.Fired = verifapi.FaultsFired()
	r.Counts = verifapi.FaultCounts()
	verifapi.ResetFaults(false)
	r.Logs = c20TakeLog()
	r.Left = c20List(d.Tmp, d.Upl)
	fd1, n1 := c20Fds()
	r.FdAfter = n1
	for t, n := range fd1 {
		if n > fd0[t] {
			r.FdNew = append(r.FdNew, t)
		}
	}
	sort.Strings(r.FdNew)
	debug.SetGCPercent(gc)
	r.AuditBytes = c20DirSize(d.Aud)

	// follow-up probe: same WAF (recycled object) against a fresh WAF of the same configuration
	tx2 := waf.NewTransactionWithID("c20probe")
	r.Reused = tx != nil && tx2 == tx
	r.Probe = c20Probe(tx2, d)
	c20TakeLog()
	key := fmt.Sprintf("%x", fw.Hash(s.Conf))
	if ref, ok := e.probeRef[key]; ok {
		r.ProbeRef = ref
	} else {
		d2 := e.nextDirs()
		if waf2, err := c20NewWAF(&s.Conf, d2); err == nil {
			r.ProbeRef = c20Probe(waf2.NewTransactionWithID("c20probe"), d2)
			sl.CloseWAF(waf2)
			e.probeRef[key] = r.ProbeRef
		}
		os.RemoveAll(d2.Base)
		c20TakeLog()
	}
	return r
}

// c20ExecBuffer runs a scenario of direct BodyBuffer calls (Reset plays the role of Close).
func c20ExecBuffer(e *c20Env, c *c20Case) *c20Run {
	s := c.Scenario
	r := &c20Run{Vars: map[string]string{}}
	d := e.nextDirs()
	defer os.RemoveAll(d.Base)
	os.MkdirAll(d.Tmp, 0o755)
	opts := types.BodyBufferOptions{TmpPath: d.Tmp, MemoryLimit: int64(s.Conf.MemLimit), Limit: int64(s.Conf.ReqLimit)}
	gc := debug.SetGCPercent(-1)
	fd0, n0 := c20Fds()
	r.FdBefore = n0
	verifapi.ResetFaults(true)
	if c.Mode == "fault" {
		verifapi.ArmFault(c.Site, c.Occ)
	}
	bb := verifapi.NewBodyBuffer(opts)
	do := func(call c20Call) c20CallRes {
		cr := c20CallRes{Op: call.Op}
		switch call.Op {
		case "bbw":
			n, err := bb.Write([]byte(call.Data))
			cr.N = n
			c20ErrRes(&cr, err)
		case "bbr":
			rd, err := bb.Reader()
			if err == nil {
				var b []byte
				b, err = io.ReadAll(rd)
				cr.Read, cr.N = string(b), len(b)
			}
			c20ErrRes(&cr, err)
		case "bbwt":
			var sb strings.Builder
			n, err := bb.WriteTo(&sb)
			cr.N, cr.Read = int(n), sb.String()
			c20ErrRes(&cr, err)
		}
		return cr
	}
	ncalls := len(s.Calls)
	if c.Mode == "abandon" && c.Stop < ncalls {
		ncalls = c.Stop
	}
	for i := 0; i < ncalls && r.Panic == nil; i++ {
		call := s.Calls[i]
		var cr c20CallRes
		if pi := fw.Guard(func() { cr = do(call) }); pi != nil {
			r.Panic, r.PanicAt = pi, call.Op
			cr = c20CallRes{Op: call.Op}
		}
		r.Calls = append(r.Calls, cr)
		if cr.Err && c.OnErr != "" && c.OnErr != "continue" {
			break
		}
	}
	r.Created = c20List(d.Tmp)
	if pi := fw.Guard(func() {
		if err := bb.Reset(); err != nil {
			r.CloseErr = err.Error()
		}
	}); pi != nil && r.Panic == nil {
		r.Panic, r.PanicAt = pi, "close"
	}
	r.Fired = verifapi.FaultsFired()
	r.Counts = verifapi.FaultCounts()
	verifapi.ResetFaults(false)
	r.Left = c20List(d.Tmp)
	fd1, n1 := c20Fds()
	r.FdAfter = n1
	for t, n := range fd1 {
		if n > fd0[t] {
			r.FdNew = append(r.FdNew, t)
		}
	}
	debug.SetGCPercent(gc)
	// follow-up: the reset buffer must behave like a new one
	probe := func(b *verifapi.BodyBuffer) *c20ProbeOut {
		out := &c20ProbeOut{}
		bb = b
		pi := fw.Guard(func() {
			for _, call := range []c20Call{{Op: "bbw", Data: c20Fill(40, 5)}, {Op: "bbr"}, {Op: "bbw", Data: c20Fill(70, 6)}, {Op: "bbr"}} {
				cr := do(call)
				cr.ErrText = ""
				out.Calls = append(out.Calls, cr)
			}
			out.Close = b.Reset() != nil
		})
		if pi != nil {
			out.Panic = pi.Value + " @ " + pi.Frame
		}
		return out
	}
	r.Probe = probe(bb)
	r.ProbeRef = probe(verifapi.NewBodyBuffer(opts))
	r.Reused = true
	return r
}
