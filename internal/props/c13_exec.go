package props

import (
	"encoding/json"
	"fmt"
	"reflect"
	"sort"
	"strconv"
	"strings"
	"sync"
	"sync/atomic"
	"testing/fstest"

	coraza "github.com/corazawaf/coraza/v3"
	"github.com/corazawaf/coraza/v3/experimental/plugins"
	"github.com/corazawaf/coraza/v3/experimental/plugins/plugintypes"
	"github.com/corazawaf/coraza/v3/experimental/verifapi"

	"verif/internal/fw"
	"verif/internal/sl"
)

// ---- audit writer "c13mem": remembers which transaction ids were written to the audit log.

var c13Audited sync.Map // tx id -> struct{}

type c13AuditWriter struct{}

func (c13AuditWriter) Init(plugintypes.AuditLogConfig) error { return nil }
func (c13AuditWriter) Close() error                          { return nil }
func (c13AuditWriter) Write(al plugintypes.AuditLog) error {
	c13Audited.Store(al.Transaction().ID(), struct{}{})
	return nil
}

func init() {
	plugins.RegisterAuditLogWriter("c13mem", func() plugintypes.AuditLogWriter { return c13AuditWriter{} })
}

// ---- build / probe

// c13Build constructs the WAF of a configuration. A panic inside NewWAF is returned as PanicInfo.
func c13Build(c *c13Cfg) (waf coraza.WAF, err error, pi *fw.PanicInfo) {
	pi = fw.Guard(func() {
		cfg := coraza.NewWAFConfig()
		if c.Files != nil {
			m := fstest.MapFS{}
			for k, v := range c.Files {
				m[k] = &fstest.MapFile{Data: []byte(v)}
			}
			cfg = cfg.WithRootFS(m)
		}
		waf, err = coraza.NewWAF(cfg.WithDirectives(c.directives()))
	})
	if pi != nil {
		waf = nil
	}
	return
}

// c13Out is the canonical outcome of one probe transaction.
type c13Out struct {
	Fired []int    `json:"fired,omitempty"`
	TX    []string `json:"tx,omitempty"` // sorted "key=value" of non-empty TX variables (captures)
	Intr  string   `json:"intr,omitempty"`
	Audit bool     `json:"audit,omitempty"`
	Panic string   `json:"panic,omitempty"`
}

var c13TxSeq atomic.Int64

func c13Exec(waf coraza.WAF, p *c13Probe) (out c13Out) {
	id := "c13tx" + strconv.FormatInt(c13TxSeq.Add(1), 10)
	tx := waf.NewTransactionWithID(id)
	func() {
		defer func() {
			if r := recover(); r != nil {
				out.Panic = fmt.Sprint(r)
			}
		}()
		tx.ProcessConnection("10.0.0.1", 1234, "10.0.0.2", 80)
		tx.ProcessURI(p.Path, "GET", "HTTP/1.1")
		for _, kv := range p.Headers {
			tx.AddRequestHeader(kv.K, kv.V)
		}
		for _, kv := range p.Args {
			tx.AddGetRequestArgument(kv.K, kv.V)
		}
		tx.AddRequestHeader("Host", "c13.test")
		tx.ProcessRequestHeaders()
		tx.ProcessRequestBody()
		tx.ProcessResponseHeaders(p.Status, "HTTP/1.1")
		tx.ProcessResponseBody()
		tx.ProcessLogging()
		for _, mr := range tx.MatchedRules() {
			out.Fired = append(out.Fired, mr.Rule().ID())
		}
		if it := tx.Interruption(); it != nil {
			out.Intr = fmt.Sprintf("%d/%s/%d", it.RuleID, it.Action, it.Status)
		}
		if st := verifapi.TxState(tx); st != nil {
			for _, md := range st.Variables().TX().FindAll() {
				if md.Value() != "" {
					out.TX = append(out.TX, md.Key()+"="+hexIfNeeded(md.Value()))
				}
			}
			sort.Strings(out.TX)
		}
	}()
	func() {
		defer func() { recover() }()
		tx.Close()
	}()
	if _, ok := c13Audited.LoadAndDelete(id); ok {
		out.Audit = true
	}
	return out
}

func hexIfNeeded(s string) string {
	for i := 0; i < len(s); i++ {
		if s[i] < 0x20 || s[i] >= 0x7f {
			return fmt.Sprintf("hex:%x", s)
		}
	}
	return s
}

// c13RunBattery probes a WAF with its family's battery.
func c13RunBattery(waf coraza.WAF, battery []c13Probe) []c13Out {
	outs := make([]c13Out, len(battery))
	for i := range battery {
		outs[i] = c13Exec(waf, &battery[i])
	}
	return outs
}

func c13Hashes(outs []c13Out) []uint64 {
	hs := make([]uint64, len(outs))
	for i := range outs {
		hs[i] = fw.Hash(outs[i])
	}
	return hs
}

// ---- cache snapshots

type c13Snap []verifapi.MemoEntry

func c13Snapshot() c13Snap { return verifapi.MemoizeSnapshot() }

// ownedBy returns key -> value type of the entries the given owner is registered on.
func (s c13Snap) ownedBy(id uint64) map[string]string {
	out := map[string]string{}
	for _, e := range s {
		for _, o := range e.Owners {
			if o == id {
				out[e.Key] = e.Type
			}
		}
	}
	return out
}

func c13TypeSig(m map[string]string) string {
	var ts []string
	for _, t := range m {
		ts = append(ts, t)
	}
	sort.Strings(ts)
	return strings.Join(ts, ",")
}

// ---- the "alone" reference of a configuration

type c13Alone struct {
	Built   bool
	Outs    []c13Out
	Hashes  []uint64
	Keys    map[string]string // cache key -> value type requested by this configuration when built alone
	TypeSig string
	Leaked  int // entries left in the cache after closing the only WAF of the process
}

// c13ComputeAlone builds the configuration with nothing else alive, probes it, closes it.
func c13ComputeAlone(c *c13Cfg, battery []c13Probe) *c13Alone {
	a := &c13Alone{}
	waf, err, pi := c13Build(c)
	if err != nil || pi != nil || waf == nil {
		return a
	}
	a.Built = true
	if verifapi.MemoizeCompiledIn {
		a.Keys = c13Snapshot().ownedBy(verifapi.MemoizerID(waf))
		a.TypeSig = c13TypeSig(a.Keys)
	}
	a.Outs = c13RunBattery(waf, battery)
	a.Hashes = c13Hashes(a.Outs)
	sl.CloseWAF(waf)
	if verifapi.MemoizeCompiledIn {
		a.Leaked = len(c13Snapshot())
	}
	return a
}

// ---- histories

// c13Step: Op "b" build configuration Cfg into slot Slot, "p" probe the WAF in Slot, "c" close it.
type c13Step struct {
	Op   string `json:"op"`
	Slot int    `json:"slot"`
	Cfg  int    `json:"cfg,omitempty"`
}

type c13History struct {
	Kind  string    `json:"kind"` // pair-live | pair-closed | random
	Group int       `json:"group"`
	N     int       `json:"n"` // index inside the group
	Steps []c13Step `json:"steps"`
}

func (h *c13History) String() string {
	var parts []string
	for _, s := range h.Steps {
		switch s.Op {
		case "b":
			parts = append(parts, fmt.Sprintf("build(s%d,#%d)", s.Slot, s.Cfg))
		case "p":
			parts = append(parts, fmt.Sprintf("probe(s%d)", s.Slot))
		case "c":
			parts = append(parts, fmt.Sprintf("close(s%d)", s.Slot))
		}
	}
	return strings.Join(parts, " ")
}

// c13Case is a self-contained witness: the history plus the configurations it uses.
type c13Case struct {
	History *c13History     `json:"history"`
	Configs map[int]*c13Cfg `json:"configs"`
	Step    int             `json:"step"`            // step at which the violation was seen (-1: end of history)
	Probe   *c13Probe       `json:"probe,omitempty"` // the probe request that diverged
	// Concurrent, when present, replaces History: a concurrent round (race flavour).
	Concurrent *c13ConcRound `json:"concurrent,omitempty"`
	// RxPattern, when present: the auxiliary structural @rx monitor fired for this pattern.
	RxPattern string `json:"rx_pattern,omitempty"`
	Text      string `json:"readable,omitempty"`
	// Expect, when present, holds per-configuration outcomes observed in another build flavour
	// (plain-vs-nomemo differential): the replay compares against them instead of the in-process reference.
	Expect map[int][]c13Out `json:"expect,omitempty"`
}

// c13Env is the per-process environment of the runners.
type c13Env struct {
	w       *fw.W
	cfgs    map[int]*c13Cfg
	alone   map[int]*c13Alone
	battery map[string][]c13Probe
	memo    bool // cache compiled in (snapshots meaningful)
	expect  map[int][]c13Out
	mu      sync.Mutex
}

func c13NewEnv(w *fw.W, cfgs []*c13Cfg) *c13Env {
	e := &c13Env{w: w, cfgs: map[int]*c13Cfg{}, alone: map[int]*c13Alone{}, battery: map[string][]c13Probe{}, memo: verifapi.MemoizeCompiledIn}
	for _, c := range cfgs {
		e.cfgs[c.Idx] = c
		if _, ok := e.battery[c.Family]; !ok {
			e.battery[c.Family] = c13Battery(c.Family)
		}
	}
	return e
}

// computeAlone fills the in-process reference for every configuration of the environment, in index
// order, each one with no other WAF alive. Must run before anything else is built in the process.
func (e *c13Env) computeAlone() {
	var idxs []int
	for i := range e.cfgs {
		idxs = append(idxs, i)
	}
	sort.Ints(idxs)
	for _, i := range idxs {
		c := e.cfgs[i]
		a := c13ComputeAlone(c, e.battery[c.Family])
		e.alone[i] = a
		if !a.Built {
			e.w.Count("alone_build_failures", 1)
			e.w.Cover("alone_build_failed", c.Name)
			c13ReleaseOrphans(nil)
			continue
		}
		if a.Leaked > 0 {
			e.w.Violation("snapshot:leaked-entry", "memoize-snapshot", c13SingleCase(c), "empty cache after closing the only WAF of the process",
				c13Snapshot(), "entries remain after Close of a WAF that was alone in the process")
			c13ReleaseOrphans(nil)
		}
	}
}

func c13SingleCase(c *c13Cfg) *c13Case {
	h := &c13History{Kind: "alone", Steps: []c13Step{{Op: "b", Slot: 0, Cfg: c.Idx}, {Op: "p", Slot: 0}, {Op: "c", Slot: 0}}}
	return &c13Case{History: h, Configs: map[int]*c13Cfg{c.Idx: c}, Step: -1, Text: h.String()}
}

// c13ReleaseOrphans releases every cache owner that is not in live (harness-side cleanup after a
// failed construction or a leak, so that the next history starts from an empty cache again).
func c13ReleaseOrphans(live map[uint64]bool) int {
	n := 0
	seen := map[uint64]bool{}
	for _, e := range c13Snapshot() {
		for _, o := range e.Owners {
			if !live[o] && !seen[o] {
				seen[o] = true
				verifapi.MemoizeRelease(o)
				n++
			}
		}
	}
	return n
}

type c13Live struct {
	cfg   *c13Cfg
	waf   coraza.WAF
	id    uint64
	owned map[string]string // entries owned right after construction
}

// c13HistoryRun executes one sequential history and judges it. It returns one hash per step
// (outcome of the step), used for the plain-vs-nomemo comparison on the driver side.
func (e *c13Env) runHistory(h *c13History) []uint64 {
	w := e.w
	slots := map[int]*c13Live{}
	liveIDs := func() map[uint64]bool {
		m := map[uint64]bool{}
		for _, l := range slots {
			m[l.id] = true
		}
		return m
	}
	mkCase := func(step int, p *c13Probe) *c13Case {
		cs := &c13Case{History: h, Configs: map[int]*c13Cfg{}, Step: step, Probe: p, Text: h.String(), Expect: e.expect}
		for _, s := range h.Steps {
			if s.Op == "b" {
				cs.Configs[s.Cfg] = e.cfgs[s.Cfg]
			}
		}
		return cs
	}
	// roles of the other configurations of this history (built before step k), most recent first
	othersBefore := func(k int) []*c13Cfg {
		var out []*c13Cfg
		for i := k - 1; i >= 0; i-- {
			if h.Steps[i].Op == "b" {
				out = append(out, e.cfgs[h.Steps[i].Cfg])
			}
		}
		return out
	}
	// culprit: the configuration whose cache entry the configuration c ran into
	culprit := func(k int, c *c13Cfg, before c13Snap, ownerCfg map[uint64]*c13Cfg) *c13Cfg {
		if a := e.alone[c.Idx]; a != nil && before != nil {
			for _, ent := range before {
				if _, ok := a.Keys[ent.Key]; ok {
					for _, o := range ent.Owners {
						if oc := ownerCfg[o]; oc != nil {
							return oc
						}
					}
				}
			}
		}
		for _, oc := range othersBefore(k) {
			if oc.Family == c.Family && oc.Idx != c.Idx {
				return oc
			}
		}
		for _, oc := range othersBefore(k) {
			if oc.Idx != c.Idx {
				return oc
			}
		}
		return nil
	}
	kindOf := func(c, other *c13Cfg) string {
		if other == nil {
			return c13RoleBase(c.Role) + "-vs-none"
		}
		return c13ResourceKind(c.Role, other.Role)
	}
	ownerCfg := map[uint64]*c13Cfg{} // every owner id ever built in this history -> its configuration
	culpritOf := map[int]*c13Cfg{}   // slot -> culprit determined at build time
	nontrivial := false
	failed := false
	hashes := make([]uint64, 0, len(h.Steps))

	// quiescent-point invariant (sequential mode: after every step)
	checkSnapshot := func(k int) {
		if !e.memo {
			return
		}
		snap := c13Snapshot()
		w.Count("snapshot_checks", 1)
		live := liveIDs()
		for _, ent := range snap {
			for _, o := range ent.Owners {
				if !live[o] {
					if failed {
						w.Count("snapshot_skipped_after_failed_build", 1)
						continue
					}
					w.Violation("snapshot:leaked-entry", "memoize-snapshot", mkCase(k, nil), "every cache entry is owned only by WAFs that are still open",
						map[string]any{"key": ent.Key, "type": ent.Type, "owners": ent.Owners, "open": keysU64(live)},
						fmt.Sprintf("after step %d an entry is still registered to owner %d, which is not an open WAF", k, o))
				}
			}
		}
		for _, l := range slots {
			now := snap.ownedBy(l.id)
			for key := range l.owned {
				if _, ok := now[key]; !ok {
					w.Violation("snapshot:lost-entry", "memoize-snapshot", mkCase(k, nil), "an open WAF keeps every entry it registered at construction",
						map[string]any{"waf": l.cfg.Name, "owner": l.id, "key": key},
						fmt.Sprintf("after step %d the open WAF %s (owner %d) is no longer registered on an entry it owned", k, l.cfg.Name, l.id))
					break
				}
			}
		}
	}

	for k, s := range h.Steps {
		switch s.Op {
		case "b":
			c := e.cfgs[s.Cfg]
			a := e.alone[c.Idx]
			if a == nil || !a.Built {
				hashes = append(hashes, 0)
				w.Count("steps_skipped_unbuildable", 1)
				continue
			}
			var before c13Snap
			if e.memo {
				before = c13Snapshot()
				// sharing really happens when an entry this configuration asks for is already there
				for _, ent := range before {
					if _, ok := a.Keys[ent.Key]; ok {
						nontrivial = true
						for _, o := range ent.Owners {
							if oc := ownerCfg[o]; oc != nil {
								if c13RoleBase(oc.Role) != c13RoleBase(c.Role) {
									w.Count("shared_entries_cross_role", 1)
									rr := []string{c13RoleBase(oc.Role), c13RoleBase(c.Role)}
									sort.Strings(rr)
									w.Cover("shared_between_roles", rr[0]+"+"+rr[1])
								} else {
									w.Count("shared_entries_same_role", 1)
								}
							}
						}
					}
				}
			}
			w.Count("builds", 1)
			w.Cover("roles", c13RoleBase(c.Role))
			waf, err, pi := c13Build(c)
			if pi != nil || err != nil || waf == nil {
				failed = true
				cu := culprit(k, c, before, ownerCfg)
				obs := map[string]any{}
				cls := "newwaf-error:"
				if pi != nil {
					cls = "newwaf-panic:"
					obs["panic"] = pi.Value
					obs["frame"] = pi.Frame
				} else if err != nil {
					obs["error"] = err.Error()
				}
				w.Violation(cls+kindOf(c, cu), "newwaf", mkCase(k, nil), "NewWAF succeeds, as it does when the configuration is built alone", obs,
					fmt.Sprintf("step %d: constructing %s failed after %s", k, c.Name, h.String()))
				hashes = append(hashes, 1)
				if e.memo {
					c13ReleaseOrphans(liveIDs())
				}
				continue
			}
			l := &c13Live{cfg: c, waf: waf, id: verifapi.MemoizerID(waf)}
			ownerCfg[l.id] = c
			if e.memo {
				culpritOf[s.Slot] = culprit(k, c, before, ownerCfg)
				l.owned = c13Snapshot().ownedBy(l.id)
				if sig := c13TypeSig(l.owned); sig != a.TypeSig {
					w.Violation("snapshot:owner-not-registered", "memoize-snapshot", mkCase(k, nil), a.TypeSig, sig,
						fmt.Sprintf("step %d: right after construction %s is registered on entries of types [%s]; built alone it is registered on [%s]", k, c.Name, sig, a.TypeSig))
				}
			} else {
				culpritOf[s.Slot] = culprit(k, c, nil, ownerCfg)
			}
			slots[s.Slot] = l
			hashes = append(hashes, 2)
		case "p":
			l := slots[s.Slot]
			if l == nil {
				hashes = append(hashes, 0)
				continue
			}
			bat := e.battery[l.cfg.Family]
			ref := e.alone[l.cfg.Idx].Outs
			refName := "the same configuration built alone"
			if x, ok := e.expect[l.cfg.Idx]; ok && len(x) == len(bat) {
				ref, refName = x, "the same configuration in the other build flavour"
			}
			outs := c13RunBattery(l.waf, bat)
			w.Eval(len(outs))
			w.Count("probes_compared", len(outs))
			for i := range outs {
				if fw.Hash(outs[i]) != fw.Hash(ref[i]) {
					cls := "wrong-object:" + kindOf(l.cfg, culpritOf[s.Slot])
					if outs[i].Panic != "" {
						cls = "probe-panic:" + kindOf(l.cfg, culpritOf[s.Slot])
					}
					w.Violation(cls, "differential:history-vs-alone", mkCase(k, &bat[i]), ref[i], outs[i],
						fmt.Sprintf("step %d: probe %d on %s differs from %s; history: %s", k, i, l.cfg.Name, refName, h.String()))
					break
				}
			}
			hashes = append(hashes, fw.Hash(c13Hashes(outs)))
		case "c":
			l := slots[s.Slot]
			if l == nil {
				hashes = append(hashes, 0)
				continue
			}
			sl.CloseWAF(l.waf)
			delete(slots, s.Slot)
			w.Count("closes", 1)
			hashes = append(hashes, 3)
		}
		checkSnapshot(k)
	}
	// end of history: every open WAF still finds its patterns; then close everything: cache must be empty
	var rest []int
	for sidx := range slots {
		rest = append(rest, sidx)
	}
	sort.Ints(rest)
	for _, sidx := range rest {
		l := slots[sidx]
		bat := e.battery[l.cfg.Family]
		ref := e.alone[l.cfg.Idx].Outs
		if x, ok := e.expect[l.cfg.Idx]; ok && len(x) == len(bat) {
			ref = x
		}
		outs := c13RunBattery(l.waf, bat)
		w.Eval(len(outs))
		w.Count("probes_compared", len(outs))
		w.Count("reprobes_at_end", 1)
		for i := range outs {
			if fw.Hash(outs[i]) != fw.Hash(ref[i]) {
				w.Violation("wrong-object:"+kindOf(l.cfg, culpritOf[sidx]), "differential:history-vs-alone", mkCase(-1, &bat[i]), ref[i], outs[i],
					fmt.Sprintf("end of history: probe %d on the still open %s differs from the reference; history: %s", i, l.cfg.Name, h.String()))
				break
			}
		}
		hashes = append(hashes, fw.Hash(c13Hashes(outs)))
	}
	for _, sidx := range rest {
		sl.CloseWAF(slots[sidx].waf)
		delete(slots, sidx)
	}
	if e.memo {
		w.Count("snapshot_checks", 1)
		if snap := c13Snapshot(); len(snap) > 0 {
			if failed {
				w.Count("snapshot_skipped_after_failed_build", 1)
			} else {
				w.Violation("snapshot:leaked-entry", "memoize-snapshot", mkCase(-1, nil), "empty cache after every WAF was closed", snap,
					"entries remain after closing every WAF of the history: "+h.String())
			}
			c13ReleaseOrphans(nil)
		}
	}
	w.Count("histories", 1)
	w.Count("histories_"+h.Kind, 1)
	w.Max("history_length_max", int64(len(h.Steps)))
	if nontrivial {
		w.Nontrivial(fw.Hash(h.Steps))
		w.Count("histories_with_shared_entry", 1)
	}
	return hashes
}

func keysU64(m map[uint64]bool) []uint64 {
	var out []uint64
	for k := range m {
		out = append(out, k)
	}
	sort.Slice(out, func(i, j int) bool { return out[i] < out[j] })
	return out
}

// ---- concurrent variant (race flavour)

type c13ConcRound struct {
	Group      int   `json:"group"`
	Round      int   `json:"round"`
	Cfgs       []int `json:"cfgs"`
	Goroutines int   `json:"goroutines"`
	Iterations int   `json:"iterations"`
}

// runConcurrent: several goroutines build / probe / close WAFs drawn from a small colliding subset of
// the pool. Every WAF is private to its goroutine (the property is about OTHER instances); the
// shared state is the process-wide cache and the compiled objects handed out by it.
func (e *c13Env) runConcurrent(r *c13ConcRound, seed int64) {
	w := e.w
	var mu sync.Mutex
	var live []*c13Live
	var anyFailed atomic.Bool
	cs := func(detail string) *c13Case {
		cfgs := map[int]*c13Cfg{}
		for _, i := range r.Cfgs {
			cfgs[i] = e.cfgs[i]
		}
		return &c13Case{Concurrent: r, Configs: cfgs, Step: -1, Text: detail}
	}
	var wg sync.WaitGroup
	for g := 0; g < r.Goroutines; g++ {
		wg.Add(1)
		go func(g int) {
			defer wg.Done()
			rng := fw.NewRng(seed, "C13/conc", uint64(r.Group)<<40|uint64(r.Round)<<8|uint64(g))
			for it := 0; it < r.Iterations; it++ {
				c := e.cfgs[r.Cfgs[rng.IntN(len(r.Cfgs))]]
				a := e.alone[c.Idx]
				if a == nil || !a.Built {
					continue
				}
				w.Count("builds", 1)
				w.Count("concurrent_builds", 1)
				w.Cover("roles", c13RoleBase(c.Role))
				waf, err, pi := c13Build(c)
				if pi != nil || err != nil || waf == nil {
					anyFailed.Store(true)
					obs := map[string]any{}
					cls := "newwaf-error:concurrent:" + c13RoleBase(c.Role)
					if pi != nil {
						cls = "newwaf-panic:concurrent:" + c13RoleBase(c.Role)
						obs["panic"], obs["frame"] = pi.Value, pi.Frame
					} else if err != nil {
						obs["error"] = err.Error()
					}
					w.Violation(cls, "newwaf", cs("goroutine "+strconv.Itoa(g)+" building "+c.Name), "NewWAF succeeds", obs,
						"constructing "+c.Name+" failed while other goroutines build and close WAFs of the listed configurations")
					continue
				}
				l := &c13Live{cfg: c, waf: waf, id: verifapi.MemoizerID(waf)}
				bat := e.battery[c.Family]
				outs := c13RunBattery(waf, bat)
				w.Eval(len(outs))
				w.Count("probes_compared", len(outs))
				for i := range outs {
					if fw.Hash(outs[i]) != a.Hashes[i] {
						w.Violation("wrong-object:concurrent:"+c13RoleBase(c.Role), "differential:concurrent-vs-alone", cs(fmt.Sprintf("goroutine %d probing %s with %+v", g, c.Name, bat[i])), a.Outs[i], outs[i],
							"probe on "+c.Name+" differs from the same configuration built alone while other goroutines build and close WAFs")
						break
					}
				}
				if rng.IntN(2) == 0 {
					sl.CloseWAF(waf)
					w.Count("closes", 1)
				} else {
					mu.Lock()
					live = append(live, l)
					mu.Unlock()
				}
			}
		}(g)
	}
	wg.Wait()
	// quiescent point
	liveIDs := map[uint64]bool{}
	for _, l := range live {
		liveIDs[l.id] = true
	}
	shared := false
	if e.memo {
		snap := c13Snapshot()
		w.Count("snapshot_checks", 1)
		for _, ent := range snap {
			if len(ent.Owners) > 1 {
				shared = true
			}
			for _, o := range ent.Owners {
				if !liveIDs[o] {
					if anyFailed.Load() {
						w.Count("snapshot_skipped_after_failed_build", 1)
						continue
					}
					w.Violation("snapshot:leaked-entry", "memoize-snapshot", cs("quiescent point after the goroutines joined"), "every cache entry is owned only by WAFs that are still open",
						map[string]any{"key": ent.Key, "type": ent.Type, "owners": ent.Owners, "open": keysU64(liveIDs)}, "an entry is registered to an owner that is not an open WAF")
				}
			}
		}
		for _, l := range live {
			now := snap.ownedBy(l.id)
			a := e.alone[l.cfg.Idx]
			for key, typ := range now {
				if at, ok := a.Keys[key]; !ok || at != typ {
					w.Violation("snapshot:foreign-entry", "memoize-snapshot", cs("quiescent point"), a.Keys, now,
						"the open WAF "+l.cfg.Name+" is registered on an entry it does not request when built alone (or of another type)")
					break
				}
			}
			if len(now) < len(a.Keys) {
				// a deduplicated (singleflight) caller may legitimately miss its registration when the entry
				// was dropped in between; harmless, only counted
				w.Count("concurrent_owner_registration_missed", len(a.Keys)-len(now))
			}
		}
	}
	for _, l := range live {
		a := e.alone[l.cfg.Idx]
		bat := e.battery[l.cfg.Family]
		outs := c13RunBattery(l.waf, bat)
		w.Eval(len(outs))
		w.Count("probes_compared", len(outs))
		w.Count("reprobes_at_end", 1)
		for i := range outs {
			if fw.Hash(outs[i]) != a.Hashes[i] {
				w.Violation("wrong-object:concurrent:"+c13RoleBase(l.cfg.Role), "differential:concurrent-vs-alone", cs(fmt.Sprintf("re-probe of %s at the quiescent point with %+v", l.cfg.Name, bat[i])), a.Outs[i], outs[i],
					"re-probe of the still open "+l.cfg.Name+" differs from the same configuration built alone")
				break
			}
		}
	}
	for _, l := range live {
		sl.CloseWAF(l.waf)
		w.Count("closes", 1)
	}
	if e.memo {
		w.Count("snapshot_checks", 1)
		if snap := c13Snapshot(); len(snap) > 0 {
			if anyFailed.Load() {
				w.Count("snapshot_skipped_after_failed_build", 1)
			} else {
				w.Violation("snapshot:leaked-entry", "memoize-snapshot", cs("after closing every WAF of the round"), "empty cache", snap, "entries remain after closing every WAF")
			}
			c13ReleaseOrphans(nil)
		}
	}
	w.Count("concurrent_rounds", 1)
	w.Count("histories", 1)
	w.Count("histories_concurrent", 1)
	if shared {
		w.Nontrivial(fw.Hash(r))
		w.Count("histories_with_shared_entry", 1)
	}
}

// ---- auxiliary structural monitor: the @rx operator handed out for "prefilter off" must not carry
// the prefilter artefacts compiled for "prefilter on" (and vice versa). Reads the operator through
// reflection; if the layout is not the expected one the monitor is skipped and counted.

type c13RxShape struct {
	Prefilter bool  `json:"prefilter"`
	MinLen    int64 `json:"min_len"`
	Exact     bool  `json:"exact_match"`
}

func c13RxShapeOf(op plugintypes.Operator) (sh c13RxShape, ok bool) {
	defer func() {
		if recover() != nil {
			ok = false
		}
	}()
	v := reflect.ValueOf(op)
	if v.Kind() != reflect.Ptr || v.Elem().Kind() != reflect.Struct {
		return sh, false
	}
	s := v.Elem()
	pf, ml, ex := s.FieldByName("prefilter"), s.FieldByName("minLen"), s.FieldByName("exactMatch")
	if !pf.IsValid() || !ml.IsValid() || !ex.IsValid() || pf.Kind() != reflect.Func || ml.Kind() != reflect.Int || ex.Kind() != reflect.String {
		return sh, false
	}
	return c13RxShape{Prefilter: !pf.IsNil(), MinLen: ml.Int(), Exact: ex.String() != ""}, true
}

func c13RxStructural(w *fw.W) {
	if !verifapi.MemoizeCompiledIn {
		return
	}
	pats := []string{"alpha.*beta", "^upload$", `(?i)select[a-c]\z`, "a+b"}
	get := func(pat string, on bool, owner uint64) (c13RxShape, bool) {
		op, err := verifapi.GetOperator("rx", plugintypes.OperatorOptions{Arguments: pat, RxPreFilterEnabled: on, Memoizer: verifapi.NewMemoizer(owner)})
		if err != nil || op == nil {
			return c13RxShape{}, false
		}
		return c13RxShapeOf(op)
	}
	const oA, oB = uint64(1) << 62, uint64(1)<<62 + 1
	for _, pat := range pats {
		// alone shapes
		onAlone, ok1 := get(pat, true, oA)
		verifapi.MemoizeRelease(oA)
		offAlone, ok2 := get(pat, false, oA)
		verifapi.MemoizeRelease(oA)
		if !ok1 || !ok2 || onAlone == offAlone {
			w.Count("rx_structure_unavailable_or_indistinct", 1)
			continue
		}
		for _, firstOn := range []bool{true, false} {
			_, _ = get(pat, firstOn, oA)
			second, ok := get(pat, !firstOn, oB)
			want := offAlone
			if !firstOn {
				want = onAlone
			}
			w.Count("rx_structure_checks", 1)
			w.Eval(1)
			if ok && second != want {
				w.Violation("wrong-object:rx-prefilter-flag", "structure:rx-operator",
					&c13Case{RxPattern: pat, Step: -1, Text: fmt.Sprintf("first owner prefilter=%v, second owner prefilter=%v", firstOn, !firstOn)}, want, second,
					fmt.Sprintf("@rx %q requested with prefilter=%v after another owner requested it with prefilter=%v got the other owner's artefacts", pat, !firstOn, firstOn))
			}
			verifapi.MemoizeRelease(oA)
			verifapi.MemoizeRelease(oB)
		}
	}
}

func c13JSON(v any) json.RawMessage { b, _ := json.Marshal(v); return b }
