package props

import (
	"fmt"
	"math/rand/v2"
	"strconv"
)

func c18Pick[T any](r *rand.Rand, xs ...T) T { return xs[r.IntN(len(xs))] }

func c18P(r *rand.Rand, p float64) bool { return r.Float64() < p }

var c18DenyStatuses = []int{401, 404, 406, 429, 500, 503, 418}

func c18GenCfg(r *rand.Rand) *c18Cfg {
	c := &c18Cfg{Pop: "deny"}
	switch x := r.IntN(100); {
	case x < 10:
		c.Pop = "redirect"
	case x < 17:
		c.Pop = "drop"
	}
	c.ReqAccess = c18P(r, 0.8)
	c.ReqLimit = c18Pick(r, 8, 16, 33, 64, 100, 256)
	switch r.IntN(4) {
	case 0:
		c.ReqMemLimit = c.ReqLimit
	case 1:
		c.ReqMemLimit = c.ReqLimit / 2
	case 2:
		c.ReqMemLimit = c.ReqLimit - 1
	default:
		c.ReqMemLimit = 1 + r.IntN(c.ReqLimit)
	}
	c.ReqReject = c18P(r, 0.5)
	c.RespAccess = c18P(r, 0.75)
	c.RespLimit = c18Pick(r, 8, 16, 50, 128, 300)
	c.RespReject = c18P(r, 0.5)
	all := []string{"text/plain", "application/json", "text/html"}
	for len(c.Mime) == 0 {
		for _, m := range all {
			if c18P(r, 0.6) {
				c.Mime = append(c.Mime, m)
			}
		}
	}
	c.CtlEngineDO = c18P(r, 0.12)
	if c18P(r, 0.3) {
		// response-body inspection switched for the transaction by a ctl (as late as the response-headers phase)
		c.CtlResp = c18Pick(r, "access=On", "access=On", "access=Off", "force", "force")
		c.CtlRespPhase = c18Pick(r, 1, 2, 3, 3, 3)
	}
	for ph := 1; ph <= 4; ph++ {
		if !c18P(r, 0.6) {
			continue
		}
		ru := c18Rule{Phase: ph, Action: c.Pop}
		switch ph {
		case 1:
			ru.Steer = "reqhdr"
		case 2:
			ru.Steer = c18Pick(r, "reqhdr", "reqbody", "reqbody")
		case 3:
			ru.Steer = c18Pick(r, "reqhdr", "resphdr", "resphdr")
		case 4:
			ru.Steer = c18Pick(r, "reqhdr", "resphdr", "respbody", "respbody")
		}
		switch c.Pop {
		case "deny":
			if c18P(r, 0.5) {
				ru.Status = c18DenyStatuses[r.IntN(len(c18DenyStatuses))]
			}
		case "redirect":
			ru.URL = "http://redirect.example/landing?from=waf"
			if c18P(r, 0.5) {
				ru.Status = c18Pick(r, 301, 302, 303, 307)
			}
		}
		c.Rules = append(c.Rules, ru)
	}
	return c
}

const c18Letters = "abcdefghijklmnoprstuvwxyABCDEFGH0123456789" // no 'q', no 'z': a marker never appears by chance

func c18Fill(r *rand.Rand, n int) []byte {
	b := make([]byte, n)
	for i := range b {
		b[i] = c18Letters[r.IntN(len(c18Letters))]
	}
	return b
}

// c18Overlay writes marker at off when it fits inside [lo, hi).
func c18Overlay(b []byte, marker string, off, lo, hi int) bool {
	if off < lo || off+len(marker) > hi || hi > len(b) {
		return false
	}
	copy(b[off:], marker)
	return true
}

// c18MarkerOffset chooses where to put a marker relative to a limit: fully inside the processed
// prefix, straddling the limit, or beyond it.
func c18MarkerOffset(r *rand.Rand, n, limit, mlen, lo int) int {
	switch r.IntN(6) {
	case 0: // straddling
		return limit - 1 - r.IntN(mlen-1)
	case 1: // beyond
		if n-mlen > limit {
			return limit + r.IntN(n-mlen-limit+1)
		}
		return limit
	case 2: // ending exactly at the limit
		return limit - mlen
	default: // inside the prefix
		hi := limit
		if n < hi {
			hi = n
		}
		if hi-mlen <= lo {
			return lo
		}
		return lo + r.IntN(hi-mlen-lo+1)
	}
}

func c18Sizes(r *rand.Rand, l, m int) int {
	var n int
	switch r.IntN(14) {
	case 0:
		n = 0
	case 1:
		n = 1
	case 2:
		n = m - 1
	case 3:
		n = m
	case 4:
		n = m + 1
	case 5:
		n = l / 2
	case 6:
		n = l - 1
	case 7:
		n = l
	case 8:
		n = l + 1
	case 9:
		n = l + m
	case 10:
		n = 2 * l
	case 11:
		n = 3*l + 7
	default:
		n = r.IntN(4*l + 2)
	}
	if n < 0 {
		n = 0
	}
	return n
}

var c18Statuses = []int{200, 200, 200, 200, 201, 202, 204, 204, 206, 301, 304, 304, 400, 403, 404, 418, 500, 503}

// c18GenTriple generates a request and a handler script for a configuration.
func c18GenTriple(r *rand.Rand, cfg *c18Cfg) (*c18Req, *c18Script) {
	// which rules to trigger
	trig := map[int]bool{}
	if len(cfg.Rules) > 0 && c18P(r, 0.55) {
		trig[cfg.Rules[r.IntN(len(cfg.Rules))].Phase] = true
		if c18P(r, 0.12) {
			trig[cfg.Rules[r.IntN(len(cfg.Rules))].Phase] = true
		}
	}

	// ---- request
	rq := &c18Req{Path: c18Pick(r, "/", "/a/b", "/item?id=7&x=y", "/p%20q")}
	switch x := r.IntN(100); {
	case x < 60:
		rq.Method = "POST"
	case x < 88:
		rq.Method = "GET"
	case x < 93:
		rq.Method = "HEAD"
	default:
		rq.Method = "PUT"
	}
	wantBodyTrig := false
	if ru := cfg.rule(2); ru != nil && ru.Steer == "reqbody" && trig[2] {
		wantBodyTrig = true
		if rq.Method == "GET" || rq.Method == "HEAD" {
			rq.Method = "POST"
		}
	}
	hasBody := false
	switch rq.Method {
	case "POST", "PUT":
		hasBody = c18P(r, 0.92)
	case "GET":
		hasBody = c18P(r, 0.12)
	}
	if wantBodyTrig {
		hasBody = true
	}
	kind := c18Pick(r, "urlencoded", "urlencoded", "json", "octet")
	if wantBodyTrig && kind == "octet" {
		kind = c18Pick(r, "urlencoded", "urlencoded", "json")
	}
	if hasBody || c18P(r, 0.2) {
		switch kind {
		case "urlencoded":
			rq.CT = "application/x-www-form-urlencoded"
		case "json":
			rq.CT = "application/json"
		default:
			rq.CT = "application/octet-stream"
		}
	}
	if hasBody {
		n := c18Sizes(r, cfg.ReqLimit, cfg.ReqMemLimit)
		if wantBodyTrig && n < len(c18ReqMarker)+10 {
			n = len(c18ReqMarker) + 10 + r.IntN(3*cfg.ReqLimit)
		}
		rq.Chunked = c18P(r, 0.4)
		switch kind {
		case "urlencoded":
			b := c18Fill(r, n)
			copy(b, "a=")
			if n > 12 && c18P(r, 0.5) {
				copy(b[3+r.IntN(n-8):], "&b=")
			}
			if wantBodyTrig {
				c18Overlay(b, c18ReqMarker, c18MarkerOffset(r, n, cfg.ReqLimit, len(c18ReqMarker), 2), 2, n)
			}
			rq.Body = b
		case "json":
			if n < 8 {
				b := make([]byte, n)
				for i := range b {
					b[i] = '1'
				}
				rq.Body = b
			} else {
				b := c18Fill(r, n)
				copy(b, `{"k":"`)
				copy(b[n-2:], `"}`)
				if wantBodyTrig {
					c18Overlay(b, c18ReqMarker, c18MarkerOffset(r, n, cfg.ReqLimit, len(c18ReqMarker), 6), 6, n-2)
				}
				rq.Body = b
			}
		default:
			b := make([]byte, n)
			for i := range b {
				b[i] = byte(r.IntN(256))
			}
			rq.Body = b
		}
	}
	for ph := 1; ph <= 4; ph++ {
		if ru := cfg.rule(ph); ru != nil && ru.Steer == "reqhdr" && trig[ph] {
			if rq.Blk != "" {
				rq.Blk += ","
			}
			rq.Blk += "p" + strconv.Itoa(ph)
		}
	}
	if rq.Blk == "" && c18P(r, 0.2) {
		rq.Blk = "none"
	}

	// ---- script
	sc := &c18Script{}
	add := func(op c18Op) { sc.Ops = append(sc.Ops, op) }

	// response body the handler will attempt to write
	status := 0
	if c18P(r, 0.7) {
		status = c18Statuses[r.IntN(len(c18Statuses))]
	}
	noBody := status == 204 || status == 304
	var total int
	switch x := r.IntN(100); {
	case noBody && x < 75:
		total = 0
	case x < 4:
		total = c18Pick(r, 2040, 2049, 2500, 4097, 5000) // around net/http's own buffers
	default:
		total = c18Sizes(r, cfg.RespLimit, cfg.RespLimit/2+1)
	}
	respTrigBody := false
	if ru := cfg.rule(4); ru != nil && ru.Steer == "respbody" && trig[4] {
		respTrigBody = true
		if total < len(c18RespMarker)+2 {
			total = len(c18RespMarker) + 2 + r.IntN(3*cfg.RespLimit)
		}
	}
	var body []byte
	if c18P(r, 0.2) {
		body = make([]byte, total)
		for i := range body {
			body[i] = byte(r.IntN(256))
		}
	} else {
		body = c18Fill(r, total)
	}
	if respTrigBody {
		c18Overlay(body, c18RespMarker, c18MarkerOffset(r, total, cfg.RespLimit, len(c18RespMarker), 0), 0, total)
	}

	// content type
	ct := ""
	if !c18P(r, 0.12) {
		ct = c18Pick(r, "text/plain", "text/plain; charset=utf-8", "application/json", "text/html", "image/png")
		if respTrigBody && c18P(r, 0.8) {
			ct = cfg.Mime[r.IntN(len(cfg.Mime))]
		}
	}

	// header steering for phase 3 / 4
	var steerVals []string
	for _, ph := range []int{3, 4} {
		if ru := cfg.rule(ph); ru != nil && ru.Steer == "resphdr" && trig[ph] {
			steerVals = append(steerVals, "p"+strconv.Itoa(ph))
		}
	}
	steerLate := len(steerVals) > 0 && c18P(r, 0.1) // set after the commit point: must not match

	// pre-commit operations, shuffled: headers and request-body reads
	var pre []c18Op
	if ct != "" {
		pre = append(pre, c18Op{Op: "hdr", K: "Content-Type", V: ct})
	}
	for _, v := range steerVals {
		if !steerLate {
			pre = append(pre, c18Op{Op: "addhdr", K: c18RespSteer, V: v})
		}
	}
	if c18P(r, 0.5) {
		pre = append(pre, c18Op{Op: "hdr", K: "X-A", V: "v" + strconv.Itoa(r.IntN(100))})
	}
	if c18P(r, 0.25) {
		pre = append(pre, c18Op{Op: "addhdr", K: "X-Multi", V: "one"}, c18Op{Op: "addhdr", K: "X-Multi", V: "two, three"})
	}
	if c18P(r, 0.2) {
		pre = append(pre, c18Op{Op: "addhdr", K: "Set-Cookie", V: "sid=" + strconv.Itoa(r.IntN(1000)) + "; Path=/"})
	}
	if c18P(r, 0.15) {
		pre = append(pre, c18Op{Op: "hdr", K: "Cache-Control", V: "no-store"})
	}
	if c18P(r, 0.08) {
		pre = append(pre, c18Op{Op: "hdr", K: "X-Gone", V: "1"})
	}
	switch x := r.IntN(10); {
	case x < 6:
		pre = append(pre, c18Op{Op: "readbody", N: -1})
	case x < 8:
		n1 := r.IntN(len(rq.Body) + 4)
		pre = append(pre, c18Op{Op: "readbody", N: n1})
		if c18P(r, 0.5) {
			pre = append(pre, c18Op{Op: "readbody", N: r.IntN(len(rq.Body) + 4)})
		}
		if c18P(r, 0.3) {
			pre = append(pre, c18Op{Op: "readbody", N: -1})
		}
	}
	r.Shuffle(len(pre), func(i, j int) { pre[i], pre[j] = pre[j], pre[i] })
	for _, op := range pre {
		add(op)
		if op.K == "X-Gone" && c18P(r, 0.7) {
			add(c18Op{Op: "delhdr", K: "X-Gone"})
		}
	}

	// informational responses
	if c18P(r, 0.12) {
		k := 1 + r.IntN(2)
		for i := 0; i < k; i++ {
			if c18P(r, 0.5) {
				add(c18Op{Op: "hdr", K: "Link", V: fmt.Sprintf("</s%d.css>; rel=preload", i)})
			}
			add(c18Op{Op: "status", Code: c18Pick(r, 100, 102, 103, 103)})
		}
		if c18P(r, 0.4) {
			add(c18Op{Op: "hdr", K: "X-After-Info", V: "1"})
		}
	}

	// explicit Content-Length (exact) now and then
	if total > 0 && !noBody && c18P(r, 0.08) {
		add(c18Op{Op: "hdr", K: "Content-Length", V: strconv.Itoa(total)})
	}
	if c18P(r, 0.06) {
		add(c18Op{Op: "flush"}) // flush before anything else: implicit 200
	}
	if status != 0 {
		add(c18Op{Op: "status", Code: status})
	}

	// body operations
	nchunks := 0
	if total > 0 {
		nchunks = 1 + r.IntN(5)
	} else if c18P(r, 0.3) {
		nchunks = 1 // a Write of zero bytes
	}
	cuts := make([]int, 0, nchunks+1)
	cuts = append(cuts, 0)
	for i := 1; i < nchunks; i++ {
		cuts = append(cuts, r.IntN(total+1))
	}
	cuts = append(cuts, total)
	for i := 1; i < len(cuts); i++ { // insertion sort
		for j := i; j > 0 && cuts[j-1] > cuts[j]; j-- {
			cuts[j-1], cuts[j] = cuts[j], cuts[j-1]
		}
	}
	lateDone := false
	for i := 0; i < nchunks; i++ {
		chunk := body[cuts[i]:cuts[i+1]]
		if c18P(r, 0.25) {
			add(c18Op{Op: "readfrom", Data: chunk, Step: c18Pick(r, 0, 0, 1, 3, 7, 64)})
		} else {
			add(c18Op{Op: "write", Data: chunk})
		}
		if c18P(r, 0.25) {
			add(c18Op{Op: "flush"})
		}
		if !lateDone && c18P(r, 0.08) {
			lateDone = true
			add(c18Op{Op: "hdr", K: "X-Late", V: "1"})
		}
		if c18P(r, 0.04) {
			add(c18Op{Op: "status", Code: c18Pick(r, 200, 500, 404)}) // superfluous
		}
	}
	if steerLate {
		if nchunks == 0 && status == 0 {
			add(c18Op{Op: "flush"})
		}
		for _, v := range steerVals {
			add(c18Op{Op: "addhdr", K: c18RespSteer, V: v})
		}
	}
	if c18P(r, 0.12) {
		add(c18Op{Op: "flush"})
	}
	return rq, sc
}
