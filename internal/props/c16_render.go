package props

// C16: rendering of a description into directive text under a style, splitting into files,
// building the WAF, and the near-miss mutators.

import (
	"fmt"
	"math/rand/v2"
	"os"
	"path/filepath"
	"reflect"
	"sort"
	"strings"
	"testing/fstest"

	coraza "github.com/corazawaf/coraza/v3"
	"github.com/corazawaf/coraza/v3/experimental"
	"github.com/corazawaf/coraza/v3/experimental/verifapi"
	"github.com/corazawaf/coraza/v3/types"
)

// c16Style selects one equivalent way of writing a configuration. The zero value is the canonical
// rendering: one directive per line, registered spelling, quotes only where needed, one string.
type c16Style struct {
	DirCase  int  `json:"dircase,omitempty"`  // 0 as registered, 1 lower, 2 upper, 3 mixed
	ActCase  int  `json:"actcase,omitempty"`  // same, per action name
	Quote    int  `json:"quote,omitempty"`    // 0 only where needed, 1 every value, 2 random
	RxQuote  int  `json:"rxquote,omitempty"`  // regex keys in single quotes: 0 never, 1 always, 2 random
	Cont     int  `json:"cont,omitempty"`     // continuations: 0 none, 1 at every token boundary, 2 random
	Indent   bool `json:"indent,omitempty"`   // leading / trailing blanks on physical lines
	Comments bool `json:"comments,omitempty"` // comment and blank lines between directives
	CRLF     bool `json:"crlf,omitempty"`
	ActSpace bool `json:"actspace,omitempty"` // blanks after the commas of an action list
	TokSpace bool `json:"tokspace,omitempty"` // several blanks between directive arguments
	ValSpace bool `json:"valspace,omitempty"` // blanks between ':' and the value, and between the value and the next ','

	NoFinalNL bool   `json:"nofinalnl,omitempty"`
	Split     string `json:"split,omitempty"` // "", strings, include-flat, include-nested, include-mid, include-glob, include-file, include-real, include-settings
	Files     int    `json:"files,omitempty"` // 1..4
	Seed      uint64 `json:"seed,omitempty"`
}

func (s c16Style) features() []string {
	var f []string
	if s.DirCase != 0 {
		f = append(f, "directive-case")
	}
	if s.ActCase != 0 {
		f = append(f, "action-case")
	}
	if s.Quote != 0 {
		f = append(f, "action-quoting")
	}
	if s.RxQuote != 0 {
		f = append(f, "regex-key-quoting")
	}
	if s.Cont != 0 {
		f = append(f, "continuation")
	}
	if s.Indent {
		f = append(f, "indentation")
	}
	if s.Comments {
		f = append(f, "comments")
	}
	if s.CRLF {
		f = append(f, "crlf")
	}
	if s.ActSpace {
		f = append(f, "action-spacing")
	}
	if s.TokSpace {
		f = append(f, "argument-spacing")
	}
	if s.ValSpace {
		f = append(f, "value-spacing")
	}
	if s.NoFinalNL {
		f = append(f, "no-final-newline")
	}
	if s.Split != "" {
		f = append(f, s.Split)
	}
	return f
}

// only keeps one feature of a style (used to attribute a difference to a construct).
func (s c16Style) only(feature string) c16Style {
	o := c16Style{Seed: s.Seed}
	switch feature {
	case "directive-case":
		o.DirCase = s.DirCase
	case "action-case":
		o.ActCase = s.ActCase
	case "action-quoting":
		o.Quote = s.Quote
	case "regex-key-quoting":
		o.RxQuote = s.RxQuote
	case "continuation":
		o.Cont = s.Cont
	case "indentation":
		o.Indent = true
	case "comments":
		o.Comments = true
	case "crlf":
		o.CRLF = true
	case "action-spacing":
		o.ActSpace = true
	case "argument-spacing":
		o.TokSpace = true
	case "value-spacing":
		o.ValSpace = true
	case "no-final-newline":
		o.NoFinalNL = true
	default:
		o.Split, o.Files = s.Split, s.Files
	}
	return o
}

// include-settings: every settings directive (SecDefaultAction) moves into an included file of its
// own (sometimes one level deeper); the rules that rely on it stay in the including text.
var c16Splits = []string{"strings", "include-flat", "include-nested", "include-mid", "include-glob", "include-file", "include-real", "include-settings"}

func c16RandomStyle(r *rand.Rand) c16Style {
	s := c16Style{Seed: r.Uint64()}
	p := func(x float64) bool { return r.Float64() < x }
	if p(0.5) {
		s.DirCase = 1 + r.IntN(3)
	}
	if p(0.5) {
		s.ActCase = 1 + r.IntN(3)
	}
	if p(0.5) {
		s.Quote = 1 + r.IntN(2)
	}
	if p(0.4) {
		s.RxQuote = 1 + r.IntN(2)
	}
	if p(0.6) {
		s.Cont = 1 + r.IntN(2)
	}
	s.Indent = p(0.5)
	s.Comments = p(0.5)
	s.CRLF = p(0.2)
	s.ActSpace = p(0.3)
	s.TokSpace = p(0.3)
	s.ValSpace = p(0.3)
	s.NoFinalNL = p(0.2)
	if p(0.5) {
		s.Split = c16Pick(r, c16Splits)
		s.Files = 1 + r.IntN(4)
	}
	return s
}

// c16SingleStyles: each feature alone, so that a difference names its construct.
func c16SingleStyles(r *rand.Rand) []c16Style {
	var out []c16Style
	for v := 1; v <= 3; v++ {
		out = append(out, c16Style{DirCase: v}, c16Style{ActCase: v})
	}
	out = append(out, c16Style{Quote: 1}, c16Style{Quote: 2}, c16Style{RxQuote: 1}, c16Style{Cont: 1}, c16Style{Cont: 2},
		c16Style{Indent: true}, c16Style{Comments: true}, c16Style{CRLF: true}, c16Style{ActSpace: true}, c16Style{TokSpace: true}, c16Style{ValSpace: true}, c16Style{NoFinalNL: true})
	for _, sp := range c16Splits {
		out = append(out, c16Style{Split: sp, Files: 1 + r.IntN(4)})
	}
	for i := range out {
		out[i].Seed = r.Uint64()
	}
	return out
}

// ---------------------------------------------------------------------------------------------
// Tokens.

const (
	c16BEnd   = iota // end of directive
	c16BSpace        // between directive arguments: at least one blank
	c16BComma        // after the comma of an action list
	c16BPipe         // after the '|' of a target list
)

type c16Delim struct {
	Off  int    // offset inside the token text
	Kind string // op-open-quote, op-close-quote, actions-open-quote, actions-close-quote, value-open-quote, value-close-quote, action-comma, action-colon, target-pipe, key-colon, regex-open-slash, regex-close-slash
}

type c16Tok struct {
	s      string
	after  int
	delims []c16Delim
}

func c16Letter(r *rand.Rand, mode int, s string) string {
	switch mode {
	case 1:
		return strings.ToLower(s)
	case 2:
		return strings.ToUpper(s)
	case 3:
		b := []byte(s)
		for i, c := range b {
			if r.IntN(2) == 0 {
				if c >= 'a' && c <= 'z' {
					b[i] = c - 32
				} else if c >= 'A' && c <= 'Z' {
					b[i] = c + 32
				}
			}
		}
		return string(b)
	}
	return s
}

func c16NeedsQuotes(v string) bool {
	return v == "" || strings.ContainsAny(v, ",' \t")
}

func c16RenderTarget(t c16Target, st c16Style, r *rand.Rand) (string, []c16Delim) {
	var sb strings.Builder
	var ds []c16Delim
	if t.Excl {
		sb.WriteByte('!')
	}
	if t.Count {
		sb.WriteByte('&')
	}
	sb.WriteString(t.Var)
	switch t.Kind {
	case 1:
		ds = append(ds, c16Delim{sb.Len(), "key-colon"})
		sb.WriteString(":" + string(t.Key))
	case 2:
		ds = append(ds, c16Delim{sb.Len(), "key-colon"})
		sb.WriteByte(':')
		q := st.RxQuote == 1 || (st.RxQuote == 2 && r.IntN(2) == 0)
		if q {
			sb.WriteByte('\'')
		}
		ds = append(ds, c16Delim{sb.Len(), "regex-open-slash"})
		sb.WriteString("/" + string(t.Key))
		ds = append(ds, c16Delim{sb.Len(), "regex-close-slash"})
		sb.WriteByte('/')
		if q {
			sb.WriteByte('\'')
		}
	}
	return sb.String(), ds
}

func c16RuleTokens(rule *c16Rule, st c16Style, r *rand.Rand) []c16Tok {
	return c16RuleTokensNamed(rule, "", st, r)
}

// c16RuleTokensNamed: name overrides the directive name (SecDefaultAction takes an action list like SecAction).
func c16RuleTokensNamed(rule *c16Rule, name string, st c16Style, r *rand.Rand) []c16Tok {
	var toks []c16Tok
	if name == "" {
		name = "SecRule"
		if rule.NoOp {
			name = "SecAction"
		}
	}
	valBlank := func() string {
		if st.ValSpace && r.IntN(5) < 3 {
			return c16Pick(r, []string{" ", "  ", "\t", " \t"})
		}
		return ""
	}
	toks = append(toks, c16Tok{s: c16Letter(r, st.DirCase, name), after: c16BSpace})
	if !rule.NoOp {
		for i, t := range rule.Targets {
			s, ds := c16RenderTarget(t, st, r)
			tok := c16Tok{s: s, delims: ds, after: c16BSpace}
			if i < len(rule.Targets)-1 {
				tok.delims = append(tok.delims, c16Delim{len(s), "target-pipe"})
				tok.s += "|"
				tok.after = c16BPipe
			}
			toks = append(toks, tok)
		}
		op := "@" + rule.OpName
		if rule.OpNeg {
			op = "!" + op
		}
		if rule.OpArg != "" {
			// white space between the operator name and its argument, and after the argument, separates and is no
			// part of the argument, whatever kind of white space it is
			sep, tail := " ", ""
			if st.ValSpace {
				// (the name ends at the first blank: a tab right after the name is not offered)
				sep = c16Pick(r, []string{" ", "  ", " \t", " \t "})
				tail = c16Pick(r, []string{"", "", " ", "\t"})
			}
			op += sep + string(rule.OpArg) + tail
		}
		op = strings.ReplaceAll(op, `"`, `\"`)
		s := `"` + op + `"`
		tok := c16Tok{s: s, after: c16BSpace, delims: []c16Delim{{0, "op-open-quote"}, {len(s) - 1, "op-close-quote"}}}
		if len(rule.Actions) == 0 {
			tok.after = c16BEnd
		}
		toks = append(toks, tok)
	}
	for i, a := range rule.Actions {
		var sb strings.Builder
		var ds []c16Delim
		if i == 0 {
			ds = append(ds, c16Delim{0, "actions-open-quote"})
			sb.WriteByte('"')
		}
		sb.WriteString(c16Letter(r, st.ActCase, a.Name))
		if a.HasVal {
			ds = append(ds, c16Delim{sb.Len(), "action-colon"})
			sb.WriteByte(':')
			sb.WriteString(valBlank())
			v := string(a.Val)
			if c16NeedsQuotes(v) || st.Quote == 1 || (st.Quote == 2 && r.IntN(2) == 0) {
				ds = append(ds, c16Delim{sb.Len(), "value-open-quote"})
				sb.WriteString("'" + v)
				ds = append(ds, c16Delim{sb.Len(), "value-close-quote"})
				sb.WriteByte('\'')
			} else {
				sb.WriteString(v)
			}
			sb.WriteString(valBlank())
		}
		tok := c16Tok{after: c16BComma}
		if i == len(rule.Actions)-1 {
			ds = append(ds, c16Delim{sb.Len(), "actions-close-quote"})
			sb.WriteByte('"')
			tok.after = c16BEnd
		} else {
			ds = append(ds, c16Delim{sb.Len(), "action-comma"})
			sb.WriteByte(',')
		}
		tok.s, tok.delims = sb.String(), ds
		toks = append(toks, tok)
	}
	toks[len(toks)-1].after = c16BEnd
	return toks
}

// c16Directive is one directive as physical text (without its final line break).
func c16Assemble(toks []c16Tok, st c16Style, r *rand.Rand, nl string, depth int) string {
	var sb strings.Builder
	blanks := []string{" ", "  ", "\t", "    ", "\t\t", " \t "}
	if st.Indent {
		if r.IntN(3) > 0 {
			sb.WriteString(c16Pick(r, blanks))
		}
	} else if depth > 0 && st.Cont != 0 {
		sb.WriteString(strings.Repeat("    ", depth))
	}
	contIndent := func() string {
		if st.Indent {
			return c16Pick(r, append(blanks, ""))
		}
		return "    "
	}
	for _, t := range toks {
		sb.WriteString(t.s)
		cont := st.Cont == 1 || (st.Cont == 2 && r.IntN(3) == 0)
		switch t.after {
		case c16BSpace:
			sp := " "
			if st.TokSpace {
				sp = c16Pick(r, []string{" ", "  ", "   "})
			}
			if cont {
				sb.WriteString(sp + `\` + nl + contIndent())
			} else {
				sb.WriteString(sp)
			}
		case c16BComma:
			sp := ""
			if st.ActSpace {
				sp = c16Pick(r, []string{"", " ", "  "})
			}
			if cont {
				sb.WriteString(sp + `\` + nl + contIndent())
			} else {
				sb.WriteString(sp)
			}
		case c16BPipe:
			if cont {
				sb.WriteString(`\` + nl + contIndent())
			}
		case c16BEnd:
			if st.Indent && r.IntN(3) == 0 {
				sb.WriteString(c16Pick(r, []string{" ", "\t", "  "}))
			}
		}
	}
	return sb.String()
}

var c16CommentTexts = []string{"# comment", "#", "#SecRule ARGS \"@rx x\" \"id:1,deny\"", "  # indented, with: commas, 'quotes' and \"quotes\"", "\t#tab", "# SecMarker NOPE",
	"# Include nowhere.conf", "#\\x", "# a `backtick` inside", "#!ARGS:x|ARGS \"", "# é ü"}

// c16Directives renders every directive of a description (chain links are directives of their own).
func c16Directives(d *c16Desc, st c16Style, r *rand.Rand, nl string) []string {
	out, _ := c16DirectivesFlagged(d, st, r, nl)
	return out
}

// c16DirectivesFlagged also says which directives are settings (compile to no rule).
func c16DirectivesFlagged(d *c16Desc, st c16Style, r *rand.Rand, nl string) (out []string, setting []bool) {
	defer func() {
		for len(setting) < len(out) {
			setting = append(setting, false)
		}
	}()
	for _, it := range d.Items {
		if it.Default != nil {
			for len(setting) < len(out) {
				setting = append(setting, false)
			}
			out = append(out, c16Assemble(c16RuleTokensNamed(&c16Rule{NoOp: true, Actions: it.Default}, "SecDefaultAction", st, r), st, r, nl, 0))
			setting = append(setting, true)
			continue
		}
		if it.Marker != "" {
			m := it.Marker
			if st.Quote == 1 || (st.Quote == 2 && r.IntN(2) == 0) {
				m = `"` + m + `"`
			}
			out = append(out, c16Assemble([]c16Tok{{s: c16Letter(r, st.DirCase, "SecMarker"), after: c16BSpace}, {s: m, after: c16BEnd}}, st, r, nl, 0))
			continue
		}
		depth := 0
		for rule := it.Rule; rule != nil; rule = rule.Chain {
			out = append(out, c16Assemble(c16RuleTokens(rule, st, r), st, r, nl, depth))
			depth++
		}
	}
	return out, setting
}

// ---------------------------------------------------------------------------------------------
// Configurations.

const c16RootMark = "@@C16ROOT@@"

type c16Config struct {
	Parts []string          `json:"parts,omitempty"` // WithDirectives, in order
	Files map[string]string `json:"files,omitempty"` // included files (fs.FS, or real files when Real)
	Entry string            `json:"entry,omitempty"` // WithDirectivesFromFile (after Parts)
	Real  bool              `json:"real,omitempty"`  // files live on disk; c16RootMark in texts stands for their directory
}

func (c *c16Config) maxLine() int {
	m := 0
	scan := func(s string) {
		for _, ln := range strings.Split(s, "\n") {
			if len(ln) > m {
				m = len(ln)
			}
		}
	}
	for _, p := range c.Parts {
		scan(p)
	}
	for _, f := range c.Files {
		scan(f)
	}
	return m
}

func c16Render(d *c16Desc, st c16Style) *c16Config {
	r := rand.New(rand.NewPCG(st.Seed, 0xc16))
	nl := "\n"
	if st.CRLF {
		nl = "\r\n"
	}
	dirs, isSetting := c16DirectivesFlagged(d, st, r, nl)
	// join a slice of directives into file text
	join := func(ds []string, last bool) string {
		var sb strings.Builder
		for i, s := range ds {
			if st.Comments {
				for k := r.IntN(3); k > 0; k-- {
					if r.IntN(3) == 0 {
						sb.WriteString(c16Pick(r, []string{"", "  ", "\t"}) + nl)
					} else {
						sb.WriteString(c16Pick(r, c16CommentTexts) + nl)
					}
				}
			}
			sb.WriteString(s)
			if i < len(ds)-1 || !(last && st.NoFinalNL) {
				sb.WriteString(nl)
			}
		}
		if st.Comments && r.IntN(2) == 0 && !(last && st.NoFinalNL) {
			sb.WriteString(c16Pick(r, c16CommentTexts) + nl)
		}
		return sb.String()
	}
	if st.Split == "" {
		return &c16Config{Parts: []string{join(dirs, true)}}
	}
	if st.Split == "include-settings" {
		cfg := &c16Config{Files: map[string]string{}}
		var main []string
		for i, s := range dirs {
			if !isSetting[i] {
				main = append(main, s)
				continue
			}
			n := fmt.Sprintf("s%d.conf", i)
			kw := c16Letter(r, st.DirCase, "Include")
			if r.IntN(5) < 2 {
				// one level deeper
				inner := fmt.Sprintf("s%d-inner.conf", i)
				cfg.Files[inner] = s + nl
				cfg.Files[n] = kw + " " + inner + nl
			} else {
				cfg.Files[n] = s + nl
			}
			main = append(main, kw+" "+n)
		}
		if len(cfg.Files) > 0 {
			cfg.Parts = []string{join(main, true)}
			return cfg
		}
		st.Split = "include-mid" // nothing to move: fall back to an ordinary split
	}
	k := st.Files
	if k < 1 {
		k = 1
	}
	if k > len(dirs) {
		k = len(dirs)
	}
	// cut points at directive boundaries (also between a chain starter and its link)
	cuts := map[int]bool{}
	for len(cuts) < k-1 {
		cuts[1+r.IntN(len(dirs)-1)] = true
	}
	var chunks [][]string
	start := 0
	for i := 1; i <= len(dirs); i++ {
		if i == len(dirs) || cuts[i] {
			chunks = append(chunks, dirs[start:i])
			start = i
		}
	}
	inc := func(name string) string {
		kw := c16Letter(r, st.DirCase, "Include")
		if r.IntN(3) == 0 {
			name = `"` + name + `"`
		}
		return kw + " " + name
	}
	cfg := &c16Config{Files: map[string]string{}}
	switch st.Split {
	case "strings":
		for i, c := range chunks {
			cfg.Parts = append(cfg.Parts, join(c, i == len(chunks)-1))
		}
		cfg.Files = nil
	case "include-flat", "include-file", "include-real":
		var main []string
		prefix := ""
		if st.Split == "include-real" {
			cfg.Real = true
			prefix = c16RootMark + "/"
		}
		for i, c := range chunks {
			n := fmt.Sprintf("p%d.conf", i)
			cfg.Files[n] = join(c, false)
			main = append(main, inc(prefix+n))
		}
		if st.Split == "include-file" {
			cfg.Files["main.conf"] = strings.Join(main, nl) + nl
			cfg.Entry = "main.conf"
		} else {
			cfg.Parts = []string{strings.Join(main, nl) + nl}
		}
	case "include-nested":
		for i, c := range chunks {
			txt := join(c, false)
			if i < len(chunks)-1 {
				txt += inc(fmt.Sprintf("p%d.conf", i+1)) + nl
			}
			cfg.Files[fmt.Sprintf("p%d.conf", i)] = txt
		}
		cfg.Parts = []string{inc("p0.conf")}
	case "include-mid":
		var sb strings.Builder
		for i, c := range chunks {
			if i%2 == 1 {
				n := fmt.Sprintf("p%d.conf", i)
				cfg.Files[n] = join(c, false)
				sb.WriteString(inc(n) + nl)
			} else {
				sb.WriteString(join(c, false))
			}
		}
		cfg.Parts = []string{sb.String()}
	case "include-glob":
		for i, c := range chunks {
			cfg.Files[fmt.Sprintf("inc/%02d-part.conf", i)] = join(c, false)
		}
		cfg.Files["inc/zz.txt"] = "SecMarker NOT_INCLUDED" + nl
		cfg.Parts = []string{inc("inc/*.conf") + nl}
	}
	return cfg
}

type c16Meta struct {
	ID       int
	Mark     string
	Phase    int
	Severity string
	Rev, Ver string
	Tags     []string
	Maturity int
}

// c16Build compiles a configuration. scratch is used for real files only.
func c16Build(c *c16Config, scratch string, seq *int) (coraza.WAF, []c16Meta, error) {
	cfg := coraza.NewWAFConfig()
	root := ""
	if c.Real {
		*seq++
		root = filepath.Join(scratch, fmt.Sprintf("c16-%d", *seq))
		if err := os.MkdirAll(root, 0o755); err != nil {
			return nil, nil, fmt.Errorf("harness: %w", err)
		}
		defer os.RemoveAll(root)
		for n, txt := range c.Files {
			p := filepath.Join(root, n)
			os.MkdirAll(filepath.Dir(p), 0o755)
			if err := os.WriteFile(p, []byte(strings.ReplaceAll(txt, c16RootMark, root)), 0o644); err != nil {
				return nil, nil, fmt.Errorf("harness: %w", err)
			}
		}
	} else if len(c.Files) > 0 {
		m := fstest.MapFS{}
		for n, txt := range c.Files {
			m[n] = &fstest.MapFile{Data: []byte(txt)}
		}
		cfg = cfg.WithRootFS(m)
	}
	for _, p := range c.Parts {
		cfg = cfg.WithDirectives(strings.ReplaceAll(p, c16RootMark, root))
	}
	if c.Entry != "" {
		cfg = cfg.WithDirectivesFromFile(c.Entry)
	}
	var metas []c16Meta
	cfg = experimental.WAFConfigWithRuleObserver(cfg, func(m types.RuleMetadata) {
		metas = append(metas, c16Meta{ID: m.ID(), Mark: m.SecMark(), Phase: int(m.Phase()), Severity: m.Severity().String(), Rev: m.Revision(), Ver: m.Version(),
			Tags: append([]string(nil), m.Tags()...), Maturity: m.Maturity()})
	})
	waf, err := coraza.NewWAF(cfg)
	return waf, metas, err
}

// c16DumpString is a byte-exact, address-free text form of compiled rules (JSON would fold invalid UTF-8).
func c16DumpString(rules []*verifapi.Rule) string {
	var sb strings.Builder
	for i, r := range rules {
		fmt.Fprintf(&sb, "#%d ", i)
		c16Deep(&sb, reflect.ValueOf(r))
		sb.WriteByte('\n')
	}
	return sb.String()
}

func c16Deep(sb *strings.Builder, v reflect.Value) {
	switch v.Kind() {
	case reflect.Ptr:
		if v.IsNil() {
			sb.WriteString("nil")
			return
		}
		c16Deep(sb, v.Elem())
	case reflect.Struct:
		sb.WriteByte('{')
		for i := 0; i < v.NumField(); i++ {
			sb.WriteString(v.Type().Field(i).Name + ":")
			c16Deep(sb, v.Field(i))
			sb.WriteByte(' ')
		}
		sb.WriteByte('}')
	case reflect.Slice:
		sb.WriteByte('[')
		for i := 0; i < v.Len(); i++ {
			c16Deep(sb, v.Index(i))
			sb.WriteByte(' ')
		}
		sb.WriteByte(']')
	case reflect.String:
		fmt.Fprintf(sb, "%q", v.String())
	default:
		fmt.Fprintf(sb, "%v", v.Interface())
	}
}

// c16FirstDiff points at the first differing line of two dump strings.
func c16FirstDiff(a, b string) string {
	la, lb := strings.Split(a, "\n"), strings.Split(b, "\n")
	for i := 0; i < len(la) || i < len(lb); i++ {
		var x, y string
		if i < len(la) {
			x = la[i]
		}
		if i < len(lb) {
			y = lb[i]
		}
		if x != y {
			// narrow to the differing region
			p := 0
			for p < len(x) && p < len(y) && x[p] == y[p] {
				p++
			}
			from := p - 60
			if from < 0 {
				from = 0
			}
			cut := func(s string) string {
				if from > len(s) {
					return ""
				}
				s = s[from:]
				if len(s) > 260 {
					s = s[:260] + "…"
				}
				return s
			}
			return fmt.Sprintf("rule #%d differs at byte %d: canonical …%s  |  rendering …%s", i, p, cut(x), cut(y))
		}
	}
	return ""
}

// ---------------------------------------------------------------------------------------------
// Near misses.

type c16NearMiss struct {
	Kind string `json:"kind"` // delimiter kind
	Edit string `json:"edit"` // delete | duplicate
	Text string `json:"text"`
}

// c16CanonicalLine renders a single rule (no chain) on one line and reports its delimiters.
func c16CanonicalLine(rule *c16Rule) (string, []c16Delim) {
	r := rand.New(rand.NewPCG(1, 1))
	toks := c16RuleTokens(rule, c16Style{}, r)
	var sb strings.Builder
	var ds []c16Delim
	for _, t := range toks {
		for _, d := range t.delims {
			ds = append(ds, c16Delim{Off: sb.Len() + d.Off, Kind: d.Kind})
		}
		sb.WriteString(t.s)
		if t.after == c16BSpace {
			sb.WriteByte(' ')
		}
	}
	return sb.String(), ds
}

func c16NearMisses(rule *c16Rule, r *rand.Rand, max int) []c16NearMiss {
	line, ds := c16CanonicalLine(rule)
	r.Shuffle(len(ds), func(i, j int) { ds[i], ds[j] = ds[j], ds[i] })
	// one of each kind first
	sort.SliceStable(ds, func(i, j int) bool { return false })
	seen := map[string]int{}
	var out []c16NearMiss
	for _, d := range ds {
		if seen[d.Kind] >= 2 {
			continue
		}
		seen[d.Kind]++
		out = append(out, c16NearMiss{Kind: d.Kind, Edit: "delete", Text: line[:d.Off] + line[d.Off+1:]})
		out = append(out, c16NearMiss{Kind: d.Kind, Edit: "duplicate", Text: line[:d.Off+1] + line[d.Off:]})
		if len(out) >= max {
			break
		}
	}
	return out
}

// c16Invalid lists texts that certainly cannot represent any rule; NewWAF must reject each.
type c16InvalidCase struct {
	Shape string `json:"shape"`
	Text  string `json:"text"`
}

func c16InvalidShapes(rule *c16Rule, r *rand.Rand) []c16InvalidCase {
	if rule.NoOp || len(rule.Targets) == 0 {
		return nil
	}
	var out []c16InvalidCase
	clone := func() *c16Rule {
		c := *rule
		c.Chain = nil
		c.Targets = append([]c16Target(nil), rule.Targets...)
		c.Actions = nil
		for _, a := range rule.Actions {
			if strings.ToLower(a.Name) != "chain" {
				c.Actions = append(c.Actions, a)
			}
		}
		return &c
	}
	base := clone()
	line, ds := c16CanonicalLine(base)
	// targets only: no operator at all
	var tl []string
	for _, t := range base.Targets {
		s, _ := c16RenderTarget(t, c16Style{}, r)
		tl = append(tl, s)
	}
	targets := strings.Join(tl, "|")
	out = append(out, c16InvalidCase{"missing-operator", "SecRule " + targets})
	// unterminated operator quote: only judged when no other double quote can pair with the opening one
	if !strings.Contains(string(base.OpArg), `"`) {
		op := "@" + base.OpName + " " + string(base.OpArg)
		out = append(out, c16InvalidCase{"unterminated-operator-quote", "SecRule " + targets + ` "` + strings.TrimSpace(op)})
		for _, d := range ds {
			if d.Kind == "op-close-quote" && strings.Count(line, `"`) == 4 {
				out = append(out, c16InvalidCase{"unterminated-operator-quote", line[:d.Off] + line[d.Off+1:]})
			}
		}
	}
	// a fourth argument after the action list (only judged when the line holds just the four quotes of the operator
	// and of the action list); only lists ending in an action without a value: after a
	// last action WITH a value the parser takes the rest of the line into that value (a leniency counted among the near
	// misses, not judged)
	if len(base.Actions) > 0 && strings.Count(line, `"`) == 4 && strings.HasSuffix(line, `"`) && !base.Actions[len(base.Actions)-1].HasVal {
		out = append(out, c16InvalidCase{"fourth-argument-after-action-list", line + ` "t:none,pass"`})
	}
	// unknown names
	c := clone()
	c.OpName += "Zq"
	l, _ := c16CanonicalLine(c)
	out = append(out, c16InvalidCase{"unknown-operator", l})
	c = clone()
	i := r.IntN(len(c.Targets))
	c.Targets[i].Var += "_ZQ"
	l, _ = c16CanonicalLine(c)
	out = append(out, c16InvalidCase{"unknown-variable", l})
	if len(base.Actions) > 0 {
		c = clone()
		c.Actions = append([]c16Act(nil), c.Actions...)
		j := r.IntN(len(c.Actions))
		c.Actions[j].Name += "zq"
		l, _ = c16CanonicalLine(c)
		out = append(out, c16InvalidCase{"unknown-action", l})
	}
	// empty negated selector, last in the list
	var sel string
	for _, t := range base.Targets {
		if !t.Excl && !c16PathVars[t.Var] && c16In(c16Vocabulary().selectable, t.Var) {
			sel = t.Var
		}
	}
	if sel != "" {
		rest := line[len("SecRule "+targets):]
		out = append(out, c16InvalidCase{"empty-negated-selector", "SecRule " + targets + "|!" + sel + ":" + rest})
		// … and in the middle of the list, followed by another target
		out = append(out, c16InvalidCase{"empty-negated-selector", "SecRule " + targets + "|!" + sel + ":|REQUEST_METHOD" + rest})
	}
	return out
}
