package props

import (
	"bufio"
	"encoding/json"
	"fmt"
	"os"
	"os/exec"
	"path/filepath"
	"regexp"
	"runtime"
	"strconv"
	"strings"

	"verif/internal/fw"
)

// Thorough-tier cross-check of C20: the same scenarios with a *system call* failing instead of a
// failpoint. A child worker runs one scenario with its goroutine locked to an OS thread and the
// transaction bracketed by two sentinel openat calls; the parent first traces the child to learn
// the ordinals of the file system calls made between the sentinels, then re-runs it once per call
// under `strace -e inject=<syscall>:error=<errno>:when=<ordinal>`. A run counts only when the trace
// shows exactly one injected call, made between the sentinels on the workload thread and aimed at
// a file of the run's private directories. This reaches operations that carry no failpoint, and
// handling of real errors (a failpoint returns before the real call).

var c20StraceScenarios = []string{"spill/write", "spill/first-chunk-spills", "readback/write", "multipart/off/2files", "multipart/off/3files",
	"audit/serial/native/spill", "audit/concurrent/json/spill", "audit/concurrent/multipart"}

var c20StraceErrno = map[string]string{"openat": "EACCES", "write": "ENOSPC", "pwrite64": "ENOSPC", "pread64": "EIO", "close": "EIO", "unlinkat": "EACCES", "mkdirat": "EACCES"}

const c20StraceTrace = "openat,write,pwrite64,pread64,close,unlinkat,mkdirat"

type c20ChildParams struct {
	Scenario string `json:"scenario"`
}

type c20ChildOut struct {
	Run  *c20Run `json:"run"`
	Base string  `json:"base"` // private directory of the run
}

// c20StraceChild is the body of the child worker.
func c20StraceChild(w *fw.W, name string) {
	runtime.LockOSThread()
	var sc *c20Scenario
	for _, s := range c20Scenarios(false, fw.NewRng(w.Seed, "C20-scenarios", 0)) {
		if s.Name == name {
			sc = s
		}
	}
	if sc == nil {
		return
	}
	e := &c20Env{Scratch: w.Scratch, probeRef: map[string]*c20ProbeOut{}}
	c20Exec(e, &c20Case{Scenario: sc, Mode: "base"}) // warm-up, outside the sentinels
	e.Sentinel = func(n string) {
		if f, err := os.Open("/c20-sentinel-" + n); err == nil {
			f.Close()
		}
	}
	r := c20Exec(e, &c20Case{Scenario: sc, Mode: "base"})
	w.Record("c20child", &c20ChildOut{Run: r, Base: e.LastDirs.Base})
	w.Eval(1)
}

type c20TraceCall struct {
	Sys      string
	Ord      int // ordinal of this system call on its thread (what strace's when= counts)
	Line     string
	Injected bool
	InWindow bool
}

var reStraceLine = regexp.MustCompile(`^(\d+)\s+(?:<\.\.\. (\w+) resumed>|(\w+)\()`)

// c20ParseTrace returns the calls of the workload thread (the one that made the sentinel calls).
func c20ParseTrace(path string) (calls []c20TraceCall, injectedElsewhere int, ok bool) {
	f, err := os.Open(path)
	if err != nil {
		return nil, 0, false
	}
	defer f.Close()
	type ev struct {
		tid, sys, line string
		resumed        bool
	}
	var evs []ev
	sc := bufio.NewScanner(f)
	sc.Buffer(make([]byte, 1<<20), 1<<24)
	for sc.Scan() {
		m := reStraceLine.FindStringSubmatch(sc.Text())
		if m == nil {
			continue
		}
		if m[2] != "" {
			evs = append(evs, ev{m[1], m[2], sc.Text(), true})
		} else {
			evs = append(evs, ev{m[1], m[3], sc.Text(), false})
		}
	}
	tid := ""
	for _, e := range evs {
		if strings.Contains(e.line, "/c20-sentinel-begin") {
			tid = e.tid
		}
	}
	if tid == "" {
		return nil, 0, false
	}
	ord := map[string]int{}
	in, seenEnd := false, false
	for _, e := range evs {
		if e.tid != tid {
			if strings.Contains(e.line, "(INJECTED)") {
				injectedElsewhere++
			}
			continue
		}
		if e.resumed {
			if strings.Contains(e.line, "(INJECTED)") {
				for i := len(calls) - 1; i >= 0; i-- {
					if calls[i].Sys == e.sys {
						calls[i].Injected = true
						calls[i].Line += " " + e.line
						break
					}
				}
			}
			continue
		}
		ord[e.sys]++
		if strings.Contains(e.line, "/c20-sentinel-begin") {
			in = true
			continue
		}
		if strings.Contains(e.line, "/c20-sentinel-end") {
			in, seenEnd = false, true
			continue
		}
		calls = append(calls, c20TraceCall{Sys: e.sys, Ord: ord[e.sys], Line: e.line, Injected: strings.Contains(e.line, "(INJECTED)"), InWindow: in})
	}
	return calls, injectedElsewhere, seenEnd
}

func c20ReadChild(outPath string) *c20ChildOut {
	f, err := os.Open(outPath)
	if err != nil {
		return nil
	}
	defer f.Close()
	sc := bufio.NewScanner(f)
	sc.Buffer(make([]byte, 1<<20), 1<<26)
	for sc.Scan() {
		var l struct {
			T   string `json:"t"`
			Rec *struct {
				Key   string          `json:"k"`
				Value json.RawMessage `json:"v"`
			} `json:"rec"`
		}
		if json.Unmarshal(sc.Bytes(), &l) != nil || l.T != "rec" || l.Rec == nil || l.Rec.Key != "c20child" {
			continue
		}
		var out c20ChildOut
		if json.Unmarshal(l.Rec.Value, &out) == nil && out.Run != nil {
			return &out
		}
	}
	return nil
}

type c20StraceCase struct {
	Scenario string `json:"scenario"`
	Syscall  string `json:"syscall"`
	Errno    string `json:"errno"`
	Ordinal  int    `json:"ordinal_on_thread"`
	Call     string `json:"injected_call"`
}

// c20StraceSweep runs the cross-check for one scenario (onlySys restricts it to one system call: replay).
func c20StraceSweep(w *fw.W, name, onlySys string) {
	exe, err := os.Executable()
	if err != nil {
		w.Count("strace_unavailable", 1)
		return
	}
	n := 0
	child := func(inject string) (*c20ChildOut, []c20TraceCall, int, bool) {
		n++
		dir := filepath.Join(w.Scratch, fmt.Sprintf("st%04d", n))
		os.MkdirAll(dir, 0o755)
		trace := filepath.Join(dir, "trace.txt")
		out := filepath.Join(dir, "out.jsonl")
		bj, _ := json.Marshal(fw.Batch{Index: 0, Flavour: "plain", Params: mustRaw(map[string]any{"child": c20ChildParams{Scenario: name}})})
		args := []string{"-f", "-y", "-s", "16", "-o", trace, "-e", "trace=" + c20StraceTrace}
		if inject != "" {
			args = append(args, "-e", "inject="+inject)
		}
		args = append(args, exe, "work", "--id", "C20", "--tier", string(w.Tier), "--seed", strconv.FormatInt(w.Seed, 10), "--flavour", "plain",
			"--out", out, "--scratch", dir, "--batch", string(bj))
		cmd := exec.Command("strace", args...)
		cmd.Env = append(os.Environ(), "GOMAXPROCS=1", "TMPDIR="+dir)
		cmd.Dir = dir
		lf, _ := os.Create(filepath.Join(dir, "log.txt"))
		cmd.Stdout, cmd.Stderr = lf, lf
		runErr := cmd.Run()
		lf.Close()
		calls, elsewhere, ok := c20ParseTrace(trace)
		res := c20ReadChild(out)
		if runErr != nil && res == nil && !ok {
			if data, _ := os.ReadFile(filepath.Join(dir, "log.txt")); strings.Contains(string(data), "ptrace") || strings.Contains(string(data), "PTRACE") {
				w.Cover("strace_errors", tailStr(string(data), 200))
			}
		}
		defer os.RemoveAll(dir)
		return res, calls, elsewhere, ok
	}

	base, calls, _, ok := child("")
	if base == nil || !ok {
		w.Count("strace_unavailable", 1)
		return
	}
	w.Count("strace_available", 1)
	w.Count("strace_scenarios", 1)
	for _, tc := range calls {
		if !tc.InWindow {
			continue
		}
		errno, known := c20StraceErrno[tc.Sys]
		if !known || (onlySys != "" && tc.Sys != onlySys) {
			continue
		}
		w.Count("strace_calls_in_window", 1)
		if tc.Sys == "pread64" && strings.HasSuffix(strings.TrimSpace(tc.Line), ") = 0") {
			// the end-of-file probe of a ReadAt whose data has already been delivered: nothing the
			// transaction needs depends on it, so its failure need not surface
			w.Count("strace_eof_probes_skipped", 1)
			continue
		}
		if !strings.Contains(tc.Line, base.Base) && !strings.Contains(tc.Line, "/dev/full") {
			w.Count("strace_calls_not_on_private_files", 1)
			continue
		}
		res, icalls, elsewhere, ok2 := child(fmt.Sprintf("%s:error=%s:when=%d", tc.Sys, errno, tc.Ord))
		var hit *c20TraceCall
		nhit := elsewhere
		for i := range icalls {
			if icalls[i].Injected {
				nhit++
				hit = &icalls[i]
			}
		}
		if res == nil || !ok2 || nhit != 1 || hit == nil || !hit.InWindow || hit.Sys != tc.Sys || !strings.Contains(hit.Line, res.Base) && !strings.Contains(hit.Line, "/dev/full") {
			w.Count("strace_runs_discarded", 1)
			continue
		}
		w.Count("strace_injections", 1)
		w.Count("strace_injected:"+tc.Sys, 1)
		call := strings.ReplaceAll(hit.Line, res.Base, "<run>")
		if len(call) > 200 {
			call = call[:200]
		}
		sc := &c20StraceCase{Scenario: name, Syscall: tc.Sys, Errno: errno, Ordinal: tc.Ord, Call: call}
		c20JudgeStrace(w, sc, res.Run, base.Run)
	}
}

func c20JudgeStrace(w *fw.W, sc *c20StraceCase, r, base *c20Run) {
	w.Eval(1)
	kind := strings.SplitN(sc.Scenario, "/", 2)[0]
	class := func(mon string) string { return mon + ":strace." + sc.Syscall + ":" + kind }
	w.Nontrivial(fw.Hash(fmt.Sprintf("strace|%s|%s|%d", sc.Scenario, sc.Syscall, sc.Ordinal)))
	ob := &c20Obs{Run: r, Baseline: base.Traces()}
	if r.Panic != nil {
		w.Violation(class("panic"), "recover", sc, "no panic", ob, fmt.Sprintf("panic in %s: %s at %s", r.PanicAt, r.Panic.Value, r.Panic.Frame))
	}
	if sc.Syscall != "unlinkat" { // a removal that is made to fail leaves its file by construction
		var bad []string
		for _, f := range r.Left {
			name := filepath.Base(f)
			if strings.Contains(f, "/upl/") && strings.HasPrefix(name, "crzmp") && r.KeepApply {
				continue
			}
			bad = append(bad, filepath.Base(filepath.Dir(f))+"/"+name)
		}
		w.Count("files_checked", len(r.Left)+1)
		if len(bad) > 0 {
			w.Violation(class("leftover-file"), "directory-listing", sc, "no file created during the transaction remains after Close", ob, fmt.Sprintf("left behind: %v", bad))
		}
	}
	if sc.Syscall != "close" && len(r.FdNew) > 0 { // an injected close is never executed: the descriptor stays open by construction
		w.Violation(class("fd-leak"), "/proc/self/fd", sc, "no new path descriptors", ob, fmt.Sprintf("still open after Close: %v", r.FdNew))
	}
	if nt := c20NewTraces(r, base); len(nt) == 0 {
		w.Violation(class("swallowed"), "failure-trace", sc, "a returned error, an error variable, an Error-level log entry or an interruption that the untampered run does not have", ob,
			fmt.Sprintf("%s failed with %s (%s), but the run shows no trace of it", sc.Syscall, sc.Errno, sc.Call))
	}
	if w.WantSample() {
		w.Sample(map[string]any{"scenario": sc.Scenario, "mode": "strace", "syscall": sc.Syscall, "errno": sc.Errno, "ordinal_on_thread": sc.Ordinal, "call": sc.Call, "new_traces": c20NewTraces(r, base)})
	}
}

func mustRaw(v any) json.RawMessage { b, _ := json.Marshal(v); return b }

func tailStr(s string, n int) string {
	if len(s) > n {
		return s[len(s)-n:]
	}
	return s
}
