//go:build !coraza.rule.no_regex_multiline

package props

// rxBuildWrap is the mode prefix @rx puts in front of its argument in this build (rx.go: "(?sm)" by
// default, "(?s)" with the documented tag coraza.rule.no_regex_multiline). The harness is built with
// the same tags as the library, so the reference regular expressions follow the build.
const rxBuildWrap = "(?sm)"
