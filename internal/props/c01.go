package props

import (
	"encoding/json"

	coraza "github.com/corazawaf/coraza/v3"

	"verif/internal/fw"
	"verif/internal/gen"
	"verif/internal/sl"
)

type c01Case struct {
	Program *sl.Program `json:"program"`
	Text    string      `json:"text"`
	Req     *sl.Req     `json:"req"`
}

// unjudgedRun executes a case whose outcome the model does not predict: the engine still must not panic on it.
func unjudgedRun(w *fw.W, waf coraza.WAF, c any, req *sl.Req) {
	w.Trace(c)
	got := sl.Exec(waf, req)
	w.Count("unjudged_cases_executed_for_panics", 1)
	if got.Panic != "" {
		w.Violation("panic-on-unjudged-case", "recover", c, "no panic", got, got.Panic)
	}
}

func c01Judge(w *fw.W, c *c01Case, reps int) bool {
	waf, err := sl.BuildText(c.Text)
	if err != nil {
		w.Count("build_errors", 1)
		w.Cover("build_error_samples", err.Error())
		return false
	}
	defer sl.CloseWAF(waf)
	exp := sl.Run(c.Program, c.Req)
	if exp.Ambiguous != "" {
		w.Count("ambiguous_skipped", 1)
		w.Cover("ambiguous_reasons", exp.Ambiguous)
		w.Count("ambiguous: "+exp.Ambiguous, 1)
		unjudgedRun(w, waf, c, c.Req)
		return false
	}
	for i := 0; i < reps; i++ {
		w.Trace(c)
		got := sl.Exec(waf, c.Req)
		w.Eval(1)
		if d := sl.Compare(exp, got, sl.CompareOpts{Evaluated: true, TX: true}); d != "" {
			w.Violation(c01Class(d, c, exp, got), "reference-model", c, exp, got, d)
			return true
		}
	}
	c01Cover(w, c, exp)
	return true
}

func c01Class(d string, c *c01Case, exp *sl.Result, got *sl.ExecResult) string {
	if got.Panic != "" {
		return "panic"
	}
	return "mismatch:" + sl.DiffKind(d)
}

func c01Cover(w *fw.W, c *c01Case, exp *sl.Result) {
	fired := len(exp.Fired)
	total := 0
	for _, it := range c.Program.Items {
		if it.Rule == nil {
			continue
		}
		total++
		for lvl := it.Rule; lvl != nil; lvl = lvl.Chain {
			if lvl.Op != nil {
				w.Count("op:"+lvl.Op.Name, 1)
				if lvl.Op.Neg {
					w.Count("negated", 1)
				}
			}
			for _, t := range lvl.Trans {
				w.Count("t:"+t, 1)
			}
			for _, s := range lvl.Targets {
				w.Count("col:"+s.Var, 1)
				switch {
				case s.Excl:
					w.Count("sel:exclusion", 1)
				case s.Count:
					w.Count("sel:count", 1)
				case s.Kind == 1:
					w.Count("sel:string", 1)
				case s.Kind == 2:
					w.Count("sel:regex", 1)
				default:
					w.Count("sel:all", 1)
				}
			}
			if lvl.MultiMatch {
				w.Count("multimatch_levels", 1)
			}
		}
		if it.Rule.Chain != nil {
			w.Count("chains", 1)
		}
	}
	w.Count("fired", fired)
	w.Count("not_fired", total-fired)
	for _, f := range exp.Fired {
		if len(f.Matches) > 1 {
			w.Count("fired_with_several_matches", 1)
		}
	}
	if fired > 0 && fired < total {
		w.Nontrivial(fw.Hash(c.Text) ^ fw.Hash(c.Req))
	}
}

func init() {
	fw.Register(&fw.Prop{
		ID: "C01", Level: "exploration",
		Rule: "rule sets generated from the SecLang matching core (collections x string/regex selectors x exclusions x counts x transformation lists x operators x negation x chains x multiMatch, phases 1-5) run against generated requests with colliding, mixed-case and non-UTF-8 names/values, 3 repetitions each; fired ids, matched (variable,key,value) multisets, values presented to a recording operator, evaluated-rule lists and TX are compared with an independent reference interpreter. A case is non-trivial when at least one rule fired and at least one did not; distinct by hash of (rule-set text, request).",
		Assumptions: []string{"the reference interpreter (internal/sl/model.go) is the oracle; cases it marks ambiguous (case-folded regex keys with diverging readings, non-canonical integers, invalid UTF-8 under @rx/lowercase) are skipped and counted",
			"request data is fed through the Add*Argument/AddRequestHeader API, so URL decoding is outside this check (C03)"},
		Required: []string{"fired", "not_fired", "chains"},
		Plan: func(tier fw.Tier, seed int64) []fw.Batch {
			n := 16
			if tier == fw.Thorough {
				n = 64
			}
			var bs []fw.Batch
			for i := 0; i < n; i++ {
				bs = append(bs, fw.Batch{Index: i, Flavour: "plain", TimeoutS: 1200})
			}
			return bs
		},
		Run: func(w *fw.W, b fw.Batch) {
			progs, reqs := 500, 12
			if w.Tier == fw.Thorough {
				progs, reqs = 4000, 16
			}
			for i := 0; i < progs; i++ {
				p := gen.MatchProgram(w.Rng)
				text := p.Render()
				for j := 0; j < reqs; j++ {
					c := &c01Case{Program: p, Text: text, Req: gen.Request(w.Rng)}
					if !c01Judge(w, c, 3) && j == 0 {
						// build error: do not waste requests on it
						if _, err := sl.BuildText(text); err != nil {
							break
						}
					}
					if w.WantSample() && j == 0 {
						w.Sample(map[string]any{"rules": text, "request": c.Req})
					}
				}
			}
		},
		Replay: func(w *fw.W, raw json.RawMessage) {
			var c c01Case
			if json.Unmarshal(raw, &c) != nil {
				return
			}
			if c.Text == "" && c.Program != nil {
				c.Text = c.Program.Render()
			}
			c01Judge(w, &c, 20)
		},
	})
}
