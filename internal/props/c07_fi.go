package props

import (
	"bytes"
	"compress/gzip"
	"encoding/base64"
	"encoding/json"
	"fmt"
	"io"
	"math/rand/v2"
	"sort"
	"strings"

	coraza "github.com/corazawaf/coraza/v3"
	"github.com/corazawaf/coraza/v3/types"

	"verif/internal/fw"
	"verif/internal/obs"
)

// Feature-interaction population of C07.
//
// Panics hide in interactions of three or more stateful features that random configuration text
// rarely combines (e.g. audit engine RelevantOnly + a matching disruptive rule + a later
// ctl:ruleEngine switch). This population assembles valid, structured configurations from a
// catalogue of such features. A configuration takes one value per settings dimension (engine mode,
// audit engine, relevant status, audit parts / format / writer, body access, body limits and limit
// actions, SecDefaultAction, ...) and 6-10 rule features (disruptive actions of every kind, every
// ctl switch, skip/skipAfter, ctl:ruleRemove*, setvar/expirevar/initcol/setenv with macros, capture,
// multiMatch, ...), each rule feature in a random phase 1-5, optionally as chain starter, optionally
// two features on one rule. Every rule is steerable from the request (argument f<k> / header X-F<k> /
// body token / response header / response body token; chain links by c<k> / X-C<k>), so that the
// request chooses the subset of features that fires. Each configuration is driven through complete
// and truncated / reordered call sequences.
//
// Coverage: the first configurations (the same list in every batch, computed from the seed; batch i
// executes every parts-th of them) are a greedy covering design for ALL PAIRS of catalogue features;
// the remaining ones are random and add triples. What is reported is (a) pairs / triples configured
// together in an accepted configuration and (b) pairs / triples that actually FIRED together in one
// transaction: a rule feature fires when the head rule of its slot is among tx.MatchedRules(); a
// settings feature fires when the call it governs was executed (see c07fiWhen).

// ---------------------------------------------------------------------------------------------
// catalogue

// When a settings feature counts as "fired" in a transaction.
const (
	c07fiWhenPhase   = 'p' // some Process* phase call was executed
	c07fiWhenLogging = '5' // ProcessLogging was executed
	c07fiWhenReqBody = 'w' // a non-empty request body was written
	c07fiWhenResBody = 'x' // a non-empty response body was written
	c07fiWhenMatch   = 'm' // some rule matched
)

// c07fiPart is what one rule feature contributes to the rule of its slot.
type c07fiPart struct {
	dis    string   // disruptive action (at most one feature of a slot has one)
	head   []string // actions that stay on the chain starter
	mov    []string // actions that may sit on the chain link instead
	rx     bool     // the condition must be an @rx with groups
	marker string   // SecMarker to emit after a few later slots ("" = none)
}

type c07fiFeature struct {
	name  string
	dim   string                                  // settings dimension; "" for a rule feature
	when  byte                                    // settings features: when it counts as fired
	set   func(b *c07fiB)                         // settings feature: emit directives
	rule  func(b *c07fiB, s *c07fiSlot) c07fiPart // rule feature
	dis   bool                                    // rule feature carrying a disruptive action
	pref  []int                                   // preferred phases (nil = any)
	after bool                                    // prefers a late position (state switches that matter at logging time)
}

func c07fiPick(r *rand.Rand, xs ...string) string { return xs[r.IntN(len(xs))] }

// other returns a slot of the configuration (possibly s itself) to refer to.
func (b *c07fiB) other(s *c07fiSlot) *c07fiSlot { return b.slots[b.r.IntN(len(b.slots))] }

func c07fiCtl(name string, pref []int, val func(b *c07fiB, s *c07fiSlot) string) c07fiFeature {
	return c07fiFeature{name: name, pref: pref, rule: func(b *c07fiB, s *c07fiSlot) c07fiPart {
		return c07fiPart{mov: []string{"ctl:" + c07Quote(val(b, s))}}
	}}
}

func c07fiConst(v string) func(*c07fiB, *c07fiSlot) string {
	return func(*c07fiB, *c07fiSlot) string { return v }
}

var c07fiCatalogue = func() []c07fiFeature {
	var fs []c07fiFeature
	setting := func(dim, val string, when byte, f func(b *c07fiB)) {
		fs = append(fs, c07fiFeature{name: dim + "=" + val, dim: dim, when: when, set: f})
	}
	dirs := func(lines ...string) func(b *c07fiB) {
		return func(b *c07fiB) { b.set = append(b.set, lines...) }
	}
	// --- settings
	setting("engine", "On", c07fiWhenPhase, dirs("SecRuleEngine On"))
	setting("engine", "DetectionOnly", c07fiWhenPhase, dirs("SecRuleEngine DetectionOnly"))
	setting("engine", "Off", c07fiWhenPhase, dirs("SecRuleEngine Off"))
	setting("audit", "On", c07fiWhenLogging, dirs("SecAuditEngine On"))
	setting("audit", "Off", c07fiWhenLogging, dirs("SecAuditEngine Off"))
	setting("audit", "RelevantOnly", c07fiWhenLogging, dirs("SecAuditEngine RelevantOnly"))
	setting("relstatus", "restrictive", c07fiWhenLogging, func(b *c07fiB) {
		b.set = append(b.set, "SecAuditLogRelevantStatus "+c07fiPick(b.r, "\"^[45]\"", "^403$", "^$", "^(?:5|4(?:0[1235]))"))
	})
	setting("relstatus", "any", c07fiWhenLogging, dirs("SecAuditLogRelevantStatus .*"))
	setting("parts", "default", c07fiWhenLogging, dirs("SecAuditLogParts ABCFHZ"))
	setting("parts", "all", c07fiWhenLogging, dirs("SecAuditLogParts ABCDEFGHIJKZ"))
	setting("parts", "minimal", c07fiWhenLogging, func(b *c07fiB) {
		b.set = append(b.set, "SecAuditLogParts "+c07fiPick(b.r, "AZ", "AKZ", "AHZ", "ABJZ"))
	})
	for _, f := range []string{"JSON", "JsonLegacy", "Native", "OCSF"} {
		setting("format", f, c07fiWhenLogging, dirs("SecAuditLogFormat "+f))
	}
	// writers that need no file system: the suite's in-memory writer and the serial writer on /dev/null (the
	// serial one runs the formatter); the concurrent writer goes to the worker's private scratch directory
	setting("writer", "verifmem", c07fiWhenLogging, dirs("SecAuditLogType verifmem"))
	setting("writer", "serial-devnull", c07fiWhenLogging, dirs("SecAuditLogType Serial", "SecAuditLog /dev/null"))
	setting("writer", "concurrent", c07fiWhenLogging, dirs("SecAuditLogType Concurrent", "SecAuditLog "+c07Scratch+"/fi-audit.log", "SecAuditLogStorageDir "+c07Scratch+"/fi-audit"))
	setting("reqaccess", "On", c07fiWhenReqBody, dirs("SecRequestBodyAccess On"))
	setting("reqaccess", "Off", c07fiWhenReqBody, dirs("SecRequestBodyAccess Off"))
	mime := "SecResponseBodyMimeType text/plain text/html application/json"
	setting("respaccess", "On", c07fiWhenResBody, dirs("SecResponseBodyAccess On", mime))
	setting("respaccess", "Off", c07fiWhenResBody, dirs("SecResponseBodyAccess Off", mime))
	for _, a := range []string{"Reject", "ProcessPartial"} {
		a := a
		setting("reqlimit", a, c07fiWhenReqBody, func(b *c07fiB) {
			b.set = append(b.set, "SecRequestBodyLimit "+c07fiPick(b.r, "1", "8", "32", "128"), "SecRequestBodyLimitAction "+a)
		})
		setting("resplimit", a, c07fiWhenResBody, func(b *c07fiB) {
			b.set = append(b.set, "SecResponseBodyLimit "+c07fiPick(b.r, "1", "8", "32", "128"), "SecResponseBodyLimitAction "+a)
		})
	}
	setting("inmemlimit", "small", c07fiWhenReqBody, func(b *c07fiB) {
		b.set = append(b.set, "SecRequestBodyInMemoryLimit "+c07fiPick(b.r, "1", "16", "64"))
	})
	defAct := func(kind string) func(b *c07fiB) {
		return func(b *c07fiB) {
			for ph := 1; ph <= 5; ph++ {
				if b.r.IntN(5) == 0 {
					continue // this phase keeps the built-in default
				}
				d := kind
				if kind == "interrupting" {
					d = c07fiPick(b.r, "deny,status:403", "deny", "drop", "redirect:http://e.invalid/d", "deny,status:500")
				}
				b.set = append(b.set, fmt.Sprintf("SecDefaultAction \"phase:%d,%s,%s\"", ph, c07fiPick(b.r, "log,auditlog", "nolog", "log", "nolog,auditlog"), d))
			}
		}
	}
	setting("default", "interrupting", c07fiWhenMatch, defAct("interrupting"))
	setting("default", "allow", c07fiWhenMatch, defAct("allow"))
	setting("default", "pass", c07fiWhenMatch, defAct("pass"))
	setting("bpselect", "rules", c07fiWhenPhase, func(b *c07fiB) {
		b.pre = append(b.pre,
			`SecRule REQUEST_HEADERS:Content-Type "^(?:application(?:/soap\+|/)|text/)xml" "id:200000,phase:1,t:none,t:lowercase,pass,nolog,ctl:requestBodyProcessor=XML"`,
			`SecRule REQUEST_HEADERS:Content-Type "^application/json" "id:200001,phase:1,t:none,t:lowercase,pass,nolog,ctl:requestBodyProcessor=JSON"`,
			`SecRule RESPONSE_HEADERS:Content-Type "^application/json" "id:200002,phase:3,t:none,t:lowercase,pass,nolog,ctl:responseBodyProcessor=JSON"`)
	})

	// --- rule features
	dis := func(name string, pref []int, f func(b *c07fiB, s *c07fiSlot) string) {
		fs = append(fs, c07fiFeature{name: name, dis: true, pref: pref, rule: func(b *c07fiB, s *c07fiSlot) c07fiPart {
			return c07fiPart{dis: f(b, s)}
		}})
	}
	dis("deny", nil, func(b *c07fiB, _ *c07fiSlot) string {
		return c07fiPick(b.r, "deny,status:403", "deny", "deny,status:500", "deny,status:404")
	})
	dis("drop", nil, c07fiConst("drop"))
	dis("redirect", nil, func(b *c07fiB, _ *c07fiSlot) string {
		return c07fiPick(b.r, "redirect:http://e.invalid/x", "redirect:'http://e.invalid/?u=%{REQUEST_URI}&f=%{tx.fi}',status:302", "redirect:/,status:301")
	})
	dis("block", nil, c07fiConst("block"))
	dis("allow", nil, c07fiConst("allow"))
	dis("allow:phase", nil, c07fiConst("allow:phase"))
	dis("allow:request", []int{1, 2}, c07fiConst("allow:request"))
	dis("pass", nil, c07fiConst("pass"))
	for _, v := range []string{"On", "Off", "DetectionOnly"} {
		f := c07fiCtl("ctl:ruleEngine="+v, nil, c07fiConst("ruleEngine="+v))
		f.after = true
		fs = append(fs, f)
	}
	for _, v := range []string{"On", "Off", "RelevantOnly"} {
		fs = append(fs, c07fiCtl("ctl:auditEngine="+v, nil, c07fiConst("auditEngine="+v)))
	}
	fs = append(fs, c07fiCtl("ctl:auditLogParts", nil, func(b *c07fiB, _ *c07fiSlot) string {
		return "auditLogParts=" + c07fiPick(b.r, "+E", "-C", "+K", "-H", "+IJ", "ABCFHZ", "-BFH", "+DEGK", "AZ")
	}))
	for _, v := range []string{"On", "Off"} {
		fs = append(fs, c07fiCtl("ctl:requestBodyAccess="+v, []int{1}, c07fiConst("requestBodyAccess="+v)))
		fs = append(fs, c07fiCtl("ctl:responseBodyAccess="+v, []int{1, 2, 3}, c07fiConst("responseBodyAccess="+v)))
	}
	fs = append(fs, c07fiCtl("ctl:requestBodyProcessor", []int{1}, func(b *c07fiB, _ *c07fiSlot) string {
		return "requestBodyProcessor=" + c07fiPick(b.r, "JSON", "XML", "URLENCODED", "MULTIPART", "RAW", "verifbody")
	}))
	fs = append(fs, c07fiCtl("ctl:responseBodyProcessor", []int{1, 2, 3}, func(b *c07fiB, _ *c07fiSlot) string {
		return "responseBodyProcessor=" + c07fiPick(b.r, "JSON", "XML", "RAW", "URLENCODED", "verifbody")
	}))
	fs = append(fs, c07fiCtl("ctl:forceRequestBodyVariable", []int{1}, func(b *c07fiB, _ *c07fiSlot) string {
		return "forceRequestBodyVariable=" + c07fiPick(b.r, "On", "On", "Off")
	}))
	fs = append(fs, c07fiCtl("ctl:forceResponseBodyVariable", []int{1, 2, 3}, func(b *c07fiB, _ *c07fiSlot) string {
		return "forceResponseBodyVariable=" + c07fiPick(b.r, "On", "On", "Off")
	}))
	fs = append(fs, c07fiCtl("ctl:requestBodyLimit", []int{1}, func(b *c07fiB, _ *c07fiSlot) string {
		return "requestBodyLimit=" + c07fiPick(b.r, "0", "1", "8", "64", "100000")
	}))
	fs = append(fs, c07fiCtl("ctl:responseBodyLimit", []int{1, 2, 3}, func(b *c07fiB, _ *c07fiSlot) string {
		return "responseBodyLimit=" + c07fiPick(b.r, "0", "1", "8", "64", "100000")
	}))
	fs = append(fs, c07fiCtl("ctl:ruleRemoveById", nil, func(b *c07fiB, s *c07fiSlot) string {
		o := b.other(s)
		switch b.r.IntN(4) {
		case 0:
			return fmt.Sprintf("ruleRemoveById=%d-%d", c07fiIDBase, c07fiIDBase+10*len(b.slots)+9) // every rule of the population, itself included
		case 1:
			return fmt.Sprintf("ruleRemoveById=%d-%d", o.id, o.id+9)
		}
		return fmt.Sprintf("ruleRemoveById=%d", o.id)
	}))
	fs = append(fs, c07fiCtl("ctl:ruleRemoveByTag", nil, func(b *c07fiB, s *c07fiSlot) string {
		return "ruleRemoveByTag=" + c07fiPick(b.r, b.other(s).tag(), b.other(s).tag(), "fi-all")
	}))
	fs = append(fs, c07fiCtl("ctl:ruleRemoveByMsg", nil, func(b *c07fiB, s *c07fiSlot) string {
		return "ruleRemoveByMsg=" + b.other(s).msg()
	}))
	fs = append(fs, c07fiCtl("ctl:ruleRemoveTargetById", nil, func(b *c07fiB, s *c07fiSlot) string {
		o := b.other(s)
		return fmt.Sprintf("ruleRemoveTargetById=%d;%s", o.id, c07fiPick(b.r, fmt.Sprintf("ARGS:f%d", o.k), "ARGS", "REQUEST_HEADERS", fmt.Sprintf("REQUEST_HEADERS:X-F%d", o.k), "RESPONSE_BODY", "ARGS:/^f/"))
	}))
	fs = append(fs, c07fiCtl("ctl:ruleRemoveTargetByTag", nil, func(b *c07fiB, s *c07fiSlot) string {
		o := b.other(s)
		return fmt.Sprintf("ruleRemoveTargetByTag=%s;%s", c07fiPick(b.r, o.tag(), "fi-all"), c07fiPick(b.r, fmt.Sprintf("ARGS:f%d", o.k), "ARGS", "REQUEST_HEADERS", "ARGS_GET:/^f/"))
	}))
	fs = append(fs, c07fiCtl("ctl:ruleRemoveTargetByMsg", nil, func(b *c07fiB, s *c07fiSlot) string {
		o := b.other(s)
		return fmt.Sprintf("ruleRemoveTargetByMsg=%s;%s", o.msg(), c07fiPick(b.r, fmt.Sprintf("ARGS:f%d", o.k), "ARGS", "REQUEST_HEADERS"))
	}))
	fs = append(fs, c07fiFeature{name: "skip", rule: func(b *c07fiB, _ *c07fiSlot) c07fiPart {
		return c07fiPart{head: []string{"skip:" + c07fiPick(b.r, "1", "1", "2", "3", "100")}}
	}})
	fs = append(fs, c07fiFeature{name: "skipAfter", rule: func(b *c07fiB, s *c07fiSlot) c07fiPart {
		m := fmt.Sprintf("FI_M%d", s.k)
		p := c07fiPart{head: []string{"skipAfter:" + m}}
		if b.r.IntN(8) != 0 { // now and then the marker does not exist: skips to the end of the phase
			p.marker = m
		}
		return p
	}})
	fs = append(fs, c07fiFeature{name: "setvar", rule: func(b *c07fiB, _ *c07fiSlot) c07fiPart {
		n := 1 + b.r.IntN(2)
		var as []string
		for i := 0; i < n; i++ {
			as = append(as, "setvar:"+c07Quote(c07fiPick(b.r, "tx.fi=+1", "tx.fi=%{MATCHED_VAR}", "tx.k_%{MATCHED_VAR_NAME}=%{MATCHED_VAR}", "!tx.fi", "tx.s=%{tx.fi}-%{REQUEST_URI}",
				"tx.fi=-%{tx.nope}", "tx.%{tx.fi}=%{RESPONSE_STATUS}", "tx.fi", "tx.rid=%{rule.id}-%{rule.msg}", "tx.score=+%{tx.fi}", "!tx.k_%{MATCHED_VAR_NAME}")))
		}
		return c07fiPart{mov: as}
	}})
	fs = append(fs, c07fiFeature{name: "expirevar", rule: func(b *c07fiB, _ *c07fiSlot) c07fiPart {
		return c07fiPart{mov: []string{"setvar:tx.fi=+1", "expirevar:" + c07Quote(c07fiPick(b.r, "tx.fi=60", "tx.fi=0", "tx.%{MATCHED_VAR_NAME}=3600", "ip.x=10"))}}
	}})
	fs = append(fs, c07fiFeature{name: "initcol", rule: func(b *c07fiB, _ *c07fiSlot) c07fiPart {
		return c07fiPart{mov: []string{"initcol:" + c07Quote(c07fiPick(b.r, "ip=%{REMOTE_ADDR}", "global=global", "resource=%{REQUEST_FILENAME}", "session=%{tx.fi}", "user=%{MATCHED_VAR}"))}}
	}})
	fs = append(fs, c07fiFeature{name: "setenv", rule: func(b *c07fiB, _ *c07fiSlot) c07fiPart {
		return c07fiPart{mov: []string{"setenv:" + c07Quote(c07fiPick(b.r, "VERIF_FI=%{MATCHED_VAR}%{tx.fi}", "VERIF_FI=%{REQUEST_URI}", "VERIF_FI2=%{RESPONSE_STATUS}-%{tx.nope}", "VERIF_FI=v"))}}
	}})
	fs = append(fs, c07fiFeature{name: "capture", rule: func(b *c07fiB, _ *c07fiSlot) c07fiPart {
		return c07fiPart{rx: true, head: []string{"capture", "setvar:" + c07Quote("tx.cap=%{TX.0}|%{TX.1}|%{TX.2}|%{TX.9}")}}
	}})
	fs = append(fs, c07fiFeature{name: "multiMatch", rule: func(b *c07fiB, _ *c07fiSlot) c07fiPart {
		return c07fiPart{head: []string{"multiMatch", "t:none", "t:" + c07fiPick(b.r, "lowercase", "urlDecodeUni", "trim", "removeWhitespace"), "t:" + c07fiPick(b.r, "trim", "compressWhitespace", "lowercase", "htmlEntityDecode")}}
	}})
	fs = append(fs, c07fiFeature{name: "logdata", rule: func(b *c07fiB, _ *c07fiSlot) c07fiPart {
		return c07fiPart{head: []string{"logdata:'%{MATCHED_VAR_NAME}=%{MATCHED_VAR} %{tx.fi} %{RESPONSE_STATUS} %{TX.1}'", "severity:" + c07fiPick(b.r, "CRITICAL", "2", "NOTICE", "7")}}
	}})
	fs = append(fs, c07fiFeature{name: "auditlog", rule: func(b *c07fiB, _ *c07fiSlot) c07fiPart {
		return c07fiPart{head: []string{"auditlog"}}
	}})
	fs = append(fs, c07fiFeature{name: "noauditlog", rule: func(b *c07fiB, _ *c07fiSlot) c07fiPart {
		return c07fiPart{head: []string{"noauditlog"}}
	}})
	return fs
}()

// Dimensions every configuration sets explicitly; the others may stay absent (library default).
var c07fiAlwaysSet = map[string]bool{"engine": true, "reqaccess": true, "respaccess": true}

func c07fiIndexByName() map[string]int {
	m := map[string]int{}
	for i, f := range c07fiCatalogue {
		m[f.name] = i
	}
	return m
}

// ---------------------------------------------------------------------------------------------
// plans: which features a configuration combines

type c07fiPlan struct {
	Settings []int   // feature indexes, at most one per dimension
	Slots    [][]int // rule features per slot (1 or 2)
	Kind     string  // "pairs" | "random"
}

func (p *c07fiPlan) features() []int {
	out := append([]int{}, p.Settings...)
	for _, s := range p.Slots {
		out = append(out, s...)
	}
	return out
}

func c07fiCompatible(a, b int) bool {
	fa, fb := &c07fiCatalogue[a], &c07fiCatalogue[b]
	return a != b && (fa.dim == "" || fa.dim != fb.dim)
}

// c07fiSlotsFor distributes rule features over slots: mostly one per slot, now and then a
// non-disruptive feature shares the rule of another feature.
func c07fiSlotsFor(r *rand.Rand, feats []int) [][]int {
	r.Shuffle(len(feats), func(i, j int) { feats[i], feats[j] = feats[j], feats[i] })
	var slots [][]int
	for _, f := range feats {
		if len(slots) > 0 && r.IntN(4) == 0 {
			last := slots[len(slots)-1]
			if len(last) == 1 && !(c07fiCatalogue[f].dis && c07fiCatalogue[last[0]].dis) {
				slots[len(slots)-1] = append(last, f)
				continue
			}
		}
		slots = append(slots, []int{f})
	}
	return slots
}

const c07fiRuleFeatsMax = 10

// c07fiPairPlans is a greedy covering design: every pair of compatible catalogue features appears
// together in at least one plan (per round).
func c07fiPairPlans(r *rand.Rand, rounds int) []c07fiPlan {
	n := len(c07fiCatalogue)
	var plans []c07fiPlan
	dims := map[string][]int{}
	var dimNames []string
	var ruleFeats []int
	for i, f := range c07fiCatalogue {
		if f.dim == "" {
			ruleFeats = append(ruleFeats, i)
			continue
		}
		if dims[f.dim] == nil {
			dimNames = append(dimNames, f.dim)
		}
		dims[f.dim] = append(dims[f.dim], i)
	}
	for round := 0; round < rounds; round++ {
		unc := make([][]bool, n)
		left := 0
		for a := 0; a < n; a++ {
			unc[a] = make([]bool, n)
			for b := a + 1; b < n; b++ {
				if c07fiCompatible(a, b) {
					unc[a][b] = true
					left++
				}
			}
		}
		isUnc := func(a, b int) bool {
			if a > b {
				a, b = b, a
			}
			return unc[a][b]
		}
		for left > 0 {
			var chosen []int
			has := map[int]bool{}
			dimUsed := map[string]bool{}
			nRule := 0
			add := func(f int) {
				chosen = append(chosen, f)
				has[f] = true
				if d := c07fiCatalogue[f].dim; d != "" {
					dimUsed[d] = true
				} else {
					nRule++
				}
			}
			gain := func(f int) int {
				g := 0
				for _, c := range chosen {
					if isUnc(c, f) {
						g++
					}
				}
				return g
			}
			// seed with a random uncovered pair
			k := r.IntN(left)
		seed:
			for a := 0; a < n; a++ {
				for b := a + 1; b < n; b++ {
					if unc[a][b] {
						if k == 0 {
							add(a)
							add(b)
							break seed
						}
						k--
					}
				}
			}
			// settings: one value per dimension, the one covering most uncovered pairs
			order := append([]string{}, dimNames...)
			r.Shuffle(len(order), func(i, j int) { order[i], order[j] = order[j], order[i] })
			for _, d := range order {
				if dimUsed[d] {
					continue
				}
				best, bestG := -1, 0
				for _, f := range dims[d] {
					if g := gain(f); g > bestG || (g == bestG && g > 0 && r.IntN(2) == 0) {
						best, bestG = f, g
					}
				}
				if best < 0 && c07fiAlwaysSet[d] {
					best = dims[d][r.IntN(len(dims[d]))]
				}
				if best >= 0 {
					add(best)
				}
			}
			// rule features
			for nRule < c07fiRuleFeatsMax {
				best, bestG := -1, 0
				for _, f := range ruleFeats {
					if has[f] {
						continue
					}
					if g := gain(f); g > bestG || (g == bestG && g > 0 && r.IntN(3) == 0) {
						best, bestG = f, g
					}
				}
				if best < 0 {
					if nRule >= 6 {
						break
					}
					best = ruleFeats[r.IntN(len(ruleFeats))]
					if has[best] {
						continue
					}
				}
				add(best)
			}
			for i, a := range chosen {
				for _, b := range chosen[i+1:] {
					if isUnc(a, b) {
						if a < b {
							unc[a][b] = false
						} else {
							unc[b][a] = false
						}
						left--
					}
				}
			}
			var p c07fiPlan
			p.Kind = "pairs"
			var rf []int
			for _, f := range chosen {
				if c07fiCatalogue[f].dim != "" {
					p.Settings = append(p.Settings, f)
				} else {
					rf = append(rf, f)
				}
			}
			p.Slots = c07fiSlotsFor(r, rf)
			plans = append(plans, p)
		}
	}
	return plans
}

// c07fiRandomPlan draws a random combination: a value for most settings dimensions and 5-10 rule features.
func c07fiRandomPlan(r *rand.Rand) c07fiPlan {
	p := c07fiPlan{Kind: "random"}
	dims := map[string][]int{}
	var dimNames []string
	var ruleFeats []int
	for i, f := range c07fiCatalogue {
		if f.dim == "" {
			ruleFeats = append(ruleFeats, i)
			continue
		}
		if dims[f.dim] == nil {
			dimNames = append(dimNames, f.dim)
		}
		dims[f.dim] = append(dims[f.dim], i)
	}
	for _, d := range dimNames {
		if !c07fiAlwaysSet[d] && r.IntN(4) == 0 {
			continue
		}
		p.Settings = append(p.Settings, dims[d][r.IntN(len(dims[d]))])
	}
	r.Shuffle(len(ruleFeats), func(i, j int) { ruleFeats[i], ruleFeats[j] = ruleFeats[j], ruleFeats[i] })
	p.Slots = c07fiSlotsFor(r, append([]int{}, ruleFeats[:5+r.IntN(c07fiRuleFeatsMax-4)]...))
	return p
}

// ---------------------------------------------------------------------------------------------
// configuration builder

const c07fiIDBase = 1000

// condition kinds
const (
	c07fiCondArgs = iota
	c07fiCondArgsPost
	c07fiCondHdr
	c07fiCondReqBody
	c07fiCondRespHdr
	c07fiCondRespBody
	c07fiCondNone // SecAction
)

type c07fiSlot struct {
	k     int
	feats []int
	id    int
	phase int
	cond  int
	chain bool
}

func (s *c07fiSlot) tag() string { return fmt.Sprintf("fi%d", s.k) }
func (s *c07fiSlot) msg() string { return fmt.Sprintf("fimsg%d", s.k) }

type c07fiB struct {
	r     *rand.Rand
	set   []string
	pre   []string
	rules []string
	slots []*c07fiSlot
}

// c07fiMeta is what the request generator needs to know about a configuration.
type c07fiMeta struct {
	nSlots int
	chains []bool
}

func c07fiCondsFor(phase int) []int {
	switch phase {
	case 1:
		return []int{c07fiCondArgs, c07fiCondArgs, c07fiCondHdr}
	case 2:
		return []int{c07fiCondArgs, c07fiCondArgsPost, c07fiCondArgsPost, c07fiCondHdr, c07fiCondReqBody}
	case 3:
		return []int{c07fiCondArgs, c07fiCondHdr, c07fiCondRespHdr, c07fiCondRespHdr}
	case 4:
		return []int{c07fiCondArgs, c07fiCondRespHdr, c07fiCondRespBody, c07fiCondRespBody}
	}
	return []int{c07fiCondArgs, c07fiCondArgsPost, c07fiCondHdr, c07fiCondReqBody, c07fiCondRespHdr, c07fiCondRespBody}
}

// c07fiBuild renders the configuration of a plan.
func c07fiBuild(r *rand.Rand, p *c07fiPlan) (string, *c07fiMeta) {
	b := &c07fiB{r: r}
	for k, feats := range p.Slots {
		s := &c07fiSlot{k: k, feats: feats, id: c07fiIDBase + 10*k}
		var pref []int
		late := false
		for _, f := range feats {
			if pf := c07fiCatalogue[f].pref; pf != nil {
				pref = pf
			}
			late = late || c07fiCatalogue[f].after
		}
		switch {
		case pref != nil && r.IntN(5) != 0:
			s.phase = pref[r.IntN(len(pref))]
		case late && r.IntN(3) == 0:
			s.phase = 5
		default:
			s.phase = 1 + r.IntN(5)
		}
		conds := c07fiCondsFor(s.phase)
		s.cond = conds[r.IntN(len(conds))]
		if r.IntN(12) == 0 {
			s.cond = c07fiCondNone
		}
		s.chain = s.cond != c07fiCondNone && r.IntN(5) == 0
		b.slots = append(b.slots, s)
	}
	for _, f := range p.Settings {
		c07fiCatalogue[f].set(b)
	}
	c07fiClampInMemory(b.set)
	r.Shuffle(len(b.set), func(i, j int) { b.set[i], b.set[j] = b.set[j], b.set[i] })
	// SecAuditLogType must not follow a SecAuditLog it re-interprets; keep the relative order of these two
	c07fiOrderAudit(b.set)
	pending := map[int][]string{} // slot index after which a marker is emitted
	for i, s := range b.slots {
		b.renderSlot(s, func(m string) {
			at := i + 1 + r.IntN(3)
			if at >= len(b.slots) {
				at = len(b.slots) - 1
			}
			pending[at] = append(pending[at], m)
		})
		for _, m := range pending[i] {
			b.rules = append(b.rules, "SecMarker "+m)
		}
	}
	lines := append(append(append([]string{}, b.set...), b.pre...), b.rules...)
	meta := &c07fiMeta{nSlots: len(b.slots)}
	for _, s := range b.slots {
		meta.chains = append(meta.chains, s.chain)
	}
	return strings.Join(lines, "\n") + "\n", meta
}

// c07fiClampInMemory: the library rejects a request body limit below the in-memory limit.
func c07fiClampInMemory(set []string) {
	limit := ""
	for _, l := range set {
		if v, ok := strings.CutPrefix(l, "SecRequestBodyLimit "); ok {
			limit = v
		}
	}
	if limit == "" {
		return
	}
	for i, l := range set {
		if v, ok := strings.CutPrefix(l, "SecRequestBodyInMemoryLimit "); ok && len(v) >= len(limit) && (len(v) > len(limit) || v > limit) {
			set[i] = "SecRequestBodyInMemoryLimit " + limit
		}
	}
}

func c07fiOrderAudit(set []string) {
	ti, li := -1, -1
	for i, l := range set {
		if strings.HasPrefix(l, "SecAuditLogType ") {
			ti = i
		}
		if strings.HasPrefix(l, "SecAuditLog ") {
			li = i
		}
	}
	if ti >= 0 && li >= 0 && li < ti {
		set[ti], set[li] = set[li], set[ti]
	}
}

func (b *c07fiB) renderSlot(s *c07fiSlot, marker func(string)) {
	r := b.r
	var part c07fiPart
	for _, f := range s.feats {
		p := c07fiCatalogue[f].rule(b, s)
		if p.dis != "" {
			part.dis = p.dis
		}
		part.head = append(part.head, p.head...)
		part.mov = append(part.mov, p.mov...)
		part.rx = part.rx || p.rx
		if p.marker != "" {
			part.marker = p.marker
		}
	}
	if part.dis == "" {
		part.dis = "pass"
	}
	head := []string{fmt.Sprintf("id:%d", s.id), fmt.Sprintf("phase:%d", s.phase), part.dis}
	if lm := c07fiPick(r, "log,auditlog", "log", "nolog", "nolog,auditlog", "", "log,noauditlog"); lm != "" {
		head = append(head, lm)
	}
	head = append(head, "tag:'"+s.tag()+"'", "tag:'fi-all'", "msg:'"+s.msg()+"'")
	head = append(head, part.head...)
	var link []string
	for _, a := range part.mov {
		if s.chain && r.IntN(2) == 0 {
			link = append(link, a)
		} else {
			head = append(head, a)
		}
	}
	if s.cond == c07fiCondNone {
		b.rules = append(b.rules, fmt.Sprintf(`SecAction "%s"`, strings.Join(head, ",")))
	} else {
		targets, op := c07fiCond(s, part.rx)
		if s.chain {
			head = append(head, "chain")
		}
		b.rules = append(b.rules, fmt.Sprintf(`SecRule %s "%s" "%s"`, targets, op, strings.Join(head, ",")))
		if s.chain {
			la := strings.Join(link, ",")
			if la == "" {
				b.rules = append(b.rules, fmt.Sprintf(`SecRule ARGS_GET:c%d|REQUEST_HEADERS:X-C%d "@streq 1"`, s.k, s.k))
			} else {
				b.rules = append(b.rules, fmt.Sprintf(`SecRule ARGS_GET:c%d|REQUEST_HEADERS:X-C%d "@streq 1" "%s"`, s.k, s.k, la))
			}
		}
	}
	if part.marker != "" {
		marker(part.marker)
	}
}

func c07fiCond(s *c07fiSlot, rx bool) (targets, op string) {
	k := s.k
	op = "@streq 1"
	if rx {
		op = "@rx ^((1))()$"
	}
	bodyRx := fmt.Sprintf(`@rx (?:^|\W)(f%d)\W+(1)(?:\W|$)`, k)
	switch s.cond {
	case c07fiCondArgs:
		if s.phase == 1 {
			return fmt.Sprintf("ARGS_GET:f%d", k), op
		}
		return fmt.Sprintf("ARGS:f%d|ARGS:json.f%d", k, k), op
	case c07fiCondArgsPost:
		return fmt.Sprintf("ARGS_POST:f%d|ARGS_POST:json.f%d|ARGS_GET:f%d", k, k, k), op
	case c07fiCondHdr:
		return fmt.Sprintf("REQUEST_HEADERS:X-F%d", k), op
	case c07fiCondReqBody:
		return fmt.Sprintf("REQUEST_BODY|ARGS_POST:f%d", k), c07fiBodyOp(k)
	case c07fiCondRespHdr:
		return fmt.Sprintf("RESPONSE_HEADERS:X-F%d", k), op
	case c07fiCondRespBody:
		return "RESPONSE_BODY", bodyRx
	}
	return "REQUEST_URI", "@rx ."
}

// c07fiBodyOp: REQUEST_BODY holds the raw body ("f3=1&..."), ARGS_POST:f3 the decoded value ("1"): one
// regular expression accepting both.
func c07fiBodyOp(k int) string {
	return fmt.Sprintf(`@rx ^((1))()$|(?:^|\W)(f%d)\W+(1)(?:\W|$)`, k)
}

// ---------------------------------------------------------------------------------------------
// requests

// c07fiRequest builds a request/response pair in which the slots in on fire (as far as the call
// sequence and the configuration let them).
func c07fiRequest(r *rand.Rand, m *c07fiMeta, on []bool) *c07Req {
	q := &c07Req{Client: "10.0.0.1", CPort: 1234, Server: "10.0.0.2", SPort: 80, Proto: "HTTP/1.1", RespProto: "HTTP/1.1"}
	q.Method = c07B(c07fiPick(r, "POST", "POST", "POST", "GET", "PUT"))
	q.Status = c07PickInt(r, []int{200, 200, 200, 403, 404, 500, 302, 0, 204})
	carry := func() bool { return r.IntN(7) != 0 }
	cQuery, cHdr, cBody, cRespHdr, cRespBody := carry(), carry(), carry(), carry(), carry()
	var names []string // steering names that are switched on: f<k>, and c<k> for chain links
	var hdrNames []string
	for k := 0; k < m.nSlots; k++ {
		if !on[k] {
			continue
		}
		names = append(names, fmt.Sprintf("f%d", k))
		hdrNames = append(hdrNames, fmt.Sprintf("X-F%d", k))
		if m.chains[k] && r.IntN(6) != 0 {
			if r.IntN(2) == 0 {
				names = append(names, fmt.Sprintf("c%d", k))
			} else {
				hdrNames = append(hdrNames, fmt.Sprintf("X-C%d", k))
			}
		}
	}
	kv := func(sep string) string {
		var ps []string
		for _, n := range names {
			ps = append(ps, n+"=1")
		}
		return strings.Join(ps, sep)
	}
	uri := c07fiPick(r, "/fi", "/fi/index.html", "/")
	if cQuery && len(names) > 0 {
		uri += "?" + kv("&")
	} else if r.IntN(2) == 0 {
		uri += "?z=0"
	}
	q.URI = c07B(uri)
	q.Headers = append(q.Headers, c07KV{K: "Host", V: "fi.example"})
	if cHdr {
		for _, h := range hdrNames {
			q.Headers = append(q.Headers, c07KV{K: c07B(h), V: "1"})
		}
	}
	pad := strings.Repeat("p", c07PickInt(r, []int{0, 0, 5, 40, 200, 3000}))
	var body, ct string
	kind := c07fiPick(r, "urlencoded", "urlencoded", "urlencoded", "urlencoded", "json", "json", "xml", "multipart", "raw", "none")
	var ns []string
	if cBody {
		ns = names
	}
	switch kind {
	case "urlencoded":
		ct = "application/x-www-form-urlencoded"
		var ps []string
		for _, n := range ns {
			ps = append(ps, n+"=1")
		}
		ps = append(ps, "pad="+pad)
		body = strings.Join(ps, "&")
	case "json":
		ct = "application/json"
		var ps []string
		for _, n := range ns {
			ps = append(ps, fmt.Sprintf("%q:\"1\"", n))
		}
		ps = append(ps, fmt.Sprintf("\"pad\":%q", pad))
		body = "{" + strings.Join(ps, ",") + "}"
	case "xml":
		ct = "text/xml"
		var sb strings.Builder
		sb.WriteString("<r>")
		for _, n := range ns {
			sb.WriteString("<" + n + ">1</" + n + ">")
		}
		sb.WriteString("<pad>" + pad + "</pad></r>")
		body = sb.String()
	case "multipart":
		ct = "multipart/form-data; boundary=fiB"
		var sb strings.Builder
		for _, n := range ns {
			sb.WriteString("--fiB\r\nContent-Disposition: form-data; name=\"" + n + "\"\r\n\r\n1\r\n")
		}
		if r.IntN(2) == 0 {
			sb.WriteString("--fiB\r\nContent-Disposition: form-data; name=\"file\"; filename=\"a.txt\"\r\nContent-Type: text/plain\r\n\r\n" + pad + "\r\n")
		}
		sb.WriteString("--fiB--\r\n")
		body = sb.String()
	case "raw":
		ct = c07fiPick(r, "text/plain", "application/octet-stream", "")
		body = kvJoin(ns, ";") + pad
	}
	q.BodyKind, q.Body = kind, c07B(body)
	if ct != "" {
		q.Headers = append(q.Headers, c07KV{K: "Content-Type", V: c07B(ct)})
	}
	if r.IntN(3) == 0 {
		q.Headers = append(q.Headers, c07KV{K: "Content-Length", V: c07B(fmt.Sprint(len(body)))})
	}
	if r.IntN(4) == 0 { // steering arguments through the API as well (sequences without ProcessURI)
		for _, n := range names {
			q.Get = append(q.Get, c07KV{K: c07B(n), V: "1"})
		}
	}
	if r.IntN(6) == 0 {
		for _, n := range names {
			q.Post = append(q.Post, c07KV{K: c07B(n), V: "1"})
		}
	}
	for i := r.IntN(4); i > 0; i-- {
		q.Chunks = append(q.Chunks, c07PickInt(r, []int{0, 1, 7, 8, 9, 31, 33, 64, 1000}))
	}
	// response
	rct := c07fiPick(r, "text/plain", "text/plain", "text/html", "application/json", "image/png", "")
	if rct != "" {
		q.RespHdrs = append(q.RespHdrs, c07KV{K: "Content-Type", V: c07B(rct)})
	}
	if cRespHdr {
		for _, h := range hdrNames {
			q.RespHdrs = append(q.RespHdrs, c07KV{K: c07B(h), V: "1"})
		}
	}
	if q.Status == 302 {
		q.RespHdrs = append(q.RespHdrs, c07KV{K: "Location", V: "http://e.invalid/"})
	}
	var rns []string
	if cRespBody {
		rns = names
	}
	rpad := strings.Repeat("r", c07PickInt(r, []int{0, 0, 5, 40, 200, 3000}))
	if rct == "application/json" {
		var ps []string
		for _, n := range rns {
			ps = append(ps, fmt.Sprintf("%q:\"1\"", n))
		}
		ps = append(ps, fmt.Sprintf("\"pad\":%q", rpad))
		q.RespKind, q.RespBody = "json", c07B("{"+strings.Join(ps, ",")+"}")
	} else if r.IntN(8) != 0 {
		q.RespKind, q.RespBody = "raw", c07B(kvJoin(rns, ";")+";"+rpad)
	} else {
		q.RespKind = "none"
	}
	return q
}

func kvJoin(names []string, sep string) string {
	var ps []string
	for _, n := range names {
		ps = append(ps, n+"=1")
	}
	return strings.Join(ps, sep)
}

// ---------------------------------------------------------------------------------------------
// call sequences (step letters: c07Steps). Unlike the enumerated list of the main population these
// may call Close twice.

var c07fiSeqs = []string{
	// headers only
	"cunra1q5qz", "cunra1qz", "cunra15z", "cura1RA3p5qz",
	// body without headers
	"w2q5qz", "cuw2q5qz", "W25z", "cunraw2RA3px4q5qz",
	// logging twice / logging early / no logging
	"cunra1w2RA3px4q5q5qz", "cunra1w25q5z", "cunra1w2q5RA3px4q5qz", "5cunra1w2RA3px4q5qz", "cunra1w2RA3px4qz",
	// Close twice
	"cunra1w2RA3px4q5qzz", "cunra1w2zz", "cunra1zz", "zz", "cunra1w2RA3px4zz",
	// response phases without request phases
	"RA3px4q5qz", "cuRA3px45z", "x45z", "RA3p5z", "cunraRA3px41w25qz",
	// the whole cycle again after logging; phases repeated after a possible interruption
	"cunra1w2RA3px4q51w2RA3px4q5qz", "cunra11w22RA33px44q55qz", "cunra1w2RA3px4q5w2x4q5z",
	// reader entry points, writes after processing
	"cunra1W2RA3pX4q5qz", "cunra1w2w2RA3px4x4q5qz", "cunra12wRA3p4xq5qz",
}

func c07fiSeq(r *rand.Rand) (seq string, listed bool) {
	switch x := r.IntN(100); {
	case x < 50:
		return c07Standard, true
	case x < 85:
		return c07fiSeqs[r.IntN(len(c07fiSeqs))], true
	case x < 93:
		return c07Sequences[r.IntN(len(c07Sequences))], false
	}
	return c07RandSeq(r), false
}

// ---------------------------------------------------------------------------------------------
// coverage bookkeeping

type c07fiCov struct {
	n            int
	accepted     int
	rejected     int
	confPairs    []bool // n*n
	firedPairs   []bool
	confTriples  []bool // n*n*n
	firedTriples []bool
	firedFeat    []int
}

func c07fiNewCov() *c07fiCov {
	n := len(c07fiCatalogue)
	return &c07fiCov{n: n, confPairs: make([]bool, n*n), firedPairs: make([]bool, n*n), confTriples: make([]bool, n*n*n), firedTriples: make([]bool, n*n*n), firedFeat: make([]int, n)}
}

func (c *c07fiCov) mark(feats []int, pairs, triples []bool) {
	sort.Ints(feats)
	n := c.n
	for i, a := range feats {
		for j := i + 1; j < len(feats); j++ {
			b := feats[j]
			if a == b {
				continue
			}
			pairs[a*n+b] = true
			for _, d := range feats[j+1:] {
				if d != b {
					triples[(a*n+b)*n+d] = true
				}
			}
		}
	}
}

func c07fiPack(bits []bool) string {
	raw := make([]byte, (len(bits)+7)/8)
	for i, b := range bits {
		if b {
			raw[i/8] |= 1 << (i % 8)
		}
	}
	var buf bytes.Buffer
	zw := gzip.NewWriter(&buf)
	zw.Write(raw)
	zw.Close()
	return base64.StdEncoding.EncodeToString(buf.Bytes())
}

func c07fiUnpackInto(dst []bool, s string) {
	data, err := base64.StdEncoding.DecodeString(s)
	if err != nil {
		return
	}
	zr, err := gzip.NewReader(bytes.NewReader(data))
	if err != nil {
		return
	}
	raw, _ := io.ReadAll(zr)
	for i := range dst {
		if i/8 < len(raw) && raw[i/8]&(1<<(i%8)) != 0 {
			dst[i] = true
		}
	}
}

type c07fiCovRecord struct {
	Names        []string `json:"names"`
	ConfPairs    string   `json:"cp"`
	FiredPairs   string   `json:"fp"`
	ConfTriples  string   `json:"ct"`
	FiredTriples string   `json:"ft"`
	FiredFeat    []int    `json:"ff"`
	Accepted     int      `json:"acc"`
	Rejected     int      `json:"rej"`
}

// ---------------------------------------------------------------------------------------------
// runner

type c07fiSizes struct {
	pairRounds int
	random     int // random plans per batch
	txs        int // transactions per configuration
}

func c07fiSizesFor(t fw.Tier) c07fiSizes {
	if t == fw.Thorough {
		return c07fiSizes{pairRounds: 12, random: 1500, txs: 24}
	}
	return c07fiSizes{pairRounds: 3, random: 240, txs: 16}
}

// c07fiObserved is filled by the executor's observation hook just before Close.
type c07fiObserved struct {
	matched     map[int]bool
	interrupted bool
}

func c07RunFI(rn *c07Runner, part, parts int) {
	w := rn.w
	sz := c07fiSizesFor(w.Tier)
	cov := c07fiNewCov()
	var seen c07fiObserved
	rn.x.obs = func(tx types.Transaction) {
		seen.matched = map[int]bool{}
		for _, mr := range tx.MatchedRules() {
			if r := mr.Rule(); r != nil {
				seen.matched[r.ID()] = true
			}
		}
		seen.interrupted = tx.IsInterrupted()
	}
	defer func() { rn.x.obs = nil }()
	// the pair design is the same list in every batch (derived from the seed alone)
	pairPlans := c07fiPairPlans(fw.NewRng(w.Seed, "C07-fi-pairs/"+string(w.Tier), 0), sz.pairRounds)
	w.Max("fi_pair_design_configs", int64(len(pairPlans)))
	var plans []c07fiPlan
	for i := range pairPlans {
		if i%parts == part {
			plans = append(plans, pairPlans[i])
		}
	}
	for i := 0; i < sz.random; i++ {
		plans = append(plans, c07fiRandomPlan(w.Rng))
	}
	for _, k := range []string{"fi_configs_rejected", "fi_configs_panicked", "fi_transactions_interrupted"} {
		w.Count(k, 0)
	}
	for i := range plans {
		c07fiRunPlan(rn, &plans[i], cov, &seen, sz.txs)
		rn.x.flushCounters()
	}
	names := make([]string, len(c07fiCatalogue))
	for i, f := range c07fiCatalogue {
		names[i] = f.name
	}
	w.Record("fi_cov", &c07fiCovRecord{Names: names, ConfPairs: c07fiPack(cov.confPairs), FiredPairs: c07fiPack(cov.firedPairs),
		ConfTriples: c07fiPack(cov.confTriples), FiredTriples: c07fiPack(cov.firedTriples), FiredFeat: cov.firedFeat,
		Accepted: cov.accepted, Rejected: cov.rejected})
}

func c07fiRunPlan(rn *c07Runner, p *c07fiPlan, cov *c07fiCov, seen *c07fiObserved, nTx int) {
	w := rn.w
	r := w.Rng
	text, meta := c07fiBuild(r, p)
	cs := &c07Case{Config: c07B(text), LogLevel: rn.logLevel(), Origin: "fi:" + p.Kind}
	w.Count("fi_configs", 1)
	w.Count("fi_configs/"+p.Kind, 1)
	var waf coraza.WAF
	before := rn.x.panics
	waf, ok := rn.x.Build(cs)
	if !ok {
		if rn.x.panics > before {
			w.Count("fi_configs_panicked", 1)
		} else {
			w.Count("fi_configs_rejected", 1)
			cov.rejected++
			// a configuration of this population is meant to be valid: keep the reason in the evidence
			_, err, _ := rn.x.newWAF(cs)
			c07Scrub()
			reason := fmt.Sprint(err)
			if len(reason) > 120 {
				reason = reason[len(reason)-120:]
			}
			w.Count("fi_rejected_reason/"+reason, 1)
		}
		return
	}
	w.Count("fi_configs_accepted", 1)
	cov.accepted++
	cov.mark(p.features(), cov.confPairs, cov.confTriples)
	ch := fw.Hash(text)
	for i := 0; i < nTx; i++ {
		on := make([]bool, meta.nSlots)
		switch x := r.IntN(100); {
		case x < 25:
			for k := range on {
				on[k] = true
			}
		case x < 75:
			for k := range on {
				on[k] = r.IntN(2) == 0
			}
		default:
			for n := 2 + r.IntN(2); n > 0; n-- {
				on[r.IntN(len(on))] = true
			}
		}
		tc := *cs
		tc.Req = c07fiRequest(r, meta, on)
		var listed bool
		tc.Seq, listed = c07fiSeq(r)
		seen.matched, seen.interrupted = nil, false
		good := rn.x.RunTx(waf, &tc)
		recs := obs.TakeAudit()
		w.Count("fi_transactions", 1)
		w.Count("fi_audit_records_verifmem", len(recs))
		if listed {
			w.Cover("fi_sequences_used", tc.Seq)
		}
		w.Nontrivial(ch ^ fw.Hash(tc.Seq) ^ fw.Hash(string(tc.Req.URI)+"\x00"+string(tc.Req.Body)+"\x00"+string(tc.Req.RespBody)))
		// which features fired together in this transaction
		var fired []int
		for k, s := range p.Slots {
			if seen.matched[c07fiIDBase+10*k] {
				fired = append(fired, s...)
			}
		}
		nRule := len(fired)
		for _, f := range p.Settings {
			if c07fiSettingFired(c07fiCatalogue[f].when, &tc, len(seen.matched) > 0) {
				fired = append(fired, f)
			}
		}
		if nRule > 0 {
			w.Count("fi_transactions_with_fired_rule_features", 1)
		}
		if seen.interrupted {
			w.Count("fi_transactions_interrupted", 1)
		}
		w.Max("fi_features_fired_in_one_tx_max", int64(len(fired)))
		for _, f := range fired {
			cov.firedFeat[f]++
		}
		cov.mark(fired, cov.firedPairs, cov.firedTriples)
		if w.WantSample() && i == 0 && p.Kind == "random" {
			w.Sample(&tc)
		}
		if !good {
			break
		}
	}
	rn.x.CloseWAF(waf, cs)
}

func c07fiSettingFired(when byte, c *c07Case, anyMatch bool) bool {
	seq := c.Seq
	if i := strings.IndexByte(seq, 'z'); i >= 0 {
		seq = seq[:i]
	}
	switch when {
	case c07fiWhenPhase:
		return strings.ContainsAny(seq, "12345")
	case c07fiWhenLogging:
		return strings.Contains(seq, "5")
	case c07fiWhenReqBody:
		return len(c.Req.Body) > 0 && strings.ContainsAny(seq, "wW")
	case c07fiWhenResBody:
		return len(c.Req.RespBody) > 0 && strings.ContainsAny(seq, "xX")
	case c07fiWhenMatch:
		return anyMatch
	}
	return false
}

// ---------------------------------------------------------------------------------------------
// driver side: union of the batches' coverage

func c07fiFinish(d *fw.D) {
	n := len(c07fiCatalogue)
	cov := c07fiNewCov()
	got := false
	for _, rec := range d.Records {
		if rec.Key != "fi_cov" {
			continue
		}
		var cr c07fiCovRecord
		if json.Unmarshal(rec.Value, &cr) != nil || len(cr.Names) != n {
			continue
		}
		got = true
		c07fiUnpackInto(cov.confPairs, cr.ConfPairs)
		c07fiUnpackInto(cov.firedPairs, cr.FiredPairs)
		c07fiUnpackInto(cov.confTriples, cr.ConfTriples)
		c07fiUnpackInto(cov.firedTriples, cr.FiredTriples)
		for i, v := range cr.FiredFeat {
			if i < n {
				cov.firedFeat[i] += v
			}
		}
		cov.accepted += cr.Accepted
		cov.rejected += cr.Rejected
	}
	if !got {
		return
	}
	d.Count("fi_features", n)
	if cov.rejected == 0 && cov.accepted > 0 {
		d.Count("fi_configs_all_accepted", 1)
	}
	possPairs, confPairs, firedPairs := 0, 0, 0
	possTriples, confTriples, firedTriples := 0, 0, 0
	var missing, notFired []string
	for a := 0; a < n; a++ {
		for b := a + 1; b < n; b++ {
			if !c07fiCompatible(a, b) {
				continue
			}
			possPairs++
			if cov.confPairs[a*n+b] {
				confPairs++
			} else {
				missing = append(missing, c07fiCatalogue[a].name+" + "+c07fiCatalogue[b].name)
			}
			if cov.firedPairs[a*n+b] {
				firedPairs++
			} else {
				notFired = append(notFired, c07fiCatalogue[a].name+" + "+c07fiCatalogue[b].name)
			}
			for c := b + 1; c < n; c++ {
				if !c07fiCompatible(a, c) || !c07fiCompatible(b, c) {
					continue
				}
				possTriples++
				if cov.confTriples[(a*n+b)*n+c] {
					confTriples++
				}
				if cov.firedTriples[(a*n+b)*n+c] {
					firedTriples++
				}
			}
		}
	}
	d.Count("fi_pairs_possible", possPairs)
	d.Count("fi_pairs_configured", confPairs)
	d.Count("fi_pairs_fired_together", firedPairs)
	d.Count("fi_triples_possible", possTriples)
	d.Count("fi_triples_configured", confTriples)
	d.Count("fi_triples_fired_together", firedTriples)
	d.Count("fi_pairs_not_configured", len(missing))
	for i, m := range missing {
		if i >= 30 {
			break
		}
		d.Count("fi_pairs_not_configured_list/"+m, 1)
	}
	if len(missing) == 0 {
		d.Count("fi_pairs_all_configured", 1)
	}
	for i, m := range notFired { // mostly pairs that exclude each other (engine=Off with any rule feature, ...)
		if i >= 80 {
			break
		}
		d.Count("fi_pairs_never_fired_together_list/"+m, 1)
	}
	never := 0
	for i, v := range cov.firedFeat {
		d.Count("fi_feature_fired/"+c07fiCatalogue[i].name, v)
		if v == 0 {
			never++
		}
	}
	d.Count("fi_features_never_fired", never)
	if never == 0 {
		d.Count("fi_features_all_fired", 1)
	}
}
