package props

// C15: built-in operators decide exactly their documented predicates.
//
// Every operator instance is obtained from the real factory (verifapi.GetOperator) and evaluated
// against a real transaction state; the result (and TX.0-9 for capturing operators) is compared
// with the naive definitions of c15_naive.go. A text-safe part of the population is additionally
// run end-to-end through single-rule WAFs, where "!@op" must be the exact complement of "@op".

import (
	"encoding/json"
	"fmt"
	"os"
	"path/filepath"
	"strconv"
	"strings"
	"testing/fstest"

	coraza "github.com/corazawaf/coraza/v3"
	"github.com/corazawaf/coraza/v3/experimental/plugins/plugintypes"
	"github.com/corazawaf/coraza/v3/experimental/verifapi"
	"github.com/corazawaf/coraza/v3/types"

	"verif/internal/fw"
	"verif/internal/sl"
)

type c15Case struct {
	Mode  string   `json:"mode"` // direct | e2e-pair | e2e-deny
	Neg   bool     `json:"neg,omitempty"`
	Spec  *c15Spec `json:"spec"`
	Input c15S     `json:"input"`
}

// operators with a naive definition, and the schedule (heavier weight on the matchers with
// pre-checks and folding)
var c15Judged = []string{"streq", "contains", "strmatch", "beginsWith", "endsWith", "within", "eq", "ge", "gt", "le", "lt",
	"pm", "pmFromFile", "pmf", "pmFromDataset", "ipMatch", "ipMatchFromFile", "ipMatchF", "ipMatchFromDataset",
	"validateByteRange", "validateUrlEncoding", "validateUtf8Encoding", "rx"}

var c15Schedule = append(append([]string{}, c15Judged...),
	"pm", "pm", "pmFromFile", "pmFromDataset", "rx", "rx", "rx-binary", "ipMatch", "ipMatch", "validateByteRange", "validateNid")

var c15TrivialWAF coraza.WAF

func c15Trivial() coraza.WAF {
	if c15TrivialWAF == nil {
		w, err := coraza.NewWAF(coraza.NewWAFConfig().WithDirectives("SecRuleEngine On\n"))
		if err != nil {
			panic(err)
		}
		c15TrivialWAF = w
	}
	return c15TrivialWAF
}

func c15Options(s *c15Spec) plugintypes.OperatorOptions {
	opts := plugintypes.OperatorOptions{Arguments: string(s.Arg), RxPreFilterEnabled: s.Prefilter}
	if s.File != nil {
		opts.Root = fstest.MapFS{string(s.Arg): &fstest.MapFile{Data: []byte(*s.File)}}
		opts.Path = []string{"."}
	}
	if s.Dataset != nil {
		ds := make([]string, len(s.Dataset))
		for i, d := range s.Dataset {
			ds[i] = string(d)
		}
		opts.Datasets = map[string][]string{string(s.Arg): ds}
	}
	return opts
}

// c15Construct returns the operator, or nil when the constructor refused the argument (counted).
func c15Construct(w *fw.W, s *c15Spec) plugintypes.Operator {
	var op plugintypes.Operator
	var err error
	if pi := fw.Guard(func() { op, err = verifapi.GetOperator(s.Op, c15Options(s)) }); pi != nil {
		w.Violation(s.Op+":panic:constructor:"+pi.Frame, "naive-definition", &c15Case{Mode: "direct", Spec: s}, "an operator or an error", pi, pi.Value)
		return nil
	}
	if err != nil || op == nil {
		w.Count("constructor_errors", 1)
		w.Cover("constructor_error_ops", s.Op)
		return nil
	}
	return op
}

type c15Obs struct {
	Got   bool           `json:"result"`
	Caps  map[int]string `json:"tx_0_9,omitempty"`
	Panic *fw.PanicInfo  `json:"panic,omitempty"`
	// end-to-end only
	Fired []int `json:"fired,omitempty"`
	Intr  int   `json:"interrupted_by,omitempty"`
}

func c15ReadCaps(st plugintypes.TransactionState) map[int]string {
	var caps map[int]string
	txc := st.Variables().TX()
	for i := 0; i <= 9; i++ {
		if vs := txc.Get(strconv.Itoa(i)); len(vs) > 0 {
			if caps == nil {
				caps = map[int]string{}
			}
			caps[i] = vs[0]
		}
	}
	return caps
}

// c15Tx is the real transaction an instance is evaluated against (one per instance; TX.0-9 are
// cleared before every capturing evaluation).
type c15Tx struct {
	tx types.Transaction
	st plugintypes.TransactionState
}

func c15NewTx(w *fw.W, s *c15Spec) *c15Tx {
	tx := c15Trivial().NewTransaction()
	st := verifapi.TxState(tx)
	if st == nil {
		w.Count("hook_missing", 1)
		tx.Close()
		return nil
	}
	if s.TXX != nil {
		st.Variables().TX().Set("x", []string{string(*s.TXX)})
	}
	verifapi.SetCapturing(tx, s.Capture)
	return &c15Tx{tx: tx, st: st}
}

// c15Stale prefixes the values planted in TX.0-9 before a capturing @rx evaluation.
const c15Stale = "\x00stale"

func (t *c15Tx) close() { fw.Guard(func() { t.tx.Close() }) }

func c15EvalDirect(t *c15Tx, op plugintypes.Operator, s *c15Spec, in string) *c15Obs {
	if s.Capture {
		txc := t.st.Variables().TX()
		for i := 0; i <= 9; i++ {
			if s.Op == "rx" {
				// leftovers of an earlier capturing rule of the same transaction: a group that does not take part in
				// this match has to be stored as empty, not left as it was
				txc.Set(strconv.Itoa(i), []string{c15Stale + strconv.Itoa(i)})
			} else {
				txc.Remove(strconv.Itoa(i))
			}
		}
	}
	o := &c15Obs{}
	o.Panic = fw.Guard(func() { o.Got = op.Evaluate(t.st, in) })
	if s.Capture && o.Panic == nil {
		o.Caps = c15ReadCaps(t.st)
	}
	return o
}

func c15HasHigh(s string) bool {
	for i := 0; i < len(s); i++ {
		if s[i] >= 0x80 {
			return true
		}
	}
	return false
}

// c15Shape names the input region of a disagreement, so that one root cause gives one class.
func c15Shape(s *c15Spec, in string) string {
	switch s.Op {
	case "pm", "pmFromFile", "pmf", "pmFromDataset":
		for _, p := range s.Phrases {
			if c15HasHigh(string(p)) {
				return "non-ascii-phrase" + c15FileShape(s)
			}
		}
		sh := "ascii"
		if c15HasHigh(in) {
			sh = "non-ascii-input"
		}
		return sh + c15FileShape(s)
	case "ipMatch", "ipMatchFromFile", "ipMatchF", "ipMatchFromDataset":
		fam := "v4"
		if strings.Contains(in, ":") {
			fam = "v6"
		}
		for _, e := range s.Entries {
			if !strings.Contains(e, "/") {
				return fam + "-list-with-bare-address" + c15FileShape(s)
			}
		}
		return fam + c15FileShape(s)
	case "validateByteRange":
		switch {
		case strings.IndexByte(in, 0) >= 0:
			return "input-with-byte-0"
		case strings.IndexByte(in, 255) >= 0:
			return "input-with-byte-255"
		}
		return "other"
	case "rx":
		if s.Binary != nil {
			if strings.Contains(in, "\n") {
				return "byte-pattern-newline"
			}
			return "byte-pattern"
		}
		return "pattern" + c15RxShape(s, in)
	}
	if s.TXX != nil {
		return "macro"
	}
	return "literal"
}

// c15FileShape: the way a data file was written, when it is not the plain one-entry-per-LF-line form.
func c15FileShape(s *c15Spec) string {
	switch {
	case s.File == nil || s.FileStyle == "":
		return ""
	case strings.Contains(s.FileStyle, "longline"):
		return ":file-with-line-over-64KiB"
	case !strings.Contains(s.FileStyle, "pad=none"):
		return ":file-with-padded-lines"
	case !strings.Contains(s.FileStyle, "eol=lf"):
		return ":file-with-crlf"
	case strings.Contains(s.FileStyle, "final=none"):
		return ":file-without-final-newline"
	}
	return ""
}

// c15RxShape: case-insensitive patterns, inputs outside ASCII and the prefilter setting get classes of their own.
func c15RxShape(s *c15Spec, in string) string {
	sh := ""
	if strings.Contains(s.Pattern, "(?i") {
		sh = ":case-insensitive"
		if c15HasHigh(in) && !c15HasHigh(s.Pattern) {
			sh += ":non-ascii-input"
		}
	}
	if s.Prefilter {
		sh += ":prefilter-on"
	}
	return sh
}

func c15Kind(want bool) string {
	if want {
		return "false-negative"
	}
	return "false-positive"
}

func c15CountOp(w *fw.W, op string, got bool) {
	w.Count("op."+op+".evaluations", 1)
	if got {
		w.Count("op."+op+".true", 1)
	} else {
		w.Count("op."+op+".false", 1)
	}
}

// c15JudgeCaptures checks what the statement pins about TX.0-9 after a capturing evaluation.
func c15JudgeCaptures(w *fw.W, prefix string, c *c15Case, want bool, caps map[int]string) {
	s, in := c.Spec, string(c.Input)
	w.Count("capture_checks", 1)
	switch s.Op {
	case "pm", "pmFromFile", "pmf", "pmFromDataset":
		folded := map[string]bool{}
		for _, p := range s.Phrases {
			folded[c15FoldASCII(string(p))] = true
		}
		if want && caps[0] == "" {
			w.Violation(prefix+s.Op+":capture:tx0-empty-after-match", "naive-definition", c, "TX.0 holds a matched phrase", caps, "")
			return
		}
		fin := c15FoldASCII(in)
		for i := 0; i <= 9; i++ {
			v, ok := caps[i]
			if !ok || v == "" {
				continue
			}
			if !want {
				w.Violation(prefix+s.Op+":capture:set-without-match", "naive-definition", c, "no capture", caps, "")
				return
			}
			fv := c15FoldASCII(v)
			if !folded[fv] || !c15Contains(fin, fv) {
				w.Violation(prefix+s.Op+":capture:not-a-listed-phrase-of-the-input", "naive-definition", c, "each TX.i is a listed phrase occurring in the input", caps, fmt.Sprintf("TX.%d=%q", i, v))
				return
			}
			w.Count("captures_seen", 1)
		}
	case "rx":
		re := c15Regexp(s.Pattern)
		if re == nil {
			return
		}
		m := re.FindStringSubmatch(in)
		for i := 0; i <= 9; i++ {
			exp := ""
			if i < len(m) {
				exp = m[i]
			} else if strings.HasPrefix(caps[i], c15Stale) {
				// indices beyond the pattern's groups (or any index when nothing matched): leftovers may stay, that is not pinned
				continue
			}
			if caps[i] != exp {
				cls := prefix + "rx:capture:tx" + strconv.Itoa(i)
				if m == nil {
					cls = prefix + "rx:capture:set-without-match"
				}
				if s.Prefilter {
					cls += ":prefilter-on"
				}
				w.Violation(cls, "naive-definition", c, map[string]any{"submatches": c15Strs(m)}, caps, fmt.Sprintf("TX.%d: expected %q, observed %q", i, exp, caps[i]))
				return
			}
			if exp != "" {
				w.Count("captures_seen", 1)
			}
		}
		if len(m) >= 10 {
			w.Count("rx_ten_or_more_submatches", 1)
		}
	}
}

func c15Strs(m []string) []c15S {
	out := make([]c15S, len(m))
	for i, x := range m {
		out[i] = c15S(x)
	}
	return out
}

type c15Outcome struct {
	judged bool
	want   bool
	viol   bool
}

// c15JudgeDirect evaluates and judges one (spec, input) directly.
func c15JudgeDirect(w *fw.W, t *c15Tx, op plugintypes.Operator, s *c15Spec, in string) c15Outcome {
	c := &c15Case{Mode: "direct", Spec: s, Input: c15S(in)}
	w.Trace(c)
	o := c15EvalDirect(t, op, s, in)
	if o.Panic != nil {
		w.Violation(s.Op+":panic:"+o.Panic.Frame, "naive-definition", c, "a boolean", o, o.Panic.Value)
		return c15Outcome{viol: true}
	}
	c15CountOp(w, s.Op, o.Got)
	if s.Op == "validateNid" {
		w.Count("panic_only_evaluations", 1)
		return c15Outcome{}
	}
	want, judged, why := c15Want(s, in)
	if !judged {
		w.Count("ambiguous_skipped", 1)
		w.Cover("ambiguous_reasons", why)
		w.Count("ambiguous: "+why, 1)
		return c15Outcome{}
	}
	w.Eval(1)
	if s.Op == "rx" && s.Binary == nil {
		c15RxEvidence(w, op, s, in, want)
	}
	if o.Got != want {
		w.Violation(s.Op+":"+c15Kind(want)+":"+c15Shape(s, in), "naive-definition", c, want, o, "")
		return c15Outcome{judged: true, want: want, viol: true}
	}
	if s.Capture {
		c15JudgeCaptures(w, "", c, want, o.Caps)
	}
	return c15Outcome{judged: true, want: want}
}

// c15RxEvidence counts (never decides) which regions of the @rx population an evaluation fell in:
// the prefilter setting, the early stage of the matcher that decided it, and matches that exist
// only because RE2's (?i) folds with Unicode simple folding (K = U+212A, s = U+017F, ...).
func c15RxEvidence(w *fw.W, op plugintypes.Operator, s *c15Spec, in string, want bool) {
	if s.Prefilter {
		w.Count("rx_prefilter_on_evaluations", 1)
		switch verifapi.RxStage(op, in) {
		case verifapi.RxStageExact:
			c11CountB(w, "rx_decided_by_exact_literal_path")
			if want {
				w.Count("rx_exact_literal_path_matches", 1)
			}
		case verifapi.RxStagePrefilter, verifapi.RxStageMinLen:
			c11CountB(w, "rx_rejected_before_the_regexp")
		}
	} else {
		w.Count("rx_prefilter_off_evaluations", 1)
	}
	if want && s.Literal != nil && strings.Contains(s.Pattern, "(?i") && !c15HasHigh(string(*s.Literal)) && c15HasHigh(in) &&
		!c15Contains(c15FoldASCII(in), c15FoldASCII(string(*s.Literal))) {
		w.Count("rx_matches_only_under_unicode_folding", 1)
		if s.Prefilter {
			w.Count("rx_matches_only_under_unicode_folding_prefilter_on", 1)
		}
	}
}

// ---------------------------------------------------------------------------------------------
// end-to-end: single-rule WAFs probed with REQUEST_HEADERS:X

func c15Render(w *fw.W, s *c15Spec, variant string, neg bool) (text, arg string, ok bool) {
	arg = string(s.Arg)
	var sb strings.Builder
	sb.WriteString("SecRuleEngine On\n")
	if s.File != nil {
		p := filepath.Join(w.Scratch, arg)
		if err := os.WriteFile(p, []byte(*s.File), 0o644); err != nil {
			return "", "", false
		}
		arg = p
	}
	if s.Prefilter {
		sb.WriteString("SecRxPreFilter On\n")
	}
	if s.Dataset != nil {
		sb.WriteString("SecDataset " + arg + " `\n")
		if s.DatasetText != nil {
			// the entries as a configuration writes them: indented, with empty / comment lines, listed twice
			sb.WriteString(string(*s.DatasetText))
			if !strings.HasSuffix(string(*s.DatasetText), "\n") {
				sb.WriteString("\n")
			}
			w.Count("e2e_dataset_blocks_with_styled_lines", 1)
		} else {
			for _, d := range s.Dataset {
				sb.WriteString(string(d) + "\n")
			}
		}
		sb.WriteString("`\n")
	}
	opText := "@" + s.Op
	if arg != "" {
		opText += " " + arg
	}
	capt := ""
	if s.Capture {
		capt = ",capture"
	}
	switch variant {
	case "e2e-pair":
		fmt.Fprintf(&sb, "SecRule REQUEST_HEADERS:X \"%s\" \"id:1,phase:1,pass%s\"\n", opText, capt)
		fmt.Fprintf(&sb, "SecRule REQUEST_HEADERS:X \"!%s\" \"id:2,phase:1,pass\"\n", opText)
	default:
		bang := ""
		if neg {
			bang = "!"
		}
		fmt.Fprintf(&sb, "SecRule REQUEST_HEADERS:X \"%s%s\" \"id:1,phase:1,deny,status:403%s\"\n", bang, opText, capt)
	}
	return sb.String(), arg, true
}

func c15E2E(w *fw.W, s *c15Spec, variant string, neg bool, inputs []string) {
	text, arg, ok := c15Render(w, s, variant, neg)
	if !ok {
		w.Count("e2e_skipped", 1)
		return
	}
	if s.File != nil {
		defer os.Remove(arg)
	}
	var waf coraza.WAF
	var err error
	if pi := fw.Guard(func() { waf, err = sl.BuildText(text) }); pi != nil {
		w.Violation("e2e:"+s.Op+":panic:constructor:"+pi.Frame, "single-rule-waf", &c15Case{Mode: variant, Neg: neg, Spec: s}, "a WAF or an error", pi, text)
		return
	}
	if err != nil {
		w.Count("e2e_build_errors", 1)
		w.Cover("e2e_build_error_ops", s.Op)
		return
	}
	defer sl.CloseWAF(waf)
	// the text layer is C16's subject: only go on when the compiled rule carries exactly the
	// argument and the negation flags that were meant
	rules := verifapi.DumpRules(waf)
	good := len(rules) >= 1 && rules[0].OperatorData == arg
	if good && variant == "e2e-pair" {
		good = len(rules) == 2 && rules[1].OperatorData == arg && !rules[0].Negation && rules[1].Negation
	} else if good {
		good = rules[0].Negation == neg
	}
	if !good {
		w.Count("e2e_text_not_roundtripped", 1)
		return
	}
	for _, in := range inputs {
		c := &c15Case{Mode: variant, Neg: neg, Spec: s, Input: c15S(in)}
		w.Trace(c)
		tx := waf.NewTransaction()
		st := verifapi.TxState(tx)
		if st == nil {
			w.Count("hook_missing", 1)
			tx.Close()
			return
		}
		if s.TXX != nil {
			st.Variables().TX().Set("x", []string{string(*s.TXX)})
		}
		tx.AddRequestHeader("X", in)
		o := &c15Obs{}
		var it *types.Interruption
		o.Panic = fw.Guard(func() { it = tx.ProcessRequestHeaders() })
		if o.Panic == nil {
			for _, mr := range tx.MatchedRules() {
				o.Fired = append(o.Fired, mr.Rule().ID())
			}
			if it != nil {
				o.Intr = it.RuleID
			}
			o.Caps = c15ReadCaps(st)
		}
		fw.Guard(func() { tx.ProcessLogging(); tx.Close() })
		if o.Panic != nil {
			w.Violation("e2e:"+s.Op+":panic:"+o.Panic.Frame, "single-rule-waf", c, "a decision", o, o.Panic.Value)
			continue
		}
		w.Count("op."+s.Op+".e2e", 1)
		fired := func(id int) bool {
			for _, f := range o.Fired {
				if f == id {
					return true
				}
			}
			return false
		}
		want, judged, _ := c15Want(s, in)
		if s.Op == "validateNid" {
			judged = false
		}
		if variant == "e2e-pair" {
			f1, f2 := fired(1), fired(2)
			o.Got = f1
			w.Count("negation_pairs", 1)
			if f1 == f2 {
				w.Violation("e2e:"+s.Op+":negation-not-the-complement", "single-rule-waf", c, "exactly one of @op and !@op fires", o, text)
				continue
			}
			if !judged {
				continue
			}
			w.Eval(1)
			if f1 != want {
				w.Violation("e2e:"+s.Op+":"+c15Kind(want)+":"+c15Shape(s, in), "single-rule-waf", c, want, o, text)
				continue
			}
			if s.Capture {
				c15JudgeCaptures(w, "e2e:", c, want, o.Caps)
			}
			continue
		}
		if !judged {
			continue
		}
		w.Eval(1)
		denied := o.Intr == 1
		o.Got = denied != neg
		if neg {
			w.Count("negated_deny_rules", 1)
		}
		if denied != (want != neg) {
			k := c15Kind(want)
			if neg {
				k = "negated-" + k
			}
			w.Violation("e2e:"+s.Op+":"+k+":"+c15Shape(s, in), "single-rule-waf", c, map[string]any{"predicate": want, "negated": neg, "interrupted": want != neg}, o, text)
			continue
		}
		if s.Capture && !neg {
			c15JudgeCaptures(w, "e2e:", c, want, o.Caps)
		}
	}
}

// ---------------------------------------------------------------------------------------------
// one round: generate an operator instance and its inputs, judge them

func c15Prefixed(s string) []string {
	out := make([]string, 0, len(s)+1)
	for k := 0; k <= len(s); k++ {
		out = append(out, s[:k])
	}
	return out
}

func c15Round(w *fw.W, sched string, serial int, nIn int) {
	r := w.Rng
	safe := r.IntN(6) == 0
	var s *c15Spec
	var inputs []string
	gen := func(f func() string) {
		for i := 0; i < nIn; i++ {
			inputs = append(inputs, f())
		}
	}
	switch sched {
	case "streq", "contains", "strmatch", "beginsWith", "endsWith", "within":
		s = c15GenString(r, sched, safe)
		gen(func() string { return c15StringInput(r, s) })
	case "eq", "ge", "gt", "le", "lt":
		s = c15GenNumeric(r, sched)
		safe = safe && c15TextSafe(string(s.Arg))
		gen(func() string { return c15NumericInput(r, s) })
	case "pm", "pmFromFile", "pmf", "pmFromDataset":
		s = c15GenPm(r, sched, safe, serial)
		atoms := c15Atoms
		gen(func() string {
			in, kind := c15PmInput(r, s.Phrases, atoms)
			w.Cover("pm_input_kinds", kind)
			switch kind {
			case "shortest-phrase", "shortest-phrase-plus-one", "shortest-phrase-minus-one", "shortest-phrase-one-bit-off":
				w.Count("pm_inputs_at_the_shortest_phrase_boundary", 1)
			case "unicode-folded-phrase", "shortest-phrase-unicode-folded":
				w.Count("pm_inputs_unicode_folded_phrase", 1)
			}
			return in
		})
		c15CountFileStyle(w, s)
	case "ipMatch", "ipMatchFromFile", "ipMatchF", "ipMatchFromDataset":
		s = c15GenIP(r, sched, serial)
		gen(func() string { return c15IPInput(r, s.Entries) })
		c15CountFileStyle(w, s)
	case "validateByteRange":
		s = c15GenByteRange(r)
		gen(func() string { return c15ByteRangeInput(r, s) })
	case "validateUrlEncoding":
		s = &c15Spec{Op: sched}
		// "%" truncated at every offset: all prefixes of a generated string
		for len(inputs) < nIn {
			inputs = append(inputs, c15Prefixed(c15FromAtoms(r, c15URLAtoms, 1, 5))...)
		}
	case "validateUtf8Encoding":
		s = &c15Spec{Op: sched}
		for len(inputs) < nIn {
			inputs = append(inputs, c15Prefixed(c15FromAtoms(r, c15UTF8Atoms, 1, 4))...)
		}
	case "rx":
		var sample func(c15R) string
		s, sample = c15GenRx(r, safe)
		gen(func() string { return c15RxInput(r, sample) })
	case "rx-binary":
		s = c15GenRxBinary(r)
		safe = false
		gen(func() string { return c15RxBinaryInput(r, s.Binary) })
	case "validateNid":
		typ := c15Pick(r, []string{"cl", "us"})
		rx := c15Pick(r, []string{`.*`, `[0-9-]+`, `-+`, `[0-9]{7,8}-[0-9Kk]`, `\d{3}-?\d{2}-?\d{4}`, `[0-9.]+-?[0-9kK]?`, `.{8,}`})
		s = &c15Spec{Op: sched, Arg: c15S(typ + " " + rx), NoJudge: "panic-only"}
		safe = false
		gen(func() string {
			return c15FromAtoms(r, []string{"0", "1", "2", "5", "9", "-", "--------", "k", "K", ".", " ", "11111111-1", "12345678-5", "123-45-6789", "x"}, 0, 6)
		})
	default:
		return
	}
	op := c15Construct(w, s)
	if op == nil {
		return
	}
	t := c15NewTx(w, s)
	if t == nil {
		return
	}
	w.Count("instances", 1)
	seenT, seenF := false, false
	var judgedIn []string
	padded, shortest := s.File != nil && len(s.Phrases) > 0 && !strings.Contains(s.FileStyle, "pad=none"), 0
	for i, p := range s.Phrases {
		if i == 0 || len(p) < shortest {
			shortest = len(p)
		}
	}
	for i, in := range inputs {
		if i > 0 && i%4 == 0 { // a fresh transaction now and then
			t.close()
			if t = c15NewTx(w, s); t == nil {
				return
			}
		}
		oc := c15JudgeDirect(w, t, op, s, in)
		if oc.judged && !oc.viol {
			if oc.want && padded && len(in) == shortest {
				// the whole input is a shortest phrase, and its line in the file is longer than the phrase
				w.Count("pm_padded_file_matches_as_short_as_the_shortest_phrase", 1)
			}
			judgedIn = append(judgedIn, in)
			if oc.want {
				seenT = true
			} else {
				seenF = true
			}
		}
	}
	t.close()
	if seenT && seenF {
		// the predicate is not constant on this instance's inputs: each judged pair counts
		base := fw.Hash(s.Op + "\x00" + string(s.Arg) + "\x00")
		for _, in := range judgedIn {
			w.Nontrivial(base ^ fw.Hash(in))
		}
		w.Count("instances_with_both_outcomes", 1)
	}
	if w.WantSample() && seenT && seenF && len(judgedIn) > 0 {
		want, _, _ := c15Want(s, judgedIn[0])
		w.Sample(map[string]any{"case": &c15Case{Mode: "direct", Spec: s, Input: c15S(judgedIn[0])}, "predicate": want})
	}
	if safe {
		n := len(inputs)
		if n > 6 {
			n = 6
		}
		if r.IntN(2) == 0 {
			c15E2E(w, s, "e2e-pair", false, inputs[:n])
		} else {
			c15E2E(w, s, "e2e-deny", r.IntN(2) == 0, inputs[:n])
		}
	}
}

func c15CountFileStyle(w *fw.W, s *c15Spec) {
	if s.File == nil {
		return
	}
	w.Cover("file_styles", s.FileStyle)
	if !strings.Contains(s.FileStyle, "pad=none") {
		w.Count("files_with_padded_lines", 1)
	}
	if strings.Contains(s.FileStyle, "pad=all") {
		w.Count("files_with_every_line_padded", 1)
	}
	if !strings.Contains(s.FileStyle, "eol=lf") {
		w.Count("files_with_crlf", 1)
	}
	if strings.Contains(s.FileStyle, "final=none") {
		w.Count("files_without_final_newline", 1)
	}
	if strings.Contains(s.FileStyle, "longline") {
		w.Count("files_with_line_over_64KiB", 1)
	}
}

func c15Required() []string {
	var out []string
	for _, op := range c15Judged {
		out = append(out, "op."+op+".true", "op."+op+".false", "op."+op+".e2e")
	}
	return append(out, "capture_checks", "captures_seen", "negation_pairs", "negated_deny_rules", "instances_with_both_outcomes",
		"files_with_padded_lines", "files_with_every_line_padded", "files_with_crlf", "files_without_final_newline", "files_with_line_over_64KiB", "e2e_dataset_blocks_with_styled_lines",
		"pm_inputs_at_the_shortest_phrase_boundary", "pm_inputs_unicode_folded_phrase", "pm_padded_file_matches_as_short_as_the_shortest_phrase",
		"rx_prefilter_on_evaluations", "rx_prefilter_off_evaluations", "rx_decided_by_exact_literal_path", "rx_exact_literal_path_matches", "rx_rejected_before_the_regexp",
		"rx_matches_only_under_unicode_folding", "rx_matches_only_under_unicode_folding_prefilter_on",
		"rx_decided_by_exact_literal_path_no_regex_multiline_build", "rx_rejected_before_the_regexp_no_regex_multiline_build")
}

type c15Params struct {
	Rounds int `json:"rounds"`
	Inputs int `json:"inputs"`
	// Only restricts the schedule to the operators named (the nomline flavour repeats only what depends on
	// the build's regex mode)
	Only []string `json:"only,omitempty"`
}

func init() {
	fw.Register(&fw.Prop{
		ID: "C15", Level: "exploration",
		Rule: "per operator (string operators with literal and %{TX.x} arguments, @eq/@ge/@gt/@le/@lt, @pm/@pmFromFile/@pmf/@pmFromDataset, @ipMatch and its file/data-set forms, @validateByteRange, @validateUrlEncoding, @validateUtf8Encoding, @rx incl. a byte-escape sub-language and an anchored / case-insensitive literal sub-population, with the prefilter off and on) an instance is built by the real factory from a generated structured argument (phrase lists 1-40 with shared prefixes, duplicates and non-ASCII/invalid UTF-8 bytes, CIDR lists v4/v6 with and without prefix length, byte ranges touching 0 and 255, patterns with up to 12 groups; data files and SecDataset blocks written in 27 styles: no/some/all lines padded with blanks and tabs, LF/CRLF/mixed, with/without/several final line ends, blank-only and comment lines, entries listed twice or in another case) and evaluated on inputs derived from the argument (phrase at start/end, near misses, the length boundary of the shortest phrase: equal, one byte shorter, one byte longer, one bit off; texts equal to the argument only under Unicode simple folding such as k/U+212A, s/U+017F and letters whose case forms differ in encoded length; range edges, %XX and UTF-8 sequences truncated at every offset) against a real transaction state; result and TX.0-9 are compared with naive definitions; about one instance in six is also run through single-rule WAFs (@op / !@op pair, or deny with optional '!'). A case (operator, argument, input) is non-trivial when it was judged and its instance produced both outcomes on its inputs; distinct by hash of (operator, argument, input).",
		Assumptions: []string{
			"trusted base: Go's regexp with the prefix rx.go documents for the build ((?sm) by default; (?s) in the extra batches built with coraza.rule.no_regex_multiline, which repeat the @rx rounds only), net/netip for address parsing, the hand-written definitions in internal/props/c15_naive.go",
			"not judged (evaluated for panics only, counted as ambiguous_skipped): numeric operators on text that is not a digits-only decimal integer (optional minus, leading zeros allowed) within 64 bits, zoned or IPv4-mapped addresses, @validateNid",
			"data files and SecDataset blocks: the entry of a line is the line without its line end and without leading/trailing blanks and tabs; lines that are empty after that are ignored; a line whose first byte is '#' is a comment (indented '#' lines are not generated); in the direct form a data set is the list of strings handed to the factory",
			"SecRxPreFilter does not change the documented predicate of @rx (C11 states this); the stage counters read through verifapi.RxStage are evidence only",
			"not generated: data-file lines of 64 KiB or more, empty @pm phrases (double blanks), '|' inside @pm phrases (Snort syntax), empty @validateByteRange argument or descending ranges, CIDR list entries the constructor would skip, @rx byte escapes whose decoded form is valid UTF-8",
			"the end-to-end part uses only arguments that need no quoting/escaping/trimming and checks through the rule dump that the compiled argument is the intended one (the text layer is C16's subject)",
		},
		Required: c15Required(),
		Plan: func(tier fw.Tier, seed int64) []fw.Batch {
			n, p := 16, c15Params{Rounds: 60000, Inputs: 12}
			if tier == fw.Thorough {
				n, p = 96, c15Params{Rounds: 400000, Inputs: 16}
			}
			pj, _ := json.Marshal(p)
			var bs []fw.Batch
			for i := 0; i < n; i++ {
				bs = append(bs, fw.Batch{Index: i, Flavour: "plain", Params: pj, TimeoutS: 3600})
			}
			// @rx again in the build where ^ and $ are text anchors (coraza.rule.no_regex_multiline); the naive
			// definition follows the build (rxBuildWrap)
			p.Only = []string{"rx", "rx-binary"}
			p.Rounds /= 4
			pj, _ = json.Marshal(p)
			for i := 0; i < n/8; i++ {
				bs = append(bs, fw.Batch{Index: n + i, Flavour: "nomline", Params: pj, TimeoutS: 3600})
			}
			return bs
		},
		Run: func(w *fw.W, b fw.Batch) {
			p := c15Params{Rounds: 1000, Inputs: 8}
			if len(b.Params) > 0 {
				json.Unmarshal(b.Params, &p)
			}
			sched := c15Schedule
			if len(p.Only) > 0 {
				sched = p.Only
			}
			for i := 0; i < p.Rounds; i++ {
				c15Round(w, sched[i%len(sched)], i, p.Inputs)
			}
		},
		Replay: func(w *fw.W, raw json.RawMessage) {
			var c c15Case
			if json.Unmarshal(raw, &c) != nil || c.Spec == nil {
				return
			}
			in := string(c.Input)
			switch c.Mode {
			case "e2e-pair", "e2e-deny":
				c15E2E(w, c.Spec, c.Mode, c.Neg, []string{in})
			default:
				if op := c15Construct(w, c.Spec); op != nil {
					if t := c15NewTx(w, c.Spec); t != nil {
						c15JudgeDirect(w, t, op, c.Spec, in)
						t.close()
					}
				}
			}
		},
	})
}
