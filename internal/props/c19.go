package props

// C19 "Audit and error logging record exactly what happened, once, intact".
//
// (A) decision table + content table, enumerated exhaustively (plain flavour);
// (B) concurrent transactions sharing one serial / one concurrent writer (race flavour, c19_conc.go).

import (
	"encoding/json"
	"fmt"
	"os"
	"path/filepath"
	"runtime"
	"sort"
	"strings"
	"sync"

	coraza "github.com/corazawaf/coraza/v3"
	"github.com/corazawaf/coraza/v3/experimental/plugins"
	"github.com/corazawaf/coraza/v3/experimental/plugins/plugintypes"
	"github.com/corazawaf/coraza/v3/types"

	"verif/internal/fw"
	"verif/internal/sl"
)

// ---- plugin writer "verifc19": formats with the configured formatter and keeps the bytes, keyed by SecAuditLog target.

type c19PluginRec struct {
	TxID  string
	Bytes []byte
	Err   string
}

var (
	c19PlugMu   sync.Mutex
	c19PlugRecs = map[string][]c19PluginRec{}
)

type c19PlugWriter struct {
	key string
	f   plugintypes.AuditLogFormatter
}

func (p *c19PlugWriter) Init(c plugintypes.AuditLogConfig) error {
	p.key, p.f = c.Target, c.Formatter
	return nil
}
func (p *c19PlugWriter) Close() error { return nil }
func (p *c19PlugWriter) Write(al plugintypes.AuditLog) error {
	rec := c19PluginRec{TxID: al.Transaction().ID()}
	b, err := p.f.Format(al)
	if err != nil {
		rec.Err = err.Error()
	}
	rec.Bytes = append([]byte(nil), b...)
	c19PlugMu.Lock()
	c19PlugRecs[p.key] = append(c19PlugRecs[p.key], rec)
	c19PlugMu.Unlock()
	return nil
}

func c19TakePlugin(key string) []c19PluginRec {
	c19PlugMu.Lock()
	defer c19PlugMu.Unlock()
	out := c19PlugRecs[key]
	delete(c19PlugRecs, key)
	return out
}

// ---- hostile byte population

var c19Hostile = []string{
	"", "plain", `q"uo'te\ back`, "line1\nline2", "cr\r\nlf\r", "nul\x00byte", "\xff\xfe\xfd", "\xc3\x28", "trunc\xe2\x82",
	"\n--" + c19FakeBound + "-Z--\n", "--" + c19FakeBound + "-A--", "\n--" + c19FakeBound + "-K--\nSecAction \"id:999,pass\"\n\n--" + c19FakeBound + "-Z--\n",
	`"}],"transaction":{"id":"evil"}}`, "{\"transaction\":{\"id\":\"x\"}}\n{\"transaction\":{\"id\":\"y\"}}",
	"  \u0085", "<script>alert(1)</script>", strings.Repeat("A", 300), "x" + strings.Repeat("é", 160), strings.Repeat("\n", 5),
	"%{tx.c19}", "tab\there", "\x1b[31mred", "'; DROP TABLE audit; --", "R77 fake", "\\u0000\\n", "\"", "\\", "--", "-- \n--\n",
	"[client \"1.2.3.4\"] Coraza: Warning.", "\x7f\x80\x81", "a\x00\n\x00b",
}

func c19HostileValue(w *fw.W) string {
	switch x := w.Rng.IntN(10); {
	case x < 6:
		return c19Hostile[w.Rng.IntN(len(c19Hostile))]
	case x < 8:
		return c19Hostile[w.Rng.IntN(len(c19Hostile))] + c19Hostile[w.Rng.IntN(len(c19Hostile))]
	default:
		n := w.Rng.IntN(48)
		b := make([]byte, n)
		for i := range b {
			b[i] = byte(w.Rng.IntN(256))
		}
		return string(b)
	}
}

func (c *c19Case) fillBytes(w *fw.W) {
	c.HdrVal = c19Bytes(c19HostileValue(w))
	c.ArgVal = c19Bytes(c19HostileValue(w))
	c.ReqBody = c19Bytes(c19HostileValue(w))
	c.RespHdr = c19Bytes(c19HostileValue(w))
	c.RespBody = c19Bytes(c19HostileValue(w))
}

// ---- execution

type c19Obs struct {
	TxID        string        `json:"txid"`
	Panic       *fw.PanicInfo `json:"panic,omitempty"`
	BuildErr    string        `json:"build_err,omitempty"`
	Fired       []int         `json:"fired"`
	Interrupted bool          `json:"interrupted"`
	IntStatus   int           `json:"int_status,omitempty"`
	Callbacks   map[int]int   `json:"callbacks"` // rule id -> invocations carrying this transaction's id
	ForeignCB   int           `json:"foreign_callbacks,omitempty"`
	Records     []string      `json:"records"` // raw records (hex when not UTF-8)
	raw         [][]byte
	FormatErrs  []string `json:"format_errors,omitempty"`
	SinkBad     string   `json:"sink_bad,omitempty"`
	IndexLines  int      `json:"index_lines,omitempty"`
	Follow      bool     `json:"follow,omitempty"` // second transaction on the same WAF, no ctl fired in it
}

var c19Seq int

// c19RunTx drives one transaction connector-style: after an interruption only ProcessLogging follows.
// mid (may be nil) runs right after the transaction has been created (used to close the WAF while it is in flight).
func c19RunTx(waf coraza.WAF, c *c19Case, txid, uri, clientIP string, mid func()) (fired []int, interrupted bool, status int) {
	tx := waf.NewTransactionWithID(txid)
	defer tx.Close()
	if mid != nil {
		mid()
	}
	func() {
		tx.ProcessConnection(clientIP, 40000, "10.9.9.9", 80)
		tx.ProcessURI(uri, "POST", "HTTP/1.1")
		tx.AddGetRequestArgument("h", string(c.ArgVal))
		tx.AddRequestHeader("Host", "c19.example")
		tx.AddRequestHeader("X-H", string(c.HdrVal))
		if !c.Follow {
			tx.AddRequestHeader("X-Ctl", "on")
		}
		tx.AddRequestHeader("Content-Type", "application/octet-stream")
		if it := tx.ProcessRequestHeaders(); it != nil {
			return
		}
		if it, _, _ := tx.WriteRequestBody([]byte(c.ReqBody)); it != nil {
			return
		}
		if it, _ := tx.ProcessRequestBody(); it != nil {
			return
		}
		tx.AddResponseHeader("Content-Type", "text/plain")
		tx.AddResponseHeader("X-R", string(c.RespHdr))
		if it := tx.ProcessResponseHeaders(c.RespStatus, "HTTP/1.1"); it != nil {
			return
		}
		if it, _, _ := tx.WriteResponseBody([]byte(c.RespBody)); it != nil {
			return
		}
		tx.ProcessResponseBody()
	}()
	tx.ProcessLogging()
	for _, mr := range tx.MatchedRules() {
		fired = append(fired, mr.Rule().ID())
	}
	if it := tx.Interruption(); it != nil {
		interrupted, status = true, it.Status
	}
	return
}

// c19Exec builds the WAF of a case and runs its transaction; with follow, a second transaction that
// triggers no ctl rule runs afterwards on the SAME WAF (observed separately: the sink is drained in between).
func c19Exec(w *fw.W, c *c19Case, follow bool) (o, o2 *c19Obs) {
	c19Seq++
	o = &c19Obs{TxID: fmt.Sprintf("c19-%d-%d", w.Batch.Index, c19Seq), Callbacks: map[int]int{}}
	base := filepath.Join(w.Scratch, fmt.Sprintf("t%d", c19Seq))
	var text, key string
	switch c.Sink {
	case "serial":
		text = c.render("Serial", base+".log", "")
	case "concurrent":
		os.MkdirAll(base, 0o755)
		text = c.render("Concurrent", filepath.Join(base, "index.log"), filepath.Join(base, "store"))
	default:
		key = "plug-" + o.TxID
		text = c.render("verifc19", key, "")
	}
	var cbMu sync.Mutex
	cbs := map[string]map[int]int{}
	cfg := coraza.NewWAFConfig().WithDirectives(text).WithErrorCallback(func(mr types.MatchedRule) {
		cbMu.Lock()
		m := cbs[mr.TransactionID()]
		if m == nil {
			m = map[int]int{}
			cbs[mr.TransactionID()] = m
		}
		m[mr.Rule().ID()]++
		cbMu.Unlock()
	})
	waf, err := coraza.NewWAF(cfg)
	if err != nil {
		o.BuildErr = err.Error()
		return o, nil
	}
	defer sl.CloseWAF(waf)
	run := func(ob *c19Obs, cc *c19Case) {
		ob.Panic = fw.Guard(func() {
			ob.Fired, ob.Interrupted, ob.IntStatus = c19RunTx(waf, cc, ob.TxID, "/c19/"+ob.TxID, "10.1.2.3", nil)
		})
		cbMu.Lock()
		for id, m := range cbs {
			if id == ob.TxID {
				ob.Callbacks = m
			} else {
				ob.ForeignCB += len(m)
			}
			delete(cbs, id)
		}
		cbMu.Unlock()
		// drain the sink
		switch c.Sink {
		case "serial":
			data, _ := os.ReadFile(base + ".log")
			ob.raw, ob.SinkBad = c19SplitSerial(c.Format, data)
			os.Truncate(base+".log", 0) // the writer appends (O_APPEND): the next record starts the file again
		case "concurrent":
			ob.raw, ob.IndexLines, ob.SinkBad = c19ReadConcurrent(base, ob.TxID)
			os.RemoveAll(filepath.Join(base, "store"))
			os.Truncate(filepath.Join(base, "index.log"), 0)
		default:
			for _, r := range c19TakePlugin(key) {
				ob.raw = append(ob.raw, r.Bytes)
				if r.Err != "" {
					ob.FormatErrs = append(ob.FormatErrs, r.Err)
				}
				if r.TxID != ob.TxID {
					ob.SinkBad = "writer called with the record of transaction " + r.TxID
				}
			}
		}
		for _, r := range ob.raw {
			ob.Records = append(ob.Records, string(mustJSONBytes(c19Bytes(r))))
		}
	}
	run(o, c)
	if follow && o.Panic == nil {
		c2 := *c
		c2.Follow = true
		o2 = &c19Obs{TxID: o.TxID + "f", Callbacks: map[int]int{}, Follow: true}
		run(o2, &c2)
	}
	switch c.Sink {
	case "serial":
		os.Remove(base + ".log")
	case "concurrent":
		os.RemoveAll(base)
	}
	return o, o2
}

func mustJSONBytes(v any) []byte { b, _ := json.Marshal(v); return b }

// c19ReadConcurrent reads what a concurrent writer left for a single transaction: every file below
// <base>/store is one record; the index must name the transaction once per record, with an existing path.
func c19ReadConcurrent(base, txid string) (recs [][]byte, indexLines int, bad string) {
	var files []string
	filepath.Walk(filepath.Join(base, "store"), func(p string, info os.FileInfo, err error) error {
		if err == nil && !info.IsDir() {
			files = append(files, p)
		}
		return nil
	})
	sort.Strings(files)
	for _, f := range files {
		data, err := os.ReadFile(f)
		if err != nil {
			bad = "unreadable record file: " + err.Error()
			continue
		}
		recs = append(recs, data)
		if !strings.HasSuffix(f, "-"+txid) {
			bad = "record file " + filepath.Base(f) + " is not named after the transaction"
		}
	}
	idx, _ := os.ReadFile(filepath.Join(base, "index.log"))
	for _, ln := range strings.Split(string(idx), "\n") {
		if strings.Contains(ln, txid+" - ") {
			indexLines++
			p := ln[strings.Index(ln, txid+" - ")+len(txid)+3:]
			if _, err := os.Stat(p); err != nil {
				bad = "index names a file that does not exist: " + p
			}
		}
	}
	if indexLines != len(recs) && bad == "" {
		bad = fmt.Sprintf("index names the transaction %d time(s), %d record file(s) exist", indexLines, len(recs))
	}
	return
}

// ---- judging

func c19FlagKind(lg, au bool) string {
	switch {
	case lg && au:
		return "log"
	case au:
		return "auditlog"
	case lg:
		return "noauditlog"
	}
	return "nolog"
}

// c19Judge compares one execution with the decision function. Returns true when judged.
func c19Judge(w *fw.W, c *c19Case, o *c19Obs) bool {
	w.Eval(1)
	fl := strings.ToLower(c.Format)
	if o.BuildErr != "" {
		w.Count("build_errors", 1)
		w.Cover("build_error_samples", o.BuildErr)
		return false
	}
	prefix := ""
	if o.Follow {
		// the follow-up transaction fired no ctl: what goes wrong here was left behind by the first transaction on the WAF
		prefix = "followup:"
		w.Count("followup_transactions", 1)
	}
	viol := func(class, monitor string, cs, e, ob any, detail string) {
		w.Violation(prefix+class, monitor, cs, e, ob, detail)
	}
	fired := map[int]int{}
	for _, id := range o.Fired {
		fired[id]++
	}
	exp := c.expect(fired)
	expJ := map[string]any{"decision": exp}
	if o.Panic != nil {
		viol("panic:"+fl+":"+o.Panic.Frame, "recover", c, expJ, o, o.Panic.Value+"\n"+o.Panic.Stack)
		return true
	}
	// harness cross-checks: is the execution the one the model assumed? (rule firing and interruptions are C01/C02 matters)
	for i := range c.Rules {
		r := &c.Rules[i]
		if r.Phase == 5 && c.ruleEngine() == "On" && c.denyRule() != nil {
			continue
		}
		want := 0
		if c.modelFires(i) {
			want = 1
		}
		if fired[r.ID] != want {
			w.Count("model_mismatch_skipped", 1)
			w.Cover("model_mismatch_samples", fmt.Sprintf("rule %d phase %d fired %d times, model %d (engine %s)", r.ID, r.Phase, fired[r.ID], want, c.RuleEngine))
			return false
		}
	}
	if d := c.denyRule(); (d != nil && c.ruleEngine() == "On") != o.Interrupted || (o.Interrupted && o.IntStatus != d.Deny) {
		w.Count("model_mismatch_skipped", 1)
		w.Cover("model_mismatch_samples", fmt.Sprintf("interruption observed=%v status=%d", o.Interrupted, o.IntStatus))
		return false
	}

	// 1. number of records
	w.Count("records_expected", exp.Records)
	w.Count("records_seen", len(o.raw))
	w.Count("formats:"+c.Format, 1)
	w.Cover("formats", c.Format)
	w.Cover("sinks", c.Sink)
	if exp.NoPattern {
		w.Count(fmt.Sprintf("nopattern_relevant_%v", exp.Relevant), 1)
		if o.Follow {
			w.Count("nopattern_followups", 1)
		}
	}
	if exp.Denies > 1 {
		w.Count("multi_deny_"+exp.StatusSource, 1)
	}
	for i := range c.Rules {
		for _, ctl := range c.Rules[i].Ctl {
			k, _, _ := strings.Cut(ctl, "=")
			w.Cover("ctl_phases", fmt.Sprintf("%s@phase%d", k, c.Rules[i].Phase))
			if c.Rules[i].Phase == 5 && fired[c.Rules[i].ID] > 0 {
				w.Count("ctl_fired_in_phase5", 1)
			}
		}
	}
	w.Cover("engine_cells", exp.EffEngine+"/"+exp.StatusSource+fmt.Sprintf("/ctl=%v/relevant=%v", exp.EngineByCtl, exp.Relevant))
	bad := false
	if exp.Ambiguous != "" {
		w.Count("ambiguous_skipped", 1)
		w.Cover("ambiguous_reasons", exp.Ambiguous)
		w.Count("ambiguous: "+exp.Ambiguous, 1)
	} else if len(o.raw) != exp.Records {
		det := fmt.Sprintf("%d record(s) through sink %s, expected %d (effective engine %s, status %d from %s, relevant=%v)", len(o.raw), c.Sink, exp.Records, exp.EffEngine, exp.Status, exp.StatusSource, exp.Relevant)
		viol(exp.countClass(), "decision-table", c, expJ, o, det)
		bad = true
	}
	if o.SinkBad != "" {
		viol("malformed:"+c.Sink+"-container:"+fl, "file-parser", c, expJ, o, o.SinkBad)
		bad = true
	}
	for _, e := range o.FormatErrs {
		viol("format-error:"+fl, "plugin-writer", c, expJ, o, e)
		bad = true
	}

	// expected listing
	partsHas := func(b byte) bool { return strings.IndexByte(exp.Parts, b) >= 0 }
	wantListed := map[int]bool{}
	undecided := map[int]bool{}
	logEnabled := map[int]bool{}
	for _, id := range o.Fired {
		r := c.rule(id)
		if r == nil {
			continue
		}
		lg, au, ok := c.flagsOf(r)
		if !ok {
			undecided[id] = true
			w.Count("flags_undecided", 1)
			continue
		}
		if lg {
			logEnabled[id] = true
		}
		if au && (partsHas('K') || partsHas('H')) {
			wantListed[id] = true
		}
		w.Count("flagkind:"+c19FlagKind(lg, au), 1)
	}
	suffix := ""
	if exp.PartsByCtl {
		suffix = ":ctlparts"
	} else if c.Parts == "" {
		suffix = ":defaultparts"
	}

	// 2. every record: well-formed, carries the id, lists exactly the audit-enabled fired rules
	for _, raw := range o.raw {
		p, malformed := c19ParseRecord(c.Format, raw)
		if malformed != "" {
			viol("malformed:"+fl+suffix, "record-parser", c, expJ, o, malformed)
			bad = true
			continue
		}
		w.Count("records_parsed", 1)
		if p.TxID != o.TxID {
			viol("txid:"+fl+suffix, "record-parser", c, expJ, o, fmt.Sprintf("record carries transaction id %q, transaction is %q", p.TxID, o.TxID))
			bad = true
		}
		if c.Format == "Native" {
			got := c19PartsString(c19PartsSet(p.Sections))
			if got != exp.Parts {
				kind := "configured"
				if exp.PartsByCtl {
					kind = "ctl"
				} else if c.Parts == "" {
					kind = "default"
				}
				viol("parts:native-"+kind, "record-parser", c, expJ, o, fmt.Sprintf("sections %q, expected parts %q", p.Sections, exp.Parts))
				bad = true
			}
		}
		listed := map[int]bool{}
		for _, id := range p.Listed {
			listed[id] = true
		}
		for _, id := range p.Listed {
			if wantListed[id] || undecided[id] {
				continue
			}
			kind := "unfired"
			if fired[id] > 0 {
				if r := c.rule(id); r != nil {
					lg, au, _ := c.flagsOf(r)
					kind = c19FlagKind(lg, au)
					if au {
						kind = "noparts" // audit-enabled, but neither K nor H is configured
					}
				}
			}
			viol("rules:"+kind+"-listed"+suffix, "record-parser", c, expJ, map[string]any{"parsed": p, "obs": o}, fmt.Sprintf("rule %d listed in the %s record; expected listing %v", id, c.Format, c19Keys(wantListed)))
			bad = true
		}
		missing := 0
		for id := range wantListed {
			if !listed[id] {
				missing++
			}
		}
		if missing > 0 && p.Anon < missing {
			for id := range wantListed {
				if !listed[id] {
					lg, au, _ := c.flagsOf(c.rule(id))
					viol("rules:"+c19FlagKind(lg, au)+"-missing"+suffix, "record-parser", c, expJ, map[string]any{"parsed": p, "obs": o}, fmt.Sprintf("fired audit-enabled rule %d not listed in the %s record (listed %v, %d anonymous message(s), parts %s)", id, c.Format, p.Listed, p.Anon, exp.Parts))
					bad = true
					break
				}
			}
		} else if p.Anon > missing && len(undecided) == 0 {
			viol("rules:anonymous-extra"+suffix, "record-parser", c, expJ, map[string]any{"parsed": p, "obs": o}, fmt.Sprintf("%d message(s) without identifiable rule beyond the %d expected ones", p.Anon-missing, missing))
			bad = true
		}
		if len(wantListed) > 0 {
			w.Count("records_with_rules_judged", 1)
		}
	}

	// 3. error callback: exactly once per fired rule with logging enabled
	if o.ForeignCB > 0 {
		viol("callback:foreign-transaction", "error-callback", c, expJ, o, "callback invoked with another transaction id")
		bad = true
	}
	ids := map[int]bool{}
	for id := range fired {
		ids[id] = true
	}
	for id := range o.Callbacks {
		ids[id] = true
	}
	for id := range ids {
		if undecided[id] {
			continue
		}
		got, want := o.Callbacks[id], 0
		if logEnabled[id] {
			want = fired[id]
		}
		w.Count("callbacks", got)
		w.Count("callbacks_expected", want)
		if got == want {
			continue
		}
		cls := "callback:missing"
		switch {
		case fired[id] == 0:
			cls = "callback:unfired-rule"
		case want == 0:
			r := c.rule(id)
			lg, au, _ := c.flagsOf(r)
			cls = "callback:" + c19FlagKind(lg, au) + "-rule"
		case got > want:
			cls = "callback:twice"
		}
		viol(cls, "error-callback", c, expJ, o, fmt.Sprintf("rule %d: %d callback(s), expected %d", id, got, want))
		bad = true
	}
	if !bad && len(o.Fired) > 0 {
		w.Nontrivial(fw.Hash(c))
	}
	return true
}

func c19Keys(m map[int]bool) []int {
	var out []int
	for k := range m {
		out = append(out, k)
	}
	sort.Ints(out)
	return out
}

// ---- the tables

var c19PartsConfigs = []string{"", "ABCFHZ", "AZ", "ABZ", "AHZ", "AKZ", "AHKZ", "AKHZ", "ABCDEFGHIJKZ", "ABCEFKZ", "AEFHZ", "ABCFZ", "AIJKZ", "ACHZ"}
var c19CtlParts = []string{"", "+K", "-K", "+H", "-H", "+E", "-BCF", "+HK", "-HK", "ABKZ", "AHZ"}
var c19Patterns = []string{"^(?:5|403)", "^40[14]$"}

type c19Status struct {
	Resp      int
	DenyPhase int
	Deny      int
}

func c19StatusSources() []c19Status {
	out := []c19Status{{Resp: 200}, {Resp: 404}, {Resp: 403}, {Resp: 503}}
	for ph := 1; ph <= 4; ph++ {
		for _, st := range []int{403, 404} {
			for _, resp := range []int{200, 503} {
				out = append(out, c19Status{Resp: resp, DenyPhase: ph, Deny: st})
			}
		}
	}
	return out
}

type c19Ctl struct {
	Engine string
	Phase  int
}

func c19Ctls() []c19Ctl {
	out := []c19Ctl{{}}
	for _, e := range []string{"On", "Off", "RelevantOnly"} {
		for ph := 1; ph <= 4; ph++ {
			out = append(out, c19Ctl{e, ph})
		}
	}
	return out
}

// c19DecisionSize / c19DecisionCell: rule engine x audit engine x ctl switch x status source x flags of the deciding rule x format.
func c19DecisionDims() []int {
	return []int{2, 3, len(c19Ctls()), len(c19StatusSources()), len(c19FlagCombos), len(c19Formats)}
}

func c19Product(d []int) int {
	n := 1
	for _, x := range d {
		n *= x
	}
	return n
}

func c19Decode(idx int, dims []int) []int {
	out := make([]int, len(dims))
	for i := len(dims) - 1; i >= 0; i-- {
		out[i] = idx % dims[i]
		idx /= dims[i]
	}
	return out
}

// rot picks a member of a covering (non-product) dimension from the cell index, the repetition and the seed.
func c19Rot(n int, cell, rep int, seed int64, salt int) int {
	h := fw.Hash(fmt.Sprintf("%d|%d|%d|%d", cell, rep, seed, salt))
	return int(h % uint64(n))
}

func c19DecisionCell(cell, rep int, seed int64) *c19Case {
	ix := c19Decode(cell, c19DecisionDims())
	return c19DecisionCase("decision", cell, rep, seed, ix[0], ix[1], c19Ctls()[ix[2]], c19StatusSources()[ix[3]], c19FlagCombos[ix[4]], c19Formats[ix[5]])
}

// late table: the ctl:auditEngine switch made by a rule of the logging phase itself (phase 5), which is
// evaluated before the audit decision is taken: rule engine x SecAuditEngine x ctl value x status source x format
// (the log flags of the deciding rule rotate).
func c19LateDims() []int {
	return []int{2, 3, 3, len(c19StatusSources()), len(c19Formats)}
}

func c19LateCell(cell, rep int, seed int64) *c19Case {
	ix := c19Decode(cell, c19LateDims())
	ctl := c19Ctl{Engine: []string{"On", "Off", "RelevantOnly"}[ix[2]], Phase: 5}
	flags := c19FlagCombos[c19Rot(len(c19FlagCombos), cell, rep, seed, 11)]
	return c19DecisionCase("late", cell, rep, seed, ix[0], ix[1], ctl, c19StatusSources()[ix[3]], flags, c19Formats[ix[4]])
}

func c19DecisionCase(table string, cell, rep int, seed int64, re, ae int, ctl c19Ctl, st c19Status, flags, format string) *c19Case {
	c := &c19Case{Table: table, Cell: cell}
	c.RuleEngine = []string{"On", "DetectionOnly"}[re]
	c.AuditEngine = []string{"On", "Off", "RelevantOnly"}[ae]
	c.Format = format
	c.Relevant = c19Patterns[0]
	if c19Rot(4, cell, rep, seed, 1) == 0 {
		c.Relevant = c19Patterns[1]
	}
	c.DefFlags = c19DefFlagCombos[c19Rot(len(c19DefFlagCombos), cell, rep, seed, 2)]
	c.Parts = c19PartsConfigs[c19Rot(len(c19PartsConfigs), cell, rep, seed, 3)]
	c.Sink = c19SinkFor(cell, rep, seed)
	c.RespStatus = st.Resp
	// rule 1: ctl switch (never logged); rule 10: passive, phase 1, carries the ctl on parts; rule 20: the deciding rule;
	// rule 30: can not match; rule 40: phase 5.
	if ctl.Engine != "" {
		c.Rules = append(c.Rules, c19Rule{ID: 1, Phase: ctl.Phase, Flags: "nolog", Ctl: []string{"auditEngine=" + ctl.Engine}, NoMsg: true})
	}
	p := c19Rule{ID: 10, Phase: 1, Flags: c19FlagCombos[c19Rot(len(c19FlagCombos), cell, rep, seed, 4)]}
	if cp := c19CtlParts[c19Rot(len(c19CtlParts), cell, rep, seed, 5)]; cp != "" && c19Rot(2, cell, rep, seed, 6) == 0 {
		p.Ctl = []string{"auditLogParts=" + cp}
	}
	c.Rules = append(c.Rules, p)
	d := c19Rule{ID: 20, Phase: 2, Flags: flags}
	if st.DenyPhase != 0 {
		d.Phase, d.Deny = st.DenyPhase, st.Deny
	} else if c19Rot(2, cell, rep, seed, 7) == 0 {
		d.Target = "ARGS:h"
	}
	c.Rules = append(c.Rules, d)
	c.Rules = append(c.Rules, c19Rule{ID: 30, Phase: 1 + c19Rot(4, cell, rep, seed, 8), Flags: "log,auditlog", Never: true})
	c.Rules = append(c.Rules, c19Rule{ID: 40, Phase: 5, Flags: c19FlagCombos[1+c19Rot(len(c19FlagCombos)-1, cell, rep, seed, 9)], Plain: true})
	return c
}

// multi table: SecAuditEngine RelevantOnly with TWO or THREE disruptive rules firing in one transaction, statuses on
// either side of the relevant-status pattern, in every phase combination (phase 1..4 each, so file order and
// evaluation order differ in many cells): the status that counts is the one of the FIRST evaluated rule - the real
// interruption under On, the would-be interruption under DetectionOnly (configured, or switched by ctl:ruleEngine).
func c19MultiDims() []int {
	return []int{3, 64 + 512, 2}
}

func c19MultiCell(cell, rep int, seed int64) *c19Case {
	ix := c19Decode(cell, c19MultiDims())
	c := &c19Case{Table: "multi", Cell: cell, AuditEngine: "RelevantOnly"}
	c.RuleEngine = []string{"DetectionOnly", "On", "On"}[ix[0]]
	c.Relevant = c19Patterns[c19Rot(2, cell, rep, seed, 1)]
	c.DefFlags = c19DefFlagCombos[c19Rot(len(c19DefFlagCombos), cell, rep, seed, 2)]
	c.Parts = c19PartsConfigs[c19Rot(len(c19PartsConfigs), cell, rep, seed, 3)]
	c.Format = c19Formats[(cell+rep+int(seed))%len(c19Formats)]
	c.Sink = c19SinkFor(cell/4, rep, seed)
	c.RespStatus = []int{200, 503}[ix[2]]
	if ix[0] == 1 {
		c.Rules = append(c.Rules, c19Rule{ID: 3, Phase: 1, Flags: "nolog", Ctl: []string{"ruleEngine=DetectionOnly"}, NoMsg: true})
	}
	c.Rules = append(c.Rules, c19Rule{ID: 10, Phase: 1, Flags: c19FlagCombos[c19Rot(len(c19FlagCombos), cell, rep, seed, 4)]})
	k, n := ix[1], 2
	if k >= 64 {
		k, n = k-64, 3
	}
	for i := 0; i < n; i++ {
		ph := 1 + k%4
		k /= 4
		st := []int{403, 404}[k%2]
		k /= 2
		c.Rules = append(c.Rules, c19Rule{ID: 21 + i, Phase: ph, Deny: st, Flags: c19FlagCombos[c19Rot(len(c19FlagCombos), cell, rep, seed, 5+i)]})
	}
	c.Rules = append(c.Rules, c19Rule{ID: 30, Phase: 2, Flags: "log,auditlog", Never: true})
	c.Rules = append(c.Rules, c19Rule{ID: 40, Phase: 5, Flags: c19FlagCombos[1+c19Rot(len(c19FlagCombos)-1, cell, rep, seed, 9)], Plain: true})
	return c
}

// nopattern table: SecAuditEngine RelevantOnly WITHOUT SecAuditLogRelevantStatus: a record iff at least one rule fired
// in this transaction has auditing enabled. Rule lists of 1..3 rules over the four flag lists (4+16+64) x four phase
// layouts (all phase 2; ascending ending in phase 5; descending from phase 5, so file order is the reverse of
// evaluation order; all phase 5) x rule engine. Every cell is followed by a transaction on the same WAF that fires
// only a nolog rule (expected: no record).
var c19NoPatFlags = []string{"log,auditlog", "nolog,auditlog", "nolog", "log,noauditlog"}

func c19NoPatDims() []int {
	return []int{4 + 16 + 64, 4, 2}
}

func c19NoPatCell(cell, rep int, seed int64) *c19Case {
	ix := c19Decode(cell, c19NoPatDims())
	c := &c19Case{Table: "nopattern", Cell: cell, AuditEngine: "RelevantOnly", Relevant: ""}
	c.RuleEngine = []string{"On", "DetectionOnly"}[ix[2]]
	c.DefFlags = c19DefFlagCombos[c19Rot(len(c19DefFlagCombos), cell, rep, seed, 2)]
	c.Parts = c19PartsConfigs[c19Rot(len(c19PartsConfigs), cell, rep, seed, 3)]
	c.Format = c19Formats[(cell+rep+int(seed))%len(c19Formats)]
	c.Sink = c19SinkFor(cell/4, rep, seed)
	c.RespStatus = []int{200, 503, 403, 404}[c19Rot(4, cell, rep, seed, 4)]
	k, n := ix[0], 1
	switch {
	case k >= 20:
		k, n = k-20, 3
	case k >= 4:
		k, n = k-4, 2
	}
	layouts := [][]int{{2, 2, 2}, {1, 3, 5}, {5, 3, 1}, {5, 5, 5}}
	lay := layouts[ix[1]]
	if ix[1] == 1 {
		lay = lay[3-n:] // ascending, always ending in phase 5
	}
	for i := 0; i < n; i++ {
		c.Rules = append(c.Rules, c19Rule{ID: 61 + i, Phase: lay[i], Flags: c19NoPatFlags[k%4], First: true, Plain: i == 1})
		k /= 4
	}
	// fires in both transactions, never audit-enabled
	c.Rules = append(c.Rules, c19Rule{ID: 50, Phase: 1 + c19Rot(5, cell, rep, seed, 5), Flags: "nolog", NoMsg: true})
	c.Rules = append(c.Rules, c19Rule{ID: 30, Phase: 2, Flags: "log,auditlog", Never: true})
	return c
}

// content table: audit engine On; flags of two fired rules x default list x parts x format (ctl on parts rotates).
func c19ContentDims() []int {
	return []int{len(c19FlagCombos), len(c19FlagCombos), len(c19DefFlagCombos) + 1, len(c19PartsConfigs), len(c19Formats)}
}

func c19ContentCell(cell, rep int, seed int64) *c19Case {
	ix := c19Decode(cell, c19ContentDims())
	cp := ""
	if c19Rot(3, cell, rep, seed, 7) == 0 {
		cp = c19CtlParts[c19Rot(len(c19CtlParts), cell, rep, seed, 8)]
	}
	return c19ContentCase("content", cell, rep, seed, c19FlagCombos[ix[0]], c19FlagCombos[ix[1]], ix[2], c19PartsConfigs[ix[3]], cp, c19Formats[ix[4]])
}

// parts table: SecAuditLogParts x ctl:auditLogParts x format x three flag lists of the first rule.
var c19PartsFlags = []string{"log", "nolog,auditlog", "log,noauditlog"}

func c19PartsDims() []int {
	return []int{len(c19PartsConfigs), len(c19CtlParts), len(c19Formats), len(c19PartsFlags)}
}

func c19PartsCell(cell, rep int, seed int64) *c19Case {
	ix := c19Decode(cell, c19PartsDims())
	f2 := c19FlagCombos[c19Rot(len(c19FlagCombos), cell, rep, seed, 9)]
	return c19ContentCase("parts", cell, rep, seed, c19PartsFlags[ix[3]], f2, c19Rot(len(c19DefFlagCombos)+1, cell, rep, seed, 10), c19PartsConfigs[ix[0]], c19CtlParts[ix[1]], c19Formats[ix[2]])
}

func c19ContentCase(table string, cell, rep int, seed int64, f1, f2 string, def int, parts, cp, format string) *c19Case {
	c := &c19Case{Table: table, Cell: cell, AuditEngine: "On", Relevant: c19Patterns[0], RespStatus: 200}
	c.RuleEngine = []string{"On", "DetectionOnly"}[c19Rot(2, cell, rep, seed, 1)]
	if def > 0 {
		c.DefFlags = c19DefFlagCombos[def-1]
	}
	c.Parts = parts
	c.Format = format
	c.Sink = c19SinkFor(cell, rep, seed)
	ph1, ph2 := 2, 2
	if c.DefFlags != "" {
		ph1, ph2 = 1+c19Rot(4, cell, rep, seed, 2), 1+c19Rot(5, cell, rep, seed, 3)
	}
	if cp != "" {
		c.Rules = append(c.Rules, c19Rule{ID: 2, Phase: 1 + c19Rot(5, cell, rep, seed, 4), Flags: "nolog", Ctl: []string{"auditLogParts=" + cp}, NoMsg: true})
	}
	r1 := c19Rule{ID: 11, Phase: ph1, Flags: f1}
	r2 := c19Rule{ID: 12, Phase: ph2, Flags: f2}
	switch c19Rot(4, cell, rep, seed, 5) {
	case 0:
		r1.Target = "ARGS:h"
	case 1:
		r2.Target = "REQUEST_HEADERS:X-H"
	case 2:
		r2.NoMsg = true
	}
	if c19Rot(6, cell, rep, seed, 6) == 0 {
		// a would-be / real interruption by the second rule (phase >= first rule's phase keeps both fired)
		if r2.Phase >= r1.Phase && r2.Phase <= 4 {
			r2.Deny = 403
		}
	}
	c.Rules = append(c.Rules, r1, r2, c19Rule{ID: 30, Phase: 2, Flags: "log,auditlog", Never: true})
	return c
}

// c19SinkFor: half of the executions observe through the plugin writer, a quarter each through the files of the built-in writers.
func c19SinkFor(cell, rep int, seed int64) string {
	return []string{"plugin", "serial", "plugin", "concurrent"}[(cell+rep+int(seed))%4]
}

// ---- plan / run

type c19Params struct {
	Part string         `json:"part"` // decision | content | concurrent
	From int            `json:"from,omitempty"`
	To   int            `json:"to,omitempty"`
	Reps int            `json:"reps,omitempty"`
	Conc *c19ConcParams `json:"conc,omitempty"`
}

func c19Plan(tier fw.Tier, seed int64) []fw.Batch {
	var bs []fw.Batch
	add := func(fl string, p c19Params, gmp int) {
		raw, _ := json.Marshal(p)
		bs = append(bs, fw.Batch{Index: len(bs), Flavour: fl, Params: raw, GOMAXPROCS: gmp, TimeoutS: 3600})
	}
	// concurrent part first (race flavour, several cores each)
	for _, cp := range c19ConcPlan(tier, seed) {
		cp := cp
		add("race", c19Params{Part: "concurrent", Conc: &cp}, cp.GOMAXPROCS)
	}
	reps, shards := 1, 16
	if tier == fw.Thorough {
		reps, shards = 24, 64
	}
	split := func(part string, n, k int) {
		for i := 0; i < k; i++ {
			add("plain", c19Params{Part: part, From: n * i / k, To: n * (i + 1) / k, Reps: reps}, 0)
		}
	}
	split("decision", c19Product(c19DecisionDims()), shards)
	split("content", c19Product(c19ContentDims()), shards/2)
	split("parts", c19Product(c19PartsDims()), 2)
	split("late", c19Product(c19LateDims()), 2)
	split("multi", c19Product(c19MultiDims()), 2)
	split("nopattern", c19Product(c19NoPatDims()), 1)
	return bs
}

func c19Run(w *fw.W, b fw.Batch) {
	var p c19Params
	if err := json.Unmarshal(b.Params, &p); err != nil {
		return
	}
	switch p.Part {
	case "concurrent":
		c19RunConc(w, p.Conc)
		return
	}
	n := 0
	for cell := p.From; cell < p.To; cell++ {
		for rep := 0; rep < p.Reps; rep++ {
			var c *c19Case
			switch p.Part {
			case "decision":
				c = c19DecisionCell(cell, rep, w.Seed)
			case "content":
				c = c19ContentCell(cell, rep, w.Seed)
			case "late":
				c = c19LateCell(cell, rep, w.Seed)
			case "multi":
				c = c19MultiCell(cell, rep, w.Seed)
			case "nopattern":
				c = c19NoPatCell(cell, rep, w.Seed)
			default:
				c = c19PartsCell(cell, rep, w.Seed)
			}
			c.fillBytes(w)
			w.Trace(c)
			o, o2 := c19Exec(w, c, c19WantFollow(c, cell, rep, w.Seed))
			if c19Judge(w, c, o) && w.WantSample() && len(o.raw) > 0 && len(o.Fired) > 1 {
				w.Sample(map[string]any{"case": c, "config": c.render("<writer>", "<target>", ""), "observed": o})
			}
			if o2 != nil {
				c2 := *c
				c2.Follow = true
				c19Judge(w, &c2, o2)
			}
			n++
			if n%512 == 0 {
				runtime.GC() // built-in writers keep their file open until the WAF is collected
			}
		}
		w.Count("table_cells", 1)
		w.Count("table_cells_"+p.Part, 1)
	}
}

// c19WantFollow: a follow-up transaction (no ctl fired) on the same WAF is run for every cell of the parts and
// late tables, and for a rotating quarter of the decision / content cells in which a ctl rule exists.
func c19WantFollow(c *c19Case, cell, rep int, seed int64) bool {
	switch c.Table {
	case "parts", "late", "nopattern":
		return true
	case "multi":
		return c.RuleEngine != c.ruleEngine() // switched by ctl: the follow-up runs the same rules with the engine On
	}
	for i := range c.Rules {
		if len(c.Rules[i].Ctl) > 0 {
			return c19Rot(4, cell, rep, seed, 20) == 0
		}
	}
	return false
}

func c19Replay(w *fw.W, raw json.RawMessage) {
	var probe struct {
		Table string         `json:"table"`
		Conc  *c19ConcParams `json:"conc"`
	}
	if json.Unmarshal(raw, &probe) == nil && probe.Table == "concurrent" {
		c19RunConc(w, probe.Conc)
		return
	}
	var c c19Case
	if json.Unmarshal(raw, &c) != nil {
		return
	}
	c.Follow = false
	for i := 0; i < 3; i++ {
		o, o2 := c19Exec(w, &c, true)
		c19Judge(w, &c, o)
		if o2 != nil {
			c2 := c
			c2.Follow = true
			c19Judge(w, &c2, o2)
		}
	}
}

func init() {
	plugins.RegisterAuditLogWriter("verifc19", func() plugintypes.AuditLogWriter { return &c19PlugWriter{} })
	fw.Register(&fw.Prop{
		ID: "C19", Level: "exploration",
		Rule: "seven tables enumerated completely (exhaustive=true refers to them): DECISION = rule engine {On,DetectionOnly} x SecAuditEngine {On,Off,RelevantOnly} x ctl:auditEngine {none, On/Off/RelevantOnly in a rule of phase 1..4} x status source {response 200/404/403/503; deny with status 403/404 in phase 1..4 (real interruption under On, would-be under DetectionOnly) with response 200/503} x log flags of the deciding rule (9 lists of log/nolog/auditlog/noauditlog incl. none) x format {JSON,JsonLegacy,Native,OCSF}; CONTENT (engine On) = flags of two fired rules (9x9) x SecDefaultAction log flags (none + 4) x SecAuditLogParts (14 incl. none) x format (4); PARTS (engine On) = SecAuditLogParts (14) x ctl:auditLogParts (11 incl. none, +X, -X, absolute) x format (4) x 3 flag lists, the phase (1..5) of the ctl rule rotating; LATE = ctl:auditEngine {On,Off,RelevantOnly} executed by a rule of the logging phase (phase 5, evaluated before the audit decision) x rule engine (2) x SecAuditEngine (3) x status source (20) x format (4), the flags of the deciding rule rotating. MULTI (SecAuditEngine RelevantOnly) = rule engine {DetectionOnly configured, On switched to DetectionOnly by ctl:ruleEngine in the first phase-1 rule, On} x every list of two or three deny rules with a phase 1..4 and a status 403/404 each (64 + 512 lists: same and different phases, file order against evaluation order, statuses on either side of the pattern) x response status {200,503}; format and pattern rotate. The status that counts is the one of the FIRST evaluated disruptive rule (real under On, would-be under DetectionOnly); the ctl-switched cells are followed by a transaction without the switch (real interruption) on the same WAF. NOPATTERN = SecAuditEngine RelevantOnly WITHOUT SecAuditLogRelevantStatus (record iff at least one rule fired in THIS transaction has auditing enabled): every list of 1..3 rules over the flag lists {log,auditlog | nolog,auditlog | nolog | log,noauditlog} (4+16+64) x phase layout {all phase 2; ascending ending in phase 5; descending from phase 5 (file order against evaluation order); all phase 5} x rule engine (2); every cell is followed on the same WAF by a transaction that fires only a nolog rule (no record expected). Every ctl rule tests a request header, and for every cell of PARTS and LATE and a rotating quarter of the DECISION/CONTENT cells with a ctl rule a second transaction WITHOUT that header follows on the SAME WAF; its record, callbacks and parts are judged by the same decision function for the configured (not ctl-modified) engine and parts (violation classes prefixed followup:). Covering (not product) dimensions rotate with cell index, repetition and seed: relevant-status pattern, sink (plugin writer / serial file / concurrent directory+index, the files parsed), extra rules, hostile header/argument/body/message bytes. Every execution is a connector-style transaction finished by one ProcessLogging; the number of records, well-formedness, transaction id, listed rule ids and error-callback invocations are compared with a decision function written from the statement. Concurrent part (race build, sampled): G goroutines finishing transactions through ONE serial writer or ONE concurrent writer; in every second round each goroutine creates its last transaction, then the WAF is closed (experimental.WAFCloser / io.Closer) while half of those transactions finish concurrently with Close and the other half strictly after it - all of them must still be recorded exactly once; files parsed afterwards, record ids compared with finished ids as multisets, index entries checked for interleaving. A case is non-trivial when at least one rule fired and every judgement was made without violation; distinct by hash of the whole case (configuration, rules, bytes, sink).",
		Assumptions: []string{
			"fired rules are taken from Transaction.MatchedRules(); which rules fire is C01/C02/C08 territory. A cross-check against the generator's own expectation skips (and counts) executions that differ",
			"log flags are judged from the generated flag lists (log: both, nolog: neither, auditlog/noauditlog: audit bit only, applied left to right after the SecDefaultAction list of the phase), never from MatchedRule.Audit()/Log()",
			"RelevantOnly has a SecAuditLogRelevantStatus in every table but NOPATTERN, where relevance is read as the code and the SecAuditEngine documentation evidently intend it without a pattern: some rule fired in this transaction asked for audit logging; DetectionOnly cases in which the would-be status is not relevant but the real response status is are skipped as ambiguous",
			"field names are used only to locate the transaction id and rule ids (JSON: transaction.id, messages[].data.id / error_message; JsonLegacy: transaction.transaction_id, audit_data.messages[] text prefix; OCSF: http_request.uid, enrichments[].data; Native: section A line, K raw rules, H [id \"N\"]); timestamps, ordering and other fields are not judged",
			"a clean race-detector run covers only the schedules that occurred",
		},
		Required:   []string{"nopattern_relevant_true", "nopattern_relevant_false", "nopattern_followups", "multi_deny_detectiononly", "multi_deny_interruption", "close_inflight_transactions", "ctl_fired_in_phase5", "followup_transactions", "table_cells", "records_expected", "records_seen", "records_parsed", "callbacks", "records_with_rules_judged", "concurrent_records", "concurrent_files_parsed", "formats"},
		Exhaustive: true,
		Plan:       c19Plan,
		Run:        c19Run,
		Replay:     c19Replay,
		Finish:     c19Finish,
	})
}
