package props

// C11: collect every @rx argument of the OWASP CRS copies bundled as dependencies of the
// repository under test (module cache), with a simple scanner over rules/**/*.conf.

import (
	"bufio"
	"os"
	"os/exec"
	"path/filepath"
	"regexp"
	"sort"
	"strings"
)

var c11ReCRSMod = regexp.MustCompile(`(?m)^\s*(?:require\s+)?(github\.com/corazawaf/coraza-coreruleset(?:/v\d+)?)\s+(v\S+)`)

func c11RepoDir() string {
	if r := os.Getenv("VERIF_REPO"); r != "" {
		return r
	}
	return "/repo"
}

func c11ModCache() []string {
	var out []string
	if v := os.Getenv("GOMODCACHE"); v != "" {
		out = append(out, v)
	}
	if b, err := exec.Command("go", "env", "GOMODCACHE").Output(); err == nil {
		if v := strings.TrimSpace(string(b)); v != "" {
			out = append(out, v)
		}
	}
	if v := os.Getenv("GOPATH"); v != "" {
		out = append(out, filepath.Join(strings.Split(v, ":")[0], "pkg", "mod"))
	}
	if h, err := os.UserHomeDir(); err == nil {
		out = append(out, filepath.Join(h, "go", "pkg", "mod"))
	}
	return append(out, "/root/go/pkg/mod")
}

// c11CRSDirs lists the module directories of the CRS copies required by the go.mod files of the
// repository under test (root module and testing/coreruleset).
func c11CRSDirs() []string {
	repo := c11RepoDir()
	seen := map[string]bool{}
	var dirs []string
	for _, gm := range []string{filepath.Join(repo, "go.mod"), filepath.Join(repo, "testing", "coreruleset", "go.mod")} {
		data, err := os.ReadFile(gm)
		if err != nil {
			continue
		}
		for _, m := range c11ReCRSMod.FindAllStringSubmatch(string(data), -1) {
			rel := m[1] + "@" + m[2]
			if seen[rel] {
				continue
			}
			for _, mc := range c11ModCache() {
				d := filepath.Join(mc, filepath.FromSlash(rel))
				if st, err := os.Stat(filepath.Join(d, "rules")); err == nil && st.IsDir() {
					seen[rel] = true
					dirs = append(dirs, d)
					break
				}
			}
		}
	}
	sort.Strings(dirs)
	return dirs
}

// c11CutQuoted cuts a leading "…" string (\" escapes a quote when preceded by an odd number of
// backslashes), returning its unescaped content.
func c11CutQuoted(s string) (content, rest string, ok bool) {
	if len(s) == 0 || s[0] != '"' {
		return "", s, false
	}
	bs := 0
	for i := 1; i < len(s); i++ {
		switch s[i] {
		case '\\':
			bs++
			continue
		case '"':
			if bs%2 == 0 {
				return strings.ReplaceAll(s[1:i], `\"`, `"`), s[i+1:], true
			}
		}
		bs = 0
	}
	return "", s, false
}

// c11ScanConf extracts the @rx arguments (explicit and implicit operator) of one .conf file.
func c11ScanConf(path string, emit func(pattern string)) (rules int) {
	f, err := os.Open(path)
	if err != nil {
		return 0
	}
	defer f.Close()
	sc := bufio.NewScanner(f)
	sc.Buffer(make([]byte, 1<<20), 1<<24)
	var logical strings.Builder
	flush := func() {
		line := strings.TrimSpace(logical.String())
		logical.Reset()
		if !strings.HasPrefix(line, "SecRule ") && !strings.HasPrefix(line, "SecRule\t") {
			return
		}
		rules++
		rest := strings.TrimLeft(line[len("SecRule"):], " \t")
		i := strings.IndexAny(rest, " \t")
		if i < 0 {
			return
		}
		rest = strings.TrimLeft(rest[i:], " \t")
		op, _, ok := c11CutQuoted(rest)
		if !ok {
			return
		}
		op = strings.TrimPrefix(op, "!")
		switch {
		case strings.HasPrefix(op, "@rx "):
			emit(strings.TrimLeft(op[len("@rx "):], " "))
		case strings.HasPrefix(op, "@"):
			// another operator
		default:
			emit(op) // implicit @rx
		}
	}
	for sc.Scan() {
		ln := sc.Text()
		t := strings.TrimRight(ln, " \t\r")
		if strings.HasPrefix(strings.TrimLeft(t, " \t"), "#") && logical.Len() == 0 {
			continue
		}
		if strings.HasSuffix(t, `\`) {
			logical.WriteString(strings.TrimLeft(t[:len(t)-1], " \t"))
			logical.WriteByte(' ')
			continue
		}
		logical.WriteString(strings.TrimLeft(t, " \t"))
		flush()
	}
	flush()
	return rules
}

// c11CRSPatterns returns the sorted, de-duplicated @rx arguments of every bundled CRS copy, the
// number of .conf files and SecRule directives scanned, and the module directories used.
func c11CRSPatterns() (patterns []string, files, rules int, dirs []string) {
	dirs = c11CRSDirs()
	seen := map[string]bool{}
	for _, d := range dirs {
		filepath.WalkDir(filepath.Join(d, "rules"), func(p string, de os.DirEntry, err error) error {
			if err != nil || de.IsDir() || !strings.HasSuffix(p, ".conf") {
				return nil
			}
			files++
			rules += c11ScanConf(p, func(pat string) {
				if pat != "" && !seen[pat] {
					seen[pat] = true
					patterns = append(patterns, pat)
				}
			})
			return nil
		})
	}
	sort.Strings(patterns)
	return
}
