package props

import (
	"encoding/json"
	"strings"

	coraza "github.com/corazawaf/coraza/v3"

	"verif/internal/fw"
	"verif/internal/gen"
	"verif/internal/sl"
)

type flowCase struct {
	Program *sl.Program `json:"program"`
	Text    string      `json:"text"`
	Req     *sl.Req     `json:"req"`
}

var (
	flowLastWAF  coraza.WAF
	flowLastText string
)

// flowJudge runs one (program, request) pair against the model. Returns false on build error.
func flowJudge(w *fw.W, prop string, c *flowCase, o sl.CompareOpts, classify func(d string, exp *sl.Result, got *sl.ExecResult) string, cover func(exp *sl.Result)) bool {
	// consecutive cases of one rule set share the WAF (so later transactions run on recycled objects)
	if flowLastWAF == nil || flowLastText != c.Text {
		if flowLastWAF != nil {
			sl.CloseWAF(flowLastWAF)
			flowLastWAF = nil
		}
		nw, err := sl.BuildText(c.Text)
		if err != nil {
			w.Count("build_errors", 1)
			w.Cover("build_error_samples", err.Error())
			return false
		}
		flowLastWAF, flowLastText = nw, c.Text
	}
	waf := flowLastWAF
	exp := sl.Run(c.Program, c.Req)
	if exp.Ambiguous != "" {
		w.Count("ambiguous_skipped", 1)
		w.Cover("ambiguous_reasons", exp.Ambiguous)
		w.Count("ambiguous: "+exp.Ambiguous, 1)
		unjudgedRun(w, waf, c, c.Req)
		return true
	}
	w.Trace(c)
	got := sl.Exec(waf, c.Req)
	w.Eval(1)
	if d := sl.Compare(exp, got, o); d != "" {
		w.Violation(classify(d, exp, got), "reference-model", c, exp, got, d)
		return true
	}
	cover(exp)
	return true
}

func c08Classify(c *flowCase) func(string, *sl.Result, *sl.ExecResult) string {
	return func(d string, exp *sl.Result, got *sl.ExecResult) string {
		kind := sl.DiffKind(d)
		// name the construct most likely involved: which flow features the rule set uses
		feat := ""
		has := map[string]bool{}
		for _, it := range c.Program.Items {
			if it.Rule == nil {
				continue
			}
			if it.Rule.Skip > 0 {
				has["skip"] = true
			}
			if it.Rule.SkipAfter != "" {
				has["skipAfter"] = true
			}
			if len(it.Rule.Disruptive) >= 5 && it.Rule.Disruptive[:5] == "allow" {
				has[it.Rule.Disruptive] = true
			}
		}
		for _, k := range []string{"skip", "skipAfter", "allow", "allow:phase", "allow:request"} {
			if has[k] {
				feat += "+" + k
			}
		}
		return "flow-mismatch:" + kind + feat
	}
}

func c08Cover(w *fw.W, c *flowCase) func(*sl.Result) {
	return func(exp *sl.Result) {
		firedSet := map[int]bool{}
		for _, f := range exp.Fired {
			firedSet[f.ID] = true
		}
		nontrivial := false
		for _, it := range c.Program.Items {
			r := it.Rule
			if r == nil || r.ID >= 900 {
				continue
			}
			if !firedSet[r.ID] {
				continue
			}
			switch {
			case r.Skip > 0:
				w.Count("skips_taken", 1)
				nontrivial = true
			case r.SkipAfter != "":
				w.Count("skipafter_taken", 1)
				nontrivial = true
			case r.Disruptive == "allow":
				w.Count("allow_all_taken", 1)
				nontrivial = true
			case r.Disruptive == "allow:phase":
				w.Count("allow_phase_taken", 1)
				nontrivial = true
			case r.Disruptive == "allow:request":
				w.Count("allow_request_taken", 1)
				nontrivial = true
			}
			if r.Chain != nil {
				w.Count("chains_completed", 1)
			}
		}
		if c.Program.Engine == "DetectionOnly" {
			w.Count("detection_only_cases", 1)
		}
		if nontrivial {
			w.Nontrivial(fw.Hash(c.Text) ^ fw.Hash(c.Req))
		}
	}
}

func init() {
	fw.Register(&fw.Prop{
		ID: "C08", Level: "exploration",
		Rule: "rule sets of 6-14 individually steerable rules over the five phases mixing skip:N, skipAfter:M (marker later, earlier, absent, shared), allow / allow:phase / allow:request, chains of length 1-4 with steerable links, engine On and DetectionOnly, each run against requests that make sampled subsets of the rules match; the ordered list of evaluated rules per phase (RuleEval hook events), the fired rules, their match data and the per-rule counters are compared with the reference interpreter's phase loop. Non-trivial: at least one skip / skipAfter / allow actually took effect in the case; distinct by hash of (rule-set text, request).",
		Assumptions: []string{"reference phase loop in internal/sl/model.go written from the property statement: skip passes over the next N rules of the current phase, skipAfter resumes after the marker, nothing survives the end of the phase except the documented scope of allow, the logging phase always runs, DetectionOnly does not enforce allow",
			"markers inside a skip window are not judged (counting markers is not pinned)"},
		Required: []string{"skips_taken", "skipafter_taken", "allow_all_taken", "allow_phase_taken", "allow_request_taken", "chains_completed", "detection_only_cases"},
		Plan: func(tier fw.Tier, seed int64) []fw.Batch {
			n := 16
			if tier == fw.Thorough {
				n = 64
			}
			var bs []fw.Batch
			for i := 0; i < n; i++ {
				bs = append(bs, fw.Batch{Index: i, Flavour: "plain", TimeoutS: 1500})
			}
			return bs
		},
		Run: func(w *fw.W, b fw.Batch) {
			progs, subsets := 700, 48
			if w.Tier == fw.Thorough {
				progs, subsets = 2500, 96
			}
			for i := 0; i < progs; i++ {
				p, steers := gen.FlowProgram(w.Rng, i%3 == 0)
				text := p.Render()
				for j := 0; j < subsets; j++ {
					prob := []float64{0.5, 0.8, 0.3, 1.0}[j%4]
					c := &flowCase{Program: p, Text: text, Req: gen.SteerRequest(gen.Subset(w.Rng, steers, prob))}
					if gen.BodySteered(p) {
						// the same steering arguments also travel in a request body the library has to parse
						var parts []string
						for _, kv := range c.Req.Get {
							parts = append(parts, kv.K+"="+kv.V)
						}
						c.Req.Method, c.Req.RawBody = "POST", strings.Join(parts, "&")
						w.Count("cases_steered_from_a_parsed_body", 1)
					}
					if !flowJudge(w, "C08", c, sl.CompareOpts{Evaluated: true, TX: true}, c08Classify(c), c08Cover(w, c)) {
						break
					}
					if w.WantSample() && j == 0 {
						w.Sample(map[string]any{"rules": text, "request": c.Req})
					}
				}
			}
		},
		Replay: func(w *fw.W, raw json.RawMessage) {
			var c flowCase
			if json.Unmarshal(raw, &c) != nil {
				return
			}
			if c.Text == "" && c.Program != nil {
				c.Text = c.Program.Render()
			}
			flowJudge(w, "C08", &c, sl.CompareOpts{Evaluated: true, TX: true}, c08Classify(&c), c08Cover(w, &c))
		},
	})
}
