package props

// C16: structured rule descriptions, their generator, and the expected compiled form.
//
// A description is the *meaning* of a rule: targets (variable, key kind, key bytes, count,
// exclusion), operator (name, negation, argument bytes) and an ordered action list whose values are
// the bytes between the optional single quotes (with their \' sequences kept, DESIGN.md §5 C16).
// Nothing in this file looks at directive text.

import (
	"encoding/hex"
	"encoding/json"
	"fmt"
	"math/rand/v2"
	"regexp"
	"strconv"
	"strings"
	"sync"
	"unicode/utf8"

	coraza "github.com/corazawaf/coraza/v3"
	"github.com/corazawaf/coraza/v3/experimental/plugins/plugintypes"
	"github.com/corazawaf/coraza/v3/experimental/verifapi"

	"verif/internal/sl"
)

// bstr is a byte string that survives JSON byte-exactly.
type bstr string

func (b bstr) MarshalJSON() ([]byte, error) {
	if utf8.ValidString(string(b)) {
		return json.Marshal("s:" + string(b))
	}
	return json.Marshal("x:" + hex.EncodeToString([]byte(b)))
}

func (b *bstr) UnmarshalJSON(data []byte) error {
	var s string
	if err := json.Unmarshal(data, &s); err != nil {
		return err
	}
	switch {
	case strings.HasPrefix(s, "x:"):
		raw, err := hex.DecodeString(s[2:])
		if err != nil {
			return err
		}
		*b = bstr(raw)
	case strings.HasPrefix(s, "s:"):
		*b = bstr(s[2:])
	default:
		*b = bstr(s)
	}
	return nil
}

type c16Target struct {
	Var   string `json:"var"`
	Kind  int    `json:"kind,omitempty"` // 0 whole collection, 1 string key, 2 regex key
	Key   bstr   `json:"key,omitempty"`  // kind 2: the pattern between the slashes (with \/ for a slash)
	Count bool   `json:"count,omitempty"`
	Excl  bool   `json:"excl,omitempty"`
}

type c16Act struct {
	Name   string `json:"name"` // registered spelling, e.g. skipAfter
	Val    bstr   `json:"val,omitempty"`
	HasVal bool   `json:"hasval,omitempty"`
}

// c16Probe is the behavioural expectation of a rule whose every selected value the request controls.
type c16Probe struct {
	Sat   bstr `json:"sat"`   // a value on which the operator predicate (without '!') holds
	Unsat bstr `json:"unsat"` // a value on which it does not
}

type c16Rule struct {
	NoOp    bool        `json:"noop,omitempty"` // SecAction
	Targets []c16Target `json:"targets,omitempty"`
	OpName  string      `json:"op,omitempty"`
	OpNeg   bool        `json:"neg,omitempty"`
	OpArg   bstr        `json:"arg,omitempty"`
	Actions []c16Act    `json:"actions,omitempty"`
	Chain   *c16Rule    `json:"chain,omitempty"`
	Probe   *c16Probe   `json:"probe,omitempty"`
}

type c16Item struct {
	Rule   *c16Rule `json:"rule,omitempty"`
	Marker string   `json:"marker,omitempty"`
	// Default is the action list of a SecDefaultAction directive (phase included). It compiles to
	// no rule of its own; every later rule of that phase inherits from it.
	Default []c16Act `json:"default,omitempty"`
}

// compiled lists the items that produce an entry in the rule list (everything but settings).
func (d *c16Desc) compiled() []c16Item {
	var out []c16Item
	for _, it := range d.Items {
		if it.Default == nil {
			out = append(out, it)
		}
	}
	return out
}

func c16PhaseOf(acts []c16Act) int {
	ph := 2
	for _, a := range acts {
		if strings.ToLower(a.Name) == "phase" {
			switch string(a.Val) {
			case "request":
				ph = 2
			case "response":
				ph = 4
			case "logging":
				ph = 5
			default:
				ph, _ = strconv.Atoi(string(a.Val))
			}
		}
	}
	return ph
}

func c16IsDisruptive(name string) bool {
	switch strings.ToLower(name) {
	case "deny", "drop", "pass", "block", "allow", "redirect":
		return true
	}
	return false
}

type c16Desc struct {
	Items []c16Item `json:"items"`
}

// ---------------------------------------------------------------------------------------------
// Vocabulary (read from the library's registries once per worker).

type c16Vocab struct {
	vars        []string // usable as a bare target
	selectable  []string // accept VAR:key
	ops         []string // operators this generator has an argument generator for
	opsSkipped  []string
	acts        map[string]bool
	actsSkipped []string
	trans       []string
}

var (
	c16VocabOnce sync.Once
	c16V         *c16Vocab
)

// variables that take an XPath-like key (the target scanner has a dedicated state for them)
var c16PathVars = map[string]bool{"XML": true, "JSON": true}

// collections whose keys are XPath expressions but which the target scanner treats like ordinary
// collections: only used without a key
var c16NoKeyVars = map[string]bool{"REQUEST_XML": true, "RESPONSE_XML": true}

// operators whose argument names a file or a data set: not generated (need files next to every rendering)
var c16FileOps = map[string]bool{"pmFromFile": true, "pmf": true, "ipMatchFromFile": true, "ipMatchF": true,
	"validateSchema": true, "inspectFile": true, "pmFromDataset": true, "ipMatchFromDataset": true}

var c16KnownActs = map[string]bool{"allow": true, "auditlog": true, "block": true, "capture": true, "chain": true, "ctl": true,
	"deny": true, "drop": true, "exec": true, "expirevar": true, "id": true, "initcol": true, "log": true, "logdata": true,
	"maturity": true, "msg": true, "multimatch": true, "noauditlog": true, "nolog": true, "pass": true, "phase": true,
	"redirect": true, "rev": true, "setenv": true, "setvar": true, "severity": true, "skip": true, "skipafter": true,
	"status": true, "t": true, "tag": true, "ver": true, "verifdump": true}

func c16Compiles(text string) bool {
	waf, err := coraza.NewWAF(coraza.NewWAFConfig().WithDirectives(text))
	if err != nil {
		return false
	}
	sl.CloseWAF(waf)
	return true
}

func c16Vocabulary() *c16Vocab {
	c16VocabOnce.Do(func() {
		v := &c16Vocab{acts: map[string]bool{}}
		for _, n := range verifapi.VariableNames() {
			if n == "UNKNOWN" {
				continue
			}
			if !c16Compiles(fmt.Sprintf("SecRule %s \"@rx x\" \"id:1\"", n)) {
				continue
			}
			v.vars = append(v.vars, n)
			if !c16NoKeyVars[n] && c16Compiles(fmt.Sprintf("SecRule %s:k \"@rx x\" \"id:1\"", n)) {
				v.selectable = append(v.selectable, n)
			}
		}
		for _, n := range verifapi.OperatorNames() {
			if c16FileOps[n] {
				v.opsSkipped = append(v.opsSkipped, n)
				continue
			}
			if _, ok := c16OpArgGens[n]; !ok {
				v.opsSkipped = append(v.opsSkipped, n)
				continue
			}
			v.ops = append(v.ops, n)
		}
		for _, n := range verifapi.ActionNames() {
			if c16KnownActs[strings.ToLower(n)] {
				v.acts[strings.ToLower(n)] = true
			} else {
				v.actsSkipped = append(v.actsSkipped, n)
			}
		}
		for _, n := range verifapi.TransformationNames() {
			if n == "none" || (strings.HasPrefix(n, "verifid") && len(n) > 9) {
				continue
			}
			v.trans = append(v.trans, n)
		}
		c16V = v
	})
	return c16V
}

// ---------------------------------------------------------------------------------------------
// Byte generators.

func c16Pick[T any](r *rand.Rand, xs []T) T  { return xs[r.IntN(len(xs))] }
func c16Chance(r *rand.Rand, p float64) bool { return r.Float64() < p }

var c16Words = []string{"a", "B", "ab", "Foo", "bar", "x1", "attack", "SELECT", "id", "z9", "Host", "user-agent", "é", "Ünï", "日本"}

// delimiters of the three hand-written scanners, and bytes that often break tokenisers
var c16Delims = []string{",", ":", "'", "|", "/", ";", "=", "#", "@", "!", "&", "%", "`", "(", ")", "[", "]", "{", "}", "<", ">", "~", "^", "$", "*", "+", "?", ".", "-", "_"}

// c16Text builds a byte string from words and delimiters. Options say which bytes may appear.
type c16TextOpt struct {
	space    bool   // blanks inside (never at either end)
	dquote   bool   // "
	squote   string // "" none, "esc" as \' only, "raw" balanced raw quotes are not generated
	bslash   bool   // backslash (never last, never before a quote)
	comma    bool
	binary   bool // NUL, high bytes, invalid UTF-8
	pipe     bool
	slash    bool
	minAtoms int
	maxAtoms int
}

func c16Text(r *rand.Rand, o c16TextOpt) string {
	n := o.minAtoms + r.IntN(o.maxAtoms-o.minAtoms+1)
	var sb strings.Builder
	for i := 0; i < n; i++ {
		switch x := r.IntN(20); {
		case x < 8:
			sb.WriteString(c16Pick(r, c16Words))
		case x < 13:
			d := c16Pick(r, c16Delims)
			switch {
			case d == "," && !o.comma, d == "|" && !o.pipe, d == "/" && !o.slash, d == "'":
				d = "-"
			}
			sb.WriteString(d)
		case x < 14 && o.comma:
			sb.WriteString(",")
		case x < 15:
			sb.WriteString(":")
		case x < 16 && o.squote == "esc":
			sb.WriteString(`\'`)
		case x < 17 && o.dquote:
			sb.WriteString(`"`)
		case x < 18 && o.bslash:
			sb.WriteString(c16Pick(r, []string{`\d`, `\\`, `\n`, `\x`, `\.`}))
		case x < 19 && o.binary:
			sb.WriteString(c16Pick(r, []string{"\x00", "\xff", "\x80", "\xc3\x28", "\x01", "\x7f", "\xe2\x80"}))
		case x < 20 && o.space && i > 0 && i < n-1:
			sb.WriteString(c16Pick(r, []string{" ", "  ", "\t"}))
		default:
			sb.WriteString(strconv.Itoa(r.IntN(1000)))
		}
	}
	s := sb.String()
	// never end in a backslash, never a backslash directly before a double quote (DESIGN.md C16 Care)
	s = strings.ReplaceAll(s, `\"`, `\-"`)
	for strings.HasSuffix(s, `\`) {
		s += "z"
	}
	if s == "" {
		s = "v"
	}
	// ends must be plain ASCII so that no trimming rule applies
	if c := s[0]; c <= ' ' || c >= 0x7f {
		s = "a" + s
	}
	if c := s[len(s)-1]; c <= ' ' || c >= 0x7f {
		s += "z"
	}
	s = strings.ReplaceAll(s, "%{", "%-{")
	return s
}

var c16Macros = []string{"%{tx.score}", "%{matched_var}", "%{MATCHED_VAR_NAME}", "%{rule.id}", "%{tx.0}", "%{REQUEST_HEADERS.host}", "%{remote_addr}"}

// c16ActionValue: the bytes of a free-text action value (msg, logdata, tag, rev, ver, redirect target…).
func c16ActionValue(r *rand.Rand, long int) string {
	s := c16Text(r, c16TextOpt{space: true, squote: "esc", bslash: c16Chance(r, 0.3), comma: true, binary: c16Chance(r, 0.15), pipe: true, slash: true, minAtoms: 1, maxAtoms: 7})
	if c16Chance(r, 0.2) {
		s = c16Pick(r, []string{"it\\'s, ok: yes", "a,b", "k:v", "x, y: z", "\\'q\\'", "a\\',b", "t:none,id:9", "msg:\\'x\\'", ",", ":", "a,", ",a", "a:", ":a"})
	}
	if c16Chance(r, 0.2) {
		s += " " + c16Pick(r, c16Macros) + " end"
	}
	if long > 0 {
		s += " " + c16Filler(r, long)
	}
	// a value that itself begins AND ends with a quote character would be unquoted once more by
	// some actions (msg): not generated
	if s[0] == '\'' || s[0] == '"' {
		s = "v" + s
	}
	// blanks INSIDE the quotes, at either end of the value, belong to the value
	if long == 0 && c16Chance(r, 0.15) {
		pads := []string{" ", "  ", "\t", " \t"}
		switch r.IntN(3) {
		case 0:
			s = c16Pick(r, pads) + s
		case 1:
			s += c16Pick(r, pads)
		default:
			s = c16Pick(r, pads) + s + c16Pick(r, pads)
		}
	}
	return s
}

// c16Filler returns n bytes of varied printable text containing commas, colons and escaped quotes.
func c16Filler(r *rand.Rand, n int) string {
	var sb strings.Builder
	sb.Grow(n + 16)
	chunks := []string{"lorem ", "ipsum,", "dolor:", "sit\\'", "amet|", "/x/", "0123456789", "ABCDEF ", "é", ";="}
	for sb.Len() < n {
		sb.WriteString(chunks[r.IntN(len(chunks))])
	}
	s := sb.String()[:n]
	for !utf8.ValidString(s) || strings.HasSuffix(s, `\`) || strings.HasSuffix(s, " ") {
		s = s[:len(s)-1]
	}
	return s + "z"
}

// ---------------------------------------------------------------------------------------------
// Operators.

type c16OpArgGen func(r *rand.Rand, long int) (arg string, probe *c16Probe)

func c16Absent(s string) byte {
	for _, c := range []byte("~qjwZ0") {
		if strings.IndexByte(s, c) < 0 {
			return c
		}
	}
	return 0
}

func c16FreeArg(r *rand.Rand, long int) string {
	s := c16Text(r, c16TextOpt{space: true, dquote: true, bslash: c16Chance(r, 0.3), comma: true, binary: c16Chance(r, 0.3), pipe: true, slash: true, minAtoms: 1, maxAtoms: 6})
	if c16Chance(r, 0.15) {
		s = c16Pick(r, []string{`a"b`, `"`, `""`, `"x"`, `a" "id:9`, `it's`, `'`, `a,b:c`, `x" "y`, "a`", `\d+`, `a\\b`, `#c`, `@rx z`, `!@`})
	}
	if long > 0 {
		s += " " + strings.ReplaceAll(c16Filler(r, long), `\'`, `'"`)
	}
	s = strings.ReplaceAll(s, `\"`, `\-"`)
	return s
}

func c16ProbeFor(kind, arg string) *c16Probe {
	c := c16Absent(arg)
	if c == 0 || arg == "" {
		return nil
	}
	un := strings.Repeat(string(c), 3)
	switch kind {
	case "streq":
		return &c16Probe{Sat: bstr(arg), Unsat: bstr(un)}
	case "contains":
		return &c16Probe{Sat: bstr(un + arg + un), Unsat: bstr(un)}
	case "beginsWith":
		return &c16Probe{Sat: bstr(arg + un), Unsat: bstr(un + arg)}
	case "endsWith":
		return &c16Probe{Sat: bstr(un + arg), Unsat: bstr(arg + un)}
	case "within":
		return &c16Probe{Sat: bstr(arg), Unsat: bstr(un)}
	}
	return nil
}

func c16FreeOp(kind string) c16OpArgGen {
	return func(r *rand.Rand, long int) (string, *c16Probe) {
		a := c16FreeArg(r, long)
		return a, c16ProbeFor(kind, a)
	}
}

// c16Prefixed keeps the arguments of operators that cache a compiled form under the bare argument
// string apart from the regular expressions of this run (the cache collision of DESIGN.md §6 #5 is
// C13's subject and would only add noise here).
func c16Prefixed(prefix string, g c16OpArgGen) c16OpArgGen {
	return func(r *rand.Rand, long int) (string, *c16Probe) {
		a, _ := g(r, long)
		return prefix + a, nil
	}
}

func c16NoArg(r *rand.Rand, long int) (string, *c16Probe) { return "", nil }

func c16Fixed(vals ...string) c16OpArgGen {
	return func(r *rand.Rand, long int) (string, *c16Probe) { return c16Pick(r, vals), nil }
}

var c16RxAtoms = []string{"a", "b+", "[a-z]+", "\\d{2,3}", "(?:x|y)", "(foo|bar)", ".*", "^", "$", "\\.", "\\/", "/", "\\\\", "\\s*", "[^\"]+", "\"", "'", ",", ":", "|", "(?i)sel", "\\bz\\b", "é", "#", "@", "%", "=", ";", "\\x41", "[,:']", " ", "\\|"}

func c16RxArg(r *rand.Rand, long int) (string, *c16Probe) {
	if c16Chance(r, 0.4) {
		// a quoted literal: the probe value is known independently of any regex engine
		lit := c16Text(r, c16TextOpt{space: true, dquote: true, comma: true, pipe: true, slash: true, minAtoms: 1, maxAtoms: 4})
		if long > 0 {
			lit += c16Filler(r, long)
		}
		lit = strings.ReplaceAll(lit, `\`, "-")
		arg := regexp.QuoteMeta(lit)
		arg = strings.ReplaceAll(arg, `\"`, `"`) // QuoteMeta does not escape quotes, but be safe
		if strings.Contains(arg, `\"`) || strings.HasSuffix(arg, `\`) {
			return "abc", nil
		}
		if c := c16Absent(lit); c != 0 {
			un := strings.Repeat(string(c), 3)
			if c16Chance(r, 0.5) {
				return "^" + arg + "$", &c16Probe{Sat: bstr(lit), Unsat: bstr(lit + un)}
			}
			return arg, &c16Probe{Sat: bstr(un + lit + un), Unsat: bstr(un)}
		}
		return arg, nil
	}
	var sb strings.Builder
	n := 1 + r.IntN(6)
	for i := 0; i < n; i++ {
		sb.WriteString(c16Pick(r, c16RxAtoms))
	}
	s := strings.TrimSpace(sb.String())
	if long > 0 {
		s += "(?:" + regexp.QuoteMeta(strings.ReplaceAll(c16Filler(r, long), `\`, "-")) + ")?"
	}
	if s == "" || strings.Contains(s, `\"`) || strings.HasSuffix(s, `\`) {
		s = "a[,:']b"
	}
	if _, err := regexp.Compile(s); err != nil {
		s = "a|b,c:d"
	}
	return s, nil
}

var c16OpArgGens = map[string]c16OpArgGen{
	"beginsWith": c16FreeOp("beginsWith"), "contains": c16FreeOp("contains"), "endsWith": c16FreeOp("endsWith"),
	"streq": c16FreeOp("streq"), "within": c16FreeOp("within"), "strmatch": c16Prefixed("SMX ", c16FreeOp("")), "pm": c16Prefixed("PMX ", c16FreeOp("")),
	"rx":         c16RxArg,
	"detectSQLi": c16NoArg, "detectXSS": c16NoArg, "noMatch": c16NoArg, "unconditionalMatch": c16NoArg,
	"validateUrlEncoding": c16NoArg, "validateUtf8Encoding": c16NoArg, "geoLookup": c16NoArg,
	"eq": c16Fixed("0", "1", "42", "%{tx.n}", "-1"), "ge": c16Fixed("0", "5", "%{tx.limit}"), "gt": c16Fixed("0", "100"),
	"le": c16Fixed("3", "%{tx.n}"), "lt": c16Fixed("1", "65536"),
	"ipMatch":           c16Fixed("127.0.0.1", "10.0.0.0/8,192.168.1.1", "::1", "2001:db8::/32,1.2.3.4", "1.1.1.1, 2.2.2.2"),
	"validateByteRange": c16Fixed("32-126", "10,13,32-126", "0-255", "1-255", "9,10,13,32-126,128-255"),
	"validateNid":       c16Fixed(`us \d{3}-\d{2}-\d{4}`, `cl \d{1,2}\.\d{3}\.\d{3}-[\dk]`),
	"restpath":          c16Fixed("/rp/a/{id}", "/rp/some-random/url-{id}/{name}", "/rp/x"),
	"rbl":               c16Fixed("xbl.spamhaus.org", "dnsbl.example.net"),
	"verifrec":          c16Fixed("t1 true", "t2 contains:a,b", "t3 eq:x:y", "t4 nonempty"),
}

// c16OpAccepts asks the operator's own constructor whether it takes the argument.
func c16OpAccepts(name, arg string) bool {
	ok := false
	func() {
		defer func() { recover() }()
		_, err := verifapi.GetOperator(name, plugintypes.OperatorOptions{Arguments: arg})
		ok = err == nil
	}()
	return ok
}

// ---------------------------------------------------------------------------------------------
// Targets.

var c16KeyRxAtoms = []string{"^", "$", "a", "b", "id", "x-", "[a-z]", "[0-9]+", "(a|b)", "|", ".", ".*", "\\.", "\\/", "\\d", "_", "-", ":", ",", "'", "foo", "Bar", "\\|", "(?:u|v)", "\\\\", "é", "#", "=", "!", "&", "@", "\""}

func c16RegexKey(r *rand.Rand) string {
	for try := 0; try < 5; try++ {
		var sb strings.Builder
		n := 1 + r.IntN(5)
		for i := 0; i < n; i++ {
			sb.WriteString(c16Pick(r, c16KeyRxAtoms))
		}
		s := sb.String()
		if strings.HasSuffix(s, `\`) && !strings.HasSuffix(s, `\\`) {
			continue
		}
		if _, err := regexp.Compile(s); err != nil {
			continue
		}
		if _, err := regexp.Compile(strings.ToLower(s)); err != nil {
			continue
		}
		return s
	}
	return "^a|b$"
}

func c16StringKey(r *rand.Rand, allowSlash bool) string {
	for {
		s := c16Text(r, c16TextOpt{bslash: c16Chance(r, 0.15), comma: true, slash: allowSlash, minAtoms: 1, maxAtoms: 3})
		s = strings.ReplaceAll(s, `\-"`, "-")
		s = strings.NewReplacer(`\'`, "-", `"`, "-", "'", "-", "|", "-", " ", "-", "\t", "-").Replace(s)
		if s == "" || s[0] == '/' {
			continue
		}
		return s
	}
}

func c16GenTargets(r *rand.Rand, v *c16Vocab, n int) []c16Target {
	var out []c16Target
	for len(out) < n {
		t := c16Target{}
		if c16Chance(r, 0.7) {
			t.Var = c16Pick(r, v.selectable)
			switch {
			case c16PathVars[t.Var]:
				t.Kind = 1
				if t.Var == "JSON" {
					t.Key = bstr(c16Pick(r, []string{"a.b", "x", "items.0.name"}))
				} else {
					t.Key = bstr(c16Pick(r, []string{"/*", "//@*", "/a/b", "//item/@id"}))
				}
			default:
				switch x := r.IntN(10); {
				case x < 2:
					t.Kind = 0
				case x < 7:
					t.Kind = 1
					// a '/' inside (or at the end of) a string key: notes/findings/C16.md F2
					t.Key = bstr(c16StringKey(r, c16Chance(r, 0.2)))
				default:
					t.Kind = 2
					t.Key = bstr(c16RegexKey(r))
				}
			}
			t.Count = c16Chance(r, 0.15)
		} else {
			t.Var = c16Pick(r, v.vars)
			t.Count = c16Chance(r, 0.1)
		}
		out = append(out, t)
		// exclusions always follow a target of the same collection (one before its target has no agreed meaning)
		if t.Kind != 1 && !t.Count && !c16PathVars[t.Var] && c16In(v.selectable, t.Var) && c16Chance(r, 0.3) && len(out) < n {
			ne := 1 + r.IntN(2)
			for i := 0; i < ne; i++ {
				e := c16Target{Var: t.Var, Excl: true, Kind: 1 + r.IntN(2)}
				if e.Kind == 1 {
					e.Key = bstr(c16StringKey(r, false))
				} else {
					e.Key = bstr(c16RegexKey(r))
				}
				out = append(out, e)
			}
		}
	}
	return out
}

func c16In(xs []string, s string) bool {
	for _, x := range xs {
		if x == s {
			return true
		}
	}
	return false
}

// ---------------------------------------------------------------------------------------------
// Actions.

func c16A(name string) c16Act       { return c16Act{Name: name} }
func c16AV(name, val string) c16Act { return c16Act{Name: name, Val: bstr(val), HasVal: true} }
func c16Itoa(i int) string          { return strconv.Itoa(i) }
func c16TxKey(r *rand.Rand) string {
	k := c16Pick(r, []string{"score", "a", "Foo", "anomaly_score_pl1", "x.y", "k-1", "n", "%{rule.id}-hit", "msg"})
	return k
}

var c16Severities = []string{"0", "1", "2", "3", "4", "5", "6", "7", "EMERGENCY", "alert", "Critical", "ERROR", "warning", "NOTICE", "info", "debug"}
var c16SeverityNum = map[string]int{"emergency": 0, "alert": 1, "critical": 2, "error": 3, "warning": 4, "notice": 5, "info": 6, "debug": 7}

var c16Ctls = []string{"ruleEngine=Off", "ruleEngine=DetectionOnly", "ruleRemoveById=123", "ruleRemoveById=100-200", "ruleRemoveTargetById=123;ARGS:foo",
	"ruleRemoveTargetById=5;REQUEST_HEADERS:User-Agent", "ruleRemoveTargetByTag=attack-sqli;ARGS:/^id_/", "ruleRemoveTargetByTag=a,b;ARGS_GET:x",
	"ruleRemoveByTag=OWASP_CRS/WEB:ATTACK", "ruleRemoveByMsg=it\\'s, bad", "requestBodyProcessor=JSON", "requestBodyProcessor=XML", "auditEngine=Off",
	"auditLogParts=+E", "requestBodyAccess=On", "forceRequestBodyVariable=On", "responseBodyAccess=Off", "requestBodyLimit=1024", "debugLogLevel=3"}

// c16GenActions builds the action list of a starter (link=false) or chain link.
// flags: probeable rules avoid actions that change what a later observation means.
func c16GenActions(r *rand.Rand, v *c16Vocab, id int, link, chain, probeable bool, long int, pref []int) []c16Act {
	var as []c16Act
	add := func(a c16Act) {
		if v.acts[strings.ToLower(a.Name)] {
			as = append(as, a)
		}
	}
	// transformations (kept in relative order)
	nt := 0
	if !probeable {
		nt = c16Pick(r, []int{0, 0, 1, 1, 2, 3})
	}
	var ts []c16Act
	for i := 0; i < nt; i++ {
		name := c16Pick(r, v.trans)
		if c16Chance(r, 0.15) {
			name = "none"
		}
		ts = append(ts, c16AV("t", name))
	}
	if probeable && c16Chance(r, 0.5) {
		ts = append(ts, c16AV("t", "none"))
	}
	var pool []c16Act
	put := func(a c16Act) { pool = append(pool, a) }
	if c16Chance(r, 0.7) {
		l := 0
		if long > 0 && c16Chance(r, 0.7) {
			l = long
			long = 0
		}
		put(c16AV("msg", c16ActionValue(r, l)))
	}
	if c16Chance(r, 0.35) {
		put(c16AV("logdata", c16ActionValue(r, 0)))
	}
	for i, n := 0, c16Pick(r, []int{0, 0, 1, 2, 3}); i < n; i++ {
		if c16Chance(r, 0.5) {
			put(c16AV("tag", c16Pick(r, []string{"attack-sqli", "OWASP_CRS/WEB_ATTACK/SQL", "paranoia-level/1", "capec/1000/152/248/66", "a,b", "x:y", "it\\'s", "platform-multi", "trail ", " lead", " t,1 "})))
		} else {
			put(c16AV("tag", c16ActionValue(r, 0)))
		}
	}
	for i, n := 0, c16Pick(r, []int{0, 0, 1, 1, 2, 3}); i < n; i++ {
		k := c16TxKey(r)
		switch x := r.IntN(10); {
		case x < 5:
			val := c16ActionValue(r, 0)
			if c16Chance(r, 0.4) {
				val = c16Pick(r, []string{"1", "0", "%{tx.score}", "a=b", "x,y", "k:v", "%{matched_var}", "+x", "a b"})
			}
			put(c16AV("setvar", "tx."+k+"="+val))
		case x < 7:
			put(c16AV("setvar", "tx."+k+"=+"+c16Pick(r, []string{"1", "5", "%{tx.critical_anomaly_score}"})))
		case x < 8:
			put(c16AV("setvar", "tx."+k+"=-"+c16Pick(r, []string{"1", "3"})))
		case x < 9 && !probeable:
			put(c16AV("setvar", "!tx."+k))
		default:
			put(c16AV("setvar", "TX."+k+"=1"))
		}
	}
	if c16Chance(r, 0.25) {
		put(c16AV("severity", c16Pick(r, c16Severities)))
	}
	if c16Chance(r, 0.15) {
		put(c16AV("rev", c16Pick(r, []string{"1", "2.1.3", "a,b", "r:1", " 2 ", "r "})))
	}
	if c16Chance(r, 0.15) {
		put(c16AV("ver", c16Pick(r, []string{"OWASP_CRS/4.0.0", "v1", "x, y", "\tv1", " OWASP_CRS/4.0.0 "})))
	}
	if c16Chance(r, 0.1) {
		put(c16AV("maturity", c16Itoa(1+r.IntN(9))))
	}
	if c16Chance(r, 0.15) {
		put(c16A("capture"))
	}
	if c16Chance(r, 0.15) {
		put(c16A("multiMatch"))
	}
	for _, f := range []string{"log", "nolog", "auditlog", "noauditlog"} {
		if c16Chance(r, 0.15) {
			put(c16A(f))
		}
	}
	if !probeable {
		for i, n := 0, c16Pick(r, []int{0, 0, 0, 1, 2}); i < n; i++ {
			put(c16AV("ctl", c16Pick(r, c16Ctls)))
		}
		if c16Chance(r, 0.06) {
			put(c16AV("initcol", c16Pick(r, []string{"ip=%{REMOTE_ADDR}", "session=%{tx.sid}", "global=global"})))
		}
		if c16Chance(r, 0.06) {
			put(c16AV("setenv", c16Pick(r, []string{"K=v", "NAME=%{tx.a}", "A=b,c"})))
		}
		if c16Chance(r, 0.06) {
			put(c16AV("expirevar", c16Pick(r, []string{"tx.a=60", "ip.blocked=3600"})))
		}
		if c16Chance(r, 0.04) {
			put(c16A("exec"))
		}
		if c16Chance(r, 0.06) {
			put(c16AV("verifdump", c16Pick(r, []string{"d1", "a,b", "k:v"})))
		}
	}
	if !link {
		if len(pref) > 0 && c16Chance(r, 0.3) {
			// relies on the SecDefaultAction of its phase
			put(c16A("block"))
		} else if c16Chance(r, 0.5) {
			switch x := r.IntN(12); {
			case x < 4:
				put(c16A("deny"))
				if c16Chance(r, 0.6) {
					put(c16AV("status", c16Pick(r, []string{"403", "404", "500", "429"})))
				}
			case x < 5:
				put(c16A("drop"))
			case x < 7:
				put(c16A("pass"))
			case x < 8:
				put(c16A("block"))
			case x < 9:
				put(c16A("allow"))
			case x < 10:
				put(c16AV("allow", c16Pick(r, []string{"phase", "request"})))
			default:
				put(c16AV("redirect", c16Pick(r, []string{"http://example.com/blocked", "https://x.test/a?b=c,d&e=f", "/err:1", "http://h/%{tx.a}"})))
				if c16Chance(r, 0.4) {
					put(c16AV("status", c16Pick(r, []string{"301", "302", "307"})))
				}
			}
		}
		if !probeable && c16Chance(r, 0.1) {
			put(c16AV("skip", c16Itoa(1+r.IntN(3))))
		}
		if !probeable && c16Chance(r, 0.12) {
			put(c16AV("skipAfter", c16Pick(r, []string{"END_HOST_CHECK", "M1", "end-of:block", "a,b"})))
		}
	}
	// shuffle the pool, then weave the transformations in (their relative order is meaning)
	r.Shuffle(len(pool), func(i, j int) { pool[i], pool[j] = pool[j], pool[i] })
	var body []c16Act
	ti := 0
	for _, a := range pool {
		for ti < len(ts) && c16Chance(r, 0.4) {
			body = append(body, ts[ti])
			ti++
		}
		body = append(body, a)
	}
	body = append(body, ts[ti:]...)
	if !link {
		ph := c16Pick(r, []string{"1", "2", "2", "3", "4", "5", "request", "response", "logging"})
		if len(pref) > 0 && c16Chance(r, 0.75) {
			ph = c16Itoa(c16Pick(r, pref))
		}
		head := []c16Act{c16AV("id", c16Itoa(id)), c16AV("phase", ph)}
		if c16Chance(r, 0.3) {
			// id / phase somewhere in the middle
			pos := r.IntN(len(body) + 1)
			body = append(body[:pos:pos], append(head, body[pos:]...)...)
		} else {
			body = append(head, body...)
		}
	}
	if chain {
		body = append(body, c16A("chain"))
	}
	for _, a := range body {
		add(a)
	}
	return as
}

// ---------------------------------------------------------------------------------------------
// Rules and descriptions.

type c16GenOpt struct {
	long     int    // extra bytes to put somewhere (0 = normal sizes)
	longKind string // msg | arg | targets
	pref     []int  // phases that have a SecDefaultAction: rules prefer them
}

func c16GenOperator(r *rand.Rand, v *c16Vocab, rule *c16Rule, probeable bool, long int) {
	for try := 0; try < 6; try++ {
		name := c16Pick(r, v.ops)
		if long > 0 {
			name = c16Pick(r, []string{"contains", "streq", "pm", "within", "beginsWith", "endsWith"})
		}
		if probeable {
			name = c16Pick(r, []string{"streq", "contains", "beginsWith", "endsWith", "within", "rx"})
			if !c16In(v.ops, name) {
				continue
			}
		}
		arg, probe := c16OpArgGens[name](r, long)
		if strings.ContainsAny(arg, "\n\r") || !c16OpAccepts(name, arg) {
			continue
		}
		rule.OpName, rule.OpArg, rule.Probe = name, bstr(arg), probe
		rule.OpNeg = c16Chance(r, 0.25)
		return
	}
	rule.OpName, rule.OpArg, rule.Probe = "streq", "fallback", c16ProbeFor("streq", "fallback")
}

func c16GenRule(r *rand.Rand, v *c16Vocab, id int, link bool, depth int, o c16GenOpt) *c16Rule {
	rule := &c16Rule{}
	chain := depth < 3 && c16Chance(r, 0.2) && o.long == 0
	probeable := !link && !chain && o.long == 0 && c16Chance(r, 0.3)
	if !link && !chain && c16Chance(r, 0.12) {
		rule.NoOp = true
		probeable = false
	}
	longMsg, longArg, longT := 0, 0, 0
	switch o.longKind {
	case "msg":
		longMsg = o.long
	case "arg":
		longArg = o.long
	case "targets":
		longT = o.long
	}
	if !rule.NoOp {
		switch {
		case probeable:
			n := 1 + r.IntN(3)
			for i := 0; i < n; i++ {
				t := c16Target{Var: c16Pick(r, []string{"ARGS_GET", "ARGS", "REQUEST_HEADERS"})}
				if t.Var == "REQUEST_HEADERS" {
					t.Kind = 1
					t.Key = bstr(c16Pick(r, []string{"X-Probe", "x-a", "User-Agent", "X_b.c"}))
				} else if c16Chance(r, 0.7) {
					t.Kind = 1
					t.Key = bstr(c16StringKey(r, false))
				}
				rule.Targets = append(rule.Targets, t)
			}
		case longT > 0:
			// many targets: ARGS:k0|ARGS:k1|… until the list is longT bytes long
			size := 0
			for i := 0; size < longT; i++ {
				t := c16Target{Var: c16Pick(r, []string{"ARGS", "REQUEST_HEADERS", "REQUEST_COOKIES", "ARGS_GET"}), Kind: 1, Key: bstr("k" + c16Itoa(i) + c16StringKey(r, false))}
				if i%7 == 3 {
					t.Kind = 2
					t.Key = bstr("^k" + c16Itoa(i) + c16RegexKey(r))
					if _, err := regexp.Compile(strings.ToLower(string(t.Key))); err != nil {
						t.Key = bstr("^k" + c16Itoa(i))
					}
				}
				size += len(t.Var) + len(t.Key) + 4
				rule.Targets = append(rule.Targets, t)
			}
		default:
			rule.Targets = c16GenTargets(r, v, 1+c16Pick(r, []int{0, 0, 0, 1, 1, 2, 3, 5}))
		}
		c16GenOperator(r, v, rule, probeable, longArg)
		if !probeable || rule.Probe == nil {
			rule.Probe = nil
		}
	}
	rule.Actions = c16GenActions(r, v, id, link, chain, rule.Probe != nil, longMsg, o.pref)
	if chain {
		rule.Chain = c16GenRule(r, v, 0, true, depth+1, c16GenOpt{})
		if c16Chance(r, 0.1) && rule.Chain.Chain == nil {
			// a link written without any action list
			rule.Chain.Actions = nil
		}
	}
	return rule
}

func c16GenDesc(r *rand.Rand, v *c16Vocab, nItems int, o c16GenOpt) *c16Desc {
	d := &c16Desc{}
	id := 1000 + r.IntN(9000)
	longAt := -1
	if o.long > 0 {
		// the long rule is never last: something must follow it (DESIGN.md §6 #12)
		longAt = r.IntN(nItems - 1)
	}
	// SecDefaultAction items: placed before the rules that rely on them (at most one per phase)
	var pref []int
	defAt := map[int][]c16Act{}
	if c16Chance(r, 0.35) {
		phases := []int{1, 2, 3, 4, 5}
		r.Shuffle(len(phases), func(i, j int) { phases[i], phases[j] = phases[j], phases[i] })
		for _, ph := range phases[:1+r.IntN(2)] {
			pref = append(pref, ph)
			pos := 0
			if nItems > 2 && c16Chance(r, 0.3) {
				pos = 1
			}
			defAt[pos] = append(defAt[pos], c16AV("phase", c16Itoa(ph))) // marker; completed below
		}
	}
	for i := 0; i < nItems; i++ {
		for _, pa := range defAt[i] {
			d.Items = append(d.Items, c16Item{Default: c16GenDefault(r, pa)})
		}
		if i != longAt && c16Chance(r, 0.12) {
			d.Items = append(d.Items, c16Item{Marker: c16Pick(r, []string{"END_HOST_CHECK", "M1", "BEGIN-X", "m_" + c16Itoa(i), "9001"})})
			continue
		}
		id += 1 + r.IntN(20)
		oo := c16GenOpt{}
		if i == longAt {
			oo = o
		}
		oo.pref = pref
		d.Items = append(d.Items, c16Item{Rule: c16GenRule(r, v, id, false, 0, oo)})
	}
	return d
}

// c16GenDefault builds the action list of a SecDefaultAction: phase, one disruptive action, optional
// status and log flags (no metadata, no transformations: the directive refuses those).
func c16GenDefault(r *rand.Rand, phase c16Act) []c16Act {
	var as []c16Act
	switch r.IntN(6) {
	case 0, 1, 2:
		as = append(as, c16A("deny"))
		if c16Chance(r, 0.8) {
			as = append(as, c16AV("status", c16Pick(r, []string{"403", "405", "429", "503"})))
		}
	case 3:
		as = append(as, c16A("drop"))
	case 4:
		as = append(as, c16A("pass"))
	default:
		as = append(as, c16AV("redirect", c16Pick(r, []string{"http://example.com/blocked", "https://x.test/a?b=c,d", "/err:1"})))
		if c16Chance(r, 0.6) {
			as = append(as, c16AV("status", c16Pick(r, []string{"301", "302", "307"})))
		}
	}
	if c16Chance(r, 0.7) {
		as = append(as, c16A(c16Pick(r, []string{"log", "nolog"})))
	}
	if c16Chance(r, 0.6) {
		as = append(as, c16A(c16Pick(r, []string{"auditlog", "noauditlog"})))
	}
	r.Shuffle(len(as), func(i, j int) { as[i], as[j] = as[j], as[i] })
	pos := 0
	if c16Chance(r, 0.3) {
		pos = r.IntN(len(as) + 1)
	}
	return append(as[:pos:pos], append([]c16Act{phase}, as[pos:]...)...)
}

// ---------------------------------------------------------------------------------------------
// Expected compiled form, and comparison with verifapi.DumpRules.

type c16Diff struct {
	Class  string `json:"class"`
	Detail string `json:"detail"`
}

func c16ArgsFamily(v string) bool {
	switch v {
	case "ARGS", "ARGS_NAMES", "ARGS_GET", "ARGS_POST", "ARGS_GET_NAMES", "ARGS_POST_NAMES":
		return true
	}
	return false
}

func c16KeyEq(got, want string) bool {
	return got == want || got == strings.ToLower(want)
}

func c16Q(s string) string {
	if len(s) > 160 {
		return fmt.Sprintf("%q…(%d bytes)", s[:160], len(s))
	}
	return fmt.Sprintf("%q", s)
}

func c16ValueClass(what, got, want string) string {
	// name the construct: a value cut or altered at one of the scanner's delimiters
	if got != want {
		if strings.HasPrefix(want, got) && len(got) < len(want) {
			switch want[len(got)] {
			case ',', ':', '\'', '\\':
				return "roundtrip:action-value-split"
			}
			return "roundtrip:action-value-truncated"
		}
		if strings.TrimSpace(want) == got {
			return "roundtrip:action-value-blanks-lost"
		}
		if strings.Trim(want, "'\"") == got || strings.Trim(got, "'\"") == want || strings.ReplaceAll(want, `\'`, `'`) == got {
			return "roundtrip:action-value-quotes"
		}
	}
	return "roundtrip:" + what
}

// c16CompareRule compares one compiled rule (or chain link) with its description.
func c16CompareRule(d *c16Rule, g *verifapi.Rule, link bool, out *[]c16Diff) {
	c16CompareRuleAt(d, g, link, "", nil, out)
}

func c16HasFrag(state, frag string) bool {
	return strings.Contains(state, frag+" ") || strings.Contains(state, frag+"}")
}

// defs: the SecDefaultAction lists in force when the rule is parsed, by phase (without their phase action).
func c16CompareRuleAt(d *c16Rule, g *verifapi.Rule, link bool, where string, defs map[int][]c16Act, out *[]c16Diff) {
	if where == "" {
		for _, a := range d.Actions {
			if strings.EqualFold(a.Name, "id") {
				where = "rule " + string(a.Val)
			}
		}
	}
	add := func(class, f string, a ...any) {
		*out = append(*out, c16Diff{Class: class, Detail: where + ": " + fmt.Sprintf(f, a...)})
	}
	if g == nil {
		add("roundtrip:chain-structure", "compiled rule missing")
		return
	}
	// ---- targets
	type expT struct {
		c16Target
		excl []c16Target
	}
	var et []expT
	for _, t := range d.Targets {
		if t.Excl {
			for i := range et {
				if et[i].Var == t.Var {
					et[i].excl = append(et[i].excl, t)
				}
			}
			continue
		}
		et = append(et, expT{c16Target: t})
	}
	keyCheck := func(what string, t c16Target, g verifapi.Target) {
		switch t.Kind {
		case 0:
			if g.KeyStr != "" || g.HasKeyRx {
				add("roundtrip:target-key", "%s %s: expected no key, compiled key %s regex=%v", what, t.Var, c16Q(g.KeyStr), g.HasKeyRx)
			}
		case 1:
			if g.HasKeyRx {
				add("roundtrip:target-keykind", "%s %s: string key %s compiled as regex %s", what, t.Var, c16Q(string(t.Key)), c16Q(g.KeyRx))
			} else if !c16KeyEq(g.KeyStr, string(t.Key)) {
				add("roundtrip:target-key", "%s %s: string key %s compiled as %s", what, t.Var, c16Q(string(t.Key)), c16Q(g.KeyStr))
			}
		case 2:
			if !g.HasKeyRx {
				add("roundtrip:target-keykind", "%s %s: regex key /%s/ compiled as string key %s", what, t.Var, string(t.Key), c16Q(g.KeyStr))
			} else if !c16KeyEq(g.KeyRx, string(t.Key)) {
				add("roundtrip:target-regex-key", "%s %s: regex key %s compiled as %s", what, t.Var, c16Q(string(t.Key)), c16Q(g.KeyRx))
			}
		}
	}
	if len(et) != len(g.Targets) {
		add("roundtrip:target-count", "expected %d targets, compiled %d", len(et), len(g.Targets))
	} else {
		for i, t := range et {
			gt := g.Targets[i]
			if gt.Variable != t.Var {
				add("roundtrip:target-var", "target %d: expected %s, compiled %s", i, t.Var, gt.Variable)
				continue
			}
			if gt.Count != t.Count {
				add("roundtrip:target-countflag", "target %d %s: expected count=%v, compiled %v", i, t.Var, t.Count, gt.Count)
			}
			keyCheck(fmt.Sprintf("target %d", i), t.c16Target, gt)
			if len(gt.Exceptions) != len(t.excl) {
				add("roundtrip:exclusion", "target %d %s: expected %d exclusions, compiled %d", i, t.Var, len(t.excl), len(gt.Exceptions))
				continue
			}
			for j, e := range t.excl {
				keyCheck(fmt.Sprintf("exclusion %d of target %d", j, i), e, gt.Exceptions[j])
			}
		}
	}
	// ---- operator
	if d.NoOp {
		if g.HasOperator {
			add("roundtrip:operator-name", "SecAction compiled with operator %s", g.OperatorFunction)
		}
	} else {
		want := "@" + d.OpName
		if d.OpNeg {
			want = "!" + want
		}
		switch {
		case !g.HasOperator:
			add("roundtrip:operator-name", "no operator compiled, expected %s", want)
		case g.Negation != d.OpNeg:
			add("roundtrip:operator-negation", "expected negation=%v, compiled %v (%s)", d.OpNeg, g.Negation, g.OperatorFunction)
		case g.OperatorFunction != want:
			add("roundtrip:operator-name", "expected %s, compiled %s", want, g.OperatorFunction)
		}
		if g.HasOperator && g.OperatorData != string(d.OpArg) {
			add("roundtrip:operator-arg", "expected argument %s, compiled %s", c16Q(string(d.OpArg)), c16Q(g.OperatorData))
		}
	}
	// ---- actions: fold the description's list
	exp := struct {
		id, phase, severity, maturity, status int
		msg, logdata, rev, ver                string
		hasMsg, hasLogdata                    bool
		tags, trans                           []string
		capture, multi, chain                 bool
		log, audit                            bool
	}{phase: 2, severity: -1}
	type expA struct {
		name  string
		frags []string
		desc  string
	}
	var ea []expA
	for _, a := range d.Actions {
		if ln := strings.ToLower(a.Name); ln == "phase" {
			switch string(a.Val) {
			case "request":
				exp.phase = 2
			case "response":
				exp.phase = 4
			case "logging":
				exp.phase = 5
			default:
				exp.phase, _ = strconv.Atoi(string(a.Val))
			}
		}
	}
	parsePhase := exp.phase // links: the phase in force while their actions are parsed is the default one
	// default actions in force: the SecDefaultAction of the phase, else the built-in list of phase 2;
	// a rule written without an action list gets no default actions at all
	var defActs []c16Act
	hasDefaults, userDefaults := false, false
	if len(d.Actions) > 0 {
		if da, ok := defs[parsePhase]; ok {
			defActs, hasDefaults, userDefaults = da, true, true
		} else if parsePhase == 2 {
			defActs, hasDefaults = []c16Act{c16A("log"), c16A("auditlog"), c16A("pass")}, true
		}
	}
	// merge (documented rule): non-disruptive defaults first, then the rule's own actions; `block` and
	// a missing disruptive action resolve to the default disruptive action, which comes last
	var merged []c16Act
	var defDA *c16Act
	for i, a := range defActs {
		if c16IsDisruptive(a.Name) {
			defDA = &defActs[i]
			continue
		}
		merged = append(merged, a)
	}
	ownDA := false
	for _, a := range d.Actions {
		if c16IsDisruptive(a.Name) {
			if hasDefaults && strings.ToLower(a.Name) == "block" {
				continue
			}
			ownDA = true
		}
		merged = append(merged, a)
	}
	if hasDefaults && !ownDA && defDA != nil {
		merged = append(merged, *defDA)
	}
	inherit := func(class string) string {
		if userDefaults {
			return "roundtrip:inherited-default-actions"
		}
		return class
	}
	for _, a := range merged {
		val := string(a.Val)
		ln := strings.ToLower(a.Name)
		q := func(s string) string { return fmt.Sprintf("%q", s) }
		switch ln {
		case "id":
			exp.id, _ = strconv.Atoi(val)
		case "phase":
		case "msg":
			exp.msg, exp.hasMsg = val, true
		case "logdata":
			exp.logdata, exp.hasLogdata = val, true
			ea = append(ea, expA{name: ln})
		case "tag":
			exp.tags = append(exp.tags, val)
		case "severity":
			if n, err := strconv.Atoi(val); err == nil {
				exp.severity = n
			} else {
				exp.severity = c16SeverityNum[strings.ToLower(val)]
			}
		case "rev":
			exp.rev = val
		case "ver":
			exp.ver = val
		case "maturity":
			exp.maturity, _ = strconv.Atoi(val)
		case "t":
			if val == "none" {
				exp.trans = nil
			} else {
				exp.trans = append(exp.trans, val)
			}
			ea = append(ea, expA{name: "t"})
		case "capture":
			exp.capture = true
			ea = append(ea, expA{name: ln})
		case "multimatch":
			exp.multi = true
			ea = append(ea, expA{name: ln})
		case "chain":
			exp.chain = true
			ea = append(ea, expA{name: ln})
		case "log":
			exp.log, exp.audit = true, true
			ea = append(ea, expA{name: ln})
		case "nolog":
			exp.log, exp.audit = false, false
			ea = append(ea, expA{name: ln})
		case "auditlog":
			exp.audit = true
			ea = append(ea, expA{name: ln})
		case "noauditlog":
			exp.audit = false
			ea = append(ea, expA{name: ln})
		case "status":
			exp.status, _ = strconv.Atoi(val)
			ea = append(ea, expA{name: ln})
		case "setvar":
			s := val
			rm := strings.HasPrefix(s, "!")
			s = strings.TrimPrefix(s, "!")
			kv := s[strings.IndexByte(s, '.')+1:]
			k, v, hasV := strings.Cut(kv, "=")
			fr := []string{"key:macro{original:" + q(k), fmt.Sprintf("isRemove:%v", rm)}
			if hasV {
				fr = append(fr, "value:macro{original:"+q(v))
			}
			ea = append(ea, expA{name: ln, frags: fr, desc: val})
		case "ctl":
			k, rest, _ := strings.Cut(val, "=")
			_ = k
			cv, col, hasCol := strings.Cut(rest, ";")
			fr := []string{"value:" + q(cv)}
			if hasCol {
				_, ck, _ := strings.Cut(col, ":")
				if len(ck) > 1 && ck[0] == '/' && ck[len(ck)-1] == '/' {
					fr = append(fr, "colKey:\"\"")
				} else {
					fr = append(fr, "colKey:"+q(strings.ToLower(ck)))
				}
			}
			ea = append(ea, expA{name: ln, frags: fr, desc: val})
		case "skip":
			ea = append(ea, expA{name: ln, frags: []string{"data:" + val}, desc: val})
		case "skipafter":
			ea = append(ea, expA{name: ln, frags: []string{"data:" + q(val)}, desc: val})
		case "redirect":
			ea = append(ea, expA{name: ln, frags: []string{"target:" + q(val)}, desc: val})
		case "initcol":
			k, v, _ := strings.Cut(val, "=")
			ea = append(ea, expA{name: ln, frags: []string{"collection:" + q(k), "key:" + q(v)}, desc: val})
		case "setenv":
			k, v, _ := strings.Cut(val, "=")
			ea = append(ea, expA{name: ln, frags: []string{"key:" + q(k), "original:" + q(v)}, desc: val})
		case "verifdump":
			ea = append(ea, expA{name: ln, frags: []string{"tag:" + q(val)}, desc: val})
		case "allow":
			n := map[string]string{"": "allow:1", "phase": "allow:2", "request": "allow:3"}[val]
			_ = n // numeric values of the enum are not pinned; the three forms must differ (checked below via State text)
			ea = append(ea, expA{name: ln, desc: val})
		default:
			ea = append(ea, expA{name: ln, desc: val})
		}
	}
	if !link {
		if g.ID != exp.id {
			add("roundtrip:id", "expected id %d, compiled %d", exp.id, g.ID)
		}
		if g.Phase != exp.phase {
			add("roundtrip:phase", "expected phase %d, compiled %d", exp.phase, g.Phase)
		}
	}
	if g.HasMsg != exp.hasMsg || g.Msg != exp.msg {
		add(c16ValueClass("msg", g.Msg, exp.msg), "msg: expected %s, compiled %s", c16Q(exp.msg), c16Q(g.Msg))
	}
	if g.HasLogData != exp.hasLogdata || g.LogData != exp.logdata {
		add(c16ValueClass("logdata", g.LogData, exp.logdata), "logdata: expected %s, compiled %s", c16Q(exp.logdata), c16Q(g.LogData))
	}
	if len(g.Tags) != len(exp.tags) {
		cl := "roundtrip:tags"
		if len(g.Tags) > len(exp.tags) {
			cl = "roundtrip:action-value-split"
		}
		add(cl, "tags: expected %q, compiled %q", exp.tags, g.Tags)
	} else {
		for i := range exp.tags {
			if g.Tags[i] != exp.tags[i] {
				add(c16ValueClass("tags", g.Tags[i], exp.tags[i]), "tag %d: expected %s, compiled %s", i, c16Q(exp.tags[i]), c16Q(g.Tags[i]))
			}
		}
	}
	if g.Severity != exp.severity {
		add("roundtrip:severity", "expected severity %d, compiled %d", exp.severity, g.Severity)
	}
	if g.Rev != exp.rev {
		add(c16ValueClass("rev", g.Rev, exp.rev), "rev: expected %s, compiled %s", c16Q(exp.rev), c16Q(g.Rev))
	}
	if g.Ver != exp.ver {
		add(c16ValueClass("ver", g.Ver, exp.ver), "ver: expected %s, compiled %s", c16Q(exp.ver), c16Q(g.Ver))
	}
	if g.Maturity != exp.maturity {
		add("roundtrip:maturity", "expected maturity %d, compiled %d", exp.maturity, g.Maturity)
	}
	if g.DisruptiveStatus != exp.status {
		add(inherit("roundtrip:status"), "expected status %d, compiled %d", exp.status, g.DisruptiveStatus)
	}
	if strings.Join(g.Transformations, "+") != strings.Join(exp.trans, "+") {
		add("roundtrip:transformations", "expected %v, compiled %v", exp.trans, g.Transformations)
	}
	if g.Capture != exp.capture || g.MultiMatch != exp.multi || g.HasChain != exp.chain {
		add("roundtrip:flags", "expected capture=%v multiMatch=%v chain=%v, compiled %v %v %v", exp.capture, exp.multi, exp.chain, g.Capture, g.MultiMatch, g.HasChain)
	}
	if g.Log != exp.log || g.Audit != exp.audit {
		add(inherit("roundtrip:log-flags"), "expected log=%v audit=%v, compiled %v %v", exp.log, exp.audit, g.Log, g.Audit)
	}
	// action list: exactly the merged list (defaults, own actions, resolved disruptive action)
	var wantNames []string
	for _, e := range ea {
		wantNames = append(wantNames, e.name)
	}
	gotNames := c16ActNames(g)
	for i := range gotNames {
		gotNames[i] = strings.ToLower(gotNames[i])
	}
	if strings.Join(wantNames, ",") != strings.Join(gotNames, ",") {
		add(inherit("roundtrip:action-list"), "expected compiled actions %v, compiled %v", wantNames, gotNames)
	} else {
		for i, e := range ea {
			for _, f := range e.frags {
				if !c16HasFrag(g.Actions[i].State, f) {
					add(c16ValueClass("action-value", "", e.desc), "%s:%s compiled state %s lacks %s", e.name, c16Q(e.desc), c16Q(g.Actions[i].State), f)
				}
			}
		}
	}
	// ---- chain
	switch {
	case d.Chain == nil && g.Chain != nil:
		add("roundtrip:chain-structure", "compiled rule has a chain link, description has none")
	case d.Chain != nil && g.Chain == nil:
		add("roundtrip:chain-structure", "compiled rule lacks its chain link")
	case d.Chain != nil:
		c16CompareRuleAt(d.Chain, g.Chain, true, where+" link", defs, out)
	}
}

func c16ActNames(g *verifapi.Rule) []string {
	var out []string
	for _, a := range g.Actions {
		out = append(out, a.Name)
	}
	return out
}

// c16CompareDesc compares a whole compiled configuration with its description.
func c16CompareDesc(d *c16Desc, rules []*verifapi.Rule) []c16Diff {
	var out []c16Diff
	if n := len(d.compiled()); len(rules) != n {
		out = append(out, c16Diff{Class: "roundtrip:rule-count", Detail: fmt.Sprintf("expected %d rules/markers, compiled %d", n, len(rules))})
		return out
	}
	defs := map[int][]c16Act{}
	i := -1
	for _, it := range d.Items {
		if it.Default != nil {
			var acts []c16Act
			for _, a := range it.Default {
				if strings.ToLower(a.Name) != "phase" {
					acts = append(acts, a)
				}
			}
			defs[c16PhaseOf(it.Default)] = acts
			continue
		}
		i++
		g := rules[i]
		if it.Marker != "" {
			if g.SecMark != it.Marker {
				out = append(out, c16Diff{Class: "roundtrip:marker", Detail: fmt.Sprintf("item %d: expected marker %q, compiled %q (id %d)", i, it.Marker, g.SecMark, g.ID)})
			}
			continue
		}
		if g.SecMark != "" {
			out = append(out, c16Diff{Class: "roundtrip:marker", Detail: fmt.Sprintf("item %d: expected a rule, compiled marker %q", i, g.SecMark)})
			continue
		}
		// the rule sees the defaults defined so far (a copy: later directives do not reach back)
		snap := map[int][]c16Act{}
		for k, v := range defs {
			snap[k] = v
		}
		c16CompareRuleAt(it.Rule, g, false, "", snap, &out)
	}
	return out
}
