package props

// C03 generators and the harness's own encoders (query string, headers, cookies, urlencoded,
// multipart, JSON, XML). Nothing in this file asks coraza how data is decoded: the expected
// variable contents are the structured lists the encoders were given.

import (
	"bytes"
	"encoding/hex"
	"encoding/json"
	"fmt"
	"math/rand/v2"
	"mime/multipart"
	"net/textproto"
	"strconv"
	"strings"
	"unicode"
	"unicode/utf8"

	"verif/internal/sl"
)

// c03B is a byte string that survives JSON byte-exactly.
type c03B string

func (b c03B) MarshalJSON() ([]byte, error) {
	if utf8.ValidString(string(b)) {
		return json.Marshal(string(b))
	}
	return json.Marshal(map[string]string{"hex": hex.EncodeToString([]byte(b))})
}

func (b *c03B) UnmarshalJSON(data []byte) error {
	var s string
	if json.Unmarshal(data, &s) == nil {
		*b = c03B(s)
		return nil
	}
	var m map[string]string
	if err := json.Unmarshal(data, &m); err != nil {
		return err
	}
	raw, err := hex.DecodeString(m["hex"])
	*b = c03B(raw)
	return err
}

// c03Exp is one expected (name, value) entry; End is the offset in the body at which its
// encoding is complete (used only for truncated carriers).
type c03Exp struct {
	KV  sl.KV `json:"kv"`
	End int   `json:"end,omitempty"`
}

type c03File struct {
	Field   c03B `json:"field"`
	Name    c03B `json:"filename"`
	Content c03B `json:"content"`
}

type c03Settings struct {
	BodyAccess  bool   `json:"body_access"`
	ProcBy      string `json:"processor_by"` // content-type | content-type-params | ctl | recommended-rule | none
	ArgLimit    int    `json:"arguments_limit,omitempty"`
	ArgRel      string `json:"arguments_limit_rel"` // default | above | at | below
	BodyLimit   int    `json:"body_limit,omitempty"`
	BodyRel     string `json:"body_limit_rel"` // default | above | at | below
	LimitAction string `json:"body_limit_action,omitempty"`
	// bound populations (c03_bounds.go)
	LimitBy       string `json:"body_limit_by,omitempty"`     // "" (directive) | ctl (ctl:requestBodyLimit in phase 1)
	JSONDepth     int    `json:"json_depth_limit,omitempty"`  // SecRequestBodyJsonDepthLimit
	NoFilesLimit  int    `json:"no_files_limit,omitempty"`    // SecRequestBodyNoFilesLimit
	UploadFiles   int    `json:"upload_file_limit,omitempty"` // SecUploadFileLimit
	InMemoryLimit int    `json:"in_memory_limit,omitempty"`   // SecRequestBodyInMemoryLimit
}

// c03Bound says which bound a case of a "bound:<knob>" population probes and where.
type c03Bound struct {
	Knob   string `json:"knob"`
	Rel    string `json:"rel"`              // below | at | above1 | far (relative to the bound; "at" = the largest accepted input)
	Pos    string `json:"pos,omitempty"`    // position of the element that exceeds the bound
	Follow string `json:"follow,omitempty"` // kind of the well-formed siblings that follow it
	Level  int    `json:"level,omitempty"`  // JSON: number of wrapper containers between the root and the nest
	Kinds  string `json:"kinds,omitempty"`  // JSON: container kinds of the nest
	Limit  int    `json:"limit,omitempty"`
	Size   int    `json:"size,omitempty"` // the measured quantity (depth, bytes, items, files, header lines)
}

type c03Case struct {
	Pop       string      `json:"population"` // main | json-duplicate-key | json-dot-collision | malformed:<kind> | bound:<knob>
	Config    string      `json:"config"`
	Settings  c03Settings `json:"settings"`
	URI       c03B        `json:"uri"`
	Headers   []sl.KV     `json:"headers"` // in AddRequestHeader order
	Carrier   string      `json:"carrier"` // none | urlencoded | multipart | json | xml | raw
	HasBody   bool        `json:"has_body"`
	Body      c03B        `json:"body,omitempty"`
	Trunc     int         `json:"truncated_at,omitempty"` // >0: Body is the first Trunc bytes of the well-formed encoding
	Query     []sl.KV     `json:"query_items,omitempty"`
	Cookies   []sl.KV     `json:"cookie_items,omitempty"`
	Items     []sl.KV     `json:"body_items,omitempty"`
	Files     []c03File   `json:"files,omitempty"`
	PathRaw   c03B        `json:"path_raw"`
	BaseRaw   c03B        `json:"base_raw"`
	QueryRaw  c03B        `json:"query_raw"`
	ExpPost   []c03Exp    `json:"exp_args_post,omitempty"`
	PostExtra []sl.KV     `json:"allowed_extra_args_post,omitempty"` // JSON array-length entries
	ExpFiles  []c03Exp    `json:"exp_files,omitempty"`               // K = field name, V = file name
	ExpSizes  []c03Exp    `json:"exp_files_sizes,omitempty"`         // K = file name, V = size
	Combined  []string    `json:"files_combined_size_alternatives,omitempty"`
	ExpText   []c03Exp    `json:"exp_xml_text,omitempty"`
	ExpAttr   []c03Exp    `json:"exp_xml_attr,omitempty"`
	ExpBody   bool        `json:"request_body_pinned,omitempty"` // REQUEST_BODY must equal Body
	Collide   []sl.KV     `json:"colliding_items,omitempty"`     // labelled populations: the entries that collide
	DoubleEnc int         `json:"double_encoding_items,omitempty"`
	Bound     *c03Bound   `json:"bound,omitempty"`      // set in the bound:<knob> populations
	Feed      string      `json:"feed,omitempty"`       // "" | write (WriteRequestBody) | readfrom-lenger | readfrom-stream (ReadRequestBodyFrom)
	Chunks    []int       `json:"chunk_ends,omitempty"` // the body is handed over in pieces ending at these offsets (and at its end)
}

type c03Gen struct {
	r       *rand.Rand
	avoided map[string]int
}

func (g *c03Gen) chance(p float64) bool { return g.r.Float64() < p }
func (g *c03Gen) pick(ss []string) string {
	return ss[g.r.IntN(len(ss))]
}
func (g *c03Gen) avoid(what string) { g.avoided[what]++ }

var c03Names = []string{"a", "A", "b", "B", "id", "ID", "Id", "x", "X", "a.b", "a[0]", "a[]", "", " ", "%41", "a%20b",
	"a+b", "a&b", "a=b", "a;b", "ü", "Ü", "\xff", "n\x00", "q\"", "<s>", "json.a", "a b", "0", "é", "k:j", "a,b", "'",
	"\\", "/", "#", "?", "{", "}", "%", "%2541", "a\r\nb", "😀", "name", "Name", "a\tb", "[", "]", "a%", "+"}

var c03Values = []string{"", "v", "1", "A", "%41", "%2541", "%252B", "%2B", "+", "a+b", " ", "a b", "&amp;amp;", "&amp;",
	"&lt;", "&#65;", "&#x26;amp;", "\\u0041", "\\\\u0041", "\\n", "\\", "%", "%4", "%zz", "%u0041", "%00", "%0d%0a", "\x00",
	"\r\n", "\n", "\t", "\xff\xfe", "é", "😀", "\xc3", "\xc3\x28", "<x a='1'>t</x>", "]]>", "<![CDATA[x]]>", "a=b&c=d",
	"a;b", "{\"k\":[1,2]}", "'\"\\/#?[]{}<>", "=", "&", ";", ":", ",", "#", "?", "..", "/etc/passwd", "a\\b", "%%", "%25",
	"100%", "50%+", "ＡＢ", "K", "ſ", "0", "-1", "true", "null", "%2e%2e%2f", "%c0%af", "a%0Ab", "x\x7fy", "\"", "'",
	"<", ">", "{", "}", "[", "]", "%26", "%3D", "%3d", "%253D", "+%2B+", "a\x00b", " ", " x", "x\u0085"}

const c03Alphabet = "abcXYZ019 %+&=;:,'\"\\/#?[]{}<>.-_~!@$*()|^`\x00\r\n\t\x7f\x80\xff\xc3\xa9\xe2\x82\xac"

func (g *c03Gen) randBytes(max int) string {
	n := 0
	for n < max && g.chance(0.75) {
		n++
	}
	var b []byte
	for i := 0; i < n; i++ {
		switch g.r.IntN(10) {
		case 0:
			b = append(b, byte(g.r.IntN(256)))
		case 1:
			b = append(b, "%41%2541%2B%zz%4"[g.r.IntN(16)])
		case 2:
			b = append(b, []byte(g.pick([]string{"%41", "%25", "%2B", "%", "+", "&amp;", "\\u00", "é", "€"}))...)
		default:
			b = append(b, c03Alphabet[g.r.IntN(len(c03Alphabet))])
		}
	}
	return string(b)
}

func (g *c03Gen) name() string {
	if g.chance(0.85) {
		return g.pick(c03Names)
	}
	return g.randBytes(6)
}

func (g *c03Gen) value() string {
	if g.chance(0.6) {
		return g.pick(c03Values)
	}
	if g.chance(0.1) {
		return g.pick(c03Values) + g.pick(c03Values)
	}
	return g.randBytes(24)
}

// items draws 0..max (name, value) pairs whose name and value satisfy ok; constructs that a
// carrier cannot express unambiguously are not generated (counted under avoided).
func (g *c03Gen) items(max int, carrier string, okName, okValue func(string) bool) []sl.KV {
	n := g.r.IntN(max + 1)
	var out []sl.KV
	for i := 0; i < n; i++ {
		var k, v string
		ok := false
		for try := 0; try < 20; try++ {
			k = g.name()
			if okName == nil || okName(k) {
				ok = true
				break
			}
			g.avoid(carrier + ":name")
		}
		if !ok {
			continue
		}
		ok = false
		for try := 0; try < 20; try++ {
			v = g.value()
			if okValue == nil || okValue(v) {
				ok = true
				break
			}
			g.avoid(carrier + ":value")
		}
		if !ok {
			continue
		}
		out = append(out, sl.KV{K: k, V: v})
	}
	return out
}

// ---- percent encoding ----------------------------------------------------------------------

func c03Unreserved(c byte) bool {
	return c >= 'a' && c <= 'z' || c >= 'A' && c <= 'Z' || c >= '0' && c <= '9' || c == '-' || c == '.' || c == '_' || c == '~'
}

func c03IsHex(c byte) bool {
	return c >= '0' && c <= '9' || c >= 'a' && c <= 'f' || c >= 'A' && c <= 'F'
}

func (g *c03Gen) pct(c byte) string {
	if g.chance(0.5) {
		return fmt.Sprintf("%%%02X", c)
	}
	return fmt.Sprintf("%%%02x", c)
}

// urlenc encodes s for a query string / urlencoded body. Unreserved bytes are raw or escaped at
// random, space is '+' or %20, a '%' that cannot start a valid escape is sometimes left raw
// (Appendix A: invalid escapes stay literal), some sub-delimiters and high bytes are sometimes raw,
// everything else is escaped. Never emits raw & ; # + and never a raw '=' in a name.
func (g *c03Gen) urlenc(s string, isValue bool) string {
	var sb strings.Builder
	for i := 0; i < len(s); i++ {
		c := s[i]
		switch {
		case c03Unreserved(c):
			if g.chance(0.8) {
				sb.WriteByte(c)
			} else {
				sb.WriteString(g.pct(c))
			}
		case c == ' ':
			if g.chance(0.5) {
				sb.WriteByte('+')
			} else {
				sb.WriteString(g.pct(c))
			}
		case c == '%':
			lit := i+1 == len(s) || (!c03IsHex(s[i+1]) && s[i+1] != '%')
			if lit && g.chance(0.3) {
				sb.WriteByte('%')
			} else {
				sb.WriteString(g.pct(c))
			}
		case c == '=' && isValue:
			if g.chance(0.3) {
				sb.WriteByte(c)
			} else {
				sb.WriteString(g.pct(c))
			}
		case strings.IndexByte("/?:@!$'()*,", c) >= 0:
			if g.chance(0.4) {
				sb.WriteByte(c)
			} else {
				sb.WriteString(g.pct(c))
			}
		case c >= 0x80:
			if g.chance(0.3) {
				sb.WriteByte(c)
			} else {
				sb.WriteString(g.pct(c))
			}
		default:
			sb.WriteString(g.pct(c))
		}
	}
	return sb.String()
}

func (g *c03Gen) urlencPairs(items []sl.KV) string {
	var parts []string
	for _, kv := range items {
		parts = append(parts, g.urlenc(kv.K, false)+"="+g.urlenc(kv.V, true))
	}
	return strings.Join(parts, "&")
}

func (g *c03Gen) pathenc(seg string) string {
	var sb strings.Builder
	for i := 0; i < len(seg); i++ {
		c := seg[i]
		switch {
		case c03Unreserved(c):
			if g.chance(0.85) {
				sb.WriteByte(c)
			} else {
				sb.WriteString(g.pct(c))
			}
		case c >= 0x80 && g.chance(0.2):
			sb.WriteByte(c)
		default:
			sb.WriteString(g.pct(c))
		}
	}
	return sb.String()
}

var c03Segments = []string{"a", "index.php", "b%41", "%2541", "ü", "a b", "a.b", "x;y", "A", "api", "v1", "a+b", "%", "é€", "f.txt", "~u", "a:b", "q?x", "h#i", "\xff"}

// ---- carriers ------------------------------------------------------------------------------

func c03NoCRLFNUL(s string) bool { return !strings.ContainsAny(s, "\r\n\x00") }

var c03HeaderNames = []string{"X-A", "x-a", "X-a", "X-B", "Accept", "accept", "User-Agent", "X-Long-Name", "X1", "Referer", "X_U", "x.dot"}

func (g *c03Gen) headers() []sl.KV {
	n := g.r.IntN(6)
	var out []sl.KV
	for i := 0; i < n; i++ {
		var v string
		ok := false
		for try := 0; try < 20; try++ {
			v = g.value()
			if c03NoCRLFNUL(v) {
				ok = true
				break
			}
			g.avoid("headers:value-crlf-nul")
		}
		if ok {
			out = append(out, sl.KV{K: g.pick(c03HeaderNames), V: v})
		}
	}
	return out
}

func c03CookieName(s string) bool {
	return s != "" && c03NoCRLFNUL(s) && !strings.ContainsAny(s, ";=") && strings.TrimFunc(s, c03AsciiSpace) == s
}
func c03CookieValue(s string) bool {
	return c03NoCRLFNUL(s) && !strings.ContainsAny(s, ";") && strings.TrimFunc(s, c03AsciiSpace) == s
}
func c03AsciiSpace(r rune) bool {
	return r == ' ' || r == '\t' || r == '\v' || r == '\f' || r == '\r' || r == '\n'
}

func (g *c03Gen) cookieHeader(items []sl.KV) string {
	sep := g.pick([]string{"; ", ";", " ; ", "; "})
	var parts []string
	for _, kv := range items {
		parts = append(parts, kv.K+"="+kv.V)
	}
	s := strings.Join(parts, sep)
	if g.chance(0.1) {
		s = " " + s + " "
	}
	return s
}

// multipart names and file names: no control characters (they cannot be written in a
// Content-Disposition parameter without a convention the statement does not pin).
func c03MultipartName(s string) bool {
	for i := 0; i < len(s); i++ {
		if s[i] < 0x20 || s[i] == 0x7f {
			return false
		}
	}
	return true
}

type c03Part struct {
	file    bool
	field   string
	name    string
	content string
	lines   int // >0: the part header has exactly this many lines (padded with X-Pad-<n> fields)
}

func (g *c03Gen) boundary() string {
	const al = "abcdefghijklmnopqrstuvwxyzABCDEFGHIJKLMNOPQRSTUVWXYZ0123456789"
	b := make([]byte, 24+g.r.IntN(12))
	for i := range b {
		b[i] = al[g.r.IntN(len(al))]
	}
	return string(b)
}

// multipartBody writes the parts with mime/multipart.Writer and returns the body, the content
// type and, per part, the offset at which the part (including its closing delimiter line) ends.
func c03MultipartBody(boundary string, parts []c03Part) (body []byte, ctype string, ends []int) {
	var buf bytes.Buffer
	mw := multipart.NewWriter(&buf)
	mw.SetBoundary(boundary)
	for i, p := range parts {
		var wr interface{ Write([]byte) (int, error) }
		if p.lines > 0 {
			h := textproto.MIMEHeader{}
			n := 1
			if p.file {
				h.Set("Content-Disposition", fmt.Sprintf(`form-data; name="%s"; filename="%s"`, c03QuoteEscape(p.field), c03QuoteEscape(p.name)))
				h.Set("Content-Type", "application/octet-stream")
				n = 2
			} else {
				h.Set("Content-Disposition", fmt.Sprintf(`form-data; name="%s"`, c03QuoteEscape(p.field)))
			}
			for ; n < p.lines; n++ {
				h.Set(fmt.Sprintf("X-Pad-%05d", n), "p")
			}
			wr, _ = mw.CreatePart(h)
		} else if p.file {
			wr, _ = mw.CreateFormFile(p.field, p.name)
		} else {
			h := textproto.MIMEHeader{}
			h.Set("Content-Disposition", fmt.Sprintf(`form-data; name="%s"`, c03QuoteEscape(p.field)))
			wr, _ = mw.CreatePart(h)
		}
		if i > 0 {
			// the delimiter line that closed the previous part has been written by CreatePart
			ends = append(ends, buf.Len())
		}
		wr.Write([]byte(p.content))
	}
	mw.Close()
	if len(parts) > 0 {
		ends = append(ends, buf.Len())
	}
	return buf.Bytes(), mw.FormDataContentType(), ends
}

func c03QuoteEscape(s string) string {
	return strings.NewReplacer("\\", "\\\\", `"`, "\\\"").Replace(s)
}

// ---- JSON ----------------------------------------------------------------------------------

type c03JNode struct {
	kind string // obj | arr | str | raw (number / true / false / null)
	keys []string
	kids []*c03JNode
	s    string
}

var c03JSONNumbers = []string{"0", "-1", "1.5", "1e3", "-0.0", "12345678901234567890", "1E-2", "true", "false", "null"}

func (g *c03Gen) jsonString(s string) string {
	var sb strings.Builder
	sb.WriteByte('"')
	hexd := func(v rune) string {
		if g.chance(0.5) {
			return fmt.Sprintf("\\u%04x", v)
		}
		return fmt.Sprintf("\\u%04X", v)
	}
	for _, r := range s {
		switch {
		case r == '"' || r == '\\':
			if g.chance(0.7) {
				sb.WriteByte('\\')
				sb.WriteRune(r)
			} else {
				sb.WriteString(hexd(r))
			}
		case r < 0x20:
			short := map[rune]string{'\n': "\\n", '\r': "\\r", '\t': "\\t", '\b': "\\b", '\f': "\\f"}
			if e, ok := short[r]; ok && g.chance(0.6) {
				sb.WriteString(e)
			} else {
				sb.WriteString(hexd(r))
			}
		case r == '/':
			if g.chance(0.2) {
				sb.WriteString("\\/")
			} else {
				sb.WriteByte('/')
			}
		case r < 0x80:
			if g.chance(0.9) {
				sb.WriteRune(r)
			} else {
				sb.WriteString(hexd(r))
			}
		case r < 0x10000:
			if g.chance(0.8) {
				sb.WriteRune(r)
			} else {
				sb.WriteString(hexd(r))
			}
		default:
			if g.chance(0.8) {
				sb.WriteRune(r)
			} else {
				r2 := r - 0x10000
				sb.WriteString(hexd(0xd800 + (r2 >> 10)))
				sb.WriteString(hexd(0xdc00 + (r2 & 0x3ff)))
			}
		}
	}
	sb.WriteByte('"')
	return sb.String()
}

func (g *c03Gen) jws() string {
	return g.pick([]string{"", "", "", " ", "\n", "\t", "  ", "\r\n"})
}

// jsonEmit renders the tree; ends[leaf] is the offset at which the leaf's text is complete.
func (g *c03Gen) jsonEmit(sb *strings.Builder, n *c03JNode, ends map[*c03JNode]int) {
	switch n.kind {
	case "str":
		sb.WriteString(g.jsonString(n.s))
		ends[n] = sb.Len()
	case "raw":
		sb.WriteString(n.s)
		ends[n] = sb.Len() + 1 // a number is complete only when a delimiter follows
	case "obj":
		sb.WriteString("{" + g.jws())
		for i, k := range n.keys {
			if i > 0 {
				sb.WriteString("," + g.jws())
			}
			sb.WriteString(g.jsonString(k) + g.jws() + ":" + g.jws())
			g.jsonEmit(sb, n.kids[i], ends)
			sb.WriteString(g.jws())
		}
		sb.WriteString("}")
	case "arr":
		sb.WriteString("[" + g.jws())
		for i, k := range n.kids {
			if i > 0 {
				sb.WriteString("," + g.jws())
			}
			g.jsonEmit(sb, k, ends)
			sb.WriteString(g.jws())
		}
		sb.WriteString("]")
	}
}

// c03JSONFlatten lists the expected ARGS_POST entries: one per leaf under json.<path> (array
// elements by index); array-length entries are returned separately as tolerated extras.
func c03JSONFlatten(n *c03JNode, path string, ends map[*c03JNode]int, leaves *[]c03Exp, extras *[]sl.KV) {
	switch n.kind {
	case "str":
		*leaves = append(*leaves, c03Exp{KV: sl.KV{K: path, V: n.s}, End: ends[n]})
	case "raw":
		v := n.s
		if v == "null" {
			v = ""
		}
		*leaves = append(*leaves, c03Exp{KV: sl.KV{K: path, V: v}, End: ends[n]})
	case "obj":
		for i, k := range n.keys {
			c03JSONFlatten(n.kids[i], path+"."+k, ends, leaves, extras)
		}
	case "arr":
		for i, k := range n.kids {
			c03JSONFlatten(k, path+"."+strconv.Itoa(i), ends, leaves, extras)
		}
		if len(n.kids) > 0 {
			*extras = append(*extras, sl.KV{K: path, V: strconv.Itoa(len(n.kids))})
		}
	}
}

func c03JSONText(s string) bool { return utf8.ValidString(s) }
func c03JSONKey(s string) bool  { return utf8.ValidString(s) && !strings.Contains(s, ".") }

func (g *c03Gen) jsonLeaf(v string) *c03JNode {
	if g.chance(0.12) {
		return &c03JNode{kind: "raw", s: g.pick(c03JSONNumbers)}
	}
	return &c03JNode{kind: "str", s: v}
}

// jsonTree distributes the items over a random tree. Object keys are unique within their object
// (exact comparison) and dot-free, so that every leaf has its own flattened name.
func (g *c03Gen) jsonTree(items []sl.KV, depth int) *c03JNode {
	var n *c03JNode
	if g.chance(0.8) {
		n = &c03JNode{kind: "obj"}
	} else {
		n = &c03JNode{kind: "arr"}
	}
	used := map[string]bool{}
	fresh := func() string {
		for i := 0; ; i++ {
			k := g.pick([]string{"o", "O", "list", "data", "n"}) + strconv.Itoa(i)
			if !used[k] {
				return k
			}
		}
	}
	add := func(k string, kid *c03JNode) {
		if n.kind == "obj" {
			if used[k] {
				k = fresh()
			}
			used[k] = true
			n.keys = append(n.keys, k)
		}
		n.kids = append(n.kids, kid)
	}
	i := 0
	for i < len(items) {
		if depth < 3 && g.chance(0.25) {
			take := 1 + g.r.IntN(len(items)-i)
			add(fresh(), g.jsonTree(items[i:i+take], depth+1))
			i += take
			continue
		}
		add(items[i].K, g.jsonLeaf(items[i].V))
		i++
	}
	if g.chance(0.1) {
		add(fresh(), &c03JNode{kind: g.pick([]string{"obj", "arr"})}) // empty container: carries no data
	}
	return n
}

// ---- XML -----------------------------------------------------------------------------------

func c03XMLChar(r rune) bool {
	return r == 0x9 || r == 0xA || r == 0xD || r >= 0x20 && r <= 0xD7FF || r >= 0xE000 && r <= 0xFFFD || r >= 0x10000 && r <= 0x10FFFF
}

func c03XMLValue(s string) bool {
	if !utf8.ValidString(s) {
		return false
	}
	for _, r := range s {
		if !c03XMLChar(r) {
			return false
		}
	}
	return strings.TrimFunc(s, unicode.IsSpace) == s
}

func (g *c03Gen) xmlEscape(s string, attr bool) string {
	var sb strings.Builder
	num := func(r rune) string {
		if g.chance(0.5) {
			return fmt.Sprintf("&#%d;", r)
		}
		if g.chance(0.5) {
			return fmt.Sprintf("&#x%X;", r)
		}
		return fmt.Sprintf("&#x%x;", r)
	}
	for _, r := range s {
		switch {
		case r == '<':
			sb.WriteString(g.pick([]string{"&lt;", num(r)}))
		case r == '&':
			sb.WriteString(g.pick([]string{"&amp;", num(r)}))
		case r == '>':
			sb.WriteString(g.pick([]string{"&gt;", num(r)}))
		case r == '"':
			if attr || g.chance(0.5) {
				sb.WriteString(g.pick([]string{"&quot;", num(r)}))
			} else {
				sb.WriteRune(r)
			}
		case r == '\'':
			sb.WriteString(g.pick([]string{"'", "&apos;", num(r)}))
		case r == '\r':
			sb.WriteString(num(r))
		case r == '\n' || r == '\t':
			if attr || g.chance(0.3) {
				sb.WriteString(num(r))
			} else {
				sb.WriteRune(r)
			}
		default:
			if g.chance(0.93) {
				sb.WriteRune(r)
			} else {
				sb.WriteString(num(r))
			}
		}
	}
	return sb.String()
}

var c03XMLElems = []string{"e", "item", "A", "a", "ns:x", "v1", "data", "x-y", "x.y", "_u"}

// xmlBody places every item either as an attribute value or as the text of an element of its own.
func (g *c03Gen) xmlBody(items []sl.KV) (body string, texts, attrs []c03Exp) {
	var sb strings.Builder
	if g.chance(0.4) {
		sb.WriteString(`<?xml version="1.0" encoding="UTF-8"?>` + g.pick([]string{"", "\n"}))
	}
	ws := func() string { return g.pick([]string{"", "", "\n", "  ", "\n\t"}) }
	var emit func(items []sl.KV, depth int)
	emit = func(items []sl.KV, depth int) {
		name := g.pick(c03XMLElems)
		if depth == 0 {
			name = "root"
		}
		sb.WriteString("<" + name)
		// some items become attributes of this element
		na := 0
		first := len(attrs)
		for na < len(items) && na < 3 && g.chance(0.3) {
			// attribute names: ordinary ones, namespace prefix declarations and the default namespace declaration -
			// the value of any attribute is document data
			an := fmt.Sprintf("a%d", na)
			switch {
			case g.chance(0.2):
				an = fmt.Sprintf("xmlns:n%d", na)
			case na == 0 && g.chance(0.12):
				an = "xmlns"
			}
			sb.WriteString(fmt.Sprintf(` %s="%s"`, an, g.xmlEscape(items[na].V, true)))
			attrs = append(attrs, c03Exp{KV: sl.KV{K: "//@*", V: items[na].V}})
			na++
		}
		items = items[na:]
		// attribute values are delivered with the start tag, i.e. once it is closed
		closeTag := func(s string) {
			sb.WriteString(s)
			for j := first; j < first+na; j++ {
				attrs[j].End = sb.Len()
			}
		}
		if len(items) == 0 && g.chance(0.5) {
			closeTag("/>")
			return
		}
		closeTag(">")
		sb.WriteString(ws())
		i := 0
		for i < len(items) {
			if depth < 2 && g.chance(0.3) {
				take := 1 + g.r.IntN(len(items)-i)
				emit(items[i:i+take], depth+1)
				i += take
				sb.WriteString(ws())
				continue
			}
			v := items[i].V
			el := g.pick(c03XMLElems)
			sb.WriteString("<" + el + ">")
			if v != "" {
				if !strings.Contains(v, "]]>") && !strings.Contains(v, "\r") && g.chance(0.2) {
					sb.WriteString("<![CDATA[" + v + "]]>")
				} else {
					sb.WriteString(g.xmlEscape(v, false))
				}
				texts = append(texts, c03Exp{KV: sl.KV{K: "/*", V: v}, End: sb.Len()})
			}
			sb.WriteString("</" + el + ">" + ws())
			i++
		}
		sb.WriteString("</" + name + ">")
	}
	emit(items, 0)
	return sb.String(), texts, attrs
}
