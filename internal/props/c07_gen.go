package props

import (
	"fmt"
	"math/rand/v2"
	"sort"
	"strings"

	"github.com/corazawaf/coraza/v3/experimental/verifapi"
	"github.com/corazawaf/coraza/v3/types/variables"
)

// Registries whose names must all be used in an accepted configuration during a run.
const (
	c07Dir = iota
	c07Act
	c07Op
	c07Tr
	c07Var
	c07NReg
)

var c07RegName = [c07NReg]string{"directives", "actions", "operators", "transformations", "variables"}

type c07Vocab [c07NReg][]string

// c07Selectable tells which variables accept a key (asked from the library, not copied).
var c07Selectable = map[string]bool{}

func c07LoadVocab() c07Vocab {
	var v c07Vocab
	v[c07Dir] = verifapi.DirectiveNames()
	v[c07Act] = verifapi.ActionNames()
	v[c07Op] = verifapi.OperatorNames()
	v[c07Tr] = verifapi.TransformationNames()
	v[c07Var] = verifapi.VariableNames()
	for i := range v {
		sort.Strings(v[i])
	}
	for _, name := range v[c07Var] {
		if rv, err := variables.Parse(name); err == nil && rv.CanBeSelected() {
			c07Selectable[name] = true
		}
	}
	return v
}

// Directives whose handler returns an error for every argument (by design of the library:
// "not implemented"); they count as covered when they were dispatched.
var c07AlwaysRejected = map[string]bool{"secremoterules": true}

// c07Scratch is replaced by the worker's private directory when a configuration is compiled, so
// that recorded cases replay in another directory.
const c07Scratch = "${SCRATCH}"

// ---------------------------------------------------------------------------------------------
// configuration under construction

type c07Cfg struct {
	r      *rand.Rand
	lines  []string
	files  map[string]string
	used   [c07NReg]map[string]bool
	noShp  map[string]bool
	origin string
	nextID int
	voc    *c07Vocab
}

func c07NewCfg(r *rand.Rand, voc *c07Vocab, origin string) *c07Cfg {
	c := &c07Cfg{r: r, files: map[string]string{}, origin: origin, nextID: 1, voc: voc, noShp: map[string]bool{}}
	for i := range c.used {
		c.used[i] = map[string]bool{}
	}
	return c
}

func (c *c07Cfg) id() int { c.nextID++; return c.nextID - 1 }

func (c *c07Cfg) text() string { return strings.Join(c.lines, "\n") + "\n" }

func (c *c07Cfg) pick(xs []string) string { return xs[c.r.IntN(len(xs))] }

func (c *c07Cfg) chance(p float64) bool { return c.r.Float64() < p }

// dir appends a directive line.
func (c *c07Cfg) dir(name, args string) {
	c.used[c07Dir][strings.ToLower(name)] = true
	n := name
	if canon, ok := c07DirCanon[strings.ToLower(name)]; ok && !c.chance(0.1) {
		n = canon
	}
	if args == "" {
		c.lines = append(c.lines, n)
	} else {
		c.lines = append(c.lines, n+" "+args)
	}
}

// stdFiles adds the data files the operator shapes refer to.
func (c *c07Cfg) stdFiles() {
	if _, ok := c.files["words.dat"]; ok {
		return
	}
	c.files["words.dat"] = "# comment\nfwselect\nfwUnion\n\n  fwattack  \nfwa\n"
	c.files["ips.dat"] = "# comment\n127.0.0.1\n10.0.0.0/8\n::1\nnot-an-ip\n300.1.2.3/40\n"
	c.files["empty.dat"] = ""
	c.files["schema.json"] = `{"type":"object","properties":{"a":{"type":"string"},"n":{"type":"integer","minimum":0}},"required":["a"]}`
	c.files["bad.json"] = `{"type":`
	c.files["odd.json"] = `{"type":"nope","$ref":"#/x","properties":7}`
	c.files["dir/inc.conf"] = "SecAction \"id:900900,phase:1,pass,nolog,setvar:tx.included=1\"\n"
	c.files["loop.conf"] = "Include loop.conf\n"
}

var c07DirCanon = map[string]string{
	"secaction": "SecAction", "secrule": "SecRule", "secmarker": "SecMarker", "secdefaultaction": "SecDefaultAction",
	"secruleengine": "SecRuleEngine", "secrequestbodyaccess": "SecRequestBodyAccess", "secresponsebodyaccess": "SecResponseBodyAccess",
	"secruleremovebyid": "SecRuleRemoveById", "secruleremovebymsg": "SecRuleRemoveByMsg", "secruleremovebytag": "SecRuleRemoveByTag",
	"secruleupdatetargetbyid": "SecRuleUpdateTargetById", "secruleupdatetargetbytag": "SecRuleUpdateTargetByTag", "secruleupdatetargetbymsg": "SecRuleUpdateTargetByMsg",
	"secruleupdateactionbyid": "SecRuleUpdateActionById", "secdataset": "SecDataset", "secresponsebodymimetype": "SecResponseBodyMimeType",
	"secauditengine": "SecAuditEngine", "secauditlog": "SecAuditLog", "secauditlogtype": "SecAuditLogType", "secauditlogparts": "SecAuditLogParts",
}

// ---------------------------------------------------------------------------------------------
// argument shapes per directive (written from internal/seclang/directives.go)

type c07Shape struct {
	valid []string
	odd   []string
}

var c07OnOff = c07Shape{valid: []string{"On", "Off", "on", "OFF"}, odd: []string{"", "maybe", "On Off", "1"}}
var c07Ignored = c07Shape{valid: []string{"1000", "On", "x y z", ""}}
var c07Num = c07Shape{valid: []string{"1000", "1", "131072", "13107200"}, odd: []string{"", "0", "-1", "x", "9223372036854775807", "99999999999999999999", "1 2", "0x10"}}
var c07Mode = c07Shape{valid: []string{"0600", "0750", "0777", "02750", "0"}, odd: []string{"", "default", "999", "-1", "rwx", "77777777777777"}}
var c07Text = c07Shape{valid: []string{"verif", "\"quoted text\"", "a/b (c)", "x y"}, odd: []string{"", "\"", "\"\"", "%{tx.a}"}}
var c07LimitAction = c07Shape{valid: []string{"Reject", "ProcessPartial", "reject", "PROCESSPARTIAL"}, odd: []string{"", "Drop", "Reject x"}}

var c07DirShapes = map[string]c07Shape{
	"secargumentseparator":           c07Ignored,
	"seccookieformat":                c07Ignored,
	"secruleupdatetargetbymsg":       {valid: []string{"\"m one\" \"!ARGS:a\"", "x ARGS", ""}},
	"secrulescript":                  c07Ignored,
	"secruleperftime":                c07Ignored,
	"secunicodemap":                  {valid: []string{"unicode.mapping 20127", ""}},
	"sectmpdir":                      {valid: []string{c07Scratch, "/nonexistent", ""}},
	"seccollectiontimeout":           c07Ignored,
	"secconnengine":                  c07Ignored,
	"secconnreadstatelimit":          c07Ignored,
	"secconnwritestatelimit":         c07Ignored,
	"secgsblookupdb":                 c07Ignored,
	"sechashengine":                  c07Ignored,
	"sechashkey":                     c07Ignored,
	"sechashmethodpm":                c07Ignored,
	"sechashmethodrx":                c07Ignored,
	"sechashparam":                   c07Ignored,
	"sechttpblkey":                   c07Ignored,
	"secpcrematchlimit":              c07Ignored,
	"secpcrematchlimitrecursion":     c07Ignored,
	"secargumentslimit":              {valid: []string{"1000", "1", "3", "100000"}, odd: []string{"", "0", "-5", "x", "1 2", "99999999999999999999"}},
	"secauditengine":                 {valid: []string{"On", "Off", "RelevantOnly", "relevantonly"}, odd: []string{"", "maybe", "On x"}},
	"secauditlog":                    {valid: []string{c07Scratch + "/audit.log", c07Scratch + "/a2.log", "/dev/null", "http://127.0.0.1:9/audit", "udp://127.0.0.1:9"}, odd: []string{"", c07Scratch + "/no/such/dir/a.log", "\"\""}},
	"secauditlogdirmode":             c07Mode,
	"secauditlogfilemode":            c07Mode,
	"secauditlogformat":              {valid: []string{"JSON", "JsonLegacy", "Native", "OCSF", "json", "native"}, odd: []string{"", "xml", "JSON x"}},
	"secauditlogparts":               {valid: []string{"ABCFHZ", "ABCDEFGHIJKZ", "AZ", "ABIJKZ", "AEZ"}, odd: []string{"", "A", "Z", "BCZ", "ABCXZ", "abcfhz", "ABC FHZ", "AAZZ", "ABCFH"}},
	"secauditlogrelevantstatus":      {valid: []string{"^(?:5|4(?:0[1235]))", "\"^[45]\"", ".*", "^$", "404"}, odd: []string{"", "(", "^(?:5|4(?!04))", "[", "\\", "(?P<n>"}},
	"secauditlogstoragedir":          {valid: []string{c07Scratch + "/audit", c07Scratch, "/nonexistent/dir"}, odd: []string{""}},
	"secauditlogtype":                {valid: []string{"Serial", "Concurrent", "verifmem", "serial", "concurrent", "Https", "Syslog"}, odd: []string{"", "nope", "Serial x"}},
	"seccomponentsignature":          c07Text,
	"secdatadir":                     {valid: []string{c07Scratch, "/nonexistent"}, odd: []string{""}},
	"secdebuglog":                    {valid: []string{c07Scratch + "/debug.log", "/dev/null"}, odd: []string{"", c07Scratch + "/no/such/dir/d.log", c07Scratch}},
	"secdebugloglevel":               {valid: []string{"0", "1", "2", "3", "4", "5", "9"}, odd: []string{"", "10", "-1", "x", "200", "99999"}},
	"secignorerulecompilationerrors": c07OnOff,
	"secremoterules":                 {odd: []string{"key https://127.0.0.1:9/rules", "", "x"}},
	"secremoterulesfailaction":       {valid: []string{"Abort", "Warn", "abort"}, odd: []string{"", "x"}},
	"secrequestbodyaccess":           c07OnOff,
	"secresponsebodyaccess":          c07OnOff,
	"secrxprefilter":                 c07OnOff,
	"secrequestbodyinmemorylimit":    c07Num,
	"secrequestbodyjsondepthlimit":   {valid: []string{"1024", "1", "2", "5", "2000"}, odd: []string{"", "0", "-1", "x"}},
	"secrequestbodylimit":            {valid: []string{"13107200", "1", "7", "64", "1000", "1073741824"}, odd: []string{"", "0", "-1", "x", "1073741825", "9223372036854775807", "99999999999999999999"}},
	"secrequestbodynofileslimit":     c07Num,
	"secresponsebodylimit":           {valid: []string{"524288", "1", "7", "64", "1000", "1073741824"}, odd: []string{"", "0", "-1", "x", "1073741825", "9223372036854775807"}},
	"secrequestbodylimitaction":      c07LimitAction,
	"secresponsebodylimitaction":     c07LimitAction,
	"secresponsebodymimetype":        {valid: []string{"text/plain text/html text/xml application/json", "text/plain", "*/*", "application/json  text/xml"}, odd: []string{"", " ", "\"\""}},
	"secresponsebodymimetypesclear":  {valid: []string{""}, odd: []string{"x", "text/plain"}},
	"secruleengine":                  {valid: []string{"On", "Off", "DetectionOnly", "on", "detectiononly"}, odd: []string{"", "maybe", "On x"}},
	"secsensorid":                    c07Text,
	"secserversignature":             c07Text,
	"secwebappid":                    c07Text,
	"secuploaddir":                   {valid: []string{c07Scratch, c07Scratch + "/up"}, odd: []string{"", "/nonexistent/dir", "/proc/version"}},
	"secuploadfilelimit":             {valid: []string{"10", "0", "1", "100"}, odd: []string{"", "-1", "x", "99999999999999999999"}},
	"secuploadfilemode":              c07Mode,
	"secuploadkeepfiles":             {valid: []string{"On", "Off", "RelevantOnly", "off"}, odd: []string{"", "x"}},
}

// Directives generated by dedicated code rather than from the table.
var c07DirSpecial = map[string]bool{
	"secaction": true, "secrule": true, "secmarker": true, "secdefaultaction": true, "secdataset": true,
	"secruleremovebyid": true, "secruleremovebymsg": true, "secruleremovebytag": true,
	"secruleupdatetargetbyid": true, "secruleupdatetargetbytag": true, "secruleupdateactionbyid": true,
}

var c07GenericArgs = []string{"", "On", "1", "a", "a b", "\"a b\"", "1 \"x\"", "%{tx.a}", "/tmp/x", "-1", "99999999999999999999"}

// ---------------------------------------------------------------------------------------------
// operators (argument shapes written from the Init functions in internal/operators)

type c07OpShape struct {
	args    []string // valid arguments; "#" is replaced by a per-rule serial so that arguments are unique per rule
	odd     []string
	macro   bool     // argument is macro-expanded
	targets []string // preferred targets ("" = any)
	files   bool
	dataset string // dataset the argument names
}

var c07StrArgs = []string{"a", "ab", "/p", "select", "A b", "%41", "é", "0"}
var c07NumArgs = []string{"0", "1", "10", "-1", "007", "2147483648", "abc", "1.5"}

var c07OpShapes = map[string]c07OpShape{
	"beginsWith":           {args: c07StrArgs, macro: true, odd: []string{""}},
	"contains":             {args: c07StrArgs, macro: true, odd: []string{""}},
	"endsWith":             {args: c07StrArgs, macro: true, odd: []string{""}},
	"streq":                {args: c07StrArgs, macro: true, odd: []string{""}},
	"strmatch":             {args: c07StrArgs, macro: true, odd: []string{""}},
	"within":               {args: []string{"GET POST HEAD", "a b c ab", "a,b,c"}, macro: true, odd: []string{""}},
	"eq":                   {args: c07NumArgs, macro: true, odd: []string{""}},
	"ge":                   {args: c07NumArgs, macro: true, odd: []string{""}},
	"gt":                   {args: c07NumArgs, macro: true, odd: []string{""}},
	"le":                   {args: c07NumArgs, macro: true, odd: []string{""}},
	"lt":                   {args: c07NumArgs, macro: true, odd: []string{""}},
	"detectSQLi":           {args: []string{""}, odd: []string{"x"}},
	"detectXSS":            {args: []string{""}, odd: []string{"x"}},
	"geoLookup":            {args: []string{""}, odd: []string{"x"}, targets: []string{"REMOTE_ADDR"}},
	"noMatch":              {args: []string{""}, odd: []string{"x"}},
	"unconditionalMatch":   {args: []string{""}, odd: []string{"x"}},
	"validateUrlEncoding":  {args: []string{""}, odd: []string{"x"}},
	"validateUtf8Encoding": {args: []string{""}, odd: []string{"x"}},
	"inspectFile":          {args: []string{"/nonexistent/verif-inspect"}, odd: []string{""}, targets: []string{"FILES_TMPNAMES", "ARGS:a"}},
	"ipMatch":              {args: []string{"127.0.0.1", "10.0.0.0/8,192.168.1.1", "::1,2001:db8::/32", "10.0.0.1, bad, 300.1.1.1/99,,", "10.0.0.1/0"}, odd: []string{"", ",", "x"}, targets: []string{"REMOTE_ADDR", "ARGS", "REQUEST_HEADERS:X-Forwarded-For"}},
	"ipMatchF":             {args: []string{"ips.dat"}, odd: []string{"", "missing.dat", "empty.dat", "/ips.dat", "../ips.dat"}, files: true, targets: []string{"REMOTE_ADDR", "ARGS"}},
	"ipMatchFromFile":      {args: []string{"ips.dat"}, odd: []string{"", "missing.dat", "empty.dat", "/ips.dat"}, files: true, targets: []string{"REMOTE_ADDR", "ARGS"}},
	"ipMatchFromDataset":   {args: []string{"dsip"}, odd: []string{"", "dsmissing", "dsempty"}, dataset: "dsip", targets: []string{"REMOTE_ADDR", "ARGS"}},
	"pm":                   {args: []string{"pwa# pwb#", "pwselect# pwunion# a", "pw# é K", "pw#"}, odd: []string{"", " ", "  pw#  "}},
	"pmf":                  {args: []string{"words.dat"}, odd: []string{"", "missing.dat", "empty.dat", "/words.dat"}, files: true},
	"pmFromFile":           {args: []string{"words.dat"}, odd: []string{"", "missing.dat", "empty.dat", "dir/../words.dat"}, files: true},
	"pmFromDataset":        {args: []string{"dswords"}, odd: []string{"", "dsmissing", "dsempty"}, dataset: "dswords"},
	"rbl":                  {args: []string{"rbl.invalid"}, odd: []string{""}, targets: []string{"REMOTE_ADDR"}},
	"restpath":             {args: []string{"/rp#/{id}/x/{name}", "/{a}", "/p#", "/rp#/{id}/{id}"}, odd: []string{"", "/{", "/{}", "/{a b}/(", "/{1x}", "{a}{a}", "/{a-b}"}, targets: []string{"REQUEST_URI", "REQUEST_FILENAME", "ARGS"}},
	"rx": {args: []string{"a", "^ab?c*$", "(?i)select", "(a)(b)?(c)(d)(e)(f)(g)(h)(i)(j)(k)", "^$", ".", "\\d+", "[^a-z]", "(?:a|b|c){1,3}", "\\x41", "\\xfe#", "\\xff\\x{fe}#", "^literal$", "(?i)^lit$", "\\bword\\b", "a{2,}", "", "(?s).*", "\\p{L}+", "[\\x00-\\x1f]", "é"},
		odd: []string{"(", "[", "\\", "a{1001}", "(?P<n>", "(?<!a)b", "\\xf", "\\x{fffffff}", "*", "a**", "(?i", "\\1", "(a){1000}{1000}"}},
	"validateByteRange": {args: []string{"32-126", "0-255", "10,13,32-126", "65", "1-255", " 32 - 126 ", ""}, odd: []string{"256", "-1", "a-b", "5-300", "126-32", ",", "1-", "-", "1-2-3", "32-126,"}},
	"validateNid":       {args: []string{"cl [0-9.\\-kK]{8,}", "us \\d{3}-?\\d{2}-?\\d{4}", "cl .*", "us .*", "cl [\\-.]{8,}", "us [0-9 ]+", "cl .{8}", "us \\d+"}, odd: []string{"", "xx 1", "cl", "cl (", "us", " cl a"}},
	"validateSchema":    {args: []string{"schema.json"}, odd: []string{"", "schema.xml", "missing.json", "bad.json", "odd.json", "/schema.json"}, files: true, targets: []string{"REQUEST_BODY", "RESPONSE_BODY", "ARGS"}},
	"verifrec":          {args: []string{"t# true", "t# contains:a", "t# nonempty"}, odd: []string{"", "t"}},
}

var c07GenericOpArgs = []string{"", "a", "1", "a b", "%{tx.a}", "/x", "0-255", "127.0.0.1"}

// ---------------------------------------------------------------------------------------------
// actions (argument shapes written from the Init functions in internal/actions)

var c07ActShapes = map[string]c07Shape{
	"allow":      {valid: []string{"", "phase", "request"}, odd: []string{"foo", "Phase"}},
	"auditlog":   {valid: []string{""}, odd: []string{"x"}},
	"block":      {valid: []string{""}, odd: []string{"x"}},
	"capture":    {valid: []string{""}, odd: []string{"x"}},
	"deny":       {valid: []string{""}, odd: []string{"x"}},
	"drop":       {valid: []string{""}, odd: []string{"x"}},
	"exec":       {valid: []string{""}, odd: []string{"/bin/true"}},
	"expirevar":  {valid: []string{"tx.a=60", "ip.x=3600", "", "x"}},
	"initcol":    {valid: []string{"ip=%{REMOTE_ADDR}", "global=global", "resource=%{REQUEST_FILENAME}", "x="}, odd: []string{"", "ip"}},
	"log":        {valid: []string{""}, odd: []string{"x"}},
	"nolog":      {valid: []string{""}, odd: []string{"x"}},
	"noauditlog": {valid: []string{""}, odd: []string{"x"}},
	"multimatch": {valid: []string{""}, odd: []string{"x"}},
	"pass":       {valid: []string{""}, odd: []string{"x"}},
	"logdata":    {valid: []string{"'d %{MATCHED_VAR}'", "plain", "'%{TX.0} %{tx.a} %{MATCHED_VAR_NAME}'", "'%{unclosed'"}, odd: []string{"", "'%{NOPE}'", "'%{tx.}'", "'%{ARGS:a}'"}},
	"msg":        {valid: []string{"'hello'", "'m one'", "'m %{tx.a} %{MATCHED_VAR}'", "x", "'%'", "'%{'"}, odd: []string{"", "''", "'%{NOPE.x}'", "'%{}'", "'%{.}'"}},
	"maturity":   {valid: []string{"1", "5", "9"}, odd: []string{"", "0", "10", "x", "-1"}},
	"phase":      {valid: []string{"1", "2", "3", "4", "5", "request", "response", "logging"}, odd: []string{"", "0", "6", "x", "-1", "99999999999999999999"}},
	"redirect":   {valid: []string{"http://e.invalid/x", "'http://e.invalid/?a=%{tx.a}'", "/"}, odd: []string{""}},
	"rev":        {valid: []string{"2", "'1.2.3'"}, odd: []string{""}},
	"setenv":     {valid: []string{"VERIF_E1=v", "VERIF_E2=%{REQUEST_URI}", "VERIF_E3=%{tx.a}%{MATCHED_VAR}", "VERIF_E4==", "VERIF E5=x"}, odd: []string{"", "=v", "K=", "K", "VERIF_E6=%{NOPE}"}},
	"severity":   {valid: []string{"0", "2", "5", "7", "EMERGENCY", "CRITICAL", "warning", "'NOTICE'"}, odd: []string{"", "8", "-1", "x"}},
	"skip":       {valid: []string{"1", "2", "100"}, odd: []string{"", "0", "-1", "x", "99999999999999999999"}},
	"skipafter":  {valid: []string{"M1", "END", "'M1'", "nonexistent"}, odd: []string{"", "''"}},
	"status":     {valid: []string{"403", "200", "302", "301", "999", "0", "-1"}, odd: []string{"", "x", "99999999999999999999"}},
	"tag":        {valid: []string{"tagA", "'OWASP/x y'", "tagB"}, odd: []string{""}},
	"ver":        {valid: []string{"'1.0'", "x"}, odd: []string{""}},
	"verifdump":  {valid: []string{"d1"}},
}

// setvar spellings, documented ones the unit tests do not use included.
var c07Setvars = []string{
	"tx.a=1", "tx.a=+1", "tx.a=-1", "tx.a=+%{tx.b}", "tx.a=-%{tx.b}", "tx.a=%{MATCHED_VAR}", "TX.A=1", "tx.a=", "tx.a", "!tx.a", "!tx.nope",
	"tx.%{MATCHED_VAR_NAME}=1", "!tx.%{MATCHED_VAR_NAME}", "tx.%{tx.b}", "tx.a=+", "tx.a=-", "tx.a=+x", "tx.a=+tx.b", "tx.a==", "tx.a=b=c",
	"'tx.a=a b,c'", "tx.a=%{tx.b}%{tx.b}", "tx.a.b.c=1", "tx.0=x", "tx.a=+99999999999999999999", "tx.score=+%{tx.nope}", "tx.é=1",
	"tx.a=%{ARGS.a}", "tx.a=%{REQUEST_HEADERS.host}", "tx.a=%{XML.a}", "tx.a=%{RULE.id}", "tx.rid=%{rule.id}-%{rule.msg}",
}

var c07SetvarsOdd = []string{"", "!", "tx", "tx.", "tx.=1", "!tx.", "ip.a=1", "a=1", "=1", ".a=1", "tx. =1", "tx.a=%{NOPE}", "tx.%{NOPE}=1", "tx.a=%{tx.b", "tx.a=%{tx.}", "tx.%{=1", "!!tx.a"}

// every ctl option with valid and odd values
var c07Ctl = map[string]c07Shape{
	"auditEngine":               {valid: []string{"On", "Off", "RelevantOnly"}, odd: []string{"x", ""}},
	"auditLogParts":             {valid: []string{"+E", "-C", "ABCFHZ", "+EFGK", "-E"}, odd: []string{"X", "+", "", "+X", "-A"}},
	"requestBodyAccess":         {valid: []string{"On", "Off"}, odd: []string{"maybe", ""}},
	"requestBodyLimit":          {valid: []string{"0", "1", "10", "1000000"}, odd: []string{"-1", "x", "99999999999999999999", ""}},
	"requestBodyProcessor":      {valid: []string{"URLENCODED", "MULTIPART", "JSON", "XML", "RAW", "json", "verifbody"}, odd: []string{"nope", ""}},
	"forceRequestBodyVariable":  {valid: []string{"On", "Off"}, odd: []string{"x", ""}},
	"responseBodyProcessor":     {valid: []string{"JSON", "XML", "RAW", "URLENCODED", "MULTIPART", "verifbody"}, odd: []string{"nope", ""}},
	"responseBodyAccess":        {valid: []string{"On", "Off"}, odd: []string{"x", ""}},
	"responseBodyLimit":         {valid: []string{"0", "1", "10", "1000000"}, odd: []string{"-1", "x", ""}},
	"forceResponseBodyVariable": {valid: []string{"On", "Off"}, odd: []string{"x", ""}},
	"ruleEngine":                {valid: []string{"On", "Off", "DetectionOnly"}, odd: []string{"x", ""}},
	"ruleRemoveById":            {valid: []string{"1", "1-5", "999999", "2", "1-999999"}, odd: []string{"x", "5-1", "-1", "1-", "-", "", "1-2-3", "99999999999999999999"}},
	"ruleRemoveByMsg":           {valid: []string{"hello", "m one", "nope"}, odd: []string{""}},
	"ruleRemoveByTag":           {valid: []string{"tagA", "tagB", "nope"}, odd: []string{""}},
	"ruleRemoveTargetById":      {valid: []string{"1;ARGS:a", "1-5;ARGS", "1;ARGS:/^a/", "2;REQUEST_HEADERS:User-Agent", "1;XML:/*", "1;ARGS_NAMES", "1-999999;REQUEST_COOKIES:/^s/", "3;TX:a"}, odd: []string{"1;NOPE:a", "x;ARGS", "1;", "1;ARGS://", ";ARGS:a", "1", "", "5-1;ARGS", "1;ARGS:/(/", "1;:a", "1;ARGS:", "1;ARGS:/a"}},
	"ruleRemoveTargetByMsg":     {valid: []string{"hello;ARGS:a", "m one;ARGS", "nope;ARGS:/^a/"}, odd: []string{";ARGS", "hello", "hello;NOPE"}},
	"ruleRemoveTargetByTag":     {valid: []string{"tagA;ARGS:a", "tagB;REQUEST_HEADERS", "nope;ARGS:/^a/"}, odd: []string{";ARGS", "tagA", "tagA;NOPE"}},
	"hashEngine":                {valid: []string{"On", "Off"}},
	"hashEnforcement":           {valid: []string{"On", "Off"}},
	"debugLogLevel":             {valid: []string{"0", "3", "9"}, odd: []string{"10", "x", "-1", "200", ""}},
}

var c07CtlNames = func() []string {
	var out []string
	for k := range c07Ctl {
		out = append(out, k)
	}
	sort.Strings(out)
	return out
}()

// ---------------------------------------------------------------------------------------------
// targets

var c07StrKeys = []string{"a", "A", "id", "host", "User-Agent", "content-type", "x1", "0", "a.b", "json.a", "é"}
var c07RxKeys = []string{"^a", "b$", "[a-c]+", ".", "(?i)x\\d", "r[0-9]", "^$", "\\/", "^json\\.", "a|b"}
var c07XPaths = []string{"/*", "//@*", "/a/b", "//a", "/*[1]", "//*[@x]", "/a/text()", "]", "//", "/a["}

// target renders one spelling of a variable. kind: 0 whole, 1 string key, 2 regex key, 3 quoted regex key,
// 4 xpath, 5 empty key.
func c07Target(r *rand.Rand, v string, kind int, count, excl bool) string {
	var sb strings.Builder
	if excl {
		sb.WriteByte('!')
	}
	if count {
		sb.WriteByte('&')
	}
	sb.WriteString(v)
	switch kind {
	case 1:
		sb.WriteString(":" + c07StrKeys[r.IntN(len(c07StrKeys))])
	case 2:
		sb.WriteString(":/" + c07RxKeys[r.IntN(len(c07RxKeys))] + "/")
	case 3:
		sb.WriteString(":'/" + c07RxKeys[r.IntN(len(c07RxKeys))] + "/'")
	case 4:
		sb.WriteString(":" + c07XPaths[r.IntN(len(c07XPaths))])
	case 5:
		sb.WriteString(":")
	}
	return sb.String()
}

func (c *c07Cfg) useVar(v string) { c.used[c07Var][v] = true }

// randTargets builds a target list over random variables and spellings.
func (c *c07Cfg) randTargets(n int) string {
	var ts []string
	for i := 0; i < n; i++ {
		v := c.pick(c.voc[c07Var])
		c.useVar(v)
		kind := 0
		switch x := c.r.IntN(10); {
		case x < 4:
			kind = 0
		case x < 7:
			kind = 1
		case x < 9:
			kind = 2
		default:
			kind = 3
		}
		if (v == "XML" || v == "JSON") && c.chance(0.5) {
			kind = 4 // XPath syntax exists for these two names only; elsewhere "//" would be an empty regex key
		}
		sel := c07Selectable[v] || c.chance(0.03)
		if !sel {
			kind = 0
		}
		ts = append(ts, c07Target(c.r, v, kind, c.chance(0.15), false))
		if sel && c.chance(0.2) {
			ts = append(ts, c07Target(c.r, v, 1+c.r.IntN(2), false, true))
		}
	}
	return strings.Join(ts, "|")
}

// ---------------------------------------------------------------------------------------------
// rules

func c07Quote(v string) string {
	if v == "" {
		return v
	}
	if strings.ContainsAny(v, ",: ") && !strings.HasPrefix(v, "'") {
		return "'" + v + "'"
	}
	return v
}

func c07ActText(name, val string) string {
	if val == "" {
		return name
	}
	return name + ":" + val
}

// opText renders "@name arg" for a shaped or unknown operator and registers what it needs.
func (c *c07Cfg) opText(name string, odd bool, serial int) (string, []string) {
	sh, ok := c07OpShapes[name]
	var arg string
	var targets []string
	if !ok {
		c.noShp["operators/"+name] = true
		arg = c.pick(c07GenericOpArgs)
	} else {
		targets = sh.targets
		switch {
		case odd && len(sh.odd) > 0:
			arg = c.pick(sh.odd)
		case sh.macro && c.chance(0.3):
			v := c.pick(c.voc[c07Var])
			c.useVar(v)
			arg = c.pick([]string{"%{" + v + "}", "%{" + v + ".a}", "x%{" + strings.ToLower(v) + ".id}y", "%{" + v + "}%{tx.a}"})
		default:
			arg = c.pick(sh.args)
		}
		if sh.files {
			c.stdFiles()
		}
		if sh.dataset != "" {
			c.needDataset(sh.dataset)
		}
	}
	if name == "pm" && strings.TrimSpace(arg) == "" && !strings.HasPrefix(c.origin, "operator") {
		// the empty phrase list is swept on its own; combined with an empty regex (@restpath with no
		// argument, VAR://) it would hit the shared-cache-key defect that belongs to C13
		arg = "pw#"
	}
	arg = strings.ReplaceAll(arg, "#", fmt.Sprint(serial))
	c.used[c07Op][name] = true
	neg := ""
	if c.chance(0.25) {
		neg = "!"
	}
	if arg == "" {
		return neg + "@" + name, targets
	}
	return neg + "@" + name + " " + arg, targets
}

func (c *c07Cfg) needDataset(name string) {
	for _, l := range c.lines {
		if strings.Contains(l, "SecDataset "+name+" ") || strings.Contains(l, "secdataset "+name+" ") {
			return
		}
	}
	body := "pwds1\npwds2\n# comment\n\n  pwDS3  \n"
	if name == "dsip" {
		body = "127.0.0.1\n10.0.0.0/8\n# c\nnot-an-ip\n::1\n"
	}
	// prepend so that it precedes the rule using it
	c.used[c07Dir]["secdataset"] = true
	c.lines = append([]string{"SecDataset " + name + " `\n" + body + "`"}, c.lines...)
}

// rule appends "SecRule targets "op" "actions"".
func (c *c07Cfg) rule(targets, op, actions string) {
	c.used[c07Dir]["secrule"] = true
	op = strings.ReplaceAll(op, `"`, `\"`)
	if actions == "" {
		c.lines = append(c.lines, fmt.Sprintf(`SecRule %s "%s"`, targets, op))
		return
	}
	c.lines = append(c.lines, fmt.Sprintf(`SecRule %s "%s" "%s"`, targets, op, actions))
}

func (c *c07Cfg) action(actions string) {
	c.used[c07Dir]["secaction"] = true
	c.lines = append(c.lines, fmt.Sprintf(`SecAction "%s"`, actions))
}

func (c *c07Cfg) useAct(names ...string) {
	for _, n := range names {
		c.used[c07Act][n] = true
	}
}

// base builds "id:N,phase:P,<disruptive>" and marks the actions used.
func (c *c07Cfg) base(phase int, disruptive string) string {
	c.useAct("id", "phase")
	s := fmt.Sprintf("id:%d,phase:%d", c.id(), phase)
	if disruptive != "" {
		c.useAct(strings.SplitN(disruptive, ":", 2)[0])
		s += "," + disruptive
	}
	return s
}

// prelude adds the settings most configurations share: body access on both sides, small limits
// now and then, and the body-processor selection rules of the recommended configuration.
func (c *c07Cfg) prelude() {
	c.dir("SecRuleEngine", c.pick([]string{"On", "On", "On", "DetectionOnly"}))
	c.dir("SecRequestBodyAccess", "On")
	c.dir("SecResponseBodyAccess", "On")
	c.dir("SecResponseBodyMimeType", "text/plain text/html text/xml application/json application/x-www-form-urlencoded multipart/form-data")
	if c.chance(0.3) {
		c.dir("SecRequestBodyLimit", c.pick([]string{"1", "7", "64", "1000", "40000"}))
		c.dir("SecRequestBodyLimitAction", c.pick([]string{"Reject", "ProcessPartial"}))
	}
	if c.chance(0.3) {
		c.dir("SecResponseBodyLimit", c.pick([]string{"1", "7", "64", "1000", "40000"}))
		c.dir("SecResponseBodyLimitAction", c.pick([]string{"Reject", "ProcessPartial"}))
	}
	if c.chance(0.2) {
		c.dir("SecRequestBodyInMemoryLimit", c.pick([]string{"1", "16", "1000"}))
	}
	c.useAct("id", "phase", "pass", "nolog", "ctl", "t")
	c.used[c07Op]["rx"] = true
	c.used[c07Tr]["lowercase"] = true
	c.used[c07Tr]["none"] = true
	c.useVar("REQUEST_HEADERS")
	c.useVar("RESPONSE_HEADERS")
	c.used[c07Dir]["secrule"] = true
	c.lines = append(c.lines,
		`SecRule REQUEST_HEADERS:Content-Type "^(?:application(?:/soap\+|/)|text/)xml" "id:200000,phase:1,t:none,t:lowercase,pass,nolog,ctl:requestBodyProcessor=XML"`,
		`SecRule REQUEST_HEADERS:Content-Type "^application/json" "id:200001,phase:1,t:none,t:lowercase,pass,nolog,ctl:requestBodyProcessor=JSON"`,
		`SecRule REQUEST_HEADERS:Content-Type "^text/plain" "id:200004,phase:1,t:none,t:lowercase,pass,nolog,ctl:requestBodyProcessor=RAW"`,
		`SecRule RESPONSE_HEADERS:Content-Type "^application/json" "id:200002,phase:3,t:none,t:lowercase,pass,nolog,ctl:responseBodyProcessor=JSON"`,
		`SecRule RESPONSE_HEADERS:Content-Type "xml" "id:200003,phase:3,t:none,t:lowercase,pass,nolog,ctl:responseBodyProcessor=XML"`,
	)
}

// ruleSet adds the rule shapes the management directives are run over: a rule with msg and tag, a
// rule without msg, a chain, markers, a SecAction.
func (c *c07Cfg) ruleSet() (ids []int) {
	c.useAct("id", "phase", "pass", "log", "msg", "tag", "chain", "setvar", "skipafter", "nolog", "deny", "status", "t", "capture")
	c.used[c07Op]["rx"] = true
	c.used[c07Op]["streq"] = true
	c.used[c07Op]["unconditionalMatch"] = true
	c.used[c07Tr]["lowercase"] = true
	for _, v := range []string{"ARGS", "REQUEST_HEADERS", "REQUEST_URI", "MATCHED_VAR", "TX", "REQUEST_COOKIES", "ARGS_NAMES"} {
		c.useVar(v)
	}
	i1, i2, i3, i4, i5, i6 := c.id(), c.id(), c.id(), c.id(), c.id(), c.id()
	c.rule("ARGS|REQUEST_HEADERS|!ARGS:x1", "@rx .", fmt.Sprintf("id:%d,phase:2,pass,log,msg:'hello',tag:tagA,tag:tagB,t:lowercase,capture", i1))
	c.rule("ARGS:a|REQUEST_COOKIES", "@rx a", fmt.Sprintf("id:%d,phase:2,pass,nolog", i2))
	c.dir("SecMarker", "M1")
	c.rule("REQUEST_URI", "@rx .", fmt.Sprintf("id:%d,phase:1,pass,log,msg:'m one',tag:tagA,chain", i3))
	c.rule("ARGS_NAMES", "@rx .", "chain,setvar:tx.c=+1")
	c.rule("MATCHED_VAR", "@unconditionalMatch", "t:lowercase")
	c.action(fmt.Sprintf("id:%d,phase:1,pass,nolog,setvar:tx.a=1,skipAfter:END", i4))
	c.rule("TX:a", "@streq 1", fmt.Sprintf("id:%d,phase:1,deny,status:403,tag:tagB", i5))
	c.dir("SecMarker", "END")
	c.rule("ARGS:block", "@streq 1", fmt.Sprintf("id:%d,phase:2,deny,status:403,log,msg:'%%{MATCHED_VAR_NAME} blocked'", i6))
	return []int{i1, i2, i3, i4, i5, i6}
}

// randRule adds one rule with random targets, operator, transformations and actions.
func (c *c07Cfg) randRule(oddP float64) {
	serial := c.nextID
	opName := c.pick(c.voc[c07Op])
	op, pref := c.opText(opName, c.chance(oddP), serial)
	var targets string
	if len(pref) > 0 && c.chance(0.7) {
		targets = c.pick(pref)
		c.useVar(strings.SplitN(strings.TrimLeft(targets, "&!"), ":", 2)[0])
	} else {
		targets = c.randTargets(1 + c.r.IntN(3))
	}
	phase := 1 + c.r.IntN(5)
	acts := c.randActions(phase, oddP, true)
	if c.chance(0.15) {
		// chain of 2-3 links
		c.useAct("chain")
		c.rule(targets, op, acts+",chain")
		n := 1 + c.r.IntN(2)
		for i := 0; i < n; i++ {
			op2, _ := c.opText(c.pick(c.voc[c07Op]), false, serial*10+i)
			link := c.linkActions()
			if i+1 < n {
				link = strings.TrimPrefix(link+",chain", ",")
			}
			c.rule(c.randTargets(1), op2, link)
		}
		return
	}
	c.rule(targets, op, acts)
}

func (c *c07Cfg) linkActions() string {
	var as []string
	if c.chance(0.5) {
		t := c.pick(c.voc[c07Tr])
		c.used[c07Tr][t] = true
		c.useAct("t")
		as = append(as, "t:"+t)
	}
	if c.chance(0.5) {
		c.useAct("setvar")
		as = append(as, "setvar:"+c.pick(c07Setvars))
	}
	if c.chance(0.2) {
		c.useAct("capture")
		as = append(as, "capture")
	}
	if c.chance(0.2) {
		c.useAct("multimatch")
		as = append(as, "multiMatch")
	}
	return strings.Join(as, ",")
}

var c07Disruptive = []string{"pass", "pass", "pass", "deny", "drop", "block", "allow", "allow:phase", "allow:request", "redirect:http://e.invalid/", "deny,status:429"}

// randActions builds an action list: id, phase, a disruptive action and a random subset of the rest.
func (c *c07Cfg) randActions(phase int, oddP float64, withT bool) string {
	d := c.pick(c07Disruptive)
	for _, p := range strings.Split(d, ",") {
		c.useAct(strings.SplitN(p, ":", 2)[0])
	}
	as := []string{fmt.Sprintf("id:%d", c.id()), fmt.Sprintf("phase:%d", phase), d}
	c.useAct("id", "phase")
	n := c.r.IntN(6)
	for i := 0; i < n; i++ {
		name := c.pick(c.voc[c07Act])
		switch name {
		case "id", "phase", "chain":
			continue
		case "allow", "deny", "drop", "block", "pass", "redirect":
			continue
		case "t":
			if !withT {
				continue
			}
			t := c.pick(c.voc[c07Tr])
			c.used[c07Tr][t] = true
			as = append(as, "t:"+t)
		case "ctl":
			opt := c.pick(c07CtlNames)
			sh := c07Ctl[opt]
			v := c.pick(sh.valid)
			if c.chance(oddP) && len(sh.odd) > 0 {
				v = c.pick(sh.odd)
			}
			as = append(as, "ctl:"+c07Quote(opt+"="+v))
		case "setvar":
			v := c.pick(c07Setvars)
			if c.chance(oddP) {
				v = c.pick(c07SetvarsOdd)
			}
			if c.chance(0.2) {
				vn := c.pick(c.voc[c07Var])
				c.useVar(vn)
				v = c.pick([]string{"tx.k_%{" + vn + "}=1", "tx.a=%{" + vn + "}", "tx.a=%{" + vn + ".a}", "tx.%{" + vn + ".id}=+%{" + vn + "}"})
			}
			as = append(as, "setvar:"+c07Quote(v))
		case "msg", "logdata":
			sh := c07ActShapes[name]
			v := c.pick(sh.valid)
			if c.chance(0.3) {
				vn := c.pick(c.voc[c07Var])
				c.useVar(vn)
				v = "'x %{" + vn + "} %{" + vn + ".a} y'"
			}
			if c.chance(oddP) {
				v = c.pick(sh.odd)
			}
			as = append(as, c07ActText(name, v))
		default:
			sh, ok := c07ActShapes[name]
			if !ok {
				c.noShp["actions/"+name] = true
				sh = c07Shape{valid: []string{"", "1", "a", "tx.a=1"}}
			}
			v := c.pick(sh.valid)
			if c.chance(oddP) && len(sh.odd) > 0 {
				v = c.pick(sh.odd)
			}
			as = append(as, c07ActText(name, v))
		}
		c.useAct(name)
	}
	return strings.Join(as, ",")
}

// randSetting adds one settings directive from the table (or generic arguments for a name without shape).
func (c *c07Cfg) randSetting(oddP float64) {
	for try := 0; try < 10; try++ {
		name := c.pick(c.voc[c07Dir])
		if c07DirSpecial[name] {
			continue
		}
		sh, ok := c07DirShapes[name]
		if !ok {
			c.noShp["directives/"+name] = true
			c.dir(name, c.pick(c07GenericArgs))
			return
		}
		if (c.chance(oddP) || len(sh.valid) == 0) && len(sh.odd) > 0 {
			c.dir(name, c.pick(sh.odd))
		} else if len(sh.valid) > 0 {
			c.dir(name, c.pick(sh.valid))
		}
		return
	}
}

var c07UpdTargets = []string{"\"!ARGS:a\"", "ARGS:b|!ARGS:/^c/", "\"REQUEST_HEADERS:User-Agent|&ARGS\"", "!REQUEST_COOKIES:/^s/", "XML:/*", "\"ARGS:'/^a/'\"", "TX:a"}
var c07UpdTargetsOdd = []string{"", "NOPE", "\"", "ARGS:", "!ARGS:", "|", "ARGS:/(/", "&", "!", "ARGS||ARGS", "\"ARGS:'/a\"", "REQUEST_URI:x"}
var c07UpdActions = []string{"\"deny,status:403\"", "pass", "\"nolog,tag:upd\"", "\"setvar:tx.u=1\"", "\"msg:'updated'\"", "\"t:none,t:lowercase\"", "\"severity:2,ctl:ruleEngine=Off\"", "block", "\"allow:phase\""}
var c07UpdActionsOdd = []string{"", "\"", "\"id:5\"", "\"phase:3\"", "nope", "\"chain\"", "\"setvar:!tx.u\"", "\"msg:\"", ",", "\"deny,\""}

func c07IDRef(r *rand.Rand, ids []int) string {
	if len(ids) == 0 {
		ids = []int{1}
	}
	a, b := ids[r.IntN(len(ids))], ids[r.IntN(len(ids))]
	if a > b {
		a, b = b, a
	}
	switch r.IntN(8) {
	case 0:
		return fmt.Sprint(a)
	case 1:
		return fmt.Sprintf("%d-%d", a, b)
	case 2:
		return fmt.Sprintf("%d %d", a, b)
	case 3:
		return fmt.Sprintf("%d %d-%d", a, a, b)
	case 4:
		return "1-999999"
	case 5:
		return "0"
	case 6:
		return fmt.Sprintf("%d-%d", a, a)
	}
	return "999998"
}

var c07IDRefOdd = []string{"", "x", "5-1", "-1", "1-", "-", "1-2-3", "99999999999999999999", "1 x", "--", "1 -2"}

// manage adds one rule-management directive referring to the given ids.
func (c *c07Cfg) manage(kind int, ids []int, odd bool) {
	ref := c07IDRef(c.r, ids)
	if odd && c.chance(0.5) {
		ref = c.pick(c07IDRefOdd)
	}
	switch kind % 7 {
	case 0:
		c.dir("SecRuleRemoveById", ref)
	case 1:
		m := c.pick([]string{"hello", "\"m one\"", "nope", "\"hello\"", "%{MATCHED_VAR_NAME} blocked"})
		if odd {
			m = c.pick([]string{"", "\"", "\"\""})
		}
		c.dir("SecRuleRemoveByMsg", m)
	case 2:
		m := c.pick([]string{"tagA", "tagB", "nope", "\"tagA\""})
		if odd {
			m = c.pick([]string{"", "\""})
		}
		c.dir("SecRuleRemoveByTag", m)
	case 3:
		t := c.pick(c07UpdTargets)
		if odd {
			t = c.pick(c07UpdTargetsOdd)
		}
		c.dir("SecRuleUpdateTargetById", strings.TrimSpace(ref+" "+t))
	case 4:
		t := c.pick(c07UpdTargets)
		if odd {
			t = c.pick(c07UpdTargetsOdd)
		}
		c.dir("SecRuleUpdateTargetByTag", strings.TrimSpace(c.pick([]string{"tagA", "tagB", "nope", "\"tagA\""})+" "+t))
	case 5:
		a := c.pick(c07UpdActions)
		if odd {
			a = c.pick(c07UpdActionsOdd)
		}
		c.dir("SecRuleUpdateActionById", strings.TrimSpace(ref+" "+a))
	case 6:
		c.dir("SecRuleUpdateTargetByMsg", c.pick([]string{"\"hello\" \"!ARGS:a\"", "hello ARGS", ""}))
	}
}

func (c *c07Cfg) defaultAction(odd bool) {
	ph := 1 + c.r.IntN(5)
	v := fmt.Sprintf("\"phase:%d,%s,%s\"", ph, c.pick([]string{"log,auditlog", "nolog", "log"}), c.pick([]string{"pass", "deny,status:403", "deny", "drop", "block", "allow", "redirect:http://e.invalid/"}))
	if c.chance(0.3) {
		v = fmt.Sprintf("\"phase:%d,pass,log,setvar:tx.da=+1,capture,ctl:ruleEngine=DetectionOnly\"", ph)
	}
	if odd {
		v = c.pick([]string{"", "\"\"", "\"pass\"", "\"phase:2\"", "\"phase:2,pass,id:5\"", "\"phase:2,pass,t:lowercase\"", "\"phase:2,pass,msg:'x'\"", "\"phase:9,pass\"", "\"phase:2,nope\"", "\"phase:2,pass,chain\"", "phase:2,pass,log", "\"phase:2,pass,setvar:tx.a\"", "\"phase:2,pass,setvar:!tx.a\""})
	}
	c.dir("SecDefaultAction", v)
}
