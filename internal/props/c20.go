package props

import (
	"encoding/json"
	"fmt"
	"path/filepath"
	"sort"
	"strings"

	"verif/internal/fw"
)

// C20: failures are reported, never swallowed, and no temporary files are left behind.
//
// Failpoint runner over a list of scenarios (fixed Transaction API call lists on a WAF with
// private temp / upload / audit directories): record pass, one inject run per (site, occurrence)
// reached (x what the connector does after a returned error), one run per abandonment point, and
// scenarios whose fault is real (missing directories, deleted files, /dev/full, RLIMIT_FSIZE).

type c20Params struct {
	N      int             `json:"n"`                // number of batches the scenario list is dealt over
	Strace string          `json:"strace,omitempty"` // scenario whose strace cross-check this batch runs (thorough)
	Child  *c20ChildParams `json:"child,omitempty"`  // this process is a traced child of a strace batch
}

const c20MaxOcc = 40

func c20Label(c *c20Case) string {
	switch c.Mode {
	case "fault":
		return c.Site
	case "abandon":
		if c.Stop == 0 {
			return "abandon@start"
		}
		return "abandon@" + c.Scenario.Calls[c.Stop-1].Op
	case "real":
		return c.Scenario.RealSite
	}
	return "no-fault"
}

func c20Class(monitor string, c *c20Case) string {
	return monitor + ":" + c20Label(c) + ":" + c.Scenario.Kind
}

type c20Obs struct {
	Run      *c20Run        `json:"run"`
	Baseline map[string]int `json:"baseline_traces,omitempty"`
	Probe    *c20ProbeOut   `json:"probe_recycled,omitempty"`
	ProbeRef *c20ProbeOut   `json:"probe_fresh,omitempty"`
}

// c20Judge applies the monitors to one run. base is the fault-free run of the same scenario
// (of the twin scenario for real faults); nil for the base run itself.
func c20Judge(w *fw.W, d c20Dirs, c *c20Case, r, base *c20Run) {
	s := c.Scenario
	if r.BuildErr != "" {
		w.Count("build_errors", 1)
		w.Cover("build_error_samples", s.Name+": "+r.BuildErr)
		return
	}
	w.Eval(1)
	w.Count("runs:"+c.Mode, 1)
	ob := func() *c20Obs {
		o := &c20Obs{Run: r}
		if base != nil {
			o.Baseline = base.Traces()
		}
		return o
	}

	// 1. never a panic
	if r.Panic != nil {
		w.Violation(c20Class("panic", c), "recover", c, "no panic", ob(), fmt.Sprintf("panic in %s: %s at %s", r.PanicAt, r.Panic.Value, r.Panic.Frame))
	}

	// 2. no temporary file outlives Close
	seen := map[string]bool{}
	for _, f := range r.Created {
		seen[f] = true
	}
	var bad []string
	for _, f := range r.Left {
		seen[f] = true
		name := filepath.Base(f)
		inUpl := strings.Contains(f, "/upl/")
		switch {
		case inUpl && strings.HasPrefix(name, "crzmp") && r.KeepApply:
			w.Count("files_kept_by_policy", 1)
		case c.Mode == "fault" && c.Site == "bodybuffer.remove" && strings.HasPrefix(name, "body"):
			w.Count("files_exempt_removal_fault", 1)
		default:
			bad = append(bad, filepath.Base(filepath.Dir(f))+"/"+name)
		}
	}
	w.Count("files_checked", len(seen))
	w.Count("dir_listings", 1)
	if len(bad) > 0 {
		w.Violation(c20Class("leftover-file", c), "directory-listing", c, "no file created during the transaction remains after Close", ob(),
			fmt.Sprintf("left behind: %v (keep-files=%q applies=%v)", bad, s.Conf.Keep, r.KeepApply))
	}

	// 3. no descriptor leak
	if r.FdBefore >= 0 {
		w.Count("fd_checks", 1)
		if len(r.FdNew) > 0 {
			w.Violation(c20Class("fd-leak", c), "/proc/self/fd", c, fmt.Sprintf("%d path descriptors", r.FdBefore), ob(),
				fmt.Sprintf("still open after Close: %v", r.FdNew))
		}
	}

	// 4. the failure left a trace
	switch c.Mode {
	case "fault":
		want := fmt.Sprintf("%s#%d", c.Site, c.Occ)
		fired := false
		for _, f := range r.Fired {
			if f == want {
				fired = true
			}
		}
		if !fired {
			w.Count("faults_not_fired", 1)
			w.Cover("faults_not_fired_cases", s.Name+"|"+want+"|"+c.OnErr)
			break
		}
		w.Count("faults_fired", 1)
		w.Count("fired:"+c.Site, 1)
		w.Cover("on_error_modes", c.OnErr)
		w.Nontrivial(fw.Hash(fmt.Sprintf("fault|%s|%s|%d", s.Name, c.Site, c.Occ)))
		nt := c20NewTraces(r, base)
		for _, k := range nt {
			w.Cover("trace_kinds", strings.SplitN(k, ":", 2)[0])
		}
		if len(nt) == 0 {
			w.Violation(c20Class("swallowed", c), "failure-trace", c, "a returned error, an error variable, an Error-level log entry or an interruption that the fault-free run does not have",
				ob(), fmt.Sprintf("fault %s fired, but the run shows no trace of it", want))
		}
	case "real":
		eff := true
		if s.RealNeeds != "" && base.Counts[s.RealNeeds] == 0 {
			eff = false
		}
		if strings.HasPrefix(s.RealSite, "auditlog.") && base.AuditBytes == 0 {
			eff = false
		}
		if !eff {
			w.Count("real_faults_not_effective", 1)
			w.Cover("real_faults_not_effective_names", s.Name)
			break
		}
		w.Count("real_faults_effective", 1)
		w.Cover("real_faults", s.Conf.Real+"|"+s.RealSite)
		w.Nontrivial(fw.Hash("real|" + s.Name))
		nt := c20NewTraces(r, base)
		for _, k := range nt {
			w.Cover("trace_kinds", strings.SplitN(k, ":", 2)[0])
		}
		if len(nt) == 0 {
			w.Violation(c20Class("swallowed", c), "failure-trace", c, "a returned error, an error variable, an Error-level log entry or an interruption that the run without the fault condition does not have",
				ob(), fmt.Sprintf("%s really failed (%s), but the run shows no trace of it", s.RealSite, s.Conf.Real))
		}
	case "abandon":
		w.Count("abandonment_points", 1)
		w.Nontrivial(fw.Hash(fmt.Sprintf("abandon|%s|%d", s.Name, c.Stop)))
	case "base":
		if len(s.ExpectAny) > 0 {
			ok := false
			for k := range r.Traces() {
				for _, p := range s.ExpectAny {
					if strings.HasPrefix(k, p) {
						ok = true
					}
				}
			}
			w.Count("expected_failure_scenarios", 1)
			if !ok {
				w.Violation(c20Class("unreported", c), "failure-trace", c, s.ExpectAny, ob(), "the scenario's own failure (parse error / over-limit body / interruption) left no trace")
			}
		}
	}

	// 5. the recycled object behaves like a new one
	if r.Probe != nil && r.ProbeRef != nil {
		w.Count("followup_probes", 1)
		if r.Reused {
			w.Count("reuse_confirmed", 1)
		}
		a, _ := json.Marshal(r.Probe)
		b, _ := json.Marshal(r.ProbeRef)
		if r.Probe.Panic != "" {
			o := ob()
			o.Probe = r.Probe
			w.Violation(c20Class("panic-in-followup", c), "recover", c, "no panic", o, r.Probe.Panic)
		} else if string(a) != string(b) {
			o := ob()
			o.Probe, o.ProbeRef = r.Probe, r.ProbeRef
			w.Violation(c20Class("recycled-differs", c), "followup-probe", c, "same outcome as on a fresh WAF", o, c20ProbeDiff(r.Probe, r.ProbeRef))
		}
	}
}

func c20ProbeDiff(a, b *c20ProbeOut) string {
	for i := range a.Calls {
		if i >= len(b.Calls) {
			break
		}
		x, _ := json.Marshal(a.Calls[i])
		y, _ := json.Marshal(b.Calls[i])
		if string(x) != string(y) {
			return fmt.Sprintf("call %d: recycled %s, fresh %s", i, x, y)
		}
	}
	if fmt.Sprint(a.Matched) != fmt.Sprint(b.Matched) {
		return fmt.Sprintf("matched rules: recycled %v, fresh %v", a.Matched, b.Matched)
	}
	for k, v := range a.Dump {
		if fmt.Sprint(v) != fmt.Sprint(b.Dump[k]) {
			return fmt.Sprintf("%s: recycled %q, fresh %q", k, v, b.Dump[k])
		}
	}
	for k, v := range b.Dump {
		if _, ok := a.Dump[k]; !ok {
			return fmt.Sprintf("%s: recycled (absent), fresh %q", k, v)
		}
	}
	return "outcomes differ"
}

// c20RunScenario is the failpoint runner for one scenario.
func c20RunScenario(w *fw.W, e *c20Env, s *c20Scenario) {
	w.Count("scenarios", 1)
	w.Cover("kinds", s.Kind)
	run := func(c *c20Case, base *c20Run) *c20Run {
		w.Trace(c)
		r := c20Exec(e, c)
		c20Judge(w, c20Dirs{}, c, r, base)
		return r
	}
	if s.isReal() {
		tw := s.twin()
		base := c20Exec(e, &c20Case{Scenario: tw, Mode: "base"})
		if base.BuildErr != "" {
			w.Count("build_errors", 1)
			w.Cover("build_error_samples", tw.Name+": "+base.BuildErr)
			return
		}
		c := &c20Case{Scenario: s, Mode: "real"}
		r := run(c, base)
		if w.WantSample() && w.Batch.Index%3 == 1 {
			w.Sample(map[string]any{"scenario": s.Name, "mode": "real", "condition": s.Conf.Real, "fails": s.RealSite, "new_traces": c20NewTraces(r, base)})
		}
		return
	}
	base := run(&c20Case{Scenario: s, Mode: "base"}, nil)
	if base.BuildErr != "" {
		return
	}
	// record pass → inject pass
	sites := make([]string, 0, len(base.Counts))
	for site := range base.Counts {
		sites = append(sites, site)
	}
	sort.Strings(sites)
	for _, site := range sites {
		n := base.Counts[site]
		w.Count("fault_points_reached", n)
		w.Count("reached:"+site, n)
		if n > c20MaxOcc {
			w.Count("fault_points_capped", n-c20MaxOcc)
			n = c20MaxOcc
		}
		for k := 1; k <= n; k++ {
			c := &c20Case{Scenario: s, Mode: "fault", Site: site, Occ: k, OnErr: "continue"}
			r := run(c, base)
			if w.WantSample() && k == 1 && w.Batch.Index%3 == 0 {
				w.Sample(map[string]any{"scenario": s.Name, "calls": c20Ops(s), "mode": "fault", "site": site, "occurrence": k, "fired": r.Fired, "new_traces": c20NewTraces(r, base), "files_before_close": len(r.Created), "files_after_close": len(r.Left)})
			}
			stopped := false
			for i, cr := range r.Calls {
				if cr.Err && i < len(s.Calls)-1 {
					stopped = true
				}
			}
			if !stopped {
				continue // no call returned an error: the connector has no reason to stop early
			}
			for _, oe := range []string{"close", "log-close"} {
				run(&c20Case{Scenario: s, Mode: "fault", Site: site, Occ: k, OnErr: oe}, base)
			}
		}
	}
	// abandonment points (the HTTP middleware owns its transaction: there is no call to stop after)
	for k := 0; k < len(s.Calls) && s.Kind != "http"; k++ {
		c := &c20Case{Scenario: s, Mode: "abandon", Stop: k}
		r := run(c, base)
		if w.WantSample() && k == len(s.Calls)/2 && w.Batch.Index%3 == 2 {
			w.Sample(map[string]any{"scenario": s.Name, "mode": "abandon", "after_calls": c20Ops(s)[:k], "files_before_close": len(r.Created), "files_after_close": len(r.Left)})
		}
	}
}

func c20Ops(s *c20Scenario) []string {
	out := make([]string, len(s.Calls))
	for i, c := range s.Calls {
		out[i] = c.Op
	}
	return out
}

func init() {
	fw.Register(&fw.Prop{
		ID: "C20", Level: "fault_enumeration",
		Rule: "scenarios = fixed Transaction API call lists (memory / disk-spilled request bodies through Write and ReadFrom, reader read-back before and after the spill, response bodies, multipart with 0..3 files x SecUploadKeepFiles Off/On/RelevantOnly with and without a logged match, serial and concurrent audit writers, interruption in phases 1-5, parse errors, over-limit bodies, direct BodyBuffer use, plus seeded size/chunking/option mixes), each on a fresh WAF with private temp/upload/audit directories. Per scenario: a record pass collects the (failpoint site, occurrence) pairs reached; one run per pair with exactly that fault armed, repeated for the connector reactions continue / Close / ProcessLogging+Close when a call returned an error; one run per abandonment point (stop after k calls, then Close); scenarios with real faults (temp or upload directory removed or replaced by a file, upload or spill file deleted before Close, /dev/full, audit directory below a regular file, RLIMIT_FSIZE). Every run is watched for panics, for a failure trace absent from the fault-free run, for files left in the private directories, for path descriptors still open, and is followed by a probe transaction on the same WAF compared with the same probe on a fresh WAF. distinct_nontrivial counts distinct (scenario, site, occurrence) in which FaultsFired() confirms the armed fault fired, distinct (scenario, k) abandonment runs and real-fault scenarios whose fault-free twin shows the failing operation is reached.",
		Assumptions: []string{
			"a failure counts as surfaced when the faulted run shows a returned error, an error variable, an Error-level debug-log entry or an interruption that the fault-free run of the same scenario does not show (texts are not compared, only message identity and the harness' own injected-fault marker)",
			"failpoints sit next to the real operation: a mutation of the handling of a real error is only visible to the real-fault scenarios (directories, deleted files, /dev/full, RLIMIT_FSIZE) and the strace cross-check; real close and read failures are not provoked",
			"descriptor monitor looks at descriptors that refer to paths; GC is disabled while a transaction is measured so that a finalizer cannot hide a leak",
			"upload files may remain when SecUploadKeepFiles is On, or RelevantOnly and a logging rule matched; that retention really keeps them is not judged here",
		},
		Required:   []string{"scenarios", "fault_points_reached", "faults_fired", "abandonment_points", "files_checked", "fd_checks", "followup_probes", "real_faults_effective", "reuse_confirmed"},
		Exhaustive: true,
		Plan: func(tier fw.Tier, seed int64) []fw.Batch {
			n := 16
			if tier == fw.Thorough {
				n = 32
			}
			var bs []fw.Batch
			for i := 0; i < n; i++ {
				bs = append(bs, fw.Batch{Index: i, Flavour: "plain", Params: json.RawMessage(fmt.Sprintf(`{"n":%d}`, n)), TimeoutS: 1800})
			}
			if tier == fw.Thorough {
				for _, name := range c20StraceScenarios {
					bs = append(bs, fw.Batch{Index: len(bs), Flavour: "plain", Params: mustRaw(c20Params{Strace: name}), TimeoutS: 3600})
				}
			}
			return bs
		},
		Run: func(w *fw.W, b fw.Batch) {
			var p c20Params
			json.Unmarshal(b.Params, &p)
			if p.Child != nil {
				c20StraceChild(w, p.Child.Scenario)
				return
			}
			if p.Strace != "" {
				c20StraceSweep(w, p.Strace, "")
				return
			}
			if p.N <= 0 {
				p.N = 1
			}
			list := c20Scenarios(w.Tier == fw.Thorough, fw.NewRng(w.Seed, "C20-scenarios", 0))
			e := &c20Env{Scratch: w.Scratch, probeRef: map[string]*c20ProbeOut{}}
			// warm-up: let the runtime open what it opens once (epoll, /proc handles) before descriptors are compared
			c20Exec(e, &c20Case{Scenario: list[0], Mode: "base"})
			for i, s := range list {
				if i%p.N != b.Index {
					continue
				}
				c20RunScenario(w, e, s)
			}
		},
		Replay: func(w *fw.W, raw json.RawMessage) {
			var st c20StraceCase
			if json.Unmarshal(raw, &st) == nil && st.Syscall != "" {
				c20StraceSweep(w, st.Scenario, st.Syscall) // re-runs every injection of that system call in the scenario
				return
			}
			var c c20Case
			if json.Unmarshal(raw, &c) != nil || c.Scenario == nil {
				return
			}
			e := &c20Env{Scratch: w.Scratch, probeRef: map[string]*c20ProbeOut{}}
			c20Exec(e, &c20Case{Scenario: c.Scenario.twin(), Mode: "base"})
			var base *c20Run
			switch c.Mode {
			case "real":
				base = c20Exec(e, &c20Case{Scenario: c.Scenario.twin(), Mode: "base"})
			case "fault", "abandon":
				base = c20Exec(e, &c20Case{Scenario: c.Scenario, Mode: "base"})
			}
			r := c20Exec(e, &c)
			c20Judge(w, c20Dirs{}, &c, r, base)
		},
	})
}
