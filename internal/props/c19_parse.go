package props

// C19: independent parsers for the four audit-log formats. They look only at what the statement
// pins: one well-formed document, the transaction id, the identity of the listed rules.

import (
	"bytes"
	"encoding/json"
	"fmt"
	"regexp"
	"sort"
	"strconv"
	"strings"
)

type c19Parsed struct {
	TxID     string `json:"txid"`
	Listed   []int  `json:"listed"`             // distinct rule ids identifiable in the record, sorted
	Anon     int    `json:"anon,omitempty"`     // listed messages that carry no identifiable rule id
	Sections string `json:"sections,omitempty"` // native: section letters in order of appearance
}

var (
	c19ReMark    = regexp.MustCompile(`(?m)^--([A-Za-z0-9]{10})-([A-Z])--$`)
	c19ReErrID   = regexp.MustCompile(`\[id "(\d+)"\]`)
	c19ReRawID   = regexp.MustCompile(`\bid:(\d+)`)
	c19ReMsgID   = regexp.MustCompile(`^R(\d+) `)
	c19FakeBound = "FAKEfake00" // boundary-looking text used by the hostile population
)

func c19Distinct(ids []int) []int {
	sort.Ints(ids)
	out := ids[:0:0]
	for i, v := range ids {
		if i == 0 || v != ids[i-1] {
			out = append(out, v)
		}
	}
	return out
}

// c19ParseJSONDoc checks "exactly one JSON document on one line" and returns it.
func c19ParseJSONDoc(raw []byte) (map[string]any, string) {
	if bytes.ContainsAny(raw, "\n\r") {
		return nil, "line break inside the JSON record"
	}
	if len(bytes.TrimSpace(raw)) == 0 {
		return nil, "empty record"
	}
	var m map[string]any
	if err := json.Unmarshal(raw, &m); err != nil {
		return nil, "not exactly one JSON object: " + err.Error()
	}
	return m, ""
}

func c19Obj(m map[string]any, k string) map[string]any {
	v, _ := m[k].(map[string]any)
	return v
}
func c19Str(m map[string]any, k string) string {
	if m == nil {
		return ""
	}
	v, _ := m[k].(string)
	return v
}

// c19ParseRecord parses one record; bad != "" means not well-formed in its format.
func c19ParseRecord(format string, raw []byte) (p *c19Parsed, bad string) {
	p = &c19Parsed{}
	switch format {
	case "JSON":
		m, bad := c19ParseJSONDoc(raw)
		if bad != "" {
			return p, bad
		}
		p.TxID = c19Str(c19Obj(m, "transaction"), "id")
		msgs, _ := m["messages"].([]any)
		var ids []int
		for _, x := range msgs {
			mm, _ := x.(map[string]any)
			found := false
			if d := c19Obj(mm, "data"); d != nil {
				if f, ok := d["id"].(float64); ok && f != 0 {
					ids = append(ids, int(f))
					found = true
				}
			}
			for _, g := range c19ReErrID.FindAllStringSubmatch(c19Str(mm, "error_message"), -1) {
				n, _ := strconv.Atoi(g[1])
				ids = append(ids, n)
				found = true
			}
			if !found {
				p.Anon++
			}
		}
		p.Listed = c19Distinct(ids)
	case "JsonLegacy":
		m, bad := c19ParseJSONDoc(raw)
		if bad != "" {
			return p, bad
		}
		p.TxID = c19Str(c19Obj(m, "transaction"), "transaction_id")
		var ids []int
		if ad := c19Obj(m, "audit_data"); ad != nil {
			msgs, _ := ad["messages"].([]any)
			for _, x := range msgs {
				s, _ := x.(string)
				if g := c19ReMsgID.FindStringSubmatch(s); g != nil {
					n, _ := strconv.Atoi(g[1])
					ids = append(ids, n)
				} else {
					p.Anon++
				}
			}
		}
		p.Listed = c19Distinct(ids)
	case "OCSF":
		m, bad := c19ParseJSONDoc(raw)
		if bad != "" {
			return p, bad
		}
		p.TxID = c19Str(c19Obj(m, "http_request"), "uid")
		ens, _ := m["enrichments"].([]any)
		var ids []int
		for _, x := range ens {
			mm, _ := x.(map[string]any)
			var d map[string]any
			found := false
			if json.Unmarshal([]byte(c19Str(mm, "data")), &d) == nil && d != nil {
				if f, ok := d["id"].(float64); ok && f != 0 {
					ids = append(ids, int(f))
					found = true
				}
			}
			if !found {
				p.Anon++
			}
		}
		p.Listed = c19Distinct(ids)
	case "Native":
		return c19ParseNative(raw)
	default:
		return p, "unknown format " + format
	}
	return p, ""
}

// c19ParseNative: sections --<b>-A-- … --<b>-Z--, one boundary id, every section at most once,
// A first, Z last, nothing but blank lines after Z.
func c19ParseNative(raw []byte) (p *c19Parsed, bad string) {
	p = &c19Parsed{}
	s := string(raw)
	marks := c19ReMark.FindAllStringSubmatchIndex(s, -1)
	if len(marks) == 0 {
		return p, "no section boundary"
	}
	if marks[0][0] != 0 {
		return p, "record does not start with a section boundary"
	}
	bound := s[marks[0][2]:marks[0][3]]
	type sec struct {
		letter     byte
		start, end int
	}
	var secs []sec
	for _, m := range marks {
		b := s[m[2]:m[3]]
		if b != bound {
			if b == c19FakeBound {
				continue // body text of the hostile population
			}
			return p, fmt.Sprintf("second boundary id %q inside the record of %q", b, bound)
		}
		if n := len(secs); n > 0 {
			secs[n-1].end = m[0]
		}
		secs = append(secs, sec{letter: s[m[4]], start: m[1], end: len(s)})
	}
	seen := map[byte]bool{}
	for _, sc := range secs {
		if seen[sc.letter] {
			return p, fmt.Sprintf("section %c appears twice", sc.letter)
		}
		seen[sc.letter] = true
		p.Sections += string(sc.letter)
	}
	if secs[0].letter != 'A' {
		return p, "first section is " + string(secs[0].letter) + ", not A (sections " + p.Sections + ")"
	}
	last := secs[len(secs)-1]
	if last.letter != 'Z' {
		return p, "last section is " + string(last.letter) + ", not Z (sections " + p.Sections + ")"
	}
	if strings.TrimSpace(s[last.start:last.end]) != "" {
		return p, "text after the end marker"
	}
	var ids []int
	for _, sc := range secs {
		body := s[sc.start:sc.end]
		switch sc.letter {
		case 'A':
			// "[timestamp] <id> <client> <port> <host> <port>"
			line := strings.TrimPrefix(body, "\n")
			if i := strings.IndexByte(line, '\n'); i >= 0 {
				line = line[:i]
			}
			if j := strings.Index(line, "] "); j >= 0 {
				f := strings.Fields(line[j+2:])
				if len(f) > 0 {
					p.TxID = f[0]
				}
			}
		case 'K':
			for _, ln := range strings.Split(body, "\n") {
				if strings.TrimSpace(ln) == "" {
					continue
				}
				if g := c19ReRawID.FindStringSubmatch(ln); g != nil {
					n, _ := strconv.Atoi(g[1])
					ids = append(ids, n)
				} else {
					p.Anon++
				}
			}
		case 'H':
			for _, g := range c19ReErrID.FindAllStringSubmatch(body, -1) {
				n, _ := strconv.Atoi(g[1])
				ids = append(ids, n)
			}
		}
	}
	p.Listed = c19Distinct(ids)
	return p, ""
}

// c19SplitSerial splits the content of a serial-writer file into records.
// JSON family: one record per line. Native: records are delimited by their own A … Z sections.
func c19SplitSerial(format string, content []byte) (recs [][]byte, bad string) {
	if len(content) == 0 {
		return nil, ""
	}
	if content[len(content)-1] != '\n' {
		return nil, "file does not end with a newline"
	}
	if format != "Native" {
		for _, ln := range bytes.Split(content[:len(content)-1], []byte("\n")) {
			recs = append(recs, ln)
		}
		return recs, ""
	}
	s := string(content)
	marks := c19ReMark.FindAllStringSubmatchIndex(s, -1)
	start, bound := -1, ""
	prevEnd := 0
	for _, m := range marks {
		b, letter := s[m[2]:m[3]], s[m[4]]
		if start < 0 {
			if b == c19FakeBound {
				continue
			}
			if strings.TrimSpace(s[prevEnd:m[0]]) != "" {
				return recs, fmt.Sprintf("text between records at offset %d", prevEnd)
			}
			start, bound = m[0], b
			if letter == 'Z' { // degenerate "Z only" record
				recs = append(recs, []byte(s[start:m[1]]))
				start, prevEnd = -1, m[1]
			}
			continue
		}
		if b != bound {
			if b == c19FakeBound {
				continue
			}
			return recs, fmt.Sprintf("boundary %q inside the record of %q (interleaved records)", b, bound)
		}
		if letter == 'Z' {
			recs = append(recs, []byte(s[start:m[1]]))
			start, prevEnd = -1, m[1]
		}
	}
	if start >= 0 {
		// a record without an end marker: hand it to the record parser, which reports it
		recs = append(recs, []byte(s[start:]))
		prevEnd = len(s)
	}
	if strings.TrimSpace(s[prevEnd:]) != "" {
		return recs, "text after the last record"
	}
	return recs, ""
}
