package props

// C15 generators: operator arguments (structured, then rendered) and input byte strings.

import (
	"fmt"
	"math/rand/v2"
	"net/netip"
	"regexp"
	"strconv"
	"strings"
	"unicode"
	"unicode/utf8"
)

type c15R = *rand.Rand

func c15Pick[T any](r c15R, xs []T) T  { return xs[r.IntN(len(xs))] }
func c15Chance(r c15R, p float64) bool { return r.Float64() < p }

// ---------------------------------------------------------------------------------------------
// byte strings

var c15Atoms = []string{"a", "b", "c", "A", "B", "C", "ab", "Ab", "aB", "AB", "k", "K", "s", "S", "i", "I", "z", "Z", "-", "_", "1", "0", ".", "/", "<", ">", "=", "'",
	"\u00e9", "\u00c9", "\u00df", "\u0130", "\u0131", "\u212a", "\u017f", "\ufffd", "\u03a3", "\u03c3", "\u01c5", "\u03a9", "\u03c9", "\u0416", "\u0436",
	// letters whose upper and lower case forms differ in encoded length (2 <-> 3 bytes)
	"\u023a", "\u2c65", "\u1e9e", "\u2126", "\u212b", "\u00e5",
	"\xff", "\x80", "\xc3", "\xe9", "\xc9", "\xef\xbf", "\x00", "\x7f", "@", "[", "`", "{"}

var c15SafeAtoms = []string{"a", "b", "c", "A", "B", "C", "ab", "Ab", "aB", "k", "K", "s", "S", "z", "Z", "-", "_", "1", "0", ".", "/", "<", ">", "=",
	"\u00e9", "\u00c9", "\u00df", "\u212a", "\u017f", "\u023a", "\u2c65", "\u0416", "\xff", "\x80", "\xc9", "@", "[", "{"}

func c15FromAtoms(r c15R, atoms []string, minN, maxN int) string {
	n := minN
	if maxN > minN {
		n += r.IntN(maxN - minN + 1)
	}
	var sb strings.Builder
	for i := 0; i < n; i++ {
		sb.WriteString(atoms[r.IntN(len(atoms))])
	}
	return sb.String()
}

func c15RandBytes(r c15R, n int, forbid string) string {
	b := make([]byte, 0, n)
	for len(b) < n {
		c := byte(r.IntN(256))
		if strings.IndexByte(forbid, c) >= 0 {
			continue
		}
		b = append(b, c)
	}
	return string(b)
}

func c15FlipCase(r c15R, s string) string {
	b := []byte(s)
	for i, c := range b {
		if ((c >= 'a' && c <= 'z') || (c >= 'A' && c <= 'Z')) && r.IntN(2) == 0 {
			b[i] = c ^ 0x20
		}
	}
	return string(b)
}

// c15UniFlip rewrites letters of s into other members of their Unicode simple-folding orbit
// (k/K -> U+212A KELVIN SIGN, s/S -> U+017F LONG S, é <-> É, U+023A <-> U+2C65 whose encodings
// differ in length, ...) and, now and then, i/I into the dotless / dotted forms that are equal
// under ToLower/ToUpper but NOT under simple folding. Bytes that are not valid UTF-8 stay. Every
// comparison that folds case is probed with such inputs: an ASCII-only fold must not equate them,
// RE2's (?i) must.
func c15UniFlip(r c15R, s string) string {
	var sb strings.Builder
	for i := 0; i < len(s); {
		c, n := utf8.DecodeRuneInString(s[i:])
		if c == utf8.RuneError && n == 1 {
			sb.WriteByte(s[i])
			i++
			continue
		}
		i += n
		if r.IntN(3) != 0 {
			switch {
			case (c == 'i' || c == 'I') && r.IntN(4) == 0:
				c = c15Pick(r, []rune{0x130, 0x131})
			default:
				var orbit []rune
				for f := unicode.SimpleFold(c); f != c; f = unicode.SimpleFold(f) {
					orbit = append(orbit, f)
				}
				if len(orbit) > 0 {
					pick := orbit[r.IntN(len(orbit))]
					for _, o := range orbit {
						if o >= 0x80 && r.IntN(3) != 0 { // prefer the member outside ASCII
							pick = o
							break
						}
					}
					c = pick
				}
			}
		}
		sb.WriteRune(c)
	}
	return sb.String()
}

// c15Around builds inputs related to a key string: equal, embedded at start / middle / end, near
// misses (one byte dropped or changed), case-flipped, and unrelated.
func c15Around(r c15R, key string, atoms []string) string {
	switch r.IntN(13) {
	case 0:
		return key
	case 1:
		return key + c15FromAtoms(r, atoms, 1, 3)
	case 2:
		return c15FromAtoms(r, atoms, 1, 3) + key
	case 3:
		return c15FromAtoms(r, atoms, 1, 3) + key + c15FromAtoms(r, atoms, 1, 3)
	case 4:
		if len(key) > 0 {
			return key[:len(key)-1]
		}
		return ""
	case 5:
		if len(key) > 0 {
			return key[1:]
		}
		return ""
	case 6:
		if len(key) > 1 {
			i := r.IntN(len(key))
			j := i + r.IntN(len(key)-i+1)
			return key[i:j]
		}
		return key
	case 7:
		return c15FlipCase(r, key)
	case 8:
		if len(key) > 0 {
			b := []byte(key)
			b[r.IntN(len(b))] ^= byte(1 << uint(r.IntN(8)))
			return string(b)
		}
		return "x"
	case 9:
		return ""
	case 10: // equal only under Unicode case folding
		if r.IntN(2) == 0 {
			return c15UniFlip(r, key)
		}
		return c15FromAtoms(r, atoms, 0, 2) + c15UniFlip(r, c15FlipCase(r, key)) + c15FromAtoms(r, atoms, 0, 2)
	default:
		return c15FromAtoms(r, atoms, 0, 6)
	}
}

// ---------------------------------------------------------------------------------------------
// string and numeric operators (macro-expanded arguments)

var c15StringOps = []string{"streq", "contains", "strmatch", "beginsWith", "endsWith", "within"}
var c15NumOps = []string{"eq", "ge", "gt", "le", "lt"}

// c15MacroArg renders an argument that expands to pre+val+post; with probability it is a pure literal.
func c15MacroArg(r c15R, s *c15Spec, literal string, useMacro bool, pre, val, post string) {
	if !useMacro {
		s.Arg = c15S(literal)
		e := c15S(literal)
		s.Expanded = &e
		return
	}
	s.Arg = c15S(pre + "%{TX.x}" + post)
	v := c15S(val)
	s.TXX = &v
	e := c15S(pre + val + post)
	s.Expanded = &e
}

func c15NoMacroStart(s string) bool { return !strings.Contains(s, "%{") }

func c15GenString(r c15R, op string, safe bool) *c15Spec {
	atoms := c15Atoms
	if safe {
		atoms = c15SafeAtoms
	}
	piece := func(minN, maxN int) string {
		for {
			var v string
			if !safe && r.IntN(8) == 0 {
				v = c15RandBytes(r, minN+r.IntN(maxN-minN+1), "")
			} else {
				v = c15FromAtoms(r, atoms, minN, maxN)
				if r.IntN(4) == 0 {
					v += c15Pick(r, []string{"%", "{", "}", " ", ",", "%4", "}%"}) + c15FromAtoms(r, atoms, 0, 1)
				}
			}
			if c15NoMacroStart(v) && !strings.HasSuffix(v, "%") {
				return v
			}
		}
	}
	for {
		s := &c15Spec{Op: op}
		if c15Chance(r, 0.45) {
			pre, post := "", ""
			if r.IntN(2) == 0 {
				pre = piece(0, 3)
			}
			if r.IntN(2) == 0 {
				post = piece(0, 3)
			}
			// TX.x is set through the API, so its value may be any byte string
			val := c15FromAtoms(r, c15Atoms, 0, 4)
			if r.IntN(6) == 0 {
				val = c15RandBytes(r, r.IntN(6), "")
			}
			c15MacroArg(r, s, "", true, pre, val, post)
		} else {
			c15MacroArg(r, s, piece(1, 5), false, "", "", "")
		}
		if safe && !c15TextSafe(string(s.Arg)) {
			continue
		}
		return s
	}
}

func c15StringInput(r c15R, s *c15Spec) string {
	exp := string(*s.Expanded)
	if s.Op == "within" && r.IntN(2) == 0 {
		// a piece of the argument, or a piece plus noise
		if len(exp) > 0 {
			i := r.IntN(len(exp))
			j := i + r.IntN(len(exp)-i+1)
			p := exp[i:j]
			if r.IntN(4) == 0 {
				p += c15Pick(r, c15Atoms)
			}
			return p
		}
	}
	return c15Around(r, exp, c15Atoms)
}

var c15IntBases = []int64{0, 1, -1, 2, 9, 10, 11, 99, 100, 255, 256, 65535, 65536, 1<<31 - 1, 1 << 31, -(1 << 31), 1<<32 - 1, 1 << 32, 1<<63 - 1, -1 << 63, 1<<53 + 1}

func c15GenNumeric(r c15R, op string) *c15Spec {
	s := &c15Spec{Op: op}
	var v string
	switch x := r.IntN(20); {
	case x < 12:
		v = strconv.FormatInt(c15Pick(r, c15IntBases), 10)
	case x < 17:
		v = strconv.FormatInt(r.Int64N(2001)-1000, 10)
	case x < 18:
		v = strconv.FormatInt(int64(r.Uint64()), 10)
	default:
		// text without a pinned numeric reading: evaluated (must not panic), not judged
		// digit strings with leading zeros are decimal; the rest has no pinned numeric reading (evaluated for panics only)
		v = c15Pick(r, []string{"abc", "007", "010", "0999", "-08", "00", "+1", " 1", "1 ", "1.5", "-0", "0x10", "0b11", "0o17", "1_000", "1e3", "99999999999999999999", "-99999999999999999999", "-", "١"})
	}
	if c15Chance(r, 0.4) {
		c15MacroArg(r, s, "", true, "", v, "")
	} else {
		c15MacroArg(r, s, v, false, "", "", "")
	}
	return s
}

func c15NumericInput(r c15R, s *c15Spec) string {
	exp := string(*s.Expanded)
	if r.IntN(8) == 0 {
		return c15Pick(r, []string{"", "abc", "007", "010", "08", "0999999", "-010", "+5", " 5", "5 ", "5.0", "-0", "0x10", "1_000", "99999999999999999999", "\xff", "5\x00"})
	}
	if b, ok := c15CanonInt(exp); ok && c15InInt64(b) && r.IntN(5) != 0 {
		base := b.Int64()
		d := int64(r.IntN(5) - 2)
		if r.IntN(6) == 0 {
			d = r.Int64N(2001) - 1000
		}
		nv := base + d
		if (d > 0 && nv < base) || (d < 0 && nv > base) {
			nv = base
		}
		if r.IntN(10) == 0 {
			nv = -base
			if base == -1<<63 {
				nv = base
			}
		}
		return strconv.FormatInt(nv, 10)
	}
	return strconv.FormatInt(c15Pick(r, c15IntBases), 10)
}

// ---------------------------------------------------------------------------------------------
// @pm family

func c15PhraseOK(p string, form string) bool {
	if p == "" {
		return false
	}
	if strings.ContainsAny(p, "|") { // Snort "|41|" syntax has no agreed meaning
		return false
	}
	switch form {
	case "arg":
		return !strings.Contains(p, " ")
	default: // file / dataset: one phrase per line
		if strings.ContainsAny(p, "\n\r`") || p[0] == '#' || strings.TrimSpace(p) != p {
			return false
		}
	}
	return true
}

func c15GenPhrases(r c15R, form string, safe bool) []c15S {
	atoms := c15Atoms
	if safe {
		atoms = c15SafeAtoms
	}
	var n int
	switch x := r.IntN(10); {
	case x < 6:
		n = 1 + r.IntN(4)
	case x < 9:
		n = 5 + r.IntN(8)
	default:
		n = 13 + r.IntN(28)
	}
	var out []c15S
	for len(out) < n {
		var p string
		switch x := r.IntN(10); {
		case x < 5 || len(out) == 0:
			p = c15FromAtoms(r, atoms, 1, 5)
		case x < 7: // shared prefix: extend an earlier phrase
			p = string(out[r.IntN(len(out))]) + c15FromAtoms(r, atoms, 1, 2)
		case x < 8: // proper prefix / suffix of an earlier phrase
			q := string(out[r.IntN(len(out))])
			if len(q) > 1 {
				if r.IntN(2) == 0 {
					p = q[:1+r.IntN(len(q)-1)]
				} else {
					p = q[1+r.IntN(len(q)-1):]
				}
			} else {
				p = q + "a"
			}
		case x < 9 && !safe:
			p = c15RandBytes(r, 1+r.IntN(6), " |\n\r`#")
		default:
			p = string(out[r.IntN(len(out))]) // listed twice: as written, or in another ASCII case
			if r.IntN(3) != 0 {
				p = c15FlipCase(r, p)
			}
		}
		if form != "arg" && !safe && r.IntN(8) == 0 {
			p = p + " " + c15FromAtoms(r, atoms, 1, 2) // phrases with an inner blank (one per line)
		}
		if len(p) > 12 {
			p = p[:12]
		}
		if safe && (!c15TextSafe(p) || strings.Contains(p, ",")) {
			continue
		}
		if !c15PhraseOK(p, form) {
			continue
		}
		out = append(out, c15S(p))
	}
	return out
}

// c15CommentToken is the text of the comment lines written into data files and data-set blocks; it
// is offered as an input too (a comment is not a phrase).
const c15CommentToken = "qq-c15-comment"

// c15PmInput returns an input for a phrase list and the name of the way it was derived.
func c15PmInput(r c15R, phrases []c15S, atoms []string) (string, string) {
	ph := string(phrases[r.IntN(len(phrases))])
	switch x := r.IntN(24); {
	case x < 6:
		if r.IntN(12) == 0 {
			return c15FromAtoms(r, atoms, 0, 2) + c15CommentToken, "noise"
		}
		return c15FromAtoms(r, atoms, 0, 8), "noise"
	case x < 9: // phrase at the very start
		return c15FlipCase(r, ph) + c15FromAtoms(r, atoms, 0, 4), "phrase-at-start"
	case x < 12: // phrase at the very end
		return c15FromAtoms(r, atoms, 0, 4) + c15FlipCase(r, ph), "phrase-at-end"
	case x < 14:
		return c15FromAtoms(r, atoms, 1, 4) + c15FlipCase(r, ph) + c15FromAtoms(r, atoms, 1, 4), "phrase-inside"
	case x < 15:
		return c15FlipCase(r, ph), "phrase"
	case x < 17: // near miss
		if len(ph) > 1 {
			if r.IntN(2) == 0 {
				return c15FromAtoms(r, atoms, 0, 2) + ph[:len(ph)-1], "near-miss"
			}
			return ph[1:] + c15FromAtoms(r, atoms, 0, 2), "near-miss"
		}
		return "", "near-miss"
	case x < 20: // the length boundary: shorter than / as long as / one byte longer than the shortest phrase
		min := len(ph)
		for _, p := range phrases {
			if len(p) < min {
				min = len(p)
			}
		}
		var shortest []string
		for _, p := range phrases {
			if len(p) == min {
				shortest = append(shortest, string(p))
			}
		}
		sp := c15Pick(r, shortest)
		switch r.IntN(9) {
		case 0, 1:
			return c15FlipCase(r, sp), "shortest-phrase"
		case 2:
			return c15FlipCase(r, sp) + c15RandBytes(r, 1, ""), "shortest-phrase-plus-one"
		case 3:
			return c15RandBytes(r, 1, "") + c15FlipCase(r, sp), "shortest-phrase-plus-one"
		case 4:
			return sp[:len(sp)-1], "shortest-phrase-minus-one"
		case 5:
			return sp[1:], "shortest-phrase-minus-one"
		case 6: // as long as the shortest phrase, one bit off
			b := []byte(sp)
			b[r.IntN(len(b))] ^= byte(1 << uint(r.IntN(8)))
			return string(b), "shortest-phrase-one-bit-off"
		case 7:
			return c15UniFlip(r, sp), "shortest-phrase-unicode-folded"
		default:
			if min <= 1 {
				return "", "shorter-than-shortest"
			}
			return c15RandBytes(r, r.IntN(min), ""), "shorter-than-shortest"
		}
	case x < 21: // many occurrences (capture limit)
		var sb strings.Builder
		k := 8 + r.IntN(8)
		for i := 0; i < k; i++ {
			sb.WriteString(c15FlipCase(r, string(phrases[r.IntN(len(phrases))])))
			if r.IntN(2) == 0 {
				sb.WriteString(atoms[r.IntN(len(atoms))])
			}
		}
		return sb.String(), "many-occurrences"
	case x < 23: // equal to a phrase only under Unicode case folding (the statement fixes the folding to ASCII)
		return c15FromAtoms(r, atoms, 0, 2) + c15UniFlip(r, c15FlipCase(r, ph)) + c15FromAtoms(r, atoms, 0, 2), "unicode-folded-phrase"
	default:
		return c15RandBytes(r, r.IntN(10), ""), "random-bytes"
	}
}

// c15RenderLines writes the entries of a data file (or of a SecDataset block) the way such files
// are written in practice: entries indented or followed by blanks, empty and blank-only lines,
// comment lines, an entry listed twice, LF or CRLF line ends, the last line with or without a
// line end or followed by empty lines. The documented content is the list of entries whatever the
// style; dup rewrites an entry for its second listing; crlfOK=false keeps the text free of CR.
func c15RenderLines(r c15R, entries []string, dup func(string) string, crlfOK bool) (string, string) {
	padMode := c15Pick(r, []string{"none", "none", "some", "all"})
	eolMode := c15Pick(r, []string{"lf", "lf", "lf", "lf", "crlf", "mixed"})
	if !crlfOK {
		eolMode = "lf"
	}
	final := c15Pick(r, []string{"one", "one", "one", "none", "none", "many"})
	eol := func() string {
		switch eolMode {
		case "crlf":
			return "\r\n"
		case "mixed":
			if r.IntN(2) == 0 {
				return "\r\n"
			}
		}
		return "\n"
	}
	lead := []string{"", " ", "  ", "\t", " \t", "    "}
	trail := []string{"", " ", "   ", "\t", " \t ", "\t\t"}
	pad := func(e string) string {
		switch padMode {
		case "none":
			return e
		case "some":
			if r.IntN(2) == 0 {
				return e
			}
		}
		for {
			l, t := c15Pick(r, lead), c15Pick(r, trail)
			if l != "" || t != "" {
				return l + e + t
			}
		}
	}
	var sb strings.Builder
	last := ""
	for i, e := range entries {
		if r.IntN(10) == 0 {
			sb.WriteString("#" + c15Pick(r, []string{"", " "}) + c15CommentToken)
			sb.WriteString(eol())
		}
		if r.IntN(12) == 0 {
			sb.WriteString(eol())
		}
		if padMode != "none" && r.IntN(12) == 0 {
			sb.WriteString(c15Pick(r, []string{" ", "\t", "   "})) // a blank-only line
			sb.WriteString(eol())
		}
		sb.WriteString(pad(e))
		last = eol()
		sb.WriteString(last)
		if r.IntN(10) == 0 {
			sb.WriteString(pad(dup(entries[r.IntN(i+1)])))
			last = eol()
			sb.WriteString(last)
		}
	}
	text := sb.String()
	switch final {
	case "none":
		text = strings.TrimSuffix(text, last)
	case "many":
		text += eol() + eol()
	}
	return text, "pad=" + padMode + ",eol=" + eolMode + ",final=" + final
}

// c15LongLine puts a comment line longer than 64 KiB (bufio.Scanner's default token limit) after the first
// line of every 24th data file: the entries after it must still count.
func c15LongLine(r c15R, f, style string) (string, string) {
	if r.IntN(24) != 0 {
		return f, style
	}
	i := strings.IndexByte(f, '\n')
	if i < 0 {
		return f, style
	}
	return f[:i+1] + "#" + strings.Repeat("c", 66000+r.IntN(3000)) + "\n" + f[i+1:], style + ",longline"
}

func c15GenPm(r c15R, op string, safe bool, serial int) *c15Spec {
	s := &c15Spec{Op: op, Capture: r.IntN(3) == 0}
	switch op {
	case "pm":
		s.Phrases = c15GenPhrases(r, "arg", safe)
		parts := make([]string, len(s.Phrases))
		for i, p := range s.Phrases {
			parts[i] = string(p)
		}
		s.Arg = c15S(strings.Join(parts, " "))
	case "pmFromFile", "pmf":
		s.Phrases = c15GenPhrases(r, "file", safe)
		lines := make([]string, len(s.Phrases))
		for i, p := range s.Phrases {
			lines[i] = string(p)
		}
		f, style := c15RenderLines(r, lines, func(e string) string { return c15FlipCase(r, e) }, true)
		f, style = c15LongLine(r, f, style)
		fc := c15S(f)
		s.File, s.FileStyle = &fc, style
		s.Arg = c15S(fmt.Sprintf("c15_pm_%d.data", serial))
	case "pmFromDataset":
		s.Phrases = c15GenPhrases(r, "dataset", safe)
		s.Dataset = append([]c15S(nil), s.Phrases...)
		if safe {
			lines := make([]string, len(s.Phrases))
			for i, p := range s.Phrases {
				lines[i] = string(p)
			}
			t, _ := c15RenderLines(r, lines, func(e string) string { return c15FlipCase(r, e) }, true)
			tc := c15S(t)
			s.DatasetText = &tc
		}
		s.Arg = c15S(fmt.Sprintf("c15ds%d", serial))
	}
	return s
}

// ---------------------------------------------------------------------------------------------
// @ipMatch family

func c15GenAddr(r c15R, v6 bool) netip.Addr {
	if !v6 {
		oct := func() byte {
			if r.IntN(3) == 0 {
				return byte(r.IntN(256))
			}
			return c15Pick(r, []byte{0, 1, 10, 127, 128, 192, 255})
		}
		return netip.AddrFrom4([4]byte{oct(), oct(), oct(), oct()})
	}
	var b [16]byte
	for i := 0; i < 16; i += 2 {
		var g uint16
		switch r.IntN(6) {
		case 0:
			g = uint16(r.IntN(65536))
		case 1:
			g = 0xffff
		case 2:
			g = 1
		case 3:
			g = 0x8000
		default:
			g = 0
		}
		b[i], b[i+1] = byte(g>>8), byte(g)
	}
	if r.IntN(3) == 0 {
		b[0], b[1] = 0x20, 0x01
	}
	a := netip.AddrFrom16(b)
	if a.Is4In6() {
		b[10] = 0
		a = netip.AddrFrom16(b)
	}
	return a
}

// c15AddrText renders an address in one of several accepted spellings.
func c15AddrText(r c15R, a netip.Addr) string {
	if a.Is4() {
		return a.String()
	}
	switch r.IntN(5) {
	case 4:
		// mixed notation (RFC 4291 2.2.3): the last 32 bits as a dotted quad; valid for any IPv6 address
		b := a.As16()
		parts := make([]string, 6)
		for i := 0; i < 6; i++ {
			parts[i] = strconv.FormatUint(uint64(b[2*i])<<8|uint64(b[2*i+1]), 16)
		}
		return strings.Join(parts, ":") + fmt.Sprintf(":%d.%d.%d.%d", b[12], b[13], b[14], b[15])
	case 0:
		return a.StringExpanded()
	case 1:
		return strings.ToUpper(a.String())
	case 2:
		// expanded without leading zeros
		b := a.As16()
		parts := make([]string, 8)
		for i := 0; i < 8; i++ {
			parts[i] = strconv.FormatUint(uint64(b[2*i])<<8|uint64(b[2*i+1]), 16)
		}
		return strings.Join(parts, ":")
	}
	return a.String()
}

func c15GenIPEntries(r c15R) []string {
	n := 1 + r.IntN(3)
	if r.IntN(5) == 0 {
		n = 4 + r.IntN(5)
	}
	var out []string
	for i := 0; i < n; i++ {
		v6 := r.IntN(10) < 3
		a := c15GenAddr(r, v6)
		txt := c15AddrText(r, a)
		if r.IntN(20) < 7 {
			out = append(out, txt) // bare address
			continue
		}
		var bits int
		if v6 {
			bits = c15Pick(r, []int{0, 1, 16, 32, 47, 48, 63, 64, 65, 96, 112, 120, 126, 127, 128, r.IntN(129)})
		} else {
			bits = c15Pick(r, []int{0, 1, 7, 8, 9, 15, 16, 17, 23, 24, 25, 28, 30, 31, 32, r.IntN(33)})
		}
		if r.IntN(3) != 0 {
			// network address spelled canonically; otherwise host bits stay set
			p := netip.PrefixFrom(a, bits).Masked()
			txt = c15AddrText(r, p.Addr())
		}
		out = append(out, txt+"/"+strconv.Itoa(bits))
	}
	return out
}

// c15AddrAdd adds a signed delta to an address (no wrap: returns ok=false).
func c15AddrStep(a netip.Addr, up bool) (netip.Addr, bool) {
	if up {
		n := a.Next()
		return n, n.IsValid()
	}
	p := a.Prev()
	return p, p.IsValid()
}

func c15LastAddr(p netip.Prefix) netip.Addr {
	b := p.Masked().Addr().AsSlice()
	for i := p.Bits(); i < len(b)*8; i++ {
		b[i/8] |= 1 << (7 - uint(i%8))
	}
	a, _ := netip.AddrFromSlice(b)
	return a
}

var c15BadIPs = []string{"", " ", "1.2.3", "1.2.3.4.5", "256.1.1.1", "1.2.3.4 ", " 1.2.3.4", "1.2.3.4/32", "01.2.3.4", "1.2.3.04", "::g", ":::", "1:2:3:4:5:6:7:8:9", "abc", "1.2.3.4\n",
	"1.2.3.4\x00", "1.2.3.-4", "0x1.2.3.4", "1..3.4", "::1/128", "[::1]", "1.2.3.4:80", "\xff", "10.0.0.0/8", "1,2"}

func c15IPInput(r c15R, entries []string) string {
	if r.IntN(6) == 0 {
		return c15Pick(r, c15BadIPs)
	}
	ps, ok := c15Prefixes(entries)
	if ok && len(ps) > 0 && r.IntN(10) < 7 {
		p := ps[r.IntN(len(ps))]
		first, last := p.Masked().Addr(), c15LastAddr(p)
		var a netip.Addr
		switch r.IntN(6) {
		case 0:
			a = first
		case 1:
			a = last
		case 2:
			if x, ok := c15AddrStep(first, false); ok {
				a = x
			} else {
				a = first
			}
		case 3:
			if x, ok := c15AddrStep(last, true); ok {
				a = x
			} else {
				a = last
			}
		default:
			// random member: keep the prefix bits, randomise the rest
			b := first.AsSlice()
			for i := p.Bits(); i < len(b)*8; i++ {
				if r.IntN(2) == 0 {
					b[i/8] |= 1 << (7 - uint(i%8))
				}
			}
			a, _ = netip.AddrFromSlice(b)
		}
		return c15AddrText(r, a)
	}
	return c15AddrText(r, c15GenAddr(r, r.IntN(10) < 3))
}

func c15GenIP(r c15R, op string, serial int) *c15Spec {
	s := &c15Spec{Op: op}
	s.Entries = c15GenIPEntries(r)
	switch op {
	case "ipMatch":
		sep := ","
		if r.IntN(3) == 0 {
			sep = ", " // the documented example writes a blank after the comma
		}
		s.Arg = c15S(strings.Join(s.Entries, sep))
	case "ipMatchFromFile", "ipMatchF":
		f, style := c15RenderLines(r, s.Entries, func(e string) string { return e }, true)
		f, style = c15LongLine(r, f, style)
		fc := c15S(f)
		s.File, s.FileStyle = &fc, style
		s.Arg = c15S(fmt.Sprintf("c15_ip_%d.data", serial))
	case "ipMatchFromDataset":
		for _, e := range s.Entries {
			s.Dataset = append(s.Dataset, c15S(e))
		}
		t, _ := c15RenderLines(r, s.Entries, func(e string) string { return e }, true)
		tc := c15S(t)
		s.DatasetText = &tc
		s.Arg = c15S(fmt.Sprintf("c15ipds%d", serial))
	}
	return s
}

// ---------------------------------------------------------------------------------------------
// validate family

var c15ByteEdges = []int{0, 1, 9, 10, 13, 31, 32, 64, 126, 127, 128, 129, 254, 255}

func c15GenByteRange(r c15R) *c15Spec {
	s := &c15Spec{Op: "validateByteRange"}
	n := 1 + r.IntN(4)
	if r.IntN(6) == 0 {
		n = 5 + r.IntN(6)
	}
	var parts []string
	val := func() int {
		if r.IntN(3) == 0 {
			return r.IntN(256)
		}
		return c15Pick(r, c15ByteEdges)
	}
	for i := 0; i < n; i++ {
		a := val()
		if r.IntN(2) == 0 {
			s.Ranges = append(s.Ranges, [2]int{a, a})
			parts = append(parts, strconv.Itoa(a))
			continue
		}
		b := val()
		if b < a {
			a, b = b, a
		}
		s.Ranges = append(s.Ranges, [2]int{a, b})
		parts = append(parts, strconv.Itoa(a)+"-"+strconv.Itoa(b))
	}
	sep := ","
	if r.IntN(3) == 0 {
		sep = ", "
	}
	s.Arg = c15S(strings.Join(parts, sep))
	return s
}

func c15ByteRangeInput(r c15R, s *c15Spec) string {
	var allowed, edge []byte
	var table [256]bool
	for _, rg := range s.Ranges {
		for b := rg[0]; b <= rg[1]; b++ {
			table[b] = true
		}
		for _, e := range []int{rg[0] - 1, rg[0], rg[1], rg[1] + 1} {
			if e >= 0 && e <= 255 {
				edge = append(edge, byte(e))
			}
		}
	}
	for b := 0; b < 256; b++ {
		if table[b] {
			allowed = append(allowed, byte(b))
		}
	}
	n := r.IntN(9)
	out := make([]byte, 0, n+1)
	for i := 0; i < n; i++ {
		switch x := r.IntN(10); {
		case x < 7:
			out = append(out, allowed[r.IntN(len(allowed))])
		default:
			out = append(out, edge[r.IntN(len(edge))])
		}
	}
	switch r.IntN(8) {
	case 0: // one arbitrary byte somewhere
		pos := r.IntN(len(out) + 1)
		c := byte(r.IntN(256))
		out = append(out[:pos], append([]byte{c}, out[pos:]...)...)
	case 1:
		out = append(out, c15Pick(r, []byte{0, 255}))
	case 2:
		out = append([]byte{c15Pick(r, []byte{0, 255})}, out...)
	}
	return string(out)
}

var c15URLAtoms = []string{"%", "%4", "%41", "%zz", "%4g", "%g4", "a", "+", "%%", "%25", "0", "f", "G", "%aF", "%Ff", "%0", "% 1", "é", "\xff", "%\x00", "%/0", "%:9", "%@A", "%`a", "%g", "="}

var c15UTF8Atoms = []string{"a", "\x00", "\x7f", "é", "߿", "ࠀ", "￿", "�", "€", "\U00010000", "\U0010ffff", "😀",
	"\xc0\xaf", "\xc1\xbf", "\xe0\x80\xaf", "\xe0\x9f\xbf", "\xf0\x80\x80\xaf", "\xf0\x8f\xbf\xbf", "\xed\xa0\x80", "\xed\xbf\xbf", "\xf4\x90\x80\x80", "\xf5\x80\x80\x80",
	"\x80", "\xbf", "\xc2", "\xe2\x82", "\xf0\x9f\x98", "\xfe", "\xff", "\xf8\x88\x80\x80\x80"}

// ---------------------------------------------------------------------------------------------
// @rx: patterns are built as trees so that a string matching the pattern (ignoring anchors) can be
// produced next to it.

type c15Rx struct {
	pat    string
	sample func(r c15R) string
}

var c15RxLits = []string{"a", "b", "A", "B", "0", "1", " ", "-", "_", "\n", "é", ".", "x", "k", "K", "s", "S", "\u017f", "\u212a"}

func c15RxLeaf(r c15R) c15Rx {
	switch r.IntN(16) {
	case 0:
		return c15Rx{".", func(r c15R) string { return c15Pick(r, []string{"a", "\n", "é", "0", "\xff"}) }}
	case 1:
		return c15Rx{"[ab]", func(r c15R) string { return c15Pick(r, []string{"a", "b"}) }}
	case 2:
		return c15Rx{"[^a]", func(r c15R) string { return c15Pick(r, []string{"b", "\n", "A", "é"}) }}
	case 3:
		return c15Rx{"[a-c0-1]", func(r c15R) string { return c15Pick(r, []string{"a", "b", "c", "0", "1"}) }}
	case 4:
		return c15Rx{`\d`, func(r c15R) string { return c15Pick(r, []string{"0", "1", "7"}) }}
	case 5:
		return c15Rx{`\w`, func(r c15R) string { return c15Pick(r, []string{"a", "B", "_", "1"}) }}
	case 6:
		return c15Rx{`\s`, func(r c15R) string { return c15Pick(r, []string{" ", "\n", "\t"}) }}
	case 7:
		return c15Rx{`\S`, func(r c15R) string { return c15Pick(r, []string{"a", "-", "é"}) }}
	case 8:
		return c15Rx{c15Pick(r, []string{"^", "$", `\b`, `\A`, `\z`, `\B`}), func(r c15R) string { return "" }}
	case 9:
		return c15Rx{"[é-ë]", func(r c15R) string { return c15Pick(r, []string{"é", "ê", "ë"}) }}
	case 10:
		return c15Rx{"[[:alpha:]]", func(r c15R) string { return c15Pick(r, []string{"a", "Z"}) }}
	default:
		n := 1 + r.IntN(3)
		var sb strings.Builder
		for i := 0; i < n; i++ {
			sb.WriteString(c15Pick(r, c15RxLits))
		}
		l := sb.String()
		return c15Rx{regexp.QuoteMeta(l), func(r c15R) string { return l }}
	}
}

func c15RxNode(r c15R, depth int) c15Rx {
	if depth <= 0 || r.IntN(4) == 0 {
		return c15RxLeaf(r)
	}
	switch r.IntN(10) {
	case 0, 1, 2: // concatenation
		n := 2 + r.IntN(3)
		kids := make([]c15Rx, n)
		var sb strings.Builder
		for i := range kids {
			kids[i] = c15RxNode(r, depth-1)
			sb.WriteString(kids[i].pat)
		}
		return c15Rx{sb.String(), func(r c15R) string {
			var o strings.Builder
			for _, k := range kids {
				o.WriteString(k.sample(r))
			}
			return o.String()
		}}
	case 3: // alternation inside a non-capturing group
		a, b := c15RxNode(r, depth-1), c15RxNode(r, depth-1)
		return c15Rx{"(?:" + a.pat + "|" + b.pat + ")", func(r c15R) string {
			if r.IntN(2) == 0 {
				return a.sample(r)
			}
			return b.sample(r)
		}}
	case 4, 5: // capturing group
		a := c15RxNode(r, depth-1)
		open := "("
		if r.IntN(6) == 0 {
			open = "(?P<n" + strconv.Itoa(r.IntN(1000)) + ">"
		}
		if r.IntN(4) == 0 {
			b := c15RxNode(r, depth-1)
			return c15Rx{open + a.pat + "|" + b.pat + ")", func(r c15R) string {
				if r.IntN(2) == 0 {
					return a.sample(r)
				}
				return b.sample(r)
			}}
		}
		return c15Rx{open + a.pat + ")", a.sample}
	case 6, 7: // quantifier
		a := c15RxNode(r, depth-1)
		if strings.HasSuffix(a.pat, "*") || strings.HasSuffix(a.pat, "+") || strings.HasSuffix(a.pat, "?") || strings.HasSuffix(a.pat, "}") {
			a = c15Rx{"(?:" + a.pat + ")", a.sample}
		}
		if len(a.pat) > 1 && !strings.HasPrefix(a.pat, "(") && !strings.HasPrefix(a.pat, "[") && !(strings.HasPrefix(a.pat, `\`) && len(a.pat) == 2) {
			a = c15Rx{"(?:" + a.pat + ")", a.sample}
		}
		q := c15Pick(r, []string{"*", "+", "?", "{1,2}", "{2}", "*?", "+?", "??", "{0,3}"})
		return c15Rx{a.pat + q, func(r c15R) string {
			lo, hi := 0, 2
			switch q {
			case "+", "+?":
				lo = 1
			case "?", "??":
				hi = 1
			case "{1,2}":
				lo = 1
			case "{2}":
				lo = 2
			}
			n := lo + r.IntN(hi-lo+1)
			var o strings.Builder
			for i := 0; i < n; i++ {
				o.WriteString(a.sample(r))
			}
			return o.String()
		}}
	case 8: // scoped flags
		a := c15RxNode(r, depth-1)
		fl := c15Pick(r, []string{"(?i:", "(?-s:", "(?-m:", "(?U:", "(?s:"})
		return c15Rx{fl + a.pat + ")", func(r c15R) string {
			if fl == "(?i:" {
				if r.IntN(3) == 0 {
					return c15UniFlip(r, a.sample(r))
				}
				return c15FlipCase(r, a.sample(r))
			}
			return a.sample(r)
		}}
	default:
		return c15RxLeaf(r)
	}
}

// c15GenRx produces a pattern Go's regexp accepts, valid UTF-8, without byte escapes.
func c15GenRx(r c15R, safe bool) (*c15Spec, func(r c15R) string) {
	if r.IntN(6) == 0 {
		return c15GenRxLiteral(r, safe)
	}
	for {
		var node c15Rx
		if r.IntN(12) == 0 {
			// many capturing groups: exercises the TX.0-9 boundary
			n := 8 + r.IntN(5)
			kids := make([]c15Rx, n)
			var sb strings.Builder
			for i := range kids {
				k := c15RxLeaf(r)
				if k.pat == "^" || k.pat == "$" || strings.HasPrefix(k.pat, `\A`) || strings.HasPrefix(k.pat, `\z`) || strings.HasPrefix(k.pat, `\b`) || strings.HasPrefix(k.pat, `\B`) {
					k = c15Rx{"a", func(c15R) string { return "a" }}
				}
				opt := r.IntN(5) == 0
				kids[i] = k
				sb.WriteString("(" + k.pat + ")")
				if opt {
					sb.WriteString("?")
				}
			}
			node = c15Rx{sb.String(), func(r c15R) string {
				var o strings.Builder
				for _, k := range kids {
					o.WriteString(k.sample(r))
				}
				return o.String()
			}}
		} else {
			node = c15RxNode(r, 1+r.IntN(3))
		}
		pat := node.pat
		if r.IntN(8) == 0 {
			pat = c15Pick(r, []string{"(?i)", "(?-s)", "(?-m)", "(?U)"}) + pat
		}
		if r.IntN(10) == 0 {
			pat = "^" + pat
		}
		if r.IntN(10) == 0 {
			pat = pat + "$"
		}
		if !utf8.ValidString(pat) || len(pat) > 200 || pat == "" {
			continue
		}
		if safe && (!c15TextSafe(pat) || strings.TrimSpace(pat) != pat) {
			continue
		}
		if c15Regexp(pat) == nil {
			continue
		}
		return &c15Spec{Op: "rx", Arg: c15S(pat), Pattern: pat, Capture: r.IntN(2) == 0, Prefilter: r.IntN(2) == 0}, node.sample
	}
}

var c15RxLitLetters = []string{"a", "b", "d", "e", "k", "K", "s", "S", "k", "s", "o", "p", "t", "i", "I", "1", "-", "/", "é", "É", "ß", "\u017f", "\u212a", "ω", "\u2126", "\u2c65", "ж"}

// c15GenRxLiteral: patterns that are one literal, anchored and/or case-insensitive, written in the
// ways rule sets write them ((?i)^desk$, ^(?i:ok)$, (?i)^(post)$, \Aget\z, (?i)sleep ...). Such
// patterns are the ones a matcher may decide without its regexp engine (comparison, length check,
// required substring), so RE2's reading of them - Unicode simple folding under (?i): k/K/U+212A,
// s/S/U+017F; "$" before a final newline under (?m) - is probed on its own.
func c15GenRxLiteral(r c15R, safe bool) (*c15Spec, func(r c15R) string) {
	for {
		lit := c15FromAtoms(r, c15RxLitLetters, 1, 5)
		if r.IntN(3) == 0 {
			lit = c15Pick(r, []string{"desk", "ok", "post", "sleep", "KS", "sk", "Ask", "k", "s", "risk-1", "kiss"})
		}
		q := regexp.QuoteMeta(lit)
		var pat string
		switch r.IntN(16) {
		case 0:
			pat = "^" + q + "$"
		case 1, 2, 3:
			pat = "(?i)^" + q + "$"
		case 4, 5:
			pat = "^(?i:" + q + ")$"
		case 6:
			pat = "(?i)^(" + q + ")$"
		case 7:
			pat = "(^" + q + "$)"
		case 8:
			pat = "(?i)(^" + q + "$)"
		case 9:
			pat = `\A` + q + `\z`
		case 10:
			pat = `(?i)\A` + q + `\z`
		case 11:
			pat = "(?i)" + q
		case 12:
			pat = "(?i)^" + q
		case 13:
			pat = "(?i)" + q + "$"
		case 14:
			pat = "^(?i)" + q + "$"
		default:
			pat = "(?i:^" + q + "$)"
		}
		if safe && (!c15TextSafe(pat) || strings.TrimSpace(pat) != pat) {
			continue
		}
		if c15Regexp(pat) == nil {
			continue
		}
		l := c15S(lit)
		return &c15Spec{Op: "rx", Arg: c15S(pat), Pattern: pat, Literal: &l, Capture: r.IntN(2) == 0, Prefilter: r.IntN(4) != 0}, func(c15R) string { return lit }
	}
}

func c15RxInput(r c15R, sample func(r c15R) string) string {
	noise := []string{"a", "b", "A", "B", "0", "1", " ", "-", "\n", "é", "x", "\xff", "_"}
	switch x := r.IntN(13); {
	case x == 10: // equal to a sample under Unicode simple folding
		return c15UniFlip(r, sample(r))
	case x == 11:
		return c15FromAtoms(r, noise, 0, 1) + c15UniFlip(r, c15FlipCase(r, sample(r))) + c15FromAtoms(r, noise, 0, 1)
	case x == 12: // a final newline: "$" matches before it under the default (?m)
		return sample(r) + "\n"
	case x < 3:
		return sample(r)
	case x < 6:
		return c15FromAtoms(r, noise, 0, 3) + sample(r) + c15FromAtoms(r, noise, 0, 3)
	case x < 7:
		s := sample(r)
		if len(s) > 0 {
			return s[:len(s)-1]
		}
		return s
	case x < 8:
		return c15FlipCase(r, sample(r))
	case x < 9:
		return sample(r) + "\n" + sample(r)
	default:
		return c15FromAtoms(r, noise, 0, 6)
	}
}

// c15GenRxBinary: literal bytes (some written as \xHH escapes of bytes >= 0x80, which sends the
// pattern to the byte-oriented matcher) and dots.
func c15GenRxBinary(r c15R) *c15Spec {
	for {
		n := 2 + r.IntN(4)
		var toks []c15Tok
		var sb strings.Builder
		high := false
		for i := 0; i < n; i++ {
			switch x := r.IntN(10); {
			case x < 3:
				toks = append(toks, c15Tok{Any: true})
				sb.WriteString(".")
			case x < 7:
				b := 0x80 + r.IntN(0x80)
				toks = append(toks, c15Tok{B: b})
				fmt.Fprintf(&sb, `\x%02x`, b)
				high = true
			default:
				b := int(c15Pick(r, []byte("abAB01")))
				toks = append(toks, c15Tok{B: b})
				sb.WriteByte(byte(b))
			}
		}
		pat := sb.String()
		if !high {
			continue
		}
		// the byte-oriented route is chosen when the decoded escapes are not valid UTF-8; only
		// that region is generated here (valid sequences go to the Unicode matcher, where \xHH
		// denotes a code point and the statement does not pin a byte reading)
		dec := make([]byte, 0, n)
		for _, t := range toks {
			if t.Any {
				dec = append(dec, '.')
			} else {
				dec = append(dec, byte(t.B))
			}
		}
		if utf8.Valid(dec) {
			continue
		}
		return &c15Spec{Op: "rx", Arg: c15S(pat), Pattern: pat, Binary: toks}
	}
}

func c15RxBinaryInput(r c15R, toks []c15Tok) string {
	fill := []byte{'a', 'A', '\n', 0x80, 0xff, 0, 'b', 0xc3}
	mk := func() []byte {
		out := make([]byte, len(toks))
		for i, t := range toks {
			if t.Any {
				out[i] = fill[r.IntN(len(fill))]
			} else {
				out[i] = byte(t.B)
			}
		}
		return out
	}
	b := mk()
	switch r.IntN(6) {
	case 0:
		if len(b) > 0 {
			b[r.IntN(len(b))] ^= 0x01
		}
	case 1:
		b = b[:len(b)-1]
	case 2:
		b = append([]byte{fill[r.IntN(len(fill))]}, b...)
	case 3:
		b = append(b, fill[r.IntN(len(fill))])
	}
	return string(b)
}

// ---------------------------------------------------------------------------------------------
// text safety for the end-to-end form (the text layer itself is C16's subject)

// c15TextSafe reports whether s can be written inside a double-quoted SecRule operator argument
// without relying on any escaping or trimming rule.
func c15TextSafe(s string) bool {
	if s == "" || strings.TrimSpace(s) != s {
		return false
	}
	for i := 0; i < len(s); i++ {
		switch c := s[i]; {
		case c < 0x20 || c == 0x7f:
			return false
		case c == '"' || c == '\\' || c == '`' || c == '\'':
			return false
		}
	}
	// a leading or trailing non-ASCII blank (U+0085, U+00A0 …) would be trimmed by the parser
	return true
}
