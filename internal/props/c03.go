package props

// C03: every piece of request data is visible to rules, decoded once, never dropped.
//
// Round trip against the harness's own encoders (c03_gen.go). Observation: one
// `SecRule <VAR> "@unconditionalMatch"` per variable (what rules see) cross-checked with a
// verifdump snapshot of the collections.

import (
	"bytes"
	"encoding/json"
	"fmt"
	"io"
	"regexp"
	"runtime/debug"
	"sort"
	"strconv"
	"strings"

	coraza "github.com/corazawaf/coraza/v3"
	"github.com/corazawaf/coraza/v3/types"

	"verif/internal/fw"
	"verif/internal/obs"
	"verif/internal/sl"
)

var c03Vars = []string{"ARGS_GET", "ARGS_POST", "ARGS", "ARGS_NAMES", "ARGS_GET_NAMES", "ARGS_POST_NAMES",
	"REQUEST_HEADERS", "REQUEST_HEADERS_NAMES", "REQUEST_COOKIES", "REQUEST_COOKIES_NAMES", "FILES", "FILES_NAMES",
	"FILES_SIZES", "FILES_COMBINED_SIZE", "REQUEST_BODY", "QUERY_STRING", "REQUEST_URI_RAW", "REQUEST_URI",
	"REQUEST_FILENAME", "REQUEST_BASENAME", "XML", "REQBODY_ERROR", "REQBODY_PROCESSOR_ERROR", "URLENCODED_ERROR",
	"MULTIPART_STRICT_ERROR", "INBOUND_DATA_ERROR"}

const c03FirstID = 100

func c03Config(s c03Settings, proc string) string {
	var sb strings.Builder
	sb.WriteString("SecRuleEngine On\n")
	if s.BodyAccess {
		sb.WriteString("SecRequestBodyAccess On\n")
	} else {
		sb.WriteString("SecRequestBodyAccess Off\n")
	}
	if s.ArgLimit > 0 {
		fmt.Fprintf(&sb, "SecArgumentsLimit %d\n", s.ArgLimit)
	}
	if s.BodyLimit > 0 && s.LimitBy != "ctl" {
		fmt.Fprintf(&sb, "SecRequestBodyLimit %d\nSecRequestBodyLimitAction %s\n", s.BodyLimit, s.LimitAction)
	}
	if s.BodyLimit > 0 && s.LimitBy == "ctl" {
		fmt.Fprintf(&sb, "SecRequestBodyLimitAction %s\nSecAction \"id:2,phase:1,pass,nolog,ctl:requestBodyLimit=%d\"\n", s.LimitAction, s.BodyLimit)
	}
	if s.JSONDepth > 0 {
		fmt.Fprintf(&sb, "SecRequestBodyJsonDepthLimit %d\n", s.JSONDepth)
	}
	if s.NoFilesLimit > 0 {
		fmt.Fprintf(&sb, "SecRequestBodyNoFilesLimit %d\n", s.NoFilesLimit)
	}
	if s.UploadFiles > 0 {
		fmt.Fprintf(&sb, "SecUploadFileLimit %d\n", s.UploadFiles)
	}
	if s.InMemoryLimit > 0 {
		fmt.Fprintf(&sb, "SecRequestBodyInMemoryLimit %d\n", s.InMemoryLimit)
	}
	switch s.ProcBy {
	case "ctl":
		fmt.Fprintf(&sb, "SecAction \"id:1,phase:1,pass,nolog,ctl:requestBodyProcessor=%s\"\n", proc)
	case "recommended-rule":
		// the two Content-Type rules of coraza.conf-recommended
		sb.WriteString("SecRule REQUEST_HEADERS:Content-Type \"^(?:application(?:/soap\\+|/)|text/)xml\" \"id:200000,phase:1,t:none,t:lowercase,pass,nolog,ctl:requestBodyProcessor=XML\"\n")
		sb.WriteString("SecRule REQUEST_HEADERS:Content-Type \"^application/json\" \"id:200001,phase:1,t:none,t:lowercase,pass,nolog,ctl:requestBodyProcessor=JSON\"\n")
	}
	sb.WriteString("SecAction \"id:99,phase:2,pass,nolog,verifdump:p2\"\n")
	for i, v := range c03Vars {
		fmt.Fprintf(&sb, "SecRule %s \"@unconditionalMatch\" \"id:%d,phase:2,pass,nolog\"\n", v, c03FirstID+i)
	}
	return sb.String()
}

var c03ReDouble = regexp.MustCompile(`%[0-9a-fA-F]{2}|\+|&[a-z#][a-zA-Z0-9]*;|\\u[0-9a-fA-F]{4}|\\\\`)

func c03CountDouble(lists ...[]sl.KV) int {
	n := 0
	for _, l := range lists {
		for _, kv := range l {
			if c03ReDouble.MatchString(kv.K) || c03ReDouble.MatchString(kv.V) {
				n++
			}
		}
	}
	return n
}

func c03DistinctFolded(items []sl.KV) int {
	m := map[string]bool{}
	for _, kv := range items {
		m[strings.ToLower(kv.K)] = true
	}
	return len(m)
}

// c03Random generates one case.
func c03Random(g *c03Gen) *c03Case {
	c := &c03Case{Pop: "main"}
	// --- URI
	nseg := 1 + g.r.IntN(3)
	var segs []string
	for i := 0; i < nseg; i++ {
		segs = append(segs, g.pathenc(g.pick(c03Segments)))
	}
	path := "/" + strings.Join(segs, "/")
	c.PathRaw, c.BaseRaw = c03B(path), c03B(segs[len(segs)-1])
	c.Query = g.items(12, "query", nil, nil)
	q := g.urlencPairs(c.Query)
	uri := path
	if q != "" {
		uri += "?" + q
	}
	c.QueryRaw = c03B(q)
	c.URI = c03B(uri)
	if g.chance(0.1) {
		c.URI = c03B(uri + "#" + g.pick([]string{"frag", "a=b", "%41", ""}))
	}
	// --- headers and cookies
	c.Headers = g.headers()
	// --- body carrier
	s := &c.Settings
	s.BodyAccess = !g.chance(0.08)
	s.ArgRel, s.BodyRel = "default", "default"
	var ctype, proc string
	var body []byte
	x := g.r.IntN(100)
	switch {
	case x < 6:
		c.Carrier = "none"
		s.ProcBy = "none"
	case x < 28:
		c.Carrier, proc = "urlencoded", "URLENCODED"
		c.Items = g.items(12, "urlencoded", nil, nil)
		body = []byte(g.urlencPairs(c.Items))
		for _, kv := range c.Items {
			c.ExpPost = append(c.ExpPost, c03Exp{KV: kv})
		}
		c.ExpBody = true
		exact := g.pick([]string{"application/x-www-form-urlencoded", "application/x-www-form-urlencoded", "Application/X-WWW-Form-Urlencoded", "APPLICATION/X-WWW-FORM-URLENCODED"})
		switch y := g.r.IntN(10); {
		case y < 6:
			s.ProcBy, ctype = "content-type", exact
		case y < 8:
			s.ProcBy, ctype = "content-type-params", exact+g.pick([]string{"; charset=UTF-8", ";charset=utf-8", "; charset=\"utf-8\"", " ; charset=iso-8859-1"})
		default:
			s.ProcBy, ctype = "ctl", g.pick([]string{"text/plain", "application/octet-stream", exact})
		}
	case x < 50:
		c.Carrier, proc = "multipart", "MULTIPART"
		c03GenMultipart(g, c, &body, &ctype)
		s.ProcBy = "content-type"
		if g.chance(0.2) {
			s.ProcBy = "ctl"
		}
	case x < 74:
		c.Carrier, proc = "json", "JSON"
		c.Items = g.items(12, "json", c03JSONKey, c03JSONText)
		var root *c03JNode
		y := g.r.IntN(100)
		switch {
		case y < 8:
			c.Pop = "json-duplicate-key"
		case y < 14:
			c.Pop = "json-dot-collision"
		}
		for {
			root = g.jsonTree(c.Items, 0)
			if c.Pop == "main" || root.kind == "obj" {
				break
			}
		}
		var ka, kb *c03JNode
		if c.Pop == "json-duplicate-key" {
			k := "dup"
			if len(root.keys) > 0 && g.chance(0.7) {
				k = root.keys[g.r.IntN(len(root.keys))]
			} else {
				ka = &c03JNode{kind: "str", s: "first"}
				root.keys, root.kids = append(root.keys, k), append(root.kids, ka)
			}
			kb = &c03JNode{kind: "str", s: "second-" + g.pick(c03Values[:8])}
			root.keys, root.kids = append(root.keys, k), append(root.kids, kb)
			for i, kk := range root.keys {
				if kk == k && ka == nil {
					ka = root.kids[i]
				}
			}
		}
		if c.Pop == "json-dot-collision" {
			ka = &c03JNode{kind: "str", s: "dotted"}
			kb = &c03JNode{kind: "str", s: "nested"}
			root.keys, root.kids = append(root.keys, "p.q"), append(root.kids, ka)
			root.keys, root.kids = append(root.keys, "p"), append(root.kids, &c03JNode{kind: "obj", keys: []string{"q"}, kids: []*c03JNode{kb}})
			if g.chance(0.5) {
				n := len(root.keys)
				root.keys[n-1], root.keys[n-2] = root.keys[n-2], root.keys[n-1]
				root.kids[n-1], root.kids[n-2] = root.kids[n-2], root.kids[n-1]
			}
		}
		var sb strings.Builder
		ends := map[*c03JNode]int{}
		sb.WriteString(g.jws())
		g.jsonEmit(&sb, root, ends)
		sb.WriteString(g.jws())
		body = []byte(sb.String())
		c03JSONFlatten(root, "json", ends, &c.ExpPost, &c.PostExtra)
		if ka != nil && ka.kind != "obj" && ka.kind != "arr" {
			for _, e := range c.ExpPost {
				if e.End == ends[ka] || e.End == ends[kb] {
					c.Collide = append(c.Collide, e.KV)
				}
			}
		}
		if c.Pop != "main" && len(c.Collide) != 2 {
			// the duplicated key held a container: not the labelled shape, keep it out of every population
			return nil
		}
		ctype = g.pick([]string{"application/json", "application/json; charset=utf-8", "Application/JSON"})
		s.ProcBy = g.pick([]string{"ctl", "recommended-rule"})
	case x < 92:
		c.Carrier, proc = "xml", "XML"
		c.Items = g.items(12, "xml", nil, c03XMLValue)
		var b string
		b, c.ExpText, c.ExpAttr = g.xmlBody(c.Items)
		body = []byte(b)
		ctype = g.pick([]string{"text/xml", "application/xml", "application/soap+xml", "text/xml; charset=utf-8"})
		s.ProcBy = g.pick([]string{"ctl", "recommended-rule"})
	default:
		c.Carrier, proc = "raw", "RAW"
		body = []byte(g.value() + g.randBytes(40))
		if len(body) == 0 {
			body = []byte("x")
		}
		c.ExpBody = true
		ctype = "application/octet-stream"
		s.ProcBy = "ctl"
	}
	// --- malformed carriers
	if c.Pop == "main" && len(body) > 2 && g.chance(0.1) {
		switch c.Carrier {
		case "json":
			switch k := g.pick([]string{"truncated", "trailing-garbage", "leading-garbage"}); k {
			case "truncated":
				c.Trunc = 1 + g.r.IntN(len(body)-1)
				body = body[:c.Trunc]
				c.Pop = "malformed:json-truncated"
			case "trailing-garbage":
				body = append(body, g.pick([]string{"x", "}", ",", "{", "\"a\""})...)
				c.Pop = "malformed:json-trailing-garbage"
			default:
				body = append([]byte(g.pick([]string{"x", "]", ",", "}"})), body...)
				c.Pop = "malformed:json-leading-garbage"
			}
		case "xml":
			switch k := g.pick([]string{"truncated", "mismatched-tag", "illegal-char", "stray-end-tag", "stray-end-tag"}); k {
			case "stray-end-tag":
				// a stray end element in the middle of the document: every item after it is complete in the text,
				// so either an error is reported or everything is visible
				if i := strings.IndexByte(string(body), '>'); i > 0 && strings.HasSuffix(string(body), "</root>") {
					at := i + 1
					if j := strings.Index(string(body[at:]), "><"); j >= 0 && g.r.IntN(2) == 0 {
						at += j + 1
					}
					nb := append([]byte{}, body[:at]...)
					nb = append(nb, "</zz>"...)
					body = append(nb, body[at:]...)
					c.Pop = "malformed:xml-stray-end-tag"
				}
			case "truncated":
				c.Trunc = 1 + g.r.IntN(len(body)-1)
				body = body[:c.Trunc]
				c.Pop = "malformed:xml-truncated"
			case "mismatched-tag":
				if strings.HasSuffix(string(body), "</root>") {
					body = append(body[:len(body)-7], "</toor>"...)
					c.Pop = "malformed:xml-mismatched-tag"
				}
			default:
				if strings.HasSuffix(string(body), "</root>") {
					body = append(body[:len(body)-7], "<q>\x01</q></root>"...)
					c.Pop = "malformed:xml-illegal-char"
				}
			}
		case "multipart":
			switch k := g.pick([]string{"truncated", "no-boundary-param", "wrong-boundary"}); k {
			case "truncated":
				c.Trunc = 1 + g.r.IntN(len(body)-1)
				body = body[:c.Trunc]
				c.Pop = "malformed:multipart-truncated"
			case "no-boundary-param":
				ctype = "multipart/form-data"
				c.Pop = "malformed:multipart-no-boundary-param"
			default:
				ctype = "multipart/form-data; boundary=someOtherBoundary"
				c.Pop = "malformed:multipart-wrong-boundary"
			}
		}
	}
	if c.Carrier != "none" {
		c.HasBody = true
		c.Body = c03B(body)
		c.Headers = append(c.Headers, sl.KV{K: g.pick([]string{"Content-Type", "content-type", "CONTENT-TYPE"}), V: ctype})
	}
	// --- cookies
	nck := g.r.IntN(3)
	for i := 0; i < nck; i++ {
		items := g.items(5, "cookies", c03CookieName, c03CookieValue)
		if len(items) == 0 {
			continue
		}
		c.Cookies = append(c.Cookies, items...)
		c.Headers = append(c.Headers, sl.KV{K: g.pick([]string{"Cookie", "cookie"}), V: g.cookieHeader(items)})
	}
	// --- limits
	if d := c03DistinctFolded(c.Query); d > 0 && g.chance(0.3) {
		switch g.r.IntN(3) {
		case 0:
			s.ArgRel, s.ArgLimit = "above", d+1+g.r.IntN(3)
		case 1:
			s.ArgRel, s.ArgLimit = "at", d
		default:
			if d > 1 {
				s.ArgRel, s.ArgLimit = "below", 1+g.r.IntN(d-1)
			} else {
				s.ArgRel, s.ArgLimit = "at", d
			}
		}
	}
	if n := len(body); c.HasBody && n > 1 && g.chance(0.25) {
		s.LimitAction = g.pick([]string{"Reject", "ProcessPartial"})
		switch g.r.IntN(3) {
		case 0:
			s.BodyRel, s.BodyLimit = "above", n+1+g.r.IntN(10)
		case 1:
			s.BodyRel, s.BodyLimit = "at", n
		default:
			s.BodyRel, s.BodyLimit = "below", 1+g.r.IntN(n-1)
		}
	}
	c.Config = c03Config(*s, proc)
	c.DoubleEnc = c03CountDouble(c.Query, c.Items, c.Cookies)
	return c
}

func c03GenMultipart(g *c03Gen, c *c03Case, body *[]byte, ctype *string) {
	c.Items = g.items(8, "multipart", c03MultipartName, nil)
	var parts []c03Part
	for _, kv := range c.Items {
		parts = append(parts, c03Part{field: kv.K, content: kv.V})
	}
	nf := g.r.IntN(4)
	fileNames := []string{"a.txt", "A.txt", "b.bin", "x y.png", "ü.jpg", "q\"uote.txt", "back\\slash", "semi;colon", "%41.txt", "a+b", "..%2f", "c:\\x\\y.doc", "/etc/passwd", "😀"}
	for i := 0; i < nf; i++ {
		var field string
		for try := 0; try < 20; try++ {
			field = g.name()
			if c03MultipartName(field) {
				break
			}
			field = "f"
		}
		p := c03Part{file: true, field: field, name: g.pick(fileNames), content: g.randBytes(60)}
		if g.chance(0.1) {
			p.content = strings.Repeat(g.randBytes(20)+"x", 50+g.r.IntN(200))
		}
		c.Files = append(c.Files, c03File{Field: c03B(p.field), Name: c03B(p.name), Content: c03B(p.content)})
		parts = append(parts, p)
	}
	g.r.Shuffle(len(parts), func(i, j int) { parts[i], parts[j] = parts[j], parts[i] })
	var bnd string
	for {
		bnd = g.boundary()
		clash := false
		for _, p := range parts {
			if strings.Contains(p.content, bnd) {
				clash = true
			}
		}
		if !clash {
			break
		}
	}
	b, ct, ends := c03MultipartBody(bnd, parts)
	*body, *ctype = b, ct
	sumFiles, sumAll := 0, 0
	for i, p := range parts {
		sumAll += len(p.content)
		if p.file {
			sumFiles += len(p.content)
			c.ExpFiles = append(c.ExpFiles, c03Exp{KV: sl.KV{K: p.field, V: p.name}, End: ends[i]})
			c.ExpSizes = append(c.ExpSizes, c03Exp{KV: sl.KV{K: p.name, V: strconv.Itoa(len(p.content))}, End: ends[i]})
		} else {
			c.ExpPost = append(c.ExpPost, c03Exp{KV: sl.KV{K: p.field, V: p.content}, End: ends[i]})
		}
	}
	c.Combined = []string{strconv.Itoa(sumFiles), strconv.Itoa(sumAll)}
}

// ---- execution -----------------------------------------------------------------------------

type c03Obs struct {
	Vars        map[string][]sl.KV  `json:"vars"`
	Dump        map[string][]string `json:"-"`
	HasDump     bool                `json:"has_dump"`
	Interrupted bool                `json:"interrupted,omitempty"`
	Status      int                 `json:"status,omitempty"`
	Panic       *fw.PanicInfo       `json:"panic,omitempty"`
	ErrVars     map[string]string   `json:"error_vars,omitempty"`
	FeedErr     string              `json:"feed_error,omitempty"` // error returned by WriteRequestBody / ReadRequestBodyFrom
}

var (
	c03WAFs   = map[string]coraza.WAF{}
	c03TxSeq  int
	c03ErrSet = map[string]bool{"REQBODY_ERROR": true, "REQBODY_PROCESSOR_ERROR": true, "URLENCODED_ERROR": true, "MULTIPART_STRICT_ERROR": true, "INBOUND_DATA_ERROR": true}
)

func c03WAF(cfg string) (coraza.WAF, error) {
	if w, ok := c03WAFs[cfg]; ok {
		return w, nil
	}
	if len(c03WAFs) >= 128 {
		for k, w := range c03WAFs {
			sl.CloseWAF(w)
			delete(c03WAFs, k)
		}
	}
	w, err := sl.BuildText(cfg)
	if err != nil {
		return nil, err
	}
	c03WAFs[cfg] = w
	return w, nil
}

func c03Exec(waf coraza.WAF, c *c03Case) *c03Obs {
	o := &c03Obs{Vars: map[string][]sl.KV{}, ErrVars: map[string]string{}}
	c03TxSeq++
	id := "c03-" + strconv.Itoa(c03TxSeq)
	rec := obs.Attach(id)
	defer obs.Detach(id)
	var tx types.Transaction
	o.Panic = fw.Guard(func() {
		tx = waf.NewTransactionWithID(id)
		tx.ProcessConnection("10.0.0.1", 1234, "10.0.0.2", 80)
		tx.ProcessURI(string(c.URI), "POST", "HTTP/1.1")
		for _, h := range c.Headers {
			tx.AddRequestHeader(h.K, h.V)
		}
		if it := tx.ProcessRequestHeaders(); it != nil {
			o.Interrupted, o.Status = true, it.Status
		}
		if c.HasBody && !o.Interrupted {
			body, from := []byte(c.Body), 0
			for _, end := range append(append([]int{}, c.Chunks...), len(body)) {
				if end <= from || end > len(body) {
					continue
				}
				piece := body[from:end]
				from = end
				var it *types.Interruption
				var err error
				switch c.Feed {
				case "readfrom-lenger":
					it, _, err = tx.ReadRequestBodyFrom(bytes.NewReader(piece))
				case "readfrom-stream":
					it, _, err = tx.ReadRequestBodyFrom(struct{ io.Reader }{bytes.NewReader(piece)})
				default:
					it, _, err = tx.WriteRequestBody(piece)
				}
				if err != nil {
					o.FeedErr = err.Error()
				}
				if it != nil {
					o.Interrupted, o.Status = true, it.Status
					break
				}
			}
		}
		if it, _ := tx.ProcessRequestBody(); it != nil {
			o.Interrupted, o.Status = true, it.Status
		}
		if tx.IsInterrupted() {
			o.Interrupted = true
		}
		for _, mr := range tx.MatchedRules() {
			i := mr.Rule().ID() - c03FirstID
			if i < 0 || i >= len(c03Vars) {
				continue
			}
			for _, md := range mr.MatchedDatas() {
				o.Vars[c03Vars[i]] = append(o.Vars[c03Vars[i]], sl.KV{K: md.Key(), V: md.Value()})
			}
		}
		tx.ProcessLogging()
	})
	if tx != nil {
		fw.Guard(func() { tx.Close() })
	}
	if d, ok := rec.Dumps["p2"]; ok {
		o.Dump, o.HasDump = d, true
	}
	for v := range c03ErrSet {
		if l := o.Vars[v]; len(l) == 1 && l[0].V != "" && l[0].V != "0" {
			o.ErrVars[v] = l[0].V
		}
	}
	return o
}

// ---- oracle --------------------------------------------------------------------------------

func c03KVKey(kv sl.KV) string { return kv.K + "\x00" + kv.V }

// c03MSDiff returns exp−got and got−exp as multisets.
func c03MSDiff(exp, got []sl.KV) (missing, extra []sl.KV) {
	m := map[string]int{}
	for _, e := range exp {
		m[c03KVKey(e)]++
	}
	for _, g := range got {
		if m[c03KVKey(g)] > 0 {
			m[c03KVKey(g)]--
		} else {
			extra = append(extra, g)
		}
	}
	for _, e := range exp {
		if m[c03KVKey(e)] > 0 {
			m[c03KVKey(e)]--
			missing = append(missing, e)
		}
	}
	return
}

func c03KVs(es []c03Exp, upTo int) []sl.KV {
	var out []sl.KV
	for _, e := range es {
		if upTo <= 0 || e.End <= upTo {
			out = append(out, e.KV)
		}
	}
	return out
}

func c03ValsOnly(l []sl.KV) []sl.KV {
	out := make([]sl.KV, len(l))
	for i, kv := range l {
		out[i] = sl.KV{V: kv.V}
	}
	return out
}

func c03NamesOf(l []sl.KV) []sl.KV {
	out := make([]sl.KV, len(l))
	for i, kv := range l {
		out[i] = sl.KV{K: kv.K, V: kv.K}
	}
	return out
}

func c03FoldKeys(l []sl.KV, both bool) []sl.KV {
	out := make([]sl.KV, len(l))
	for i, kv := range l {
		out[i] = sl.KV{K: strings.ToLower(kv.K), V: kv.V}
		if both {
			out[i].V = strings.ToLower(kv.V)
		}
	}
	return out
}

// c03EscEquiv reports whether x and raw denote the same byte sequence at exactly one level of
// percent-decoding, unit by unit: a unit is a byte or a valid %XX escape; a unit of raw may
// appear in x as the same byte, as its escape, or (for an escape) as the decoded byte. This
// accepts the raw form, the once-decoded form and a re-escaped form; it rejects a form decoded
// twice, truncated or otherwise altered.
func c03EscEquiv(raw, x string) bool {
	memo := map[[2]int]bool{}
	type unit struct {
		val byte
		n   int
	}
	opts := func(s string, i int) []unit {
		u := []unit{{s[i], 1}}
		if s[i] == '%' && i+2 < len(s) && c03IsHex(s[i+1]) && c03IsHex(s[i+2]) {
			v, _ := strconv.ParseUint(s[i+1:i+3], 16, 8)
			u = append(u, unit{byte(v), 3})
		}
		return u
	}
	var rec func(i, j int) bool
	rec = func(i, j int) bool {
		if i == len(raw) || j == len(x) {
			return i == len(raw) && j == len(x)
		}
		k := [2]int{i, j}
		if v, ok := memo[k]; ok {
			return v
		}
		res := false
		for _, a := range opts(raw, i) {
			for _, b := range opts(x, j) {
				if a.val == b.val && rec(i+a.n, j+b.n) {
					res = true
				}
			}
		}
		memo[k] = res
		return res
	}
	return rec(0, 0)
}

type c03Diff struct {
	Class  string `json:"class"`
	Detail string `json:"detail"`
}

func c03Show(l []sl.KV) string {
	var parts []string
	for i, kv := range l {
		if i == 6 {
			parts = append(parts, "…")
			break
		}
		parts = append(parts, fmt.Sprintf("%q=%q", kv.K, kv.V))
	}
	return "[" + strings.Join(parts, " ") + "]"
}

func c03Kind(missing, extra []sl.KV) string {
	switch {
	case len(missing) > 0 && len(extra) > 0:
		return "altered"
	case len(missing) > 0:
		return "missing"
	}
	return "extra"
}

func c03Single(o *c03Obs, v string) (string, bool) {
	l := o.Vars[v]
	if len(l) != 1 {
		return "", false
	}
	return l[0].V, true
}

// c03Compare judges one execution. It returns the differences that refute the property and
// notes about what was (not) judged.
func c03Compare(c *c03Case, o *c03Obs) (diffs []c03Diff, notes []string) {
	add := func(class, format string, a ...any) {
		diffs = append(diffs, c03Diff{class, fmt.Sprintf(format, a...)})
	}
	note := func(n string) { notes = append(notes, n) }
	anyErr := len(o.ErrVars) > 0
	bodyErr := false
	for _, v := range []string{"REQBODY_ERROR", "REQBODY_PROCESSOR_ERROR", "MULTIPART_STRICT_ERROR", "INBOUND_DATA_ERROR"} {
		if _, ok := o.ErrVars[v]; ok {
			bodyErr = true
		}
	}

	// 1. what rules see equals what the collections hold
	if o.HasDump {
		for _, v := range c03Vars {
			var rv []string
			for _, kv := range o.Vars[v] {
				rv = append(rv, kv.K+"="+kv.V)
			}
			sort.Strings(rv)
			dv := o.Dump[v]
			if strings.Join(rv, "\x00") != strings.Join(dv, "\x00") {
				add("rule-view-differs-from-collection:"+v, "%s: rule saw %q, collection holds %q", v, rv, dv)
			}
		}
	}

	// 2. URI
	uriNoFrag := string(c.URI)
	if i := strings.IndexByte(uriNoFrag, '#'); i >= 0 {
		uriNoFrag = uriNoFrag[:i]
	}
	if v, ok := c03Single(o, "REQUEST_URI_RAW"); !ok || v != string(c.URI) {
		add("uri:REQUEST_URI_RAW", "REQUEST_URI_RAW %q, sent %q", v, c.URI)
	}
	if _, bad := o.ErrVars["URLENCODED_ERROR"]; bad {
		note("uri_parse_error_reported")
	} else {
		if v, ok := c03Single(o, "QUERY_STRING"); !ok || v != string(c.QueryRaw) {
			add("uri:QUERY_STRING", "QUERY_STRING %q, sent %q", v, c.QueryRaw)
		}
		if v, ok := c03Single(o, "REQUEST_URI"); !ok || !c03EscEquiv(uriNoFrag, v) {
			add("uri:REQUEST_URI", "REQUEST_URI %q is neither the raw nor the once-decoded form of %q", v, uriNoFrag)
		}
		if v, ok := c03Single(o, "REQUEST_FILENAME"); !ok || !c03EscEquiv(string(c.PathRaw), v) {
			add("uri:REQUEST_FILENAME", "REQUEST_FILENAME %q is neither the raw nor the once-decoded form of %q", v, c.PathRaw)
		}
		if v, ok := c03Single(o, "REQUEST_BASENAME"); !ok || !c03EscEquiv(string(c.BaseRaw), v) {
			add("uri:REQUEST_BASENAME", "REQUEST_BASENAME %q is neither the raw nor the once-decoded form of %q", v, c.BaseRaw)
		}
		// 3. query arguments
		missing, extra := c03MSDiff(c.Query, o.Vars["ARGS_GET"])
		switch {
		case len(missing) == 0 && len(extra) == 0:
			note("judged:query")
		case len(extra) == 0 && anyErr:
			note("query_drop_reported")
		default:
			cl := "query:ARGS_GET:" + c03Kind(missing, extra)
			if len(extra) == 0 && c.Settings.ArgRel != "default" && c.Settings.ArgRel != "above" {
				cl = "query:dropped-at-arguments-limit-without-error"
			}
			add(cl, "ARGS_GET: missing %s, unexpected %s (SecArgumentsLimit %d, %d distinct names)", c03Show(missing), c03Show(extra), c.Settings.ArgLimit, c03DistinctFolded(c.Query))
		}
	}

	// 4. headers (names case-insensitively, values exactly) and cookies
	if m, e := c03MSDiff(c03FoldKeys(c.Headers, false), c03FoldKeys(o.Vars["REQUEST_HEADERS"], false)); len(m)+len(e) > 0 {
		add("headers:REQUEST_HEADERS:"+c03Kind(m, e), "REQUEST_HEADERS: missing %s, unexpected %s", c03Show(m), c03Show(e))
	} else {
		note("judged:headers")
	}
	if m, e := c03MSDiff(c.Cookies, o.Vars["REQUEST_COOKIES"]); len(m)+len(e) > 0 {
		add("cookies:REQUEST_COOKIES:"+c03Kind(m, e), "REQUEST_COOKIES: missing %s, unexpected %s", c03Show(m), c03Show(e))
	} else {
		note("judged:cookies")
	}

	// 5. derived views must be consistent with their base collections
	derived := func(v string, want []sl.KV, fold bool) {
		got := o.Vars[v]
		if fold {
			want, got = c03FoldKeys(want, true), c03FoldKeys(got, true)
		}
		if m, e := c03MSDiff(want, got); len(m)+len(e) > 0 {
			add("derived:"+v+":"+c03Kind(m, e), "%s: missing %s, unexpected %s relative to its base collection(s)", v, c03Show(m), c03Show(e))
		}
	}
	derived("ARGS", append(append([]sl.KV{}, o.Vars["ARGS_GET"]...), o.Vars["ARGS_POST"]...), false)
	derived("ARGS_GET_NAMES", c03NamesOf(o.Vars["ARGS_GET"]), false)
	derived("ARGS_POST_NAMES", c03NamesOf(o.Vars["ARGS_POST"]), false)
	derived("ARGS_NAMES", c03NamesOf(append(append([]sl.KV{}, o.Vars["ARGS_GET"]...), o.Vars["ARGS_POST"]...)), false)
	derived("REQUEST_HEADERS_NAMES", c03NamesOf(o.Vars["REQUEST_HEADERS"]), true)
	derived("REQUEST_COOKIES_NAMES", c03NamesOf(o.Vars["REQUEST_COOKIES"]), false)

	// 6. body
	switch {
	case !c.HasBody:
		note("no_body")
	case !c.Settings.BodyAccess:
		note("body_access_off")
	case bodyErr:
		note("body_error_reported")
		if c.Pop == "main" && c.Settings.BodyRel != "at" && c.Settings.BodyRel != "below" {
			// a well-formed body within the body limit: the flag comes from an argument dropped
			// at SecArgumentsLimit (REQBODY_ERROR) or is unexplained (counted, never a violation)
			if c.Settings.ArgRel == "at" || c.Settings.ArgRel == "below" {
				note("body_not_judged_because_of_arguments_limit_error")
			} else {
				note("unexplained_error_flag:" + c.Carrier)
			}
		}
	default:
		mal := strings.HasPrefix(c.Pop, "malformed:")
		carrier := c.Carrier
		if mal || strings.HasPrefix(c.Pop, "bound:") {
			carrier = c.Pop // bound:<knob>:<VAR>:missing = an item beyond (or next to) a bound is not represented and no error variable says so
		}
		okBody := true
		set := func(v string, exp, got, tolerated []sl.KV) {
			m, e := c03MSDiff(exp, got)
			if len(tolerated) > 0 {
				_, e = c03MSDiff(tolerated, e)
			}
			if mal {
				e = nil // a malformed carrier may expose fragments; only complete items are owed
			}
			if len(m)+len(e) == 0 {
				return
			}
			okBody = false
			cl := carrier + ":" + v + ":" + c03Kind(m, e)
			if mal {
				cl = c.Pop + ":complete-item-missing-without-error"
			}
			if (c.Pop == "json-duplicate-key" || c.Pop == "json-dot-collision") && len(e) == 0 {
				if mm, _ := c03MSDiff(c.Collide, m); len(mm) == len(c.Collide)-len(m) && len(m) < len(c.Collide) {
					cl = map[string]string{"json-duplicate-key": "json:duplicate-key-silently-merged", "json-dot-collision": "json:dot-collision-silently-merged"}[c.Pop]
				}
			}
			add(cl, "%s (%s body): missing %s, unexpected %s", v, c.Carrier, c03Show(m), c03Show(e))
		}
		upTo := c.Trunc
		switch c.Carrier {
		case "urlencoded", "json", "multipart":
			set("ARGS_POST", c03KVs(c.ExpPost, upTo), o.Vars["ARGS_POST"], c.PostExtra)
		}
		if c.Carrier == "multipart" {
			files := c03KVs(c.ExpFiles, upTo)
			set("FILES", c03ValsOnly(files), c03ValsOnly(o.Vars["FILES"]), nil)
			set("FILES_NAMES", c03ValsOnly(c03NamesOf(files)), c03ValsOnly(o.Vars["FILES_NAMES"]), nil)
			set("FILES_SIZES", c03ValsOnly(c03KVs(c.ExpSizes, upTo)), c03ValsOnly(o.Vars["FILES_SIZES"]), nil)
			if v, ok := c03Single(o, "FILES_COMBINED_SIZE"); !mal && (!ok || (v != c.Combined[0] && v != c.Combined[1])) {
				okBody = false
				add("multipart:FILES_COMBINED_SIZE", "FILES_COMBINED_SIZE %q, expected one of %q", v, c.Combined)
			}
		}
		if c.Carrier == "xml" {
			set("XML", append(c03KVs(c.ExpText, upTo), c03KVs(c.ExpAttr, upTo)...), o.Vars["XML"], nil)
		}
		if c.ExpBody && !mal {
			if v, ok := c03Single(o, "REQUEST_BODY"); !ok || v != string(c.Body) {
				okBody = false
				add(c.Carrier+":REQUEST_BODY", "REQUEST_BODY %q, sent %q", v, c.Body)
			}
		}
		if okBody {
			if mal {
				note("malformed_all_complete_items_visible")
			} else {
				note("judged:" + c.Carrier)
			}
		}
	}
	return
}

func c03Judge(w *fw.W, c *c03Case) {
	waf, err := c03WAF(c.Config)
	if err != nil {
		w.Count("build_errors", 1)
		w.Cover("build_error_samples", err.Error())
		return
	}
	w.Trace(c)
	o := c03Exec(waf, c)
	w.Eval(1)
	w.Count("population:"+c.Pop, 1)
	if strings.HasPrefix(c.Pop, "malformed:") {
		w.Count("malformed_cases", 1)
	}
	w.Count("limit:arguments:"+c.Settings.ArgRel, 1)
	w.Count("limit:body:"+c.Settings.BodyRel, 1)
	w.Count("processor_by:"+c.Settings.ProcBy, 1)
	if o.Panic != nil {
		w.Violation("panic:"+o.Panic.Frame, "recover", c, nil, o.Panic, o.Panic.Value)
		return
	}
	for v := range o.ErrVars {
		w.Count("error_var:"+v, 1)
	}
	if c.Bound != nil {
		b := c.Bound
		w.Count("bound_cases", 1)
		w.Cover("bound_cells", strings.Join([]string{b.Knob, b.Rel, b.Pos, b.Follow, b.Kinds, "level" + strconv.Itoa(b.Level), c.Carrier, c.Feed, c.Settings.LimitAction, c.Settings.LimitBy}, "|"))
		w.Count(c.Pop+":pos:"+b.Pos, 1)
		if b.Follow != "" {
			w.Count(c.Pop+":follow:"+b.Follow, 1)
		}
		if o.Interrupted {
			w.Count(c.Pop+":"+b.Rel+":interrupted", 1)
		}
	}
	if o.Interrupted {
		w.Count("interrupted", 1)
		w.Count("interrupted:status:"+strconv.Itoa(o.Status), 1)
		if !(c.Settings.LimitAction == "Reject" && c.Settings.BodyRel != "above") {
			w.Count("interrupted_unexpectedly", 1)
		}
		return
	}
	diffs, notes := c03Compare(c, o)
	for _, n := range notes {
		w.Count(n, 1)
		if c.Bound != nil && (n == "body_error_reported" || strings.HasPrefix(n, "judged:"+c.Carrier)) {
			// what became of the probe: reported (an error variable is set) or judged (no error variable: every item was owed)
			w.Count(c.Pop+":"+c.Bound.Rel+":"+strings.SplitN(n, ":", 2)[0], 1)
			if c.Bound.Knob == "json-depth" && c.Settings.JSONDepth == 0 {
				w.Count(c.Pop+"-default:"+c.Bound.Rel+":"+strings.SplitN(n, ":", 2)[0], 1)
			}
		}
	}
	nItems := len(c.Query) + len(c.Headers) + len(c.Cookies) + len(c.ExpPost) + len(c.ExpFiles) + len(c.ExpText) + len(c.ExpAttr)
	w.Count("items_encoded", nItems)
	w.Count("double_encoding_items", c.DoubleEnc)
	nObs := 0
	for _, v := range []string{"ARGS_GET", "ARGS_POST", "REQUEST_HEADERS", "REQUEST_COOKIES", "FILES", "XML"} {
		nObs += len(o.Vars[v])
	}
	w.Count("items_observed", nObs)
	if len(diffs) > 0 {
		var all []string
		for _, d := range diffs {
			all = append(all, d.Class+": "+d.Detail)
		}
		w.Violation(diffs[0].Class, "round-trip", c, map[string]any{"classes": diffs}, o, strings.Join(all, "\n"))
		return
	}
	if nItems > 0 && nObs > 0 {
		w.Nontrivial(fw.Hash(string(c.URI)) ^ fw.Hash(c.Headers) ^ fw.Hash(string(c.Body)) ^ fw.Hash(c.Config))
	}
	if w.WantSample() && c.HasBody && len(c.Query) > 0 && len(c.Body) < 400 {
		w.Sample(c)
	}
}

// c03Witnesses are fixed cases run on every execution of the check: the witnesses of the two
// labelled JSON populations and regression witnesses of the repaired defects.
func c03Witnesses() []*c03Case {
	base := func(carrier, proc, procBy, ctype, body string) *c03Case {
		c := &c03Case{Pop: "main", URI: "/w", PathRaw: "/w", BaseRaw: "w", Carrier: carrier, HasBody: body != "", Body: c03B(body)}
		c.Settings = c03Settings{BodyAccess: true, ProcBy: procBy, ArgRel: "default", BodyRel: "default"}
		if ctype != "" {
			c.Headers = []sl.KV{{K: "Content-Type", V: ctype}}
		}
		c.Config = c03Config(c.Settings, proc)
		return c
	}
	exp := func(kvs ...string) []c03Exp {
		var out []c03Exp
		for i := 0; i+1 < len(kvs); i += 2 {
			out = append(out, c03Exp{KV: sl.KV{K: kvs[i], V: kvs[i+1]}})
		}
		return out
	}
	var out []*c03Case
	c := base("json", "JSON", "ctl", "application/json", `{"a":"1","a":"2"}`)
	c.Pop, c.ExpPost = "json-duplicate-key", exp("json.a", "1", "json.a", "2")
	c.Collide = c03KVs(c.ExpPost, 0)
	out = append(out, c)
	c = base("json", "JSON", "ctl", "application/json", `{"a.b":"1","a":{"b":"2"}}`)
	c.Pop, c.ExpPost = "json-dot-collision", exp("json.a.b", "1", "json.a.b", "2")
	c.Collide = c03KVs(c.ExpPost, 0)
	out = append(out, c)
	c = base("json", "JSON", "ctl", "application/json", `{"A":"1","a":"2"}`)
	c.ExpPost = exp("json.A", "1", "json.a", "2")
	out = append(out, c)
	c = base("urlencoded", "URLENCODED", "content-type", "application/x-www-form-urlencoded", `A=1&a=2`)
	c.ExpPost, c.ExpBody = exp("A", "1", "a", "2"), true
	out = append(out, c)
	c = base("urlencoded", "URLENCODED", "content-type-params", "application/x-www-form-urlencoded; charset=UTF-8", `a=%2541`)
	c.ExpPost, c.ExpBody = exp("a", "%41"), true
	out = append(out, c)
	c = base("none", "", "none", "", "")
	c.URI, c.QueryRaw = "/w?a=1&b=2&c=3", "a=1&b=2&c=3"
	c.Query = c03KVs(exp("a", "1", "b", "2", "c", "3"), 0)
	c.Settings.ArgLimit, c.Settings.ArgRel = 2, "below"
	c.Config = c03Config(c.Settings, "")
	out = append(out, c)
	{
		parts := []c03Part{{file: true, field: "f1", name: "same.txt", content: "12345"}, {file: true, field: "f2", name: "same.txt", content: "1234567"}, {field: "last", content: "v"}}
		b, ct, _ := c03MultipartBody("witnessBoundary", parts)
		c = base("multipart", "MULTIPART", "content-type", ct, string(b))
		c.ExpPost = exp("last", "v")
		c.ExpFiles = exp("f1", "same.txt", "f2", "same.txt")
		c.ExpSizes = exp("same.txt", "5", "same.txt", "7")
		c.Combined = []string{"12", "13"}
		out = append(out, c)
	}
	// a subtree beyond SecRequestBodyJsonDepthLimit followed by well-formed containers: the values
	// below the bound are not in ARGS_POST, so REQBODY_ERROR has to say so wherever the subtree stands
	for _, b := range []struct {
		limit, depth int
		pos, follow  string
		body         string
		kvs          []string
		lengths      []string // array-length entries (tolerated extras)
	}{
		{3, 4, "first", "obj", `{"a":{"b":{"c":{"d":"attack"}}},"z":{"k":"v"}}`, []string{"json.a.b.c.d", "attack", "json.z.k", "v"}, nil},
		{3, 4, "first", "arr", `{"a":{"b":{"c":{"d":"attack"}}},"z":["v"]}`, []string{"json.a.b.c.d", "attack", "json.z.0", "v"}, []string{"json.z", "1"}},
		{3, 4, "first", "arr", `[[[["attack"]]],[1]]`, []string{"json.0.0.0.0", "attack", "json.1.0", "1"}, []string{"json", "2", "json.0", "1", "json.0.0", "1", "json.0.0.0", "1", "json.1", "1"}},
		{3, 4, "first", "empty", `{"a":{"b":{"c":{"d":"attack"}}},"z":{}}`, []string{"json.a.b.c.d", "attack"}, nil},
		{2, 3, "middle", "obj", `{"p":"1","w":{"a":{"b":"attack"},"y":{"k":"v"}},"q":"2"}`, []string{"json.p", "1", "json.w.a.b", "attack", "json.w.y.k", "v", "json.q", "2"}, nil},
		{3, 4, "last", "none", `{"z":{"k":"v"},"a":{"b":{"c":{"d":"attack"}}}}`, []string{"json.a.b.c.d", "attack", "json.z.k", "v"}, nil},
		{4, 4, "first", "obj", `{"a":{"b":{"c":{"d":"fine"}}},"z":{"k":"v"}}`, []string{"json.a.b.c.d", "fine", "json.z.k", "v"}, nil},
	} {
		c = base("json", "JSON", "ctl", "application/json", b.body)
		c.Pop, c.ExpPost = "bound:json-depth", exp(b.kvs...)
		c.PostExtra = c03KVs(exp(b.lengths...), 0)
		rel := map[int]string{-1: "below", 0: "at", 1: "above1"}[b.depth-b.limit]
		c.Settings.JSONDepth = b.limit
		c.Bound = &c03Bound{Knob: "json-depth", Rel: rel, Pos: b.pos, Follow: b.follow, Kinds: "witness", Limit: b.limit, Size: b.depth}
		c.Config = c03Config(c.Settings, "JSON")
		out = append(out, c)
	}
	return out
}

func init() {
	fw.Register(&fw.Prop{
		ID: "C03", Level: "exploration",
		Rule: "each case is one transaction: a generated URI (1-3 path segments, 0-12 query pairs), 0-5 headers, 0-2 Cookie headers and one body carrier (none, urlencoded, multipart with 0-3 files, JSON, XML, raw), all rendered by the harness's own encoders from lists of (name, value) byte strings (small name pool with repeats and case variants, empty names/values, reserved characters, NUL, CR/LF, invalid UTF-8, percent-/entity-/backslash-escape look-alikes), under varied SecRequestBodyAccess, processor selection (content type, content type with parameters, ctl, the recommended Content-Type rules), SecArgumentsLimit and SecRequestBodyLimit relations; 10% of JSON/XML/multipart bodies are malformed. Observed through one SecRule <VAR> \"@unconditionalMatch\" per variable and a verifdump snapshot. A second, fixed list of cases per batch (the bound:<knob> populations, c03_bounds.go) probes every knob that bounds what the request-body path accepts - SecRequestBodyJsonDepthLimit (7 values and the default 1024), SecRequestBodyLimit and ctl:requestBodyLimit with both limit actions, SecArgumentsLimit against body arguments, SecRequestBodyNoFilesLimit, SecUploadFileLimit, SecRequestBodyInMemoryLimit, mime/multipart's 10000 header lines per part, and XML nesting (unbounded) - below, exactly at, one above and far above the bound, with the exceeding element at every position (only/first/middle/last member, under 0-2 wrapper containers; limit inside / at the end of the first, a middle, the last item; heavy part first/middle/last), followed by siblings of every kind (scalar, object, array, empty container, mixed), nests of objects, arrays and both, the body handed over in one piece or in pieces split at/before/after the limit through WriteRequestBody or ReadRequestBodyFrom (with and without Len()); the factor combinations are enumerated (a mixed-radix walk, disjoint slices per batch), the PRNG fills in names, values and white space; the same oracle applies: an item that is not represented in the collections must be excused by an error variable or an interruption. A case is non-trivial when at least one encoded item was read back through a rule and every judged variable equalled the encoded list; distinct by hash of (URI, headers, body, configuration).",
		Assumptions: []string{
			"decoding rules are those of DESIGN.md Appendix A; constructs with two defensible readings are not generated (';' as separator, names without '=', empty header/cookie names, CR/LF/NUL in header and cookie values, control characters in multipart parameter names, invalid UTF-8 in JSON, XML values with surrounding white space or illegal characters, '/' or '\\' inside a path segment, trailing slash)",
			"REQUEST_URI, REQUEST_FILENAME and REQUEST_BASENAME are accepted in raw, once-decoded or re-escaped form; anything else (decoded twice, truncated) is a violation",
			"a set error variable (REQBODY_ERROR, REQBODY_PROCESSOR_ERROR, URLENCODED_ERROR, MULTIPART_STRICT_ERROR, INBOUND_DATA_ERROR) or an interruption excuses missing data but a body is then not judged at all; required counters make sure every carrier was judged without error flags",
			"JSON array-length entries (json.<path> = n) are tolerated extras; FILES_COMBINED_SIZE may or may not include field sizes; FILES, FILES_NAMES and FILES_SIZES are compared by value only",
			"JSON objects with duplicate keys or keys colliding after flattening are a separate labelled population (known findings json:duplicate-key-silently-merged, json:dot-collision-silently-merged)",
			"for truncated bodies only items completely contained in the prefix are owed",
			"bound populations: the relation labels (below/at/above1/far) compare the measured quantity (nesting depth counting the root container, body bytes, distinct body argument names, non-file bytes, files, header lines) with the configured value; they only name counters - the oracle never assumes where exactly a bound lies, only that what is not represented is announced. An error variable on an input within the bound is not a violation of this property",
			"SecRequestBodyNoFilesLimit and SecUploadFileLimit are parsed but not enforced and SecArgumentsLimit is not applied to body arguments (nothing is dropped, so nothing has to be announced); they stay in the population so that an enforcement added later is judged"},
		Required: []string{"judged:query", "judged:headers", "judged:cookies", "judged:urlencoded", "judged:multipart", "judged:json", "judged:xml", "judged:raw",
			"double_encoding_items", "malformed_cases", "body_error_reported", "limit:arguments:below", "limit:body:below",
			// bound populations: within the bound everything was judged without an error flag, beyond it the flag was seen
			"bound:json-depth:below:judged", "bound:json-depth:at:judged", "bound:json-depth:above1:body_error_reported", "bound:json-depth:far:body_error_reported",
			"bound:json-depth-default:at:judged", "bound:json-depth-default:above1:body_error_reported",
			"bound:json-depth:pos:first", "bound:json-depth:pos:middle", "bound:json-depth:pos:last", "bound:json-depth:pos:only",
			"bound:json-depth:follow:scalar", "bound:json-depth:follow:obj", "bound:json-depth:follow:arr", "bound:json-depth:follow:empty", "bound:json-depth:follow:mixed",
			"bound:body-limit:below:judged", "bound:body-limit:above1:body_error_reported", "bound:body-limit:far:body_error_reported", "bound:body-limit:far:interrupted",
			"bound:arguments-limit-body:below:judged", "bound:nofiles-limit:below:judged", "bound:upload-file-limit:below:judged", "bound:in-memory-limit:far:judged",
			"bound:multipart-part-headers:at:judged", "bound:multipart-part-headers:above1:body_error_reported", "bound:xml-depth:unbounded:judged"},
		Plan: func(tier fw.Tier, seed int64) []fw.Batch {
			n := 16
			if tier == fw.Thorough {
				n = 64
			}
			var bs []fw.Batch
			for i := 0; i < n; i++ {
				bs = append(bs, fw.Batch{Index: i, Flavour: "plain", TimeoutS: 3600})
			}
			return bs
		},
		Run: func(w *fw.W, b fw.Batch) {
			n := 3000
			if w.Tier == fw.Thorough {
				n = 25000
			}
			debug.SetGCPercent(400)
			if b.Index == 0 {
				for _, c := range c03Witnesses() {
					w.Count("witnesses", 1)
					for i := 0; i < 20; i++ { // map iteration order decides which value survives
						c03Judge(w, c)
					}
				}
			}
			g := &c03Gen{r: w.Rng, avoided: map[string]int{}}
			for i := 0; i < n; i++ {
				c := c03Random(g)
				if c == nil {
					w.Count("ambiguous_skipped", 1)
					continue
				}
				c03Judge(w, c)
			}
			// the bound populations (c03_bounds.go), after the random cases so that those are what they were
			for _, c := range c03BoundCases(g, b.Index, w.Tier == fw.Thorough) {
				c03Judge(w, c)
			}
			for k, v := range g.avoided {
				w.Count("avoided:"+k, v)
			}
		},
		Replay: func(w *fw.W, raw json.RawMessage) {
			var c c03Case
			if err := json.Unmarshal(raw, &c); err != nil {
				return
			}
			for i := 0; i < 20; i++ {
				c03Judge(w, &c)
			}
		},
	})
}
