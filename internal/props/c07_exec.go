package props

import (
	"bytes"
	"encoding/hex"
	"encoding/json"
	"fmt"
	"io"
	"os"
	"runtime"
	"strconv"
	"strings"
	"sync/atomic"
	"syscall"
	"testing/fstest"
	"time"
	"unicode/utf8"

	coraza "github.com/corazawaf/coraza/v3"
	"github.com/corazawaf/coraza/v3/debuglog"
	"github.com/corazawaf/coraza/v3/experimental"
	"github.com/corazawaf/coraza/v3/experimental/verifapi"
	"github.com/corazawaf/coraza/v3/types"

	"verif/internal/fw"
)

// ---------------------------------------------------------------------------------------------
// byte-exact strings in JSON

// c07B is a string that survives JSON byte-exactly: valid UTF-8 as a JSON string, anything else
// as {"x":"<hex>"}.
type c07B string

func (b c07B) MarshalJSON() ([]byte, error) {
	if utf8.ValidString(string(b)) {
		return json.Marshal(string(b))
	}
	return json.Marshal(map[string]string{"x": hex.EncodeToString([]byte(b))})
}

func (b *c07B) UnmarshalJSON(data []byte) error {
	if len(data) > 0 && data[0] == '{' {
		var m map[string]string
		if err := json.Unmarshal(data, &m); err != nil {
			return err
		}
		raw, err := hex.DecodeString(m["x"])
		if err != nil {
			return err
		}
		*b = c07B(raw)
		return nil
	}
	var s string
	if err := json.Unmarshal(data, &s); err != nil {
		return err
	}
	*b = c07B(s)
	return nil
}

type c07KV struct {
	K c07B `json:"k"`
	V c07B `json:"v"`
}

// c07Req is one generated request/response pair (byte level).
type c07Req struct {
	Client     c07B    `json:"client"`
	CPort      int     `json:"cport"`
	Server     c07B    `json:"server"`
	SPort      int     `json:"sport"`
	Method     c07B    `json:"method"`
	URI        c07B    `json:"uri"`
	Proto      c07B    `json:"proto"`
	ServerName c07B    `json:"server_name,omitempty"`
	Headers    []c07KV `json:"headers,omitempty"`
	Get        []c07KV `json:"get,omitempty"`
	Post       []c07KV `json:"post,omitempty"`
	PathArgs   []c07KV `json:"path_args,omitempty"`
	RespArgs   []c07KV `json:"resp_args,omitempty"`
	BodyKind   string  `json:"body_kind,omitempty"`
	Body       c07B    `json:"body,omitempty"`
	Chunks     []int   `json:"chunks,omitempty"` // chunk sizes used by WriteRequestBody / WriteResponseBody
	Status     int     `json:"status"`
	RespProto  c07B    `json:"resp_proto"`
	RespHdrs   []c07KV `json:"resp_headers,omitempty"`
	RespKind   string  `json:"resp_kind,omitempty"`
	RespBody   c07B    `json:"resp_body,omitempty"`
}

// c07Case is what is judged: one configuration (text + data files), optionally one transaction
// script. Seq is a string of step letters (see c07Steps).
type c07Case struct {
	Config   c07B            `json:"config"`
	Files    map[string]c07B `json:"files,omitempty"`
	LogLevel int             `json:"log_level"`
	Origin   string          `json:"origin,omitempty"` // which generator produced the configuration
	Req      *c07Req         `json:"req,omitempty"`
	Seq      string          `json:"seq,omitempty"`
	// Pred is set only on "history:" violations: the configuration compiled just before in the same process.
	Pred *c07B `json:"pred,omitempty"`
}

// Step letters of a call sequence. Every sequence ends with 'z' (Close); nothing but a further Close
// ('zz', feature-interaction population) is called on a transaction after Close.
const c07Steps = "" +
	"c ProcessConnection; u ProcessURI; n SetServerName; r AddRequestHeader*; a Add{Get,Post,Path}RequestArgument*; " +
	"1 ProcessRequestHeaders; w WriteRequestBody (chunked); W ReadRequestBodyFrom; 2 ProcessRequestBody; " +
	"R AddResponseHeader*; A AddResponseArgument*; 3 ProcessResponseHeaders; p Is* predicates; x WriteResponseBody (chunked); " +
	"X ReadResponseBodyFrom; 4 ProcessResponseBody; 5 ProcessLogging; q accessors (Interruption, MatchedRules incl. ErrorLog/AuditLog, body readers); z Close"

// ---------------------------------------------------------------------------------------------
// CPU accounting

const c07CPUBound = 20 * time.Second

func c07ThreadCPU() time.Duration {
	var ru syscall.Rusage
	// RUSAGE_THREAD = 1 (Linux): valid because the executing goroutine is locked to its thread.
	if err := syscall.Getrusage(1, &ru); err != nil {
		return 0
	}
	return time.Duration(ru.Utime.Nano() + ru.Stime.Nano())
}

// c07TaskCPU reads utime+stime of one thread of this process from /proc (used by the watchdog
// goroutine, which cannot call getrusage for another thread).
func c07TaskCPU(tid int) time.Duration {
	data, err := os.ReadFile("/proc/self/task/" + strconv.Itoa(tid) + "/stat")
	if err != nil {
		return 0
	}
	s := string(data)
	i := strings.LastIndexByte(s, ')')
	if i < 0 {
		return 0
	}
	f := strings.Fields(s[i+1:])
	// after "(comm)": state is f[0]; utime, stime are fields 14, 15 of the full line → f[11], f[12]
	if len(f) < 13 {
		return 0
	}
	ut, _ := strconv.ParseInt(f[11], 10, 64)
	st, _ := strconv.ParseInt(f[12], 10, 64)
	return time.Duration(ut+st) * (time.Second / 100)
}

type c07Running struct {
	op    string
	c     *c07Case
	start time.Duration // thread CPU when the call began
	seq   uint64
}

// c07X executes cases under the monitors.
type c07X struct {
	w       *fw.W
	tid     int
	running atomic.Pointer[c07Running]
	seq     uint64
	lastCfg *c07B
	calls   int64
	tainted bool // a panic was recovered on the current WAF: do not keep using it
	// keepCache (replay of a history: witness only) leaves the predecessor's pattern-cache entries in place.
	keepCache bool
	wallByOp  map[string]time.Duration
	// obs (feature-interaction population) is called on every transaction just before its first Close, under
	// the same guard as the accessor step: it reads MatchedRules / IsInterrupted for the coverage bookkeeping.
	obs    func(tx types.Transaction)
	panics int // panics reported so far
}

func c07NewX(w *fw.W) *c07X {
	runtime.LockOSThread()
	x := &c07X{w: w, tid: syscall.Gettid(), wallByOp: map[string]time.Duration{}}
	// Raise the fd limit: WAF.Close does not close debug/audit log files, so long batches accumulate them.
	var rl syscall.Rlimit
	if syscall.Getrlimit(syscall.RLIMIT_NOFILE, &rl) == nil && rl.Cur < rl.Max {
		rl.Cur = rl.Max
		syscall.Setrlimit(syscall.RLIMIT_NOFILE, &rl)
	}
	go x.watchdog()
	return x
}

// watchdog turns a call that never returns into a violation: the decision is made on the CPU time
// the executing thread has consumed inside the call (not on wall-clock time; the sleep is only the
// polling cadence).
func (x *c07X) watchdog() {
	for {
		time.Sleep(2 * time.Second)
		r := x.running.Load()
		if r == nil {
			continue
		}
		used := c07TaskCPU(x.tid) - r.start
		if used > c07CPUBound+5*time.Second {
			if r2 := x.running.Load(); r2 == nil || r2.seq != r.seq {
				continue
			}
			x.w.Count("cpu_bound_exceeded", 1)
			x.w.Violation("cpu:"+r.op+":still-running", "cpu-time-watchdog", r.c, map[string]any{"cpu_bound_s": c07CPUBound.Seconds()},
				map[string]any{"cpu_s_so_far": used.Seconds(), "call": r.op}, "the call had not returned after consuming more than the CPU bound; worker terminated")
			os.Exit(4)
		}
	}
}

func c07PanicKind(v string) string {
	switch {
	case strings.Contains(v, "nil pointer dereference"):
		return "nil-deref"
	case strings.Contains(v, "index out of range"):
		return "index-out-of-range"
	case strings.Contains(v, "slice bounds out of range"):
		return "slice-bounds"
	case strings.Contains(v, "interface conversion"):
		return "type-assertion"
	case strings.Contains(v, "divide by zero"):
		return "divide-by-zero"
	case strings.Contains(v, "nil map"):
		return "nil-map"
	case strings.Contains(v, "makeslice") || strings.Contains(v, "makechan") || strings.Contains(v, "out of memory"):
		return "alloc-size"
	case strings.Contains(v, "negative") && strings.Contains(v, "Repeat"):
		return "negative-repeat"
	case strings.HasPrefix(v, "runtime error"):
		return "runtime-error"
	}
	return "explicit-panic"
}

func c07Class(pi *fw.PanicInfo) string {
	return "panic:" + pi.Frame + ":" + c07PanicKind(pi.Value)
}

// guarded runs one API call under recover() and CPU accounting. It returns the panic, if any.
func (x *c07X) guarded(op string, c *c07Case, f func()) *fw.PanicInfo {
	x.seq++
	wall0 := time.Now() // evidence only (wall_ms_total/<call>); never consulted by an oracle
	t0 := c07ThreadCPU()
	x.running.Store(&c07Running{op: op, c: c, start: t0, seq: x.seq})
	pi := fw.Guard(f)
	x.running.Store(nil)
	dt := c07ThreadCPU() - t0
	x.calls++
	x.wallByOp[op] += time.Since(wall0)
	x.w.Max("cpu_max_us", dt.Microseconds())
	x.w.Max("cpu_max_ms", dt.Milliseconds())
	x.w.Max("cpu_max_us/"+op, dt.Microseconds())
	if dt > c07CPUBound {
		x.w.Count("cpu_bound_exceeded", 1)
		x.w.Violation("cpu:"+op, "cpu-time", c, map[string]any{"cpu_bound_s": c07CPUBound.Seconds()}, map[string]any{"cpu_s": dt.Seconds(), "call": op}, "one API call exceeded the CPU bound")
	}
	return pi
}

func (x *c07X) reportPanic(prefix, op string, c *c07Case, pi *fw.PanicInfo) {
	class := prefix + c07Class(pi)
	x.panics++
	x.w.Count("panics", 1)
	x.w.Count("panics_by_signature/"+class, 1)
	x.w.Violation(class, "recover:"+op, c, "the call returns normally (value or error)", map[string]any{"panic": pi.Value, "call": op, "frame": pi.Frame}, pi.Stack)
}

// scrub empties the process-wide pattern cache: a NewWAF that returned an error or panicked never
// hands out a WAF to Close, so its entries would otherwise stay and make later configurations
// depend on earlier ones (that interference is C13's subject, not this check's).
func c07Scrub() int {
	n := 0
	for _, e := range verifapi.MemoizeSnapshot() {
		for _, o := range e.Owners {
			verifapi.MemoizeRelease(o)
			n++
		}
	}
	return n
}

var c07Discard = debuglog.Default().WithOutput(io.Discard)

func c07Logger(level int) debuglog.Logger {
	if level < 0 || level > 9 {
		level = 3
	}
	return c07Discard.WithLevel(debuglog.Level(level))
}

func c07ErrorCb(mr types.MatchedRule) {
	// what a connector typically does with the callback
	_ = mr.ErrorLog()
}

func (x *c07X) newWAF(c *c07Case) (waf coraza.WAF, err error, pi *fw.PanicInfo) {
	cfg := coraza.NewWAFConfig().WithDebugLogger(c07Logger(c.LogLevel)).WithErrorCallback(c07ErrorCb)
	if len(c.Files) > 0 {
		m := fstest.MapFS{}
		for name, data := range c.Files {
			m[strings.TrimPrefix(name, "/")] = &fstest.MapFile{Data: []byte(data)}
		}
		cfg = cfg.WithRootFS(m)
	}
	cfg = cfg.WithDirectives(strings.ReplaceAll(string(c.Config), c07Scratch, x.w.Scratch))
	pi = x.guarded("NewWAF", c, func() { waf, err = coraza.NewWAF(cfg) })
	return
}

// Build compiles the configuration of a case. ok is false when the configuration was rejected or
// panicked (already reported).
func (x *c07X) Build(c *c07Case) (coraza.WAF, bool) {
	w := x.w
	if !x.keepCache {
		if left := c07Scrub(); left > 0 {
			w.Count("cache_entries_scrubbed", left)
		}
	}
	if w.Tracing() {
		w.Trace(c)
	}
	waf, err, pi := x.newWAF(c)
	w.Eval(1)
	x.tainted = false
	prev := x.lastCfg
	cfgCopy := c.Config
	x.lastCfg = &cfgCopy
	if pi != nil {
		// Is it this configuration alone, or only after its predecessor? Re-compile on an empty cache.
		c07Scrub()
		_, _, pi2 := x.newWAF(c)
		c07Scrub()
		if pi2 == nil {
			hc := *c
			hc.Pred = prev
			x.reportPanic("history:", "NewWAF", &hc, pi)
		} else {
			x.reportPanic("", "NewWAF", c, pi2)
		}
		w.Count("configs_panicked", 1)
		return nil, false
	}
	if err != nil {
		w.Count("configs_rejected", 1)
		return nil, false
	}
	if waf == nil {
		w.Violation("nil-waf-without-error", "return-value", c, "a usable WAF or an error", "nil, nil", "")
		return nil, false
	}
	w.Count("configs_accepted", 1)
	return waf, true
}

func (x *c07X) CloseWAF(waf coraza.WAF, c *c07Case) {
	if cl, ok := waf.(experimental.WAFCloser); ok {
		if pi := x.guarded("WAF.Close", c, func() { cl.Close() }); pi != nil {
			x.reportPanic("", "WAF.Close", c, pi)
		}
	}
}

// chunks splits b according to the recorded chunk sizes (the remainder goes into a last chunk).
func c07Chunks(b []byte, sizes []int) [][]byte {
	var out [][]byte
	for _, n := range sizes {
		if len(b) == 0 {
			break
		}
		if n < 0 {
			n = 0
		}
		if n > len(b) {
			n = len(b)
		}
		out = append(out, b[:n])
		b = b[n:]
	}
	if len(b) > 0 || len(out) == 0 {
		out = append(out, b)
	}
	return out
}

func c07DrainMatched(tx types.Transaction) int {
	n := 0
	for _, mr := range tx.MatchedRules() {
		n++
		_ = mr.Message()
		_ = mr.Data()
		_ = mr.URI()
		_ = mr.TransactionID()
		_ = mr.Disruptive()
		_ = mr.ServerIPAddress()
		_ = mr.ClientIPAddress()
		for _, md := range mr.MatchedDatas() {
			_ = md.Variable().Name()
			_ = md.Key()
			_ = md.Value()
			_ = md.Message()
			_ = md.Data()
			_ = md.ChainLevel()
		}
		if r := mr.Rule(); r != nil {
			_ = r.ID()
			_ = r.File()
			_ = r.Line()
			_ = r.Revision()
			_ = r.Severity().String()
			_ = r.Version()
			_ = r.Tags()
			_ = r.Maturity()
			_ = r.Accuracy()
			_ = r.Operator()
			_ = r.Phase()
			_ = r.Raw()
			_ = r.SecMark()
		}
		_ = mr.AuditLog()
		_ = mr.ErrorLog()
	}
	return n
}

// RunTx pushes one request/response through one call sequence on a WAF. It returns false when a
// panic was recovered (the WAF should then be dropped).
func (x *c07X) RunTx(waf coraza.WAF, c *c07Case) bool {
	w := x.w
	if w.Tracing() {
		w.Trace(c)
	}
	req := c.Req
	var tx types.Transaction
	if pi := x.guarded("NewTransaction", c, func() { tx = waf.NewTransaction() }); pi != nil {
		x.reportPanic("", "NewTransaction", c, pi)
		x.tainted = true
		return false
	}
	w.Eval(1)
	closed := false
	interrupted := false
	matched := 0
	ok := true
	observe := func() {
		if x.obs == nil || !ok {
			return
		}
		if pi := x.guarded("accessors", c, func() { x.obs(tx) }); pi != nil {
			x.reportPanic("", "accessors", c, pi)
			x.tainted = true
			ok = false
		}
	}
	for i := 0; i < len(c.Seq) && ok; i++ {
		step := c.Seq[i]
		if closed && step != 'z' {
			break // nothing but Close is called on a closed transaction
		}
		if step == 'z' && !closed {
			observe()
			if !ok {
				break
			}
		}
		var name string
		var f func()
		switch step {
		case 'c':
			name, f = "ProcessConnection", func() { tx.ProcessConnection(string(req.Client), req.CPort, string(req.Server), req.SPort) }
		case 'u':
			name, f = "ProcessURI", func() { tx.ProcessURI(string(req.URI), string(req.Method), string(req.Proto)) }
		case 'n':
			name, f = "SetServerName", func() { tx.SetServerName(string(req.ServerName)) }
		case 'r':
			name, f = "AddRequestHeader", func() {
				for _, h := range req.Headers {
					tx.AddRequestHeader(string(h.K), string(h.V))
				}
			}
		case 'a':
			name, f = "AddRequestArgument", func() {
				for _, a := range req.Get {
					tx.AddGetRequestArgument(string(a.K), string(a.V))
				}
				for _, a := range req.Post {
					tx.AddPostRequestArgument(string(a.K), string(a.V))
				}
				for _, a := range req.PathArgs {
					tx.AddPathRequestArgument(string(a.K), string(a.V))
				}
			}
		case '1':
			name, f = "ProcessRequestHeaders", func() {
				if it := tx.ProcessRequestHeaders(); it != nil {
					interrupted = true
				}
			}
		case 'w':
			name, f = "WriteRequestBody", func() {
				for _, ch := range c07Chunks([]byte(req.Body), req.Chunks) {
					it, _, _ := tx.WriteRequestBody(ch)
					if it != nil {
						interrupted = true
					}
				}
			}
		case 'W':
			name, f = "ReadRequestBodyFrom", func() {
				it, _, _ := tx.ReadRequestBodyFrom(bytes.NewReader([]byte(req.Body)))
				if it != nil {
					interrupted = true
				}
			}
		case '2':
			name, f = "ProcessRequestBody", func() {
				it, _ := tx.ProcessRequestBody()
				if it != nil {
					interrupted = true
				}
			}
		case 'R':
			name, f = "AddResponseHeader", func() {
				for _, h := range req.RespHdrs {
					tx.AddResponseHeader(string(h.K), string(h.V))
				}
			}
		case 'A':
			name, f = "AddResponseArgument", func() {
				for _, a := range req.RespArgs {
					tx.AddResponseArgument(string(a.K), string(a.V))
				}
			}
		case '3':
			name, f = "ProcessResponseHeaders", func() {
				if it := tx.ProcessResponseHeaders(req.Status, string(req.RespProto)); it != nil {
					interrupted = true
				}
			}
		case 'p':
			name, f = "predicates", func() {
				_ = tx.IsRuleEngineOff()
				_ = tx.IsRequestBodyAccessible()
				_ = tx.IsResponseBodyAccessible()
				_ = tx.IsResponseBodyProcessable()
				_ = tx.IsInterrupted()
				_ = tx.ID()
				_ = tx.DebugLogger()
			}
		case 'x':
			name, f = "WriteResponseBody", func() {
				for _, ch := range c07Chunks([]byte(req.RespBody), req.Chunks) {
					it, _, _ := tx.WriteResponseBody(ch)
					if it != nil {
						interrupted = true
					}
				}
			}
		case 'X':
			name, f = "ReadResponseBodyFrom", func() {
				it, _, _ := tx.ReadResponseBodyFrom(bytes.NewReader([]byte(req.RespBody)))
				if it != nil {
					interrupted = true
				}
			}
		case '4':
			name, f = "ProcessResponseBody", func() {
				it, _ := tx.ProcessResponseBody()
				if it != nil {
					interrupted = true
				}
			}
		case '5':
			name, f = "ProcessLogging", func() { tx.ProcessLogging() }
		case 'q':
			name, f = "accessors", func() {
				if it := tx.Interruption(); it != nil {
					_ = fmt.Sprint(it.RuleID, it.Action, it.Status, it.Data)
				}
				matched = c07DrainMatched(tx)
				if r, err := tx.RequestBodyReader(); err == nil && r != nil {
					io.Copy(io.Discard, r)
				}
				if r, err := tx.ResponseBodyReader(); err == nil && r != nil {
					io.Copy(io.Discard, r)
				}
			}
		case 'z':
			name, f = "Close", func() { tx.Close() }
			closed = true
		default:
			continue
		}
		if pi := x.guarded(name, c, f); pi != nil {
			x.reportPanic("", name, c, pi)
			x.tainted = true
			ok = false
		}
	}
	if !closed {
		// the sequence did not finish (panic) or had no 'z': release the transaction; a panic here
		// after an earlier one is a consequence and is not reported again.
		observe()
		pi := x.guarded("Close", c, func() { tx.Close() })
		if pi != nil && ok {
			x.reportPanic("", "Close", c, pi)
			x.tainted = true
			ok = false
		}
	}
	w.Count("transactions", 1)
	if interrupted {
		w.Count("transactions_interrupted", 1)
	}
	if matched > 0 {
		w.Count("transactions_with_matched_rules", 1)
	}
	return ok
}

func (x *c07X) flushCounters() {
	x.w.Count("calls", int(x.calls))
	x.calls = 0
	for op, d := range x.wallByOp {
		x.w.Count("wall_ms_total/"+op, int(d.Milliseconds()))
		delete(x.wallByOp, op)
	}
}
