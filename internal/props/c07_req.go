package props

import (
	"bytes"
	"fmt"
	"math/rand/v2"
	"mime/multipart"
	"net/textproto"
	"strings"
)

// ---------------------------------------------------------------------------------------------
// byte strings

var c07Atoms = []string{
	"", "a", "A", "ab", "id", "1", "0", "-1", "10", "007", " ", "\t", "a b", "select", "union select 1", "<script>alert(1)</script>", "' or 1=1 --",
	"%", "%4", "%41", "%zz", "%u0041", "%u00", "%u", "\\u00", "\\u0041", "\\x4", "\\x41", "\\", "&#x", "&#x41;", "&#65", "&amp;", "&", "&#",
	"+", "=", ";", ":", ",", "'", "\"", "/", "|", "#", "{", "}", "<", ">", "[", "]", "(", ")", "..", "../", "/./", "//", "\\\\",
	"\x00", "\r", "\n", "\r\n", "\xff", "\xfe\xff", "\xc3\x28", "\xe2\x82", "é", "É", "K", "\u212a", "ſ", "İ", "\ufeff", "\U0001F600",
	"--------", "1.234.567-8", "12345678-5", "123-45-6789", "078051120", "...-....", "kkkkkkkk", "--------k",
	"127.0.0.1", "::1", "10.1.2.3", "300.1.1.1", "1.2.3", "fe80::1%eth0", "1.2.3.4/33",
	"/*", "*/", "/**/", "--", "<!--", "-->", "\\'", "\\\"", "^", "$", "*", "?", ".",
	"{\"a\":1}", "[", "{", "<a>", "</a>", "<a x='1'/>", "a=1&b=2", "base64:", "YWJj", "YWJj=", "=", "====", "YW Jj", "0x41", "0x", "\\0", "\\8", "\\777",
}

// c07Bytes returns a byte string: atoms, concatenations, repeats, raw random bytes, truncated
// escapes; lengths are mostly small, geometric up to max.
func c07Bytes(r *rand.Rand, max int) string {
	switch x := r.IntN(100); {
	case x < 35:
		return c07Atoms[r.IntN(len(c07Atoms))]
	case x < 65:
		n := 2 + r.IntN(4)
		var sb strings.Builder
		for i := 0; i < n; i++ {
			sb.WriteString(c07Atoms[r.IntN(len(c07Atoms))])
		}
		return c07Cut(sb.String(), max)
	case x < 75:
		n := r.IntN(9)
		b := make([]byte, n)
		for i := range b {
			b[i] = byte(r.IntN(256))
		}
		return string(b)
	case x < 85:
		// truncate an escape-rich string at a random offset
		s := "%41%u0041\\u0041\\x41&#x41;&#65;&amp;%E2%82%AC\\'\\\"/*x*/--"
		return s[:r.IntN(len(s)+1)]
	case x < 95:
		// geometric length
		n := 1
		for n < max && r.IntN(4) != 0 {
			n *= 4
		}
		if n > max {
			n = max
		}
		a := c07Atoms[1+r.IntN(len(c07Atoms)-1)]
		if a == "" {
			a = "a"
		}
		return c07Cut(strings.Repeat(a, n/len(a)+1), n)
	default:
		n := r.IntN(64)
		b := make([]byte, n)
		alpha := "aA1%+&=;:,'\"\\/|#{}<>[] \x00\r\n\xff"
		for i := range b {
			b[i] = alpha[r.IntN(len(alpha))]
		}
		return string(b)
	}
}

func c07Cut(s string, max int) string {
	if len(s) > max {
		return s[:max]
	}
	return s
}

var c07Names = []string{"a", "A", "b", "id", "ID", "x1", "r0", "block", "foo", "Foo", "", "a.b", "a[b]", "a[]", "json.a", "é", "s", "sid", "name", "file"}

func c07Name(r *rand.Rand) string {
	if r.IntN(6) == 0 {
		return c07Bytes(r, 40)
	}
	return c07Names[r.IntN(len(c07Names))]
}

func c07KVs(r *rand.Rand, n int) []c07KV {
	var out []c07KV
	for i := 0; i < n; i++ {
		out = append(out, c07KV{K: c07B(c07Name(r)), V: c07B(c07Bytes(r, 200))})
	}
	return out
}

// ---------------------------------------------------------------------------------------------
// bodies of every processor type

func c07URLEnc(r *rand.Rand) string {
	n := r.IntN(6)
	var ps []string
	for i := 0; i < n; i++ {
		k, v := c07Name(r), c07Bytes(r, 300)
		switch r.IntN(4) {
		case 0:
			ps = append(ps, k)
		case 1:
			ps = append(ps, k+"="+v+"="+v)
		default:
			ps = append(ps, k+"="+v)
		}
	}
	return strings.Join(ps, c07Pick(r, []string{"&", "&", "&", ";", "&&"}))
}

func c07Pick(r *rand.Rand, xs []string) string { return xs[r.IntN(len(xs))] }

func c07JSONValue(r *rand.Rand, depth int) string {
	if depth <= 0 {
		return c07Pick(r, []string{"1", "\"a\"", "null", "true", "-0.5e3", "\"\\u0041\\n\"", "\"\"", "1e999", "\"" + strings.ReplaceAll(strings.ReplaceAll(c07Bytes(r, 40), "\\", ""), "\"", "") + "\""})
	}
	switch r.IntN(4) {
	case 0:
		n := r.IntN(4)
		var ps []string
		for i := 0; i < n; i++ {
			ps = append(ps, c07JSONValue(r, depth-1))
		}
		return "[" + strings.Join(ps, ",") + "]"
	case 1, 2:
		n := r.IntN(4)
		var ps []string
		for i := 0; i < n; i++ {
			ps = append(ps, fmt.Sprintf("%q:%s", c07Pick(r, []string{"a", "a", "b", "n", "", "a.b", "0", "é"}), c07JSONValue(r, depth-1)))
		}
		return "{" + strings.Join(ps, ",") + "}"
	}
	return c07JSONValue(r, 0)
}

func c07JSON(r *rand.Rand, deep int) string {
	switch r.IntN(10) {
	case 0:
		n := 1 + r.IntN(deep)
		return strings.Repeat("[", n) + strings.Repeat("]", r.IntN(n+1))
	case 1:
		n := 1 + r.IntN(deep)
		return strings.Repeat("{\"a\":", n) + "1" + strings.Repeat("}", n)
	case 2:
		s := c07JSONValue(r, 3)
		return s[:r.IntN(len(s)+1)]
	case 3:
		return c07Bytes(r, 500)
	}
	return c07JSONValue(r, 1+r.IntN(4))
}

func c07XMLNode(r *rand.Rand, depth int) string {
	tag := c07Pick(r, []string{"a", "b", "ns:c", "A", "x1"})
	attr := ""
	if r.IntN(3) == 0 {
		attr = fmt.Sprintf(" %s=%q", c07Pick(r, []string{"x", "id", "xmlns:ns", "a"}), strings.NewReplacer("\"", "", "<", "", "&", "").Replace(c07Bytes(r, 30)))
	}
	if depth <= 0 || r.IntN(3) == 0 {
		txt := strings.NewReplacer("<", "&lt;", "&", "&amp;").Replace(c07Bytes(r, 60))
		return "<" + tag + attr + ">" + txt + "</" + tag + ">"
	}
	var sb strings.Builder
	sb.WriteString("<" + tag + attr + ">")
	for i := r.IntN(3); i >= 0; i-- {
		sb.WriteString(c07XMLNode(r, depth-1))
	}
	sb.WriteString("</" + tag + ">")
	return sb.String()
}

func c07XML(r *rand.Rand, deep int) string {
	switch r.IntN(10) {
	case 0:
		n := 1 + r.IntN(deep)
		return strings.Repeat("<a>", n) + "x" + strings.Repeat("</a>", r.IntN(n+1))
	case 1:
		s := c07XMLNode(r, 3)
		return s[:r.IntN(len(s)+1)]
	case 2:
		return "<?xml version=\"1.0\"?><!DOCTYPE a [<!ENTITY e \"" + c07Bytes(r, 20) + "\"><!ENTITY f \"&e;&e;&e;\">]><a>&f;&e;</a>"
	case 3:
		return c07Bytes(r, 500)
	case 4:
		return "<a><![CDATA[" + c07Bytes(r, 100) + "]]><!-- " + c07Bytes(r, 20) + " --><?pi x?></a>"
	}
	return "<?xml version=\"1.0\" encoding=\"UTF-8\"?>" + c07XMLNode(r, 1+r.IntN(4))
}

// c07Multipart renders a multipart body and its Content-Type; shapes: well formed (0..3 fields,
// 0..2 files), broken boundaries, odd part headers, truncated.
func c07Multipart(r *rand.Rand) (body, ctype string) {
	var buf bytes.Buffer
	mw := multipart.NewWriter(&buf)
	if r.IntN(3) == 0 {
		mw.SetBoundary(c07Pick(r, []string{"b", "----WebKitFormBoundaryABC", "a'b", "x-y_z", "0"}))
	}
	nf, nfiles := r.IntN(4), r.IntN(3)
	for i := 0; i < nf; i++ {
		h := textproto.MIMEHeader{}
		name := strings.NewReplacer("\"", "", "\r", "", "\n", "").Replace(c07Name(r))
		switch r.IntN(5) {
		case 0:
			h.Set("Content-Disposition", "form-data; name="+name)
		case 1:
			h.Set("Content-Disposition", fmt.Sprintf("form-data; name=\"%s\"; x=\"y", name))
		default:
			h.Set("Content-Disposition", fmt.Sprintf("form-data; name=\"%s\"", name))
		}
		if r.IntN(4) == 0 {
			h.Set("Content-Type", c07Pick(r, []string{"text/plain", "text/plain; charset=\"x", "", "application/json"}))
		}
		if pw, err := mw.CreatePart(h); err == nil {
			pw.Write([]byte(c07Bytes(r, 300)))
		}
	}
	for i := 0; i < nfiles; i++ {
		h := textproto.MIMEHeader{}
		fn := strings.NewReplacer("\"", "", "\r", "", "\n", "").Replace(c07Pick(r, []string{"f.txt", "a b.php", "", "../../x", "é.bin", c07Bytes(r, 20)}))
		h.Set("Content-Disposition", fmt.Sprintf("form-data; name=\"%s\"; filename=\"%s\"", c07Pick(r, []string{"file", "f", "", "a"}), fn))
		h.Set("Content-Type", "application/octet-stream")
		if pw, err := mw.CreatePart(h); err == nil {
			pw.Write([]byte(c07Bytes(r, 2000)))
		}
	}
	mw.Close()
	body = buf.String()
	ctype = mw.FormDataContentType()
	switch r.IntN(12) {
	case 0:
		body = body[:r.IntN(len(body)+1)]
	case 1:
		ctype = "multipart/form-data"
	case 2:
		ctype = "multipart/form-data; boundary="
	case 3:
		ctype = "multipart/form-data; boundary=\"" + mw.Boundary()
	case 4:
		ctype = "multipart/form-data; boundary=" + mw.Boundary() + "; boundary=zzz"
	case 5:
		body = strings.ReplaceAll(body, "\r\n", "\n")
	case 6:
		body = "preamble\r\n" + body + "epilogue"
	case 7:
		ctype = "multipart/mixed; boundary=" + mw.Boundary()
	case 8:
		body = strings.Replace(body, "Content-Disposition", "Content-Disposition:\r\n folded", 1)
	}
	return
}

// c07Body returns (kind, body, content type) for one side.
func c07Body(r *rand.Rand, max, deep int) (kind, body, ctype string) {
	switch r.IntN(11) {
	case 0:
		return "none", "", ""
	case 1, 2:
		return "urlencoded", c07URLEnc(r), c07Pick(r, []string{"application/x-www-form-urlencoded", "application/x-www-form-urlencoded", "application/x-www-form-urlencoded; charset=UTF-8", "APPLICATION/X-WWW-FORM-URLENCODED"})
	case 3, 4:
		b, ct := c07Multipart(r)
		return "multipart", b, ct
	case 5, 6:
		return "json", c07JSON(r, deep), c07Pick(r, []string{"application/json", "application/json; charset=utf-8", "Application/JSON"})
	case 7, 8:
		return "xml", c07XML(r, deep), c07Pick(r, []string{"text/xml", "application/xml", "application/soap+xml", "text/xml; charset=utf-8"})
	case 9:
		return "raw", c07Bytes(r, max), c07Pick(r, []string{"text/plain", "application/octet-stream", "", "text/html"})
	}
	// mismatch: a body of one kind announced as another
	_, b, _ := c07Body(r, max, deep)
	return "mismatch", b, c07Pick(r, []string{"application/json", "text/xml", "application/x-www-form-urlencoded", "multipart/form-data; boundary=b", "text/plain"})
}

// ---------------------------------------------------------------------------------------------
// requests

// c07Request generates one request/response pair. deep bounds the nesting depth of JSON/XML bodies.
func c07Request(r *rand.Rand, deep int) *c07Req {
	q := &c07Req{
		Client: c07B(c07Pick(r, []string{"10.0.0.1", "127.0.0.1", "::1", "2001:db8::1", "", "not-an-ip", "--------", "300.1.2.3"})), CPort: c07PickInt(r, []int{1234, 0, -1, 65536}),
		Server: c07B(c07Pick(r, []string{"10.0.0.2", "", "::"})), SPort: c07PickInt(r, []int{80, 443, 0}),
		Method: c07B(c07Pick(r, []string{"GET", "POST", "POST", "PUT", "HEAD", "get", "", "PROPFIND", "G\x00T"})),
		Proto:  c07B(c07Pick(r, []string{"HTTP/1.1", "HTTP/1.1", "HTTP/2.0", "HTTP/1.0", "", "x"})),
		Status: c07PickInt(r, []int{200, 200, 200, 404, 500, 302, 204, 0, -1, 999, 100}), RespProto: c07B(c07Pick(r, []string{"HTTP/1.1", "HTTP/2.0", ""})),
	}
	if r.IntN(8) == 0 {
		q.Client = c07B(c07Bytes(r, 60))
	}
	// URI
	path := c07Pick(r, []string{"/", "/p", "/a/b.php", "/Index.html", "/rp1/7/x/n", "/rp2/a/b", "", "*", "/..//./a", "/a%2fb", "/é", "http://h.example/abs", "//h/p", "/a;b=c"})
	if r.IntN(8) == 0 {
		path = c07Bytes(r, 300)
	}
	switch r.IntN(5) {
	case 0:
	case 1:
		path += "?"
	default:
		path += "?" + c07URLEnc(r)
	}
	if r.IntN(10) == 0 {
		path += "#" + c07Bytes(r, 20)
	}
	q.URI = c07B(path)
	if r.IntN(3) == 0 {
		q.ServerName = c07B(c07Pick(r, []string{"www.example.com", "", "h:80", c07Bytes(r, 40)}))
	}
	// headers
	hn := []string{"Host", "User-Agent", "Accept", "X-Forwarded-For", "X-A", "x-a", "Referer", "Content-Length", "Transfer-Encoding", "Authorization", "Cookie", ""}
	nh := r.IntN(6)
	for i := 0; i < nh; i++ {
		k := c07Pick(r, hn)
		v := c07Bytes(r, 300)
		switch k {
		case "Host":
			v = c07Pick(r, []string{"www.example.com", "h:8080", "", "[::1]:80", v})
		case "Cookie":
			v = c07Pick(r, []string{"s=1; sid=abc", "a=b; a=c; =d; e", ";;;", "s=\"q\"; $Version=1", v, "a=" + v})
		case "Content-Length":
			v = c07Pick(r, []string{"0", "10", "-1", "x", "99999999999999999999"})
		case "Authorization":
			v = c07Pick(r, []string{"Basic YWJjOmRlZg==", "Basic", "Bearer x", "Digest username=\"a\"", v})
		}
		q.Headers = append(q.Headers, c07KV{K: c07B(k), V: c07B(v)})
	}
	if r.IntN(10) == 0 {
		q.Headers = append(q.Headers, c07KV{K: c07B(c07Bytes(r, 30)), V: c07B(c07Bytes(r, 30))})
	}
	kind, body, ct := c07Body(r, 65536, deep)
	q.BodyKind, q.Body = kind, c07B(c07CapNesting(body, c07MaxNesting))
	if ct != "" || r.IntN(2) == 0 {
		q.Headers = append(q.Headers, c07KV{K: c07B(c07Pick(r, []string{"Content-Type", "Content-Type", "content-type"})), V: c07B(ct)})
	}
	// arguments added through the API
	if r.IntN(3) == 0 {
		q.Get = c07KVs(r, r.IntN(4))
	}
	if r.IntN(3) == 0 {
		q.Post = c07KVs(r, r.IntN(4))
	}
	if r.IntN(4) == 0 {
		q.PathArgs = c07KVs(r, r.IntN(3))
	}
	if r.IntN(4) == 0 {
		q.RespArgs = c07KVs(r, r.IntN(3))
	}
	// chunking
	for i := r.IntN(5); i > 0; i-- {
		q.Chunks = append(q.Chunks, c07PickInt(r, []int{0, 1, 2, 7, 63, 64, 65, 1000, 40000}))
	}
	// response
	rk, rb, rct := c07Body(r, 65536, deep)
	q.RespKind, q.RespBody = rk, c07B(c07CapNesting(rb, c07MaxNesting))
	nrh := r.IntN(4)
	for i := 0; i < nrh; i++ {
		q.RespHdrs = append(q.RespHdrs, c07KV{K: c07B(c07Pick(r, []string{"Server", "Set-Cookie", "X-A", "Location", "Content-Length", "Content-Encoding", ""})), V: c07B(c07Bytes(r, 200))})
	}
	if rct != "" || r.IntN(2) == 0 {
		q.RespHdrs = append(q.RespHdrs, c07KV{K: "Content-Type", V: c07B(rct)})
	}
	return q
}

func c07PickInt(r *rand.Rand, xs []int) int { return xs[r.IntN(len(xs))] }

// c07MaxNesting bounds the bracket nesting of every generated body (candidate known finding
// "JSON key building is quadratic in the nesting depth", notes/findings/C07.md #8).
const c07MaxNesting = 2048

// c07CapNesting cuts s where its running count of unclosed '[' and '{' would exceed max.
func c07CapNesting(s string, max int) string {
	depth := 0
	for i := 0; i < len(s); i++ {
		switch s[i] {
		case '[', '{':
			depth++
			if depth > max {
				return s[:i]
			}
		case ']', '}':
			if depth > 0 {
				depth--
			}
		}
	}
	return s
}

// ---------------------------------------------------------------------------------------------
// call sequences

const c07Standard = "cunra1w2RA3px4q5qz"

// c07Sequences enumerates the call sequences: the standard order, every single call skipped, every
// phase call repeated, body writes before/after their phase, phases out of order, minimal ones.
var c07Sequences = func() []string {
	seen := map[string]bool{}
	var out []string
	add := func(s string) {
		s = strings.ReplaceAll(s, "z", "") + "z" // exactly one Close, last
		if !seen[s] {
			seen[s] = true
			out = append(out, s)
		}
	}
	add(c07Standard)
	add("cunra1W2RA3pX4q5qz") // reader entry points
	body := strings.TrimSuffix(c07Standard, "z")
	for i := 0; i < len(body); i++ { // skip one call
		add(body[:i] + body[i+1:])
	}
	for i := 0; i < len(body); i++ { // repeat one call
		add(body[:i+1] + body[i:i+1] + body[i+1:])
	}
	// body writes out of place
	add("cunraw1w2RA3px4q5q")   // request body before phase 1
	add("cunra12wRA3px4q5q")    // request body after phase 2
	add("cunra1w2w2RA3px4q5q")  // more body after processing
	add("cunra1w2RAx3px4q5q")   // response body before phase 3
	add("cunra1w2RA3p4xq5q")    // response body after phase 4
	add("cunra1w2RA3px4x4q5q")  // more response body after processing
	add("cunra1wW2RA3pxX4q5q")  // both entry points
	add("cunra1w2RA3px45xwq5q") // writes after logging
	// phases out of order / subsets
	for _, p := range []string{"21345", "13245", "31245", "12435", "12354", "51234", "54321", "24135", "1", "2", "3", "4", "5", "15", "25", "35", "45", "135", "245", "12", "34", "1234", "11223344", "1212", "3434", "55", "12345" + "12345"} {
		var sb strings.Builder
		sb.WriteString("cunra")
		for _, ph := range p {
			switch ph {
			case '2':
				sb.WriteString("w2")
			case '3':
				sb.WriteString("RA3p")
			case '4':
				sb.WriteString("x4")
			default:
				sb.WriteRune(ph)
			}
		}
		sb.WriteString("q")
		add(sb.String())
	}
	add("")    // NewTransaction, Close
	add("q")   // accessors on a fresh transaction
	add("5q")  // logging only
	add("w2q") // body without anything else
	add("x4q")
	add("raRA12345q") // no connection, no URI
	add("1cunra1w2RA3px4q5q")
	add("cunracunra1w2RA3px4q5q") // connection/URI/headers fed twice
	add("cunra1cunra2RA3px4q5q")  // request data fed again after phase 1
	return out
}()

// c07RandSeq returns a random walk over the step alphabet (bounded), ending with Close.
func c07RandSeq(r *rand.Rand) string {
	alpha := "cunra1wW2RA3pxX4q5"
	n := 1 + r.IntN(24)
	b := make([]byte, n)
	for i := range b {
		b[i] = alpha[r.IntN(len(alpha))]
	}
	return string(b) + "z"
}
