package props

import (
	"bytes"
	"context"
	"errors"
	"fmt"
	"io"
	"log"
	"net/http"
	"net/http/httptest"
	"net/http/httptrace"
	"net/textproto"
	"sync"
	"sync/atomic"
	"time"

	"github.com/corazawaf/coraza/v3"
	"github.com/corazawaf/coraza/v3/experimental"
	txhttp "github.com/corazawaf/coraza/v3/http"
)

// c18HObs is what the scripted handler observed during one request.
type c18HObs struct {
	Invoked int    `json:"invoked"`
	Read    []byte `json:"read,omitempty"` // every request-body byte the handler obtained, in order
	ReadEOF bool   `json:"read_eof,omitempty"`
	ReadErr string `json:"read_err,omitempty"`
}

type c18Info struct {
	Code int `json:"code"`
}

// c18Resp is what the client observed.
type c18Resp struct {
	Err     string              `json:"err,omitempty"`      // transport error before a response was obtained
	Status  int                 `json:"status,omitempty"`   // final status
	Header  map[string][]string `json:"header,omitempty"`   // all response headers
	Body    []byte              `json:"body,omitempty"`     // response body bytes
	BodyErr string              `json:"body_err,omitempty"` // error while reading the body
	Info    []c18Info           `json:"info,omitempty"`     // 1xx responses seen before the final one
}

type c18Obs struct {
	Resp    c18Resp `json:"resp"`
	Handler c18HObs `json:"handler"`
	Hung    bool    `json:"server_side_hung,omitempty"`
}

type c18Active struct {
	script *c18Script
	mu     sync.Mutex
	obs    [2]c18HObs
	done   [2]chan struct{}
}

// c18Env holds the two servers of a worker. Cases are executed strictly one after the other.
type c18Env struct {
	bare, wrapped *httptest.Server
	cur           atomic.Pointer[c18Active]
	wrappedH      atomic.Pointer[http.Handler]
	waf           coraza.WAF
	client        *http.Client
}

type stepReader struct {
	data []byte
	step int
}

func (s *stepReader) Read(p []byte) (int, error) {
	if len(s.data) == 0 {
		return 0, io.EOF
	}
	n := s.step
	if n > len(s.data) {
		n = len(s.data)
	}
	if n > len(p) {
		n = len(p)
	}
	copy(p, s.data[:n])
	s.data = s.data[n:]
	return n, nil
}

// scriptHandler interprets the active script; side 0 = bare, 1 = wrapped.
func (e *c18Env) scriptHandler(side int) http.Handler {
	return http.HandlerFunc(func(w http.ResponseWriter, r *http.Request) {
		a := e.cur.Load()
		if a == nil {
			return
		}
		a.mu.Lock()
		a.obs[side].Invoked++
		a.mu.Unlock()
		var read []byte
		eof := false
		rerr := ""
		for _, op := range a.script.Ops {
			switch op.Op {
			case "hdr":
				w.Header().Set(op.K, op.V)
			case "addhdr":
				w.Header().Add(op.K, op.V)
			case "delhdr":
				w.Header().Del(op.K)
			case "status":
				w.WriteHeader(op.Code)
			case "write":
				w.Write(op.Data)
			case "flush":
				if f, ok := w.(http.Flusher); ok {
					f.Flush()
				}
			case "readfrom":
				var rd io.Reader = bytes.NewReader(op.Data)
				if op.Step > 0 {
					rd = &stepReader{data: append([]byte(nil), op.Data...), step: op.Step}
				}
				if rf, ok := w.(io.ReaderFrom); ok {
					rf.ReadFrom(rd)
				} else {
					io.Copy(w, rd)
				}
			case "readbody":
				if op.N < 0 {
					b, err := io.ReadAll(r.Body)
					read = append(read, b...)
					if err != nil {
						rerr = "error"
					} else {
						eof = true
					}
				} else {
					buf := make([]byte, op.N)
					n, err := io.ReadFull(r.Body, buf)
					read = append(read, buf[:n]...)
					if err == io.EOF || err == io.ErrUnexpectedEOF {
						eof = true
					} else if err != nil {
						rerr = "error"
					}
				}
			}
		}
		a.mu.Lock()
		a.obs[side].Read = read
		a.obs[side].ReadEOF = eof
		a.obs[side].ReadErr = rerr
		a.mu.Unlock()
	})
}

// outer signals the end of the server-side processing of the current case (also when the
// handler chain panics with http.ErrAbortHandler).
func (e *c18Env) outer(side int, next func() http.Handler) http.Handler {
	return http.HandlerFunc(func(w http.ResponseWriter, r *http.Request) {
		a := e.cur.Load()
		if a != nil {
			defer func() {
				select {
				case <-a.done[side]:
				default:
					close(a.done[side])
				}
			}()
		}
		next().ServeHTTP(w, r)
	})
}

func c18NewEnv() (*c18Env, error) {
	e := &c18Env{}
	quiet := log.New(io.Discard, "", 0)
	bareH := e.scriptHandler(0)
	e.bare = httptest.NewUnstartedServer(e.outer(0, func() http.Handler { return bareH }))
	e.bare.Config.ErrorLog = quiet
	e.bare.Start()
	e.wrapped = httptest.NewUnstartedServer(e.outer(1, func() http.Handler {
		if h := e.wrappedH.Load(); h != nil {
			return *h
		}
		return http.NotFoundHandler()
	}))
	e.wrapped.Config.ErrorLog = quiet
	e.wrapped.Start()
	e.client = &http.Client{
		Transport: &http.Transport{DisableKeepAlives: true, DisableCompression: true, Proxy: nil},
		Timeout:   20 * time.Second,
		CheckRedirect: func(*http.Request, []*http.Request) error {
			return http.ErrUseLastResponse
		},
	}
	return e, nil
}

func (e *c18Env) SetConfig(text string) error {
	if e.waf != nil {
		if c, ok := e.waf.(experimental.WAFCloser); ok {
			c.Close()
		}
		e.waf = nil
	}
	waf, err := coraza.NewWAF(coraza.NewWAFConfig().WithDirectives(text))
	if err != nil {
		return err
	}
	e.waf = waf
	h := txhttp.WrapHandler(waf, e.scriptHandler(1))
	e.wrappedH.Store(&h)
	return nil
}

func (e *c18Env) Close() {
	e.bare.Close()
	e.wrapped.Close()
	if e.waf != nil {
		if c, ok := e.waf.(experimental.WAFCloser); ok {
			c.Close()
		}
	}
}

type opaqueReader struct{ io.Reader }

func (e *c18Env) do(side int, base string, rq *c18Req) (resp c18Resp) {
	var body io.Reader
	if len(rq.Body) > 0 || rq.Chunked {
		if rq.Chunked {
			body = opaqueReader{bytes.NewReader(rq.Body)} // unknown length: chunked on the wire
		} else {
			body = bytes.NewReader(rq.Body)
		}
	}
	var mu sync.Mutex
	var infos []c18Info
	trace := &httptrace.ClientTrace{Got1xxResponse: func(code int, _ textproto.MIMEHeader) error {
		mu.Lock()
		infos = append(infos, c18Info{Code: code})
		mu.Unlock()
		return nil
	}}
	ctx := httptrace.WithClientTrace(context.Background(), trace)
	req, err := http.NewRequestWithContext(ctx, rq.Method, base+rq.Path, body)
	if err != nil {
		resp.Err = "newrequest: " + err.Error()
		return
	}
	if rq.CT != "" {
		req.Header.Set("Content-Type", rq.CT)
	}
	if rq.Blk != "" {
		req.Header.Set(c18ReqSteer, rq.Blk)
	}
	req.Header.Set("User-Agent", "verif-c18")
	res, err := e.client.Do(req)
	mu.Lock()
	resp.Info = infos
	mu.Unlock()
	if err != nil {
		resp.Err = c18ErrClass(err)
		return
	}
	defer res.Body.Close()
	resp.Status = res.StatusCode
	resp.Header = map[string][]string(res.Header.Clone())
	b, err := io.ReadAll(res.Body)
	resp.Body = b
	if err != nil {
		resp.BodyErr = c18ErrClass(err)
	}
	return
}

func c18ErrClass(err error) string {
	switch {
	case errors.Is(err, io.EOF):
		return "eof"
	case errors.Is(err, io.ErrUnexpectedEOF):
		return "unexpected-eof"
	case errors.Is(err, context.DeadlineExceeded):
		return "timeout"
	}
	var ne interface{ Timeout() bool }
	if errors.As(err, &ne) && ne.Timeout() {
		return "timeout"
	}
	return fmt.Sprintf("other: %v", err)
}

// Exec serves the case once bare and once wrapped.
func (e *c18Env) Exec(c *c18Case) (bare, wr *c18Obs) {
	a := &c18Active{script: c.Script}
	a.done[0], a.done[1] = make(chan struct{}), make(chan struct{})
	e.cur.Store(a)
	out := [2]*c18Obs{{}, {}}
	for side, base := range []string{e.bare.URL, e.wrapped.URL} {
		out[side].Resp = e.do(side, base, c.Req)
		select {
		case <-a.done[side]:
		case <-time.After(10 * time.Second):
			out[side].Hung = true
		}
		a.mu.Lock()
		out[side].Handler = a.obs[side]
		a.mu.Unlock()
	}
	return out[0], out[1]
}
