package props

import (
	"encoding/json"
	"fmt"
	"runtime/debug"

	"verif/internal/fw"
	"verif/internal/gen"
	"verif/internal/sl"
)

type c12Case struct {
	Program *sl.Program `json:"program"`
	Text    string      `json:"text"`
	Req     *sl.Req     `json:"req"`
	Reps    int         `json:"reps"`
	GC      bool        `json:"gc,omitempty"` // run under SetGCPercent(1)
}

func c12Judge(w *fw.W, c *c12Case) bool {
	waf, err := sl.BuildText(c.Text)
	if err != nil {
		w.Count("build_errors", 1)
		w.Cover("build_error_samples", err.Error())
		return false
	}
	defer sl.CloseWAF(waf)
	un := gen.Unshare(c.Program)
	wafU, err := sl.Build(un)
	if err != nil {
		w.Count("build_errors", 1)
		w.Cover("build_error_samples", err.Error())
		return false
	}
	defer sl.CloseWAF(wafU)
	exp := sl.Run(c.Program, c.Req)
	if exp.Ambiguous != "" {
		w.Count("ambiguous_skipped", 1)
		w.Cover("ambiguous_reasons", exp.Ambiguous)
		w.Count("ambiguous: "+exp.Ambiguous, 1)
		unjudgedRun(w, waf, c, c.Req)
		return true
	}
	opts := sl.CompareOpts{Evaluated: true, TX: true}
	if c.GC {
		old := debug.SetGCPercent(1)
		defer debug.SetGCPercent(old)
		w.Count("gc_pressure_cases", 1)
	}
	h0, p0, m0 := sl.TCacheHits, sl.TCachePrefixHits, sl.TCacheMisses
	for i := 0; i < c.Reps; i++ {
		w.Trace(c)
		got := sl.Exec(waf, c.Req)
		w.Eval(1)
		if d := sl.Compare(exp, got, opts); d != "" {
			// does the unshared configuration agree with the model? then sharing is the culprit
			gotU := sl.Exec(wafU, c.Req)
			class := "shared-run-differs-from-model:" + sl.DiffKind(d)
			if du := sl.Compare(exp, gotU, opts); du == "" {
				class = "sharing-changes-outcome:" + sl.DiffKind(d)
			}
			w.Violation(class, "reference-model+unshared-differential", c, exp, got, d)
			return true
		}
	}
	hits, phits, misses := sl.TCacheHits-h0, sl.TCachePrefixHits-p0, sl.TCacheMisses-m0
	w.Count("tcache_hits", int(hits))
	w.Count("tcache_prefix_hits", int(phits))
	w.Count("tcache_misses", int(misses))
	// the unshared variant must agree as well (guards the differential itself)
	gotU := sl.Exec(wafU, c.Req)
	w.Eval(1)
	if d := sl.Compare(exp, gotU, opts); d != "" {
		w.Violation("unshared-run-differs-from-model:"+sl.DiffKind(d), "reference-model", c, exp, gotU, d)
		return true
	}
	if hits+phits > 0 {
		w.Count("cases_with_hit", 1)
		w.Nontrivial(fw.Hash(c.Text) ^ fw.Hash(c.Req))
	}
	for _, it := range c.Program.Items {
		for lvl := it.Rule; lvl != nil; lvl = lvl.Chain {
			for _, s := range lvl.Targets {
				switch s.Var {
				case "MATCHED_VAR", "MATCHED_VARS", "MATCHED_VAR_NAME", "MATCHED_VARS_NAMES", "TX":
					w.Count("changing_target:"+s.Var, 1)
				}
				if s.Count {
					w.Count("changing_target:count", 1)
				}
			}
		}
	}
	return true
}

// c12GCCase: a long phase of chained rules whose links look at MATCHED_VAR_NAME (a fresh string per match) through a
// shared transformation, executed under heavy garbage collection: a cache entry must never outlive the value it
// was computed from in a way that lets a new value at the same address pick it up.
func c12GCCase(r gen.R) *c12Case {
	p := &sl.Program{Engine: "On"}
	req := &sl.Req{Method: "GET", Path: "/gc", Status: 200}
	n := 250 + r.IntN(100)
	phase := 1 + r.IntN(2)
	for i := 0; i < n; i++ {
		name := fmt.Sprintf("Param_%d", i)
		req.Get = append(req.Get, sl.KV{K: name, V: "v"})
		link := &sl.Rule{Phase: phase, Severity: -1, Targets: []sl.Sel{{Var: gen.Pick(r, []string{"MATCHED_VAR_NAME", "MATCHED_VARS_NAMES"})}}, Trans: []string{"lowercase"},
			Op: &sl.Op{Name: "verifrec", Arg: fmt.Sprintf("g%d eq:args_get:param_%d", i, i)}}
		p.Items = append(p.Items, sl.Item{Rule: &sl.Rule{ID: 1000 + i, Phase: phase, Severity: -1, Targets: []sl.Sel{{Var: "ARGS_GET", Kind: 1, Key: name}},
			Op: &sl.Op{Name: "streq", Arg: "v"}, Chain: link}})
	}
	return &c12Case{Program: p, Text: p.Render(), Req: req, Reps: 4, GC: true}
}

func init() {
	fw.Register(&fw.Prop{
		ID: "C12", Level: "exploration",
		Rule:        "sequences of 4-10 rules of one phase drawn from a small family of transformation lists with shared prefixes, over the same and different targets (ARGS family, headers, counts, TX, and chain links over MATCHED_VAR / MATCHED_VARS(_NAMES) whose content changes during the phase), run against requests with few names, many repeats and values differing only by case or white space, each pair repeated so that map iteration order varies; plus long phases (250-350 chained rules over MATCHED_VAR_NAME) executed under SetGCPercent(1), so that freed string addresses are reused within a phase. Oracle: the values presented to a recording operator, fired rules and match data equal the reference interpreter's (own transformation list applied to the current content of the target); on a difference the same rule set with a distinct identity transformation in front of every list (no cache entry can be shared) decides whether sharing is the cause. Non-trivial: the transformation cache reported at least one hit or prefix hit during the case (hook events); distinct by (rule-set text, request).",
		Assumptions: []string{"reference interpreter as in C01", "TCacheHit/TCachePrefixHit/TCacheMiss hook events only feed the evidence; the verdict uses operator inputs and match data"},
		Required:    []string{"gc_pressure_cases", "tcache_hits", "tcache_prefix_hits", "cases_with_hit", "changing_target:MATCHED_VAR", "changing_target:MATCHED_VARS"},
		Plan: func(tier fw.Tier, seed int64) []fw.Batch {
			n := 16
			if tier == fw.Thorough {
				n = 64
			}
			var bs []fw.Batch
			for i := 0; i < n; i++ {
				bs = append(bs, fw.Batch{Index: i, Flavour: "plain", TimeoutS: 1500})
			}
			return bs
		},
		Run: func(w *fw.W, b fw.Batch) {
			progs, reqs, reps := 150, 8, 8
			if w.Tier == fw.Thorough {
				progs, reqs, reps = 1500, 12, 16
			}
			ngc := 6
			if w.Tier == fw.Thorough {
				ngc = 40
			}
			for i := 0; i < ngc; i++ {
				c12Judge(w, c12GCCase(w.Rng))
			}
			for i := 0; i < progs; i++ {
				p := gen.ShareProgram(w.Rng)
				text := p.Render()
				for j := 0; j < reqs; j++ {
					c := &c12Case{Program: p, Text: text, Req: gen.ShareRequest(w.Rng), Reps: reps}
					if !c12Judge(w, c) {
						break
					}
					if w.WantSample() && j == 0 {
						w.Sample(map[string]any{"rules": text, "request": c.Req})
					}
				}
			}
		},
		Replay: func(w *fw.W, raw json.RawMessage) {
			var c c12Case
			if json.Unmarshal(raw, &c) != nil {
				return
			}
			if c.Reps < 64 {
				c.Reps = 64
			}
			c12Judge(w, &c)
		},
	})
}
