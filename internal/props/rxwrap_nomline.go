//go:build coraza.rule.no_regex_multiline

package props

// see rxwrap_default.go: in this build ^ and $ are text anchors unless the pattern says (?m).
const rxBuildWrap = "(?s)"
