package props

import (
	"math/rand/v2"
	"strings"
)

const c07Delims = "\"'`,:;|=!&@%{}()[]/\\ .-+\n\t#"

var c07MutKinds = []string{"delete-byte", "duplicate-byte", "replace-byte", "delete-delim", "duplicate-delim", "replace-delim", "truncate-line", "swap-tokens", "insert-delim", "join-lines"}

// c07Mutate applies one byte-level mutation to a configuration text.
func c07Mutate(r *rand.Rand, text string, kind string) string {
	if len(text) == 0 {
		return text
	}
	b := []byte(text)
	delimPos := func() int {
		var ps []int
		for i, ch := range b {
			if strings.IndexByte(c07Delims, ch) >= 0 {
				ps = append(ps, i)
			}
		}
		if len(ps) == 0 {
			return r.IntN(len(b))
		}
		return ps[r.IntN(len(ps))]
	}
	switch kind {
	case "delete-byte":
		i := r.IntN(len(b))
		return string(b[:i]) + string(b[i+1:])
	case "duplicate-byte":
		i := r.IntN(len(b))
		return string(b[:i+1]) + string(b[i:])
	case "replace-byte":
		i := r.IntN(len(b))
		var nb byte
		switch r.IntN(3) {
		case 0:
			nb = byte(r.IntN(256))
		case 1:
			nb = c07Delims[r.IntN(len(c07Delims))]
		default:
			nb = "0123456789aAzZ~\x00\xff"[r.IntN(17)]
		}
		return string(b[:i]) + string(nb) + string(b[i+1:])
	case "delete-delim":
		i := delimPos()
		return string(b[:i]) + string(b[i+1:])
	case "duplicate-delim":
		i := delimPos()
		return string(b[:i+1]) + string(b[i:])
	case "replace-delim":
		i := delimPos()
		return string(b[:i]) + string(c07Delims[r.IntN(len(c07Delims))]) + string(b[i+1:])
	case "insert-delim":
		i := r.IntN(len(b) + 1)
		return string(b[:i]) + string(c07Delims[r.IntN(len(c07Delims))]) + string(b[i:])
	case "swap-tokens":
		toks := c07Tokens(text)
		if len(toks) < 2 {
			return text
		}
		i, j := r.IntN(len(toks)), r.IntN(len(toks))
		if i == j {
			j = (i + 1) % len(toks)
		}
		if i > j {
			i, j = j, i
		}
		a, c := toks[i], toks[j]
		return text[:a[0]] + text[c[0]:c[1]] + text[a[1]:c[0]] + text[a[0]:a[1]] + text[c[1]:]
	case "join-lines":
		start := r.IntN(len(text))
		i := strings.IndexByte(text[start:], '\n')
		if i < 0 {
			return text
		}
		i += start
		return text[:i] + []string{" ", " \\\n", "", "\\\n\\\n"}[r.IntN(4)] + text[i+1:]
	}
	return text
}

// c07Tokens returns the [start,end) ranges of the tokens of a text: maximal runs without white
// space, quotes, commas, pipes or colons.
func c07Tokens(text string) [][2]int {
	var out [][2]int
	start := -1
	for i := 0; i <= len(text); i++ {
		sep := i == len(text) || strings.IndexByte(" \t\n\"',|:", text[i]) >= 0
		if sep {
			if start >= 0 {
				out = append(out, [2]int{start, i})
				start = -1
			}
		} else if start < 0 {
			start = i
		}
	}
	return out
}

// c07TruncateLine returns the text with its k-th line cut at offset off (the rest of that line removed).
func c07TruncateLine(text string, line, off int) string {
	lines := strings.Split(text, "\n")
	if line >= len(lines) {
		return text
	}
	if off > len(lines[line]) {
		off = len(lines[line])
	}
	lines[line] = lines[line][:off]
	return strings.Join(lines, "\n")
}
