package props

// C11 input derivation: strings sampled from a pattern's AST (so that they match, modulo
// zero-width assertions), and perturbations of them.

import (
	"math/rand/v2"
	"regexp/syntax"
	"strings"
	"unicode"
	"unicode/utf8"
)

type c11Sampler struct {
	r   *rand.Rand
	cap int // soft cap on sample length
}

var c11AnyChars = []string{"x", "a", "K", "s", " ", "\n", "é", "\xff", "0", "/", "\x00", "K", "ſ"}

// foldVariant returns a random member of c's simple-fold orbit.
func (s *c11Sampler) foldVariant(c rune) rune {
	orbit := []rune{c}
	for f := unicode.SimpleFold(c); f != c; f = unicode.SimpleFold(f) {
		orbit = append(orbit, f)
	}
	return orbit[s.r.IntN(len(orbit))]
}

func (s *c11Sampler) sample(re *syntax.Regexp, sb *strings.Builder) {
	if sb.Len() > s.cap {
		// keep going only with the mandatory minimum
		switch re.Op {
		case syntax.OpStar, syntax.OpQuest:
			return
		}
	}
	switch re.Op {
	case syntax.OpLiteral:
		for _, c := range re.Rune {
			if re.Flags&syntax.FoldCase != 0 && s.r.IntN(2) == 0 {
				c = s.foldVariant(c)
			}
			if c == utf8.RuneError && s.r.IntN(2) == 0 {
				sb.WriteByte(0xff) // U+FFFD in a pattern matches one invalid byte
				continue
			}
			sb.WriteRune(c)
		}
	case syntax.OpCharClass:
		if len(re.Rune) >= 2 {
			i := s.r.IntN(len(re.Rune)/2) * 2
			lo, hi := re.Rune[i], re.Rune[i+1]
			c := lo
			switch s.r.IntN(4) {
			case 0:
				c = hi
			case 1, 2:
				span := hi - lo
				if span > 40 {
					span = 40
				}
				c = lo + rune(s.r.IntN(int(span)+1))
			}
			if c >= 0xD800 && c <= 0xDFFF {
				c = lo
			}
			if c == '\n' && s.r.IntN(2) == 0 && hi > lo {
				c = hi
			}
			sb.WriteRune(c)
		}
	case syntax.OpAnyChar:
		sb.WriteString(c11AnyChars[s.r.IntN(len(c11AnyChars))])
	case syntax.OpAnyCharNotNL:
		c := c11AnyChars[s.r.IntN(len(c11AnyChars))]
		if c == "\n" {
			c = "y"
		}
		sb.WriteString(c)
	case syntax.OpConcat:
		for _, sub := range re.Sub {
			s.sample(sub, sb)
		}
	case syntax.OpAlternate:
		s.sample(re.Sub[s.r.IntN(len(re.Sub))], sb)
	case syntax.OpCapture:
		s.sample(re.Sub[0], sb)
	case syntax.OpStar:
		for i := s.r.IntN(3); i > 0; i-- {
			s.sample(re.Sub[0], sb)
		}
	case syntax.OpPlus:
		for i := 1 + s.r.IntN(3); i > 0; i-- {
			s.sample(re.Sub[0], sb)
		}
	case syntax.OpQuest:
		if s.r.IntN(2) == 0 {
			s.sample(re.Sub[0], sb)
		}
	case syntax.OpRepeat:
		n := re.Min
		switch {
		case re.Max < 0:
			n += s.r.IntN(3)
		case re.Max > re.Min:
			extra := re.Max - re.Min
			if extra > 3 {
				extra = 3
			}
			n += s.r.IntN(extra + 1)
		}
		for i := 0; i < n; i++ {
			s.sample(re.Sub[0], sb)
		}
	}
	// zero-width assertions, OpEmptyMatch, OpNoMatch: nothing to emit
}

func (s *c11Sampler) Sample(re *syntax.Regexp) string {
	var sb strings.Builder
	s.sample(re, &sb)
	return sb.String()
}

var c11Glue = []string{" ", "x", "zz", "select", "ab", "\n", "zz\n", "=", "/", "é", "K", "\xff", "s", "k", "A"}

func c11FlipCase(b byte) byte {
	switch {
	case b >= 'a' && b <= 'z':
		return b - 32
	case b >= 'A' && b <= 'Z':
		return b + 32
	}
	return b
}

// perturb returns one variant of in: one-byte deletion / substitution / insertion, ASCII case flips,
// Unicode fold variants, embedded newlines, added prefixes / suffixes, truncation.
func (s *c11Sampler) perturb(in string) string {
	r := s.r
	b := []byte(in)
	switch r.IntN(22) {
	case 0, 1: // delete one byte
		if len(b) > 0 {
			i := r.IntN(len(b))
			return string(append(b[:i:i], b[i+1:]...))
		}
	case 2: // substitute one byte: random
		if len(b) > 0 {
			b[r.IntN(len(b))] = byte(r.IntN(256))
			return string(b)
		}
	case 3: // substitute one byte: flip the case of one letter
		if len(b) > 0 {
			i := r.IntN(len(b))
			for k := 0; k < len(b); k++ {
				j := (i + k) % len(b)
				if f := c11FlipCase(b[j]); f != b[j] {
					b[j] = f
					break
				}
			}
			return string(b)
		}
	case 4: // substitute one byte with a neighbour letter
		if len(b) > 0 {
			i := r.IntN(len(b))
			b[i] = "abcksxe \n"[r.IntN(9)]
			return string(b)
		}
	case 5, 6: // insert one byte
		i := r.IntN(len(b) + 1)
		c := byte(r.IntN(256))
		if r.IntN(2) == 0 {
			c = "ax \n\tkS/"[r.IntN(8)]
		}
		out := append(append(append([]byte{}, b[:i]...), c), b[i:]...)
		return string(out)
	case 7:
		return strings.ToUpper(in)
	case 8:
		return strings.ToLower(in)
	case 9: // random case per ASCII letter
		for i := range b {
			if r.IntN(2) == 0 {
				b[i] = c11FlipCase(b[i])
			}
		}
		return string(b)
	case 10: // Unicode fold variants of k and s
		return strings.NewReplacer("k", "K", "K", "K", "s", "ſ", "S", "ſ").Replace(in)
	case 11: // one fold variant only
		for _, p := range [][2]string{{"k", "K"}, {"s", "ſ"}, {"K", "K"}, {"S", "ſ"}, {"K", "k"}, {"ſ", "S"}} {
			if i := strings.Index(in, p[0]); i >= 0 && r.IntN(2) == 0 {
				return in[:i] + p[1] + in[i+len(p[0]):]
			}
		}
	case 12: // embedded newline
		i := r.IntN(len(b) + 1)
		return in[:i] + "\n" + in[i:]
	case 13:
		return c11Glue[r.IntN(len(c11Glue))] + "\n" + in
	case 14:
		return in + "\n" + c11Glue[r.IntN(len(c11Glue))]
	case 15:
		return c11Glue[r.IntN(len(c11Glue))] + in
	case 16:
		return in + c11Glue[r.IntN(len(c11Glue))]
	case 17:
		return c11Glue[r.IntN(len(c11Glue))] + in + c11Glue[r.IntN(len(c11Glue))]
	case 18: // truncate at the end
		if len(b) > 0 {
			return in[:r.IntN(len(b))]
		}
	case 19: // truncate at the start
		if len(b) > 0 {
			return in[r.IntN(len(b)):]
		}
	case 20: // doubled
		if len(in) < 200 {
			return in + in
		}
	case 21: // delete a run
		if len(b) > 2 {
			i := r.IntN(len(b) - 1)
			j := i + 1 + r.IntN(len(b)-i-1)
			return in[:i] + in[j:]
		}
	}
	return in + "\n"
}

var c11RandAlphabet = []string{"a", "b", "c", "k", "s", "K", "S", "e", "l", "t", "x", " ", "\n", "=", "/", ".", "(", "<", "1", "é", "K", "ſ", "\xff", "\x00", "select", "ab", "bar", "set"}

func (s *c11Sampler) randomInput() string {
	r := s.r
	n := r.IntN(12)
	if r.IntN(3) == 0 {
		b := make([]byte, n)
		for i := range b {
			b[i] = byte(r.IntN(256))
		}
		return string(b)
	}
	var sb strings.Builder
	for i := 0; i < n; i++ {
		sb.WriteString(c11RandAlphabet[r.IntN(len(c11RandAlphabet))])
	}
	return sb.String()
}

// Inputs derives about n inputs for the pattern whose (unsimplified) AST is re.
func (s *c11Sampler) Inputs(re *syntax.Regexp, n int) []string {
	r := s.r
	seen := make(map[string]struct{}, n)
	out := make([]string, 0, n)
	add := func(v string) {
		if len(v) > 4096 {
			return
		}
		if _, ok := seen[v]; ok {
			return
		}
		seen[v] = struct{}{}
		out = append(out, v)
	}
	nSamples := n / 8
	if nSamples < 3 {
		nSamples = 3
	}
	samples := make([]string, 0, nSamples)
	for i := 0; i < nSamples; i++ {
		v := s.Sample(re)
		samples = append(samples, v)
		add(v)
	}
	nRandom := n / 8
	for tries := 0; len(out) < n-nRandom && tries < 3*n; tries++ {
		base := samples[r.IntN(len(samples))]
		v := s.perturb(base)
		if r.IntN(6) == 0 {
			v = s.perturb(v)
		}
		add(v)
	}
	add("")
	for tries := 0; len(out) < n && tries < 2*n; tries++ {
		if r.IntN(4) == 0 {
			add(samples[r.IntN(len(samples))] + samples[r.IntN(len(samples))])
		} else {
			add(s.randomInput())
		}
	}
	return out
}
