package props

import (
	"bytes"
	"fmt"
	"math/rand/v2"
	"mime/multipart"
	"net/textproto"
	"path/filepath"
	"strings"
)

// ---- configuration of the WAF a scenario runs on -------------------------------------------

type c20Conf struct {
	MemLimit   int    `json:"mem_limit,omitempty"`  // SecRequestBodyInMemoryLimit (0 = unset)
	ReqLimit   int    `json:"req_limit,omitempty"`  // SecRequestBodyLimit (0 = default)
	ReqAction  string `json:"req_action,omitempty"` // Reject | ProcessPartial
	ResLimit   int    `json:"res_limit,omitempty"`
	ResAction  string `json:"res_action,omitempty"`
	Keep       string `json:"keep,omitempty"`       // Off | On | RelevantOnly ("" = directive absent)
	UploadDir  string `json:"upload_dir,omitempty"` // "own" (private directory) | "" (unset: os.TempDir())
	Audit      string `json:"audit,omitempty"`      // "" | serial | concurrent
	AuditFmt   string `json:"audit_fmt,omitempty"`  // Native | JSON
	AuditParts string `json:"audit_parts,omitempty"`
	Strict     bool   `json:"strict,omitempty"` // deny on REQBODY_ERROR (CRS style) instead of pass
	// AttackNolog: the rule that sees the attack marker carries nolog,auditlog: it fires without making the
	// transaction log-relevant, so SecUploadKeepFiles RelevantOnly must not keep the uploads because of it
	AttackNolog bool `json:"attack_nolog,omitempty"`
	// Real is a real (non-injected) fault condition:
	//  tmpdir-removed | tmpdir-is-file | uploaddir-removed | uploaddir-is-file |
	//  audit-devfull | audit-dir-below-file | fsize:<N> (RLIMIT_FSIZE while the transaction runs)
	Real string `json:"real,omitempty"`
}

type c20Dirs struct{ Base, Tmp, Upl, Aud string }

func c20MkDirs(base string) c20Dirs {
	return c20Dirs{Base: base, Tmp: filepath.Join(base, "tmp"), Upl: filepath.Join(base, "upl"), Aud: filepath.Join(base, "aud")}
}

// ids of the rules of c20Directives that log (relevant for SecUploadKeepFiles RelevantOnly).
var c20LoggedIDs = map[int]bool{200: true, 301: true, 302: true, 303: true, 304: true, 305: true, 400: true, 410: true, 500: true}

func (c *c20Conf) directives(d c20Dirs) string {
	var b strings.Builder
	p := func(f string, a ...any) { fmt.Fprintf(&b, f+"\n", a...) }
	p("SecRuleEngine On")
	p("SecRequestBodyAccess On")
	p("SecResponseBodyAccess On")
	p("SecResponseBodyMimeType text/plain")
	if c.ReqLimit > 0 {
		p("SecRequestBodyLimit %d", c.ReqLimit)
	}
	if c.MemLimit > 0 {
		p("SecRequestBodyInMemoryLimit %d", c.MemLimit)
	}
	if c.ReqAction != "" {
		p("SecRequestBodyLimitAction %s", c.ReqAction)
	}
	if c.ResLimit > 0 {
		p("SecResponseBodyLimit %d", c.ResLimit)
	}
	if c.ResAction != "" {
		p("SecResponseBodyLimitAction %s", c.ResAction)
	}
	if c.UploadDir == "own" {
		p("SecUploadDir %s", d.Upl)
	}
	if c.Keep != "" {
		p("SecUploadKeepFiles %s", c.Keep)
	}
	if c.Audit != "" {
		p("SecAuditEngine On")
		parts := c.AuditParts
		if parts == "" {
			parts = "ABCEFHJKZ"
		}
		p("SecAuditLogParts %s", parts)
		if c.AuditFmt != "" {
			p("SecAuditLogFormat %s", c.AuditFmt)
		}
		target := filepath.Join(d.Aud, "audit.log")
		if c.Real == "audit-devfull" {
			target = "/dev/full"
		}
		if c.Audit == "serial" {
			p("SecAuditLogType Serial")
			p("SecAuditLog %s", target)
		} else {
			p("SecAuditLogType Concurrent")
			p("SecAuditLog %s", target)
			store := filepath.Join(d.Aud, "store")
			if c.Real == "audit-dir-below-file" {
				store = filepath.Join(d.Aud, "plainfile", "store")
			}
			p("SecAuditLogStorageDir %s", store)
		}
	}
	p(`SecRule REQUEST_HEADERS:Content-Type "^application/x-www-form-urlencoded" "id:100,phase:1,pass,nolog,ctl:requestBodyProcessor=URLENCODED"`)
	p(`SecRule REQUEST_HEADERS:Content-Type "^multipart/form-data" "id:101,phase:1,pass,nolog,ctl:requestBodyProcessor=MULTIPART"`)
	p(`SecRule REQUEST_HEADERS:Content-Type "^application/json" "id:102,phase:1,pass,nolog,ctl:requestBodyProcessor=JSON"`)
	if c.AttackNolog {
		p(`SecRule ARGS "@contains attack" "id:200,phase:2,pass,nolog,auditlog,msg:'attack seen'"`)
	} else {
		p(`SecRule ARGS "@contains attack" "id:200,phase:2,pass,log,auditlog,msg:'attack seen'"`)
	}
	p(`SecRule FILES "@contains upload" "id:210,phase:2,pass,nolog"`)
	for ph := 1; ph <= 5; ph++ {
		p(`SecRule REQUEST_HEADERS:X-Deny "@streq p%d" "id:%d,phase:%d,deny,status:403,log,msg:'denied'"`, ph, 300+ph, ph)
	}
	for ph := 1; ph <= 4; ph++ {
		p(`SecRule REQUEST_HEADERS:X-Engine "@streq off%d" "id:%d,phase:%d,pass,nolog,ctl:ruleEngine=Off"`, ph, 600+ph, ph)
		p(`SecRule REQUEST_HEADERS:X-Engine "@streq det%d" "id:%d,phase:%d,pass,nolog,ctl:ruleEngine=DetectionOnly"`, ph, 610+ph, ph)
	}
	if c.Strict {
		p(`SecRule REQBODY_ERROR "!@eq 0" "id:400,phase:2,deny,status:400,log,msg:'request body error'"`)
	} else {
		p(`SecRule REQBODY_ERROR "!@eq 0" "id:400,phase:2,pass,log,msg:'request body error'"`)
	}
	p(`SecRule MULTIPART_STRICT_ERROR "!@eq 0" "id:410,phase:2,pass,log,msg:'multipart strict error'"`)
	p(`SecRule RESPONSE_BODY "@contains leak" "id:500,phase:4,pass,log,msg:'leak'"`)
	return b.String()
}

// ---- calls ------------------------------------------------------------------------------------

// c20Call is one step of a scenario. Ops:
//
//	conn uri hdr p1 wreq rreq rreqn readreq p2 rhdr p3 wres rres readres p4 p5   Transaction API
//	rmupload rmspill                                                             harness actions provoking real remove failures
//	bbw bbr bbwt                                                                 direct BodyBuffer API (kind bodybuffer)
type c20Call struct {
	Op   string `json:"op"`
	A    string `json:"a,omitempty"`
	B    string `json:"b,omitempty"`
	Data string `json:"data,omitempty"` // ASCII only
	N    int    `json:"n,omitempty"`
}

type c20Scenario struct {
	Name  string    `json:"name"`
	Kind  string    `json:"kind"`
	Conf  c20Conf   `json:"conf"`
	Calls []c20Call `json:"calls"`
	// ExpectAny: the fault-free run itself is a "failure" in the sense of the property (parse error,
	// over-limit body, interruption) and must show a trace with one of these prefixes.
	ExpectAny []string `json:"expect_any,omitempty"`
	// RealSite names the operation a real fault condition (Conf.Real or an rm* call) makes fail;
	// RealNeeds is the failpoint site the fault-free twin must reach for the condition to be effective.
	RealSite  string `json:"real_site,omitempty"`
	RealNeeds string `json:"real_needs,omitempty"`
}

func (s *c20Scenario) isReal() bool { return s.RealSite != "" }

// twin returns the same scenario without its real fault condition.
func (s *c20Scenario) twin() *c20Scenario {
	t := *s
	t.Conf.Real = ""
	t.RealSite, t.RealNeeds = "", ""
	t.Name = s.Name + "/twin"
	t.Calls = nil
	for _, c := range s.Calls {
		if c.Op == "rmupload" || c.Op == "rmupload1" || c.Op == "rmspill" {
			continue
		}
		t.Calls = append(t.Calls, c)
	}
	return &t
}

// ---- bodies -----------------------------------------------------------------------------------

const c20Boundary = "c20boundaryXYZ"

func c20Fill(n int, seed byte) string {
	b := make([]byte, n)
	for i := range b {
		b[i] = 'a' + (seed+byte(i))%26
	}
	return string(b)
}

func c20URLEncoded(n int, attack bool) string {
	s := "q=benign"
	if attack {
		s = "q=attack"
	}
	s += "&pad="
	if n > len(s) {
		s += c20Fill(n-len(s), 3)
	}
	return s
}

func c20Multipart(fileSizes []int, attack bool, fieldPad int) string {
	var buf bytes.Buffer
	mw := multipart.NewWriter(&buf)
	mw.SetBoundary(c20Boundary)
	v := "benign"
	if attack {
		v = "attack"
	}
	mw.WriteField("q", v)
	for i, sz := range fileSizes {
		h := textproto.MIMEHeader{}
		h.Set("Content-Disposition", fmt.Sprintf(`form-data; name="f%d"; filename="upload%d.txt"`, i, i))
		h.Set("Content-Type", "text/plain")
		pw, _ := mw.CreatePart(h)
		pw.Write([]byte(c20Fill(sz, byte(i))))
	}
	if fieldPad > 0 {
		mw.WriteField("pad", c20Fill(fieldPad, 7))
	}
	mw.Close()
	return buf.String()
}

const c20MultipartCT = "multipart/form-data; boundary=" + c20Boundary

func c20Chunks(s string, n int) []string {
	if n <= 0 || n >= len(s) {
		return []string{s}
	}
	var out []string
	for len(s) > n {
		out = append(out, s[:n])
		s = s[n:]
	}
	if len(s) > 0 {
		out = append(out, s)
	}
	return out
}

// ---- scenario builder -------------------------------------------------------------------------

type c20Opts struct {
	CT        string
	Body      string
	Chunk     int
	Via       string // write | readfrom | readfrom-nolen
	ReadBack  bool   // RequestBodyReader after the first chunk, after the last chunk and after phase 2
	Deny      int    // phase whose deny rule is triggered (0 none)
	ResBody   string
	ResChunk  int
	ResVia    string
	ReadRes   bool
	RmUpload  bool // delete the upload temp files before ProcessLogging/Close
	RmUpload1 bool // delete only the FIRST upload temp file: the remaining ones must still be removed by Close
	RmSpill   bool // delete the spill file before Close
	NoRespond bool
	// Engine: value of the X-Engine request header; "off<P>" / "det<P>" make a phase-P rule switch the rule engine
	// of this transaction with ctl:ruleEngine (whatever the mode, Close must clean up what the transaction created)
	Engine string
}

func c20Build(name, kind string, conf c20Conf, o c20Opts) *c20Scenario {
	s := &c20Scenario{Name: name, Kind: kind, Conf: conf}
	add := func(c c20Call) { s.Calls = append(s.Calls, c) }
	add(c20Call{Op: "conn"})
	add(c20Call{Op: "uri", A: "/c20/" + kind + "?id=7", B: "POST"})
	add(c20Call{Op: "hdr", A: "Host", B: "c20.example"})
	if o.CT != "" {
		add(c20Call{Op: "hdr", A: "Content-Type", B: o.CT})
	}
	if o.Engine != "" {
		add(c20Call{Op: "hdr", A: "X-Engine", B: o.Engine})
	}
	if o.Deny > 0 {
		add(c20Call{Op: "hdr", A: "X-Deny", B: fmt.Sprintf("p%d", o.Deny)})
	}
	add(c20Call{Op: "p1"})
	op := "wreq"
	switch o.Via {
	case "readfrom":
		op = "rreq"
	case "readfrom-nolen":
		op = "rreqn"
	}
	chunks := c20Chunks(o.Body, o.Chunk)
	if o.Body == "" {
		chunks = nil
	}
	for i, ch := range chunks {
		add(c20Call{Op: op, Data: ch})
		if o.ReadBack && (i == 0 || i == len(chunks)-1) {
			add(c20Call{Op: "readreq"})
		}
	}
	add(c20Call{Op: "p2"})
	if o.ReadBack {
		add(c20Call{Op: "readreq"})
	}
	if o.RmUpload {
		add(c20Call{Op: "rmupload"})
	}
	if o.RmUpload1 {
		add(c20Call{Op: "rmupload1"})
	}
	if !o.NoRespond {
		add(c20Call{Op: "rhdr", A: "Content-Type", B: "text/plain"})
		add(c20Call{Op: "p3", N: 200})
		rop := "wres"
		if o.ResVia == "readfrom" {
			rop = "rres"
		}
		res := o.ResBody
		if res == "" {
			res = "hello from the backend"
		}
		for _, ch := range c20Chunks(res, o.ResChunk) {
			add(c20Call{Op: rop, Data: ch})
		}
		if o.ReadRes {
			add(c20Call{Op: "readres"})
		}
		add(c20Call{Op: "p4"})
		if o.ReadRes {
			add(c20Call{Op: "readres"})
		}
	}
	if o.RmSpill {
		add(c20Call{Op: "rmspill"})
	}
	add(c20Call{Op: "p5"})
	return s
}

const c20JSONCT = "application/json"
const c20FormCT = "application/x-www-form-urlencoded"

// c20Scenarios lists the scenarios of a run. The fixed part is the same for every seed; the
// seeded part varies sizes, chunkings and option mixes.
func c20Scenarios(thorough bool, r *rand.Rand) []*c20Scenario {
	var out []*c20Scenario
	add := func(s *c20Scenario) { out = append(out, s) }
	own := func(c c20Conf) c20Conf { c.UploadDir = "own"; return c }
	real := func(s *c20Scenario, site, needs string) *c20Scenario { s.RealSite, s.RealNeeds = site, needs; return s }

	// memory-only body
	add(c20Build("memory/form", "memory", own(c20Conf{}), c20Opts{CT: c20FormCT, Body: c20URLEncoded(60, true), ReadBack: true, ReadRes: true}))
	add(c20Build("memory/nobody", "memory", own(c20Conf{}), c20Opts{}))
	// disk-spilled body, every entry point
	for _, via := range []string{"write", "readfrom", "readfrom-nolen"} {
		add(c20Build("spill/"+via, "spill", own(c20Conf{MemLimit: 64}), c20Opts{CT: c20FormCT, Body: c20URLEncoded(330, true), Chunk: 100, Via: via}))
	}
	add(c20Build("spill/first-chunk-spills", "spill", own(c20Conf{MemLimit: 16}), c20Opts{CT: c20FormCT, Body: c20URLEncoded(700, false), Chunk: 350}))
	add(c20Build("spill/no-processor", "spill", own(c20Conf{MemLimit: 64}), c20Opts{CT: "text/weird", Body: c20Fill(300, 1), Chunk: 100}))
	// read back through the reader before and after the spill
	add(c20Build("readback/write", "readback", own(c20Conf{MemLimit: 64}), c20Opts{CT: c20FormCT, Body: c20URLEncoded(330, true), Chunk: 50, ReadBack: true}))
	add(c20Build("readback/readfrom", "readback", own(c20Conf{MemLimit: 128}), c20Opts{CT: c20FormCT, Body: c20URLEncoded(1500, false), Chunk: 100, Via: "readfrom", ReadBack: true}))
	// response body
	add(c20Build("response/plain", "response", own(c20Conf{}), c20Opts{ResBody: "a leak in " + c20Fill(200, 2), ResChunk: 64, ReadRes: true}))
	add(c20Build("response/readfrom", "response", own(c20Conf{MemLimit: 64}), c20Opts{CT: c20FormCT, Body: c20URLEncoded(200, false), Chunk: 100, ResBody: "leak " + c20Fill(100, 2), ResVia: "readfrom", ReadRes: true}))
	add(withExpect(c20Build("response/over-limit-reject", "over-limit", own(c20Conf{ResLimit: 50, ResAction: "Reject"}), c20Opts{ResBody: c20Fill(120, 2), ResChunk: 40, ReadRes: true}), "var:OUTBOUND_DATA_ERROR", "intr:"))
	add(withExpect(c20Build("response/over-limit-partial", "over-limit", own(c20Conf{ResLimit: 50, ResAction: "ProcessPartial"}), c20Opts{ResBody: c20Fill(120, 2), ResChunk: 40, ReadRes: true}), "var:OUTBOUND_DATA_ERROR", "intr:"))

	// multipart: files x keep-files mode x logged match
	type keepMode struct {
		name, keep string
		attack     bool
	}
	keeps := []keepMode{{"off", "Off", true}, {"on", "On", false}, {"relevant-hit", "RelevantOnly", true}, {"relevant-nohit", "RelevantOnly", false}}
	sizes := [][]int{{}, {120}, {120, 30}, {120, 30, 300}}
	for _, km := range keeps {
		for nf, sz := range sizes {
			mem := 0
			if nf%2 == 1 {
				mem = 64 // the multipart body itself is spilled as well
			}
			add(c20Build(fmt.Sprintf("multipart/%s/%dfiles", km.name, nf), "multipart", own(c20Conf{Keep: km.keep, MemLimit: mem}),
				c20Opts{CT: c20MultipartCT, Body: c20Multipart(sz, km.attack, 20), Chunk: 150}))
		}
	}
	// the rule engine switched by ctl after the uploads were stored (or before the body is read)
	for _, eng := range []string{"off2", "det2", "off3", "off1", "off4"} {
		add(c20Build("multipart/off/engine-"+eng+"/2files", "multipart", own(c20Conf{Keep: "Off", MemLimit: 64}),
			c20Opts{CT: c20MultipartCT, Body: c20Multipart([]int{120, 30}, true, 20), Chunk: 150, Engine: eng}))
	}
	add(c20Build("multipart/relevant-nohit/engine-off2/2files", "multipart", own(c20Conf{Keep: "RelevantOnly"}),
		c20Opts{CT: c20MultipartCT, Body: c20Multipart([]int{120, 30}, false, 20), Chunk: 150, Engine: "off2"}))
	add(c20Build("spill/engine-off2", "spill", own(c20Conf{MemLimit: 64}), c20Opts{CT: c20FormCT, Body: c20URLEncoded(330, true), Chunk: 100, Engine: "off2", ReadBack: true}))
	add(c20Build("multipart/relevant-hit-nolog-auditlog/2files", "multipart", own(c20Conf{Keep: "RelevantOnly", AttackNolog: true}),
		c20Opts{CT: c20MultipartCT, Body: c20Multipart([]int{120, 30}, true, 20), Chunk: 150}))
	add(c20Build("multipart/nodir/2files", "multipart", c20Conf{MemLimit: 64}, c20Opts{CT: c20MultipartCT, Body: c20Multipart([]int{120, 30}, true, 0), Chunk: 150}))
	add(c20Build("multipart/strict/2files", "multipart", own(c20Conf{Keep: "Off", Strict: true}), c20Opts{CT: c20MultipartCT, Body: c20Multipart([]int{120, 30}, false, 0), Chunk: 150}))

	// audit logging
	for _, aw := range []string{"serial", "concurrent"} {
		for _, f := range []string{"Native", "JSON"} {
			add(c20Build("audit/"+aw+"/"+strings.ToLower(f)+"/spill", "audit", own(c20Conf{Audit: aw, AuditFmt: f, MemLimit: 64}),
				c20Opts{CT: c20FormCT, Body: c20URLEncoded(330, true), Chunk: 100}))
		}
		add(c20Build("audit/"+aw+"/multipart", "audit", own(c20Conf{Audit: aw, Keep: "Off", MemLimit: 64}),
			c20Opts{CT: c20MultipartCT, Body: c20Multipart([]int{120, 30}, true, 0), Chunk: 150}))
	}

	// interruption in each phase (the connector goes on calling, which is legal; stopping is covered by abandonment points)
	for ph := 1; ph <= 5; ph++ {
		add(withExpect(c20Build(fmt.Sprintf("interrupt/p%d/spill", ph), "interrupt", own(c20Conf{MemLimit: 64, Audit: "serial"}),
			c20Opts{CT: c20FormCT, Body: c20URLEncoded(330, false), Chunk: 100, Deny: ph, ReadRes: true}), "intr:"))
		add(withExpect(c20Build(fmt.Sprintf("interrupt/p%d/multipart", ph), "interrupt", own(c20Conf{MemLimit: 64, Keep: "Off"}),
			c20Opts{CT: c20MultipartCT, Body: c20Multipart([]int{120, 30}, false, 0), Chunk: 150, Deny: ph}), "intr:"))
	}

	// body parse errors
	add(withExpect(c20Build("parse-error/json/spill", "parse-error", own(c20Conf{MemLimit: 64}),
		c20Opts{CT: c20JSONCT, Body: `{"a": [1, 2, "` + c20Fill(200, 4), Chunk: 100}), "var:REQBODY_ERROR"))
	add(withExpect(c20Build("parse-error/json/memory", "parse-error", own(c20Conf{Strict: true}),
		c20Opts{CT: c20JSONCT, Body: `{"a": [1, 2, `}), "var:REQBODY_ERROR"))
	mp := c20Multipart([]int{120, 30}, true, 0)
	// a multipart body that ends early is accepted by design (io.ErrUnexpectedEOF is tolerated so that
	// ProcessPartial works); whether that is a parse error is not pinned, so nothing is expected of it
	add(c20Build("truncated/multipart", "truncated", own(c20Conf{MemLimit: 64, Keep: "Off"}),
		c20Opts{CT: c20MultipartCT, Body: mp[:len(mp)*2/3], Chunk: 150}))
	add(withExpect(c20Build("parse-error/multipart/bad-part-header", "parse-error", own(c20Conf{MemLimit: 64, Keep: "Off"}),
		c20Opts{CT: c20MultipartCT, Body: strings.Replace(mp, "Content-Type: text/plain", "no colon here", 1), Chunk: 150}), "var:REQBODY_ERROR", "var:MULTIPART_STRICT_ERROR"))
	add(withExpect(c20Build("parse-error/multipart/no-boundary", "parse-error", own(c20Conf{MemLimit: 64, Keep: "Off"}),
		c20Opts{CT: "multipart/form-data; boundary", Body: mp, Chunk: 150}), "var:REQBODY_ERROR", "var:MULTIPART_STRICT_ERROR"))

	// body over the limit
	for _, act := range []string{"Reject", "ProcessPartial"} {
		for _, via := range []string{"write", "readfrom", "readfrom-nolen"} {
			add(withExpect(c20Build("over-limit/"+strings.ToLower(act)+"/"+via, "over-limit", own(c20Conf{MemLimit: 64, ReqLimit: 250, ReqAction: act}),
				c20Opts{CT: c20FormCT, Body: c20URLEncoded(420, true), Chunk: 100, Via: via, ReadBack: via == "write"}), "var:INBOUND_DATA_ERROR", "intr:"))
		}
		add(withExpect(c20Build("over-limit/"+strings.ToLower(act)+"/multipart", "over-limit", own(c20Conf{MemLimit: 64, ReqLimit: 400, ReqAction: act, Keep: "Off"}),
			c20Opts{CT: c20MultipartCT, Body: c20Multipart([]int{120, 30, 300}, true, 0), Chunk: 150}), "var:INBOUND_DATA_ERROR", "intr:"))
	}

	// the HTTP middleware (owns the transaction; must always run ProcessLogging and Close)
	http := func(name string, conf c20Conf, ct, body, deny string) *c20Scenario {
		return &c20Scenario{Name: "http/" + name, Kind: "http", Conf: conf, Calls: []c20Call{{Op: "http", A: ct, B: deny, Data: body}}}
	}
	add(http("form/spill", own(c20Conf{MemLimit: 64}), c20FormCT, c20URLEncoded(330, true), ""))
	add(http("form/memory", own(c20Conf{}), c20FormCT, c20URLEncoded(60, true), ""))
	add(http("multipart/off", own(c20Conf{MemLimit: 64, Keep: "Off"}), c20MultipartCT, c20Multipart([]int{120, 30}, true, 0), ""))
	add(http("multipart/on", own(c20Conf{MemLimit: 64, Keep: "On"}), c20MultipartCT, c20Multipart([]int{120, 30}, false, 0), ""))
	add(http("multipart/audit-serial", own(c20Conf{MemLimit: 64, Keep: "Off", Audit: "serial"}), c20MultipartCT, c20Multipart([]int{120}, true, 0), ""))
	add(http("form/audit-concurrent", own(c20Conf{MemLimit: 64, Audit: "concurrent"}), c20FormCT, c20URLEncoded(330, true), ""))
	for ph := 1; ph <= 4; ph++ {
		add(http(fmt.Sprintf("deny-p%d/multipart", ph), own(c20Conf{MemLimit: 64, Keep: "Off"}), c20MultipartCT, c20Multipart([]int{120, 30}, false, 0), fmt.Sprintf("p%d", ph)))
	}
	add(http("json/parse-error", own(c20Conf{MemLimit: 64, Strict: true}), c20JSONCT, `{"a": [1, 2, "`+c20Fill(200, 4), ""))
	add(http("over-limit/reject", own(c20Conf{MemLimit: 64, ReqLimit: 250, ReqAction: "Reject"}), c20FormCT, c20URLEncoded(420, true), ""))
	add(http("over-limit/partial", own(c20Conf{MemLimit: 64, ReqLimit: 250, ReqAction: "ProcessPartial"}), c20FormCT, c20URLEncoded(420, true), ""))
	add(real(http("real/tmpdir-removed", own(c20Conf{MemLimit: 64, Real: "tmpdir-removed"}), c20FormCT, c20URLEncoded(330, true), ""), "bodybuffer.createtemp", "bodybuffer.createtemp"))
	add(real(http("real/fsize0-multipart", own(c20Conf{Keep: "Off", Real: "fsize:0"}), c20MultipartCT, c20Multipart([]int{120, 30}, true, 0), ""), "multipart.copy", "multipart.copy"))
	add(real(http("real/devfull-audit-serial", own(c20Conf{Audit: "serial", Real: "audit-devfull"}), c20FormCT, c20URLEncoded(100, true), ""), "auditlog.serial.write", ""))

	// the body buffer used directly (reaches WriteTo)
	add(&c20Scenario{Name: "bodybuffer/spill", Kind: "bodybuffer", Conf: c20Conf{MemLimit: 64, ReqLimit: 4096}, Calls: []c20Call{
		{Op: "bbw", Data: c20Fill(50, 1)}, {Op: "bbr"}, {Op: "bbw", Data: c20Fill(50, 2)}, {Op: "bbr"}, {Op: "bbw", Data: c20Fill(50, 3)}, {Op: "bbwt"}, {Op: "bbr"}}})
	add(&c20Scenario{Name: "bodybuffer/memory", Kind: "bodybuffer", Conf: c20Conf{MemLimit: 4096, ReqLimit: 4096}, Calls: []c20Call{
		{Op: "bbw", Data: c20Fill(50, 1)}, {Op: "bbr"}, {Op: "bbwt"}}})

	// ---- real (non-injected) faults ----
	spill := c20Opts{CT: c20FormCT, Body: c20URLEncoded(330, true), Chunk: 100}
	mp2 := c20Opts{CT: c20MultipartCT, Body: c20Multipart([]int{120, 30}, true, 0), Chunk: 150}
	add(real(c20Build("real/tmpdir-removed/spill", "real-spill", own(c20Conf{MemLimit: 64, Real: "tmpdir-removed"}), spill), "bodybuffer.createtemp", "bodybuffer.createtemp"))
	add(real(c20Build("real/tmpdir-is-file/spill", "real-spill", own(c20Conf{MemLimit: 64, Real: "tmpdir-is-file"}), c20Opts{CT: c20FormCT, Body: c20URLEncoded(330, true), Chunk: 100, Via: "readfrom"}), "bodybuffer.createtemp", "bodybuffer.createtemp"))
	add(real(c20Build("real/uploaddir-removed/multipart", "real-multipart", own(c20Conf{Keep: "Off", Real: "uploaddir-removed"}), mp2), "multipart.createtemp", "multipart.createtemp"))
	add(real(c20Build("real/uploaddir-is-file/multipart", "real-multipart", own(c20Conf{Keep: "Off", Real: "uploaddir-is-file"}), mp2), "multipart.createtemp", "multipart.createtemp"))
	add(real(c20Build("real/tmpdir-removed/multipart-nodir", "real-multipart", c20Conf{Real: "tmpdir-removed"}, mp2), "multipart.createtemp", "multipart.createtemp"))
	o := mp2
	o.RmUpload = true
	add(real(c20Build("real/upload-deleted/multipart", "real-multipart", own(c20Conf{Keep: "Off"}), o), "tx.close.removeupload", "multipart.copy"))
	o = c20Opts{CT: c20MultipartCT, Body: c20Multipart([]int{40, 90, 20}, true, 0), Chunk: 150, RmUpload1: true}
	add(real(c20Build("real/first-upload-deleted/multipart3", "real-multipart", own(c20Conf{Keep: "Off"}), o), "tx.close.removeupload", "multipart.copy"))
	o = spill
	o.RmSpill = true
	add(real(c20Build("real/spill-deleted/spill", "real-spill", own(c20Conf{MemLimit: 64}), o), "bodybuffer.remove", "bodybuffer.remove"))
	for _, lim := range []int{0, 150} {
		add(real(c20Build(fmt.Sprintf("real/fsize%d/spill", lim), "real-spill", own(c20Conf{MemLimit: 64, Real: fmt.Sprintf("fsize:%d", lim)}), spill), "bodybuffer.write", "bodybuffer.write"))
	}
	add(real(c20Build("real/fsize0/spill-first-chunk", "real-spill", own(c20Conf{MemLimit: 16, Real: "fsize:0"}), c20Opts{CT: c20FormCT, Body: c20URLEncoded(300, true), Chunk: 10}), "bodybuffer.spillwrite", "bodybuffer.spillwrite"))
	add(real(c20Build("real/fsize0/multipart", "real-multipart", own(c20Conf{Keep: "Off", Real: "fsize:0"}), mp2), "multipart.copy", "multipart.copy"))
	add(real(c20Build("real/devfull/audit-serial", "real-audit", own(c20Conf{Audit: "serial", Real: "audit-devfull"}), spill), "auditlog.serial.write", ""))
	add(real(c20Build("real/devfull/audit-serial-json", "real-audit", own(c20Conf{Audit: "serial", AuditFmt: "JSON", Real: "audit-devfull"}), spill), "auditlog.serial.write", ""))
	add(real(c20Build("real/fsize0/audit-serial", "real-audit", own(c20Conf{Audit: "serial", Real: "fsize:0"}), c20Opts{CT: c20FormCT, Body: c20URLEncoded(40, true)}), "auditlog.serial.write", ""))
	add(real(c20Build("real/devfull/audit-concurrent-index", "real-audit", own(c20Conf{Audit: "concurrent", Real: "audit-devfull"}), spill), "auditlog.concurrent.index", ""))
	add(real(c20Build("real/dir-below-file/audit-concurrent", "real-audit", own(c20Conf{Audit: "concurrent", Real: "audit-dir-below-file"}), spill), "auditlog.concurrent.mkdir", "auditlog.concurrent.mkdir"))
	add(real(c20Build("real/fsize0/audit-concurrent", "real-audit", own(c20Conf{Audit: "concurrent", Real: "fsize:0"}), c20Opts{CT: c20FormCT, Body: c20URLEncoded(40, true)}), "auditlog.concurrent.writefile", "auditlog.concurrent.writefile"))

	// ---- seeded variants ----
	nvar := 12
	if thorough {
		nvar = 300
	}
	vias := []string{"write", "readfrom", "readfrom-nolen"}
	for i := 0; i < nvar; i++ {
		conf := own(c20Conf{MemLimit: []int{8, 33, 64, 200, 1024}[r.IntN(5)]})
		if r.IntN(3) == 0 {
			conf.Audit = []string{"serial", "concurrent"}[r.IntN(2)]
			conf.AuditFmt = []string{"Native", "JSON"}[r.IntN(2)]
		}
		if r.IntN(4) == 0 {
			conf.Strict = true
		}
		o := c20Opts{Via: vias[r.IntN(3)], ReadBack: r.IntN(3) == 0, ReadRes: r.IntN(3) == 0}
		if r.IntN(5) == 0 {
			o.Deny = 1 + r.IntN(5)
		}
		kind := "spill"
		switch r.IntN(3) {
		case 0:
			o.CT = c20FormCT
			o.Body = c20URLEncoded(20+r.IntN(1500), r.IntN(2) == 0)
		case 1:
			kind = "multipart"
			conf.Keep = []string{"Off", "On", "RelevantOnly"}[r.IntN(3)]
			nf := r.IntN(4)
			var sz []int
			for j := 0; j < nf; j++ {
				sz = append(sz, r.IntN(600))
			}
			o.CT = c20MultipartCT
			o.Body = c20Multipart(sz, r.IntN(2) == 0, r.IntN(100))
			if r.IntN(6) == 0 {
				kind = "parse-error"
				o.Body = o.Body[:len(o.Body)-1-r.IntN(len(o.Body)/2)]
			}
		case 2:
			o.CT = c20JSONCT
			o.Body = `{"q": "attack", "pad": "` + c20Fill(r.IntN(800), 5) + `"}`
			if r.IntN(3) == 0 {
				kind = "parse-error"
				o.Body = o.Body[:len(o.Body)-1-r.IntN(len(o.Body)/2)]
			}
		}
		o.Chunk = 1 + r.IntN(len(o.Body)+10)
		if o.Chunk < len(o.Body)/12 {
			o.Chunk = len(o.Body)/12 + 1 // keep the number of calls (and hence of fault points) bounded
		}
		if r.IntN(4) == 0 {
			conf.ReqLimit = conf.MemLimit + r.IntN(len(o.Body)+50)
			conf.ReqAction = []string{"Reject", "ProcessPartial"}[r.IntN(2)]
			if kind != "parse-error" {
				kind = "limit-mix"
			}
		}
		if kind == "parse-error" {
			kind = "parse-error-mix" // whether the cut really makes the body invalid is not pinned: no ExpectAny
		}
		o.ResBody = c20Fill(r.IntN(300), 9)
		o.ResChunk = 1 + r.IntN(200)
		if o.ResChunk < 30 {
			o.ResChunk = 30
		}
		add(c20Build(fmt.Sprintf("seeded/%d/%s", i, kind), kind, conf, o))
	}
	return out
}

func withExpect(s *c20Scenario, any ...string) *c20Scenario { s.ExpectAny = any; return s }
