package props

import (
	"bytes"
	"fmt"
	"net/http"
	"sort"
	"strings"

	"verif/internal/fw"
)

// c18Sim is the outcome of interpreting a script against net/http's documented ResponseWriter
// semantics (used only to steer the blocking model; the bare server is the pass-through oracle).
type c18Sim struct {
	Committed   bool        // an explicit commit happened (WriteHeader(non-1xx) / Write / Flush / ReadFrom)
	Status      int         // final status (200 if implicit)
	CommitHdr   http.Header // header map at the commit point (at handler end if never committed)
	Attempted   []byte      // every byte the handler tried to write, in order
	Info        []int       // 1xx codes sent before the commit
	SetCT       bool        // Content-Type present at the commit point
	Flushes     int
	ReadFroms   int
	LateHeaders bool // header edits after the commit point
	LateKeys    map[string]bool
}

func c18Simulate(sc *c18Script) *c18Sim {
	s := &c18Sim{LateKeys: map[string]bool{}}
	h := http.Header{}
	commit := func(code int) {
		if !s.Committed {
			s.Committed = true
			s.Status = code
			s.CommitHdr = h.Clone()
		}
	}
	for _, op := range sc.Ops {
		switch op.Op {
		case "hdr":
			h.Set(op.K, op.V)
			if s.Committed {
				s.LateHeaders = true
				s.LateKeys[http.CanonicalHeaderKey(op.K)] = true
			}
		case "addhdr":
			h.Add(op.K, op.V)
			if s.Committed {
				s.LateHeaders = true
				s.LateKeys[http.CanonicalHeaderKey(op.K)] = true
			}
		case "delhdr":
			h.Del(op.K)
			if s.Committed {
				s.LateHeaders = true
				s.LateKeys[http.CanonicalHeaderKey(op.K)] = true
			}
		case "status":
			if op.Code >= 100 && op.Code < 200 && op.Code != 101 {
				if !s.Committed {
					s.Info = append(s.Info, op.Code)
				}
			} else {
				commit(op.Code)
			}
		case "write":
			commit(200)
			s.Attempted = append(s.Attempted, op.Data...)
		case "readfrom":
			s.ReadFroms++
			if len(op.Data) == 0 {
				continue // a reader at EOF: ReadFrom / io.Copy never call Write, nothing is committed
			}
			commit(200)
			s.Attempted = append(s.Attempted, op.Data...)
		case "flush":
			commit(200)
			s.Flushes++
		}
	}
	if !s.Committed {
		s.Status = 200
		s.CommitHdr = h.Clone()
	}
	s.SetCT = s.CommitHdr.Get("Content-Type") != ""
	return s
}

func c18BodyAllowed(status int) bool {
	return !(status >= 100 && status < 200) && status != 204 && status != 304
}

// c18Exp is the model's expectation for the wrapped side.
type c18Exp struct {
	Kind      string `json:"kind"`            // pass | block
	Phase     int    `json:"phase,omitempty"` // phase of the interruption
	Why       string `json:"why,omitempty"`   // rule | reqlimit | resplimit
	Action    string `json:"action,omitempty"`
	Status    int    `json:"status,omitempty"`
	Location  string `json:"location,omitempty"`
	NoCommit  bool   `json:"handler_never_commits,omitempty"` // response-phase block expected although the handler never writes
	AtLimit   string `json:"at_limit,omitempty"`              // "req" / "resp": a body exactly at the limit under Reject; rejection is accepted too
	Ambiguous string `json:"ambiguous,omitempty"`
}

func c18HasTok(blk string, ph int) bool {
	return strings.Contains(blk, fmt.Sprintf("p%d", ph))
}

func c18RuleStatus(ru *c18Rule) int {
	switch ru.Action {
	case "deny":
		if ru.Status != 0 {
			return ru.Status
		}
		return 403
	case "redirect":
		switch ru.Status {
		case 301, 302, 303, 307:
			return ru.Status
		}
		return 302
	}
	return ru.Status // drop: no status of its own
}

func c18MimeIn(ct string, list []string) bool {
	name, _, _ := strings.Cut(ct, ";")
	for _, m := range list {
		if m == name {
			return true
		}
	}
	return false
}

func c18Expect(c *c18Case, sim *c18Sim) *c18Exp {
	cfg, rq := c.Cfg, c.Req
	block := func(ph int, ru *c18Rule) *c18Exp {
		return &c18Exp{Kind: "block", Phase: ph, Why: "rule", Action: ru.Action, Status: c18RuleStatus(ru), Location: ru.URL}
	}
	atLimit := ""
	if cfg.CtlEngineDO {
		return &c18Exp{Kind: "pass"}
	}
	// phase 1
	if ru := cfg.rule(1); ru != nil && c18HasTok(rq.Blk, 1) {
		return block(1, ru)
	}
	// request body buffering
	var processed []byte
	inspected := false
	if cfg.ReqAccess && len(rq.Body) > 0 {
		inspected = true
		n := len(rq.Body)
		processed = rq.Body
		if cfg.ReqReject {
			if n > cfg.ReqLimit {
				return &c18Exp{Kind: "block", Phase: 2, Why: "reqlimit", Action: "deny", Status: 413}
			}
			if n == cfg.ReqLimit {
				atLimit = "req"
			}
		} else if n > cfg.ReqLimit {
			processed = rq.Body[:cfg.ReqLimit]
		}
	}
	// phase 2
	if ru := cfg.rule(2); ru != nil {
		switch ru.Steer {
		case "reqhdr":
			if c18HasTok(rq.Blk, 2) {
				e := block(2, ru)
				e.AtLimit = atLimit
				return e
			}
		case "reqbody":
			whole := bytes.Contains(rq.Body, []byte(c18ReqMarker))
			switch {
			case !inspected:
				// REQUEST_BODY / ARGS_POST are not populated without body access: no match
			case rq.CT == "application/x-www-form-urlencoded":
				if bytes.Contains(processed, []byte(c18ReqMarker)) {
					e := block(2, ru)
					e.AtLimit = atLimit
					return e
				}
			case rq.CT == "application/json":
				if whole {
					if len(processed) == len(rq.Body) {
						e := block(2, ru)
						e.AtLimit = atLimit
						return e
					}
					return &c18Exp{Ambiguous: "json-partially-processed"}
				}
			default:
				if whole {
					return &c18Exp{Ambiguous: "marker-in-unparsed-body"}
				}
			}
		}
	}
	// phase 3
	if ru := cfg.rule(3); ru != nil {
		m := false
		switch ru.Steer {
		case "reqhdr":
			m = c18HasTok(rq.Blk, 3)
		case "resphdr":
			m = c18HasTok(strings.Join(sim.CommitHdr.Values(c18RespSteer), ","), 3)
		}
		if m {
			e := block(3, ru)
			e.NoCommit = !sim.Committed
			e.AtLimit = atLimit
			return e
		}
	}
	// phase 4 (evaluated by the middleware only when the response body is buffered)
	buffered := c18Buffered(cfg, sim.CommitHdr.Get("Content-Type"))
	if buffered {
		att := sim.Attempted
		proc := att
		ratLimit := ""
		if cfg.RespReject {
			if len(att) > cfg.RespLimit {
				return &c18Exp{Kind: "block", Phase: 4, Why: "resplimit", Action: "deny", Status: 500, NoCommit: !sim.Committed, AtLimit: atLimit}
			}
			if len(att) == cfg.RespLimit {
				ratLimit = "resp"
			}
		} else if len(att) > cfg.RespLimit {
			proc = att[:cfg.RespLimit]
		}
		if ru := cfg.rule(4); ru != nil {
			m := false
			switch ru.Steer {
			case "reqhdr":
				m = c18HasTok(rq.Blk, 4)
			case "resphdr":
				m = c18HasTok(strings.Join(sim.CommitHdr.Values(c18RespSteer), ","), 4)
			case "respbody":
				m = bytes.Contains(proc, []byte(c18RespMarker))
				if m && (!c18BodyAllowed(sim.Status) || rq.Method == "HEAD") {
					return &c18Exp{Ambiguous: "response-body-of-bodyless-response"}
				}
			}
			if m {
				e := block(4, ru)
				e.NoCommit = !sim.Committed
				e.AtLimit = atLimit + ratLimit
				return e
			}
		}
		if ratLimit != "" {
			atLimit = ratLimit + atLimit
		}
	} else if ru := cfg.rule(4); ru != nil && ru.Steer != "respbody" {
		m := false
		switch ru.Steer {
		case "reqhdr":
			m = c18HasTok(rq.Blk, 4)
		case "resphdr":
			m = c18HasTok(strings.Join(sim.CommitHdr.Values(c18RespSteer), ","), 4)
		}
		if m {
			// a phase-4 rule on non-body data while the body is streamed unbuffered: not pinned
			return &c18Exp{Ambiguous: "phase4-rule-without-body-buffering"}
		}
	}
	return &c18Exp{Kind: "pass", AtLimit: atLimit}
}

var c18Masked = map[string]bool{"Content-Length": true, "Transfer-Encoding": true, "Date": true, "Connection": true}

func c18HeaderDiff(bare, wr map[string][]string, maskCT bool) (kind, detail string) {
	keys := map[string]bool{}
	for k := range bare {
		keys[k] = true
	}
	for k := range wr {
		keys[k] = true
	}
	ks := make([]string, 0, len(keys))
	for k := range keys {
		ks = append(ks, k)
	}
	sort.Strings(ks)
	for _, k := range ks {
		if c18Masked[k] || (maskCT && k == "Content-Type") {
			continue
		}
		b, bok := bare[k]
		w, wok := wr[k]
		switch {
		case bok && !wok:
			return "header-lost", fmt.Sprintf("header %s: bare %q, wrapped absent", k, b)
		case !bok && wok:
			return "header-added", fmt.Sprintf("header %s: bare absent, wrapped %q", k, w)
		case strings.Join(b, "\x00") != strings.Join(w, "\x00"):
			return "header-value", fmt.Sprintf("header %s: bare %q, wrapped %q", k, b, w)
		}
	}
	return "", ""
}

func c18StatusClass(code int) string {
	switch {
	case code == 204 || code == 304:
		return fmt.Sprint(code)
	case code >= 100 && code < 600:
		return fmt.Sprintf("%dxx", code/100)
	}
	return "none"
}

type c18Observed struct {
	Bare    *c18Obs `json:"bare"`
	Wrapped *c18Obs `json:"wrapped"`
}

func c18PopSuffix(c *c18Case, e *c18Exp) string {
	if e.Why == "rule" && e.Action != "deny" {
		return e.Action
	}
	return ""
}

// c18Judge executes one triple and applies the oracles.
func c18Judge(w *fw.W, env *c18Env, c *c18Case) {
	sim := c18Simulate(c.Script)
	exp := c18Expect(c, sim)
	if exp.Ambiguous != "" {
		w.Count("ambiguous_skipped", 1)
		w.Cover("ambiguous_reasons", exp.Ambiguous)
		w.Count("ambiguous: "+exp.Ambiguous, 1)
		return
	}
	w.Trace(c)
	bare, wr := env.Exec(c)
	w.Eval(1)
	w.Count("triples", 1)
	w.Count("triples_pop_"+c.Cfg.Pop, 1)
	obs := &c18Observed{Bare: bare, Wrapped: wr}
	viol := func(class, detail string) {
		w.Violation(class, "differential+blocking-model", c, exp, obs, detail)
	}

	// harness sanity: the bare side must have answered and run the handler exactly once
	if bare.Resp.Err != "" || bare.Resp.BodyErr != "" || bare.Hung || bare.Handler.Invoked != 1 {
		w.Count("bare_error_skipped", 1)
		w.Cover("bare_errors", bare.Resp.Err+"|"+bare.Resp.BodyErr)
		return
	}
	if wr.Hung {
		viol("hang:server-side-did-not-finish", "the wrapped server did not finish the request within 10 s")
		return
	}
	if wr.Handler.Invoked > 1 {
		viol("passthrough:handler-invoked-twice", fmt.Sprintf("handler invoked %d times", wr.Handler.Invoked))
		return
	}

	// coverage
	w.Cover("status_classes", c18StatusClass(bare.Resp.Status))
	w.Cover("methods", c.Req.Method)
	w.Count("flushes", sim.Flushes)
	w.Count("readfrom", sim.ReadFroms)
	if len(sim.Info) > 0 {
		w.Count("informational_scripts", 1)
	}
	if c.Req.Chunked && len(c.Req.Body) > 0 {
		w.Count("chunked_requests", 1)
	}
	if c.Cfg.ReqAccess && len(c.Req.Body) > c.Cfg.ReqMemLimit && (exp.Kind == "pass" || exp.Phase >= 2) && exp.Why != "reqlimit" {
		w.Count("spill_to_disk_cases", 1)
	}
	if c.Cfg.ReqAccess && len(c.Req.Body) > 0 {
		switch n, l := len(c.Req.Body), c.Cfg.ReqLimit; {
		case n < l:
			w.Count("reqsize_below_limit", 1)
		case n == l:
			w.Count("reqsize_at_limit", 1)
		default:
			w.Count("reqsize_above_limit", 1)
		}
	}

	hash := fw.Hash(c.Text) ^ fw.Hash(c.Req)*3 ^ fw.Hash(c.Script)*7

	// at-limit alternative: a body exactly at the limit under Reject may be rejected (C10 decides)
	if strings.Contains(exp.AtLimit, "req") && wr.Resp.Status == 413 && bare.Resp.Status != 413 {
		// rejected at the limit: from here on judged as a request-limit rejection
		w.Count("at_limit_either", 1)
		exp = &c18Exp{Kind: "block", Phase: 2, Why: "reqlimit", Action: "deny", Status: 413}
	}
	if strings.Contains(exp.AtLimit, "resp") && wr.Resp.Status == 500 && len(wr.Resp.Body) == 0 && wr.Resp.Err == "" {
		w.Count("at_limit_either", 1)
		return
	}

	if exp.Kind == "block" {
		label := fmt.Sprintf("phase%d", exp.Phase)
		if exp.Why != "rule" {
			label = exp.Why
		}
		suffix := ""
		if exp.NoCommit {
			suffix = ":handler-never-writes"
		}
		act := c18PopSuffix(c, exp)
		// drop: the connection is closed without an HTTP response
		if act == "drop" {
			w.Count("blocked_drop", 1)
			if exp.Phase <= 2 && wr.Handler.Invoked != 0 {
				viol("block:handler-invoked:drop", "drop in a request phase but the handler ran")
				return
			}
			if wr.Resp.Err == "" {
				if len(wr.Resp.Body) > 0 {
					viol("block:body-leak:drop"+suffix, fmt.Sprintf("drop in phase %d but the client received %d body bytes", exp.Phase, len(wr.Resp.Body)))
					return
				}
				viol("block:drop-answered"+suffix, fmt.Sprintf("drop in phase %d: the client received an HTTP response with status %d instead of a closed connection", exp.Phase, wr.Resp.Status))
				return
			}
			w.Nontrivial(hash)
			return
		}
		if wr.Resp.Err != "" {
			viol("block:transport-error:"+label, "client error "+wr.Resp.Err)
			return
		}
		if exp.Phase <= 2 && wr.Handler.Invoked != 0 {
			viol("block:handler-invoked:"+label, fmt.Sprintf("interrupted in a request phase (%s) but the handler ran", label))
			return
		}
		if len(wr.Resp.Body) > 0 {
			viol("block:body-leak:"+label+suffix, fmt.Sprintf("interrupted (%s) but the client received %d body bytes", label, len(wr.Resp.Body)))
			return
		}
		if wr.Resp.Status != exp.Status {
			cl := "block:status:" + label
			if act == "redirect" {
				cl = "block:redirect-status"
				if exp.Phase >= 3 {
					cl = "block:redirect-status:response-phase"
				}
			}
			viol(cl+suffix, fmt.Sprintf("interrupted (%s, %s): expected status %d, client got %d (bare handler: %d)", label, exp.Action, exp.Status, wr.Resp.Status, bare.Resp.Status))
			return
		}
		if act == "redirect" {
			if got := strings.Join(wr.Resp.Header["Location"], ","); got != exp.Location {
				viol("block:redirect-location"+suffix, fmt.Sprintf("redirect interruption: expected Location %q, got %q", exp.Location, got))
				return
			}
			w.Count("blocked_redirect", 1)
		}
		if exp.Phase <= 2 {
			// none of the handler's output: it never ran, so its headers cannot be there; check anyway
			for _, k := range []string{"X-A", "X-Multi", "Set-Cookie", "X-Late", c18RespSteer} {
				if _, ok := wr.Resp.Header[k]; ok {
					viol("block:handler-header-leak:"+label, "header "+k+" of the handler reached the client")
					return
				}
			}
		}
		w.Count("blocked_"+label, 1)
		if exp.Phase <= 2 {
			w.Count("blocked_request_phase", 1)
		} else {
			w.Count("blocked_response_phase", 1)
		}
		if bare.Resp.Status != exp.Status || len(bare.Resp.Body) > 0 {
			w.Nontrivial(hash)
		}
		return
	}

	// ---- pass-through
	if wr.Resp.Err != "" {
		viol("passthrough:transport-error", "client error "+wr.Resp.Err)
		return
	}
	if wr.Handler.Invoked != 1 {
		viol("passthrough:handler-not-invoked", fmt.Sprintf("nothing should interrupt, but the handler was not invoked; client status %d", wr.Resp.Status))
		return
	}
	// request direction
	if !bytes.Equal(wr.Handler.Read, bare.Handler.Read) || wr.Handler.ReadEOF != bare.Handler.ReadEOF || wr.Handler.ReadErr != bare.Handler.ReadErr {
		cl := "passthrough:request-body-altered"
		switch {
		case wr.Handler.ReadErr != bare.Handler.ReadErr:
			cl = "passthrough:request-body-read-error"
		case len(wr.Handler.Read) < len(bare.Handler.Read) && bytes.HasPrefix(bare.Handler.Read, wr.Handler.Read):
			cl = "passthrough:request-body-truncated"
		case len(wr.Handler.Read) > len(bare.Handler.Read):
			cl = "passthrough:request-body-extended"
		}
		viol(cl, fmt.Sprintf("handler read %d bytes behind the middleware, %d bytes bare (client sent %d)", len(wr.Handler.Read), len(bare.Handler.Read), len(c.Req.Body)))
		return
	}
	fullRead := false
	for _, op := range c.Script.Ops {
		if op.Op == "readbody" && op.N < 0 {
			fullRead = true
		}
	}
	if fullRead && !bytes.Equal(bare.Handler.Read, c.Req.Body) {
		w.Count("harness_bare_read_mismatch", 1)
	}
	w.Count("handler_read_bytes", len(wr.Handler.Read))
	// response direction
	if wr.Resp.Status != bare.Resp.Status {
		cl := "passthrough:status"
		if len(sim.Info) > 0 {
			cl = "passthrough:status-after-1xx"
		} else if !sim.Committed {
			cl = "passthrough:status:handler-never-writes"
		}
		viol(cl, fmt.Sprintf("status: bare %d, wrapped %d", bare.Resp.Status, wr.Resp.Status))
		return
	}
	wrHdr := wr.Resp.Header
	if sim.LateHeaders {
		// header edits made after the commit point: net/http ignores them; a middleware that lets
		// them through is reported under its own class and the comparison goes on without them
		wrHdr = map[string][]string{}
		leaked := ""
		for k, v := range wr.Resp.Header {
			wrHdr[k] = v
		}
		for k := range sim.LateKeys {
			bv, inBare := bare.Resp.Header[k]
			if strings.Join(bv, "\x00") != strings.Join(wr.Resp.Header[k], "\x00") || inBare != (wr.Resp.Header[k] != nil) {
				leaked = k
				delete(wrHdr, k)
				if inBare {
					wrHdr[k] = bv
				}
			}
		}
		if leaked != "" {
			viol("passthrough:header-set-after-commit-leaks", fmt.Sprintf("header %s was edited by the handler after the response was committed: bare %q, wrapped %q", leaked, bare.Resp.Header[leaked], wr.Resp.Header[leaked]))
		}
	}
	if k, d := c18HeaderDiff(bare.Resp.Header, wrHdr, !sim.SetCT); k != "" {
		cl := "passthrough:" + k
		if len(sim.Info) > 0 {
			cl += ":after-1xx"
		}
		viol(cl, d)
		return
	}
	if !bytes.Equal(wr.Resp.Body, bare.Resp.Body) || wr.Resp.BodyErr != "" {
		cl := "passthrough:body-altered"
		switch {
		case wr.Resp.BodyErr != "":
			cl = "passthrough:body-read-error"
		case len(wr.Resp.Body) < len(bare.Resp.Body) && bytes.HasPrefix(bare.Resp.Body, wr.Resp.Body):
			cl = "passthrough:body-truncated"
		case len(wr.Resp.Body) > len(bare.Resp.Body) && bytes.HasPrefix(wr.Resp.Body, bare.Resp.Body):
			cl = "passthrough:body-extended"
		}
		if len(sim.Info) > 0 {
			cl += ":after-1xx"
		}
		viol(cl, fmt.Sprintf("body: bare %d bytes, wrapped %d bytes %s", len(bare.Resp.Body), len(wr.Resp.Body), wr.Resp.BodyErr))
		return
	}
	if fmt.Sprint(wr.Resp.Info) != fmt.Sprint(bare.Resp.Info) {
		viol("passthrough:informational-responses", fmt.Sprintf("1xx responses: bare %v, wrapped %v", bare.Resp.Info, wr.Resp.Info))
		return
	}
	// harness sanity against the script model
	if c.Req.Method != "HEAD" && c18BodyAllowed(bare.Resp.Status) && !bytes.Equal(bare.Resp.Body, sim.Attempted) && sim.CommitHdr.Get("Content-Length") == "" {
		w.Count("harness_bare_body_differs_from_script", 1)
	}
	if bare.Resp.Status != sim.Status {
		w.Count("harness_bare_status_differs_from_script", 1)
	}
	w.Count("passthrough_compared", 1)
	buffered := c18Buffered(c.Cfg, sim.CommitHdr.Get("Content-Type"))
	if buffered {
		w.Count("passthrough_response_buffered", 1)
		if len(sim.Attempted) > c.Cfg.RespLimit {
			w.Count("passthrough_response_partial", 1)
		}
	}
	if c.Cfg.ReqAccess && len(c.Req.Body) > c.Cfg.ReqLimit {
		w.Count("passthrough_request_partial", 1)
	}
	if len(wr.Resp.Body) > 0 || len(wr.Handler.Read) > 0 {
		w.Nontrivial(hash)
	}
}
