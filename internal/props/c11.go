package props

// C11 "SecRxPreFilter never changes what @rx matches or captures".
//
// Differential between two @rx operator instances built by the library's own factory with
// RxPreFilterEnabled true / false (no Memoizer: nothing shared), evaluated against a real
// transaction state with capturing on; result and TX.0-9 must agree for every input. A sample of
// patterns is cross-checked end-to-end through two WAFs that differ only in `SecRxPreFilter`.

import (
	"encoding/hex"
	"encoding/json"
	"fmt"
	"regexp/syntax"
	"strconv"
	"strings"
	"unicode/utf8"

	coraza "github.com/corazawaf/coraza/v3"
	"github.com/corazawaf/coraza/v3/experimental/plugins/plugintypes"
	"github.com/corazawaf/coraza/v3/experimental/verifapi"
	"github.com/corazawaf/coraza/v3/types"

	"verif/internal/fw"
	"verif/internal/sl"
)

// c11Case is one (pattern, input) witness. Strings that are not valid UTF-8 travel hex-encoded.
type c11Case struct {
	Pattern    string `json:"pattern,omitempty"`
	PatternHex string `json:"pattern_hex,omitempty"`
	Input      string `json:"input,omitempty"`
	InputHex   string `json:"input_hex,omitempty"`
	InputQ     string `json:"input_quoted,omitempty"` // for the reader only
	Source     string `json:"source,omitempty"`       // gen | crs
	Mode       string `json:"mode,omitempty"`         // direct | e2e
	// what the minimiser started from (for the reader only)
	OrigPattern  string `json:"orig_pattern,omitempty"`
	OrigInputHex string `json:"orig_input_hex,omitempty"`
}

func c11MkCase(pattern, input, source, mode string) *c11Case {
	c := &c11Case{Source: source, Mode: mode, InputQ: strconv.QuoteToASCII(input)}
	if utf8.ValidString(pattern) {
		c.Pattern = pattern
	} else {
		c.PatternHex = hex.EncodeToString([]byte(pattern))
	}
	if utf8.ValidString(input) && input != "" {
		c.Input = input
	} else {
		c.InputHex = hex.EncodeToString([]byte(input))
	}
	return c
}

func (c *c11Case) pattern() string {
	if c.PatternHex != "" {
		b, _ := hex.DecodeString(c.PatternHex)
		return string(b)
	}
	return c.Pattern
}

func (c *c11Case) input() string {
	if c.InputHex != "" {
		b, _ := hex.DecodeString(c.InputHex)
		return string(b)
	}
	return c.Input
}

// c11Res is what one evaluation produced.
type c11Res struct {
	Match bool       `json:"match"`
	Caps  [10]string `json:"-"`
	CapsQ []string   `json:"captures"` // quoted, filled by show()
	Panic string     `json:"panic,omitempty"`
	Extra string     `json:"extra,omitempty"`
}

func (r c11Res) show() c11Res {
	r.CapsQ = make([]string, 10)
	for i, c := range r.Caps {
		r.CapsQ[i] = strconv.QuoteToASCII(c)
	}
	return r
}

func (r c11Res) same(o c11Res) bool {
	return r.Match == o.Match && r.Caps == o.Caps && (r.Panic == "") == (o.Panic == "")
}

// c11Env is the per-worker evaluation environment: one trivial WAF and one transaction whose
// state the operators write their captures to.
type c11Env struct {
	waf coraza.WAF
	tx  types.Transaction
	st  plugintypes.TransactionState
	tv  interface{ Get(string) []string }
}

var c11CapKeys = [10]string{"0", "1", "2", "3", "4", "5", "6", "7", "8", "9"}

func c11NewEnv() (*c11Env, error) {
	waf, err := coraza.NewWAF(coraza.NewWAFConfig())
	if err != nil {
		return nil, err
	}
	e := &c11Env{waf: waf}
	e.tx = waf.NewTransaction()
	e.st = verifapi.TxState(e.tx)
	if e.st == nil {
		return nil, fmt.Errorf("verifapi.TxState returned nil")
	}
	verifapi.SetCapturing(e.tx, true)
	if !e.st.Capturing() {
		return nil, fmt.Errorf("capturing could not be switched on")
	}
	e.tv = e.st.Variables().TX()
	return e, nil
}

func (e *c11Env) close() {
	e.tx.ProcessLogging()
	e.tx.Close()
	sl.CloseWAF(e.waf)
}

// eval resets TX.0-9, evaluates and reads TX.0-9 back.
func (e *c11Env) eval(op plugintypes.Operator, input string) (res c11Res) {
	for i := 0; i < 10; i++ {
		e.st.CaptureField(i, "")
	}
	if pi := fw.Guard(func() { res.Match = op.Evaluate(e.st, input) }); pi != nil {
		res.Panic = pi.Value + " @ " + pi.Frame
	}
	for i := 0; i < 10; i++ {
		if v := e.tv.Get(c11CapKeys[i]); len(v) > 0 {
			res.Caps[i] = v[0]
		}
	}
	return res
}

type c11Ops struct {
	on, off plugintypes.Operator
	info    verifapi.RxInfo
	known   bool // info is available (operator is one of the two @rx implementations)
}

func c11Build(pattern string) (*c11Ops, error, error) {
	on, errOn := verifapi.GetOperator("rx", plugintypes.OperatorOptions{Arguments: pattern, RxPreFilterEnabled: true})
	off, errOff := verifapi.GetOperator("rx", plugintypes.OperatorOptions{Arguments: pattern, RxPreFilterEnabled: false})
	if errOn != nil || errOff != nil {
		return nil, errOn, errOff
	}
	o := &c11Ops{on: on, off: off}
	o.info, o.known = verifapi.RxInspect(on)
	return o, nil, nil
}

func (o *c11Ops) hasPrefilter() bool {
	return o.known && (o.info.HasPrefilter || o.info.ExactMatch != "")
}

// c11Kind names the divergence between the on and off results ("" = none).
func c11Kind(on, off c11Res) string {
	switch {
	case on.Panic != "" && off.Panic == "":
		return "panic-with-prefilter"
	case on.Panic == "" && off.Panic != "":
		return "panic-without-prefilter"
	case on.Panic != "":
		return ""
	case off.Match && !on.Match:
		return "prefilter-false-negative"
	case on.Match && !off.Match:
		return "prefilter-false-positive"
	case on.Caps != off.Caps:
		return "capture-diff"
	}
	return ""
}

// c11Diverge evaluates one (pattern, input) pair directly and names the divergence.
func c11Diverge(e *c11Env, pattern, input string) (kind string, stage int, on, off c11Res) {
	ops, errOn, errOff := c11Build(pattern)
	if ops == nil {
		if (errOn == nil) != (errOff == nil) {
			return "compile-divergence", 0, c11Res{Extra: fmt.Sprint(errOn)}, c11Res{Extra: fmt.Sprint(errOff)}
		}
		return "", 0, on, off
	}
	off = e.eval(ops.off, input)
	on = e.eval(ops.on, input)
	kind = c11Kind(on, off)
	if kind != "" {
		fw.Guard(func() { stage = verifapi.RxStage(ops.on, input) })
	}
	return kind, stage, on, off
}

// c11Report minimises a divergent direct case and reports it under a root-cause oriented class.
// on/off/stage are what the caller observed for (pattern, input).
func c11Report(w *fw.W, e *c11Env, st *c11State, pattern, input, source, kind string, stage int, on, off c11Res) {
	mp, mi := pattern, input
	minimised := false
	if st.minimised < st.maxMinimise {
		st.minimised++
		minimised = true
		mp, mi = c11Minimise(pattern, input, 400, func(p, in string) bool {
			k, _, _, _ := c11Diverge(e, p, in)
			return k == kind
		})
		if mp != pattern || mi != input {
			if k, s2, on2, off2 := c11Diverge(e, mp, mi); k == kind {
				stage, on, off = s2, on2, off2
			} else { // cannot happen: the minimiser only keeps what still diverges the same way
				mp, mi = pattern, input
			}
		}
	}
	class := c11Class(kind, stage, mp)
	if !minimised {
		class += ":unminimised"
	}
	c := c11MkCase(mp, mi, source, "direct")
	if mp != pattern || mi != input {
		c.OrigPattern = pattern
		c.OrigInputHex = hex.EncodeToString([]byte(input))
	}
	w.Count("viol:"+class, 1)
	w.Violation(class, "direct-differential", c, off.show(), on.show(),
		fmt.Sprintf("@rx %q on input %s: prefilter off -> match=%v, prefilter on -> match=%v (decided at stage %s)", mp, strconv.QuoteToASCII(mi), off.Match, on.Match, c11StageNames[stage]))
}

// ---- end-to-end cross-check ----------------------------------------------------------------------

func c11RuleText(pattern string, prefilter bool) string {
	var sb strings.Builder
	sb.WriteString("SecRuleEngine On\nSecRxPreFilter ")
	if prefilter {
		sb.WriteString("On\n")
	} else {
		sb.WriteString("Off\n")
	}
	sb.WriteString(`SecRule ARGS:x "@rx ` + strings.ReplaceAll(pattern, `"`, `\"`) + `" "id:1,phase:1,deny,status:403,capture`)
	for i := 0; i < 10; i++ {
		fmt.Fprintf(&sb, ",setvar:tx.c%d=v%%{TX.%d}", i, i) // "v": a value starting with + or - would be arithmetic
	}
	sb.WriteString("\"\n")
	return sb.String()
}

// c11E2EOK tells whether the pattern can be written into a one-line SecRule unchanged.
func c11E2EOK(pattern string) bool {
	if pattern == "" || strings.TrimSpace(pattern) != pattern || !utf8.ValidString(pattern) {
		return false
	}
	if strings.ContainsAny(pattern, "\n\r\x00") || strings.HasSuffix(pattern, `\`) || strings.Contains(pattern, `\"`) {
		return false
	}
	return true
}

type c11WAFPair struct {
	on, off coraza.WAF
}

func (p *c11WAFPair) close() {
	if p.on != nil {
		sl.CloseWAF(p.on)
	}
	if p.off != nil {
		sl.CloseWAF(p.off)
	}
}

// c11BuildPair builds the two WAFs; ok is false (without a verdict) when the pattern does not
// reach the operator factory unchanged.
func c11BuildPair(pattern string) (p *c11WAFPair, ok bool, errOn, errOff error) {
	p = &c11WAFPair{}
	p.on, errOn = sl.BuildText(c11RuleText(pattern, true))
	p.off, errOff = sl.BuildText(c11RuleText(pattern, false))
	if errOn != nil || errOff != nil {
		p.close()
		return nil, false, errOn, errOff
	}
	for _, w := range []coraza.WAF{p.on, p.off} {
		rs := verifapi.DumpRules(w)
		if len(rs) != 1 || rs[0].OperatorData != pattern {
			p.close()
			return nil, false, nil, nil
		}
	}
	return p, true, nil, nil
}

// c11DirectiveSeen reports (evidence only) whether the pattern cache holds an @rx artifact
// compiled with the prefilter flag on for the On-WAF and off for the Off-WAF, i.e. whether the
// directive reached the operator factory.
func c11DirectiveSeen(p *c11WAFPair) (on, off bool) {
	idOn, idOff := verifapi.MemoizerID(p.on), verifapi.MemoizerID(p.off)
	for _, e := range verifapi.MemoizeSnapshot() {
		for _, o := range e.Owners {
			if o == idOn && strings.HasPrefix(e.Key, "rx:true:") {
				on = true
			}
			if o == idOff && strings.HasPrefix(e.Key, "rx:false:") {
				off = true
			}
		}
	}
	return
}

func c11RunTx(waf coraza.WAF, input string) (res c11Res) {
	tx := waf.NewTransaction()
	defer func() {
		tx.ProcessLogging()
		tx.Close()
	}()
	if pi := fw.Guard(func() {
		tx.AddGetRequestArgument("x", input)
		it := tx.ProcessRequestHeaders()
		res.Match = it != nil
		if it != nil && (it.RuleID != 1 || it.Status != 403) {
			res.Extra = fmt.Sprintf("interruption rule=%d status=%d", it.RuleID, it.Status)
		}
		tv := verifapi.TxState(tx).Variables().TX()
		for i := 0; i < 10; i++ {
			if v := tv.Get("c" + c11CapKeys[i]); len(v) > 0 {
				res.Caps[i] = strings.TrimPrefix(v[0], "v")
			}
		}
	}); pi != nil {
		res.Panic = pi.Value + " @ " + pi.Frame
	}
	return res
}

// c11E2E runs inputs through both WAFs. direct (optional) holds the direct results of the
// prefilter-off operator for the same inputs, used as a harness self-check only.
func c11E2E(w *fw.W, e *c11Env, pattern, source string, inputs []string, direct []c11Res) {
	pair, ok, errOn, errOff := c11BuildPair(pattern)
	if !ok {
		switch {
		case (errOn == nil) != (errOff == nil):
			w.Violation("compile-divergence:e2e", "e2e-two-wafs", c11MkCase(pattern, "", source, "e2e"), fmt.Sprint(errOff), fmt.Sprint(errOn), "NewWAF succeeds with one SecRxPreFilter setting only")
		case errOn != nil:
			w.Count("e2e_build_errors", 1)
		default:
			w.Count("e2e_skipped_not_verbatim", 1)
		}
		return
	}
	defer pair.close()
	w.Count("e2e_patterns", 1)
	if on, off := c11DirectiveSeen(pair); on && off {
		w.Count("e2e_patterns_directive_seen_in_pattern_cache", 1)
	}
	reported := map[string]bool{}
	for i, in := range inputs {
		if w.Tracing() {
			w.Trace(c11MkCase(pattern, in, source, "e2e"))
		}
		off := c11RunTx(pair.off, in)
		on := c11RunTx(pair.on, in)
		w.Eval(1)
		w.Count("e2e_inputs", 1)
		if off.Match {
			w.Count("e2e_matches", 1)
		}
		if direct != nil && i < len(direct) && !(direct[i].Match == off.Match && (!off.Match || direct[i].Caps == off.Caps)) {
			// not a statement of the property: the rule-level result differs from the direct
			// operator call with the prefilter off on both sides (harness self-check)
			w.Count("e2e_vs_direct_mismatch", 1)
			w.Cover("e2e_vs_direct_mismatch_samples", strconv.QuoteToASCII(pattern)+" "+strconv.QuoteToASCII(in))
		}
		if kind := c11Kind(on, off); kind != "" {
			if reported[kind] {
				w.Count("divergences_same_pattern_not_reported_again", 1)
				continue
			}
			reported[kind] = true
			stage := 0
			if ops, _, _ := c11Build(pattern); ops != nil {
				fw.Guard(func() { stage = verifapi.RxStage(ops.on, in) })
			}
			class := c11Class(kind, stage, pattern) + ":e2e"
			w.Count("viol:"+class, 1)
			w.Violation(class, "e2e-two-wafs", c11MkCase(pattern, in, source, "e2e"), off.show(), on.show(),
				fmt.Sprintf("SecRule ARGS:x \"@rx %s\" with capture: SecRxPreFilter Off -> blocked=%v, On -> blocked=%v", pattern, off.Match, on.Match))
		}
	}
}

// ---- main loop -----------------------------------------------------------------------------------

type c11State struct {
	minimised   int
	maxMinimise int
	sampler     *c11Sampler
}

// c11Pattern judges one pattern against n derived inputs; e2eInputs > 0 adds the cross-check.
func c11Pattern(w *fw.W, e *c11Env, st *c11State, pattern, source string, n, e2eInputs int) {
	ops, errOn, errOff := c11Build(pattern)
	if ops == nil {
		if (errOn == nil) != (errOff == nil) {
			w.Violation("compile-divergence", "direct-differential", c11MkCase(pattern, "", source, "direct"), fmt.Sprint(errOff), fmt.Sprint(errOn), "the operator factory accepts the pattern with one prefilter setting only")
		}
		w.Count("patterns_rejected_by_factory", 1)
		return
	}
	w.Count("patterns_"+source, 1)
	if !ops.known {
		w.Count("patterns_without_introspection", 1)
	}
	switch {
	case ops.info.Binary:
		w.Count("patterns_binary_matcher", 1)
	case ops.info.ExactMatch != "":
		w.Count("patterns_with_exact_fast_path", 1)
		if ops.info.ExactMatchCI {
			w.Count("patterns_with_exact_fast_path_ci", 1)
		}
	}
	if ops.info.HasPrefilter {
		w.Count("patterns_with_prefilter_func", 1)
	}
	if ops.hasPrefilter() {
		c11CountB(w, "patterns_with_prefilter")
	} else if ops.info.MinLen > 0 {
		w.Count("patterns_with_minlen_only", 1)
	}
	re, err := syntax.Parse(c11Wrap+pattern, syntax.Perl)
	var inputs []string
	if err != nil {
		// the binary matcher accepts byte escapes the UTF-8 parser refuses: random inputs only
		for i := 0; i < n; i++ {
			inputs = append(inputs, st.sampler.randomInput())
		}
	} else {
		inputs = st.sampler.Inputs(re, n)
	}
	ph := fw.Hash(pattern)
	var direct []c11Res
	matched, rejected := 0, 0
	reported := map[string]bool{}
	for _, in := range inputs {
		if w.Tracing() {
			w.Trace(c11MkCase(pattern, in, source, "direct"))
		}
		off := e.eval(ops.off, in)
		on := e.eval(ops.on, in)
		w.Eval(1)
		if e2eInputs > 0 && len(direct) < e2eInputs {
			direct = append(direct, off)
		}
		stage := verifapi.RxStageRegex
		if ops.known && !ops.info.Binary {
			fw.Guard(func() { stage = verifapi.RxStage(ops.on, in) })
		}
		switch stage {
		case verifapi.RxStageMinLen:
			w.Count("rejected_by_minlen", 1)
			rejected++
		case verifapi.RxStagePrefilter:
			c11CountB(w, "rejected_by_prefilter")
			rejected++
		case verifapi.RxStageExact:
			c11CountB(w, "exact_fast_path_hits")
			if on.Match {
				w.Count("exact_fast_path_matches", 1)
			}
		}
		if off.Match {
			matched++
			w.Count("matches", 1)
			if off.Caps[1] != "" || off.Caps[2] != "" {
				w.Count("matches_with_group_captures", 1)
			}
			if ops.hasPrefilter() {
				c11CountB(w, "matches_under_prefilter")
			}
		}
		if ops.hasPrefilter() && (stage != verifapi.RxStageRegex || off.Match) {
			w.Nontrivial(ph ^ fw.Hash(in)*0x9e3779b97f4a7c15)
		}
		if kind := c11Kind(on, off); kind != "" {
			// one report per (pattern, kind of divergence, deciding stage); further inputs of
			// the same pattern diverging the same way are counted only
			key := kind + "/" + strconv.Itoa(stage)
			if reported[key] {
				w.Count("divergences_same_pattern_not_reported_again", 1)
			} else {
				reported[key] = true
				c11Report(w, e, st, pattern, in, source, kind, stage, on, off)
			}
		}
	}
	w.Count("inputs", len(inputs))
	if matched > 0 && rejected > 0 {
		w.Count("patterns_with_both_match_and_rejection", 1)
	}
	if matched == 0 {
		w.Count("patterns_never_matched", 1)
	}
	if w.WantSample() && ops.hasPrefilter() && matched > 0 && rejected > 0 {
		show := inputs
		if len(show) > 8 {
			show = show[:8]
		}
		q := make([]string, len(show))
		for i, s := range show {
			q[i] = strconv.QuoteToASCII(s)
		}
		w.Sample(map[string]any{"pattern": pattern, "source": source, "inputs_total": len(inputs), "first_inputs_quoted": q,
			"matched": matched, "rejected_before_regex": rejected, "exact_fast_path": ops.info.ExactMatch != ""})
	}
	if e2eInputs > 0 && c11E2EOK(pattern) {
		k := e2eInputs
		if k > len(inputs) {
			k = len(inputs)
		}
		c11E2E(w, e, pattern, source, inputs[:k], direct)
	}
}

type c11Sizes struct {
	batches                      int
	genPatterns, genInputs       int // per batch / per pattern
	crsInputs                    int
	e2eEvery, e2eInputs, maxMini int
}

// c11CountB counts name and, in the build where ^ and $ are text anchors, name+"_no_regex_multiline_build" too.
func c11CountB(w *fw.W, name string) {
	w.Count(name, 1)
	if rxBuildWrap == "(?s)" {
		w.Count(name+"_no_regex_multiline_build", 1)
	}
}

func c11SizesFor(t fw.Tier) c11Sizes {
	if t == fw.Thorough {
		return c11Sizes{batches: 64, genPatterns: 16000, genInputs: 150, crsInputs: 2000, e2eEvery: 40, e2eInputs: 24, maxMini: 40}
	}
	return c11Sizes{batches: 16, genPatterns: 4000, genInputs: 60, crsInputs: 200, e2eEvery: 25, e2eInputs: 12, maxMini: 12}
}

func c11Run(w *fw.W, b fw.Batch) {
	sz := c11SizesFor(w.Tier)
	e, err := c11NewEnv()
	if err != nil {
		w.Count("env_errors", 1)
		w.Cover("env_error", err.Error())
		return
	}
	defer e.close()
	st := &c11State{maxMinimise: sz.maxMini, sampler: &c11Sampler{r: w.Rng, cap: 160}}

	// (b) CRS patterns: this batch's share
	crs, files, rules, dirs := c11CRSPatterns()
	if b.Index == 0 {
		w.Count("crs_conf_files", files)
		w.Count("crs_secrules_scanned", rules)
		w.Count("crs_distinct_rx_arguments", len(crs))
		for _, d := range dirs {
			w.Cover("crs_module_dirs", d)
		}
	}
	for i, p := range crs {
		if i%sz.batches != b.Index%sz.batches {
			continue
		}
		e2e := 0
		if i%(sz.e2eEvery/5+1) == 0 {
			e2e = sz.e2eInputs
		}
		c11Pattern(w, e, st, p, "crs", sz.crsInputs, e2e)
	}

	// (a) generated patterns
	g := &c11Gen{r: w.Rng}
	for i := 0; i < sz.genPatterns; i++ {
		p := g.Pattern()
		if len(p) > 400 {
			w.Count("patterns_too_long_skipped", 1)
			continue
		}
		e2e := 0
		if w.Rng.IntN(sz.e2eEvery) == 0 {
			e2e = sz.e2eInputs
		}
		c11Pattern(w, e, st, p, "gen", sz.genInputs, e2e)
	}
}

func c11Replay(w *fw.W, raw json.RawMessage) {
	var c c11Case
	if json.Unmarshal(raw, &c) != nil {
		return
	}
	e, err := c11NewEnv()
	if err != nil {
		return
	}
	defer e.close()
	st := &c11State{maxMinimise: 10, sampler: &c11Sampler{r: w.Rng, cap: 160}}
	pattern, input := c.pattern(), c.input()
	w.Eval(1)
	if kind, stage, on, off := c11Diverge(e, pattern, input); kind != "" {
		c11Report(w, e, st, pattern, input, c.Source, kind, stage, on, off)
	}
	if c.Mode == "e2e" && c11E2EOK(pattern) {
		c11E2E(w, e, pattern, c.Source, []string{input}, nil)
	}
}

func init() {
	fw.Register(&fw.Prop{
		ID: "C11", Level: "exploration",
		Rule: "patterns: (a) a recursive generator over the regexp/syntax grammar (literals incl. non-ASCII, U+FFFD and byte escapes, classes, alternations with shared prefixes/suffixes, ? * + {m,n} lazy forms, (named) groups, ^ $ \\A \\z \\b \\B, (?i) (?m) (?s) (?U) global and scoped, nested optional prefixes, ^literal$ shapes) and (b) every @rx argument scanned from the rules/*.conf of the CRS copies the repository depends on; inputs per pattern: strings sampled from the pattern's AST, their one-byte deletions/substitutions/insertions, ASCII case flips, Unicode fold variants (k/K U+212A, s/U+017F), embedded newlines, added prefixes/suffixes, truncations, plus random strings. Each (pattern, input) is evaluated by two @rx instances from the library's factory (RxPreFilterEnabled true/false, no shared cache) against a real transaction state with capturing on; result and TX.0-9 are compared; a sample of patterns is cross-checked through two WAFs differing only in SecRxPreFilter (interruption + TX.0-9 copied out by setvar). A case is non-trivial when the prefilter-on instance really has a prefilter function or the exact-match fast path AND (an early stage decided the input OR the unfiltered regex matches it, i.e. a false negative was possible); distinct by hash of (pattern, input).",
		Assumptions: []string{
			"Go's regexp behind the prefilter-off instance is the trusted base (C15 compares @rx with regexp itself)",
			"which early stage decided an input (min-length guard, prefilter function, exact fast path) is read through the verif-tagged introspection export; it feeds counters and the violation class only, the verdict is the comparison of Evaluate results and TX.0-9",
			"four fifths of the batches run in the default build, which wraps the argument in (?sm); one fifth in a build with the documented tag coraza.rule.no_regex_multiline ((?s) only: ^ and $ are text anchors), where the same generator and the CRS patterns reach the anchored prefilter shapes through plain ^ and $",
		},
		Required: []string{"patterns_gen", "patterns_crs", "patterns_with_prefilter", "rejected_by_prefilter", "matches_under_prefilter", "e2e_patterns", "e2e_matches",
			"rejected_by_prefilter_no_regex_multiline_build", "exact_fast_path_hits_no_regex_multiline_build", "matches_under_prefilter_no_regex_multiline_build"},
		Plan: func(tier fw.Tier, seed int64) []fw.Batch {
			sz := c11SizesFor(tier)
			bs := make([]fw.Batch, 0, sz.batches)
			for i := 0; i < sz.batches; i++ {
				bs = append(bs, fw.Batch{Index: i, Flavour: "plain", GOMAXPROCS: 1, TimeoutS: 3600})
			}
			// the build in which ^ and $ are text anchors (documented tag coraza.rule.no_regex_multiline): the
			// anchored shapes of the prefilter and of the exact-literal fast path are reached by plain ^...$ there
			for i := 0; i < sz.batches/4; i++ {
				bs = append(bs, fw.Batch{Index: sz.batches + i, Flavour: "nomline", GOMAXPROCS: 1, TimeoutS: 3600})
			}
			return bs
		},
		Run:    c11Run,
		Replay: c11Replay,
	})
}
