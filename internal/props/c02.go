package props

import (
	"encoding/json"
	"fmt"
	"strings"

	coraza "github.com/corazawaf/coraza/v3"
	"github.com/corazawaf/coraza/v3/types"

	"verif/internal/fw"
	"verif/internal/gen"
	"verif/internal/sl"
)

type c02Case struct {
	Program *sl.Program `json:"program"`
	Text    string      `json:"text"`
	Req     *sl.Req     `json:"req"`
	Seq     []string    `json:"seq"`
	// Switch maps the id of a ctl:ruleEngine rule to the mode it sets.
	Switch map[int]string `json:"switch,omitempty"`
}

// c02Program: per phase a counter rule, steerable disruptive rules and (optionally, as the last rule of the
// phase) a steerable ctl:ruleEngine switch. Returns the program, the steering names and the switch table.
func c02Program(r gen.R) (*sl.Program, []string, map[int]string) {
	p := &sl.Program{Engine: gen.Pick(r, []string{"On", "On", "On", "DetectionOnly", "Off"})}
	p.Header = []string{"SecRequestBodyAccess On", "SecRequestBodyLimit 32", "SecRequestBodyInMemoryLimit 32",
		"SecRequestBodyLimitAction " + gen.Pick(r, []string{"Reject", "ProcessPartial"}),
		"SecResponseBodyAccess On", "SecResponseBodyMimeType text/plain", "SecResponseBodyLimit 64",
		"SecResponseBodyLimitAction " + gen.Pick(r, []string{"Reject", "ProcessPartial"})}
	if gen.Chance(r, 0.6) {
		// the logging phase decides relevance from the (would-be) interruption: it must cope with every
		// combination of engine mode, ctl switch and interruption the sequences produce
		p.Header = append(p.Header, "SecAuditEngine "+gen.Pick(r, []string{"RelevantOnly", "RelevantOnly", "On"}),
			"SecAuditLogRelevantStatus \"^(?:4|5)\"", "SecAuditLogParts ABHKZ", "SecAuditLogType Serial", "SecAuditLog /dev/null")
	}
	var steers []string
	sw := map[int]string{}
	for ph := 1; ph <= 4; ph++ {
		if gen.Chance(r, 0.3) {
			p.Defaults = append(p.Defaults, sl.DefaultAction{Phase: ph, Disruptive: gen.Pick(r, []string{"deny", "pass", "drop"}), Status: gen.Pick(r, []int{0, 403, 418})})
		}
	}
	for ph := 1; ph <= 5; ph++ {
		phaseStart := len(p.Items)
		counter := &sl.Rule{ID: 100 + ph, Phase: ph, Severity: -1, Disruptive: "pass", Setvars: []sl.Setvar{{Key: fmt.Sprintf("p%d", ph), Kind: "+", Val: "1"}}}
		nd := r.IntN(3)
		var rules []*sl.Rule
		for i := 0; i < nd; i++ {
			name := fmt.Sprintf("d%d_%d", ph, i)
			steers = append(steers, name)
			rule := &sl.Rule{ID: 200 + ph*10 + i, Phase: ph, Severity: -1, Targets: []sl.Sel{{Var: "ARGS_GET", Kind: 1, Key: name}}, Op: &sl.Op{Name: "streq", Arg: "1"}}
			rule.Disruptive = gen.Pick(r, []string{"deny", "deny", "drop", "redirect", "block", "pass"})
			if rule.Disruptive == "redirect" {
				rule.Redirect = "http://example.com/r"
			}
			if gen.Chance(r, 0.5) {
				rule.Status = gen.Pick(r, []int{401, 403, 404, 500, 301, 302, 307})
				rule.StatusLast = gen.Chance(r, 0.5)
			}
			if gen.Chance(r, 0.2) {
				// chain: the starter's disruptive action must fire only when the link matches
				ln := fmt.Sprintf("c%d_%d", ph, i)
				steers = append(steers, ln)
				rule.Chain = &sl.Rule{Phase: ph, Severity: -1, Targets: []sl.Sel{{Var: "ARGS_GET", Kind: 1, Key: ln}}, Op: &sl.Op{Name: "streq", Arg: "1"}}
			}
			rules = append(rules, rule)
		}
		pos := 0
		if len(rules) > 0 {
			pos = r.IntN(len(rules) + 1)
		}
		for i, rule := range rules {
			if i == pos {
				p.Items = append(p.Items, sl.Item{Rule: counter})
			}
			p.Items = append(p.Items, sl.Item{Rule: rule})
		}
		if pos >= len(rules) {
			p.Items = append(p.Items, sl.Item{Rule: counter})
		}
		if ph <= 4 && gen.Chance(r, 0.3) {
			name := fmt.Sprintf("e%d", ph)
			steers = append(steers, name)
			mode := gen.Pick(r, []string{"DetectionOnly", "Off", "On"})
			id := 300 + ph
			sw[id] = mode
			swRule := sl.Item{Rule: &sl.Rule{ID: id, Phase: ph, Severity: -1, Disruptive: "pass", Targets: []sl.Sel{{Var: "ARGS_GET", Kind: 1, Key: name}},
				Op: &sl.Op{Name: "streq", Arg: "1"}, Ctl: []string{"ruleEngine=" + mode}}}
			// half of the switches sit at the end of their phase, the others anywhere among the rules of the phase:
			// the mode in force when a disruptive rule matches decides, not the mode at the start of the phase
			at := len(p.Items)
			if gen.Chance(r, 0.5) {
				at = phaseStart + r.IntN(len(p.Items)-phaseStart+1)
			}
			p.Items = append(p.Items, sl.Item{})
			copy(p.Items[at+1:], p.Items[at:])
			p.Items[at] = swRule
		}
	}
	return p, steers, sw
}

var c02PhaseOf = map[string]int{"h": 1, "b": 2, "H": 3, "B": 4, "L": 5}

// inOrder reports whether seq is a strictly increasing run of phase calls in which b is preceded by h and B by H
// (the sequences for which the reference model predicts the exact outcome).
func c02InOrder(seq []string) ([]int, bool) {
	var phases []int
	seen := map[string]bool{}
	last := 0
	for _, c := range seq {
		ph, ok := c02PhaseOf[c]
		if !ok || ph <= last {
			return nil, false
		}
		if c == "b" && !seen["h"] {
			return nil, false
		}
		if c == "B" && !seen["H"] {
			return nil, false
		}
		seen[c] = true
		last = ph
		phases = append(phases, ph)
	}
	return phases, true
}

func c02Judge(w *fw.W, c *c02Case, waf coraza.WAF) {
	if waf == nil {
		var err error
		waf, err = sl.BuildText(c.Text)
		if err != nil {
			w.Count("build_errors", 1)
			w.Cover("build_error_samples", err.Error())
			return
		}
		defer sl.CloseWAF(waf)
	}
	if w.Tracing() {
		w.Trace(c)
	}
	mode := c.Program.Engine
	modes := make([]string, 0, len(c.Seq))     // engine mode in force when call i started
	intrModes := make([]string, 0, len(c.Seq)) // engine mode in force when the rule whose interruption call i returned fired
	seenFired := 0
	got := sl.ExecSeqHook(waf, c.Req, c.Seq, func(i int, tx types.Transaction, cr *sl.CallResult) {
		modes = append(modes, mode)
		atIntr := mode
		mrs := tx.MatchedRules()
		for _, mr := range mrs[seenFired:] {
			// a switch may sit anywhere in its phase: what counts for a disruptive rule is the mode when it fires
			if cr.Intr != nil && mr.Rule().ID() == cr.Intr.RuleID {
				atIntr = mode
			}
			if m, ok := c.Switch[mr.Rule().ID()]; ok {
				mode = m
			}
		}
		intrModes = append(intrModes, atIntr)
		seenFired = len(mrs)
	})
	w.Eval(1)
	viol := func(class, detail string) {
		w.Violation(class, "call-sequence-invariants", c, nil, got, detail)
	}
	if got.Panic != "" {
		viol("panic", got.Panic)
		return
	}
	// I1: every request/response phase at most once
	var begins [6]int
	for _, cr := range got.Calls {
		for ph := 1; ph <= 5; ph++ {
			begins[ph] += cr.Begins[ph]
		}
	}
	for ph := 1; ph <= 4; ph++ {
		if begins[ph] > 1 {
			viol(fmt.Sprintf("phase-evaluated-twice:%d", ph), fmt.Sprintf("phase %d began %d times in %v", ph, begins[ph], c.Seq))
			return
		}
		if v := got.TX[fmt.Sprintf("p%d", ph)]; v != "" && v != "1" {
			viol(fmt.Sprintf("phase-evaluated-twice:%d", ph), fmt.Sprintf("counter tx.p%d=%s after %v", ph, v, c.Seq))
			return
		}
	}
	// I2: finality of the first interruption
	first := -1
	var firstIntr *sl.Intr
	for i, cr := range got.Calls {
		if first < 0 {
			if cr.Intr != nil || cr.Interrupted {
				first = i
				firstIntr = cr.Intr
			}
			continue
		}
		for ph := 1; ph <= 4; ph++ {
			if cr.Evals[ph] > 0 {
				viol("rules-evaluated-after-interruption", fmt.Sprintf("call %d (%s) evaluated %d rule(s) of phase %d after the interruption of call %d", i, cr.Call, cr.Evals[ph], ph, first))
				return
			}
		}
		if _, isPhase := c02PhaseOf[cr.Call]; isPhase && cr.Call != "L" {
			if cr.Intr == nil || (firstIntr != nil && *cr.Intr != *firstIntr) {
				viol("later-call-reports-different-interruption", fmt.Sprintf("call %d (%s) returned %+v, the first interruption (call %d) was %+v", i, cr.Call, cr.Intr, first, firstIntr))
				return
			}
		}
	}
	if first >= 0 {
		w.Count("sequences_with_interruption", 1)
		if firstIntr != nil && (got.Intr == nil || *got.Intr != *firstIntr) {
			viol("final-interruption-differs-from-first", fmt.Sprintf("first %+v, final %+v", firstIntr, got.Intr))
			return
		}
	}
	// I3 / I4: engine modes in force
	for i, cr := range got.Calls {
		if modes[i] == "DetectionOnly" {
			w.Count("calls_in_detection_only", 1)
		}
		if modes[i] != intrModes[i] {
			w.Count("interruptions_after_mid_phase_switch", 1)
		}
		switch modes[i] {
		case "DetectionOnly":
			before := i > 0 && got.Calls[i-1].Interrupted
			if !before && (cr.Intr != nil || cr.Interrupted) && intrModes[i] == "DetectionOnly" {
				switched := modes[i] != c.Program.Engine
				cl := "detection-only-returns-interruption"
				if switched {
					cl += ":after-ctl-switch"
				}
				if cr.Intr != nil && cr.Intr.RuleID == 0 {
					cl += ":body-limit"
				}
				viol(cl, fmt.Sprintf("call %d (%s) in DetectionOnly returned/recorded %+v", i, cr.Call, cr.Intr))
				return
			}
		case "Off":
			w.Count("calls_in_off", 1)
			for ph := 1; ph <= 5; ph++ {
				if cr.Evals[ph] > 0 {
					viol("engine-off-evaluates-rules", fmt.Sprintf("call %d (%s) with the engine Off evaluated %d rule(s) of phase %d", i, cr.Call, cr.Evals[ph], ph))
					return
				}
			}
			if !(i > 0 && got.Calls[i-1].Interrupted) && (cr.Intr != nil || cr.Interrupted) {
				viol("engine-off-interrupts", fmt.Sprintf("call %d (%s) with the engine Off returned %+v", i, cr.Call, cr.Intr))
				return
			}
		}
	}
	// I5: exact prediction for in-order sequences
	if phases, ok := c02InOrder(c.Seq); ok {
		exp := sl.RunPhases(c.Program, c.Req, phases)
		if exp.Ambiguous == "" {
			w.Count("exact_model_comparisons", 1)
			if d := sl.Compare(exp, got, sl.CompareOpts{Evaluated: true, TX: true}); d != "" {
				w.Violation("model-mismatch:"+sl.DiffKind(d), "reference-model", c, exp, got, d)
				return
			}
			// the call that interrupts must be the call of the model's interruption phase, and return it
			if exp.Intr != nil {
				for _, cr := range got.Calls {
					ph := c02PhaseOf[cr.Call]
					if ph < exp.IntrPhase && cr.Intr != nil {
						viol("interruption-returned-too-early", fmt.Sprintf("call %s returned %+v, expected at phase %d", cr.Call, cr.Intr, exp.IntrPhase))
						return
					}
					if ph >= exp.IntrPhase && ph <= 4 && (cr.Intr == nil || *cr.Intr != *exp.Intr) {
						viol("interruption-not-returned", fmt.Sprintf("call %s returned %+v, expected %+v", cr.Call, cr.Intr, exp.Intr))
						return
					}
				}
			}
		} else {
			w.Count("ambiguous_skipped", 1)
		}
	}
	if first >= 0 || mode != c.Program.Engine {
		w.Nontrivial(fw.Hash(c.Text) ^ fw.Hash(c.Req) ^ fw.Hash(strings.Join(c.Seq, "")))
	}
	if mode != c.Program.Engine {
		w.Count("mode_switches_by_ctl", 1)
	}
}

// c02Sequences enumerates all call sequences over the alphabet up to maxLen.
func c02Sequences(alphabet []string, maxLen int) [][]string {
	out := [][]string{{}}
	level := [][]string{{}}
	for l := 1; l <= maxLen; l++ {
		var next [][]string
		for _, s := range level {
			for _, a := range alphabet {
				ns := append(append([]string{}, s...), a)
				next = append(next, ns)
			}
		}
		out = append(out, next...)
		level = next
	}
	return out
}

type c02Params struct {
	Shard, Shards, MaxLen, Programs, Requests int
}

func init() {
	alphabet := []string{"h", "b", "H", "B", "L", "w", "W", "r", "R"}
	fw.Register(&fw.Prop{
		ID: "C02", Level: "exploration", Exhaustive: true,
		Rule:        "generated rule sets (per phase: a counter rule, steerable deny/drop/redirect/block/pass rules with and without status and SecDefaultAction, chained starters, and a steerable ctl:ruleEngine switch as last rule of the phase; engine On/DetectionOnly/Off; both body-limit actions) x requests steering subsets of the rules x ALL sequences of Transaction calls over {ProcessRequestHeaders, ProcessRequestBody, ProcessResponseHeaders, ProcessResponseBody, ProcessLogging, WriteRequestBody small / over the limit, WriteResponseBody small / over the limit} up to the length bound (exhaustive). Online monitors: phases 1-4 begin at most once (PhaseBegin events and per-phase TX counters); after the first interruption no RuleEval event of phases 1-4 and every later phase call returns the same interruption; no interruption returned or recorded while the engine is DetectionOnly (configured or switched by ctl); no RuleEval event while it is Off; for in-order sequences the exact outcome (interrupting rule, action, status, data, call that returns it) equals the reference model. Non-trivial: the sequence saw an interruption or a mode switch; distinct by (rule set, request, sequence).",
		Assumptions: []string{"ctl:ruleEngine switches are placed as the last rule of a phase (the statement does not say whether a switch takes effect immediately)", "calls after Close are not generated"},
		Required:    []string{"sequences_with_interruption", "calls_in_detection_only", "calls_in_off", "mode_switches_by_ctl", "exact_model_comparisons"},
		Plan: func(tier fw.Tier, seed int64) []fw.Batch {
			shards, maxLen, programs, requests := 16, 4, 5, 3
			if tier == fw.Thorough {
				shards, maxLen, programs, requests = 64, 5, 3, 3
			}
			var bs []fw.Batch
			for i := 0; i < shards; i++ {
				pj, _ := json.Marshal(c02Params{Shard: i, Shards: shards, MaxLen: maxLen, Programs: programs, Requests: requests})
				bs = append(bs, fw.Batch{Index: i, Flavour: "plain", Params: pj, TimeoutS: 2400})
			}
			return bs
		},
		Run: func(w *fw.W, b fw.Batch) {
			var pr c02Params
			json.Unmarshal(b.Params, &pr)
			seqs := c02Sequences(alphabet, pr.MaxLen)
			for pi := 0; pi < pr.Programs; pi++ {
				p, steers, sw := c02Program(w.Rng)
				text := p.Render()
				waf, err := sl.BuildText(text)
				if err != nil {
					w.Count("build_errors", 1)
					w.Cover("build_error_samples", err.Error())
					continue
				}
				for ri := 0; ri < pr.Requests; ri++ {
					req := gen.SteerRequest(gen.Subset(w.Rng, steers, []float64{0.5, 0.25, 0.9, 0.6}[ri%4]))
					req.Status = 200
					req.RespHeaders = []sl.KV{{K: "Content-Type", V: "text/plain"}}
					for si, seq := range seqs {
						// each shard covers the whole sequence space with its own programs: no sharding of sequences
						_ = si
						c := &c02Case{Program: p, Text: text, Req: req, Seq: seq, Switch: sw}
						c02Judge(w, c, waf)
					}
					if w.WantSample() {
						w.Sample(map[string]any{"rules": text, "request": req, "sequences": len(seqs), "example_sequence": seqs[len(seqs)/2]})
					}
				}
				sl.CloseWAF(waf)
			}
			w.Max("sequence_space_size", int64(len(seqs)))
			w.Max("max_sequence_length", int64(pr.MaxLen))
		},
		Replay: func(w *fw.W, raw json.RawMessage) {
			var c c02Case
			if json.Unmarshal(raw, &c) != nil {
				return
			}
			c02Judge(w, &c, nil)
		},
	})
}
