package props

import (
	"encoding/json"
	"fmt"
	"hash/fnv"
	"os"
	"path/filepath"
	"runtime"
	"strings"
	"sync"
	"sync/atomic"
	"time"

	"github.com/corazawaf/coraza/v3/experimental/verifapi"

	"verif/internal/fw"
	"verif/internal/gen"
	"verif/internal/sl"
)

// c06Config touches every piece of state a WAF shares between transactions: exception lists of rules with
// several target exclusions (extended at run time by ctl:ruleRemoveTargetById), interned transformation chains,
// compiled patterns in the process-wide cache, audit writers, the transaction pool.
func c06Config(auditFile, auditDir string, variant int) string {
	cfg := `
SecRuleEngine On
SecRequestBodyAccess On
SecResponseBodyAccess On
SecResponseBodyMimeType text/plain
SecAuditEngine AUDITENGINE
SecAuditLogParts ABHKZ
SecAuditLogFormat JSON
`
	// variants 2 and 3: auditing is off and switched on per transaction by ctl:auditEngine
	if variant&2 != 0 {
		cfg = strings.Replace(cfg, "AUDITENGINE", "Off", 1)
	} else {
		cfg = strings.Replace(cfg, "AUDITENGINE", "On", 1)
	}
	if variant%2 == 0 {
		cfg += "SecAuditLogType Serial\nSecAuditLog " + auditFile + "\n"
	} else {
		cfg += "SecAuditLogType Concurrent\nSecAuditLog " + auditFile + "\nSecAuditLogStorageDir " + auditDir + "\n"
	}
	cfg += c06DefaultAction + `
SecRule ARGS_GET:cx1 "@streq 1" "id:10,phase:1,pass,nolog,ctl:ruleRemoveTargetById=200;ARGS_GET:x1"
SecRule ARGS_GET:cx2 "@streq 1" "id:11,phase:1,pass,nolog,ctl:ruleRemoveTargetById=200;ARGS_GET:x2"
SecRule ARGS_GET:cx3 "@streq 1" "id:12,phase:1,pass,nolog,ctl:ruleRemoveTargetById=200;ARGS_GET:/^x3/"
SecRule ARGS_GET:cr "@streq 1" "id:13,phase:1,pass,nolog,ctl:ruleRemoveById=201"
SecRule ARGS_GET:au "@streq 1" "id:15,phase:1,pass,nolog,ctl:auditEngine=On"
SecRule ARGS_GET:se "@streq 1" "id:14,phase:1,pass,nolog,setenv:VERIF_C06=%{ARGS_GET.se},setvar:tx.env=1"
SecRule ARGS_GET|!ARGS_GET:e1|!ARGS_GET:e2|!ARGS_GET:e3 "@streq hit" "id:200,phase:2,pass,log,auditlog,t:trim,t:lowercase,setvar:tx.n200=+1"
SecRule ARGS_GET:x1|ARGS_GET:x2 "@rx ^h(i)t$" "id:201,phase:2,pass,log,capture,t:lowercase,t:trim,setvar:tx.n201=+1,setvar:tx.c201=%{TX.1}"
SecRule ARGS "@pm hit miss other" "id:202,phase:2,pass,nolog,t:lowercase,setvar:tx.n202=+1"
SecRule REQUEST_URI "@restpath /api/{kind}/{id}" "id:203,phase:1,pass,nolog,setvar:tx.rest=1"
SecRule ARGS_GET:nid "@validateNid cl ^\d{7,8}-[\dk]$" "id:204,phase:2,pass,nolog,setvar:tx.nid=1"
SecRule ARGS_GET:d "@streq 1" "id:210,phase:2,deny,status:403,log,auditlog"
SecRule REQUEST_HEADERS:X-A "@contains evil" "id:211,phase:1,pass,log,t:urlDecode,t:lowercase,setvar:tx.hdr=+1"
SecRule ARGS_GET "@rx ^(h)it$" "id:212,phase:2,pass,nolog,capture,multiMatch,t:trim,t:lowercase,t:uppercase,t:lowercase,setvar:tx.mm=+1,setvar:tx.mk_%{MATCHED_VAR_NAME}_%{TX.1}=%{MATCHED_VAR}/%{TX.0}"
SecRule RESPONSE_BODY "@rx le+ak" "id:220,phase:4,pass,log,setvar:tx.rb=1"
SecAction "id:230,phase:5,pass,nolog,setvar:tx.done=1"
`
	return cfg
}

// c06DefaultAction: a default action list with actions that keep data (the same line is used by the shared WAF and
// by configurations the builder goroutines parse meanwhile: whatever a parser keeps per line must not be shared
// between WAFs)
const c06DefaultAction = "\nSecDefaultAction \"phase:2,pass,log,setvar:tx.dflt=+1,setvar:tx.dk_%{MATCHED_VAR_NAME}=1\"\n"

// other configurations built and closed by the builder goroutines; they share pattern strings with c06Config.
var c06BuilderConfigs = []string{
	c06DefaultAction + `SecRule ARGS "@pm hit miss other" "id:1,phase:2,t:lowercase"
SecRule ARGS_GET:x1 "@streq hit" "id:2,phase:2,t:trim"`,
	`SecRule ARGS "@rx ^h(i)t$" "id:1,phase:2,pass,t:lowercase,t:trim"
SecRule ARGS "@pm hit miss other" "id:2,phase:2,pass,t:trim,t:lowercase"`,
	`SecRule REQUEST_URI "@restpath /api/{kind}/{id}" "id:1,phase:1,pass"
SecRule ARGS:/^x3/ "@rx le+ak" "id:2,phase:2,pass,t:urlDecode,t:lowercase,t:trim"`,
	`SecRule ARGS_GET:nid "@validateNid cl ^\d{7,8}-[\dk]$" "id:1,phase:2,pass"
SecRule ARGS|!ARGS:e1|!ARGS:/^x3/ "@pm hit miss other" "id:2,phase:2,pass,t:trim,t:lowercase,t:urlDecode"`,
	`SecRxPreFilter On
SecRule ARGS "@rx ^h(i)t$" "id:1,phase:2,pass"
SecRule ARGS "@rx le+ak" "id:2,phase:2,pass"`,
}

var c06Steers = []string{"au", "cx1", "cx2", "cx3", "cr", "se", "e1", "e2", "x1", "x2", "x3a", "d", "nid", "other"}

func c06Request(r gen.R) *sl.Req {
	req := &sl.Req{Method: "GET", Path: gen.Pick(r, []string{"/api/user/7", "/plain", "/api/x/y"}), Status: 200, RespHeaders: []sl.KV{{K: "Content-Type", V: "text/plain"}}}
	for _, s := range gen.Subset(r, c06Steers, 0.4) {
		v := "1"
		switch s {
		case "e1", "e2", "x1", "x2", "x3a", "other":
			v = gen.Pick(r, []string{"hit", " HIT ", "miss", "Hit"})
		case "nid":
			v = gen.Pick(r, []string{"12345678-5", "1234567-k", "--------", "x"})
		case "se":
			v = gen.Pick(r, []string{"a", "b"})
		}
		req.Get = append(req.Get, sl.KV{K: s, V: v})
	}
	if gen.Chance(r, 0.5) {
		req.Headers = append(req.Headers, sl.KV{K: "X-A", V: gen.Pick(r, []string{"EVIL%20one", "fine", "e%76il"})})
	}
	return req
}

var c06ChainsUsed = map[string]bool{}

// c06FreshChain draws a transformation chain this process has never interned before.
func c06FreshChain(r gen.R) []string {
	pool := []string{"lowercase", "uppercase", "trim", "trimLeft", "trimRight", "length", "removeNulls", "hexEncode", "base64Encode", "md5", "sha1"}
	for {
		n := 3 + r.IntN(3)
		ch := make([]string, n)
		for i := range ch {
			ch[i] = gen.Pick(r, pool)
		}
		k := fmt.Sprint(ch)
		if !c06ChainsUsed[k] {
			c06ChainsUsed[k] = true
			return ch
		}
	}
}

// c06ConcurrentConstruction builds several WAFs at the same moment, each introducing transformation chains
// never seen before in the process (so that their interning races), then probes each and compares with the
// reference model: a chain must keep meaning its own list of transformations.
func c06ConcurrentConstruction(w *fw.W, round int) {
	const k = 8
	progs := make([]*sl.Program, k)
	for i := range progs {
		p := &sl.Program{Engine: "On"}
		for j := 0; j < 3; j++ {
			p.Items = append(p.Items, sl.Item{Rule: &sl.Rule{ID: 10 + j, Phase: 2, Severity: -1, Targets: []sl.Sel{{Var: "ARGS_GET"}},
				Trans: c06FreshChain(w.Rng), Op: &sl.Op{Name: "verifrec", Arg: fmt.Sprintf("cc%d_%d_%d true", round, i, j)}}})
		}
		progs[i] = p
	}
	req := &sl.Req{Method: "GET", Path: "/cc", Status: 200, Get: []sl.KV{{K: "a", V: " AbC "}, {K: "b", V: "x\x00Y"}, {K: "c", V: "Zz"}}}
	start := make(chan struct{})
	var wg sync.WaitGroup
	for i := 0; i < k; i++ {
		wg.Add(1)
		go func(i int) {
			defer wg.Done()
			<-start
			text := progs[i].Render()
			waf, err := sl.BuildText(text)
			if err != nil {
				w.Violation("concurrent-construction-build-fails", "construction", map[string]any{"config": text}, nil, nil, err.Error())
				return
			}
			defer sl.CloseWAF(waf)
			exp := sl.Run(progs[i], req)
			got := sl.Exec(waf, req)
			w.Eval(1)
			w.Count("concurrently_constructed_wafs_probed", 1)
			if exp.Ambiguous != "" {
				return
			}
			if d := sl.Compare(exp, got, sl.CompareOpts{TX: true}); d != "" {
				w.Violation("waf-built-concurrently-misbehaves:"+sl.DiffKind(d), "reference-model", map[string]any{"config": text, "req": req}, exp, got, d)
			}
		}(i)
	}
	close(start)
	wg.Wait()
}

type c06Params struct {
	Variant    int `json:"variant"`
	Goroutines int `json:"goroutines"`
	PerG       int `json:"per_goroutine"`
	Builders   int `json:"builders"`
	Rounds     int `json:"rounds"`
}

var c06YieldCtr, c06Yields atomic.Int64
var c06SiteCount sync.Map

// c06JudgeAudit: writers sharing one audit log. At the quiescent point after the concurrent phase the
// log must hold exactly one intact record per transaction: serial = one JSON document per line with
// distinct transaction ids; concurrent = one index entry per transaction (header line, then at most one
// request line and one status line, then "<id> - <path>") with the named file present and parseable.
func c06JudgeAudit(w *fw.W, text string, pr c06Params, auditFile, auditDir string, total int) {
	data, err := os.ReadFile(auditFile)
	vcase := map[string]any{"config": text, "goroutines": pr.Goroutines, "transactions": total}
	if err != nil {
		w.Violation("audit-log-unreadable-after-concurrent-phase", "audit-log judge", vcase, nil, nil, err.Error())
		return
	}
	var lines []string
	if t := strings.TrimRight(string(data), "\n"); t != "" {
		lines = strings.Split(t, "\n")
	}
	if pr.Variant%2 == 0 {
		ids := map[string]bool{}
		for _, ln := range lines {
			var rec struct {
				Transaction struct {
					ID string `json:"id"`
				} `json:"transaction"`
			}
			if err := json.Unmarshal([]byte(ln), &rec); err != nil || rec.Transaction.ID == "" {
				w.Violation("serial-audit-record-torn", "audit-log judge", vcase, nil, map[string]any{"line": clip(ln, 600)}, fmt.Sprint("a line of the shared serial audit log is not one JSON record: ", err))
				return
			}
			if ids[rec.Transaction.ID] {
				w.Violation("serial-audit-record-duplicated", "audit-log judge", vcase, nil, map[string]any{"id": rec.Transaction.ID}, "two records with one transaction id")
				return
			}
			ids[rec.Transaction.ID] = true
		}
		if len(ids) != total {
			w.Violation("serial-audit-record-count", "audit-log judge", vcase, total, len(ids), "records in the shared serial audit log after the concurrent phase")
		}
		w.Count("audit_records_checked", len(ids))
		return
	}
	entries := 0
	var group []string
	for _, ln := range lines {
		group = append(group, ln)
		j := strings.LastIndex(ln, " - "+auditDir)
		if j < 0 {
			continue
		}
		entries++
		problem := ""
		hdr, reqs, stats := 0, 0, 0
		for k, g := range group[:len(group)-1] {
			switch {
			case strings.Contains(g, " - - ["):
				hdr++
				if k != 0 {
					problem = "entry header not at the start of its entry"
				}
			case strings.HasPrefix(g, ` "`):
				reqs++
			default:
				stats++
			}
		}
		if problem == "" && (hdr != 1 || reqs > 1 || stats > 1) {
			problem = fmt.Sprintf("%d headers, %d request lines, %d status lines inside one index entry", hdr, reqs, stats)
		}
		file := ln[j+3:]
		if problem == "" {
			fb, err := os.ReadFile(file)
			var rec map[string]any
			if err != nil {
				problem = "file named by the index entry: " + err.Error()
			} else if err := json.Unmarshal(fb, &rec); err != nil {
				problem = "file named by the index entry is not one JSON record: " + err.Error()
			}
		}
		if problem != "" {
			w.Violation("concurrent-audit-index-entry-torn", "audit-log judge", vcase, nil, map[string]any{"entry": clip(strings.Join(group, "\n"), 800)}, problem)
			return
		}
		group = nil
	}
	if len(group) != 0 {
		w.Violation("concurrent-audit-index-entry-torn", "audit-log judge", vcase, nil, map[string]any{"tail": clip(strings.Join(group, "\n"), 800)}, "lines after the last complete index entry")
		return
	}
	if entries != total {
		w.Violation("concurrent-audit-index-count", "audit-log judge", vcase, total, entries, "index entries after the concurrent phase")
	}
	w.Count("audit_records_checked", entries)
}

func c06InstallYield(seed int64) {
	verifapi.SetYield(func(site string) {
		n := c06YieldCtr.Add(1)
		h := fnv.New64a()
		fmt.Fprintf(h, "%d|%d|%s", seed, n, site)
		x := h.Sum64()
		v, _ := c06SiteCount.LoadOrStore(site, new(atomic.Int64))
		v.(*atomic.Int64).Add(1)
		switch {
		case x%4 == 0:
			c06Yields.Add(1)
			runtime.Gosched()
		case x%97 == 1:
			c06Yields.Add(1)
			time.Sleep(time.Duration(x%200) * time.Microsecond)
		}
	})
}

func c06Run(w *fw.W, b fw.Batch) {
	var pr c06Params
	json.Unmarshal(b.Params, &pr)
	auditFile := filepath.Join(w.Scratch, "audit.log")
	auditDir := filepath.Join(w.Scratch, "audit.d")
	text := c06Config(auditFile, auditDir, pr.Variant)
	opts := sl.CompareOpts{TX: true}
	for round := 0; round < pr.Rounds; round++ {
		// sequential reference outcomes on a private WAF
		ref, err := sl.BuildText(text)
		if err != nil {
			w.Violation("shared-waf-build-fails", "construction", map[string]any{"config": text}, nil, nil, err.Error())
			return
		}
		total := pr.Goroutines * pr.PerG
		reqs := make([]*sl.Req, total)
		exps := make([]*sl.Result, total)
		stable := make([]bool, total)
		for i := range reqs {
			reqs[i] = c06Request(w.Rng)
			e1 := sl.Exec(ref, reqs[i])
			e2 := sl.Exec(ref, reqs[i])
			e3 := sl.Exec(ref, reqs[i])
			r1 := e1.Result
			exps[i] = &r1
			stable[i] = e1.Panic == "" && sl.Compare(&r1, e2, opts) == "" && sl.Compare(&r1, e3, opts) == ""
			if !stable[i] {
				w.Count("unstable_sequentially_skipped", 1)
			}
		}
		sl.CloseWAF(ref)
		os.Remove(auditFile)
		os.RemoveAll(auditDir)

		c06InstallYield(w.Seed*1000 + int64(b.Index)*10 + int64(round))
		shared, err := sl.BuildText(text)
		if err != nil {
			w.Violation("shared-waf-build-fails", "construction", map[string]any{"config": text}, nil, nil, err.Error())
			return
		}
		// a second WAF with the same configuration shares the audit log target (two virtual hosts, or the
		// old and the new WAF during a reload); odd goroutines use it
		shared2, err := sl.BuildText(text)
		if err != nil {
			w.Violation("shared-waf-build-fails", "construction", map[string]any{"config": text}, nil, nil, err.Error())
			return
		}
		var wg sync.WaitGroup
		var mismatches atomic.Int64
		stop := make(chan struct{})
		// builders: construct, probe and close other WAFs that share pattern strings
		var bwg sync.WaitGroup
		for bi := 0; bi < pr.Builders; bi++ {
			bwg.Add(1)
			go func(bi int) {
				defer bwg.Done()
				k := 0
				for {
					select {
					case <-stop:
						return
					default:
					}
					cfg := c06BuilderConfigs[(bi+k)%len(c06BuilderConfigs)]
					k++
					pi := fw.Guard(func() {
						wf, err := sl.BuildText(cfg)
						if err != nil {
							w.Violation("builder-waf-build-fails-under-concurrency", "construction", map[string]any{"config": cfg}, nil, nil, err.Error())
							return
						}
						sl.Exec(wf, &sl.Req{Method: "GET", Path: "/api/a/b", Get: []sl.KV{{K: "x3z", V: "leeak"}, {K: "q", V: "Hit"}}, Status: 200})
						sl.CloseWAF(wf)
						w.Count("builder_wafs_built_and_closed", 1)
					})
					if pi != nil {
						w.Violation("panic-in-builder:"+pi.Frame, "recover", map[string]any{"config": cfg}, nil, pi, pi.Value)
						return
					}
				}
			}(bi)
		}
		for g := 0; g < pr.Goroutines; g++ {
			wg.Add(1)
			go func(g int) {
				defer wg.Done()
				for j := 0; j < pr.PerG; j++ {
					i := g*pr.PerG + j
					wf := shared
					if g%2 == 1 {
						wf = shared2
					}
					got := sl.Exec(wf, reqs[i])
					w.Eval(1)
					if !stable[i] {
						continue
					}
					if d := sl.Compare(exps[i], got, opts); d != "" {
						mismatches.Add(1)
						w.Violation("concurrent-outcome-differs-from-sequential:"+sl.DiffKind(d), "per-transaction differential", map[string]any{"config": text, "req": reqs[i], "goroutines": pr.Goroutines}, exps[i], got, d)
					} else if len(got.Fired) > 1 {
						w.Nontrivial(fw.Hash(reqs[i]) ^ uint64(i) ^ uint64(round)<<32)
					}
				}
			}(g)
		}
		wg.Wait()
		close(stop)
		bwg.Wait()
		w.Count("concurrent_transactions", total)
		w.Count("rounds", 1)
		audited := total
		if pr.Variant&2 != 0 {
			audited = 0
			for _, rq := range reqs {
				for _, kv := range rq.Get {
					if kv.K == "au" && kv.V == "1" {
						audited++
						break
					}
				}
			}
		}
		c06JudgeAudit(w, text, pr, auditFile, auditDir, audited)
		sl.CloseWAF(shared2)
		for k := 0; k < 6; k++ {
			c06ConcurrentConstruction(w, round*10+k)
		}
		// quiescent point: only `shared` is open -> every cache entry must be owned by it alone
		if verifapi.MemoizeCompiledIn {
			own := verifapi.MemoizerID(shared)
			for _, e := range verifapi.MemoizeSnapshot() {
				for _, o := range e.Owners {
					if o != own {
						w.Violation("pattern-cache-entry-owned-by-closed-waf", "snapshot invariant", map[string]any{"key": e.Key, "owners": e.Owners, "open": own}, nil, nil,
							fmt.Sprintf("entry %q still owned by %v after all other WAFs were closed", e.Key, e.Owners))
					}
				}
				if len(e.Owners) == 0 {
					w.Violation("pattern-cache-entry-without-owner", "snapshot invariant", map[string]any{"key": e.Key}, nil, nil, "entry with empty owner set")
				}
			}
			w.Count("snapshot_checks", 1)
			// the open WAF still works
			g2 := sl.Exec(shared, reqs[0])
			if stable[0] {
				if d := sl.Compare(exps[0], g2, opts); d != "" {
					w.Violation("open-waf-broken-after-others-closed:"+sl.DiffKind(d), "re-probe", map[string]any{"config": text, "req": reqs[0]}, exps[0], g2, d)
				}
			}
			sl.CloseWAF(shared)
			if left := verifapi.MemoizeSnapshot(); len(left) != 0 {
				w.Violation("pattern-cache-not-empty-after-all-closed", "snapshot invariant", map[string]any{"entries": len(left), "first": left[0].Key}, nil, nil, "cache entries left after every WAF was closed")
			}
		} else {
			sl.CloseWAF(shared)
		}
		verifapi.SetYield(nil)
	}
	w.Count("yields_taken", int(c06Yields.Load()))
	c06SiteCount.Range(func(k, v any) bool {
		w.Count("yield_site:"+k.(string), int(v.(*atomic.Int64).Load()))
		return true
	})
	if w.WantSample() {
		w.Sample(map[string]any{"params": pr, "config": text, "example_request": c06Request(w.Rng)})
	}
}

func init() {
	fw.Register(&fw.Prop{
		ID: "C06", Level: "exploration",
		Rule:        "G goroutines each run T generated transactions on ONE shared WAF (rules with several target exclusions extended at run time by ctl:ruleRemoveTargetById, shared transformation chains, @rx/@pm/@restpath/@validateNid patterns, captures, setenv; serial or concurrent audit writer, auditing configured On or configured Off and switched on per transaction by ctl:auditEngine) and on a SECOND WAF built from the same configuration and sharing the audit log target, while builder goroutines construct, probe and close other WAFs that share the same pattern strings; in every round 8 WAFs introducing never-seen transformation chains are also constructed at the same moment and probed against the reference model; under the Go race detector (-race, which also enables checkptr), GOMAXPROCS in {2,4,16}, with seeded Gosched/sleep yields injected at the pattern cache, the transaction pool, the transformation-id table and between the lines of a concurrent audit index entry. Monitors: race/fatal reports (de-duplicated by conflicting coraza frames), per-transaction differential against the outcome computed sequentially beforehand, pattern-cache owner invariant at quiescent points; audit-log judge at the quiescent point after every concurrent phase (serial: exactly one intact JSON record with a distinct transaction id per audited transaction; concurrent: exactly one intact index entry per audited transaction naming a file that holds one JSON record). Non-trivial: a concurrent transaction with more than one fired rule that was compared; distinct by (request, position, round).",
		Assumptions: []string{"a clean race-detector run covers only the accesses executed under the schedules that occurred", "transactions whose sequential outcome is not stable over three runs are excluded from the differential (C04's business)"},
		Required:    []string{"concurrently_constructed_wafs_probed", "concurrent_transactions", "builder_wafs_built_and_closed", "snapshot_checks", "audit_records_checked", "yield_site:auditlog.concurrent.index", "yields_taken", "yield_site:pool.get", "yield_site:memo.do.afterLoad", "yield_site:tid.lock"},
		Plan: func(tier fw.Tier, seed int64) []fw.Batch {
			var bs []fw.Batch
			add := func(variant, procs, g, per, builders, rounds int) {
				pj, _ := json.Marshal(c06Params{Variant: variant, Goroutines: g, PerG: per, Builders: builders, Rounds: rounds})
				bs = append(bs, fw.Batch{Index: len(bs), Flavour: "race", Params: pj, GOMAXPROCS: procs, TimeoutS: 1800})
			}
			if tier == fw.Quick {
				add(0, 4, 16, 60, 2, 2)
				add(1, 4, 16, 60, 2, 2)
				add(2, 2, 8, 80, 2, 2)
				add(3, 16, 64, 20, 4, 2)
			} else {
				for rep := 0; rep < 4; rep++ {
					for _, procs := range []int{1, 2, 4, 16} {
						for variant := 0; variant < 2; variant++ {
							variant := variant + 2*(rep%2)
							add(variant, procs, []int{4, 16, 64}[(rep+variant)%3], 120, 3, 4)
						}
					}
				}
				// optional build mode with multiphase evaluation
				pj, _ := json.Marshal(c06Params{Variant: 0, Goroutines: 16, PerG: 100, Builders: 2, Rounds: 3})
				bs = append(bs, fw.Batch{Index: len(bs), Flavour: "mphase-race", Params: pj, GOMAXPROCS: 4, TimeoutS: 1800})
			}
			return bs
		},
		Run: c06Run,
		Replay: func(w *fw.W, raw json.RawMessage) {
			// schedule-dependent: a witness is re-run as its whole batch (the driver passes the batch spec)
		},
	})
}

func clip(s string, n int) string {
	if len(s) > n {
		return s[:n] + "…"
	}
	return s
}
