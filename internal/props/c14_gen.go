package props

import (
	"math/rand/v2"
	"strings"
)

// Byte-string generators of the C14 check (transformations as total, pure functions).
// Everything is deterministic: enumerations take no PRNG, the random mix takes the batch PRNG.

// c14Frags are the building blocks of the random mix: complete and truncated escape sequences of
// every decoder, all delimiters the byte loops look at, white space of every flavour, NUL,
// invalid UTF-8 and valid multi-byte UTF-8 (including case-fold pairs).
var c14Frags = []string{
	"%", "%4", "%41", "%4a", "%zz", "%u", "%u0", "%u00", "%u004", "%u0041", "%uff21", "%uFF1c", "%u00a0", "%U0041", "%25", "%2", "%00", "+",
	"\\", "\\x", "\\x4", "\\x41", "\\X41", "\\u", "\\u0", "\\u00", "\\u004", "\\u0041", "\\uff21", "\\0", "\\1", "\\12", "\\101", "\\377", "\\400", "\\777", "\\8",
	"\\n", "\\t", "\\a", "\\v", "\\\\", "\\\n", "\\'", "\\\"", "\\?", "\\41 ", "\\000041", "\\ff21", "\\g",
	"&", "&#", "&#x", "&#X", "&#x4", "&#x41", "&#x41;", "&#6", "&#65", "&#65;", "&#0", "&#0;", "&#0x41;", "&#x0;", "&#xD800;", "&#x110000;", "&#128;", "&#x80;", "&#1234567890123;",
	"&a", "&am", "&amp", "&amp;", "&lt", "&lt;", "&gt;", "&quot;", "&nbsp;", "&nbsp", "&NotEqualTilde;", "&notit;", "&copy", "&AMP;", "&;",
	" ", "  ", "\t", "\n", "\r", "\v", "\f", "\x00", "\x00\x00", "\xa0", "\x85", "\xc2\xa0", "\xc2\x85", "\u2003", "\u3000", "\u2028", "\u1680",
	"\xff", "\xc3", "\xc3\x28", "\xe2\x82", "\xf0\x9f\x98", "\xed\xa0\x80", "\xc0\xaf", "\x80", "\xfe\xff",
	"é", "É", "ß", "\u017f", "\u212a", "\u0130", "\u0131", "\u01c5", "日本", "\U0001f600", "Σ", "ς",
	"A", "Z", "a", "z", "AbC", "0", "7", "9", "f", "F", "g",
	"/", "//", "/.", "/./", "..", "../", "/..", "./", "\\..\\", "C:", "a:b", "::$DATA", ". ", ".", "/ ", "/*", "*/", "/**/", "/*x*/", "--", "-->", "<!--", "<!--x-->", "#", "-", "<", ">", "!", "*",
	"'", "\"", "^", ",", ";", "=", "(", ")", "|", "{", "}", "[", "]", ":", "`", "$", "~", "_", "@", "?",
	"QUJD", "QUI=", "QQ==", "QQ", "Q", "=", "-_", "4142", "414", "4G", "0x41", "0x",
}

// c14Escapes are complete sequences; c14Truncations cuts each of them at every offset.
var c14Escapes = []string{
	"%41", "%4a", "%zz", "%u0041", "%uff21", "%u00a0", "%U0041", "%u004g", "%2541", "+",
	"\\u0041", "\\uff21", "\\u00e9", "\\x41", "\\X41", "\\xg1", "\\101", "\\0", "\\377", "\\777", "\\8", "\\n", "\\\\", "\\\n", "\\41 ", "\\000041", "\\00ff21", "\\g",
	"&#x41;", "&#X41;", "&#65;", "&#0;", "&#0x41;", "&#x0;", "&#xD800;", "&#x110000;", "&#128;", "&#x80;", "&#00065;",
	"&amp;", "&lt;", "&gt;", "&quot;", "&nbsp;", "&NotEqualTilde;", "&notit;", "&copy;", "&AMP;",
	"/*a*/", "<!--a-->", "--", "#a", "../", "/./", "//", "a:b", "a. ", "\\..\\",
	"QUJD", "QUI=", "QQ==", "4142",
	"\xc3\xa9", "\xe2\x84\xaa", "\xf0\x9f\x98\x80", "\xc2\xa0", "\xc2\x85", "\xe2\x80\xa8",
}

var c14Leads = []string{"", "a", "ab ", "%", "\\", "&", "\x00", "\xff", "é", " "}
var c14Tails = []string{"", "z", "4", "G", ";", " ", "%", "\\", "\xff", "\n"}

// c14Truncations enumerates lead + escape[:cut] + tail for every cut offset. With reduced=true only
// a third of the lead/tail contexts are used (race slice). The second result is the number of
// distinct (escape, cut) pairs.
func c14Truncations(reduced bool) ([]string, int) {
	leads, tails := c14Leads, c14Tails
	if reduced {
		leads, tails = []string{"", "a", "\xff"}, []string{"", "z", "4"}
	}
	var out []string
	seen := map[string]bool{}
	cuts := 0
	for _, e := range c14Escapes {
		for p := 1; p <= len(e); p++ {
			cuts++
			for _, l := range leads {
				for _, t := range tails {
					s := l + e[:p] + t
					if !seen[s] {
						seen[s] = true
						out = append(out, s)
					}
				}
			}
		}
	}
	return out, cuts
}

// c14Alphabet is the reduced alphabet used for exhaustive enumeration beyond length 2.
var c14Alphabet = []byte("%+&#;\\/*-<>!.:= \t\n\x00" + "0478afgux" + "AFUXZ" + "\xa0\x85\xc2\xc3\xa9\xff" + "'\"^,(")

// c14Enumerate calls f for every string of exactly n bytes over alpha whose first byte index is in [lo,hi).
func c14Enumerate(alpha []byte, n, lo, hi int, f func(string)) {
	if n == 0 {
		if lo == 0 {
			f("")
		}
		return
	}
	buf := make([]byte, n)
	var rec func(i int)
	rec = func(i int) {
		if i == n {
			f(string(buf))
			return
		}
		a, b := 0, len(alpha)
		if i == 0 {
			a, b = lo, hi
		}
		for k := a; k < b && k < len(alpha); k++ {
			buf[i] = alpha[k]
			rec(i + 1)
		}
	}
	rec(0)
}

func c14AllBytes() []byte {
	b := make([]byte, 256)
	for i := range b {
		b[i] = byte(i)
	}
	return b
}

// c14LongUnits are repeated to build long runs.
var c14LongUnits = []string{"%", "%4", "%41", "%u00", "%u0041", "+", "\\", "\\x4", "\\u00", "\\0", "\\101", "&#", "&#x", "&amp", "&amp;", "&lt;", "&#0;", " ", "\t", "\x00", "\xa0", "\xc2\xa0",
	"\xff", "\xc3", "é", "A", "a", "/", "../", "/./", "//", "/*", "*/", "/**/", "--", "#", "<!--", "-->", "'", "\\..\\", ". /", ":", "QUJD", "41", "=", "\n", "a b"}

// c14LongRun returns unit repeated to exactly (or just below) n bytes, optionally with a truncated tail.
func c14LongRun(unit string, n int, exact bool) string {
	if len(unit) == 0 {
		return ""
	}
	var sb strings.Builder
	sb.Grow(n + len(unit))
	for sb.Len()+len(unit) <= n {
		sb.WriteString(unit)
	}
	if exact {
		sb.WriteString(unit[:n-sb.Len()]) // cut the last repetition: the run ends in a truncated unit
	}
	return sb.String()
}

// c14Random is the random mix: mostly short strings of fragments and raw bytes, sometimes long.
func c14Random(r *rand.Rand) string {
	n := r.IntN(12)
	switch r.IntN(40) {
	case 0:
		n = r.IntN(300)
	case 1:
		n = 300 + r.IntN(3000)
	}
	mode := r.IntN(8)
	var sb strings.Builder
	for i := 0; i < n; i++ {
		switch {
		case mode == 0: // raw bytes only
			sb.WriteByte(byte(r.IntN(256)))
		case mode == 1: // ASCII printable + delimiters
			sb.WriteByte(byte(0x20 + r.IntN(0x5f)))
		case mode == 2: // fragments only
			sb.WriteString(c14Frags[r.IntN(len(c14Frags))])
		case mode == 3: // reduced alphabet
			sb.WriteByte(c14Alphabet[r.IntN(len(c14Alphabet))])
		default:
			switch r.IntN(6) {
			case 0:
				sb.WriteByte(byte(r.IntN(256)))
			case 1:
				sb.WriteByte(c14Alphabet[r.IntN(len(c14Alphabet))])
			default:
				sb.WriteString(c14Frags[r.IntN(len(c14Frags))])
			}
		}
	}
	s := sb.String()
	// cut at a random offset now and then: truncates whatever escape sat there
	if len(s) > 0 && r.IntN(4) == 0 {
		s = s[:r.IntN(len(s)+1)]
	}
	return s
}

// c14Chain draws a transformation list of length 2..4 (or 1..4 when allowOne) from names.
func c14Chain(r *rand.Rand, names []string, minLen int) []string {
	n := minLen + r.IntN(4-minLen+1)
	out := make([]string, n)
	for i := range out {
		out[i] = names[r.IntN(len(names))]
	}
	return out
}
