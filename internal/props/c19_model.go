package props

// C19: case structure, directive rendering and the decision function written from the statement.

import (
	"encoding/hex"
	"encoding/json"
	"fmt"
	"sort"
	"strings"
	"unicode/utf8"
)

// c19Bytes marshals byte-exactly (text when valid UTF-8 without control bytes, hex otherwise).
type c19Bytes string

func (b c19Bytes) MarshalJSON() ([]byte, error) {
	s := string(b)
	plain := utf8.ValidString(s)
	if plain {
		for i := 0; i < len(s); i++ {
			if s[i] < 0x20 || s[i] == 0x7f {
				plain = false
				break
			}
		}
	}
	if plain {
		return json.Marshal(map[string]string{"s": s})
	}
	return json.Marshal(map[string]string{"x": hex.EncodeToString([]byte(s))})
}

func (b *c19Bytes) UnmarshalJSON(d []byte) error {
	var m map[string]string
	if err := json.Unmarshal(d, &m); err != nil {
		return err
	}
	if x, ok := m["x"]; ok {
		raw, err := hex.DecodeString(x)
		if err != nil {
			return err
		}
		*b = c19Bytes(raw)
		return nil
	}
	*b = c19Bytes(m["s"])
	return nil
}

// c19Rule is one rule of a case. Every rule except Never is an unconditional SecAction.
type c19Rule struct {
	ID     int      `json:"id"`
	Phase  int      `json:"phase"`
	Flags  string   `json:"flags"`            // "", "log", "nolog", "auditlog", "noauditlog", "log,auditlog", "log,noauditlog", "nolog,auditlog", "nolog,noauditlog"
	Deny   int      `json:"deny,omitempty"`   // status of a deny action (0 = pass)
	Ctl    []string `json:"ctl,omitempty"`    // e.g. "auditEngine=Off", "auditLogParts=+K"
	Never  bool     `json:"never,omitempty"`  // a SecRule that can not match
	First  bool     `json:"first,omitempty"`  // fires only in the first transaction on the WAF (tests the X-Ctl header like a ctl carrier)
	Plain  bool     `json:"plain,omitempty"`  // no macros in msg/logdata
	NoMsg  bool     `json:"nomsg,omitempty"`  // no msg at all
	Target string   `json:"target,omitempty"` // when set: SecRule <Target> "@unconditionalMatch" (matched value carries request bytes)
}

type c19Case struct {
	Table       string    `json:"table"` // "decision" | "content" | "concurrent"
	Cell        int       `json:"cell"`
	RuleEngine  string    `json:"rule_engine"`  // On | DetectionOnly
	AuditEngine string    `json:"audit_engine"` // On | Off | RelevantOnly
	Relevant    string    `json:"relevant"`     // SecAuditLogRelevantStatus pattern (always set)
	DefFlags    string    `json:"def_flags"`    // log flags of SecDefaultAction for every phase ("" = no SecDefaultAction at all)
	Parts       string    `json:"parts"`        // "" = no SecAuditLogParts directive
	Format      string    `json:"format"`       // JSON | JsonLegacy | Native | OCSF
	Sink        string    `json:"sink"`         // plugin | serial | concurrent
	Rules       []c19Rule `json:"rules"`
	RespStatus  int       `json:"resp_status"`
	// Follow marks the follow-up transaction on the same WAF: it does not carry the X-Ctl header, so no ctl rule fires.
	Follow bool `json:"follow,omitempty"`
	// hostile bytes
	HdrVal   c19Bytes `json:"hdr_val"`   // request header X-H
	ArgVal   c19Bytes `json:"arg_val"`   // GET argument h
	ReqBody  c19Bytes `json:"req_body"`  // request body (raw)
	RespHdr  c19Bytes `json:"resp_hdr"`  // response header X-R
	RespBody c19Bytes `json:"resp_body"` // response body
}

var c19FlagCombos = []string{"", "log", "nolog", "auditlog", "noauditlog", "log,auditlog", "log,noauditlog", "nolog,auditlog", "nolog,noauditlog"}
var c19DefFlagCombos = []string{"log,auditlog", "nolog", "nolog,auditlog", "log,noauditlog"}
var c19Formats = []string{"JSON", "JsonLegacy", "Native", "OCSF"}
var c19Sinks = []string{"plugin", "serial", "concurrent"}

// c19ApplyFlags: documented meaning of the four actions, applied left to right.
// log: error log and audit log; nolog: neither; auditlog / noauditlog: audit log only.
func c19ApplyFlags(lg, au bool, flags string) (bool, bool) {
	for _, f := range strings.Split(flags, ",") {
		switch f {
		case "log":
			lg, au = true, true
		case "nolog":
			lg, au = false, false
		case "auditlog":
			au = true
		case "noauditlog":
			au = false
		}
	}
	return lg, au
}

// flagsOf returns (logging enabled, audit enabled) for a rule of the case; ok=false when the
// statement and the documentation do not pin the inherited defaults (no SecDefaultAction for a phase other than 2).
func (c *c19Case) flagsOf(r *c19Rule) (lg, au, ok bool) {
	ok = true
	switch {
	case c.DefFlags != "":
		lg, au = c19ApplyFlags(false, false, c.DefFlags)
	case r.Phase == 2:
		lg, au = true, true // documented built-in default list "phase:2,log,auditlog,pass"
	default:
		// inherited list not pinned: only flag lists that overwrite both bits are decided
		switch r.Flags {
		case "", "auditlog", "noauditlog":
			ok = false
		}
	}
	lg, au = c19ApplyFlags(lg, au, r.Flags)
	return
}

func (c *c19Case) rule(id int) *c19Rule {
	for i := range c.Rules {
		if c.Rules[i].ID == id {
			return &c.Rules[i]
		}
	}
	return nil
}

// denyRule returns the deny rule that is evaluated FIRST (phase order, then file order): under rule engine On it
// is the one that interrupts, under DetectionOnly the one that would have interrupted.
func (c *c19Case) denyRule() *c19Rule {
	var first *c19Rule
	for i := range c.Rules {
		if r := &c.Rules[i]; r.Deny != 0 && (first == nil || r.Phase < first.Phase) {
			first = r
		}
	}
	return first
}

func (c *c19Case) denyCount() int {
	n := 0
	for i := range c.Rules {
		if c.Rules[i].Deny != 0 {
			n++
		}
	}
	return n
}

// ruleEngine is the rule engine mode in force while the rules run: SecRuleEngine, or DetectionOnly when the
// first rule of phase 1 (a ctl carrier, so not in a follow-up transaction) executes ctl:ruleEngine=DetectionOnly.
func (c *c19Case) ruleEngine() string {
	if !c.Follow {
		for i := range c.Rules {
			for _, ctl := range c.Rules[i].Ctl {
				if ctl == "ruleEngine=DetectionOnly" {
					return "DetectionOnly"
				}
			}
		}
	}
	return c.RuleEngine
}

// firesBefore reports whether rule r is evaluated given the (single) deny rule d of the case:
// in rule-engine On everything after a firing deny is skipped by the connector-style call sequence.
func (c *c19Case) modelFires(idx int) bool {
	r := &c.Rules[idx]
	if r.Never {
		return false
	}
	if (len(r.Ctl) > 0 || r.First) && c.Follow {
		return false // ctl rules test the X-Ctl request header, which the follow-up transaction does not send
	}
	if c.ruleEngine() != "On" {
		return true
	}
	for j := range c.Rules {
		d := &c.Rules[j]
		if d.Deny == 0 {
			continue
		}
		if r.Phase == 5 {
			return true // whether phase-5 rules run after an interruption is not this property's business: decided from the observation
		}
		if d.Phase < r.Phase || (d.Phase == r.Phase && j < idx) {
			return false
		}
	}
	return true
}

// c19Expect is the verdict of the decision function.
type c19Expect struct {
	EffEngine    string `json:"eff_engine"`
	EngineByCtl  bool   `json:"engine_by_ctl"`
	CtlPhase     int    `json:"ctl_phase,omitempty"` // phase of the rule that switched the engine
	Denies       int    `json:"denies,omitempty"`    // disruptive rules in the case (the first evaluated one decides)
	StatusSource string `json:"status_source"`       // response | interruption | detectiononly
	Status       int    `json:"status"`
	Relevant     bool   `json:"relevant"`
	NoPattern    bool   `json:"no_pattern,omitempty"` // RelevantOnly without SecAuditLogRelevantStatus
	Records      int    `json:"records"`
	Ambiguous    string `json:"ambiguous,omitempty"`
	Parts        string `json:"parts"` // expected effective part letters, canonical order
	PartsByCtl   bool   `json:"parts_by_ctl"`
}

const c19CanonParts = "ABCDEFGHIJKZ"

func c19PartsSet(s string) map[byte]bool {
	m := map[byte]bool{}
	for i := 0; i < len(s); i++ {
		m[s[i]] = true
	}
	return m
}

func c19PartsString(m map[byte]bool) string {
	var sb strings.Builder
	for i := 0; i < len(c19CanonParts); i++ {
		if m[c19CanonParts[i]] {
			sb.WriteByte(c19CanonParts[i])
		}
	}
	return sb.String()
}

// c19Relevant: the two patterns used are decided by hand, not by a regexp engine.
func c19Relevant(pattern string, status int) bool {
	switch pattern {
	case "^(?:5|403)":
		return status/100 == 5 || status == 403
	case "^40[14]$":
		return status == 401 || status == 404
	}
	panic("c19: unknown relevant-status pattern " + pattern)
}

// expect computes the expected number of records (12 lines of decision) and the effective parts.
// fired (may be nil) is the observed firing; it is consulted only for phase-5 rules after a real interruption,
// where this property does not decide whether the rule runs.
func (c *c19Case) expect(fired map[int]int) *c19Expect {
	e := &c19Expect{EffEngine: c.AuditEngine, StatusSource: "response", Status: c.RespStatus}
	parts := c19PartsSet("ABCFHZ") // documented default of SecAuditLogParts
	if c.Parts != "" {
		parts = c19PartsSet(c.Parts)
	}
	for i := range c.Rules {
		r := &c.Rules[i]
		fires := c.modelFires(i)
		if fired != nil && fires && r.Phase == 5 && c.ruleEngine() == "On" && c.denyRule() != nil {
			fires = fired[r.ID] > 0
		}
		if !fires {
			continue
		}
		for _, ctl := range r.Ctl {
			k, v, _ := strings.Cut(ctl, "=")
			switch k {
			case "auditEngine":
				e.EffEngine, e.EngineByCtl, e.CtlPhase = v, true, r.Phase
			case "auditLogParts":
				e.PartsByCtl = true
				switch v[0] {
				case '+':
					for j := 1; j < len(v); j++ {
						parts[v[j]] = true
					}
				case '-':
					for j := 1; j < len(v); j++ {
						delete(parts, v[j])
					}
				default:
					parts = c19PartsSet(v)
				}
			}
		}
	}
	e.Parts = c19PartsString(parts)
	if d := c.denyRule(); d != nil {
		e.Denies = c.denyCount()
		if c.ruleEngine() == "On" {
			e.StatusSource, e.Status = "interruption", d.Deny
		} else {
			e.StatusSource, e.Status = "detectiononly", d.Deny
		}
	}
	// --- the decision, from the statement ---
	switch e.EffEngine {
	case "On":
		e.Records = 1
	case "Off":
		e.Records = 0
	case "RelevantOnly":
		if c.Relevant == "" {
			// no SecAuditLogRelevantStatus: relevant = some rule fired in THIS transaction asked for audit logging
			e.NoPattern = true
			for i := range c.Rules {
				r := &c.Rules[i]
				fires := c.modelFires(i)
				if fired != nil && fires && r.Phase == 5 && c.ruleEngine() == "On" && c.denyRule() != nil {
					fires = fired[r.ID] > 0
				}
				if _, au, ok := c.flagsOf(r); fires && ok && au {
					e.Relevant = true
				}
			}
			if e.Relevant {
				e.Records = 1
			}
			break
		}
		e.Relevant = c19Relevant(c.Relevant, e.Status)
		if e.StatusSource == "detectiononly" && !e.Relevant && c19Relevant(c.Relevant, c.RespStatus) {
			// would-be status not relevant but the response that really went out is: the statement
			// ("real or would-be") admits both readings.
			e.Ambiguous = "detection-only: would-be status not relevant, real response status relevant"
		}
		if e.Relevant {
			e.Records = 1
		}
	}
	return e
}

// countClass names the table cell kind for a wrong number of records.
func (e *c19Expect) countClass() string {
	s := "count:" + strings.ToLower(e.EffEngine)
	if e.EngineByCtl {
		s += "-ctl"
		if e.CtlPhase == 5 {
			s += "5" // switched by a rule of the logging phase itself
		}
	}
	if e.EffEngine == "RelevantOnly" && e.NoPattern {
		s += "-nopattern"
	} else if e.EffEngine == "RelevantOnly" {
		s += "-" + e.StatusSource
		if e.Denies > 1 {
			s += "-multi" // several disruptive rules: the first evaluated one gives the (real or would-be) status
		}
	}
	return s
}

func c19QuoteAct(v string) string {
	return "'" + strings.ReplaceAll(v, "'", `\'`) + "'"
}

// render produces the directive text. target is the SecAuditLog argument, dir the storage dir (concurrent).
func (c *c19Case) render(writerType, target, dir string) string {
	var sb strings.Builder
	fmt.Fprintf(&sb, "SecRuleEngine %s\n", c.RuleEngine)
	fmt.Fprintf(&sb, "SecAuditEngine %s\n", c.AuditEngine)
	fmt.Fprintf(&sb, "SecAuditLogType %s\n", writerType)
	fmt.Fprintf(&sb, "SecAuditLog %s\n", target)
	if dir != "" {
		fmt.Fprintf(&sb, "SecAuditLogStorageDir %s\n", dir)
	}
	fmt.Fprintf(&sb, "SecAuditLogFormat %s\n", c.Format)
	if c.Relevant != "" {
		fmt.Fprintf(&sb, "SecAuditLogRelevantStatus \"%s\"\n", c.Relevant)
	}
	if c.Parts != "" {
		fmt.Fprintf(&sb, "SecAuditLogParts %s\n", c.Parts)
	}
	sb.WriteString("SecRequestBodyAccess On\nSecResponseBodyAccess On\nSecResponseBodyMimeType text/plain\n")
	if c.DefFlags != "" {
		for ph := 1; ph <= 5; ph++ {
			fmt.Fprintf(&sb, "SecDefaultAction \"phase:%d,%s,pass\"\n", ph, c.DefFlags)
		}
	}
	for i := range c.Rules {
		r := &c.Rules[i]
		acts := []string{fmt.Sprintf("id:%d", r.ID), fmt.Sprintf("phase:%d", r.Phase)}
		if r.Flags != "" {
			acts = append(acts, r.Flags)
		}
		if !r.NoMsg {
			if r.Plain || r.Never {
				acts = append(acts, fmt.Sprintf("msg:'R%d plain'", r.ID))
			} else if r.Target != "" {
				acts = append(acts, fmt.Sprintf("msg:'R%d %%{MATCHED_VAR}'", r.ID), "logdata:'%{MATCHED_VAR_NAME}=%{ARGS.h}'")
			} else {
				acts = append(acts, fmt.Sprintf("msg:'R%d %%{REQUEST_HEADERS.x-h}'", r.ID), "logdata:'d %{ARGS.h}'")
			}
		}
		for _, ctl := range r.Ctl {
			acts = append(acts, "ctl:"+ctl)
		}
		if r.Deny != 0 {
			acts = append(acts, "deny", fmt.Sprintf("status:%d", r.Deny))
		} else {
			acts = append(acts, "pass")
		}
		switch {
		case len(r.Ctl) > 0 || r.First:
			// ctl carriers fire only for requests that ask for it, so that a follow-up transaction on the same WAF runs without any ctl
			fmt.Fprintf(&sb, "SecRule REQUEST_HEADERS:X-Ctl \"@streq on\" \"%s\"\n", strings.Join(acts, ","))
		case r.Never:
			fmt.Fprintf(&sb, "SecRule ARGS:c19nomatch \"@streq never-%d\" \"%s\"\n", r.ID, strings.Join(acts, ","))
		case r.Target != "":
			fmt.Fprintf(&sb, "SecRule %s \"@unconditionalMatch\" \"%s\"\n", r.Target, strings.Join(acts, ","))
		default:
			fmt.Fprintf(&sb, "SecAction \"%s\"\n", strings.Join(acts, ","))
		}
	}
	return sb.String()
}

func c19SortedInts(m map[int]int) []int {
	var out []int
	for k, n := range m {
		for i := 0; i < n; i++ {
			out = append(out, k)
		}
	}
	sort.Ints(out)
	return out
}
