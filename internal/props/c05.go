package props

import (
	"encoding/json"
	"fmt"
	"github.com/corazawaf/coraza/v3/experimental"
	"io"
	"os"
	"path/filepath"
	"runtime"
	"runtime/debug"
	"sort"
	"strings"

	coraza "github.com/corazawaf/coraza/v3"
	"github.com/corazawaf/coraza/v3/experimental/verifapi"
	"github.com/corazawaf/coraza/v3/types"

	"verif/internal/fw"
	"verif/internal/gen"
	"verif/internal/obs"
	"verif/internal/sl"
)

// The C05 configuration: every rule is steerable from the request (ARGS_GET:<name>=1), so a predecessor can
// leave any combination of per-transaction state behind, and the probe can exercise the same features.
const c05Config = `
SecRuleEngine On
SecRequestBodyAccess On
SecResponseBodyAccess On
SecResponseBodyMimeType text/plain
SecRequestBodyLimit 400
SecRequestBodyInMemoryLimit 16
SecResponseBodyLimit 300
SecArgumentsLimit 40
SecAuditEngine On
SecAuditLogType verifmem
SecAuditLogParts ABCFHKZ
SecAction "id:10,phase:1,pass,nolog,verifdump:p1"
SecRule ARGS_GET:cap "@rx ^(a)(b)(c)" "id:11,phase:1,pass,nolog,capture,setvar:tx.capd=%{TX.2}"
SecRule ARGS_GET:setx "@streq 1" "id:12,phase:1,pass,nolog,setvar:tx.x=left,setvar:tx.cnt=+5,setenv:VERIFENV=left"
SecRule ARGS_GET:ce_do "@streq 1" "id:13,phase:1,pass,nolog,ctl:ruleEngine=DetectionOnly"
SecRule ARGS_GET:ce_on "@streq 1" "id:29,phase:1,pass,nolog,ctl:ruleEngine=On"
SecRule ARGS_GET:c_audoff "@streq 1" "id:14,phase:1,pass,nolog,ctl:auditEngine=Off"
SecRule ARGS_GET:c_parts "@streq 1" "id:15,phase:1,pass,nolog,ctl:auditLogParts=+E"
SecRule ARGS_GET:c_rba "@streq 1" "id:16,phase:1,pass,nolog,ctl:requestBodyAccess=Off"
SecRule ARGS_GET:c_rbl "@streq 1" "id:17,phase:1,pass,nolog,ctl:requestBodyLimit=5"
SecRule ARGS_GET:c_sba "@streq 1" "id:18,phase:1,pass,nolog,ctl:responseBodyAccess=Off"
SecRule ARGS_GET:c_sbl "@streq 1" "id:19,phase:1,pass,nolog,ctl:responseBodyLimit=3"
SecRule ARGS_GET:c_json "@streq 1" "id:20,phase:1,pass,nolog,ctl:requestBodyProcessor=JSON"
SecRule ARGS_GET:c_force "@streq 1" "id:21,phase:1,pass,nolog,ctl:forceRequestBodyVariable=On"
SecRule ARGS_GET:c_rm "@streq 1" "id:22,phase:1,pass,nolog,ctl:ruleRemoveById=101"
SecRule ARGS_GET:c_rmr "@streq 1" "id:23,phase:1,pass,nolog,ctl:ruleRemoveById=100-102"
SecRule ARGS_GET:c_rmt "@streq 1" "id:24,phase:1,pass,nolog,ctl:ruleRemoveTargetById=102;ARGS_GET:t"
SecRule ARGS_GET:c_rmtag "@streq 1" "id:25,phase:1,pass,nolog,ctl:ruleRemoveByTag=tg"
SecRule ARGS_GET:c_fresp "@streq 1" "id:26,phase:1,pass,nolog,ctl:forceResponseBodyVariable=On"
SecRule ARGS_GET:c_partsm "@streq 1" "id:27,phase:1,pass,nolog,ctl:auditLogParts=-K"
SecRule ARGS_GET:c_partsh "@streq 1" "id:28,phase:1,pass,nolog,ctl:auditLogParts=-B"
SecRule ARGS_GET:d1 "@streq 1" "id:30,phase:1,deny,status:401,log,auditlog"
SecRule ARGS_GET:sk1 "@streq 1" "id:31,phase:1,pass,nolog,skip:3"
SecRule ARGS_GET:ska1 "@streq 1" "id:32,phase:1,pass,nolog,skipAfter:NO_SUCH_MARKER"
SecRule ARGS_GET:al1 "@streq 1" "id:33,phase:1,allow,nolog"
SecRule ARGS_GET:alr1 "@streq 1" "id:34,phase:1,allow:request,nolog"
SecRule ARGS_GET:alp1 "@streq 1" "id:35,phase:1,allow:phase,nolog"
SecAction "id:39,phase:1,pass,nolog,setvar:tx.end1=1"
SecAction "id:50,phase:2,pass,nolog,verifdump:p2"
SecRule ARGS_GET:t "@streq 1" "id:100,phase:2,pass,log,auditlog,tag:tg,severity:3,setvar:tx.n100=+1"
SecRule ARGS_GET:t|ARGS_GET:u "@streq 1" "id:101,phase:2,pass,log,auditlog,setvar:tx.n101=+1"
SecRule ARGS_GET:t|ARGS_GET:u "@streq 1" "id:102,phase:2,pass,nolog,tag:tg,setvar:tx.n102=+1"
SecRule REQUEST_BODY "@contains attack" "id:103,phase:2,pass,log,setvar:tx.body_seen=1"
SecRule ARGS_POST:a "@streq 1" "id:104,phase:2,pass,nolog,setvar:tx.post_seen=1"
SecRule ARGS_GET:ce_off2 "@streq 1" "id:105,phase:2,pass,nolog,ctl:ruleEngine=Off"
SecRule ARGS_GET:d2 "@streq 1" "id:110,phase:2,deny,status:402,log,auditlog"
SecRule ARGS_GET:sk2 "@streq 1" "id:111,phase:2,pass,nolog,skip:1"
SecRule ARGS_GET:ska2 "@streq 1" "id:112,phase:2,pass,nolog,skipAfter:NO_SUCH_MARKER"
SecAction "id:119,phase:2,pass,nolog,setvar:tx.end2=1"
SecRule ARGS_GET:d3 "@streq 1" "id:120,phase:3,deny,status:403,log"
SecRule RESPONSE_HEADERS:X-R "@streq 1" "id:121,phase:3,pass,nolog,setvar:tx.rh=1"
SecRule ARGS_GET:al3 "@streq 1" "id:122,phase:3,allow,nolog"
SecRule ARGS_GET:c_rjson "@streq 1" "id:124,phase:3,pass,nolog,ctl:responseBodyProcessor=JSON"
SecAction "id:129,phase:3,pass,nolog,setvar:tx.end3=1"
SecRule RESPONSE_BODY "@contains leak" "id:130,phase:4,pass,log,setvar:tx.rb=1"
SecRule ARGS_GET:d4 "@streq 1" "id:131,phase:4,deny,status:404,log"
SecAction "id:139,phase:4,pass,nolog,setvar:tx.end4=1"
SecAction "id:150,phase:5,pass,nolog,verifdump:p5"
`

var c05Steers = []string{"cap", "setx", "ce_do", "ce_on", "c_audoff", "c_parts", "c_rba", "c_rbl", "c_sba", "c_sbl", "c_json", "c_force", "c_rm", "c_rmr", "c_rmt", "c_rmtag", "c_fresp", "c_partsm", "c_partsh",
	"d1", "sk1", "ska1", "al1", "alr1", "alp1", "t", "u", "ce_off2", "d2", "sk2", "ska2", "d3", "al3", "c_rjson", "d4"}

type c05Tx struct {
	Steer []string `json:"steer"`
	// Extra are further query arguments with names unique to this transaction.
	Extra      []string `json:"extra,omitempty"`
	Body       string   `json:"body"`
	BodyJSON   bool     `json:"body_json,omitempty"`
	RespBody   string   `json:"resp_body"`
	RespHeader bool     `json:"resp_header,omitempty"`
	// StopAfter: number of API steps to run before Close (0 = all); NoLogging omits ProcessLogging;
	// CloseTwice calls Close twice.
	StopAfter  int  `json:"stop_after,omitempty"`
	NoLogging  bool `json:"no_logging,omitempty"`
	CloseTwice bool `json:"close_twice,omitempty"`
	KeepReader bool `json:"keep_reader,omitempty"`
	// RmSpill removes the request-body spill file right before Close, so that releasing it fails for real.
	RmSpill bool `json:"rm_spill,omitempty"`
}

type c05Case struct {
	// WafEngine: the WAF-level SecRuleEngine ("" = On). On a DetectionOnly WAF a predecessor can switch itself
	// to On by ctl and leave enforcing state (allow, interruption) behind.
	WafEngine string `json:"waf_engine,omitempty"`
	// AuditRelevantOnly: SecAuditEngine RelevantOnly without a status pattern (a record is written iff a fired
	// rule of THIS transaction asked for auditing)
	AuditRelevantOnly bool    `json:"audit_relevant_only,omitempty"`
	// ManyArgs: SecArgumentsLimit 2000 and predecessors carrying up to 150 distinct argument names (collections
	// whose backing storage grew in an earlier transaction); CaseNames: the probe carries names that differ only
	// in case, among them upper-case spellings of the steering names (what they select depends on whether the
	// build treats argument names case sensitively: batches of the csargs flavour are built with
	// coraza.rule.case_sensitive_args_keys)
	ManyArgs  bool `json:"many_args,omitempty"`
	CaseNames bool `json:"case_names,omitempty"`
	Pred              []c05Tx `json:"predecessors"`
	Probe             c05Tx   `json:"probe"`
}

type c05Outcome struct {
	Fired    []string            `json:"fired"`
	Intr     *sl.Intr            `json:"intr,omitempty"`
	Calls    []string            `json:"calls"`
	Dumps    map[string][]string `json:"dumps"`
	ReqBody  string              `json:"req_body"`
	RespBody string              `json:"resp_body"`
	Audit    []string            `json:"audit"`
	Panic    string              `json:"panic,omitempty"`
}

func c05Steer(r gen.R, focus string) []string {
	var out []string
	if focus != "" {
		out = append(out, focus)
	}
	for _, s := range c05Steers {
		if s != focus && gen.Chance(r, 0.12) {
			out = append(out, s)
		}
	}
	return out
}

func c05GenTx(r gen.R, focus string, probe bool) c05Tx {
	t := c05Tx{Steer: c05Steer(r, focus)}
	if cap := gen.Chance(r, 0.3); cap {
		t.Steer = append(t.Steer, "cap")
	}
	t.Body = gen.Pick(r, []string{"", "a=1", "a=1&b=attack", "a=1&pad=" + strings.Repeat("x", 40) + "&b=attack", strings.Repeat("y", 500)})
	if gen.Chance(r, 0.2) {
		t.BodyJSON, t.Body = true, gen.Pick(r, []string{`{"a":1,"b":"attack"}`, `{"a":`, `{"k":{"n":[1,2,"attack"]}}`})
	}
	t.RespBody = gen.Pick(r, []string{"", "ok", "a leak here", strings.Repeat("z", 350), `{"a":`, `{"leak":[1,2]}`})
	t.RespHeader = gen.Chance(r, 0.5)
	if !probe {
		ne := r.IntN(22)
		for i := 0; i < ne; i++ {
			t.Extra = append(t.Extra, fmt.Sprintf("n%d_%d", c05Counter(), i))
		}
	}
	if !probe {
		switch r.IntN(8) {
		case 0:
			t.StopAfter = 1 + r.IntN(7)
		case 1:
			t.NoLogging = true
		case 2:
			t.CloseTwice = true
		case 3:
			t.KeepReader = true
		case 4:
			// a body that spills to disk, a buffered response body, and a spill file that cannot be released
			t.RmSpill = true
			t.Body = "a=1&pad=" + strings.Repeat("x", 40) + "&b=attack"
			t.BodyJSON = false
			t.RespBody = "predecessor response " + strings.Repeat("p", 30)
			// a Close that fails, followed by a second Close
			t.CloseTwice = gen.Chance(r, 0.4)
		}
	}
	return t
}

// c05Run drives one transaction; returns its outcome, the transaction value (for identity checks) and a
// body reader obtained before Close when requested.
func c05Run(waf coraza.WAF, t *c05Tx, closeIt bool) (*c05Outcome, types.Transaction, io.Reader) {
	id := fmt.Sprintf("c05-%p-%d", t, c05Counter())
	rec := obs.Attach(id)
	defer obs.Detach(id)
	obs.TakeAudit()
	var tx types.Transaction
	if wo, ok := waf.(experimental.WAFWithOptions); ok && (len(t.Steer)+len(t.Extra))%2 == 1 {
		// the experimental entry point, used the way its documentation shows it (an ID, no Context)
		tx = wo.NewTransactionWithOptions(experimental.Options{ID: id})
	} else {
		tx = waf.NewTransactionWithID(id)
	}
	out := &c05Outcome{Dumps: map[string][]string{}}
	var keep io.Reader
	step := 0
	stop := func() bool { step++; return t.StopAfter > 0 && step > t.StopAfter }
	call := func(name string, it *types.Interruption, err error) {
		s := name
		if it != nil {
			s += fmt.Sprintf(":intr(%d,%s,%d)", it.RuleID, it.Action, it.Status)
		}
		if err != nil {
			s += ":err"
		}
		out.Calls = append(out.Calls, s)
	}
	pi := fw.Guard(func() {
		tx.ProcessConnection("10.1.1.1", 4000, "10.2.2.2", 80)
		q := ""
		for i, s := range t.Steer {
			if i > 0 {
				q += "&"
			}
			v := "1"
			if s == "cap" {
				v = "abc"
			}
			q += s + "=" + v
		}
		for _, e := range t.Extra {
			if strings.Contains(e, "=") {
				q += "&" + e
			} else {
				q += "&" + e + "=z"
			}
		}
		tx.ProcessURI("/probe?"+q, "POST", "HTTP/1.1")
		tx.AddRequestHeader("Host", "h.example")
		if t.BodyJSON {
			tx.AddRequestHeader("Content-Type", "application/json")
		} else {
			tx.AddRequestHeader("Content-Type", "application/x-www-form-urlencoded")
		}
		if stop() {
			return
		}
		call("h", tx.ProcessRequestHeaders(), nil)
		if stop() {
			return
		}
		if t.Body != "" {
			it, _, err := tx.WriteRequestBody([]byte(t.Body))
			call("w", it, err)
		}
		if stop() {
			return
		}
		it, err := tx.ProcessRequestBody()
		call("b", it, err)
		if rd, err := tx.RequestBodyReader(); err == nil {
			if t.KeepReader {
				// a connector typically has consumed part of the body through this reader before the transaction ends
				if len(t.Body)%2 == 1 {
					one := make([]byte, 1+len(t.Body)/3)
					rd.Read(one)
				}
				keep = rd
			} else {
				b, _ := io.ReadAll(rd)
				out.ReqBody = string(b)
			}
		}
		if stop() {
			return
		}
		// every third transaction answers with a type that is not in SecResponseBodyMimeType: its body is inspected
		// only if THIS transaction forced it (ctl:forceResponseBodyVariable)
		if (len(t.RespBody)+len(t.Steer))%3 == 2 {
			tx.AddResponseHeader("Content-Type", "application/octet-stream")
		} else {
			tx.AddResponseHeader("Content-Type", "text/plain")
		}
		if t.RespHeader {
			tx.AddResponseHeader("X-R", "1")
		}
		call("H", tx.ProcessResponseHeaders(200, "HTTP/1.1"), nil)
		if stop() {
			return
		}
		if t.RespBody != "" {
			it, _, err := tx.WriteResponseBody([]byte(t.RespBody))
			call("r", it, err)
		}
		if stop() {
			return
		}
		it, err = tx.ProcessResponseBody()
		call("B", it, err)
		if rd, err := tx.ResponseBodyReader(); err == nil {
			b, _ := io.ReadAll(rd)
			out.RespBody = string(b)
		}
		if stop() {
			return
		}
		if !t.NoLogging {
			tx.ProcessLogging()
			out.Calls = append(out.Calls, "L")
		}
	})
	if pi != nil {
		out.Panic = pi.Value + " @ " + pi.Frame
	}
	for _, mr := range tx.MatchedRules() {
		var ms []string
		for _, md := range mr.MatchedDatas() {
			ms = append(ms, md.Variable().Name()+":"+md.Key()+"="+md.Value())
		}
		sort.Strings(ms)
		out.Fired = append(out.Fired, fmt.Sprintf("%d[%s]", mr.Rule().ID(), strings.Join(ms, ",")))
	}
	if it := tx.Interruption(); it != nil {
		out.Intr = &sl.Intr{RuleID: it.RuleID, Action: it.Action, Status: it.Status, Data: it.Data}
	}
	for tag, d := range rec.Dumps {
		var lines []string
		for col, ents := range d {
			if col == "REQUEST_HEADERS" || col == "ARGS_GET" || col == "ARGS" || col == "ARGS_NAMES" || col == "ARGS_GET_NAMES" || col == "QUERY_STRING" ||
				col == "REQUEST_URI" || col == "REQUEST_URI_RAW" || col == "REQUEST_LINE" || col == "MATCHED_VARS" || col == "MATCHED_VARS_NAMES" || col == "MATCHED_VAR" || col == "MATCHED_VAR_NAME" {
				// fully determined by the probe request itself; kept (they must be equal too)
			}
			for _, e := range ents {
				lines = append(lines, col+"|"+e)
			}
		}
		sort.Strings(lines)
		out.Dumps[tag] = lines
	}
	for _, a := range obs.TakeAudit() {
		ids := append([]int{}, a.RuleIDs...)
		sort.Ints(ids)
		out.Audit = append(out.Audit, fmt.Sprintf("parts=%s interrupted=%v rules=%v status=%d", a.Parts, a.Interrupted, ids, a.Status))
	}
	if closeIt {
		if t.RmSpill {
			if ents, err := os.ReadDir(os.TempDir()); err == nil {
				for _, e := range ents {
					if strings.HasPrefix(e.Name(), "body") {
						os.Remove(filepath.Join(os.TempDir(), e.Name()))
					}
				}
			}
		}
		fw.Guard(func() {
			tx.Close()
			if t.CloseTwice {
				tx.Close()
			}
		})
	}
	return out, tx, keep
}

var c05N int

func c05Counter() int { c05N++; return c05N }

func c05Diff(a, b *c05Outcome) string {
	ja, _ := json.Marshal(a)
	jb, _ := json.Marshal(b)
	if string(ja) == string(jb) {
		return ""
	}
	switch {
	case a.Panic != b.Panic:
		return "panic"
	case strings.Join(a.Calls, " ") != strings.Join(b.Calls, " "):
		return fmt.Sprintf("calls: fresh %v, after predecessor %v", a.Calls, b.Calls)
	case strings.Join(a.Fired, " ") != strings.Join(b.Fired, " "):
		return fmt.Sprintf("fired: fresh %v, after predecessor %v", a.Fired, b.Fired)
	case a.ReqBody != b.ReqBody:
		return "request body reader"
	case a.RespBody != b.RespBody:
		return "response body reader"
	case strings.Join(a.Audit, "|") != strings.Join(b.Audit, "|"):
		return fmt.Sprintf("audit: fresh %v, after predecessor %v", a.Audit, b.Audit)
	}
	for tag, la := range a.Dumps {
		lb := b.Dumps[tag]
		sa, sb := map[string]bool{}, map[string]bool{}
		for _, l := range la {
			sa[l] = true
		}
		for _, l := range lb {
			sb[l] = true
		}
		var onlyA, onlyB []string
		for l := range sa {
			if !sb[l] {
				onlyA = append(onlyA, l)
			}
		}
		for l := range sb {
			if !sa[l] {
				onlyB = append(onlyB, l)
			}
		}
		if len(onlyA)+len(onlyB) > 0 {
			sort.Strings(onlyA)
			sort.Strings(onlyB)
			return fmt.Sprintf("dump %s: only fresh %q, only after predecessor %q", tag, onlyA, onlyB)
		}
	}
	if len(a.Dumps) != len(b.Dumps) {
		return "dump tags differ"
	}
	return "other"
}

func c05DiffKind(d string) string {
	if i := strings.Index(d, ":"); i > 0 {
		d = d[:i]
	}
	if strings.HasPrefix(d, "dump ") {
		return "dump"
	}
	return strings.ReplaceAll(d, " ", "-")
}

func c05Judge(w *fw.W, c *c05Case) {
	runtime.LockOSThread()
	defer runtime.UnlockOSThread()
	old := debug.SetGCPercent(-1)
	defer debug.SetGCPercent(old)
	w.Trace(c)
	conf := c05Config
	if c.WafEngine != "" {
		conf = strings.Replace(conf, "SecRuleEngine On", "SecRuleEngine "+c.WafEngine, 1)
		w.Count("cases_on_waf_"+c.WafEngine, 1)
	}
	if c.AuditRelevantOnly {
		conf = strings.Replace(conf, "SecAuditEngine On", "SecAuditEngine RelevantOnly", 1)
		w.Count("cases_with_audit_relevant_only", 1)
	}
	if c.ManyArgs {
		conf = strings.Replace(conf, "SecArgumentsLimit 40", "SecArgumentsLimit 2000", 1)
		w.Count("cases_with_many_argument_names", 1)
	}
	if c.CaseNames {
		w.Count("cases_with_case_variant_names", 1)
	}
	used, err := sl.BuildText(conf)
	if err != nil {
		w.Count("build_errors", 1)
		w.Cover("build_error_samples", err.Error())
		return
	}
	defer sl.CloseWAF(used)
	fresh, _ := sl.BuildText(conf)
	defer sl.CloseWAF(fresh)
	var lastTx types.Transaction
	var readers []io.Reader
	focus := "none"
	for i := range c.Pred {
		_, tx, rd := c05Run(used, &c.Pred[i], true)
		lastTx = tx
		if rd != nil {
			readers = append(readers, rd)
		}
		if len(c.Pred[i].Steer) > 0 {
			focus = c.Pred[i].Steer[0]
		}
		switch {
		case c.Pred[i].CloseTwice && c.Pred[i].RmSpill:
			focus += "+failed-close-then-close"
		case c.Pred[i].CloseTwice:
			focus += "+close-twice"
		case c.Pred[i].NoLogging:
			focus += "+no-logging"
		case c.Pred[i].StopAfter > 0:
			focus += "+abandoned"
		case c.Pred[i].RmSpill:
			focus += "+spill-file-gone"
		}
	}
	// readers of closed transactions must not yield data: checked after the probe below as well, when the
	// recycled object holds the probe's body
	checkReaders := func(when string) bool {
		for _, rd := range readers {
			w.Count("stale_reader_checks", 1)
			var b []byte
			pi := fw.Guard(func() { b, _ = io.ReadAll(rd) })
			if pi != nil {
				w.Violation("closed-transaction-reader-panics:"+when, "stale reader", c, nil, pi, pi.Value)
				return false
			}
			if len(b) > 0 {
				w.Violation("closed-transaction-reader-yields-data:"+when, "stale reader", c, "", string(b), fmt.Sprintf("%d bytes read from a reader of a closed transaction (%s)", len(b), when))
				return false
			}
		}
		return true
	}
	// two transactions alive at the same time must be distinct objects
	closedTwice := false
	for _, p := range c.Pred {
		closedTwice = closedTwice || p.CloseTwice
	}
	if closedTwice {
		w.Count("double_close_checks", 1)
		t1 := used.NewTransaction()
		t2 := used.NewTransaction()
		same := t1 == t2
		if !same {
			t1.Close()
			t2.Close()
		} else {
			t1.Close()
		}
		if same {
			w.Violation("two-live-transactions-share-one-object", "object identity", c, nil, nil, "after a predecessor was closed twice, two consecutive NewTransaction calls returned the same object")
			return
		}
	}
	want, _, _ := c05Run(fresh, &c.Probe, true)
	// the probe is left open while the stale readers are read: the recycled object then holds the probe's body
	got, ptx, _ := c05Run(used, &c.Probe, false)
	okReaders := checkReaders("while-successor-open")
	fw.Guard(func() { ptx.Close() })
	if !okReaders || !checkReaders("after-successor-closed") {
		return
	}
	w.Eval(1)
	w.Count("pairs", 1)
	reused := lastTx != nil && ptx == lastTx
	if reused {
		w.Count("reuse_confirmed", 1)
		w.Nontrivial(fw.Hash(c))
	}
	w.Cover("predecessor_kinds", focus)
	if d := c05Diff(want, got); d != "" {
		w.Violation("probe-differs-after-predecessor:"+c05DiffKind(d)+":"+focus, "differential fresh WAF vs WAF with history", c, want, got, d)
	}
	_ = verifapi.PoolGet
}

func init() {
	fw.Register(&fw.Prop{
		ID: "C05", Level: "exploration",
		Rule:        "on one WAF whose rules are all steerable from the request (captures, setvar/setenv, ctl changes of ruleEngine/auditEngine/auditLogParts/body access/limits/processor/force*, ruleRemoveById/range/ByTag/TargetById, pending skip, skipAfter to a missing marker, the three allow scopes, deny in phases 1-4, disk-spilled and over-limit bodies, JSON bodies incl. malformed), 1-3 predecessor transactions (each focused on one feature plus random others; some abandoned after k calls, without ProcessLogging, closed twice, or keeping a body reader) are followed by a probe transaction that dumps every collection in phases 1, 2 and 5; the probe's full outcome (per-call results, fired rules with match data, interruption, dumps, body reader contents, audit record) is compared with the same probe on a brand-new WAF. One case in six raises SecArgumentsLimit and gives the predecessors 40-150 distinct argument names (collections whose storage grew), one in four gives the probe names that differ only in case (upper-case spellings of steering names included); a fifth of the batches run in a build with the documented tag coraza.rule.case_sensitive_args_keys (flavour csargs), where those names select differently. The pair runs on a locked OS thread with GC off so that the pool hands the predecessor's object to the probe. Non-trivial: object identity confirmed that the probe received the predecessor's recycled transaction; distinct by case hash.",
		Assumptions: []string{"transaction id, timestamps, TIME*, DURATION, UNIQUE_ID and upload temp names are masked", "the audit record is observed through a writer registered with the public plugin API"},
		Required:    []string{"reuse_confirmed", "double_close_checks", "stale_reader_checks"},
		Plan: func(tier fw.Tier, seed int64) []fw.Batch {
			n := 16
			if tier == fw.Thorough {
				n = 64
			}
			var bs []fw.Batch
			for i := 0; i < n; i++ {
				bs = append(bs, fw.Batch{Index: i, Flavour: "plain", TimeoutS: 1500})
			}
			// the same population in a build that treats argument names case sensitively (documented build tag)
			for i := 0; i < n/4; i++ {
				bs = append(bs, fw.Batch{Index: n + i, Flavour: "csargs", TimeoutS: 1500})
			}
			return bs
		},
		Run: func(w *fw.W, b fw.Batch) {
			n := 1500
			if w.Tier == fw.Thorough {
				n = 20000
			}
			for i := 0; i < n; i++ {
				c := &c05Case{}
				np := 1
				if gen.Chance(w.Rng, 0.3) {
					np = 2 + w.Rng.IntN(2)
				}
				for k := 0; k < np; k++ {
					c.Pred = append(c.Pred, c05GenTx(w.Rng, c05Steers[(i+k*7)%len(c05Steers)], false))
				}
				c.Probe = c05GenTx(w.Rng, "", true)
				c.AuditRelevantOnly = i%3 == 1
				if i%6 == 2 {
					c.ManyArgs = true
					for k := range c.Pred {
						ne := 40 + w.Rng.IntN(110)
						for j := 0; j < ne; j++ {
							c.Pred[k].Extra = append(c.Pred[k].Extra, fmt.Sprintf("m%d_%d", c05Counter(), j))
						}
					}
				}
				if i%4 == 3 || (c.ManyArgs && i%12 == 2) {
					c.CaseNames = true
					for _, nm := range []string{"T=1", "U=1", "t=0", "Kx=1", "kx=2", "KX=3", "D2=1", "Cap=abc", "SETX=1"} {
						if gen.Chance(w.Rng, 0.45) {
							c.Probe.Extra = append(c.Probe.Extra, nm)
						}
					}
					if gen.Chance(w.Rng, 0.5) && !c.Probe.BodyJSON {
						c.Probe.Body = gen.Pick(w.Rng, []string{"A=1&a=2", "a=0&A=1&b=attack", "B=attack&a=1"})
					}
					if gen.Chance(w.Rng, 0.3) {
						for k := range c.Pred {
							c.Pred[k].Extra = append(c.Pred[k].Extra, "KX=9", "kx=8", "T=0")
						}
					}
				}
				if i%5 == 4 {
					// a DetectionOnly WAF whose predecessors mostly switch themselves to On
					c.WafEngine = "DetectionOnly"
					for k := range c.Pred {
						if gen.Chance(w.Rng, 0.7) {
							c.Pred[k].Steer = append([]string{"ce_on"}, c.Pred[k].Steer...)
						}
					}
					if gen.Chance(w.Rng, 0.3) {
						c.Probe.Steer = append([]string{"ce_on"}, c.Probe.Steer...)
					}
				}
				c05Judge(w, c)
				if w.WantSample() {
					w.Sample(c)
				}
			}
		},
		Replay: func(w *fw.W, raw json.RawMessage) {
			var c c05Case
			if json.Unmarshal(raw, &c) != nil {
				return
			}
			c05Judge(w, &c)
		},
	})
}
