package props

import (
	"fmt"
	"math/rand/v2"
	"strings"
)

// c07Sweep enumerates the systematic part of the population: for every registered name a handful
// of small configurations, one per documented spelling / argument shape. The list is a function of
// the vocabulary only (the PRNG fills incidental choices), so every run covers every name.
func c07Sweep(voc *c07Vocab, r *rand.Rand) []*c07Cfg {
	var out []*c07Cfg
	mk := func(origin string, prelude bool) *c07Cfg {
		c := c07NewCfg(r, voc, origin)
		if prelude {
			c.prelude()
		}
		out = append(out, c)
		return c
	}

	// ---- directives -------------------------------------------------------------------------
	for _, name := range voc[c07Dir] {
		if c07DirSpecial[name] {
			continue
		}
		sh, ok := c07DirShapes[name]
		if !ok {
			for _, a := range c07GenericArgs {
				c := mk("directive-generic:"+name, true)
				c.noShp["directives/"+name] = true
				c.dir(name, a)
				c.ruleSet()
			}
			continue
		}
		for i, a := range append(append([]string{}, sh.valid...), sh.odd...) {
			tag := "directive:"
			if i >= len(sh.valid) {
				tag = "directive-odd:"
			}
			c := mk(tag+name, true)
			switch name {
			case "secauditlog", "secauditlogtype", "secauditlogformat", "secauditlogparts", "secauditlogstoragedir", "secauditlogdirmode", "secauditlogfilemode", "secauditlogrelevantstatus", "secauditengine":
				c07AuditContext(c, name, a)
			case "secuploadkeepfiles", "secuploadfilemode", "secuploadfilelimit":
				c.dir("SecUploadDir", c07Scratch)
				c.dir(name, a)
			default:
				c.dir(name, a)
			}
			c.ruleSet()
		}
	}
	// audit logging: every format x part selection x writer (messages with and without rule data)
	for _, format := range []string{"Native", "JSON", "JsonLegacy", "OCSF"} {
		for _, parts := range []string{"ABCFHZ", "ABCDEFGHIJKZ", "AKZ", "ABJZ", "AHZ"} {
			for _, typ := range []string{"Serial", "Concurrent", "verifmem"} {
				c := mk("audit:"+format+":"+parts+":"+typ, true)
				c.dir("SecAuditEngine", c.pick([]string{"On", "On", "RelevantOnly"}))
				c.dir("SecAuditLogFormat", format)
				c.dir("SecAuditLogParts", parts)
				c.dir("SecAuditLog", c07Scratch+"/audit.log")
				c.dir("SecAuditLogStorageDir", c07Scratch+"/audit")
				c.dir("SecAuditLogType", typ)
				c.dir("SecUploadDir", c07Scratch)
				c.dir("SecUploadKeepFiles", c.pick([]string{"On", "Off", "RelevantOnly"}))
				c.ruleSet()
				c.useAct("noauditlog", "auditlog", "nolog", "log", "ctl")
				c.action(fmt.Sprintf("id:%d,phase:1,pass,nolog,auditlog,msg:'audit only'", c.id()))
				c.action(fmt.Sprintf("id:%d,phase:2,pass,log,noauditlog,msg:'error log only'", c.id()))
				c.action(fmt.Sprintf("id:%d,phase:2,pass,nolog,ctl:auditLogParts=%s", c.id(), c.pick([]string{"+K", "-K", "+E", "-H", "+J"})))
			}
		}
	}
	// markers
	for _, a := range []string{"M1", "999", "\"quoted marker\"", "END END", ""} {
		c := mk("directive:secmarker", true)
		c.dir("SecMarker", a)
		c.ruleSet()
		c.dir("SecMarker", a)
	}
	// rule / action syntax corner cases
	for _, l := range []string{
		`SecAction`, `SecAction ""`, `SecAction "id:1"`, `SecAction id:1,phase:1,pass`, `SecAction "id:1,phase:1,pass" extra`, `SecAction "id:1,,phase:1"`, `SecAction ","`, `SecAction ":"`, `SecAction "id"`, `SecAction "id:"`, `SecAction "id:1,phase:1,pass,msg:'unclosed"`, `SecAction "id:1,phase:1,pass,msg:'a\'b'"`,
		`SecRule`, `SecRule ARGS`, `SecRule ARGS "@rx a"`, `SecRule ARGS "@rx a" "id:1`, `SecRule ARGS @rx a "id:1"`, `SecRule ARGS "@rx a" id:1`, `SecRule ARGS "" "id:1"`, `SecRule ARGS "!" "id:1"`, `SecRule ARGS "!@" "id:1"`, `SecRule ARGS "@" "id:1"`, `SecRule ARGS "!a" "id:1"`, `SecRule ARGS "@ rx" "id:1"`, `SecRule ARGS "@nope a" "id:1"`,
		`SecRule ARGS "@rx a\"b" "id:1,phase:2,pass"`, `SecRule ARGS "@rx a\\" "id:1,phase:2,pass"`, `SecRule ARGS "@rx \"" "id:1"`, `SecRule  ARGS   "@rx a"   "id:1,phase:2,pass"`, `SecRule "ARGS" "@rx a" "id:1"`, `SecRule | "@rx a" "id:1"`, `SecRule ARGS| "@rx a" "id:1"`, `SecRule |ARGS "@rx a" "id:1"`, `SecRule & "@rx a" "id:1"`, `SecRule ! "@rx a" "id:1"`, `SecRule : "@rx a" "id:1"`, `SecRule ARGS:'/a/ "@rx a" "id:1"`, `SecRule ARGS:' "@rx a" "id:1"`, `SecRule ARGS:'' "@rx a" "id:1"`, `SecRule ARGS:/ "@rx a" "id:1"`, `SecRule ARGS:// "@rx a" "id:1"`, `SecRule ARGS:/a\/ "@rx a" "id:1"`, `SecRule ARGS:/a|b/|ARGS:c "@rx a" "id:1,phase:2,pass"`,
		"SecRule ARGS \"@rx a\" \\\n  \"id:1,\\\n  phase:2,\\\n  pass\"", "SecRule ARGS \"@rx a\" \\", "SecRule ARGS \\\n\\\n\"@rx a\" \"id:1,phase:2,pass\"",
		`SecRule ARGS "@rx a" "id:1,phase:2,pass,chain"`, `SecRule ARGS "@rx a" "chain"`, `SecRule ARGS "@rx a" "id:1,phase:2,pass,chain"` + "\n" + `SecRule ARGS "@rx b" "deny"`, `SecRule ARGS "@rx a" "id:1,phase:2,pass,chain"` + "\n" + `SecAction "id:2,phase:2,pass"`, `SecRule ARGS "@rx a" "id:1,phase:2,pass,chain"` + "\n" + `SecMarker X` + "\n" + `SecRule ARGS "@rx b" "t:none"`,
		`SecRule ARGS "@rx a" "id:1,phase:2,pass"` + "\n" + `SecRule ARGS "@rx a" "id:1,phase:2,pass"`, `SecRule ARGS "@rx a" "id:0,phase:2,pass"`, `SecRule ARGS "@rx a" "id:-1,phase:2,pass"`, `SecRule ARGS "@rx a" "id:99999999999999999999,phase:2,pass"`, `SecRule ARGS "@rx a" "phase:2,pass"`,
		"# comment only", "", "\n\n", "   ", "`", "SecDataset x `", "SecAction \"id:1,phase:1,pass\" `", "x", "SecNope On", "Sec", "\x00", "SecRuleEngine\tOn", "SecRuleEngine On\r\nSecAction \"id:1,phase:1,pass\"\r\n",
	} {
		c := mk("syntax", false)
		c.used[c07Dir]["secrule"] = false
		c.lines = append(c.lines, l)
	}
	// default actions
	for i := 0; i < 24; i++ {
		c := mk("directive:secdefaultaction", true)
		c.defaultAction(i >= 12)
		if i%3 == 0 {
			c.defaultAction(false)
		}
		c.ruleSet()
		c.randRule(0)
	}
	// datasets
	for _, a := range []string{"dsx `\na\nb\n`", "dsx `\n`", "dsx `a`", "dsx", "dsx x", "", "dsx `\n# c\n\n  a  \n`", "dsx `\na\n`\nSecDataset dsx `\nb\n`"} {
		c := mk("directive:secdataset", true)
		c.lines = append(c.lines, "SecDataset "+a)
		c.used[c07Dir]["secdataset"] = true
		c.used[c07Op]["pmFromDataset"] = true
		c.useVar("ARGS")
		c.useAct("id", "phase", "pass")
		c.rule("ARGS", "@pmFromDataset dsx", c.base(2, "pass"))
	}
	// includes through the fs.FS root
	for _, a := range []string{"dir/inc.conf", "dir/*.conf", "loop.conf", "missing.conf", "/dir/inc.conf", "*.nomatch", "dir/[", "", "dir/inc.conf dir/inc.conf", "\"dir/inc.conf\""} {
		c := mk("include", true)
		c.stdFiles()
		c.lines = append(c.lines, "Include "+a)
		c.ruleSet()
	}
	// rule management over rule sets with rules without msg, markers and chains
	for kind := 0; kind < 7; kind++ {
		for rep := 0; rep < 10; rep++ {
			c := mk(fmt.Sprintf("manage:%d", kind), true)
			odd := rep >= 6
			switch rep % 3 {
			case 0:
				ids := c.ruleSet()
				c.manage(kind, ids, odd)
			case 1:
				c.manage(kind, []int{1, 2, 3}, odd)
				c.ruleSet()
			default:
				ids := c.ruleSet()
				c.manage(kind, ids, odd)
				c.manage(kind+3, ids, false)
				c.randRule(0)
				c.manage(kind, ids, false)
			}
		}
	}

	// ---- variables ---------------------------------------------------------------------------
	for _, v := range voc[c07Var] {
		lv := strings.ToLower(v)
		// every spelling as a rule target, one configuration each (a non-selectable variable rejects keys)
		type sp struct {
			kind        int
			count, excl bool
		}
		for _, s := range []sp{{0, false, false}, {0, true, false}, {1, false, false}, {2, false, false}, {1, true, false}, {2, true, false}, {3, false, false}, {1, false, true}, {2, false, true}, {5, false, false}, {4, false, false}} {
			c := mk("variable-target:"+v, true)
			c.useVar(v)
			c.used[c07Op]["rx"] = true
			c.used[c07Op]["ge"] = true
			c.useAct("log", "msg", "logdata", "pass", "id", "phase")
			for ph := 1; ph <= 5; ph++ {
				t := c07Target(r, v, s.kind, s.count, false)
				if s.excl {
					t = v + "|" + c07Target(r, v, s.kind, false, true)
				}
				op := "@rx ."
				if s.count {
					op = "@ge 0"
				}
				c.rule(t, op, fmt.Sprintf("id:%d,phase:%d,pass,log,msg:'t %%{MATCHED_VAR_NAME}',logdata:'%%{MATCHED_VAR}'", c.id(), ph))
			}
		}
		// macros naming the variable in msg, logdata, setvar key and value, setenv, operator arguments, redirect
		for _, m := range []string{"%{" + v + "}", "%{" + v + ".a}", "%{" + lv + ".id}", "%{" + v + ".}", "%{" + v + ".a.b}", "%{" + v + "[a]}", "x%{" + v + "}%{" + v + ".host}y"} {
			c := mk("variable-macro:"+v, true)
			c.useVar(v)
			c.useVar("ARGS")
			c.useAct("log", "msg", "logdata", "pass", "id", "phase", "setvar", "setenv")
			for _, o := range []string{"streq", "within", "eq", "unconditionalMatch", "contains"} {
				c.used[c07Op][o] = true
			}
			for ph := 1; ph <= 5; ph += 2 {
				c.action(fmt.Sprintf("id:%d,phase:%d,pass,log,msg:'m %s',logdata:'d %s',setvar:'tx.v%d=%s',setvar:'tx.k_%s=1',setvar:'tx.n=+%s',setenv:'VERIF_M=%s'", c.id(), ph, m, m, ph, m, m, m, m))
				c.rule("ARGS|REQUEST_URI", "@streq "+m, fmt.Sprintf("id:%d,phase:%d,pass,log,msg:'op %s'", c.id(), ph, m))
				c.rule("ARGS|REQUEST_METHOD", "!@within "+m, fmt.Sprintf("id:%d,phase:%d,pass,nolog,setvar:'!tx.k_%s'", c.id(), ph, m))
				c.rule("&ARGS", "@eq "+m, fmt.Sprintf("id:%d,phase:%d,pass,log,logdata:'%s'", c.id(), ph, m))
			}
			c.rule("REQUEST_URI", "@contains "+m, fmt.Sprintf("id:%d,phase:1,redirect:'http://e.invalid/?%s',log", c.id(), m))
		}
		// ctl target removal and target updates naming the variable
		for _, k := range []string{"", ":a", ":/^a/", ":'/^a/'"} {
			c := mk("variable-ctl:"+v, true)
			ck := k
			if strings.Contains(ck, "'") {
				ck = ":/^a/"
			}
			c.useVar(v)
			c.useAct("ctl", "id", "phase", "pass", "nolog")
			c.used[c07Op]["rx"] = true
			id := c.id()
			c.action(fmt.Sprintf("id:%d,phase:1,pass,nolog,ctl:'ruleRemoveTargetById=%d;%s%s',ctl:'ruleRemoveTargetByTag=tagA;%s%s'", c.id(), id, v, ck, v, ck))
			c.rule(v+"|ARGS", "@rx .", fmt.Sprintf("id:%d,phase:2,pass,log,tag:tagA", id))
			c.dir("SecRuleUpdateTargetById", fmt.Sprintf("%d \"!%s%s\"", id, v, k))
			if k != "" {
				c.dir("SecRuleUpdateTargetById", fmt.Sprintf("%d \"%s%s|&%s\"", id, v, k, v))
			}
		}
	}

	// ---- operators ---------------------------------------------------------------------------
	for _, name := range voc[c07Op] {
		sh, ok := c07OpShapes[name]
		args := sh.args
		if !ok {
			args = c07GenericOpArgs
		}
		all := append(append([]string{}, args...), sh.odd...)
		for i, a := range all {
			tag := "operator:"
			if i >= len(args) {
				tag = "operator-odd:"
			}
			c := mk(tag+name, true)
			if !ok {
				c.noShp["operators/"+name] = true
			}
			if sh.files {
				c.stdFiles()
			}
			c.used[c07Op][name] = true
			c.useAct("id", "phase", "pass", "log", "capture", "deny", "status", "chain", "msg", "logdata", "t", "multimatch")
			c.used[c07Tr]["lowercase"] = true
			c.used[c07Tr]["urldecode"] = true
			targets := []string{"ARGS|ARGS_NAMES|REQUEST_HEADERS|REQUEST_URI|REQUEST_BODY|REQUEST_COOKIES|REMOTE_ADDR", "RESPONSE_BODY|RESPONSE_HEADERS|FILES|FILES_NAMES|XML:/*|REQUEST_LINE", "&ARGS"}
			targets = append(targets, sh.targets...)
			for _, t := range targets {
				for _, vv := range strings.Split(t, "|") {
					c.useVar(strings.SplitN(strings.TrimLeft(vv, "&!"), ":", 2)[0])
				}
			}
			if sh.dataset != "" {
				if a == sh.dataset {
					c.needDataset(a)
				} else if a == "dsempty" {
					c.lines = append(c.lines, "SecDataset dsempty `\n`")
				}
			}
			for j, t := range targets {
				s := c.nextID
				arg := strings.ReplaceAll(a, "#", fmt.Sprint(s))
				sep := " "
				if arg == "" {
					sep = ""
				}
				ph := 1 + (j+i)%5
				if strings.Contains(t, "RESPONSE") && ph < 3 {
					ph = 4
				}
				c.rule(t, "@"+name+sep+arg, fmt.Sprintf("id:%d,phase:%d,pass,log,capture,msg:'op %%{TX.0} %%{MATCHED_VAR}',logdata:'%%{TX.1}|%%{TX.9}'", c.id(), ph))
				s = c.nextID
				arg = strings.ReplaceAll(a, "#", fmt.Sprint(s))
				c.rule(t, "!@"+name+sep+arg, fmt.Sprintf("id:%d,phase:%d,pass,log,t:urlDecode,t:lowercase,multiMatch", c.id(), ph))
			}
			// as a chain link and with deny
			s := c.nextID
			arg := strings.ReplaceAll(a, "#", fmt.Sprint(s))
			sep := " "
			if arg == "" {
				sep = ""
			}
			c.rule("ARGS", "@rx .", fmt.Sprintf("id:%d,phase:2,deny,status:403,log,chain", c.id()))
			c.rule("MATCHED_VAR|ARGS_NAMES", "@"+name+sep+arg, "capture")
		}
		if ok && sh.macro {
			for _, m := range []string{"%{tx.a}", "%{ARGS.a}", "%{REQUEST_HEADERS.host}%{tx.nope}", "%{MATCHED_VAR}", "%{TX.0}", "a%{REMOTE_ADDR}b"} {
				c := mk("operator-macro:"+name, true)
				c.used[c07Op][name] = true
				c.useAct("id", "phase", "pass", "setvar", "nolog", "log")
				c.useVar("ARGS")
				c.useVar("REQUEST_HEADERS")
				c.action(fmt.Sprintf("id:%d,phase:1,pass,nolog,setvar:tx.a=%s", c.id(), c.pick([]string{"a", "1", "10", "", "-1"})))
				c.rule("ARGS|REQUEST_HEADERS|&ARGS", "@"+name+" "+m, c.base(2, "pass")+",log")
			}
		}
	}

	// ---- transformations ----------------------------------------------------------------------
	for _, t := range voc[c07Tr] {
		for variant := 0; variant < 3; variant++ {
			c := mk("transformation:"+t, true)
			c.used[c07Tr][t] = true
			c.useAct("id", "phase", "pass", "log", "t", "multimatch", "capture", "logdata")
			c.used[c07Op]["rx"] = true
			c.used[c07Op]["unconditionalMatch"] = true
			for _, vv := range []string{"ARGS", "ARGS_NAMES", "REQUEST_HEADERS", "REQUEST_URI", "REQUEST_BODY", "REQUEST_COOKIES", "RESPONSE_BODY", "FILES", "REQUEST_LINE", "QUERY_STRING"} {
				c.useVar(vv)
			}
			name := t
			if variant == 1 {
				name = c07MixCase(r, t)
			}
			tl := "t:none,t:" + name
			if variant == 2 {
				o := c.pick(voc[c07Tr])
				c.used[c07Tr][o] = true
				tl = "t:" + o + ",t:" + name + ",t:" + name + ",multiMatch"
			}
			c.rule("ARGS|ARGS_NAMES|REQUEST_HEADERS|REQUEST_URI|REQUEST_COOKIES|REQUEST_LINE|QUERY_STRING", "@unconditionalMatch", fmt.Sprintf("id:%d,phase:1,pass,log,%s,logdata:'%%{MATCHED_VAR}'", c.id(), tl))
			c.rule("REQUEST_BODY|ARGS|FILES", "@rx .", fmt.Sprintf("id:%d,phase:2,pass,log,capture,%s", c.id(), tl))
			c.rule("RESPONSE_BODY", "@rx .", fmt.Sprintf("id:%d,phase:4,pass,log,%s", c.id(), tl))
		}
	}

	// ---- actions ------------------------------------------------------------------------------
	for _, a := range voc[c07Act] {
		var vals []string
		nvalid := 0
		switch a {
		case "id", "phase", "chain":
			sh := c07ActShapes[a]
			vals = append(append([]string{}, sh.valid...), sh.odd...)
			nvalid = len(sh.valid)
			if a == "id" {
				vals, nvalid = []string{"77", "'78'", "", "0", "-1", "x", "99999999999999999999", "1 2"}, 2
			}
			if a == "chain" {
				vals, nvalid = []string{"", "x"}, 1
			}
		case "t":
			vals, nvalid = []string{"none", "lowercase", "", "nope", "lowercase,uppercase", "t:lowercase"}, 2
		case "ctl":
			continue // swept per option below
		case "setvar":
			vals = append(append([]string{}, c07Setvars...), c07SetvarsOdd...)
			nvalid = len(c07Setvars)
		default:
			sh, ok := c07ActShapes[a]
			if !ok {
				sh = c07Shape{valid: []string{"", "1", "a", "tx.a=1", "%{tx.a}"}}
			}
			vals = append(append([]string{}, sh.valid...), sh.odd...)
			nvalid = len(sh.valid)
		}
		for i, v := range vals {
			tag := "action:"
			if i >= nvalid {
				tag = "action-odd:"
			}
			for ctx := 0; ctx < c07NActionContexts; ctx++ {
				c := mk(tag+a, true)
				if _, ok := c07ActShapes[a]; !ok && a != "id" && a != "phase" && a != "chain" && a != "t" && a != "setvar" {
					c.noShp["actions/"+a] = true
				}
				c07ActionContexts(c, a, v, ctx)
			}
		}
	}
	// ctl: every option with valid and odd values
	for _, opt := range c07CtlNames {
		sh := c07Ctl[opt]
		for i, v := range append(append([]string{}, sh.valid...), sh.odd...) {
			tag := "ctl:"
			if i >= len(sh.valid) {
				tag = "ctl-odd:"
			}
			c := mk(tag+opt, true)
			c.useAct("ctl", "id", "phase", "pass", "nolog")
			c.useVar("ARGS")
			c.useVar("RESPONSE_HEADERS")
			c.used[c07Op]["rx"] = true
			val := c07Quote(opt + "=" + v)
			c.ruleSet()
			for ph := 1; ph <= 5; ph++ {
				c.action(fmt.Sprintf("id:%d,phase:%d,pass,nolog,ctl:%s", c.id(), ph, val))
			}
			c.rule("ARGS", "@rx .", fmt.Sprintf("id:%d,phase:2,pass,nolog,ctl:%s,ctl:%s", c.id(), val, val))
			c.ruleSet2()
		}
	}
	for _, v := range []string{"", "=", "nope=1", "ruleEngine", "=On", "ruleEngine=On=Off", "ruleengine=On", "ruleRemoveTargetById=1;ARGS;x", "ruleRemoveTargetById=1;ARGS:/a/;", "ruleRemoveTargetById=1;ARGS:a:b", "ruleEngine = On"} {
		c := mk("ctl-odd:syntax", true)
		c.useAct("ctl", "id", "phase", "pass")
		c.action(fmt.Sprintf("id:%d,phase:1,pass,ctl:%s", c.id(), c07Quote(v)))
	}
	return out
}

// ruleSet2 adds two more rules after a ctl so that removal applies to rules that come later too.
func (c *c07Cfg) ruleSet2() {
	c.useAct("id", "phase", "pass", "log", "msg", "tag")
	c.useVar("ARGS")
	c.useVar("REQUEST_HEADERS")
	c.used[c07Op]["rx"] = true
	c.rule("ARGS|REQUEST_HEADERS:User-Agent|XML:/*", "@rx .", fmt.Sprintf("id:%d,phase:2,pass,log,msg:'hello',tag:tagA", c.id()))
	c.rule("ARGS:/^a/|ARGS:a", "@rx .", fmt.Sprintf("id:%d,phase:4,pass,log,tag:tagB", c.id()))
}

func c07MixCase(r *rand.Rand, s string) string {
	b := []byte(s)
	for i := range b {
		if r.IntN(2) == 0 && b[i] >= 'a' && b[i] <= 'z' {
			b[i] -= 32
		}
	}
	return string(b)
}

// c07AuditContext places an audit-log directive in a configuration in which it has an effect.
func c07AuditContext(c *c07Cfg, name, arg string) {
	set := map[string]string{
		"secauditengine":        "On",
		"secauditlogtype":       "Serial",
		"secauditlog":           c07Scratch + "/audit.log",
		"secauditlogstoragedir": c07Scratch + "/audit",
		"secauditlogparts":      "ABCDEFGHIJKZ",
		"secauditlogformat":     c.pick([]string{"Native", "JSON", "JsonLegacy", "OCSF"}),
	}
	if name == "secauditlogstoragedir" || name == "secauditlogdirmode" || name == "secauditlogfilemode" {
		set["secauditlogtype"] = "Concurrent"
	}
	if name == "secauditlogrelevantstatus" {
		set["secauditengine"] = "RelevantOnly"
	}
	if name == "secauditlog" {
		switch {
		case strings.HasPrefix(arg, "http"):
			set["secauditlogtype"] = "Https"
		case strings.HasPrefix(arg, "udp"):
			set["secauditlogtype"] = "Syslog"
		}
	}
	set[name] = arg
	if name == "secauditlogtype" {
		switch strings.ToLower(arg) {
		case "https":
			set["secauditlog"] = "http://127.0.0.1:9/audit"
		case "syslog":
			set["secauditlog"] = "udp://127.0.0.1:9"
		}
	}
	for _, k := range []string{"secauditengine", "secauditlogformat", "secauditlogparts", "secauditlog", "secauditlogstoragedir", "secauditlogtype"} {
		c.dir(k, set[k])
	}
	if _, ok := set[name]; ok && (name == "secauditlogdirmode" || name == "secauditlogfilemode" || name == "secauditlogrelevantstatus") {
		c.dir(name, arg)
	}
}

// c07ActionContexts uses action a with value v in one of the contexts an action can appear in:
// 0 SecAction in every phase, 1 SecRule (twice in one list), 2 chain starter, 3 chain link,
// 4 SecDefaultAction, 5 SecRuleUpdateActionById (single id and range).
const c07NActionContexts = 6

func c07ActionContexts(c *c07Cfg, a, v string, ctx int) {
	c.useAct(a, "id", "phase", "pass", "log", "chain")
	c.useVar("ARGS")
	c.useVar("REQUEST_URI")
	c.useVar("MATCHED_VAR")
	c.used[c07Op]["rx"] = true
	c.used[c07Op]["unconditionalMatch"] = true
	av := c07ActText(a, v)
	d := "pass,"
	switch a {
	case "allow", "deny", "drop", "block", "pass", "redirect":
		d = ""
	}
	c.dir("SecMarker", "M1")
	switch {
	case a == "id":
		switch ctx {
		case 0:
			c.action(fmt.Sprintf("id:%s,phase:1,pass", v))
		case 1:
			c.rule("ARGS", "@rx .", fmt.Sprintf("phase:2,pass,id:%s", v))
		case 2:
			c.action(fmt.Sprintf("id:%s,phase:1,pass", v))
			c.action(fmt.Sprintf("id:%s,phase:1,pass", v))
		case 3:
			c.rule("ARGS", "@rx .", fmt.Sprintf("id:%d,phase:2,pass,chain", c.id()))
			c.rule("ARGS", "@rx .", fmt.Sprintf("id:%s", v))
		case 4:
			c.dir("SecDefaultAction", fmt.Sprintf("\"phase:2,pass,id:%s\"", v))
			c.action(fmt.Sprintf("id:%d,phase:2,pass", c.id()))
		default:
			id := c.id()
			c.action(fmt.Sprintf("id:%d,phase:2,pass", id))
			c.dir("SecRuleUpdateActionById", fmt.Sprintf("%d \"id:%s\"", id, v))
		}
	case a == "phase":
		switch ctx {
		case 0:
			c.action(fmt.Sprintf("id:%d,phase:%s,pass,log", c.id(), v))
		case 1:
			c.rule("ARGS|REQUEST_URI", "@rx .", fmt.Sprintf("id:%d,phase:%s,pass,log", c.id(), v))
		case 2:
			c.rule("ARGS", "@rx .", fmt.Sprintf("id:%d,phase:%s,pass,log,chain", c.id(), v))
			c.rule("MATCHED_VAR", "@unconditionalMatch", "")
		case 3:
			c.rule("ARGS", "@rx .", fmt.Sprintf("id:%d,phase:2,pass,log,chain", c.id()))
			c.rule("MATCHED_VAR", "@unconditionalMatch", "phase:"+v)
		case 4:
			c.dir("SecDefaultAction", fmt.Sprintf("\"phase:%s,pass,log\"", v))
			c.action(fmt.Sprintf("id:%d,phase:%s,pass,log", c.id(), v))
		default:
			id := c.id()
			c.action(fmt.Sprintf("id:%d,phase:2,pass", id))
			c.dir("SecRuleUpdateActionById", fmt.Sprintf("%d \"phase:%s\"", id, v))
		}
	case a == "chain":
		switch ctx {
		case 0:
			c.action(fmt.Sprintf("id:%d,phase:2,pass,%s", c.id(), av))
			c.action("t:none")
		case 1:
			c.rule("ARGS", "@rx .", fmt.Sprintf("id:%d,phase:2,pass,log,%s", c.id(), av))
			c.rule("MATCHED_VAR", "@rx .", av)
			c.rule("MATCHED_VAR", "@rx .", av)
			c.rule("MATCHED_VAR", "@unconditionalMatch", "t:none")
		case 2:
			c.rule("ARGS", "@rx .", fmt.Sprintf("id:%d,phase:2,pass,log,%s", c.id(), av))
		case 3:
			c.rule("ARGS", "@rx .", fmt.Sprintf("id:%d,phase:2,pass,log,%s", c.id(), av))
			c.dir("SecMarker", "MID")
		case 4:
			c.dir("SecDefaultAction", fmt.Sprintf("\"phase:2,pass,log,%s\"", av))
			c.action(fmt.Sprintf("id:%d,phase:2,pass", c.id()))
			c.action(fmt.Sprintf("id:%d,phase:2,pass", c.id()))
		default:
			id := c.id()
			c.action(fmt.Sprintf("id:%d,phase:2,pass", id))
			c.dir("SecRuleUpdateActionById", fmt.Sprintf("%d \"%s\"", id, av))
			c.action(fmt.Sprintf("id:%d,phase:2,pass", c.id()))
		}
	default:
		switch ctx {
		case 0:
			for ph := 1; ph <= 5; ph++ {
				c.action(fmt.Sprintf("id:%d,phase:%d,%slog,%s", c.id(), ph, d, av))
			}
		case 1:
			c.rule("ARGS|REQUEST_URI", "@rx .", fmt.Sprintf("id:%d,phase:2,%slog,status:418,%s,%s", c.id(), d, av, av))
			c.useAct("status")
		case 2:
			c.rule("ARGS", "@rx .", fmt.Sprintf("id:%d,phase:2,%slog,%s,chain", c.id(), d, av))
			c.rule("MATCHED_VAR", "@unconditionalMatch", "")
		case 3:
			c.rule("ARGS", "@rx .", fmt.Sprintf("id:%d,phase:2,pass,log,chain", c.id()))
			c.rule("MATCHED_VAR", "@unconditionalMatch", av)
		case 4:
			c.dir("SecDefaultAction", fmt.Sprintf("\"phase:3,%slog,%s\"", d, av))
			c.action(fmt.Sprintf("id:%d,phase:3,block", c.id()))
			c.rule("ARGS", "@rx .", fmt.Sprintf("id:%d,phase:3,log", c.id()))
			c.useAct("block")
		default:
			id := c.id()
			c.rule("ARGS", "@rx .", fmt.Sprintf("id:%d,phase:4,pass,log", id-0))
			c.dir("SecRuleUpdateActionById", fmt.Sprintf("%d \"%s\"", id, av))
			c.dir("SecRuleUpdateActionById", fmt.Sprintf("%d-%d \"%s\"", id-1, id, av))
		}
	}
	c.dir("SecMarker", "END")
}
