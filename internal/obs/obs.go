// Package obs registers observer plugins through coraza's public plugin API:
// a recording operator, a dumping action, identity transformations, an in-memory
// audit-log writer and a recording body processor.
package obs

import (
	"fmt"
	"io"
	"reflect"
	"sort"
	"strings"
	"sync"

	"github.com/corazawaf/coraza/v3/collection"
	"github.com/corazawaf/coraza/v3/experimental/plugins"
	"github.com/corazawaf/coraza/v3/experimental/plugins/plugintypes"
	"github.com/corazawaf/coraza/v3/types/variables"
)

// Recorder collects observations per transaction id.
type Recorder struct {
	mu    sync.Mutex
	Seen  map[string][]string            // @verifrec: tag -> values in evaluation order
	Dumps map[string]map[string][]string // verifdump: tag -> collection name -> sorted "key=value"
	Order []string                       // tags of verifdump/verifrec events in order
}

var (
	recMu sync.Mutex
	recs  = map[string]*Recorder{}
)

// Attach creates the recorder of a transaction id (call before using the transaction).
func Attach(txid string) *Recorder {
	r := &Recorder{Seen: map[string][]string{}, Dumps: map[string]map[string][]string{}}
	recMu.Lock()
	recs[txid] = r
	recMu.Unlock()
	return r
}

// Detach removes the recorder of a transaction id.
func Detach(txid string) {
	recMu.Lock()
	delete(recs, txid)
	recMu.Unlock()
}

func get(txid string) *Recorder {
	recMu.Lock()
	defer recMu.Unlock()
	return recs[txid]
}

// ---- @verifrec "<tag> <predicate>" : records each evaluated value, then decides by predicate.
// predicate: "true", "false", "contains:<s>", "eq:<s>", "nonempty"
type recOp struct {
	tag  string
	pred string
	arg  string
}

func (o *recOp) Evaluate(tx plugintypes.TransactionState, v string) bool {
	if r := get(tx.ID()); r != nil {
		r.mu.Lock()
		r.Seen[o.tag] = append(r.Seen[o.tag], v)
		r.mu.Unlock()
	}
	switch o.pred {
	case "true":
		return true
	case "false":
		return false
	case "contains":
		return strings.Contains(v, o.arg)
	case "eq":
		return v == o.arg
	case "nonempty":
		return v != ""
	}
	return false
}

func newRecOp(o plugintypes.OperatorOptions) (plugintypes.Operator, error) {
	tag, rest, _ := strings.Cut(o.Arguments, " ")
	pred, arg, _ := strings.Cut(rest, ":")
	if tag == "" || pred == "" {
		return nil, fmt.Errorf("verifrec: want '<tag> <predicate>', got %q", o.Arguments)
	}
	return &recOp{tag: tag, pred: pred, arg: arg}, nil
}

// ---- verifdump:<tag> : non-disruptive action dumping every collection.
type dumpAct struct{ tag string }

func (a *dumpAct) Init(_ plugintypes.RuleMetadata, data string) error { a.tag = data; return nil }
func (a *dumpAct) Type() plugintypes.ActionType                       { return plugintypes.ActionTypeNondisruptive }
func (a *dumpAct) Evaluate(_ plugintypes.RuleMetadata, tx plugintypes.TransactionState) {
	r := get(tx.ID())
	if r == nil {
		return
	}
	d := DumpAll(tx)
	r.mu.Lock()
	r.Dumps[a.tag] = d
	r.Order = append(r.Order, a.tag)
	r.mu.Unlock()
}

// Volatile names collections whose content legitimately differs between runs.
var Volatile = map[string]bool{
	"UNIQUE_ID": true, "DURATION": true, "TIME": true, "TIME_DAY": true, "TIME_EPOCH": true, "TIME_HOUR": true,
	"TIME_MIN": true, "TIME_MON": true, "TIME_SEC": true, "TIME_WDAY": true, "TIME_YEAR": true,
	"FILES_TMPNAMES": true,
}

// DumpAll walks every collection of a transaction: name -> sorted "key=value" entries.
// accessorsOutsideAll lists the accessor methods of the transaction's variables whose collection the All()
// iteration does not hand out (computed on first use): a variable that All() forgets is invisible to the
// library's own reset as well, so the dump reads it through its accessor.
var (
	accOnce    sync.Once
	accMissing []string
)

func accessorsOutsideAll(tx plugintypes.TransactionState) []string {
	accOnce.Do(func() {
		seen := map[collection.Collection]bool{}
		tx.Variables().All(func(_ variables.RuleVariable, col collection.Collection) bool {
			if col != nil {
				seen[col] = true
			}
			return true
		})
		v := reflect.ValueOf(tx.Variables())
		t := v.Type()
		colT := reflect.TypeOf((*collection.Collection)(nil)).Elem()
		for i := 0; i < t.NumMethod(); i++ {
			m := t.Method(i)
			if m.Type.NumIn() != 1 || m.Type.NumOut() != 1 || !m.Type.Out(0).Implements(colT) {
				continue
			}
			res := v.Method(i).Call(nil)[0]
			if res.IsNil() {
				continue
			}
			if col, ok := res.Interface().(collection.Collection); ok && !seen[col] {
				accMissing = append(accMissing, m.Name)
			}
		}
		sort.Strings(accMissing)
	})
	return accMissing
}

// AccessorsOutsideAll is what the first dump found (for evidence).
func AccessorsOutsideAll() []string { return accMissing }

func DumpAll(tx plugintypes.TransactionState) map[string][]string {
	out := map[string][]string{}
	if names := accessorsOutsideAll(tx); len(names) > 0 {
		v := reflect.ValueOf(tx.Variables())
		for _, n := range names {
			res := v.MethodByName(n).Call(nil)[0]
			if res.IsNil() {
				continue
			}
			col, ok := res.Interface().(collection.Collection)
			if !ok || Volatile[col.Name()] {
				continue
			}
			var ents []string
			for _, m := range col.FindAll() {
				ents = append(ents, m.Key()+"="+m.Value())
			}
			sort.Strings(ents)
			if len(ents) > 0 && strings.Join(ents, "") != "=" {
				out["accessor:"+n] = ents
			}
		}
	}
	tx.Variables().All(func(v variables.RuleVariable, col collection.Collection) bool {
		if col == nil {
			return true
		}
		name := v.Name()
		if Volatile[name] {
			return true
		}
		var ents []string
		for _, m := range col.FindAll() {
			ents = append(ents, m.Key()+"="+m.Value())
		}
		sort.Strings(ents)
		if len(ents) > 0 {
			out[name] = ents
		}
		return true
	})
	return out
}

// ---- in-memory audit-log writer "verifmem".
type AuditRecord struct {
	TxID        string
	Parts       string
	Interrupted bool
	RuleIDs     []int
	Status      int
	HasResponse bool
}

var (
	auditMu  sync.Mutex
	auditLog []AuditRecord
)

type memWriter struct{}

func (memWriter) Init(plugintypes.AuditLogConfig) error { return nil }
func (memWriter) Close() error                          { return nil }
func (memWriter) Write(al plugintypes.AuditLog) error {
	rec := AuditRecord{TxID: al.Transaction().ID(), Interrupted: al.Transaction().IsInterrupted()}
	for _, p := range al.Parts() {
		rec.Parts += string(p)
	}
	for _, m := range al.Messages() {
		if m.Data() != nil {
			rec.RuleIDs = append(rec.RuleIDs, m.Data().ID())
		}
	}
	if al.Transaction().HasResponse() {
		rec.HasResponse = true
		rec.Status = al.Transaction().Response().Status()
	}
	auditMu.Lock()
	auditLog = append(auditLog, rec)
	auditMu.Unlock()
	return nil
}

// TakeAudit returns and clears the records written through the verifmem writer.
func TakeAudit() []AuditRecord {
	auditMu.Lock()
	defer auditMu.Unlock()
	out := auditLog
	auditLog = nil
	return out
}

// ---- recording body processor "verifbody": stores the bytes it was given in TX-independent storage.
var (
	bodyMu   sync.Mutex
	bodySeen = map[string][][]byte{} // keyed by REQUEST/RESPONSE + unique id
)

type recBody struct{}

func (recBody) ProcessRequest(r io.Reader, v plugintypes.TransactionVariables, _ plugintypes.BodyProcessorOptions) error {
	b, err := io.ReadAll(r)
	bodyMu.Lock()
	k := "req:" + v.UniqueID().Get()
	bodySeen[k] = append(bodySeen[k], b)
	bodyMu.Unlock()
	return err
}
func (recBody) ProcessResponse(r io.Reader, v plugintypes.TransactionVariables, _ plugintypes.BodyProcessorOptions) error {
	b, err := io.ReadAll(r)
	bodyMu.Lock()
	k := "res:" + v.UniqueID().Get()
	bodySeen[k] = append(bodySeen[k], b)
	bodyMu.Unlock()
	return err
}

// TakeBodies returns what the recording body processor was given for a transaction ("req"/"res").
func TakeBodies(side, txid string) [][]byte {
	bodyMu.Lock()
	defer bodyMu.Unlock()
	k := side + ":" + txid
	out := bodySeen[k]
	delete(bodySeen, k)
	return out
}

// NumIdentity is the number of registered identity transformations t:verifid0 … t:verifid<N-1>.
const NumIdentity = 64

func init() {
	plugins.RegisterOperator("verifrec", newRecOp)
	plugins.RegisterAction("verifdump", func() plugintypes.Action { return &dumpAct{} })
	for i := 0; i < NumIdentity; i++ {
		plugins.RegisterTransformation(fmt.Sprintf("verifid%d", i), func(s string) (string, bool, error) { return s, false, nil })
	}
	plugins.RegisterAuditLogWriter("verifmem", func() plugintypes.AuditLogWriter { return memWriter{} })
	plugins.RegisterBodyProcessor("verifbody", func() plugintypes.BodyProcessor { return recBody{} })
}
