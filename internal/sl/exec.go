package sl

import (
	"fmt"
	"sort"
	"strconv"
	"strings"
	"sync"

	coraza "github.com/corazawaf/coraza/v3"
	"github.com/corazawaf/coraza/v3/experimental"
	"github.com/corazawaf/coraza/v3/experimental/verifapi"
	"github.com/corazawaf/coraza/v3/types"

	"verif/internal/obs"
)

// Events collects hook events of the transactions run by this process, keyed by transaction pointer.
type txEvents struct {
	evaluated  [6][]int
	phaseBegin [6]int
}

var (
	evMu sync.Mutex
	evs  = map[any]*txEvents{}
	// Cache-event counters (process wide, read by C12/C04).
	TCacheHits, TCachePrefixHits, TCacheMisses int64
)

func init() {
	verifapi.SetSink(func(kind verifapi.EventKind, subject any, a, b int) {
		switch kind {
		case verifapi.RuleEval:
			evMu.Lock()
			// markers (and id-less rules) carry id 0 and are not rules of the configuration: not recorded
			if e := evs[subject]; e != nil && b >= 0 && b <= 5 && a != 0 {
				e.evaluated[b] = append(e.evaluated[b], a)
			}
			evMu.Unlock()
		case verifapi.PhaseBegin:
			evMu.Lock()
			if e := evs[subject]; e != nil && a >= 0 && a <= 5 {
				e.phaseBegin[a]++
			}
			evMu.Unlock()
		case verifapi.TCacheHit:
			evMu.Lock()
			TCacheHits++
			evMu.Unlock()
		case verifapi.TCachePrefixHit:
			evMu.Lock()
			TCachePrefixHits++
			evMu.Unlock()
		case verifapi.TCacheMiss:
			evMu.Lock()
			TCacheMisses++
			evMu.Unlock()
		}
	})
}

// WatchTx registers a transaction that is driven outside ExecSeq with the hook sink. The returned
// function unregisters it and returns the PhaseBegin counts and the evaluated rule ids per phase.
func WatchTx(tx any) func() (phaseBegin [6]int, evaluated [6][]int) {
	ev := &txEvents{}
	evMu.Lock()
	evs[tx] = ev
	evMu.Unlock()
	return func() ([6]int, [6][]int) {
		evMu.Lock()
		defer evMu.Unlock()
		delete(evs, tx)
		return ev.phaseBegin, ev.evaluated
	}
}

// Build compiles a program into a WAF.
func Build(p *Program) (coraza.WAF, error) {
	return BuildText(p.Render())
}

func BuildText(text string) (coraza.WAF, error) {
	cfg := coraza.NewWAFConfig().WithDirectives(text)
	return coraza.NewWAF(cfg)
}

// CloseWAF releases the WAF's pattern-cache entries.
func CloseWAF(w coraza.WAF) {
	if c, ok := w.(experimental.WAFCloser); ok {
		c.Close()
	}
}

func toIntr(i *types.Interruption) *Intr {
	if i == nil {
		return nil
	}
	return &Intr{RuleID: i.RuleID, Action: i.Action, Status: i.Status, Data: i.Data}
}

// CallResult is what one Transaction API call returned.
type CallResult struct {
	Call string `json:"call"`
	Intr *Intr  `json:"intr,omitempty"`
	Err  string `json:"err,omitempty"`
	// Evals counts the RuleEval hook events per phase that happened during this call.
	Evals [6]int `json:"evals"`
	// Begins counts the PhaseBegin hook events per phase during this call.
	Begins [6]int `json:"begins"`
	// Interrupted is tx.IsInterrupted() right after the call.
	Interrupted bool `json:"interrupted,omitempty"`
}

// ExecResult is the observed outcome plus per-call return values.
type ExecResult struct {
	Result
	Calls      []CallResult `json:"calls,omitempty"`
	PhaseBegin [6]int       `json:"phase_begin"`
	Panic      string       `json:"panic,omitempty"`
}

var txCounter int64
var txCounterMu sync.Mutex

func nextTxID() string {
	txCounterMu.Lock()
	txCounter++
	n := txCounter
	txCounterMu.Unlock()
	return "vtx" + strconv.FormatInt(n, 10)
}

// Exec runs the request through the standard call sequence on a WAF and returns the observed outcome.
func Exec(w coraza.WAF, req *Req) *ExecResult {
	return ExecSeq(w, req, nil)
}

// ExecSeq runs the request with an explicit sequence of phase calls (nil = standard 1..5).
// Calls: "h" ProcessRequestHeaders, "b" ProcessRequestBody, "H" ProcessResponseHeaders, "B" ProcessResponseBody, "L" ProcessLogging.
func ExecSeq(w coraza.WAF, req *Req, seq []string) *ExecResult {
	return ExecSeqHook(w, req, seq, nil)
}

// ExecSeqHook is ExecSeq with a callback after every call (the transaction is still open).
func ExecSeqHook(w coraza.WAF, req *Req, seq []string, after func(i int, tx types.Transaction, cr *CallResult)) *ExecResult {
	id := nextTxID()
	rec := obs.Attach(id)
	defer obs.Detach(id)
	tx := w.NewTransactionWithID(id)
	ev := &txEvents{}
	evMu.Lock()
	evs[tx] = ev
	evMu.Unlock()
	out := &ExecResult{}
	out.HS = 255
	defer func() {
		evMu.Lock()
		delete(evs, tx)
		evMu.Unlock()
	}()
	func() {
		defer func() {
			if r := recover(); r != nil {
				out.Panic = fmt.Sprint(r)
			}
		}()
		tx.ProcessConnection("10.0.0.1", 1234, "10.0.0.2", 80)
		uri := req.Path
		if req.RawQuery != "" {
			uri += "?" + req.RawQuery
		}
		tx.ProcessURI(uri, req.Method, "HTTP/1.1")
		for _, kv := range req.Get {
			tx.AddGetRequestArgument(kv.K, kv.V)
		}
		for _, kv := range req.Post {
			tx.AddPostRequestArgument(kv.K, kv.V)
		}
		for _, kv := range req.Headers {
			tx.AddRequestHeader(kv.K, kv.V)
		}
		if req.RawBody != "" {
			tx.AddRequestHeader("Content-Type", "application/x-www-form-urlencoded")
		}
		bodySent := false
		if seq == nil {
			seq = []string{"h", "b", "H", "B", "L"}
		}
		respSet := false
		for _, c := range seq {
			if c == "" {
				continue
			}
			cr := CallResult{Call: c}
			var evBefore, bgBefore [6]int
			evMu.Lock()
			for ph := 0; ph < 6; ph++ {
				evBefore[ph] = len(ev.evaluated[ph])
			}
			bgBefore = ev.phaseBegin
			evMu.Unlock()
			if c == "b" && req.RawBody != "" && !bodySent {
				bodySent = true
				tx.WriteRequestBody([]byte(req.RawBody))
			}
			switch c {
			case "w", "W":
				body := []byte("a=1")
				if c == "W" {
					body = []byte(strings.Repeat("x=y&", 64))
				}
				it, _, err := tx.WriteRequestBody(body)
				cr.Intr = toIntr(it)
				if err != nil {
					cr.Err = "error"
				}
			case "r", "R":
				body := "ok"
				if c == "R" {
					body = strings.Repeat("z", 256)
				}
				it, _, err := tx.WriteResponseBody([]byte(body))
				cr.Intr = toIntr(it)
				if err != nil {
					cr.Err = "error"
				}
			case "h":
				cr.Intr = toIntr(tx.ProcessRequestHeaders())
			case "b":
				it, err := tx.ProcessRequestBody()
				cr.Intr = toIntr(it)
				if err != nil {
					cr.Err = "error"
				}
			case "H":
				if !respSet {
					for _, kv := range req.RespHeaders {
						tx.AddResponseHeader(kv.K, kv.V)
					}
					respSet = true
				}
				cr.Intr = toIntr(tx.ProcessResponseHeaders(req.Status, "HTTP/1.1"))
			case "B":
				it, err := tx.ProcessResponseBody()
				cr.Intr = toIntr(it)
				if err != nil {
					cr.Err = "error"
				}
			case "L":
				tx.ProcessLogging()
			}
			evMu.Lock()
			for ph := 0; ph < 6; ph++ {
				cr.Evals[ph] = len(ev.evaluated[ph]) - evBefore[ph]
				cr.Begins[ph] = ev.phaseBegin[ph] - bgBefore[ph]
			}
			evMu.Unlock()
			cr.Interrupted = tx.IsInterrupted()
			if after != nil {
				after(len(out.Calls), tx, &cr)
			}
			out.Calls = append(out.Calls, cr)
		}
		out.Intr = toIntr(tx.Interruption())
		out.Would = toIntr(verifapi.DetectionOnlyInterruption(tx))
		for _, mr := range tx.MatchedRules() {
			f := Fired{ID: mr.Rule().ID(), Phase: int(mr.Rule().Phase()), Msg: mr.Message(), Data: mr.Data()}
			for _, md := range mr.MatchedDatas() {
				t := Triple{Var: md.Variable().Name(), Key: md.Key(), Val: md.Value()}
				if t.Var == "UNKNOWN" && t.Key == "" && t.Val == "" {
					t = Triple{}
				}
				f.Matches = append(f.Matches, t)
			}
			out.Fired = append(out.Fired, f)
		}
		if st := verifapi.TxState(tx); st != nil {
			out.TX = map[string]string{}
			for _, md := range st.Variables().TX().FindAll() {
				out.TX[md.Key()] = md.Value()
			}
			if hs, err := strconv.Atoi(st.Variables().HighestSeverity().Get()); err == nil {
				out.HS = hs
			}
		}
	}()
	evMu.Lock()
	out.Evaluated = ev.evaluated
	out.PhaseBegin = ev.phaseBegin
	evMu.Unlock()
	if len(rec.Seen) > 0 {
		out.Seen = rec.Seen
	}
	func() {
		defer func() { recover() }()
		tx.Close()
	}()
	return out
}

func tripleKey(t Triple) string {
	return t.Var + "\x00" + t.Key + "\x00" + t.Val
}

// matchTriples compares expected and observed match data as multisets (sets when asSet). Count
// triples are paired off first on (variable, value) with the reported key compared loosely
// (as written, case-folded, or in its /regex/ form), because the key a count reports is not pinned.
func matchTriples(exp, got []Triple, asSet bool) bool {
	var counts, plain []Triple
	for _, e := range exp {
		if e.Count {
			counts = append(counts, e)
		} else {
			plain = append(plain, e)
		}
	}
	// a count may be paired with any observed triple of the same variable and value whose key is the count's key
	// in some spelling; an ordinary argument can look exactly like that, so every pairing is tried
	var try func(k int, rest []Triple) bool
	try = func(k int, rest []Triple) bool {
		if k == len(counts) {
			a, b := canonTriples(plain, asSet), canonTriples(rest, asSet)
			return strings.Join(a, "\x01") == strings.Join(b, "\x01")
		}
		e := counts[k]
		for i, g := range rest {
			if g.Var == e.Var && g.Val == e.Val && (strings.EqualFold(g.Key, e.Key) || strings.EqualFold(g.Key, "/"+e.Key+"/")) {
				next := append(append([]Triple{}, rest[:i]...), rest[i+1:]...)
				if try(k+1, next) {
					return true
				}
			}
		}
		return false
	}
	return try(0, append([]Triple{}, got...))
}

func canonTriples(ts []Triple, asSet bool) []string {
	var out []string
	for _, t := range ts {
		out = append(out, tripleKey(t))
	}
	sort.Strings(out)
	if asSet {
		var d []string
		for i, s := range out {
			if i == 0 || s != out[i-1] {
				d = append(d, s)
			}
		}
		out = d
	}
	return out
}

// CompareOpts selects what Compare looks at.
type CompareOpts struct {
	Evaluated bool // compare evaluated-rule lists (needs hook events)
	TX        bool
	Messages  bool
	Captures  bool // include TX.0-9 in the TX comparison
}

// Compare returns a description of the first difference between the model's and the observed outcome ("" if none).
func Compare(exp *Result, got *ExecResult, o CompareOpts) string {
	if got.Panic != "" {
		return "panic: " + got.Panic
	}
	if len(exp.Fired) != len(got.Fired) {
		return fmt.Sprintf("fired rules: expected %v, observed %v", firedIDs(exp.Fired), firedIDs(got.Fired))
	}
	for i := range exp.Fired {
		e, g := exp.Fired[i], got.Fired[i]
		if e.ID != g.ID {
			return fmt.Sprintf("fired rules: expected %v, observed %v", firedIDs(exp.Fired), firedIDs(got.Fired))
		}
		if !matchTriples(e.Matches, g.Matches, e.MM) {
			return fmt.Sprintf("rule %d match data: only expected %q, only observed %q", e.ID, tripleDiff(e.Matches, g.Matches), tripleDiff(g.Matches, e.Matches))
		}
		if o.Messages && e.Single {
			if e.Msg != g.Msg {
				return fmt.Sprintf("rule %d msg: expected %q, observed %q", e.ID, e.Msg, g.Msg)
			}
			// the rule-level logdata is only reported next to a message; without msg it is not pinned
			if e.Msg != "" && e.Data != g.Data {
				return fmt.Sprintf("rule %d logdata: expected %q, observed %q", e.ID, e.Data, g.Data)
			}
		}
	}
	if d := cmpIntr("interruption", exp.Intr, got.Intr); d != "" {
		return d
	}
	if d := cmpIntr("detection-only interruption", exp.Would, got.Would); d != "" {
		return d
	}
	if exp.HS != got.HS {
		return fmt.Sprintf("HIGHEST_SEVERITY: expected %d, observed %d", exp.HS, got.HS)
	}
	if o.Evaluated {
		for ph := 1; ph <= 5; ph++ {
			if fmt.Sprint(exp.Evaluated[ph]) != fmt.Sprint(got.Evaluated[ph]) {
				return fmt.Sprintf("phase %d evaluated rules: expected %v, observed %v", ph, exp.Evaluated[ph], got.Evaluated[ph])
			}
		}
	}
	if o.TX {
		keys := map[string]bool{}
		for k := range exp.TX {
			keys[k] = true
		}
		for k := range got.TX {
			keys[k] = true
		}
		for k := range keys {
			if exp.TXOrderDep[k] {
				continue
			}
			if isCaptureKey(k) {
				if !o.Captures {
					continue
				}
				if exp.TX[k] != got.TX[k] {
					return fmt.Sprintf("TX.%s: expected %q, observed %q", k, exp.TX[k], got.TX[k])
				}
				continue
			}
			ev, eok := exp.TX[k]
			gv, gok := got.TX[k]
			if eok != gok || ev != gv {
				return fmt.Sprintf("TX.%s: expected %q (present=%v), observed %q (present=%v)", k, ev, eok, gv, gok)
			}
		}
	}
	for tag, evs := range exp.Seen {
		gvs := got.Seen[tag]
		a, b := append([]string{}, evs...), append([]string{}, gvs...)
		sort.Strings(a)
		sort.Strings(b)
		if strings.Join(a, "\x00") != strings.Join(b, "\x00") {
			return fmt.Sprintf("values seen by operator %s: expected %q, observed %q", tag, evs, gvs)
		}
	}
	return ""
}

func isCaptureKey(k string) bool {
	if n, err := strconv.Atoi(k); err == nil && n >= 0 && n <= 10 {
		return true
	}
	return false
}

func cmpIntr(what string, e, g *Intr) string {
	switch {
	case e == nil && g == nil:
		return ""
	case e == nil || g == nil:
		return fmt.Sprintf("%s: expected %+v, observed %+v", what, e, g)
	case *e != *g:
		return fmt.Sprintf("%s: expected %+v, observed %+v", what, *e, *g)
	}
	return ""
}

func firedIDs(fs []Fired) []int {
	out := make([]int, len(fs))
	for i, f := range fs {
		out[i] = f.ID
	}
	return out
}

// DiffKind reduces a Compare description to a coarse kind used as violation class.
func DiffKind(d string) string {
	switch {
	case strings.HasPrefix(d, "panic"):
		return "panic"
	case strings.HasPrefix(d, "fired rules"):
		return "fired"
	case strings.Contains(d, "match data"):
		return "matchdata"
	case strings.HasPrefix(d, "interruption"):
		return "interruption"
	case strings.HasPrefix(d, "detection-only"):
		return "would-be-interruption"
	case strings.HasPrefix(d, "HIGHEST_SEVERITY"):
		return "highest-severity"
	case strings.Contains(d, "evaluated rules"):
		return "evaluated"
	case strings.HasPrefix(d, "TX."):
		return "tx"
	case strings.HasPrefix(d, "values seen"):
		return "operator-input"
	case strings.Contains(d, " msg:") || strings.Contains(d, " logdata:"):
		return "message"
	}
	return "other"
}

// tripleDiff lists the triples of a that have no partner in b (multiset difference; key case-folded for counts).
func tripleDiff(a, b []Triple) []Triple {
	rest := append([]Triple{}, b...)
	var out []Triple
	for _, x := range a {
		found := -1
		for i, y := range rest {
			if x.Var == y.Var && x.Val == y.Val && (x.Key == y.Key || ((x.Count || y.Count) && (strings.EqualFold(x.Key, y.Key) || strings.EqualFold("/"+x.Key+"/", y.Key) || strings.EqualFold(x.Key, "/"+y.Key+"/")))) {
				found = i
				break
			}
		}
		if found < 0 {
			out = append(out, x)
		} else {
			rest = append(rest[:found], rest[found+1:]...)
		}
	}
	return out
}
