package sl

import (
	"crypto/md5"
	"crypto/sha1"
	"encoding/base64"
	"encoding/hex"
	"regexp"
	"sort"
	"strconv"
	"strings"
	"unicode/utf8"
)

// Triple is one matched (variable, key, transformed value).
type Triple struct {
	Var string `json:"var"`
	Key string `json:"key"`
	Val string `json:"val"`
	// Count triples compare only Var and Val (the reported key of a count is not pinned).
	Count bool `json:"count,omitempty"`
}

type Fired struct {
	ID      int      `json:"id"`
	Phase   int      `json:"phase"`
	Matches []Triple `json:"matches"`
	// Single is true when every chain level had exactly one match (order-dependent observables are then pinned).
	Single bool   `json:"single"`
	Msg    string `json:"msg,omitempty"`
	Data   string `json:"data,omitempty"`
	MM     bool   `json:"mm,omitempty"` // some level used multiMatch: compare as a set
}

type Intr struct {
	RuleID int    `json:"rule_id"`
	Action string `json:"action"`
	Status int    `json:"status"`
	Data   string `json:"data,omitempty"`
}

// Result is the model's (or the implementation's) canonical outcome.
type Result struct {
	Evaluated [6][]int            `json:"evaluated"` // top-level rule ids evaluated, per phase
	Fired     []Fired             `json:"fired"`
	Intr      *Intr               `json:"intr,omitempty"`
	IntrPhase int                 `json:"intr_phase,omitempty"`
	Would     *Intr               `json:"would,omitempty"` // DetectionOnly: remembered first would-be interruption
	TX        map[string]string   `json:"tx,omitempty"`
	HS        int                 `json:"hs"`
	Seen      map[string][]string `json:"seen,omitempty"` // verifrec tag -> values in order
	Ambiguous string              `json:"ambiguous,omitempty"`
	// AmbReasons lists every distinct ambiguity reason met (Ambiguous is the first).
	AmbReasons []string `json:"amb_reasons,omitempty"`
	// TXOrderDep lists TX keys whose final value depends on the visiting order of a multi-valued collection.
	TXOrderDep map[string]bool `json:"tx_order_dep,omitempty"`
}

type model struct {
	p   *Program
	req *Req
	res *Result

	engine     string
	cols       map[string][]KV
	singles    map[string]string
	tx         map[string]string
	txOrderDep map[string]bool
	mvar       string
	mvarName   string
	mvars      []KV
	skip       int
	skipAfter  string
	allow      int // 0 none 1 phase 2 request 3 all
	cur        *Rule
	curTop     *Rule
	mvarTaint  bool
	// the key a count reports is not pinned, so names derived from it are not either
	mvarNameUnpinned   bool
	mvarsNamesUnpinned bool
	// per-level bookkeeping for order dependence
	lvlAssign map[string]map[string]bool // tx key -> distinct values assigned with "=" during the current level
	readTaint bool                       // set by expand when it read an order-dependent value
}

func (m *model) amb(reason string) {
	if m.res.Ambiguous == "" {
		m.res.Ambiguous = reason
	}
	for _, r := range m.res.AmbReasons {
		if r == reason {
			return
		}
	}
	if len(m.res.AmbReasons) < 32 {
		m.res.AmbReasons = append(m.res.AmbReasons, reason)
	}
}

// OrderDependent reports whether the model found the case's control flow to depend on the visiting order of a
// multi-valued collection (then even the set of fired rules may legitimately vary between runs). Other
// ambiguity reasons only mean that the model cannot predict the outcome; the outcome must still be the same
// in every run.
func (r *Result) OrderDependent() bool {
	for _, a := range r.AmbReasons {
		if strings.Contains(a, "order-dependent") || strings.Contains(a, "MATCHED_VARS(_NAMES)") {
			return true
		}
	}
	return false
}

// Keyed collections known to the model.
var keyedCols = map[string]bool{
	"ARGS_GET": true, "ARGS_POST": true, "ARGS": true, "ARGS_NAMES": true, "ARGS_GET_NAMES": true, "ARGS_POST_NAMES": true,
	"REQUEST_HEADERS": true, "REQUEST_HEADERS_NAMES": true, "REQUEST_COOKIES": true, "REQUEST_COOKIES_NAMES": true,
	"RESPONSE_HEADERS": true, "RESPONSE_HEADERS_NAMES": true, "TX": true, "MATCHED_VARS": true, "MATCHED_VARS_NAMES": true,
}

var singleCols = map[string]bool{
	"REQUEST_METHOD": true, "REQUEST_URI": true, "REQUEST_FILENAME": true, "REQUEST_PROTOCOL": true, "RESPONSE_STATUS": true,
	"MATCHED_VAR": true, "MATCHED_VAR_NAME": true, "QUERY_STRING": true, "HIGHEST_SEVERITY": true, "REQUEST_LINE": true,
	"REQUEST_URI_RAW": true, "REQUEST_BASENAME": true, "ARGS_COMBINED_SIZE": true,
}

func names(kvs []KV) []KV {
	out := make([]KV, len(kvs))
	for i, kv := range kvs {
		out[i] = KV{kv.K, kv.K}
	}
	return out
}

// entries returns the (name, value) list of a collection as visible now.
func (m *model) entries(v string) []KV {
	switch v {
	case "ARGS_GET", "ARGS_POST", "REQUEST_HEADERS", "REQUEST_COOKIES", "RESPONSE_HEADERS":
		return m.cols[v]
	case "ARGS":
		return append(append([]KV{}, m.cols["ARGS_GET"]...), m.cols["ARGS_POST"]...)
	case "ARGS_NAMES":
		return names(m.entries("ARGS"))
	case "ARGS_GET_NAMES":
		return names(m.cols["ARGS_GET"])
	case "ARGS_POST_NAMES":
		return names(m.cols["ARGS_POST"])
	case "REQUEST_HEADERS_NAMES":
		return names(m.cols["REQUEST_HEADERS"])
	case "REQUEST_COOKIES_NAMES":
		return names(m.cols["REQUEST_COOKIES"])
	case "RESPONSE_HEADERS_NAMES":
		return names(m.cols["RESPONSE_HEADERS"])
	case "TX":
		var out []KV
		for k, val := range m.tx {
			out = append(out, KV{k, val})
		}
		sort.Slice(out, func(i, j int) bool { return out[i].K < out[j].K })
		return out
	case "MATCHED_VARS":
		return m.mvars
	case "MATCHED_VARS_NAMES":
		return names(m.mvars)
	}
	return nil
}

func (m *model) single(v string) string {
	switch v {
	case "MATCHED_VAR":
		return m.mvar
	case "MATCHED_VAR_NAME":
		return m.mvarName
	case "HIGHEST_SEVERITY":
		return strconv.Itoa(m.res.HS)
	case "ARGS_COMBINED_SIZE":
		// combined size of all request parameters: names and values as received
		n := 0
		for _, kv := range m.entries("ARGS") {
			n += len(kv.K) + len(kv.V)
		}
		return strconv.Itoa(n)
	}
	return m.singles[v]
}

func hasUpper(s string) bool { return strings.ToLower(s) != s }

// rxKeyMatch decides a regex key against a name under both readings; ambiguous if they differ.
func (m *model) rxKeyMatch(pat, name string) bool {
	a, errA := regexp.Compile(pat)
	b, errB := regexp.Compile(strings.ToLower(pat))
	if errA != nil || errB != nil {
		m.amb("regex key does not compile under both readings")
		return false
	}
	ra := a.MatchString(name)
	rb := b.MatchString(strings.ToLower(name))
	if ra != rb {
		m.amb("regex key: case readings differ")
	}
	return ra
}

func (m *model) selectValues(s Sel, excl []Sel) []Triple {
	var out []Triple
	if singleCols[s.Var] {
		out = []Triple{{Var: s.Var, Key: "", Val: m.single(s.Var)}}
		if s.Kind != 0 {
			m.amb("selector on a single-valued variable")
		}
	} else {
		for _, kv := range m.entries(s.Var) {
			ok := true
			switch s.Kind {
			case 1:
				ok = strings.EqualFold(kv.K, s.Key) && asciiOrSame(kv.K, s.Key, m)
			case 2:
				ok = m.rxKeyMatch(s.Key, kv.K)
			}
			if !ok {
				continue
			}
			excluded := false
			for _, e := range excl {
				if e.Var != s.Var {
					continue
				}
				switch e.Kind {
				case 0:
					excluded = true
				case 1:
					if strings.EqualFold(kv.K, e.Key) && asciiOrSame(kv.K, e.Key, m) {
						excluded = true
					}
				case 2:
					if m.rxKeyMatch(e.Key, kv.K) {
						excluded = true
					}
				}
			}
			if !excluded {
				out = append(out, Triple{Var: s.Var, Key: kv.K, Val: kv.V})
			}
		}
	}
	if s.Count {
		return []Triple{{Var: s.Var, Key: s.Key, Val: strconv.Itoa(len(out)), Count: true}}
	}
	return out
}

// asciiOrSame flags key comparisons whose outcome depends on which case folding is used (Unicode simple
// folding, ASCII-only folding, or lower-casing both sides); only then is the selection not pinned.
func asciiOrSame(a, b string, m *model) bool {
	if a == b {
		return true
	}
	fold := strings.EqualFold(a, b)
	ascii := asciiMap(a, false) == asciiMap(b, false)
	lower := strings.ToLower(a) == strings.ToLower(b)
	if fold != ascii || fold != lower {
		m.amb("non-ASCII key compared case-insensitively")
	}
	return true
}

// ApplyT applies one modelled transformation. ok=false if the name is not modelled.
func ApplyT(name, v string) (out string, ambiguous bool, ok bool) {
	switch strings.ToLower(name) {
	case "lowercase":
		if !utf8.ValidString(v) {
			return asciiMap(v, false), true, true
		}
		return strings.ToLower(v), false, true
	case "uppercase":
		if !utf8.ValidString(v) {
			return asciiMap(v, true), true, true
		}
		return strings.ToUpper(v), false, true
	case "trim":
		return strings.Trim(v, " \t\n\r\f\v"), false, true
	case "trimleft":
		return strings.TrimLeft(v, " \t\n\r\f\v"), false, true
	case "trimright":
		return strings.TrimRight(v, " \t\n\r\f\v"), false, true
	case "length":
		return strconv.Itoa(len(v)), false, true
	case "removenulls":
		return strings.ReplaceAll(v, "\x00", ""), false, true
	case "hexencode":
		return hex.EncodeToString([]byte(v)), false, true
	case "hexdecode":
		// a transformation that reports an error leaves the value as it was
		b, err := hex.DecodeString(v)
		if err != nil {
			return v, false, true
		}
		return string(b), false, true
	case "base64encode":
		return base64.StdEncoding.EncodeToString([]byte(v)), false, true
	case "md5":
		s := md5.Sum([]byte(v))
		return string(s[:]), false, true
	case "sha1":
		s := sha1.Sum([]byte(v))
		return string(s[:]), false, true
	}
	if strings.HasPrefix(strings.ToLower(name), "verifid") {
		return v, false, true
	}
	return v, false, false
}

func asciiMap(s string, up bool) string {
	b := []byte(s)
	for i, c := range b {
		if up && c >= 'a' && c <= 'z' {
			b[i] = c - 32
		} else if !up && c >= 'A' && c <= 'Z' {
			b[i] = c + 32
		}
	}
	return string(b)
}

func effectiveTrans(ts []string) []string {
	var out []string
	for _, t := range ts {
		if strings.EqualFold(t, "none") {
			out = nil
			continue
		}
		out = append(out, t)
	}
	return out
}

// variants returns the values the operator must see for one selected value.
func (m *model) variants(r *Rule, v string) []string {
	ts := effectiveTrans(r.Trans)
	cur := v
	out := []string{}
	if r.MultiMatch {
		out = append(out, v)
	}
	for _, t := range ts {
		nv, amb, ok := ApplyT(t, cur)
		if !ok {
			m.amb("transformation not modelled: " + t)
		}
		if amb {
			m.amb("transformation on input without pinned result: " + t)
		}
		if r.MultiMatch && nv != cur {
			out = append(out, nv)
		}
		cur = nv
	}
	if !r.MultiMatch {
		out = append(out, cur)
	}
	return out
}

// canonicalInt: a decimal integer written with digits only (optional '-', leading zeros allowed: a digit string
// has one decimal value). Signs, blanks, base prefixes, separators have no pinned numeric reading.
func canonicalInt(s string) (int, bool) {
	d := s
	if len(d) > 0 && d[0] == '-' {
		d = d[1:]
	}
	if d == "" {
		return 0, false
	}
	for i := 0; i < len(d); i++ {
		if d[i] < '0' || d[i] > '9' {
			return 0, false
		}
	}
	n, err := strconv.Atoi(s)
	if err != nil {
		return 0, false
	}
	return n, true
}

// evalOp decides the operator on one value. captures is non-nil for a capturing @rx match.
func (m *model) evalOp(op *Op, v string) (res bool, captures []string) {
	arg := op.Arg
	switch op.Name {
	case "streq", "contains", "beginsWith", "endsWith", "within", "strmatch", "eq", "ge", "gt", "le", "lt":
		arg = m.expand(arg)
	}
	switch op.Name {
	case "unconditionalMatch":
		res = true
	case "noMatch":
		res = false
	case "streq":
		res = v == arg
	case "contains", "strmatch":
		res = strings.Contains(v, arg)
	case "beginsWith":
		res = strings.HasPrefix(v, arg)
	case "endsWith":
		res = strings.HasSuffix(v, arg)
	case "within":
		res = strings.Contains(arg, v)
	case "eq", "ge", "gt", "le", "lt":
		a, ok1 := canonicalInt(arg)
		b, ok2 := canonicalInt(v)
		if !ok1 || !ok2 {
			m.amb("numeric operator on non-canonical integer")
			return false, nil
		}
		switch op.Name {
		case "eq":
			res = b == a
		case "ge":
			res = b >= a
		case "gt":
			res = b > a
		case "le":
			res = b <= a
		case "lt":
			res = b < a
		}
	case "rx":
		re, err := regexp.Compile("(?sm)" + arg) // dot matches newline; multiline is the documented default of this build
		if err != nil {
			m.amb("pattern does not compile")
			return false, nil
		}
		sm := re.FindStringSubmatch(v)
		res = sm != nil
		if res {
			captures = sm
		}
	case "pm":
		lv := asciiMap(v, false)
		for _, ph := range strings.Split(arg, " ") {
			if ph == "" {
				m.amb("empty @pm phrase")
				continue
			}
			if strings.Contains(lv, asciiMap(ph, false)) {
				res = true
			}
		}
	case "verifrec":
		tag, rest, _ := strings.Cut(arg, " ")
		pred, parg, _ := strings.Cut(rest, ":")
		if m.res.Seen == nil {
			m.res.Seen = map[string][]string{}
		}
		m.res.Seen[tag] = append(m.res.Seen[tag], v)
		switch pred {
		case "true":
			res = true
		case "contains":
			res = strings.Contains(v, parg)
		case "eq":
			res = v == parg
		case "nonempty":
			res = v != ""
		}
	default:
		m.amb("operator not modelled: " + op.Name)
	}
	if op.Neg {
		res = !res
		captures = nil
	}
	return
}

var reMacro = regexp.MustCompile(`%\{([A-Za-z0-9_\-\[\]]+)(?:\.([A-Za-z0-9_\-\[\].]+))?\}`)

// expand expands %{VAR} and %{VAR.key} against the current state. It sets m.readTaint when the
// text read a value that depends on the visiting order of a multi-valued collection.
func (m *model) expand(s string) string {
	if !strings.Contains(s, "%{") {
		return s
	}
	return reMacro.ReplaceAllStringFunc(s, func(tok string) string {
		sm := reMacro.FindStringSubmatch(tok)
		name, key := strings.ToUpper(sm[1]), strings.ToLower(sm[2])
		switch {
		case name == "RULE":
			if m.curTop != nil && key == "id" {
				return strconv.Itoa(m.curTop.ID)
			}
			m.amb("RULE macro other than id")
			return ""
		case name == "MATCHED_VAR" || name == "MATCHED_VAR_NAME":
			if m.mvarTaint {
				m.readTaint = true
			}
			if name == "MATCHED_VAR_NAME" && m.mvarNameUnpinned {
				m.amb("MATCHED_VAR_NAME derived from the key reported by a count")
			}
			return m.single(name)
		case singleCols[name]:
			return m.single(name)
		case keyedCols[name]:
			if name == "MATCHED_VARS_NAMES" || name == "MATCHED_VARS" {
				m.amb("macro over MATCHED_VARS(_NAMES)")
			}
			ents := m.entries(name)
			for _, kv := range ents {
				if strings.ToLower(kv.K) == key {
					if name == "TX" && m.txOrderDep[key] {
						m.readTaint = true
					}
					return kv.V
				}
			}
			if name == "TX" && len(key) <= 2 {
				// TX.0 .. TX.10 exist in every transaction (empty until a capture fills them)
				if n, err := strconv.Atoi(key); err == nil && n >= 0 && n <= 10 && strconv.Itoa(n) == key {
					return ""
				}
			}
			m.amb("macro names an undefined key: " + tok)
			return ""
		}
		m.amb("macro variable not modelled: " + tok)
		return ""
	})
}

func (m *model) setvar(sv Setvar) {
	m.readTaint = false
	key := strings.ToLower(m.expand(sv.Key))
	if m.readTaint {
		m.amb("setvar key built from an order-dependent value")
	}
	m.readTaint = false
	val := m.expand(sv.Val)
	valTaint := m.readTaint
	switch sv.Kind {
	case "!":
		delete(m.tx, key)
		delete(m.txOrderDep, key)
		if m.lvlAssign[key] == nil {
			m.lvlAssign[key] = map[string]bool{}
		}
		m.lvlAssign[key]["\x00deleted"] = true
	case "flag":
		// setvar:tx.key without a value sets the flag to 1 (documented)
		m.tx[key] = "1"
		delete(m.txOrderDep, key)
		if m.lvlAssign[key] == nil {
			m.lvlAssign[key] = map[string]bool{}
		}
		m.lvlAssign[key]["=1"] = true
	case "=":
		if val == "" && sv.Val == "" {
			m.amb("setvar assigns an empty literal")
		}
		if len(val) > 0 && (val[0] == '+' || val[0] == '-') {
			m.amb("setvar assigns a value starting with a sign")
		}
		m.tx[key] = val
		if valTaint {
			m.txOrderDep[key] = true
		} else {
			delete(m.txOrderDep, key)
		}
		if m.lvlAssign[key] == nil {
			m.lvlAssign[key] = map[string]bool{}
		}
		m.lvlAssign[key]["="+val] = true
	case "+", "-":
		n, ok := canonicalInt(val)
		if !ok {
			m.amb("setvar arithmetic with a non-integer operand")
			return
		}
		cur := 0
		if c, ok := m.tx[key]; ok && c != "" {
			ci, ok2 := canonicalInt(c)
			if !ok2 {
				m.amb("setvar arithmetic on a non-integer current value")
				return
			}
			cur = ci
		}
		if sv.Kind == "+" {
			m.tx[key] = strconv.Itoa(cur + n)
		} else {
			m.tx[key] = strconv.Itoa(cur - n)
		}
		if valTaint {
			m.txOrderDep[key] = true
		}
		if m.lvlAssign[key] == nil {
			m.lvlAssign[key] = map[string]bool{}
		}
		m.lvlAssign[key]["\x00arith"] = true
	}
}

// evalLevel evaluates one rule or chain link; returns its matches.
func (m *model) evalLevel(r *Rule) []Triple {
	m.cur = r
	m.lvlAssign = map[string]map[string]bool{}
	var matches []Triple
	startTaint := m.mvarTaint
	onMatch := func(t Triple, caps []string) {
		matches = append(matches, t)
		if r.Op != nil {
			m.mvarNameUnpinned = t.Count && t.Key != ""
			if m.mvarNameUnpinned {
				m.mvarsNamesUnpinned = true
			}
		}
		// MATCHED_* bookkeeping
		name := t.Var
		if t.Key != "" {
			name = t.Var + ":" + t.Key
		}
		if r.Op != nil {
			m.mvars = append(m.mvars, KV{name, t.Val})
			m.mvar = t.Val
			m.mvarName = name
			m.mvarTaint = false // precise during the per-match actions
		}
		if r.Capture && caps != nil {
			for i := 0; i < 10; i++ {
				if i < len(caps) {
					m.tx[strconv.Itoa(i)] = caps[i]
				}
			}
		}
		for _, sv := range r.Setvars {
			m.setvar(sv)
		}
		for _, c := range r.Ctl {
			if v, ok := strings.CutPrefix(c, "ruleEngine="); ok {
				m.engine = v
			} else {
				m.amb("ctl not modelled: " + c)
			}
		}
	}
	if r.Op == nil {
		onMatch(Triple{}, nil)
	} else {
		var excl []Sel
		for _, s := range r.Targets {
			if s.Excl {
				excl = append(excl, s)
			}
		}
		for _, s := range r.Targets {
			if s.Excl {
				continue
			}
			if s.Var == "TX" {
				for k := range m.txOrderDep {
					if s.Kind == 0 || (s.Kind == 1 && strings.EqualFold(k, s.Key)) || s.Kind == 2 {
						m.amb("rule tests an order-dependent TX value")
					}
				}
			}
			if s.Var == "MATCHED_VAR" || s.Var == "MATCHED_VAR_NAME" {
				// precise only if it still holds the single last match of an earlier level, or the
				// single match this level produced so far
				if (len(matches) == 0 && startTaint) || len(matches) > 1 {
					m.amb("rule tests an order-dependent MATCHED_VAR")
				}
			}
			if (s.Var == "MATCHED_VAR_NAME" && m.mvarNameUnpinned) || ((s.Var == "MATCHED_VARS_NAMES" || s.Var == "MATCHED_VARS") && m.mvarsNamesUnpinned) {
				m.amb("rule tests a name derived from the key reported by a count")
			}
			for _, t := range m.selectValues(s, excl) {
				for _, v := range m.variants(r, t.Val) {
					ok, caps := m.evalOp(r.Op, v)
					if ok {
						onMatch(Triple{Var: t.Var, Key: t.Key, Val: v, Count: t.Count}, caps)
					}
				}
			}
		}
	}
	if len(matches) > 1 {
		if r.Op != nil {
			m.mvarTaint = true
		}
		for k, vals := range m.lvlAssign {
			if len(vals) > 1 {
				m.txOrderDep[k] = true
			}
		}
		if r.Capture {
			for i := 0; i < 10; i++ {
				m.txOrderDep[strconv.Itoa(i)] = true
			}
		}
	}
	return matches
}

func (m *model) defaultFor(phase int) *DefaultAction {
	for i := range m.p.Defaults {
		if m.p.Defaults[i].Phase == phase {
			return &m.p.Defaults[i]
		}
	}
	return nil
}

// effective disruptive action of a starter rule after SecDefaultAction inheritance.
func (m *model) disruptive(r *Rule) (action string, status int, redirect string) {
	action, status, redirect = r.Disruptive, r.Status, r.Redirect
	d := m.defaultFor(r.Phase)
	if d != nil && status == 0 {
		status = d.Status
	}
	if action == "" || action == "block" {
		if d != nil {
			action = d.Disruptive
			redirect = d.Redirect
		} else {
			action = "pass"
		}
	}
	return
}

// evalRule evaluates a top-level rule (with its chain); returns whether it fired.
func (m *model) evalRule(r *Rule, phase int) {
	m.curTop = r
	m.mvars = nil
	m.mvarsNamesUnpinned = false
	m.res.Evaluated[phase] = append(m.res.Evaluated[phase], r.ID)
	var all []Triple
	single := true
	mm := false
	for lvl := r; lvl != nil; lvl = lvl.Chain {
		ms := m.evalLevel(lvl)
		if len(ms) == 0 {
			return
		}
		if len(ms) != 1 {
			single = false
		}
		_ = lvl.MultiMatch
		if lvl.Op != nil {
			all = append(all, ms...)
		} else {
			all = append(all, Triple{})
		}
	}
	f := Fired{ID: r.ID, Phase: phase, Matches: all, Single: single, MM: mm}
	if r.Msg != "" {
		f.Msg = m.expand(r.Msg)
	}
	if r.LogData != "" {
		f.Data = m.expand(r.LogData)
	}
	// disruptive and flow actions of the starter, once
	action, status, redirect := m.disruptive(r)
	switch action {
	case "deny":
		if status == 0 {
			status = 403
		}
		m.interrupt(&Intr{RuleID: r.ID, Action: "deny", Status: status}, phase)
	case "drop":
		m.interrupt(&Intr{RuleID: r.ID, Action: "drop", Status: status}, phase)
	case "redirect":
		st := 302
		if status == 301 || status == 302 || status == 303 || status == 307 {
			st = status
		}
		m.interrupt(&Intr{RuleID: r.ID, Action: "redirect", Status: st, Data: redirect}, phase)
	case "allow", "allow:request":
		if phase == 5 {
			// "ends rule processing for the remaining phases except logging" executed inside the logging phase:
			// whether the rest of the logging phase still runs is not pinned
			m.amb("allow / allow:request executed inside the logging phase")
		}
	}
	switch action {
	case "allow":
		if m.engine == "On" {
			m.allow = 3
		}
	case "allow:phase":
		if m.engine == "On" {
			m.allow = 1
		}
	case "allow:request":
		if m.engine == "On" {
			m.allow = 2
		}
	}
	if r.Skip > 0 {
		m.skip = r.Skip
	}
	if r.SkipAfter != "" {
		m.skipAfter = r.SkipAfter
	}
	if r.Severity >= 0 && r.Severity < m.res.HS {
		m.res.HS = r.Severity
	}
	m.res.Fired = append(m.res.Fired, f)
}

func (m *model) interrupt(i *Intr, phase int) {
	switch m.engine {
	case "On":
		if m.res.Intr == nil {
			m.res.Intr = i
			m.res.IntrPhase = phase
		}
	case "DetectionOnly":
		if m.res.Would == nil {
			m.res.Would = i
		}
	}
}

// runPhase evaluates the rules of one phase.
func (m *model) runPhase(phase int) {
	for _, it := range m.p.Items {
		if m.res.Intr != nil && phase != 5 {
			break
		}
		if it.Marker != "" {
			if m.skipAfter != "" {
				if m.skipAfter == it.Marker {
					m.skipAfter = ""
				}
				continue
			}
			if m.skip > 0 {
				m.amb("marker inside a skip window")
				m.skip--
			}
			continue
		}
		if it.Rule == nil || it.Rule.Phase != phase {
			continue
		}
		if m.skipAfter != "" {
			continue
		}
		if m.skip > 0 {
			m.skip--
			continue
		}
		if m.allow == 1 {
			// allow:phase ends the current phase, whichever it is
			break
		}
		if phase != 5 {
			if m.allow == 3 {
				break
			}
			if m.allow == 2 && (phase == 1 || phase == 2) {
				break
			}
		}
		m.evalRule(it.Rule, phase)
	}
	// nothing of skip / skipAfter survives the end of the phase; allow:phase ends with the phase,
	// allow:request with the request phases
	m.skip = 0
	m.skipAfter = ""
	if m.allow == 1 {
		m.allow = 0
	}
	if m.allow == 2 && phase >= 2 {
		m.allow = 0
	}
}

// Run interprets the program on the request through the standard call sequence
// (phases 1,2,3,4,5 in order, each once).
func Run(p *Program, req *Req) *Result {
	return RunPhases(p, req, []int{1, 2, 3, 4, 5})
}

// RunPhases interprets the program for an in-order subset of the phase calls (strictly increasing).
func RunPhases(p *Program, req *Req, phases []int) *Result {
	m := newModel(p, req)
	for _, phase := range phases {
		if phase >= 3 && m.singles["RESPONSE_STATUS"] == "" {
			m.cols["RESPONSE_HEADERS"] = req.RespHeaders
			m.singles["RESPONSE_STATUS"] = strconv.Itoa(req.Status)
		}
		if m.res.Intr != nil && phase != 5 {
			continue
		}
		if m.engine == "Off" {
			continue
		}
		if phase == 2 && req.RawBody != "" {
			// the body is parsed when the request-body phase is reached (whether or not an allow lets its rules run)
			for _, pair := range strings.Split(req.RawBody, "&") {
				k, v, _ := strings.Cut(pair, "=")
				m.cols["ARGS_POST"] = append(m.cols["ARGS_POST"], KV{k, v})
			}
		}
		m.runPhase(phase)
	}
	return m.finish()
}

func newModel(p *Program, req *Req) *model {
	m := &model{p: p, req: req, res: &Result{HS: 255}, engine: p.Engine, cols: map[string][]KV{}, singles: map[string]string{},
		tx: map[string]string{}, txOrderDep: map[string]bool{}}
	if m.engine == "" {
		m.engine = "On"
	}
	var qargs []KV
	if req.RawQuery != "" {
		for _, pair := range strings.Split(req.RawQuery, "&") {
			k, v, _ := strings.Cut(pair, "=")
			qargs = append(qargs, KV{k, v})
		}
	}
	m.cols["ARGS_GET"] = append(qargs, req.Get...)
	m.cols["ARGS_POST"] = req.Post
	var hdrs, cookies []KV
	for _, h := range req.Headers {
		hdrs = append(hdrs, h)
		if strings.EqualFold(h.K, "cookie") {
			for _, part := range strings.Split(h.V, ";") {
				part = strings.TrimSpace(part)
				if part == "" {
					continue
				}
				k, v, _ := strings.Cut(part, "=")
				k = strings.TrimSpace(k)
				if k == "" {
					continue
				}
				cookies = append(cookies, KV{k, v})
			}
		}
	}
	m.cols["REQUEST_HEADERS"] = hdrs
	m.cols["REQUEST_COOKIES"] = cookies
	m.singles["REQUEST_METHOD"] = req.Method
	uri := req.Path
	if req.RawQuery != "" {
		uri += "?" + req.RawQuery
	}
	m.singles["REQUEST_URI"] = uri
	m.singles["REQUEST_URI_RAW"] = uri
	m.singles["REQUEST_FILENAME"] = req.Path
	base := req.Path
	if i := strings.LastIndexAny(req.Path, "/\\"); i >= 0 && len(req.Path) > i+1 {
		base = req.Path[i+1:]
	}
	m.singles["REQUEST_BASENAME"] = base
	m.singles["REQUEST_PROTOCOL"] = "HTTP/1.1"
	m.singles["REQUEST_LINE"] = req.Method + " " + uri + " HTTP/1.1"
	m.singles["QUERY_STRING"] = req.RawQuery
	return m
}

func (m *model) finish() *Result {
	m.res.TX = map[string]string{}
	for k, v := range m.tx {
		m.res.TX[k] = v
	}
	m.res.TXOrderDep = m.txOrderDep
	return m.res
}
