// Package sl holds the structured SecLang sub-language used by the generators, its renderer to
// directive text, an independent reference interpreter (model.go) and the executor that drives
// the real library with the same structured input (exec.go).
package sl

import (
	"encoding/hex"
	"encoding/json"
	"fmt"
	"strconv"
	"strings"
	"unicode/utf8"
)

type KV struct {
	K string
	V string
}

// KV marshals byte-exactly: valid UTF-8 as text, anything else hex-encoded.
func (kv KV) MarshalJSON() ([]byte, error) {
	if utf8.ValidString(kv.K) && utf8.ValidString(kv.V) {
		return json.Marshal(map[string]string{"k": kv.K, "v": kv.V})
	}
	return json.Marshal(map[string]string{"kx": hex.EncodeToString([]byte(kv.K)), "vx": hex.EncodeToString([]byte(kv.V))})
}

func (kv *KV) UnmarshalJSON(b []byte) error {
	var m map[string]string
	if err := json.Unmarshal(b, &m); err != nil {
		return err
	}
	if _, ok := m["kx"]; ok {
		k, _ := hex.DecodeString(m["kx"])
		v, _ := hex.DecodeString(m["vx"])
		kv.K, kv.V = string(k), string(v)
		return nil
	}
	kv.K, kv.V = m["k"], m["v"]
	return nil
}

// Sel is one element of a rule's target list.
type Sel struct {
	Var   string `json:"var"`
	Kind  int    `json:"kind,omitempty"` // 0 whole collection, 1 string key, 2 regex key
	Key   string `json:"key,omitempty"`
	Count bool   `json:"count,omitempty"`
	Excl  bool   `json:"excl,omitempty"`
}

func (s Sel) Render() string {
	var sb strings.Builder
	if s.Excl {
		sb.WriteByte('!')
	}
	if s.Count {
		sb.WriteByte('&')
	}
	sb.WriteString(s.Var)
	switch s.Kind {
	case 1:
		sb.WriteString(":" + s.Key)
	case 2:
		sb.WriteString(":/" + s.Key + "/")
	}
	return sb.String()
}

type Op struct {
	Neg  bool   `json:"neg,omitempty"`
	Name string `json:"name"`
	Arg  string `json:"arg"`
}

// Setvar is one setvar action: Kind "=" assign, "+" add, "-" subtract, "!" delete, "" bare (set to "1"? not generated).
type Setvar struct {
	Key  string `json:"key"` // without "tx." prefix; may contain macros
	Kind string `json:"kind"`
	Val  string `json:"val,omitempty"` // may contain macros
}

type Rule struct {
	ID         int      `json:"id,omitempty"`
	Phase      int      `json:"phase,omitempty"`
	Targets    []Sel    `json:"targets,omitempty"`
	Op         *Op      `json:"op,omitempty"` // nil = SecAction
	Trans      []string `json:"trans,omitempty"`
	MultiMatch bool     `json:"multimatch,omitempty"`
	Capture    bool     `json:"capture,omitempty"`
	// Disruptive: "", "deny", "drop", "redirect", "block", "pass", "allow", "allow:phase", "allow:request"
	Disruptive string `json:"disruptive,omitempty"`
	// Overridden: a disruptive action written earlier in the same action list; only the last disruptive action of
	// a list takes effect, so it changes nothing (and must not lend its argument to the one that replaces it)
	Overridden string   `json:"overridden,omitempty"`
	Status     int      `json:"status,omitempty"`
	StatusLast bool     `json:"status_last,omitempty"` // render status: after the disruptive action instead of before it
	Redirect   string   `json:"redirect,omitempty"`
	Skip       int      `json:"skip,omitempty"`
	SkipAfter  string   `json:"skipafter,omitempty"`
	Setvars    []Setvar `json:"setvars,omitempty"`
	Severity   int      `json:"severity"` // -1 unset
	Msg        string   `json:"msg,omitempty"`
	LogData    string   `json:"logdata,omitempty"`
	LogFlags   []string `json:"logflags,omitempty"` // log nolog auditlog noauditlog in order
	Ctl        []string `json:"ctl,omitempty"`      // raw "ctl:..." values
	Tags       []string `json:"tags,omitempty"`
	Extra      []string `json:"extra,omitempty"` // raw extra actions appended verbatim
	Chain      *Rule    `json:"chain,omitempty"`
}

type Item struct {
	Rule   *Rule  `json:"rule,omitempty"`
	Marker string `json:"marker,omitempty"`
	Raw    string `json:"raw,omitempty"` // verbatim directive line(s)
}

type DefaultAction struct {
	Phase      int    `json:"phase"`
	Disruptive string `json:"disruptive"` // deny | drop | pass | redirect
	Status     int    `json:"status,omitempty"`
	Redirect   string `json:"redirect,omitempty"`
}

type Program struct {
	Engine   string          `json:"engine"` // On | DetectionOnly | Off
	Defaults []DefaultAction `json:"defaults,omitempty"`
	Header   []string        `json:"header,omitempty"` // verbatim directives placed first
	Items    []Item          `json:"items"`
}

func quoteAct(v string) string {
	// action values are single-quoted when they contain separators
	if strings.ContainsAny(v, ",: '") {
		return "'" + strings.ReplaceAll(v, "'", `\'`) + "'"
	}
	return v
}

func (r *Rule) actions(isLink bool) string {
	var a []string
	if !isLink {
		a = append(a, "id:"+strconv.Itoa(r.ID), "phase:"+strconv.Itoa(r.Phase))
	}
	for _, t := range r.Trans {
		a = append(a, "t:"+t)
	}
	if r.MultiMatch {
		a = append(a, "multiMatch")
	}
	if r.Capture {
		a = append(a, "capture")
	}
	a = append(a, r.LogFlags...)
	if r.Severity >= 0 {
		a = append(a, "severity:"+strconv.Itoa(r.Severity))
	}
	if r.Msg != "" {
		a = append(a, "msg:"+quoteAct(r.Msg))
	}
	if r.LogData != "" {
		a = append(a, "logdata:"+quoteAct(r.LogData))
	}
	for _, t := range r.Tags {
		a = append(a, "tag:"+quoteAct(t))
	}
	for _, sv := range r.Setvars {
		switch sv.Kind {
		case "=":
			a = append(a, "setvar:"+quoteAct("tx."+sv.Key+"="+sv.Val))
		case "+":
			a = append(a, "setvar:"+quoteAct("tx."+sv.Key+"=+"+sv.Val))
		case "-":
			a = append(a, "setvar:"+quoteAct("tx."+sv.Key+"=-"+sv.Val))
		case "!":
			a = append(a, "setvar:"+quoteAct("!tx."+sv.Key))
		case "flag":
			a = append(a, "setvar:"+quoteAct("tx."+sv.Key))
		}
	}
	for _, c := range r.Ctl {
		a = append(a, "ctl:"+c)
	}
	if r.Status != 0 && !r.StatusLast {
		a = append(a, "status:"+strconv.Itoa(r.Status))
	}
	if r.Overridden != "" && r.Disruptive != "" {
		a = append(a, r.Overridden)
	}
	switch r.Disruptive {
	case "":
	case "redirect":
		a = append(a, "redirect:"+r.Redirect)
	default:
		a = append(a, r.Disruptive)
	}
	if r.Status != 0 && r.StatusLast {
		// the order of the actions inside a rule carries no meaning
		a = append(a, "status:"+strconv.Itoa(r.Status))
	}
	if r.Skip > 0 {
		a = append(a, "skip:"+strconv.Itoa(r.Skip))
	}
	if r.SkipAfter != "" {
		a = append(a, "skipAfter:"+r.SkipAfter)
	}
	a = append(a, r.Extra...)
	if r.Chain != nil {
		a = append(a, "chain")
	}
	return strings.Join(a, ",")
}

// escOp escapes an operator string: `\"` is the only escape the SecLang quoted-string reader knows.
// (A literal backslash followed by a quote, or a trailing backslash, cannot be represented and is not generated.)
func escOp(s string) string {
	return strings.ReplaceAll(s, `"`, `\"`)
}

func (r *Rule) render(sb *strings.Builder, isLink bool) {
	acts := r.actions(isLink)
	indent := ""
	if isLink {
		indent = "  "
	}
	if r.Op == nil {
		fmt.Fprintf(sb, "%sSecAction \"%s\"\n", indent, acts)
	} else {
		var ts []string
		for _, t := range r.Targets {
			ts = append(ts, t.Render())
		}
		op := "@" + r.Op.Name
		if r.Op.Neg {
			op = "!" + op
		}
		if r.Op.Arg != "" {
			op += " " + r.Op.Arg
		}
		if acts == "" {
			fmt.Fprintf(sb, "%sSecRule %s \"%s\"\n", indent, strings.Join(ts, "|"), escOp(op))
		} else {
			fmt.Fprintf(sb, "%sSecRule %s \"%s\" \"%s\"\n", indent, strings.Join(ts, "|"), escOp(op), acts)
		}
	}
	if r.Chain != nil {
		r.Chain.render(sb, true)
	}
}

// Render produces directive text.
func (p *Program) Render() string {
	var sb strings.Builder
	eng := p.Engine
	if eng == "" {
		eng = "On"
	}
	fmt.Fprintf(&sb, "SecRuleEngine %s\n", eng)
	for _, h := range p.Header {
		sb.WriteString(h + "\n")
	}
	for _, d := range p.Defaults {
		acts := []string{"phase:" + strconv.Itoa(d.Phase)}
		if d.Status != 0 {
			acts = append(acts, "status:"+strconv.Itoa(d.Status))
		}
		if d.Disruptive == "redirect" {
			acts = append(acts, "redirect:"+d.Redirect)
		} else {
			acts = append(acts, d.Disruptive)
		}
		fmt.Fprintf(&sb, "SecDefaultAction \"%s\"\n", strings.Join(acts, ","))
	}
	for _, it := range p.Items {
		switch {
		case it.Rule != nil:
			it.Rule.render(&sb, false)
		case it.Marker != "":
			fmt.Fprintf(&sb, "SecMarker %s\n", it.Marker)
		case it.Raw != "":
			sb.WriteString(it.Raw + "\n")
		}
	}
	return sb.String()
}

// Req is a structured request/response fed both to the model and to the real library.
type Req struct {
	Method string `json:"method"`
	Path   string `json:"path"`
	// RawQuery is appended to the URI ("?"+RawQuery). It must consist of plain name=value pairs of
	// unreserved characters joined by '&' (no escapes), so that its decoding is not in question; the
	// library itself extracts these arguments into ARGS_GET (before the ones listed in Get).
	RawQuery string `json:"raw_query,omitempty"`
	// RawBody is sent as an application/x-www-form-urlencoded request body (plain name=value pairs of unreserved
	// characters joined by '&'); the program must switch SecRequestBodyAccess On. The library parses it into ARGS_POST
	// when the request-body phase is reached (after the ones listed in Post, which are added up front).
	RawBody     string `json:"raw_body,omitempty"`
	Get         []KV   `json:"get,omitempty"`
	Post        []KV   `json:"post,omitempty"`
	Headers     []KV   `json:"headers,omitempty"`
	Status      int    `json:"status,omitempty"`
	RespHeaders []KV   `json:"resp_headers,omitempty"`
	// SkipCalls lists phase calls to omit (1..5); used by call-sequence checks.
}
