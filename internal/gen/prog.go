package gen

import (
	"fmt"
	"strings"

	"verif/internal/sl"
)

var KeyedVars = []string{"ARGS", "ARGS_GET", "ARGS_POST", "ARGS_NAMES", "ARGS_GET_NAMES", "ARGS_POST_NAMES", "REQUEST_HEADERS", "REQUEST_HEADERS_NAMES", "REQUEST_COOKIES", "REQUEST_COOKIES_NAMES"}
var RespKeyedVars = []string{"RESPONSE_HEADERS", "RESPONSE_HEADERS_NAMES"}
var SingleVars = []string{"REQUEST_METHOD", "REQUEST_URI", "REQUEST_FILENAME", "REQUEST_URI_RAW", "REQUEST_BASENAME", "QUERY_STRING"}

var rxKeys = []string{"^a", "^[ab]$", "b$", "^x", "o+", "^id$", ".", "^foo$", "^.$", "[0-9]", "^x-", "a|b", "^$"}
var rxKeysUpper = []string{"^A", "^Foo$", "^ID$", "^X-A$", "B$"}

func poolFor(v string) []string {
	switch {
	case strings.Contains(v, "HEADERS"):
		return HeaderNames
	case strings.Contains(v, "COOKIES"):
		return CookieNames
	}
	return NamePool
}

func nonEmptyName(r R, pool []string) string {
	for {
		n := Pick(r, pool)
		if n != "" && !strings.ContainsAny(n, " |") {
			return n
		}
	}
}

// Selector draws a positive selector.
func Selector(r R, phase int, link bool, txKeys []string) sl.Sel {
	vars := append([]string{}, KeyedVars...)
	if phase >= 3 {
		vars = append(vars, RespKeyedVars...)
	}
	switch x := r.IntN(20); {
	case x < 1 && !link:
		return sl.Sel{Var: "ARGS_COMBINED_SIZE"}
	case x < 2:
		s := sl.Sel{Var: Pick(r, SingleVars)}
		if phase >= 3 && Chance(r, 0.3) {
			s.Var = "RESPONSE_STATUS"
		}
		return s
	case x < 4 && len(txKeys) > 0:
		return sl.Sel{Var: "TX", Kind: 1, Key: mixCase(r, Pick(r, txKeys)), Count: Chance(r, 0.3)}
	case x < 7 && link:
		return sl.Sel{Var: Pick(r, []string{"MATCHED_VAR", "MATCHED_VAR_NAME", "MATCHED_VARS", "MATCHED_VARS_NAMES"})}
	}
	s := sl.Sel{Var: Pick(r, vars)}
	switch r.IntN(10) {
	case 0, 1, 2, 3:
	case 4, 5, 6:
		s.Kind, s.Key = 1, nonEmptyName(r, poolFor(s.Var))
	default:
		s.Kind = 2
		if Chance(r, 0.2) {
			s.Key = Pick(r, rxKeysUpper)
		} else {
			s.Key = Pick(r, rxKeys)
		}
	}
	s.Count = Chance(r, 0.15)
	return s
}

func mixCase(r R, s string) string {
	b := []byte(s)
	for i, c := range b {
		if c >= 'a' && c <= 'z' && Chance(r, 0.3) {
			b[i] = c - 32
		}
	}
	return string(b)
}

// Exclusion draws an exclusion for one of the given positive selectors (keyed collections only).
func Exclusion(r R, pos []sl.Sel) (sl.Sel, bool) {
	var cands []sl.Sel
	for _, p := range pos {
		if p.Var != "TX" && !strings.HasPrefix(p.Var, "MATCHED") && !isSingle(p.Var) {
			cands = append(cands, p)
		}
	}
	if len(cands) == 0 {
		return sl.Sel{}, false
	}
	p := Pick(r, cands)
	e := sl.Sel{Var: p.Var, Excl: true}
	switch r.IntN(10) {
	case 0:
	case 1, 2, 3, 4, 5:
		e.Kind, e.Key = 1, nonEmptyName(r, poolFor(p.Var))
	default:
		e.Kind, e.Key = 2, Pick(r, rxKeys)
	}
	return e, true
}

func isSingle(v string) bool {
	for _, s := range SingleVars {
		if s == v {
			return true
		}
	}
	return v == "RESPONSE_STATUS" || v == "MATCHED_VAR" || v == "MATCHED_VAR_NAME" || v == "ARGS_COMBINED_SIZE"
}

var ModelTrans = []string{"lowercase", "uppercase", "trim", "length", "removeNulls", "hexEncode", "none", "base64Encode", "md5", "sha1", "trimLeft", "trimRight", "hexDecode"}

func Trans(r R, max int) []string {
	n := 0
	switch x := r.IntN(10); {
	case x < 4:
		n = 0
	case x < 7:
		n = 1
	default:
		n = 1 + r.IntN(max)
	}
	var out []string
	for i := 0; i < n; i++ {
		out = append(out, Pick(r, ModelTrans))
	}
	return out
}

var rxPats = []string{"a", "^a", "b$", "^$", "[0-9]+", "(?i)foo", "a.b", "^.{2,}$", "(a|b)c", "^[A-Z]+$", "o{2}", "^\\s", "\\x00", "^3[0-9]$"}

// Operator draws a modelled operator with an argument likely to match something.
func Operator(r R, tag string, sels []sl.Sel) *sl.Op {
	op := &sl.Op{Neg: Chance(r, 0.25)}
	numeric := len(sels) > 0
	for _, s := range sels {
		if !s.Count && s.Var != "ARGS_COMBINED_SIZE" {
			numeric = false
		}
	}
	if numeric {
		op.Name = Pick(r, []string{"eq", "ge", "gt", "le", "lt"})
		op.Arg = Pick(r, []string{"0", "1", "2", "3"})
		for _, s := range sels {
			if s.Var == "ARGS_COMBINED_SIZE" {
				op.Arg = Pick(r, []string{"0", "4", "8", "12", "20", "40"})
			}
		}
		return op
	}
	switch r.IntN(13) {
	case 0:
		op.Name, op.Arg = "streq", Pick(r, []string{"a", "foo", "ab", "1", "A", "GET", "/p"})
	case 1, 2:
		op.Name, op.Arg = "contains", Pick(r, []string{"a", "o", "ab", "A", "1", "tt", "00", "61"})
	case 3:
		op.Name, op.Arg = "beginsWith", Pick(r, []string{"a", "f", "A", "/", "x", "6"})
	case 4:
		op.Name, op.Arg = "endsWith", Pick(r, []string{"a", "b", "o", "c", "1", "K"})
	case 5:
		op.Name, op.Arg = "within", Pick(r, []string{"a b ab foo", "GET POST", "abc ABC 10", "x1 id a-b"})
	case 6, 7:
		op.Name, op.Arg = "rx", Pick(r, rxPats)
	case 8:
		op.Name, op.Arg = "pm", Pick(r, []string{"foo bar", "a", "ab x1", "attack select", "A b"})
	case 9:
		op.Name, op.Arg = "unconditionalMatch", ""
	case 10, 11:
		op.Name = "verifrec"
		op.Arg = tag + " " + Pick(r, []string{"true", "contains:a", "eq:foo", "nonempty", "contains:6"})
	default:
		op.Name, op.Arg = "streq", "%{tx.s1}"
	}
	return op
}

// MatchRule draws a rule (starter or link) of the matching sub-language.
func MatchRule(r R, id, phase int, link bool, tag string, txKeys []string) *sl.Rule {
	rule := &sl.Rule{ID: id, Phase: phase, Severity: -1}
	n := 1 + r.IntN(3)
	if Chance(r, 0.5) {
		n = 1
	}
	for i := 0; i < n; i++ {
		rule.Targets = append(rule.Targets, Selector(r, phase, link, txKeys))
	}
	ne := 0
	if Chance(r, 0.4) {
		ne = 1 + r.IntN(2)
	}
	pos := append([]sl.Sel{}, rule.Targets...)
	for i := 0; i < ne; i++ {
		if e, ok := Exclusion(r, pos); ok {
			rule.Targets = append(rule.Targets, e)
		}
	}
	rule.Trans = Trans(r, 3)
	rule.MultiMatch = Chance(r, 0.15)
	rule.Op = Operator(r, tag, pos)
	return rule
}

// MatchProgram draws a rule set of the matching sub-language (no disruptive or flow actions).
func MatchProgram(r R) *sl.Program {
	p := &sl.Program{Engine: "On"}
	txKeys := []string{"s1", "s2", "n1"}
	p.Items = append(p.Items, sl.Item{Rule: &sl.Rule{ID: 1, Phase: 1, Severity: -1, Setvars: []sl.Setvar{
		{Key: "s1", Kind: "=", Val: Pick(r, []string{"foo", "a", "ab", "GET"})},
		{Key: "S2", Kind: "=", Val: Pick(r, []string{"bar", "A", "1"})},
		{Key: "n1", Kind: "=", Val: Pick(r, []string{"0", "1", "2"})}}}})
	n := 3 + r.IntN(6)
	for i := 0; i < n; i++ {
		id := 100 + i*10
		phase := 1 + r.IntN(5)
		rule := MatchRule(r, id, phase, false, fmt.Sprintf("t%d", id), txKeys)
		if Chance(r, 0.3) {
			cur := rule
			links := 1 + r.IntN(3)
			for l := 1; l <= links; l++ {
				cur.Chain = MatchRule(r, 0, phase, true, fmt.Sprintf("t%d_%d", id, l), txKeys)
				cur = cur.Chain
			}
		}
		p.Items = append(p.Items, sl.Item{Rule: rule})
	}
	return p
}
