package gen

import (
	"fmt"

	"verif/internal/sl"
)

var actNames = []string{"k1", "k2", "K1", "k3", "other"}
var actValues = []string{"v1", "v22", "V1", "x", "v333", "w7", "", "v1", "v010", "v08"}

// ActionRequest draws a request with 0..k matching values per rule.
func ActionRequest(r R) *sl.Req {
	req := &sl.Req{Method: "POST", Path: "/act", Status: 200}
	n := r.IntN(7)
	for i := 0; i < n; i++ {
		req.Get = append(req.Get, sl.KV{K: Pick(r, actNames), V: Pick(r, actValues)})
	}
	n = r.IntN(4)
	for i := 0; i < n; i++ {
		req.Post = append(req.Post, sl.KV{K: Pick(r, actNames), V: Pick(r, actValues)})
	}
	if Chance(r, 0.5) {
		req.Headers = append(req.Headers, sl.KV{K: "X-A", V: Pick(r, actValues)})
	}
	for i := r.IntN(3); i > 0; i-- {
		req.Get = append(req.Get, sl.KV{K: "qty", V: Pick(r, []string{"7", "010", "08", "0100", "019", "-3", "-010", "12", "0", "00"})})
	}
	return req
}

func actTargets(r R) []sl.Sel {
	switch r.IntN(7) {
	case 0:
		// "^k" against a name sent as "K1" is read differently by the two case readings (not judged): mostly avoid it
		return []sl.Sel{{Var: "ARGS_GET", Kind: 2, Key: Pick(r, []string{"^[kK]", "^[kK]", "^[kK]1", "^k"})}}
	case 1:
		return []sl.Sel{{Var: "ARGS_GET", Kind: 1, Key: Pick(r, []string{"k1", "k2", "K1"})}}
	case 2:
		return []sl.Sel{{Var: "ARGS_GET"}, {Var: "ARGS_POST"}}
	case 3:
		return []sl.Sel{{Var: "ARGS"}}
	case 4:
		return []sl.Sel{{Var: "ARGS_NAMES"}}
	case 5:
		return []sl.Sel{{Var: "ARGS"}, {Var: "ARGS", Kind: 1, Key: "k2", Excl: true}}
	default:
		return []sl.Sel{{Var: "REQUEST_HEADERS", Kind: 1, Key: "X-A"}, {Var: "ARGS_POST", Kind: 1, Key: "k1"}}
	}
}

func actOp(r R, capture bool) *sl.Op {
	if capture {
		return &sl.Op{Name: "rx", Arg: Pick(r, []string{"^(v)([0-9]+)", "(?i)^(v)(\\d)", "^(k|K)(\\d)$", "^([a-z])", "^(v|w)([0-9]+)?", "^(x)?(v)?"})}
	}
	switch r.IntN(5) {
	case 0:
		return &sl.Op{Name: "rx", Arg: "^v"}
	case 1:
		return &sl.Op{Name: "contains", Arg: Pick(r, []string{"v", "1", "k"})}
	case 2:
		return &sl.Op{Name: "beginsWith", Arg: Pick(r, []string{"v", "k", "V"})}
	case 3:
		return &sl.Op{Name: "unconditionalMatch"}
	default:
		return &sl.Op{Name: "streq", Arg: "v1", Neg: Chance(r, 0.3)}
	}
}

func actSetvars(r R, id int, capture bool) []sl.Setvar {
	var out []sl.Setvar
	n := 1 + r.IntN(3)
	for i := 0; i < n; i++ {
		switch r.IntN(10) {
		case 0, 1, 2:
			out = append(out, sl.Setvar{Key: Pick(r, []string{"score", "Score", "inbound"}), Kind: "+", Val: Pick(r, []string{"1", "2", "5", "%{tx.crit}"})})
		case 3:
			// the operand may itself be a counter that went below zero
			out = append(out, sl.Setvar{Key: Pick(r, []string{"score", "debt"}), Kind: Pick(r, []string{"-", "-", "+"}), Val: Pick(r, []string{"1", "3", "7", "%{tx.score}", "%{tx.debt}"})})
		case 4:
			out = append(out, sl.Setvar{Key: fmt.Sprintf("f%d", id), Kind: "=", Val: Pick(r, []string{"on", "%{RULE.id}", "x%{tx.crit}y"})})
		case 5:
			out = append(out, sl.Setvar{Key: "last", Kind: "=", Val: "%{MATCHED_VAR}"})
		case 6:
			out = append(out, sl.Setvar{Key: "seen_%{MATCHED_VAR_NAME}", Kind: "+", Val: "1"})
		case 7:
			out = append(out, sl.Setvar{Key: Pick(r, []string{"flag", "Flag", "score", "SCORE", "last", "seen_%{MATCHED_VAR_NAME}", fmt.Sprintf("F%d", id)}), Kind: "!"})
		case 8:
			out = append(out, sl.Setvar{Key: Pick(r, []string{"flag", "Flag"}), Kind: "flag"})
		default:
			if capture {
				out = append(out, sl.Setvar{Key: "cap", Kind: "=", Val: "%{TX.1}-%{TX.2}"})
			} else {
				out = append(out, sl.Setvar{Key: fmt.Sprintf("n%d", id), Kind: "+", Val: "1"})
			}
		}
	}
	return out
}

// ActionProgram draws a rule set whose non-disruptive actions build counters that threshold rules test.
func ActionProgram(r R) *sl.Program {
	p := &sl.Program{Engine: "On"}
	if Chance(r, 0.2) {
		p.Engine = "DetectionOnly"
	}
	p.Items = append(p.Items, sl.Item{Rule: &sl.Rule{ID: 1, Phase: 1, Severity: -1, Setvars: []sl.Setvar{{Key: "crit", Kind: "=", Val: Pick(r, []string{"5", "3", "4"})}}}})
	n := 4 + r.IntN(6)
	for i := 0; i < n; i++ {
		id := 100 + i
		phase := 1 + r.IntN(5)
		capture := Chance(r, 0.2)
		rule := &sl.Rule{ID: id, Phase: phase, Severity: -1, Capture: capture}
		rule.Targets = actTargets(r)
		rule.Op = actOp(r, capture)
		rule.Setvars = actSetvars(r, id, capture)
		if Chance(r, 0.5) {
			rule.Severity = r.IntN(8)
		}
		if Chance(r, 0.3) {
			rule.Msg = Pick(r, []string{"hit %{MATCHED_VAR_NAME}", "score=%{tx.crit}", "plain message"})
		}
		if Chance(r, 0.2) {
			rule.LogData = "v=%{MATCHED_VAR}"
		}
		if !capture && Chance(r, 0.2) {
			rule.MultiMatch = true
			rule.Trans = []string{Pick(r, []string{"lowercase", "uppercase", "trim", "length"}), Pick(r, []string{"lowercase", "hexEncode", "length"})}
		}
		if Chance(r, 0.3) {
			link := &sl.Rule{Phase: phase, Severity: -1}
			link.Targets = actTargets(r)
			link.Op = actOp(r, false)
			link.Setvars = actSetvars(r, id*10, false)
			rule.Chain = link
			if Chance(r, 0.3) {
				l2 := &sl.Rule{Phase: phase, Severity: -1, Targets: []sl.Sel{{Var: "TX", Kind: 1, Key: "crit"}}, Op: &sl.Op{Name: "ge", Arg: "4"}}
				l2.Setvars = []sl.Setvar{{Key: "deep", Kind: "+", Val: "1"}}
				link.Chain = l2
			}
			// flow / disruptive action on the starter: must take effect once per completed chain
			switch r.IntN(6) {
			case 0:
				rule.Skip = 1
			case 1:
				rule.Disruptive = "deny"
				rule.Status = 406
			}
		}
		p.Items = append(p.Items, sl.Item{Rule: rule})
		if Chance(r, 0.35) {
			// threshold rule: anomaly-scoring style
			th := &sl.Rule{ID: 500 + i, Phase: phase, Severity: -1, Targets: []sl.Sel{{Var: "TX", Kind: 1, Key: Pick(r, []string{"score", "SCORE", "inbound"})}},
				Op: &sl.Op{Name: Pick(r, []string{"ge", "gt", "eq"}), Arg: Pick(r, []string{"1", "2", "5", "7", "%{tx.crit}"})}}
			if Chance(r, 0.5) {
				th.Disruptive = "deny"
				th.Status = 403
			} else {
				th.Setvars = []sl.Setvar{{Key: fmt.Sprintf("th%d", i), Kind: "=", Val: "reached"}}
			}
			p.Items = append(p.Items, sl.Item{Rule: th})
		}
	}
	if Chance(r, 0.4) {
		// quantities taken from the request: the operand of the arithmetic is request data (digit strings with
		// leading zeros, negative numbers), the sum is compared with a threshold
		ph := 1 + r.IntN(2)
		q := &sl.Rule{ID: 700, Phase: ph, Severity: -1, Targets: []sl.Sel{{Var: "ARGS_GET", Kind: 1, Key: "qty"}}, Op: &sl.Op{Name: "rx", Arg: "^-?[0-9]+$"},
			Setvars: []sl.Setvar{{Key: "total", Kind: Pick(r, []string{"+", "+", "-"}), Val: "%{MATCHED_VAR}"}}}
		if Chance(r, 0.5) {
			q.Setvars = append(q.Setvars, sl.Setvar{Key: "copy", Kind: "=", Val: "%{MATCHED_VAR}"}, sl.Setvar{Key: "copy", Kind: "+", Val: "1"})
		}
		p.Items = append(p.Items, sl.Item{Rule: q})
		th := &sl.Rule{ID: 701, Phase: ph, Severity: -1, Targets: []sl.Sel{{Var: "TX", Kind: 1, Key: "total"}}, Op: &sl.Op{Name: Pick(r, []string{"ge", "gt", "lt"}), Arg: Pick(r, []string{"10", "18", "100", "-1"})},
			Setvars: []sl.Setvar{{Key: "over", Kind: "+", Val: "1"}}}
		p.Items = append(p.Items, sl.Item{Rule: th})
	}
	return p
}
